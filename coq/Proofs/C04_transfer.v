(** C04/C12: what each transfer function of source.go does to [can_have_label]. *)
From Coq Require Import List String Bool Floats NArith Lia.
From PintV Require Import Common.Bytes Gen.C04 Model.PromQL Model.Source Model.PromSem Proofs.C04_lists.
Import ListNotations.
Open Scope string_scope.
Open Scope list_scope.

Lemma can_have_iff s l :
  can_have_label s l = true <->
  ~ In l (s_excluded s) /\ (In l (s_included s) \/ In l (s_guaranteed s) \/ s_fixed s = false).
Proof.
  unfold can_have_label.
  destruct (mem_str l (s_excluded s)) eqn:E1.
  { apply mem_str_true in E1. split; [discriminate | tauto]. }
  apply mem_str_false in E1.
  destruct (mem_str l (s_included s)) eqn:E2.
  { apply mem_str_true in E2. tauto. }
  apply mem_str_false in E2.
  destruct (mem_str l (s_guaranteed s)) eqn:E3.
  { apply mem_str_true in E3. tauto. }
  apply mem_str_false in E3.
  destruct (s_fixed s); simpl; split; try tauto; try discriminate.
  intros [_ [H|[H|H]]]; try tauto; discriminate.
Qed.

(** sources that agree on the four fields [can_have_label] reads *)
Definition same_perm (s s' : source) : Prop :=
  s_excluded s = s_excluded s' /\ s_included s = s_included s' /\
  s_guaranteed s = s_guaranteed s' /\ s_fixed s = s_fixed s'.

Lemma same_perm_refl s : same_perm s s.
Proof. repeat split. Qed.

Lemma same_perm_trans a b c : same_perm a b -> same_perm b c -> same_perm a c.
Proof. unfold same_perm. intuition congruence. Qed.

Lemma same_perm_sym a b : same_perm a b -> same_perm b a.
Proof. unfold same_perm. intuition congruence. Qed.

Lemma same_perm_can_have s s' l : same_perm s s' -> can_have_label s l = can_have_label s' l.
Proof. intros [H1 [H2 [H3 H4]]]. unfold can_have_label. rewrite H1, H2, H3, H4. reflexivity. Qed.

Lemma sp_type s v : same_perm (set_type s v) s. Proof. repeat split. Qed.
Lemma sp_returns s v : same_perm (set_returns s v) s. Proof. repeat split. Qed.
Lemma sp_operation s v : same_perm (set_operation s v) s. Proof. repeat split. Qed.
Lemma sp_selector s v : same_perm (set_selector s v) s. Proof. repeat split. Qed.
Lemma sp_call s v : same_perm (set_call s v) s. Proof. repeat split. Qed.
Lemma sp_joins s v : same_perm (set_joins s v) s. Proof. repeat split. Qed.
Lemma sp_unless s v : same_perm (set_unless s v) s. Proof. repeat split. Qed.
Lemma sp_number s v : same_perm (set_number s v) s. Proof. repeat split. Qed.
Lemma sp_dead s v : same_perm (set_dead s v) s. Proof. repeat split. Qed.
Lemma sp_dead_label s v : same_perm (set_dead_label s v) s. Proof. repeat split. Qed.
Lemma sp_always s v : same_perm (set_always s v) s. Proof. repeat split. Qed.
Lemma sp_known s v : same_perm (set_known s v) s. Proof. repeat split. Qed.
Lemma sp_cond s v : same_perm (set_cond s v) s. Proof. repeat split. Qed.
Lemma sp_retbool s v : same_perm (set_retbool s v) s. Proof. repeat split. Qed.

Lemma sp_apply_conditions s op b : same_perm (apply_conditions s op b) s.
Proof. unfold apply_conditions. destruct (check_conditions s op b). repeat split. Qed.

Lemma sp_apply_static fm fp side ls rs op d : same_perm (apply_static fm fp side ls rs op d) side.
Proof. unfold apply_static. destruct (calculate_static_return fm fp ls rs op d). repeat split. Qed.

Lemma sp_set_op_default s c : same_perm (set_op_default s c) s.
Proof. unfold set_op_default. destruct (String.eqb (s_operation s) ""); repeat split. Qed.

Lemma sp_mark_join s rs vm : same_perm (mark_join s rs vm) rs.
Proof. unfold mark_join. destruct (can_join s rs vm); repeat split. Qed.

(** the returned value type is untouched by the label operations *)
Definition le_perm (s s' : source) : Prop := forall l, can_have_label s l = true -> can_have_label s' l = true.

Lemma le_perm_refl s : le_perm s s. Proof. intros l H; exact H. Qed.
Lemma le_perm_trans a b c : le_perm a b -> le_perm b c -> le_perm a c.
Proof. intros H1 H2 l H. auto. Qed.
Lemma same_perm_le s s' : same_perm s s' -> le_perm s s'.
Proof. intros H l Hl. rewrite <- (same_perm_can_have s s' l H). exact Hl. Qed.

Lemma le_perm_guarantee s ns : le_perm s (guarantee_label s ns).
Proof.
  intros l H. apply can_have_iff in H. apply can_have_iff. unfold guarantee_label. simpl.
  destruct H as [He Hr]. split.
  - intro Hin. apply In_remove_from in Hin. tauto.
  - rewrite In_append_to. tauto.
Qed.

Lemma le_perm_include s ns : le_perm s (include_label s ns).
Proof.
  intros l H. apply can_have_iff in H. apply can_have_iff. unfold include_label. simpl.
  destruct H as [He Hr]. split.
  - intro Hin. apply In_remove_from in Hin. tauto.
  - rewrite In_append_to. tauto.
Qed.

Lemma can_have_exclude s ns l :
  can_have_label s l = true -> ~ In l ns -> can_have_label (exclude_label s ns) l = true.
Proof.
  intros H Hn. apply can_have_iff in H. apply can_have_iff. unfold exclude_label. simpl.
  destruct H as [He Hr]. split.
  - rewrite In_append_to. tauto.
  - destruct Hr as [Hr|[Hr|Hr]]; [left|right;left|right;right]; auto; apply In_remove_from_keep; auto.
Qed.

Lemma can_have_guarantee_new s ns l :
  NoDup (s_excluded s) -> In l ns -> can_have_label (guarantee_label s ns) l = true.
Proof.
  intros Hnd Hin. apply can_have_iff. unfold guarantee_label. simpl. split.
  - apply notIn_remove_from; auto.
  - right; left. rewrite In_append_to. tauto.
Qed.

Lemma can_have_include_new s ns l :
  NoDup (s_excluded s) -> In l ns -> can_have_label (include_label s ns) l = true.
Proof.
  intros Hnd Hin. apply can_have_iff. unfold include_label. simpl. split.
  - apply notIn_remove_from; auto.
  - left. rewrite In_append_to. tauto.
Qed.

(** ** NoDup of ExcludedLabels is preserved by every label operation *)

Definition nd (s : source) : Prop := NoDup (s_excluded s).

Lemma nd_same s s' : s_excluded s = s_excluded s' -> nd s' -> nd s.
Proof. unfold nd. intros ->. auto. Qed.

Lemma nd_same_perm s s' : same_perm s s' -> nd s' -> nd s.
Proof. intros [H _]. apply nd_same; auto. Qed.

Lemma nd_include s ns : nd s -> nd (include_label s ns).
Proof. unfold nd, include_label. simpl. apply NoDup_remove_from. Qed.

Lemma nd_guarantee s ns : nd s -> nd (guarantee_label s ns).
Proof. unfold nd, guarantee_label. simpl. apply NoDup_remove_from. Qed.

Lemma nd_exclude s ns : nd s -> nd (exclude_label s ns).
Proof. unfold nd, exclude_label. simpl. apply NoDup_append_to. Qed.

Lemma nd_zero : nd zero_source.
Proof. unfold nd. simpl. constructor. Qed.

(** ** maybe_include_label, restrict_* *)

Definition mi_step (G : list string) (s : source) (name : string) : source :=
  if mem_str name (s_excluded s) then s else set_included s (append_to_slice (s_included s) G).

Lemma maybe_include_unfold s names : maybe_include_label s names = fold_left (mi_step names) names s.
Proof. reflexivity. Qed.

Lemma mi_fold_fields G it : forall s,
  s_excluded (fold_left (mi_step G) it s) = s_excluded s /\
  s_guaranteed (fold_left (mi_step G) it s) = s_guaranteed s /\
  s_fixed (fold_left (mi_step G) it s) = s_fixed s /\
  (forall x, In x (s_included s) -> In x (s_included (fold_left (mi_step G) it s))).
Proof.
  induction it as [|n r IH]; intros s; simpl.
  - repeat split; auto.
  - unfold mi_step at 2 4 6 8. destruct (mem_str n (s_excluded s)) eqn:E.
    + apply IH.
    + destruct (IH (set_included s (append_to_slice (s_included s) G))) as [H1 [H2 [H3 H4]]].
      simpl in *. repeat split; auto. intros x Hx. apply H4. apply In_append_to. tauto.
Qed.

Lemma maybe_include_fields s names :
  s_excluded (maybe_include_label s names) = s_excluded s /\
  s_guaranteed (maybe_include_label s names) = s_guaranteed s /\
  s_fixed (maybe_include_label s names) = s_fixed s /\
  (forall x, In x (s_included s) -> In x (s_included (maybe_include_label s names))).
Proof. rewrite maybe_include_unfold. apply mi_fold_fields. Qed.

Lemma mi_fold_adds G l it : forall s,
  In l G -> In l it -> ~ In l (s_excluded s) -> In l (s_included (fold_left (mi_step G) it s)).
Proof.
  induction it as [|n r IH]; intros s HG Hin Hne; simpl in *; [tauto|].
  destruct Hin as [Hin|Hin].
  - subst n. unfold mi_step at 2. rewrite (mem_str_of_notIn _ _ Hne).
    apply (mi_fold_fields G r). simpl. apply In_append_to. tauto.
  - apply IH; auto. unfold mi_step. destruct (mem_str n (s_excluded s)); auto.
Qed.

Lemma maybe_include_adds s names l :
  In l names -> ~ In l (s_excluded s) -> In l (s_included (maybe_include_label s names)).
Proof. intros. rewrite maybe_include_unfold. apply mi_fold_adds; auto. Qed.

Lemma restrict_included_fields s names :
  s_excluded (restrict_included s names) = s_excluded s /\
  s_guaranteed (restrict_included s names) = s_guaranteed s /\
  s_fixed (restrict_included s names) = s_fixed s.
Proof. unfold restrict_included. simpl. auto. Qed.

Lemma restrict_guaranteed_fields s names :
  s_excluded (restrict_guaranteed s names) = s_excluded s /\
  s_included (restrict_guaranteed s names) = s_included s /\
  s_fixed (restrict_guaranteed s names) = s_fixed s.
Proof. unfold restrict_guaranteed. simpl. auto. Qed.

Lemma restrict_included_keeps s names l :
  In l (s_included s) -> In l names -> In l (s_included (restrict_included s names)).
Proof.
  intros H Hn. unfold restrict_included. simpl. apply In_remove_from_keep; auto.
  rewrite filter_In. intros [_ Hf]. rewrite (mem_str_of_In _ _ Hn) in Hf. discriminate.
Qed.

Lemma restrict_guaranteed_keeps s names l :
  In l (s_guaranteed s) -> In l names -> In l (s_guaranteed (restrict_guaranteed s names)).
Proof.
  intros H Hn. unfold restrict_guaranteed. simpl. apply In_remove_from_keep; auto.
  rewrite filter_In. intros [_ Hf]. rewrite (mem_str_of_In _ _ Hn) in Hf. discriminate.
Qed.

(** ** [spr]: same label permissions and same returned value type *)

Definition spr (s s' : source) : Prop := same_perm s s' /\ s_returns s = s_returns s'.

Lemma spr_refl s : spr s s. Proof. split; [apply same_perm_refl | reflexivity]. Qed.
Lemma spr_trans a b c : spr a b -> spr b c -> spr a c.
Proof. intros [H1 H2] [H3 H4]. split; [eapply same_perm_trans; eauto | congruence]. Qed.
Lemma spr_sym a b : spr a b -> spr b a.
Proof. intros [H1 H2]. split; [apply same_perm_sym; auto | congruence]. Qed.

Lemma spr_type s v : spr (set_type s v) s. Proof. repeat split. Qed.
Lemma spr_operation s v : spr (set_operation s v) s. Proof. repeat split. Qed.
Lemma spr_selector s v : spr (set_selector s v) s. Proof. repeat split. Qed.
Lemma spr_call s v : spr (set_call s v) s. Proof. repeat split. Qed.
Lemma spr_joins s v : spr (set_joins s v) s. Proof. repeat split. Qed.
Lemma spr_unless s v : spr (set_unless s v) s. Proof. repeat split. Qed.
Lemma spr_number s v : spr (set_number s v) s. Proof. repeat split. Qed.
Lemma spr_dead s v : spr (set_dead s v) s. Proof. repeat split. Qed.
Lemma spr_dead_label s v : spr (set_dead_label s v) s. Proof. repeat split. Qed.
Lemma spr_always s v : spr (set_always s v) s. Proof. repeat split. Qed.
Lemma spr_known s v : spr (set_known s v) s. Proof. repeat split. Qed.
Lemma spr_cond s v : spr (set_cond s v) s. Proof. repeat split. Qed.
Lemma spr_retbool s v : spr (set_retbool s v) s. Proof. repeat split. Qed.

Lemma spr_apply_conditions s op b : spr (apply_conditions s op b) s.
Proof. unfold apply_conditions. destruct (check_conditions s op b). repeat split. Qed.

Lemma spr_apply_static fm fp side ls rs op d : spr (apply_static fm fp side ls rs op d) side.
Proof. unfold apply_static. destruct (calculate_static_return fm fp ls rs op d). repeat split. Qed.

Lemma spr_set_op_default s c : spr (set_op_default s c) s.
Proof. unfold set_op_default. destruct (String.eqb (s_operation s) ""); repeat split. Qed.

Lemma spr_fold {A} (f : source -> A -> source) :
  (forall s x, spr (f s x) s) -> forall l s, spr (fold_left f l s) s.
Proof.
  intros Hf l. induction l as [|x r IH]; intros s; simpl; [apply spr_refl|].
  eapply spr_trans; [apply IH | apply Hf].
Qed.

Lemma spr_add_joins vm others s : spr (add_joins vm others s) s.
Proof. unfold add_joins. apply spr_fold. intros s0 x. apply spr_joins. Qed.

Lemma spr_can_have s s' l : spr s s' -> can_have_label s l = can_have_label s' l.
Proof. intros [H _]. apply same_perm_can_have; auto. Qed.

Lemma spr_nd s s' : spr s s' -> nd s' -> nd s.
Proof. intros [H _]. apply nd_same_perm; auto. Qed.

(** returned type is untouched by the label operations *)
Lemma ret_include s ns : s_returns (include_label s ns) = s_returns s. Proof. reflexivity. Qed.
Lemma ret_guarantee s ns : s_returns (guarantee_label s ns) = s_returns s. Proof. reflexivity. Qed.
Lemma ret_exclude s ns : s_returns (exclude_label s ns) = s_returns s. Proof. reflexivity. Qed.
Lemma ret_restrict_included s ns : s_returns (restrict_included s ns) = s_returns s. Proof. reflexivity. Qed.
Lemma ret_restrict_guaranteed s ns : s_returns (restrict_guaranteed s ns) = s_returns s. Proof. reflexivity. Qed.

Lemma ret_maybe_include s ns : s_returns (maybe_include_label s ns) = s_returns s.
Proof.
  rewrite maybe_include_unfold. generalize ns at 1. intros G. revert s.
  induction ns as [|n r IH]; intros s; simpl; auto.
  rewrite IH. unfold mi_step. destruct (mem_str n (s_excluded s)); reflexivity.
Qed.

Lemma nd_maybe_include s ns : nd s -> nd (maybe_include_label s ns).
Proof. unfold nd. destruct (maybe_include_fields s ns) as [H _]. rewrite H. auto. Qed.

Lemma nd_restrict_included s ns : nd s -> nd (restrict_included s ns).
Proof. auto. Qed.
Lemma nd_restrict_guaranteed s ns : nd s -> nd (restrict_guaranteed s ns).
Proof. auto. Qed.
