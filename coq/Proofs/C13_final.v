(** C13 — assembly: the sliced pipeline (per-slice fold, expansion, concatenation in ANY arrival order,
    MergeRanges, sort) equals the runs of ONE unsliced evaluation on the same grid. *)
From Coq Require Import List ZArith NArith Bool Lia Arith Permutation.
From PintV Require Import Common.GoTime Model.Range Model.RangeRef
  Proofs.C13_slice Proofs.C13_grid Proofs.C13_fold Proofs.C13_overlaps Proofs.C13_stair Proofs.C13_imerge
  Proofs.C13_sim Proofs.C13_runs.
Import ListNotations.
Open Scope Z_scope.

(** --- generic list facts ---------------------------------------------------------------------- *)

Lemma FOP_perm {A} (P : A -> A -> Prop) l l' : (forall a b, P a b -> P b a) ->
  Permutation l l' -> ForallOrdPairs P l -> ForallOrdPairs P l'.
Proof.
  intros Hsym Hp. induction Hp as [|x l l' Hp IH|x y l|l l' l'' H1 IH1 H2 IH2]; intros H.
  - exact H.
  - inversion H as [|? ? Hf Hr]; subst. constructor; [|apply IH; exact Hr].
    rewrite Forall_forall in *. intros z Hz. apply Hf. apply (Permutation_in z (Permutation_sym Hp) Hz).
  - inversion H as [|? ? Hf Hr]; subst. inversion Hr as [|? ? Hf2 Hr2]; subst.
    rewrite Forall_forall in *. constructor; [|constructor; [|exact Hr2]]; rewrite Forall_forall.
    + intros z [Hz|Hz]; [subst z; apply Hsym; apply Hf; left; reflexivity|apply Hf2; exact Hz].
    + intros z Hz. apply Hf. right. exact Hz.
  - apply IH2. apply IH1. exact H.
Qed.

Lemma flat_map_map {A B C} (f : A -> list B) (g : B -> C) l :
  flat_map (fun x => map g (f x)) l = map g (flat_map f l).
Proof. induction l as [|x r IH]; [reflexivity|]. cbn [flat_map]. rewrite map_app, IH. reflexivity. Qed.

Lemma flat_map_ext_in {A B} (f g : A -> list B) l : (forall x, In x l -> f x = g x) -> flat_map f l = flat_map g l.
Proof.
  induction l as [|x r IH]; intros H; [reflexivity|]. cbn [flat_map]. rewrite (H x (or_introl eq_refl)), IH; [reflexivity|].
  intros y Hy. apply H. right. exact Hy.
Qed.

Lemma filter_all {A} (f : A -> bool) l : (forall x, In x l -> f x = true) -> filter f l = l.
Proof.
  induction l as [|x r IH]; intros H; [reflexivity|]. cbn [filter]. rewrite (H x (or_introl eq_refl)). f_equal.
  apply IH. intros y Hy. apply H. right. exact Hy.
Qed.

(** --- a single series: canon_sorted is just the sort ------------------------------------------ *)

Lemma fps_of_single fp l seen : (forall x, In x l -> r_fp x = fp) ->
  fps_of l seen = if existsb (N.eqb fp) seen then [] else match l with [] => [] | _ => [fp] end.
Proof.
  revert seen. induction l as [|x r IH]; intros seen H; [destruct (existsb _ seen); reflexivity|].
  cbn [fps_of]. rewrite (H x (or_introl eq_refl)).
  assert (forall y, In y r -> r_fp y = fp) as Hr by (intros y Hy; apply H; right; exact Hy).
  destruct (existsb (N.eqb fp) seen) eqn:E.
  - rewrite (IH seen Hr), E. reflexivity.
  - rewrite (IH (fp :: seen) Hr). cbn [existsb]. rewrite N.eqb_refl. reflexivity.
Qed.

Lemma canon_sorted_single fp l : (forall x, In x l -> r_fp x = fp) -> canon_sorted l = sort_by_start l.
Proof.
  intros H. unfold canon_sorted, sorted_fps. rewrite (fps_of_single fp l [] H). cbn [existsb].
  destruct l as [|x r]; [reflexivity|]. cbn [fold_right insert_N flat_map]. rewrite app_nil_r. f_equal.
  unfold group_of. apply filter_all. intros y Hy. rewrite (H y Hy). apply N.eqb_refl.
Qed.

(** --- slices as contiguous index blocks --------------------------------------------------------- *)

Section Final.
  Variables (g0 step : Z) (fp : N) (pres : presence).
  Hypothesis Hstep : sec <= step.

  Notation p := (pidx g0 step pres).
  Notation RM := (Rm g0 step fp).

  Lemma Hpos : 0 < step.
  Proof. unfold sec in Hstep. lia. Qed.

  Inductive contig : Z -> list tr -> Prop :=
  | contig_nil i : contig i []
  | contig_cons i a b r : a = g0 + i * step -> contig (i + Z.of_nat (npoints a b step)) r -> contig i ((a, b) :: r).

  Fixpoint total (sl : list tr) : Z :=
    match sl with [] => 0 | s :: r => Z.of_nat (npoints (fst s) (snd s) step) + total r end.

  Definition pieces (s : tr) : list ival :=
    iruns p (npoints (fst s) (snd s) step) ((fst s - g0) / step) None.

  Lemma per_slice_pieces a b i : a = g0 + i * step -> per_slice1 step fp pres (a, b) = RM (pieces (a, b)).
  Proof.
    intros Ea. rewrite (per_slice_runs step fp pres a b Hpos). unfold runs_of, grid_between, pieces. cbn [fst snd].
    replace ((a - g0) / step) with i by (subst a; replace (g0 + i * step - g0) with (i * step) by lia; rewrite Z.div_mul; [reflexivity|pose proof Hpos; lia]).
    subst a. apply runs_of_idx.
  Qed.

  Definition dis (x y : ival) : Prop := snd x < fst y \/ snd y < fst x.

  Lemma sep_sorted_dis l : sep_sorted l -> ForallOrdPairs dis l /\ valid l.
  Proof.
    induction 1 as [|x l Hv Hs Hr [IH1 IH2]]; [split; [constructor|intros ? []]|]. split.
    - constructor; [|exact IH1]. apply Forall_forall. intros y Hy. left. specialize (Hs y Hy). lia.
    - intros y [E|Hy]; [subst y; exact Hv|apply IH2; exact Hy].
  Qed.

  Lemma contig_pieces i sl : contig i sl ->
    ForallOrdPairs dis (flat_map pieces sl) /\ valid (flat_map pieces sl) /\
    (forall y, In y (flat_map pieces sl) -> i <= fst y /\ snd y < i + total sl) /\
    (forall k, cov (flat_map pieces sl) k <-> (i <= k < i + total sl /\ p k = true)) /\
    (forall s, In s sl -> exists j, fst s = g0 + j * step).
  Proof.
    induction 1 as [i|i a b r Ea Hc [IH1 [IH2 [IH3 [IH4 IH5]]]]].
    - cbn [flat_map total]. split; [constructor|]. split; [intros ? []|]. split; [intros ? []|]. split; [|intros ? []].
      intros k. split; [intros [y [[] _]]|lia].
    - cbn [flat_map total fst snd]. set (n := npoints a b step) in *.
      assert (pieces (a, b) = iruns p n i None) as Ep.
      { unfold pieces. cbn [fst snd]. fold n. f_equal. subst a. replace (g0 + i * step - g0) with (i * step) by lia.
        apply Z.div_mul. pose proof Hpos; lia. }
      rewrite Ep. destruct (iruns_props p n i None I) as [P1 [P2 [P3 P4]]]. cbn [cur_lo in_cur] in *.
      destruct (sep_sorted_dis _ P1) as [D1 V1].
      split; [|split; [|split; [|split]]].
      + apply FOP_app. split; [exact D1|]. split; [exact IH1|]. intros x y Hx Hy. left.
        destruct (P2 x Hx) as [_ B]. destruct (IH3 y Hy) as [A _]. lia.
      + intros y Hy. apply in_app_or in Hy. destruct Hy as [Hy|Hy]; [apply V1|apply IH2]; exact Hy.
      + intros y Hy. apply in_app_or in Hy. destruct Hy as [Hy|Hy].
        * destruct (P2 y Hy) as [A B]. assert (0 <= total r).
          { clear. induction r as [|s r IH]; cbn [total]; lia. } lia.
        * destruct (IH3 y Hy). lia.
      + intros k. unfold cov in *. split.
        * intros [y [Hy Hk]]. apply in_app_or in Hy. destruct Hy as [Hy|Hy].
          -- assert (exists y, In y (iruns p n i None) /\ fst y <= k <= snd y) as C by (exists y; tauto).
             apply P4 in C. destruct C as [[]|[C1 C2]]. assert (0 <= total r) by (clear; induction r as [|s r IH]; cbn [total]; lia). split; [lia|exact C2].
          -- assert (exists y, In y (flat_map pieces r) /\ fst y <= k <= snd y) as C by (exists y; tauto).
             apply IH4 in C. split; [lia|tauto].
        * intros [Hk Hp]. destruct (Z_lt_le_dec k (i + Z.of_nat n)) as [L|L].
          -- assert (exists y, In y (iruns p n i None) /\ fst y <= k <= snd y) as [y [Hy Hky]] by (apply P4; right; split; [lia|exact Hp]).
             exists y. split; [apply in_or_app; left; exact Hy|exact Hky].
          -- assert (exists y, In y (flat_map pieces r) /\ fst y <= k <= snd y) as [y [Hy Hky]] by (apply IH4; split; [lia|exact Hp]).
             exists y. split; [apply in_or_app; right; exact Hy|exact Hky].
      + intros s [E|Hs]; [subst s; exists i; exact Ea|apply IH5; exact Hs].
  Qed.

  Lemma dis_Inv l : ForallOrdPairs dis l -> valid l -> Inv l.
  Proof.
    intros Hd Hv.
    assert (forall a b, dis a b -> dis b a) as Hsym by (unfold dis; tauto).
    split; [|split; [|exact Hv]].
    - induction Hd as [|x r Hf Hr IH]; [constructor|]. constructor.
      + rewrite Forall_forall in *. intros y Hy. pose proof (Hf y Hy) as D.
        pose proof (Hv x (or_introl eq_refl)). pose proof (Hv y (or_intror Hy)). unfold ord, lt2, dis in *. lia.
      + apply IH. intros y Hy. apply Hv. right. exact Hy.
    - intros y x z Hy Hx Hz Lyx Lxz.
      pose proof (Hv x Hx). pose proof (Hv y Hy). pose proof (Hv z Hz).
      destruct (FOP_In dis l Hd Hsym y x Hy Hx) as [E|D1]; [subst; unfold lt2 in Lyx; lia|].
      destruct (FOP_In dis l Hd Hsym x z Hx Hz) as [E|D2]; [subst; unfold lt2 in Lxz; lia|].
      unfold dis, lt2 in *. lia.
  Qed.

  (** --- the theorem for contiguous slices ------------------------------------------------------- *)

  Theorem finalize_contig i sl arrival fuel : contig i sl -> Permutation arrival sl ->
    (length (flat_map (per_slice1 step fp pres) arrival) < fuel)%nat ->
    finalize fuel step (flat_map (per_slice1 step fp pres) arrival)
    = Some (RM (iruns p (Z.to_nat (total sl)) i None)).
  Proof.
    intros Hc Hperm Hfuel. destruct (contig_pieces i sl Hc) as [C1 [C2 [C3 [C4 C5]]]].
    set (L := flat_map pieces arrival).
    assert (Permutation L (flat_map pieces sl)) as HpL by (apply Permutation_flat_map; exact Hperm).
    assert (flat_map (per_slice1 step fp pres) arrival = RM L) as EL.
    { unfold L, Rm. rewrite <- flat_map_map. apply flat_map_ext_in. intros [a b] Hs.
      destruct (C5 (a, b) (Permutation_in _ Hperm Hs)) as [j Ej]. cbn [fst] in Ej. apply (per_slice_pieces a b j Ej). }
    assert (forall a b, dis a b -> dis b a) as Hsym by (unfold dis; tauto).
    assert (valid L) as HvL by (intros x Hx; apply C2; apply (Permutation_in _ HpL Hx)).
    assert (Inv L) as HIL.
    { apply dis_Inv; [|exact HvL]. apply (FOP_perm dis _ _ Hsym (Permutation_sym HpL) C1). }
    assert (forall k, cov L k <-> (i <= k < i + total sl /\ p k = true)) as HcL.
    { intros k. rewrite <- C4. unfold cov. split; intros [x [Hx Hk]]; exists x; (split; [|exact Hk]);
        [apply (Permutation_in _ HpL Hx)|apply (Permutation_in _ (Permutation_sym HpL) Hx)]. }
    assert (0 <= total sl) as Htot by (clear; induction sl as [|s r IH]; cbn [total]; lia).
    (* what finalize returns: the sorted image of a non-touching valid list with the coverage of L *)
    assert (exists R', finalize fuel step (flat_map (per_slice1 step fp pres) arrival)
                       = Some (RM (isort R')) /\ ForallOrdPairs nontouch R' /\ valid R' /\ (forall k, cov R' k <-> cov L k))
      as [R' [Eres [HntR [HvR HcR]]]].
    { rewrite EL in *. unfold finalize.
      assert (forall l, canon_sorted (RM l) = RM (isort l)) as Ecs.
      { intros l. rewrite (canon_sorted_single fp).
        - apply (sort_sim g0 step fp Hstep).
        - intros x Hx. unfold Rm in Hx. apply in_map_iff in Hx. destruct Hx as [y [E _]]. subst x. reflexivity. }
      destruct L as [|x [|y r]] eqn:EqL.
      - exists []. split; [reflexivity|]. split; [constructor|]. split; [intros ? []|tauto].
      - exists [x]. cbn [Rm map]. change [R g0 step fp x] with (RM [x]). rewrite (Ecs [x]).
        split; [reflexivity|]. split; [constructor; constructor|]. split; [exact HvL|tauto].
      - change (RM (x :: y :: r)) with (R g0 step fp x :: R g0 step fp y :: RM r).
        change (R g0 step fp x :: R g0 step fp y :: RM r) with (RM (x :: y :: r)).
        rewrite (merge_sim g0 step fp Hstep _ (x :: y :: r) HvL).
        destruct (imerge_spec fuel (x :: y :: r)) as [R [b [Em [HIR [HcR' [HnR _]]]]]].
        + unfold Rm in Hfuel. rewrite map_length in Hfuel. exact Hfuel.
        + exact HIL.
        + rewrite Em. cbn [option_map fst snd]. exists R. rewrite (Ecs R). split; [reflexivity|]. split; [exact HnR|].
          split; [apply HIR|exact HcR']. }
    rewrite Eres. f_equal. f_equal.
    apply sep_sorted_unique.
    - apply isort_sep; assumption.
    - apply (iruns_props p (Z.to_nat (total sl)) i None I).
    - intros k. rewrite isort_cov, HcR, HcL.
      destruct (iruns_props p (Z.to_nat (total sl)) i None I) as [_ [_ [_ P4]]]. rewrite P4. cbn [in_cur].
      rewrite Z2Nat.id by exact Htot. tauto.
  Qed.

  Theorem sliced_contig i sl arrival : contig i sl -> Permutation arrival sl ->
    sliced1 (merge_fuel (flat_map (per_slice1 step fp pres) arrival)) step fp pres arrival
    = Some (RM (iruns p (Z.to_nat (total sl)) i None)).
  Proof.
    intros Hc Hperm. unfold sliced1, sliced.
    change (flat_map (per_slice step [(fp, pres)]) arrival) with (flat_map (per_slice1 step fp pres) arrival).
    apply finalize_contig; [exact Hc|exact Hperm|]. unfold merge_fuel. lia.
  Qed.
End Final.
