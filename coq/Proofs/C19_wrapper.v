(** C19, part 2: fuel monotonicity of the relaxed descent and wrapper invariance (mappings, sequences, documents). *)
From Coq Require Import List String Ascii Arith Bool Lia.
From PintV Require Import Common.Bytes Model.Yaml Model.Parser Proofs.C19_relaxed.
Import ListNotations.
Open Scope string_scope.
Open Scope list_scope.

Lemma concat_opt_mono {A B} (F G : B -> option (list A)) : forall l r,
  (forall c x, In c l -> F c = Some x -> G c = Some x) ->
  concat_opt (map F l) = Some r -> concat_opt (map G l) = Some r.
Proof.
  induction l as [|c l IH]; intros r H E; cbn [map concat_opt] in *; [exact E|].
  destruct (F c) as [x|] eqn:Fc; [|discriminate].
  rewrite (H c x (or_introl eq_refl) Fc).
  destruct (concat_opt (map F l)) as [y|] eqn:Fl; [|discriminate].
  rewrite (IH y (fun c0 x0 Hc => H c0 x0 (or_intror Hc)) eq_refl). exact E.
Qed.

Lemma concat_opt_app {A} : forall (a b : list (option (list A))) x y,
  concat_opt a = Some x -> concat_opt b = Some y -> concat_opt (a ++ b) = Some (x ++ y).
Proof.
  induction a as [|o a IH]; intros b x y Ha Hb; cbn [concat_opt app] in *.
  - inversion Ha; subst. exact Hb.
  - destruct o as [z|]; [|discriminate]. destruct (concat_opt a) as [w|] eqn:E; [|discriminate].
    inversion Ha; subst. rewrite (IH b w y eq_refl Hb). now rewrite app_assoc.
Qed.

(** ---- heights ---- *)
Lemma nodes_height_In c l : In c l -> node_height c <= nodes_height l.
Proof.
  induction l as [|x r IH]; intros H; [destruct H|]. cbn [nodes_height]. destruct H as [->|H]; [lia|].
  specialize (IH H). lia.
Qed.

Lemma nodes_height_incl l1 l2 : (forall c, In c l1 -> In c l2) -> nodes_height l1 <= nodes_height l2.
Proof.
  induction l1 as [|x r IH]; intros H; cbn [nodes_height]; [lia|].
  pose proof (nodes_height_In x l2 (H x (or_introl eq_refl))).
  specialize (IH (fun c Hc => H c (or_intror Hc))). lia.
Qed.

Lemma height_content n c : In c (n_content n) -> node_height c < node_height n.
Proof. intros H. rewrite (node_height_eq n). pose proof (nodes_height_In c _ H). lia. Qed.

Lemma height_alias n t : n_alias n = Some t -> node_height t < node_height n.
Proof. intros H. rewrite (node_height_eq n), H. lia. Qed.

Lemma height_embedded n e : n_embedded n = Some e -> node_height e < node_height n.
Proof. intros H. rewrite (node_height_eq n), H. lia. Qed.

Lemma height_copy p q t :
  n_alias p = Some t -> node_height (set_content p (filter_pairs q (n_content t))) <= node_height p.
Proof.
  intros H. rewrite (node_height_eq (set_content _ _)), (node_height_eq p). unfold set_content.
  cbn [n_content n_alias n_embedded]. rewrite H.
  assert (nodes_height (filter_pairs q (n_content t)) <= nodes_height (n_content t)).
  { apply nodes_height_incl. intros c. apply filter_pairs_In. }
  rewrite (node_height_eq t). lia.
Qed.

Lemma height_unpack n c : In c (unpack_nodes n) -> node_height c < node_height n.
Proof.
  intros H. destruct (unpack_loop_cases n _ _ _ H) as [X|[(p & t & X1 & X2 & ->)|(p & t & X1 & X2 & X3)]].
  - now apply height_content.
  - pose proof (height_copy p p t X2). pose proof (height_content n p X1). lia.
  - apply filter_pairs_In in X3. pose proof (height_content t c X3). pose proof (height_alias p t X2).
    pose proof (height_content n p X1). lia.
Qed.

Lemma concat_opt_total {A B} (F : B -> option (list A)) l :
  (forall c, In c l -> exists r, F c = Some r) -> exists r, concat_opt (map F l) = Some r.
Proof.
  induction l as [|c l IH]; intros H; cbn [map concat_opt]; [eauto|].
  destruct (H c (or_introl eq_refl)) as [x ->]. destruct (IH (fun c0 Hc => H c0 (or_intror Hc))) as [y ->]. eauto.
Qed.

Lemma concat_opt_map_app_inv {A B} (F : B -> option (list A)) : forall a x b gs,
  concat_opt (map F (a ++ x :: b)) = Some gs ->
  exists ga gx gb, concat_opt (map F a) = Some ga /\ F x = Some gx /\ concat_opt (map F b) = Some gb /\ gs = ga ++ gx ++ gb.
Proof.
  induction a as [|y a IH]; intros x b gs H; cbn [app map concat_opt] in *.
  - destruct (F x) as [gx|]; [|discriminate]. destruct (concat_opt (map F b)) as [gb|]; [|discriminate].
    inversion H; subst. exists [], gx, gb. auto.
  - destruct (F y) as [gy|]; [|discriminate]. destruct (concat_opt (map F (a ++ x :: b))) as [r|] eqn:E; [|discriminate].
    inversion H; subst. destruct (IH x b r E) as (ga & gx & gb & -> & E2 & E3 & ->).
    exists (gy ++ ga), gx, gb. repeat split; auto. now rewrite app_assoc.
Qed.

Lemma concat_opt_no_rules {B} (F : B -> option (list group)) : forall l gs,
  concat_opt (map F l) = Some gs ->
  (forall c g, In c l -> F c = Some g -> all_rules g = []) -> all_rules gs = [].
Proof.
  induction l as [|c l IH]; intros gs H Hn; cbn [map concat_opt] in H.
  - inversion H. reflexivity.
  - destruct (F c) as [g|] eqn:Fc; [|discriminate]. destruct (concat_opt (map F l)) as [r|] eqn:E; [|discriminate].
    inversion H; subst. rewrite all_rules_app, (Hn c g (or_introl eq_refl) Fc), (IH r eq_refl); auto.
    intros c0 g0 Hc. apply Hn. right. exact Hc.
Qed.

Section Wrapper.
  Variable plines : list string -> node -> nat -> nat * nat.
  Variables metric_ok lname_ok lvalue_ok : string -> bool.

  Notation PR := (parse_rule plines metric_ok lname_ok lvalue_ok).
  Notation PN := (parse_node plines metric_ok lname_ok lvalue_ok).
  Notation TPG := (try_parse_group plines).
  Notation PNS := (parse_node_S plines metric_ok lname_ok lvalue_ok).

  Definition sel_rules (x : rule + option (list group)) : list rule := match x with inl r => [r] | inr _ => [] end.
  Definition sel_nested (x : rule + option (list group)) : list (option (list group)) := match x with inl _ => [] | inr o => [o] end.
  Definition seq_step (fuel : nat) (lines : list string) (off : nat) (n : node) (c : node) : rule + option (list group) :=
    let '(r, is_empty) := PR lines off c in
    if is_empty then inr (PN fuel lines off c (Some n) None) else inl r.

  Lemma seq_step_eq fuel lines off n c :
    seq_step fuel lines off n c =
    match PR lines off c with
    | (r, true) => inr (PN fuel lines off c (Some n) None)
    | (r, false) => inl r
    end.
  Proof. unfold seq_step. destruct (PR lines off c) as [r [|]]; reflexivity. Qed.

  (** More fuel never changes a completed descent. *)
  Lemma parse_node_mono : forall fuel lines off n parent grp r,
    PN fuel lines off n parent grp = Some r -> PN (S fuel) lines off n parent grp = Some r.
  Proof.
    induction fuel as [|fuel IH]; intros lines off n parent grp r H; [discriminate|].
    rewrite PNS in H. rewrite PNS. cbn zeta in *.
    assert (Hch : forall x, concat_opt (map (fun c => PN fuel lines off c (Some n) grp) (unpack_nodes n)) = Some x ->
                            concat_opt (map (fun c => PN (S fuel) lines off c (Some n) grp) (unpack_nodes n)) = Some x).
    { intros x. apply concat_opt_mono. intros c y _. apply IH. }
    destruct (n_kind n); auto.
    - (* sequence *)
      destruct (parent_is parent "groups").
      + revert H. apply concat_opt_mono. intros c x _. destruct (TPG lines off c) as [[g [rk rv]]|]; auto.
      + fold (seq_step fuel lines off n) in H. fold (seq_step (S fuel) lines off n).
        fold sel_rules in *. fold sel_nested in *.
        assert (Hseq : forall l,
                   flat_map sel_rules (map (seq_step (S fuel) lines off n) l) = flat_map sel_rules (map (seq_step fuel lines off n) l) /\
                   forall x, concat_opt (flat_map sel_nested (map (seq_step fuel lines off n) l)) = Some x ->
                             concat_opt (flat_map sel_nested (map (seq_step (S fuel) lines off n) l)) = Some x).
        { induction l as [|c l [IH1 IH2]]; [split; auto|].
          cbn [map flat_map]. rewrite (seq_step_eq fuel), (seq_step_eq (S fuel)).
          destruct (PR lines off c) as [rr e]. destruct e; cbn [sel_rules sel_nested app].
          - split; [exact IH1|]. intros x. cbn [concat_opt].
            destruct (PN fuel lines off c (Some n) None) as [y|] eqn:E; [|discriminate].
            rewrite (IH _ _ _ _ _ _ E).
            destruct (concat_opt (flat_map sel_nested (map (seq_step fuel lines off n) l))) as [z|] eqn:E2; [|discriminate].
            rewrite (IH2 z eq_refl). auto.
          - split; [now rewrite IH1|exact IH2]. }
        destruct (Hseq (unpack_nodes n)) as [H1 H2]. rewrite H1.
        destruct (concat_opt (flat_map sel_nested (map (seq_step fuel lines off n) (unpack_nodes n)))) as [z|] eqn:E; [|discriminate].
        rewrite (H2 z eq_refl). exact H.
    - (* mapping *)
      revert H. apply concat_opt_mono. intros [k v] x _. apply IH.
    - (* scalar *)
      destruct (_ && _ && _)%bool; auto. destruct (n_embedded n); auto.
  Qed.

  Lemma parse_node_mono_plus fuel k lines off n parent grp r :
    PN fuel lines off n parent grp = Some r -> PN (fuel + k) lines off n parent grp = Some r.
  Proof.
    intros H. induction k as [|k IH]; [now rewrite Nat.add_0_r|].
    rewrite Nat.add_succ_r. now apply parse_node_mono.
  Qed.

  Lemma try_group_loop_In lines off : forall l g ro g' rk rv,
    try_group_loop plines lines off l g ro = (g', Some (rk, rv)) -> ro = Some (rk, rv) \/ In (rk, rv) l.
  Proof.
    induction l as [|[k v] r IH]; intros g ro g' rk rv H; cbn [try_group_loop] in H.
    - inversion H; auto.
    - destruct (node_value k =? "name"); [destruct (IH _ _ _ _ _ H); auto; right; right; auto|].
      destruct (node_value k =? "labels"); [destruct (IH _ _ _ _ _ H); auto; right; right; auto|].
      destruct (node_value k =? "rules").
      + destruct (IH _ _ _ _ _ H) as [X|X]; [|right; right; exact X].
        destruct (kind_eqb (n_kind v) KSequence); auto. inversion X; subst. right. left. reflexivity.
      + destruct (IH _ _ _ _ _ H); auto. right; right; auto.
  Qed.

  Lemma try_parse_group_In lines off c g rk rv :
    TPG lines off c = Some (g, (rk, rv)) -> In rv (n_content c).
  Proof.
    unfold try_parse_group. destruct (try_group_loop plines lines off (mapping_nodes c) empty_group None) as [g' [[k v]|]] eqn:E; [|discriminate].
    destruct (g_name g' =? ""); [discriminate|]. intros H. inversion H; subst.
    destruct (try_group_loop_In _ _ _ _ _ _ _ _ E) as [X|X]; [discriminate|].
    exact (proj2 (mapping_nodes_l_In _ _ _ X)).
  Qed.

  (** The descent completes whenever the fuel reaches the height of the node: [doc_fuel] always suffices. *)
  Lemma parse_node_total : forall fuel lines off n parent grp,
    node_height n <= fuel -> exists r, PN fuel lines off n parent grp = Some r.
  Proof.
    induction fuel as [|fuel IH]; intros lines off n parent grp H.
    { rewrite (node_height_eq n) in H. lia. }
    rewrite PNS. cbn zeta.
    assert (Hch : forall g, exists r, concat_opt (map (fun c => PN fuel lines off c (Some n) g) (unpack_nodes n)) = Some r).
    { intros g. apply concat_opt_total. intros c Hc. apply IH. pose proof (height_unpack n c Hc). lia. }
    destruct (n_kind n); auto.
    - destruct (parent_is parent "groups").
      + apply concat_opt_total. intros c Hc. destruct (TPG lines off c) as [[g [rk rv]]|] eqn:E; [|eauto].
        apply IH. pose proof (height_content c rv (try_parse_group_In _ _ _ _ _ _ E)). pose proof (height_unpack n c Hc). lia.
      + fold (seq_step fuel lines off n). fold sel_rules. fold sel_nested.
        assert (Hn : exists z, concat_opt (flat_map sel_nested (map (seq_step fuel lines off n) (unpack_nodes n))) = Some z).
        { assert (G : forall l, (forall c, In c l -> In c (unpack_nodes n)) ->
                                exists z, concat_opt (flat_map sel_nested (map (seq_step fuel lines off n) l)) = Some z).
          { induction l as [|c l IHl]; intros Hl; [cbn; eauto|].
            cbn [map flat_map]. rewrite seq_step_eq. destruct (PR lines off c) as [rr [|]]; cbn [sel_nested app].
            - destruct (IH lines off c (Some n) None) as [x Hx].
              { pose proof (height_unpack n c (Hl c (or_introl eq_refl))). lia. }
              destruct (IHl (fun c0 Hc => Hl c0 (or_intror Hc))) as [y Hy]. cbn [concat_opt]. rewrite Hx, Hy. eauto.
            - apply IHl. intros c0 Hc. apply Hl. right. exact Hc. }
          apply G. auto. }
        destruct Hn as [z ->]. eauto.
    - apply concat_opt_total. intros [k v] Hc. apply IH.
      pose proof (height_content n v (proj2 (mapping_nodes_l_In _ _ _ Hc))). lia.
    - destruct (_ && _ && _)%bool; auto. destruct (n_embedded n) as [e|] eqn:E; auto.
      apply IH. pose proof (height_embedded n e E). lia.
  Qed.

  (** Completed runs agree, whatever their fuel. *)
  Lemma parse_node_agree f1 f2 lines off n parent grp r1 r2 :
    PN f1 lines off n parent grp = Some r1 -> PN f2 lines off n parent grp = Some r2 -> r1 = r2.
  Proof.
    intros H1 H2. apply (parse_node_mono_plus f1 f2) in H1. apply (parse_node_mono_plus f2 f1) in H2.
    rewrite Nat.add_comm in H2. congruence.
  Qed.

  (** ---- wrappers ---- *)
  Definition no_rules_in (lines : list string) (off : nat) (x : node) (parent : option node) : Prop :=
    forall f gs, PN f lines off x parent None = Some gs -> all_rules gs = [].

  Definition not_a_rule (lines : list string) (off : nat) (x : node) : Prop := snd (PR lines off x) = true.

  (** [wrapper linesS offS S pS lines off m parent]: the node [m] (parsed with parent [parent], content lines
      [lines], line offset [off]) contains the node [S] (parsed with parent [pS], content lines [linesS], offset
      [offS]) under mapping levels (any key), sequence levels (not directly under a `groups` key; the items on the
      path and their siblings are not rules themselves), document/alias levels, and YAML-in-YAML levels (a literal
      block scalar whose value pint re-parses: the embedded document is parsed against the lines of the VALUE with
      the scalar's line added to the offset); every sibling subtree contains no rules. *)
  Inductive wrapper (linesS : list string) (offS : nat) (S : node) (pS : option node)
    : list string -> nat -> node -> option node -> Prop :=
  | W_hole : wrapper linesS offS S pS linesS offS S pS
  | W_map lines off m parent k inner before after :
      wrapper linesS offS S pS lines off inner (Some k) ->
      n_kind m = KMapping ->
      mapping_nodes m = before ++ (k, inner) :: after ->
      (forall k' v', In (k', v') (before ++ after) -> no_rules_in lines off v' (Some k')) ->
      wrapper linesS offS S pS lines off m parent
  | W_seq lines off m parent inner before after :
      wrapper linesS offS S pS lines off inner (Some m) ->
      n_kind m = KSequence ->
      parent_is parent "groups" = false ->
      unpack_nodes m = before ++ inner :: after ->
      not_a_rule lines off inner ->
      (forall x, In x (before ++ after) -> not_a_rule lines off x /\ no_rules_in lines off x (Some m)) ->
      wrapper linesS offS S pS lines off m parent
  | W_other lines off m parent inner before after :
      wrapper linesS offS S pS lines off inner (Some m) ->
      n_kind m = KDocument \/ n_kind m = KAlias \/ n_kind m = KZero ->
      unpack_nodes m = before ++ inner :: after ->
      (forall x, In x (before ++ after) -> no_rules_in lines off x (Some m)) ->
      wrapper linesS offS S pS lines off m parent
  | W_embedded lines off m parent e :
      wrapper linesS offS S pS (split_lines (n_value m)) (off + n_line m) e (Some m) ->
      n_kind m = KScalar ->
      (Nat.ltb 1 (count_char nlc (n_value m)) && negb (String.eqb (n_value m) (join_lines lines))
       && Nat.ltb (n_line m) (List.length lines))%bool = true ->
      n_embedded m = Some e ->
      wrapper linesS offS S pS lines off m parent.

  Lemma seq_all_empty fuel lines off m : forall l,
    (forall x, In x l -> not_a_rule lines off x) ->
    flat_map sel_rules (map (seq_step fuel lines off m) l) = [] /\
    flat_map sel_nested (map (seq_step fuel lines off m) l) = map (fun c => PN fuel lines off c (Some m) None) l.
  Proof.
    induction l as [|c l IH]; intros H; [split; reflexivity|].
    destruct (IH (fun x Hx => H x (or_intror Hx))) as [E1 E2].
    cbn [map flat_map]. rewrite seq_step_eq. pose proof (H c (or_introl eq_refl)) as Hc. unfold not_a_rule in Hc.
    destruct (PR lines off c) as [rr e]. cbn [snd] in Hc. subst e. cbn [sel_rules sel_nested app].
    rewrite E1, E2. split; reflexivity.
  Qed.

  Lemma in_app_mid {A} (x : A) a b y : In y (a ++ x :: b) <-> y = x \/ In y (a ++ b).
  Proof.
    rewrite !in_app_iff. cbn [In]. intuition.
  Qed.

  (** Wrapper invariance: any completed run on the wrapped node finds exactly the rules a completed run finds in the hole. *)
  Theorem wrapper_invariance linesS offS S pS lines off m parent :
    wrapper linesS offS S pS lines off m parent ->
    forall f1 f2 gsS gs,
      PN f1 linesS offS S pS None = Some gsS ->
      PN f2 lines off m parent None = Some gs ->
      all_rules gs = all_rules gsS.
  Proof.
    induction 1 as [| lines off m parent k inner before after Hw IH Hk Hm Hsib
                    | lines off m parent inner before after Hw IH Hk Hp Hu Hin Hsib
                    | lines off m parent inner before after Hw IH Hk Hu Hsib
                    | lines off m parent e Hw IH Hk Hcond Hem]; intros f1 f2 gsS gs H1 H2.
    - now rewrite (parse_node_agree _ _ _ _ _ _ _ _ _ H1 H2).
    - destruct f2 as [|f2]; [discriminate|]. rewrite PNS in H2. rewrite Hk in H2. cbn zeta in H2. rewrite Hm in H2.
      destruct (concat_opt_map_app_inv _ _ _ _ _ H2) as (ga & gx & gb & Ea & Ex & Eb & ->).
      rewrite !all_rules_app, (IH _ _ _ _ H1 Ex).
      rewrite (concat_opt_no_rules _ _ _ Ea), (concat_opt_no_rules _ _ _ Eb); [now rewrite app_nil_r| |].
      + intros [k' v'] g Hc Hg. apply (Hsib k' v' (in_or_app _ _ _ (or_intror Hc)) _ _ Hg).
      + intros [k' v'] g Hc Hg. apply (Hsib k' v' (in_or_app _ _ _ (or_introl Hc)) _ _ Hg).
    - destruct f2 as [|f2]; [discriminate|]. rewrite PNS in H2. rewrite Hk in H2. cbn zeta in H2. rewrite Hp in H2.
      fold (seq_step f2 lines off m) in H2. fold sel_rules in H2. fold sel_nested in H2.
      destruct (seq_all_empty f2 lines off m (unpack_nodes m)) as [E1 E2].
      { intros x Hx. rewrite Hu in Hx. apply in_app_mid in Hx. destruct Hx as [->|Hx]; [exact Hin|exact (proj1 (Hsib x Hx))]. }
      rewrite E1, E2 in H2. rewrite Hu in H2.
      destruct (concat_opt (map (fun c => PN f2 lines off c (Some m) None) (before ++ inner :: after))) as [nested|] eqn:En; [|discriminate].
      destruct (concat_opt_map_app_inv _ _ _ _ _ En) as (ga & gx & gb & Ea & Ex & Eb & ->).
      inversion H2; subst gs. clear H2.
      assert (Hhead : all_rules (if parent_is parent "rules" then [empty_group] else []) = []) by (destruct (parent_is parent "rules"); reflexivity).
      rewrite !all_rules_app, Hhead, (IH _ _ _ _ H1 Ex).
      rewrite (concat_opt_no_rules _ _ _ Ea), (concat_opt_no_rules _ _ _ Eb); [now rewrite app_nil_r| |].
      + intros c g Hc Hg. apply (proj2 (Hsib c (in_or_app _ _ _ (or_intror Hc))) _ _ Hg).
      + intros c g Hc Hg. apply (proj2 (Hsib c (in_or_app _ _ _ (or_introl Hc))) _ _ Hg).
    - destruct f2 as [|f2]; [discriminate|]. rewrite PNS in H2. cbn zeta in H2.
      assert (H2' : concat_opt (map (fun c => PN f2 lines off c (Some m) None) (unpack_nodes m)) = Some gs).
      { destruct Hk as [Hk|[Hk|Hk]]; rewrite Hk in H2; exact H2. }
      rewrite Hu in H2'.
      destruct (concat_opt_map_app_inv _ _ _ _ _ H2') as (ga & gx & gb & Ea & Ex & Eb & ->).
      rewrite !all_rules_app, (IH _ _ _ _ H1 Ex).
      rewrite (concat_opt_no_rules _ _ _ Ea), (concat_opt_no_rules _ _ _ Eb); [now rewrite app_nil_r| |].
      + intros c g Hc Hg. apply (Hsib c (in_or_app _ _ _ (or_intror Hc)) _ _ Hg).
      + intros c g Hc Hg. apply (Hsib c (in_or_app _ _ _ (or_introl Hc)) _ _ Hg).
    - destruct f2 as [|f2]; [discriminate|]. rewrite PNS in H2. rewrite Hk in H2. cbn zeta in H2.
      rewrite Hcond, Hem in H2. exact (IH _ _ _ _ H1 H2).
  Qed.

  (** The parent key of a rule list only matters through the reserved names: under any two parents other
      than `groups` the same rules are found (a `rules` parent only adds an empty group for an empty list). *)
  Theorem seq_parent_irrelevant f lines off S p p' g1 g2 :
    n_kind S = KSequence -> parent_is p "groups" = false -> parent_is p' "groups" = false ->
    PN f lines off S p None = Some g1 -> PN f lines off S p' None = Some g2 ->
    all_rules g1 = all_rules g2.
  Proof.
    intros Hk Hp Hp' H1 H2. destruct f as [|f]; [discriminate|]. rewrite PNS in H1, H2. rewrite Hk in H1, H2. cbn zeta in *.
    rewrite Hp in H1. rewrite Hp' in H2.
    destruct (concat_opt _) as [nested|]; [|discriminate].
    inversion H1; inversion H2; subst. rewrite !all_rules_app. f_equal.
    destruct (flat_map _ _); [|reflexivity].
    destruct (parent_is p "rules"), (parent_is p' "rules"); reflexivity.
  Qed.

  (** ---- documents ---- *)
  Lemma parse_relaxed_loop_spec all_lines yerr : forall ds acc,
    (forall d nl, In (d, nl) ds -> too_big d = false) ->
    exists gs, parse_relaxed_loop plines metric_ok lname_ok lvalue_ok all_lines ds yerr acc =
                 Some {| f_groups := acc ++ gs; f_error := yerr |} /\
               concat_opt (map (fun d : node * nat => PN (doc_fuel (fst d)) (firstn (snd d) all_lines) 0 (fst d) None None) ds) = Some gs.
  Proof.
    induction ds as [|[d nl] r IH]; intros acc Hsmall; cbn [parse_relaxed_loop map concat_opt fst snd].
    - exists []. now rewrite app_nil_r.
    - rewrite (Hsmall d nl (or_introl eq_refl)).
      destruct (parse_node_total (doc_fuel d) (firstn nl all_lines) 0 d None None) as [x Hx]; [unfold doc_fuel; lia|].
      rewrite Hx. destruct (IH (acc ++ x) (fun d0 nl0 H0 => Hsmall d0 nl0 (or_intror H0))) as (gs & E1 & E2). rewrite E1, E2.
      exists (x ++ gs). now rewrite app_assoc.
  Qed.

  (** Parser.Parse in relaxed mode always returns: every document either is refused by the alias-expansion limit (2108dfa,
      the remaining documents are not read) or is descended completely with the fuel [doc_fuel]. *)
  Lemma parse_relaxed_loop_total all_lines yerr : forall ds acc,
    exists f, parse_relaxed_loop plines metric_ok lname_ok lvalue_ok all_lines ds yerr acc = Some f /\
              (f_error f = yerr \/ exists d nl, In (d, nl) ds /\ too_big d = true /\ f_error f = Some (too_big_error d)).
  Proof.
    induction ds as [|[d nl] r IH]; intros acc; cbn [parse_relaxed_loop].
    - eexists. split; [reflexivity|]. left. reflexivity.
    - destruct (too_big d) eqn:TB.
      + eexists. split; [reflexivity|]. right. exists d, nl. split; [left; reflexivity|]. split; [exact TB|reflexivity].
      + destruct (parse_node_total (doc_fuel d) (firstn nl all_lines) 0 d None None) as [x Hx]; [unfold doc_fuel; lia|].
        rewrite Hx. destruct (IH (acc ++ x)) as (f & E & [Hf|(d0 & nl0 & Hin & Hb & He)]).
        * exists f. split; [exact E|]. left. exact Hf.
        * exists f. split; [exact E|]. right. exists d0, nl0. split; [right; exact Hin|]. split; assumption.
  Qed.

  (** File level: the wrapped document may be preceded and followed by documents that contain no rules. *)
  Theorem wrapper_invariance_file all_lines yerr before m nl after linesS offS S pS f1 gsS :
    (forall x k, In (x, k) (before ++ (m, nl) :: after) -> too_big x = false) ->
    (forall x k, In (x, k) (before ++ after) -> no_rules_in (firstn k all_lines) 0 x None) ->
    wrapper linesS offS S pS (firstn nl all_lines) 0 m None ->
    PN f1 linesS offS S pS None = Some gsS ->
    exists f, parse_relaxed plines metric_ok lname_ok lvalue_ok all_lines (before ++ (m, nl) :: after) yerr = Some f /\
              all_rules (f_groups f) = all_rules gsS.
  Proof.
    intros Hsmall Hsib Hw H1. unfold parse_relaxed.
    destruct (parse_relaxed_loop_spec all_lines yerr (before ++ (m, nl) :: after) [] Hsmall) as (gs & E1 & E2).
    rewrite E1. eexists. split; [reflexivity|]. cbn [f_groups app].
    destruct (concat_opt_map_app_inv _ _ _ _ _ E2) as (ga & gx & gb & Ea & Ex & Eb & ->). cbn [fst snd] in Ex.
    rewrite !all_rules_app, (wrapper_invariance _ _ _ _ _ _ _ _ Hw _ _ _ _ H1 Ex).
    rewrite (concat_opt_no_rules _ _ _ Ea), (concat_opt_no_rules _ _ _ Eb); [now rewrite app_nil_r| |].
    - intros [x k] g Hc Hg. apply (Hsib x k (in_or_app _ _ _ (or_intror Hc)) _ _ Hg).
    - intros [x k] g Hc Hg. apply (Hsib x k (in_or_app _ _ _ (or_introl Hc)) _ _ Hg).
  Qed.
End Wrapper.
