(** C04: soundness of the label-flow analyser against the label/presence semantics, by induction on the
    expression.  Invariant per node and admitted result R:
      (a) every source's Returns agrees with the shape of R (vector-like vs scalar),
      (b) every series of R is consistent ([Cons]) with some source of [walk_node e]. *)
From Coq Require Import List String Bool Floats NArith Lia.
From PintV Require Import Common.Bytes Gen.C04 Model.PromQL Model.Source Model.PromSem Model.PromFrag
  Proofs.C04_lists Proofs.C04_transfer Proofs.C04_walk.
Import ListNotations.
Open Scope string_scope.
Open Scope list_scope.

(** a series carries no label its source cannot have *)
Definition Cons (s : source) (ls : labelset) : Prop :=
  forall l, has ls l = true -> can_have_label s l = true.

Definition ret_ok (R : result) (s : source) : Prop :=
  match R with
  | RVec _ | RMat _ => is_vec_or_matrix (s_returns s) = true
  | RScalar => is_vec_or_matrix (s_returns s) = false
  | _ => True
  end.

Lemma Cons_ext s a b : (forall n, get a n = get b n) -> Cons s b -> Cons s a.
Proof. intros He H l Hl. apply H. rewrite <- (has_ext a b He). exact Hl. Qed.

Lemma Cons_spr s s' ls : spr s s' -> Cons s' ls -> Cons s ls.
Proof. intros Hs H l Hl. rewrite (spr_can_have s s' l Hs). auto. Qed.

Lemma Cons_le s s' ls : le_perm s s' -> Cons s ls -> Cons s' ls.
Proof. intros Hs H l Hl. apply Hs. auto. Qed.

Lemma Cons_sub s a b : (forall l, has a l = true -> has b l = true) -> Cons s b -> Cons s a.
Proof. intros He H l Hl. apply H. auto. Qed.

(** ** selectors *)

Lemma excl_exclude s ns : s_excluded (exclude_label s ns) = append_to_slice (s_excluded s) ns.
Proof. reflexivity. Qed.

Lemma fold_exclude_fields names : forall s,
  (forall l, In l (s_excluded (fold_left (fun s name => exclude_label s [name]) names s)) <-> In l (s_excluded s) \/ In l names) /\
  s_fixed (fold_left (fun s name => exclude_label s [name]) names s) = s_fixed s /\
  s_returns (fold_left (fun s name => exclude_label s [name]) names s) = s_returns s.
Proof.
  induction names as [|n r IH]; intros s; simpl.
  - repeat split; tauto.
  - destruct (IH (exclude_label s [n])) as [H1 [H2 H3]]. repeat split.
    + intros Hin. apply H1 in Hin. rewrite excl_exclude, In_append_to in Hin. simpl in Hin. tauto.
    + intros Hin. apply H1. rewrite excl_exclude, In_append_to. simpl. tauto.
    + rewrite H2. reflexivity.
    + rewrite H3. reflexivity.
Qed.

Lemma empty_value_selector_spec ms : forall acc l,
  In l (fold_left (fun names lm =>
               if String.eqb (m_name lm) metric_name then names
               else if matchtype_eqb (m_type lm) MEq && String.eqb (m_value lm) "" then append_to_slice names [m_name lm]
               else names) ms acc) ->
  In l acc \/ exists m, In m ms /\ m_type m = MEq /\ m_value m = "" /\ m_name m = l.
Proof.
  induction ms as [|m r IH]; intros acc l H; cbn [fold_left] in H; [tauto|].
  apply IH in H. destruct H as [H|[m' [H1 H2]]].
  - destruct (String.eqb (m_name m) metric_name); [tauto|].
    destruct (matchtype_eqb (m_type m) MEq && String.eqb (m_value m) "") eqn:E; [|tauto].
    apply In_append_to in H. destruct H as [H|[H|[]]]; [tauto|].
    apply andb_true_iff in E. destruct E as [E1 E2]. apply String.eqb_eq in E2.
    right. exists m. simpl. repeat split; auto. destruct (m_type m); simpl in E1; congruence.
  - right. exists m'. simpl. tauto.
Qed.

Definition sel_src (ms : list matcher) : source :=
  let s := set_selector (set_returns (set_type zero_source TSelector) VVector) (Some ms) in
  let s := guarantee_label s (labels_from_selectors gmatches (Some ms)) in
  fold_left (fun s name => exclude_label s [name]) (labels_with_empty_value_selector ms) s.

Lemma sel_cons ms ls : matches ms ls = true -> Cons (sel_src ms) ls.
Proof.
  intros Hm l Hl. apply can_have_iff. unfold sel_src.
  match goal with |- context [fold_left ?f ?names ?s0] =>
    destruct (fold_exclude_fields names s0) as [H1 [H2 _]] end.
  rewrite H2. split; [|right; right; reflexivity].
  intro Hin. apply H1 in Hin. destruct Hin as [Hin|Hin].
  - simpl in Hin. unfold remove_from_slice in Hin.
    assert (Hnil : forall vs, fold_left (fun acc v => remove_first v acc) vs (@nil string) = []).
    { induction vs; simpl; auto. }
    rewrite Hnil in Hin. inversion Hin.
  - unfold labels_with_empty_value_selector in Hin. apply empty_value_selector_spec in Hin.
    destruct Hin as [[]|[m [Hin [Ht [Hv Hn]]]]].
    unfold matches in Hm. rewrite forallb_forall in Hm. specialize (Hm m Hin).
    unfold matches1 in Hm. rewrite Ht, Hv, Hn in Hm. apply String.eqb_eq in Hm.
    apply has_get in Hl. congruence.
Qed.

Lemma sel_ret ms : s_returns (sel_src ms) = VVector.
Proof.
  unfold sel_src.
  match goal with |- context [fold_left ?f ?names ?s0] =>
    destruct (fold_exclude_fields names s0) as [_ [_ H3]] end.
  rewrite H3. reflexivity.
Qed.

(** ** aggregations *)

Lemma has_group_key w g ls l :
  has (group_key w g ls) l = true ->
  has ls l = true /\ (if w then ~ In l g /\ l <> metric_name else In l g).
Proof.
  unfold group_key. intros H. apply has_get in H. destruct w.
  - rewrite get_without in H. destruct (mem_str l (metric_name :: g)) eqn:E; [congruence|].
    apply mem_str_false in E. simpl in E. split; [apply has_get; auto|]. split; intro; subst; tauto.
  - rewrite get_keep in H. destruct (mem_str l g) eqn:E; [|congruence].
    apply mem_str_true in E. split; [apply has_get; auto | exact E].
Qed.

Lemma pa1_excluded_by s g : s_excluded (parse_aggregation1 s false g) = s_excluded s.
Proof.
  unfold parse_aggregation1. cbn [s_excluded set_returns set_type set_fixed].
  destruct g as [|g0 gr]; [reflexivity|].
  destruct (s_fixed s); cbn [negb]; cbn [restrict_included restrict_guaranteed s_excluded set_included set_guaranteed].
  - reflexivity.
  - destruct (maybe_include_fields s (g0 :: gr)) as [H _]. exact H.
Qed.

Lemma pa1_cons s w g ls : Cons s ls -> Cons (parse_aggregation1 s w g) (group_key w g ls).
Proof.
  intros HC l Hl. apply has_group_key in Hl. destruct Hl as [Hl Hg]. specialize (HC l Hl).
  unfold parse_aggregation1. destruct w.
  - destruct Hg as [Hg _].
    rewrite (same_perm_can_have _ (exclude_label s g)); [|repeat split]. apply can_have_exclude; auto.
  - destruct g as [|g0 gr]; [inversion Hg|]. set (G := g0 :: gr) in *.
    apply can_have_iff in HC. destruct HC as [He Hr].
    apply can_have_iff. cbn [s_excluded s_included s_guaranteed s_fixed set_returns set_type set_fixed].
    destruct (s_fixed s) eqn:Ef; cbn [negb].
    + split; [exact He|].
      destruct Hr as [Hr|[Hr|Hr]]; [|right; left|discriminate].
      * left. apply restrict_included_keeps; auto.
      * cbn [restrict_included s_guaranteed set_included]. apply restrict_guaranteed_keeps; auto.
    + destruct (maybe_include_fields s G) as [H1 [H2 [H3 H4]]].
      split.
      * cbn [restrict_included restrict_guaranteed s_excluded set_included set_guaranteed]. rewrite H1. exact He.
      * left. apply restrict_included_keeps; auto.
        cbn [restrict_guaranteed s_included set_guaranteed]. apply maybe_include_adds; auto.
Qed.

Lemma emn_cons s w g out :
  Cons s out ->
  (has out metric_name = true -> w = false /\ In metric_name g /\ ~ In metric_name (s_excluded s)) ->
  Cons (exclude_metric_name s w g) out.
Proof.
  intros HC Hn l Hl. unfold exclude_metric_name.
  destruct (negb w && mem_str metric_name g && negb (mem_str metric_name (s_excluded s))) eqn:E; [auto|].
  apply can_have_exclude; auto. simpl. intros [Heq|[]]. subst l.
  destruct (Hn Hl) as [Hw [Hg He]]. subst w.
  rewrite (mem_str_of_In _ _ Hg), (mem_str_of_notIn _ _ He) in E. discriminate.
Qed.

Lemma agg_src_ret op w g p s : s_returns (agg_src op w g p s) = VVector.
Proof.
  assert (H : forall s', s_returns s' = VVector -> s_returns (exclude_metric_name s' w g) = VVector).
  { intros s' Hs. unfold exclude_metric_name. destruct (_ && _); auto. }
  unfold agg_src. destruct op; try (apply H; reflexivity).
  destruct (w || negb (String.eqb (str_of_expr p) metric_name)); [apply H|]; destruct (lit_of p); reflexivity.
Qed.

Lemma agg_cons_plain op w g p s ls out :
  op <> ACountValues ->
  Cons s ls -> (forall n, get out n = get (group_key w g ls) n) -> Cons (agg_src op w g p s) out.
Proof.
  intros Hop HC He. apply (Cons_ext _ out (group_key w g ls) He).
  assert (H : forall o, Cons (exclude_metric_name (set_operation (parse_aggregation1 s w g) o) w g) (group_key w g ls)).
  { intros o. apply emn_cons.
    - eapply Cons_spr; [apply spr_operation | apply pa1_cons; auto].
    - intros Hn. apply has_group_key in Hn. destruct Hn as [Hn Hg]. destruct w; [tauto|].
      repeat split; auto. cbn [s_excluded set_operation]. rewrite pa1_excluded_by.
      specialize (HC _ Hn). apply can_have_iff in HC. tauto. }
  unfold agg_src. destruct op; try apply H. congruence.
Qed.

(** count_values(dst, ...): [out] agrees with the grouped input series outside [dst]; [dst] itself is present
    unless [without(...)] deletes it (it is listed, or it is the metric name).  Since fix 392e95a this covers
    [dst = "__name__"] too: by(...) keeps the metric name just created, without(...) drops it. *)
Lemma agg_cons_count_values (w : bool) (g : list string) (dst : string) s ls out :
  nd s ->
  Cons s ls ->
  has out dst = (if w then negb (mem_str dst (metric_name :: g)) else true) ->
  (forall n, n <> dst -> get out n = get (group_key w g ls) n) ->
  forall p, lit_of p = Some dst -> Cons (agg_src ACountValues w g p s) out.
Proof.
  intros Hnd HC Hkeep He p Hp. unfold agg_src. unfold str_of_expr. rewrite Hp.
  set (s1 := set_operation (parse_aggregation1 s w g) "count_values").
  assert (Hnd1 : nd s1) by (apply (nd_parse_aggregation1 s w g Hnd)).
  assert (HC1 : Cons s1 (group_key w g ls)).
  { eapply Cons_spr; [apply spr_operation | apply pa1_cons; auto]. }
  assert (HC2 : Cons (guarantee_label (include_label s1 [dst]) [dst]) out).
  { intros l Hl. destruct (string_dec l dst) as [->|Hne].
    + apply can_have_guarantee_new; [apply nd_include; auto | simpl; auto].
    + apply le_perm_guarantee. apply le_perm_include. apply HC1.
      apply has_get. rewrite <- (He l Hne). apply has_get. exact Hl. }
  destruct (w || negb (String.eqb dst metric_name)) eqn:Ec; [|exact HC2].
  apply emn_cons; [exact HC2|].
  intros Hn. destruct (string_dec dst metric_name) as [Hd|Hd].
  - (* dst = __name__: the guard says [without]; the engine deleted the label *)
    exfalso. subst dst. rewrite String.eqb_refl in Ec. cbn [negb] in Ec. rewrite orb_false_r in Ec. subst w.
    rewrite Hn in Hkeep. cbn [mem_str] in Hkeep. rewrite String.eqb_refl in Hkeep. discriminate.
  - assert (Hk : has (group_key w g ls) metric_name = true).
    { apply has_get. rewrite <- (He metric_name); [apply has_get; exact Hn | congruence]. }
    apply has_group_key in Hk. destruct Hk as [Hk Hg]. destruct w; [tauto|].
    repeat split; auto. intro Hin.
    cbn [guarantee_label include_label s_excluded set_excluded set_guaranteed set_included] in Hin.
    apply In_remove_from in Hin. apply In_remove_from in Hin.
    unfold s1 in Hin. cbn [s_excluded set_operation] in Hin. rewrite pa1_excluded_by in Hin.
    specialize (HC _ Hk). apply can_have_iff in HC. tauto.
Qed.
