(** Lemmas for C15: the ordered retry loop (induction on the server list) and the classification tables. *)
From Coq Require Import List String ZArith Bool Arith Lia.
From PintV Require Import Common.Bytes Gen.Tables Gen.C15 Model.Failover.
Import ListNotations.
Open Scope string_scope.
Open Scope list_scope.

(** * The loop *)

Lemma failover_from_length ep : forall ups i last,
  List.length (fo_contacts (failover_from ep i last ups)) = List.length ups /\
  List.length (fo_state (failover_from ep i last ups)) = List.length ups.
Proof.
  induction ups as [|u rest IH]; intros i last; cbn [failover_from].
  - split; reflexivity.
  - destruct (retry ep (att ep u)); cbn [fo_contacts fo_state List.length].
    + destruct (IH (S i) (outcome_of i (att ep u))) as [H1 H2]. split; congruence.
    + rewrite map_length. split; reflexivity.
Qed.

(** The loop stops at the first upstream whose attempt is not retryable: its answer / error is returned
    unchanged, every earlier upstream has been asked, no later one is. *)
Lemma failover_from_stops ep : forall ups i last k u,
  nth_error ups k = Some u ->
  (forall j uj, j < k -> nth_error ups j = Some uj -> retry ep (att ep uj) = true) ->
  retry ep (att ep u) = false ->
  fo_outcome (failover_from ep i last ups) = outcome_of (i + k) (att ep u) /\
  fo_contacts (failover_from ep i last ups) =
    map (contacts ep) (firstn (S k) ups) ++ repeat 0 (List.length ups - S k) /\
  fo_state (failover_from ep i last ups) = map (after ep) (firstn (S k) ups) ++ skipn (S k) ups.
Proof.
  induction ups as [|u0 rest IH]; intros i last k u Hnth Hbefore Hstop.
  - destruct k; discriminate.
  - destruct k as [|k].
    + cbn in Hnth. injection Hnth as ->. cbn [failover_from]. rewrite Hstop.
      cbn [fo_outcome fo_contacts fo_state firstn map List.length skipn app].
      rewrite Nat.add_0_r. replace (S (List.length rest) - 1) with (List.length rest) by lia. repeat split.
      f_equal. clear. induction rest; cbn; congruence.
    + cbn in Hnth. cbn [failover_from].
      rewrite (Hbefore 0 u0 (Nat.lt_0_succ k) eq_refl).
      destruct (IH (S i) (outcome_of i (att ep u0)) k u Hnth) as [H1 [H2 H3]].
      * intros j uj Hj Hn. apply (Hbefore (S j) uj); [lia | exact Hn].
      * exact Hstop.
      * cbn [fo_outcome fo_contacts fo_state]. rewrite H1, H2, H3.
        replace (S i + k) with (i + S k) by lia.
        repeat split.
Qed.

(** Every upstream is retryable: all of them are asked, the last error is the result. *)
Lemma failover_from_exhausts ep : forall ups i last,
  (forall u, In u ups -> retry ep (att ep u) = true) ->
  fo_outcome (failover_from ep i last ups) =
    match rev ups with
    | [] => last
    | u :: _ => outcome_of (i + List.length ups - 1) (att ep u)
    end /\
  fo_contacts (failover_from ep i last ups) = map (contacts ep) ups /\
  fo_state (failover_from ep i last ups) = map (after ep) ups.
Proof.
  induction ups as [|u0 rest IH]; intros i last Hall.
  - cbn. repeat split.
  - cbn [failover_from]. rewrite (Hall u0 (or_introl eq_refl)).
    destruct (IH (S i) (outcome_of i (att ep u0))) as [H1 [H2 H3]].
    { intros u Hu. apply Hall. right. exact Hu. }
    cbn [fo_outcome fo_contacts fo_state map]. rewrite H1, H2, H3. repeat split.
    cbn [rev]. destruct (rev rest) as [|x xs] eqn:E.
    + assert (rest = []) as -> by (apply (f_equal (@rev _)) in E; rewrite rev_involutive in E; exact E).
      cbn. f_equal. lia.
    + cbn [app List.length]. f_equal. lia.
Qed.

(** Decidable search for the first non-retryable upstream. *)
Lemma first_stop_or_all ep : forall ups,
  (exists k u, nth_error ups k = Some u /\ retry ep (att ep u) = false /\
               forall j uj, j < k -> nth_error ups j = Some uj -> retry ep (att ep uj) = true)
  \/ (forall u, In u ups -> retry ep (att ep u) = true).
Proof.
  induction ups as [|u0 rest IH].
  - right. intros u [].
  - destruct (retry ep (att ep u0)) eqn:E.
    + destruct IH as [[k [u [Hn [Hs Hb]]]] | Hall].
      * left. exists (S k), u. repeat split; [exact Hn | exact Hs |].
        intros j uj Hj Hnj. destruct j as [|j]; cbn in Hnj.
        -- injection Hnj as <-. exact E.
        -- apply (Hb j uj); [lia | exact Hnj].
      * right. intros u [<- | Hu]; [exact E | apply Hall; exact Hu].
    + left. exists 0, u0. repeat split; [exact E |]. intros j uj Hj. lia.
Qed.

(** An upstream is asked at most once per call, and exactly once unless the client already knows the
    answer (cache) or that the API is unsupported. *)
Lemma contacts_le_1 ep u : contacts ep u <= 1.
Proof.
  unfold contacts, process_job. destruct (u_cached u); cbn; [lia|].
  destruct (config_like ep && u_disabled u); cbn; [lia|].
  destruct (run_query ep (u_marker u) (u_resp u)) as [m|e]; cbn; [lia|].
  destruct (is_unsupported_error e); cbn; lia.
Qed.

Lemma contacts_fresh ep u :
  u_cached u = None -> (config_like ep && u_disabled u) = false -> contacts ep u = 1.
Proof.
  intros Hc Hd. unfold contacts, process_job. rewrite Hc, Hd.
  destruct (run_query ep (u_marker u) (u_resp u)) as [m|e]; cbn; [reflexivity|].
  destruct (is_unsupported_error e); reflexivity.
Qed.

(** * The classification tables (facts about the generated constants) *)

Lemma decode_server et :
  String.eqb (decode_error_type et) unavailable_error_type = String.eqb et "server_error".
Proof.
  unfold decode_error_type, decode_error_type_table, decode_error_type_default, unavailable_error_type.
  cbn [assoc].
  repeat match goal with
         | |- context [if String.eqb et ?c then _ else _] => destruct (String.eqb_spec et c) as [->|?]; [reflexivity|]
         end.
  destruct (String.eqb_spec et "server_error") as [->|?]; [congruence | reflexivity].
Qed.

Lemma decode_not_unsupported et :
  String.eqb (decode_error_type et) unsupported_error_type = false.
Proof.
  unfold decode_error_type, decode_error_type_table, decode_error_type_default, unsupported_error_type.
  cbn [assoc].
  repeat match goal with
         | |- context [if String.eqb et ?c then _ else _] => destruct (String.eqb_spec et c) as [->|?]; [reflexivity|]
         end.
  reflexivity.
Qed.

(** "too expensive" and "unavailable" never overlap: different error types. *)
Lemma too_expensive_not_unavailable e : is_too_expensive e = true -> is_unavailable e = false.
Proof.
  destruct e as [|t msg|]; cbn; try discriminate.
  intros H. apply andb_prop in H. destruct H as [H _]. apply String.eqb_eq in H. subst t. reflexivity.
Qed.

(** The property's notion of an unavailable upstream, as a function of what the upstream sends. *)
Definition unsupported_404 (ep : endpoint) (r : response) : bool :=
  match r with
  | RHttp status _ => Z.eqb status 404 && config_like ep
  | _ => false
  end.

Definition property_unavailable (ep : endpoint) (r : response) : bool :=
  match r with
  | RTransport _ => true                                          (* refused, timeout, reset *)
  | RHttp status b =>
      negb (Z.eqb status 404 && config_like ep) &&
      match b with
      | BUndecodable => Z.eqb (status / 100)%Z 5                  (* 5xx whose body is not a JSON error *)
      | BJson st et _ p =>
          if Z.eqb (status / 100)%Z 2 && String.eqb st "success"
          then match ep, p with EConfig, PBadYaml => true | _, _ => false end   (* config answer that is not YAML *)
          else String.eqb et "server_error"                       (* JSON error of type server_error *)
      end
  end.

Definition attempt_unavailable (a : attempt) : bool :=
  match a with AErr e => is_unavailable e | AAnswer _ => false end.

Definition attempt_unsupported (a : attempt) : bool :=
  match a with AErr e => is_unsupported_error e | AAnswer _ => false end.

Lemma ep_path_not_found ep :
  existsb (fun p => has_suffix (ep_path ep) p) try_decode_not_found_paths = config_like ep.
Proof. destruct ep; vm_compute; reflexivity. Qed.

Lemma status_404_div status : Z.eqb status 404 = true -> (status / 100)%Z = 4%Z.
Proof. intros H. apply Z.eqb_eq in H. subst. reflexivity. Qed.

Lemma run_query_unavailable ep marker r :
  attempt_unavailable (run_query ep marker r) = property_unavailable ep r.
Proof.
  destruct r as [t | status b]; [reflexivity|].
  unfold run_query, property_unavailable.
  destruct (Z.eqb (status / 100) 2) eqn:E2.
  - (* 2xx *)
    assert (Z.eqb status 404 = false) as ->.
    { destruct (Z.eqb status 404) eqn:E; [|reflexivity]. apply status_404_div in E. apply Z.eqb_eq in E2. lia. }
    cbn [andb negb]. destruct b as [| st et msg p]; cbn [stream_result attempt_unavailable].
    + apply Z.eqb_eq in E2. rewrite E2. reflexivity.
    + destruct (String.eqb st "success"); cbn [negb andb attempt_unavailable is_unavailable].
      * destruct ep, p; reflexivity.
      * apply decode_server.
  - (* not 2xx *)
    cbn [andb attempt_unavailable]. unfold try_decoding_api_error. rewrite ep_path_not_found.
    destruct (Z.eqb status 404 && config_like ep) eqn:E404; cbn [negb andb].
    + reflexivity.
    + destruct b as [| st et msg p]; cbn [is_unavailable].
      * unfold try_decode_status_class, try_decode_status_class_default, unavailable_error_type. cbn [assocZ].
        destruct (Z.eqb_spec (status / 100) 4) as [E4|N4]; [try rewrite E4; reflexivity|].
        destruct (Z.eqb_spec (status / 100) 5) as [E5|N5]; reflexivity.
      * apply decode_server.
Qed.

Lemma run_query_unsupported ep marker r :
  attempt_unsupported (run_query ep marker r) = unsupported_404 ep r.
Proof.
  destruct r as [t | status b]; [reflexivity|].
  unfold run_query, unsupported_404.
  destruct (Z.eqb (status / 100) 2) eqn:E2.
  - assert (Z.eqb status 404 = false) as ->.
    { destruct (Z.eqb status 404) eqn:E; [|reflexivity]. apply status_404_div in E. apply Z.eqb_eq in E2. lia. }
    cbn [andb]. destruct b as [| st et msg p]; cbn [stream_result attempt_unsupported].
    + reflexivity.
    + destruct (String.eqb st "success"); cbn [negb attempt_unsupported is_unsupported_error].
      * destruct ep, p; reflexivity.
      * apply decode_not_unsupported.
  - cbn [attempt_unsupported]. unfold try_decoding_api_error. rewrite ep_path_not_found.
    destruct (Z.eqb status 404 && config_like ep) eqn:E404.
    + reflexivity.
    + destruct b as [| st et msg p]; cbn [is_unsupported_error].
      * unfold try_decode_status_class, try_decode_status_class_default, unsupported_error_type. cbn [assocZ].
        destruct (Z.eqb_spec (status / 100) 4) as [E4|N4]; [try rewrite E4; reflexivity|].
        destruct (Z.eqb_spec (status / 100) 5) as [E5|N5]; reflexivity.
      * apply decode_not_unsupported.
Qed.

(** A fresh upstream (nothing cached, API not known to be unsupported). *)
Definition fresh (resp : response) (marker : string) : upstream := mk_upstream resp marker false None.

Lemma att_fresh ep resp marker :
  att ep (fresh resp marker) =
    match run_query ep marker resp with
    | AErr e => if is_unsupported_error e then AErr ESentinel else AErr e
    | a => a
    end.
Proof.
  unfold att, process_job, fresh. cbn [u_cached u_disabled u_resp u_marker]. rewrite andb_false_r.
  destruct (run_query ep marker resp) as [m|e]; [reflexivity|].
  destruct (is_unsupported_error e); reflexivity.
Qed.

(** The loop goes on exactly after an unavailable upstream, or — for config/flags/metadata — one that
    answers 404 to the status API. *)
Lemma retry_fresh ep resp marker :
  retry ep (att ep (fresh resp marker)) = property_unavailable ep resp || unsupported_404 ep resp.
Proof.
  rewrite att_fresh.
  pose proof (run_query_unavailable ep marker resp) as HU.
  pose proof (run_query_unsupported ep marker resp) as HS.
  destruct (run_query ep marker resp) as [m|e]; cbn [attempt_unavailable attempt_unsupported] in HU, HS.
  - rewrite <- HU, <- HS. reflexivity.
  - rewrite <- HU, <- HS. clear HU HS.
    destruct (is_unsupported_error e) eqn:EU.
    + (* only a 404 on a status API: config-like endpoint *)
      destruct e as [|t msg|]; cbn in EU; try discriminate.
      unfold retry, stops.
      destruct ep; cbn; rewrite ?orb_true_r; try reflexivity.
      all: apply String.eqb_eq in EU; subst t; reflexivity.
    + unfold retry, stops. rewrite orb_false_r.
      destruct ep; cbn [ep_key]; cbn -[is_unavailable is_sentinel];
        destruct e; cbn [is_sentinel]; rewrite ?andb_true_r, ?negb_involutive; reflexivity.
Qed.

(** * Consequences for fresh groups, stated on what the upstreams send *)

Definition fresh_group (rs : list (response * string)) : list upstream :=
  map (fun p => fresh (fst p) (snd p)) rs.

Definition skips (ep : endpoint) (r : response) : bool := property_unavailable ep r || unsupported_404 ep r.

Lemma unavailable_not_404 ep r : property_unavailable ep r = true -> unsupported_404 ep r = false.
Proof.
  destruct r as [t|status b]; [reflexivity|]. cbn [property_unavailable unsupported_404].
  destruct (Z.eqb status 404 && config_like ep); [discriminate | reflexivity].
Qed.

(** A fresh upstream that is not skipped hands back exactly what its own query produced. *)
Lemma att_fresh_unchanged ep resp marker :
  skips ep resp = false -> att ep (fresh resp marker) = run_query ep marker resp.
Proof.
  intros H. rewrite att_fresh. pose proof (run_query_unsupported ep marker resp) as HS.
  apply orb_false_elim in H. destruct H as [_ H]. rewrite H in HS.
  destruct (run_query ep marker resp) as [m|e]; [reflexivity|]. cbn in HS. rewrite HS. reflexivity.
Qed.

Lemma contacts_fresh_1 ep resp marker : contacts ep (fresh resp marker) = 1.
Proof. apply contacts_fresh; [reflexivity | apply andb_false_r]. Qed.

Lemma nth_error_fresh_group rs j :
  nth_error (fresh_group rs) j = option_map (fun p => fresh (fst p) (snd p)) (nth_error rs j).
Proof. unfold fresh_group. revert j. induction rs; destruct j; cbn; auto. Qed.

Lemma map_contacts_fresh ep rs : map (contacts ep) (fresh_group rs) = repeat 1 (List.length rs).
Proof.
  unfold fresh_group. induction rs as [|[r m] rs IH]; cbn [map repeat List.length]; [reflexivity|].
  cbn [fst snd]. rewrite contacts_fresh_1, IH. reflexivity.
Qed.

Lemma firstn_fresh_group n rs : firstn n (fresh_group rs) = fresh_group (firstn n rs).
Proof. unfold fresh_group. apply firstn_map. Qed.

Lemma first_available_fresh ep rs k resp marker :
  nth_error rs k = Some (resp, marker) ->
  (forall j rj mj, j < k -> nth_error rs j = Some (rj, mj) -> skips ep rj = true) ->
  skips ep resp = false ->
  fo_outcome (failover ep (fresh_group rs)) = outcome_of k (run_query ep marker resp) /\
  fo_contacts (failover ep (fresh_group rs)) = repeat 1 (S k) ++ repeat 0 (List.length rs - S k).
Proof.
  intros Hn Hb Hs.
  destruct (failover_from_stops ep (fresh_group rs) 0 ONoServers k (fresh resp marker)) as [H1 [H2 _]].
  - rewrite nth_error_fresh_group, Hn. reflexivity.
  - intros j uj Hj Hnj. rewrite nth_error_fresh_group in Hnj.
    destruct (nth_error rs j) as [[rj mj]|] eqn:E; [|discriminate]. cbn in Hnj. injection Hnj as <-.
    cbn [fst snd]. rewrite retry_fresh. exact (Hb j rj mj Hj E).
  - rewrite retry_fresh. exact Hs.
  - unfold failover. rewrite H1, H2. split.
    + cbn [Nat.add]. rewrite att_fresh_unchanged by exact Hs. reflexivity.
    + rewrite firstn_fresh_group, map_contacts_fresh. unfold fresh_group. rewrite map_length.
      rewrite firstn_length_le; [reflexivity|].
      assert (k < List.length rs) by (apply nth_error_Some; rewrite Hn; discriminate). lia.
Qed.

Lemma run_query_not_sentinel ep m r : run_query ep m r <> AErr ESentinel.
Proof.
  destruct r as [t|status b]; cbn [run_query]; [discriminate|].
  destruct (Z.eqb (status / 100) 2).
  - destruct b as [|st et msg p]; cbn [stream_result]; [discriminate|].
    destruct (negb (String.eqb st "success")); [discriminate|]. destruct ep, p; discriminate.
  - unfold try_decoding_api_error.
    destruct (Z.eqb status 404 && existsb (fun p => has_suffix (ep_path ep) p) try_decode_not_found_paths); [discriminate|].
    destruct b; discriminate.
Qed.

(** Every upstream unavailable: all are asked once; the result is the last upstream's error, it is
    classified unavailable and it is neither the unsupported sentinel nor "too expensive". *)
Lemma all_down_fresh ep rs :
  rs <> [] ->
  (forall r m, In (r, m) rs -> property_unavailable ep r = true) ->
  exists e,
    fo_outcome (failover ep (fresh_group rs)) = OError (List.length rs - 1) e /\
    is_unavailable e = true /\ is_sentinel e = false /\ is_too_expensive e = false /\
    fo_contacts (failover ep (fresh_group rs)) = repeat 1 (List.length rs).
Proof.
  intros Hne Hall.
  assert (Hretry : forall u, In u (fresh_group rs) -> retry ep (att ep u) = true).
  { intros u Hu. unfold fresh_group in Hu. apply in_map_iff in Hu. destruct Hu as [[r m] [<- Hin]].
    cbn [fst snd]. rewrite retry_fresh. rewrite (Hall r m Hin). reflexivity. }
  destruct (failover_from_exhausts ep (fresh_group rs) 0 ONoServers Hretry) as [H1 [H2 _]].
  unfold failover. rewrite H1, H2, map_contacts_fresh.
  unfold fresh_group at 1. rewrite <- map_rev.
  destruct (rev rs) as [|[r m] tl] eqn:E.
  { exfalso. apply Hne. apply (f_equal (@rev _)) in E. rewrite rev_involutive in E. exact E. }
  cbn [map fst snd].
  assert (Hin : In (r, m) rs). { apply in_rev. rewrite E. left. reflexivity. }
  pose proof (Hall r m Hin) as HU.
  assert (Hs : skips ep r = true) by (unfold skips; rewrite HU; reflexivity).
  rewrite att_fresh.
  pose proof (run_query_unavailable ep m r) as HA. pose proof (run_query_unsupported ep m r) as HS.
  rewrite HU in HA. rewrite (unavailable_not_404 ep r HU) in HS.
  pose proof (run_query_not_sentinel ep m r) as HN.
  destruct (run_query ep m r) as [mm|e]; cbn in HA, HS; [discriminate|].
  rewrite HS. unfold fresh_group. rewrite map_length. cbn [Nat.add outcome_of]. exists e.
  repeat split; try assumption.
  - destruct e as [|t msg|]; [reflexivity | reflexivity | congruence].
  - destruct (is_too_expensive e) eqn:ET; [|reflexivity].
    apply too_expensive_not_unavailable in ET. congruence.
Qed.

(** problemFromError on an unavailable, not too expensive error: Warning, Bug when the server is required. *)
Lemma problem_severity_unavailable strict fallback e :
  is_unavailable e = true -> is_too_expensive e = false ->
  problem_severity strict fallback e = if strict then "Bug" else "Warning".
Proof.
  intros HU HT. unfold problem_severity, problem_from_error_cases. cbn [pfe_cases].
  unfold pfe_pred. cbn [String.eqb Ascii.eqb Bool.eqb].
  rewrite HT, HU. destruct strict; reflexivity.
Qed.

(** * Client state: a second identical call on the same group *)

Lemma after_fresh_skipped ep r m :
  skips ep r = true ->
  retry ep (att ep (after ep (fresh r m))) = true /\
  contacts ep (after ep (fresh r m)) = (if unsupported_404 ep r then 0 else 1).
Proof.
  intros Hs.
  pose proof (run_query_unavailable ep m r) as HU. pose proof (run_query_unsupported ep m r) as HN.
  pose proof (retry_fresh ep r m) as HR. fold (skips ep r) in HR. rewrite Hs in HR.
  unfold after, att, contacts, process_job, fresh in *. cbn [u_cached u_disabled u_resp u_marker] in *.
  rewrite andb_false_r in *.
  destruct (run_query ep m r) as [mm|e] eqn:ER; cbn [attempt_unavailable attempt_unsupported] in HU, HN.
  - cbn in HR. discriminate.
  - destruct (is_unsupported_error e) eqn:EU; cbn [fst snd] in *.
    + (* 404 of a status API: the API is now known to be unsupported, no request any more *)
      rewrite <- HN.
      assert (CL : config_like ep = true).
      { destruct r as [t|status b]; cbn in HN; [discriminate|]. symmetry in HN. apply andb_prop in HN. tauto. }
      cbn [u_cached u_disabled]. rewrite CL. cbn [andb fst snd]. split; [exact HR | reflexivity].
    + rewrite <- HN. cbn [u_cached u_disabled u_resp u_marker]. rewrite andb_false_r, ER, EU. cbn [fst snd].
      split; [exact HR | reflexivity].
Qed.

Lemma after_fresh_answer ep r m a :
  run_query ep m r = AAnswer a ->
  att ep (after ep (fresh r m)) = AAnswer a /\ contacts ep (after ep (fresh r m)) = 0.
Proof.
  intros ER. unfold after, att, contacts, process_job, fresh. cbn [u_cached u_disabled u_resp u_marker].
  rewrite andb_false_r, ER. cbn [fst snd u_cached]. split; reflexivity.
Qed.

Lemma nth_error_firstn_lt {A} (l : list A) : forall n j, j < n -> nth_error (firstn n l) j = nth_error l j.
Proof.
  induction l as [|x l IH]; intros n j H.
  - rewrite firstn_nil. reflexivity.
  - destruct n; [lia|]. destruct j; cbn; [reflexivity|]. apply IH. lia.
Qed.

Lemma second_call_fresh ep rs k resp marker a :
  nth_error rs k = Some (resp, marker) ->
  (forall j rj mj, j < k -> nth_error rs j = Some (rj, mj) -> skips ep rj = true) ->
  run_query ep marker resp = AAnswer a ->
  let r1 := failover ep (fresh_group rs) in
  let r2 := failover ep (fo_state r1) in
  fo_outcome r1 = OAnswer k a /\ fo_outcome r2 = OAnswer k a /\
  fo_contacts r2 =
    map (fun p => if unsupported_404 ep (fst p) then 0 else 1) (firstn k rs) ++ repeat 0 (List.length rs - k).
Proof.
  intros Hn Hb ER r1 r2.
  assert (Hk : k < List.length rs) by (apply nth_error_Some; rewrite Hn; discriminate).
  assert (Hs : skips ep resp = false).
  { pose proof (retry_fresh ep resp marker) as HR. rewrite att_fresh, ER in HR. cbn in HR. symmetry. exact HR. }
  (* first call *)
  destruct (failover_from_stops ep (fresh_group rs) 0 ONoServers k (fresh resp marker)) as [H1 [_ H3]].
  { rewrite nth_error_fresh_group, Hn. reflexivity. }
  { intros j uj Hj Hnj. rewrite nth_error_fresh_group in Hnj.
    destruct (nth_error rs j) as [[rj mj]|] eqn:E; [|discriminate]. cbn in Hnj. injection Hnj as <-.
    cbn [fst snd]. rewrite retry_fresh. exact (Hb j rj mj Hj E). }
  { rewrite retry_fresh. exact Hs. }
  assert (O1 : fo_outcome r1 = OAnswer k a).
  { unfold r1, failover. rewrite H1. cbn [Nat.add]. rewrite att_fresh_unchanged by exact Hs. rewrite ER. reflexivity. }
  split; [exact O1|].
  (* state after the first call *)
  set (st := fo_state r1). assert (Hst : st = map (after ep) (firstn (S k) (fresh_group rs)) ++ skipn (S k) (fresh_group rs)) by exact H3.
  assert (Hlen : List.length st = List.length rs).
  { rewrite Hst, app_length, map_length, firstn_length, skipn_length. unfold fresh_group. rewrite map_length. lia. }
  assert (Hnth : forall j, j <= k -> nth_error st j = option_map (fun p => after ep (fresh (fst p) (snd p))) (nth_error rs j)).
  { intros j Hj. rewrite Hst, nth_error_app1.
    - rewrite nth_error_map. rewrite nth_error_firstn_lt by lia.
      rewrite nth_error_fresh_group. destruct (nth_error rs j); reflexivity.
    - rewrite map_length, firstn_length. unfold fresh_group. rewrite map_length. lia. }
  destruct (after_fresh_answer ep resp marker a ER) as [A1 A2].
  destruct (failover_from_stops ep st 0 ONoServers k (after ep (fresh resp marker))) as [G1 [G2 _]].
  { rewrite (Hnth k (le_n k)), Hn. reflexivity. }
  { intros j uj Hj Hnj. rewrite (Hnth j) in Hnj by lia.
    destruct (nth_error rs j) as [[rj mj]|] eqn:E; [|discriminate]. cbn in Hnj. injection Hnj as <-.
    apply (after_fresh_skipped ep rj mj). exact (Hb j rj mj Hj E). }
  { rewrite A1. reflexivity. }
  split.
  - unfold r2, failover. fold st. rewrite G1, A1. reflexivity.
  - unfold r2, failover. fold st. rewrite G2, Hlen.
    (* contacts of the first k+1 entries *)
    assert (Hfirst : map (contacts ep) (firstn (S k) st) =
                     map (fun p => if unsupported_404 ep (fst p) then 0 else 1) (firstn k rs) ++ [0]).
    { clear G1 G2 O1 H1 H3 Hst. clearbody st. clear r2 r1. clear Hs ER. revert st Hlen Hnth. revert rs Hn Hb Hk. induction k as [|k IH]; intros rs Hn Hb Hk st Hlen Hnth.
      - destruct rs as [|[r0 m0] rs']; [discriminate|]. cbn in Hn. injection Hn as -> ->.
        destruct st as [|u st']; [cbn in Hlen; lia|]. specialize (Hnth 0 (le_n 0)). cbn in Hnth.
        injection Hnth as ->. cbn. rewrite A2. reflexivity.
      - destruct rs as [|[r0 m0] rs']; [discriminate|]. destruct st as [|u st']; [cbn in Hlen; lia|].
        pose proof (Hnth 0 (Nat.le_0_l _)) as H0. cbn in H0. injection H0 as ->.
        cbn [firstn map app fst]. f_equal.
        + apply (after_fresh_skipped ep r0 m0). apply (Hb 0 r0 m0); [lia | reflexivity].
        + apply (IH rs'); [exact Hn | | cbn in Hk; lia | cbn in Hlen; lia |].
          * intros j rj mj Hj Hnj. apply (Hb (S j) rj mj); [lia | exact Hnj].
          * intros j Hj. apply (Hnth (S j)). lia. }
    rewrite Hfirst, <- app_assoc. f_equal. cbn [app].
    replace (List.length rs - k) with (S (List.length rs - S k)) by lia. reflexivity.
Qed.
