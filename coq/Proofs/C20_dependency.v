(** Lemmas about Model/Dependency for ALL entry sets: when a rule/dependency problem is emitted and what it lists. *)
From Coq Require Import List String Ascii ZArith NArith Bool Lia Permutation Sorted.
From PintV Require Import Common.Bytes Model.GitBranch Model.Dependency.
Import ListNotations.
Open Scope string_scope.
Open Scope list_scope.

(** * specification-level notions *)

(** [f]'s expression selects what the removed rule [e] produced *)
Definition selects (e f : dentry) : bool :=
  negb (d_syntax_err f) &&
  match d_kind e with
  | KRecording => existsb (fun s => String.eqb (s_name s) (d_name e)) (d_selectors f)
  | KAlerting => existsb (alerts_selector (d_name e)) (d_selectors f)
  | KInvalid => false
  end.

(** the rules that remain at HEAD (not removed, no path error, no rule error) and depend on [e] *)
Definition dependants (e : dentry) (es : list dentry) : list dentry := filter (selects e) (non_removed es).

(** (name, path:line) of a dependant as listed in the report *)
Definition dep_key (d : dep) : string * string * Z := (bd_name d, bd_path d, bd_line d).
Definition entry_key (f : dentry) : string * string * Z := (d_name f, d_target f, d_expr_line f).

(** * uses = selects *)
Lemma find_some_existsb {A} (p : A -> bool) l : (exists x, List.find p l = Some x) <-> existsb p l = true.
Proof.
  induction l as [|y r IH]; simpl.
  - split; [intros [x H]; discriminate | discriminate].
  - destruct (p y); simpl; [split; eauto|exact IH].
Qed.

Lemma uses_some_iff e f : (exists d, uses e f = Some d) <-> selects e f = true.
Proof.
  unfold uses, selects, uses_vector, uses_alert. destruct (d_kind e); destruct (d_syntax_err f); simpl;
    try (split; [intros [d H]; discriminate | discriminate]).
  - rewrite <- find_some_existsb. destruct (List.find (alerts_selector (d_name e)) (d_selectors f)); split; eauto.
    + intros [d H]; discriminate.
    + intros [x H]; discriminate.
  - rewrite <- find_some_existsb. destruct (List.find (fun s => (s_name s =? d_name e)%string) (d_selectors f)); split; eauto.
    + intros [d H]; discriminate.
    + intros [x H]; discriminate.
Qed.

Lemma uses_key e f d : uses e f = Some d -> dep_key d = entry_key f.
Proof.
  unfold uses, uses_vector, uses_alert. destruct (d_kind e); destruct (d_syntax_err f); try discriminate.
  - destruct (List.find _ _); [|discriminate]. intro H; inversion H; reflexivity.
  - destruct (List.find _ _); [|discriminate]. intro H; inversion H; reflexivity.
Qed.

Lemma uses_kind e f1 f2 d1 d2 : uses e f1 = Some d1 -> uses e f2 = Some d2 -> bd_kind d1 = bd_kind d2.
Proof.
  unfold uses, uses_vector, uses_alert. destruct (d_kind e); destruct (d_syntax_err f1); destruct (d_syntax_err f2); try discriminate.
  - destruct (List.find _ (d_selectors f1)); [|discriminate]. destruct (List.find _ (d_selectors f2)); [|discriminate].
    intros H1 H2; inversion H1; inversion H2; reflexivity.
  - destruct (List.find _ (d_selectors f1)); [|discriminate]. destruct (List.find _ (d_selectors f2)); [|discriminate].
    intros H1 H2; inversion H1; inversion H2; reflexivity.
Qed.

(** * dep_same *)
Lemma dep_same_spec a b : dep_same a b = true <-> bd_kind a = bd_kind b /\ dep_key a = dep_key b.
Proof.
  unfold dep_same, dep_key. rewrite !andb_true_iff, !String.eqb_eq, Z.eqb_eq. split.
  - intros [[[H1 H2] H3] H4]. split; congruence.
  - intros [H1 H2]. inversion H2. auto.
Qed.

Lemma dep_same_sym a b : dep_same a b = dep_same b a.
Proof.
  destruct (dep_same a b) eqn:E1, (dep_same b a) eqn:E2; auto.
  - apply dep_same_spec in E1. destruct E1. assert (dep_same b a = true) by (apply dep_same_spec; split; congruence). congruence.
  - apply dep_same_spec in E2. destruct E2. assert (dep_same a b = true) by (apply dep_same_spec; split; congruence). congruence.
Qed.

Lemma NoDup_app_snoc {A} (l : list A) x : NoDup l -> ~ In x l -> NoDup (l ++ [x]).
Proof.
  intros Hn Hx. apply NoDup_rev in Hn. rewrite <- (rev_involutive (l ++ [x])). apply NoDup_rev.
  rewrite rev_app_distr. simpl. constructor; auto. rewrite <- in_rev. exact Hx.
Qed.

(** * collect *)
Definition acc_ok (e : dentry) (acc : list dep) : Prop :=
  NoDup (map dep_key acc) /\ (forall d, In d acc -> exists f, uses e f = Some d).

Lemma not_same_key e acc d0 f0 :
  acc_ok e acc -> uses e f0 = Some d0 -> existsb (dep_same d0) acc = false -> ~ In (dep_key d0) (map dep_key acc).
Proof.
  intros [_ Hk] U Ex Hin. apply in_map_iff in Hin. destruct Hin as [x [Hkx Hx]].
  destruct (Hk x Hx) as [f Uf].
  assert (dep_same d0 x = true) by (apply dep_same_spec; split; [eapply uses_kind; eauto | congruence]).
  assert (existsb (dep_same d0) acc = true) by (apply existsb_exists; eauto). congruence.
Qed.

Lemma acc_ok_snoc e acc d0 f0 :
  acc_ok e acc -> uses e f0 = Some d0 -> existsb (dep_same d0) acc = false -> acc_ok e (acc ++ [d0]).
Proof.
  intros Hok U Ex. pose proof (not_same_key _ _ _ _ Hok U Ex) as Hn. destruct Hok as [Hnd Hk]. split.
  - rewrite map_app. simpl. apply NoDup_app_snoc; auto.
  - intros d Hin. apply in_app_or in Hin. destruct Hin as [Hin|[<-|[]]]; eauto.
Qed.

Lemma collect_spec e : forall fs acc,
  acc_ok e acc ->
  let res := collect e fs acc in
  acc_ok e res /\
  (forall d, In d acc -> In d res) /\
  (forall d, In d res -> In d acc \/ exists f, In f fs /\ uses e f = Some d) /\
  (forall f d, In f fs -> uses e f = Some d -> exists d', In d' res /\ dep_key d' = dep_key d).
Proof.
  induction fs as [|f r IH]; intros acc Hd; simpl.
  - repeat split; auto; try apply Hd. intros f d [].
  - destruct (uses e f) as [d0|] eqn:U.
    + destruct (existsb (dep_same d0) acc) eqn:Ex.
      * destruct (IH acc Hd) as (H1 & H2 & H3 & H4). repeat split; auto; try apply H1.
        -- intros d Hin. destruct (H3 d Hin) as [Ha|[f' [Hf' Hu]]]; auto. right. exists f'. split; [right|]; auto.
        -- intros f' d [<-|Hf'] Hu.
           ++ rewrite U in Hu. inversion Hu; subst d0. apply existsb_exists in Ex. destruct Ex as [x [Hx Hs]].
              exists x. split; auto. apply dep_same_spec in Hs. destruct Hs. congruence.
           ++ eapply H4; eauto.
      * assert (Hd' : acc_ok e (acc ++ [d0])) by (eapply acc_ok_snoc; eauto).
        destruct (IH (acc ++ [d0]) Hd') as (H1 & H2 & H3 & H4). repeat split; auto; try apply H1.
        -- intros d Hin. apply H2. apply in_or_app. left. exact Hin.
        -- intros d Hin. destruct (H3 d Hin) as [Ha|[f' [Hf' Hu]]].
           ++ apply in_app_or in Ha. destruct Ha as [Ha|[<-|[]]]; auto. right. exists f. split; [left|]; auto.
           ++ right. exists f'. split; [right|]; auto.
        -- intros f' d [<-|Hf'] Hu.
           ++ rewrite U in Hu. inversion Hu; subst d0. exists d. split; auto.
              apply H2. apply in_or_app. right. left. reflexivity.
           ++ eapply H4; eauto.
    + destruct (IH acc Hd) as (H1 & H2 & H3 & H4). repeat split; auto; try apply H1.
      * intros d Hin. destruct (H3 d Hin) as [Ha|[f' [Hf' Hu]]]; auto. right. exists f'. split; [right|]; auto.
      * intros f' d [<-|Hf'] Hu; [rewrite U in Hu; discriminate|]. eapply H4; eauto.
Qed.

(** * sort *)
Lemma dep_leb_total a b : dep_leb a b = false -> dep_leb b a = true.
Proof.
  unfold dep_leb. rewrite (String.compare_antisym (bd_path b) (bd_path a)).
  destruct (String.compare (bd_path a) (bd_path b)) eqn:Ep; simpl; try discriminate; auto.
  rewrite (Z.compare_antisym (bd_line a) (bd_line b)).
  destruct (Z.compare (bd_line a) (bd_line b)) eqn:El; simpl; try discriminate; auto.
  rewrite (String.compare_antisym (bd_name b) (bd_name a)).
  destruct (String.compare (bd_name a) (bd_name b)) eqn:En; simpl; try discriminate; auto.
Qed.

Definition dle (a b : dep) : Prop := dep_leb a b = true.

Lemma insert_dep_perm x l : Permutation (x :: l) (insert_dep x l).
Proof.
  induction l as [|y r IH]; simpl; auto. destruct (dep_leb y x); auto.
  eapply Permutation_trans; [apply perm_swap|]. constructor. exact IH.
Qed.

Lemma insert_dep_sorted x l : Sorted dle l -> Sorted dle (insert_dep x l).
Proof.
  induction 1 as [|y r Hr IH Hhd]; simpl.
  - repeat constructor.
  - destruct (dep_leb y x) eqn:E.
    + constructor; auto. destruct r as [|z r']; simpl in *.
      * constructor. exact E.
      * destruct (dep_leb z x); constructor; auto. inversion Hhd; auto.
    + constructor; [constructor; auto|]. constructor. apply dep_leb_total. exact E.
Qed.

Lemma sort_deps_gen l acc :
  Sorted dle acc ->
  Sorted dle (fold_left (fun acc x => insert_dep x acc) l acc) /\
  Permutation (fold_left (fun acc x => insert_dep x acc) l acc) (acc ++ l).
Proof.
  revert acc. induction l as [|x r IH]; intros acc Hs; simpl.
  - split; auto. rewrite app_nil_r. apply Permutation_refl.
  - destruct (IH (insert_dep x acc) (insert_dep_sorted x acc Hs)) as [H1 H2]. split; auto.
    eapply Permutation_trans; [exact H2|].
    eapply Permutation_trans; [apply Permutation_app_tail; apply Permutation_sym; apply insert_dep_perm|].
    simpl. apply Permutation_middle.
Qed.

Lemma sort_deps_sorted l : Sorted dle (sort_deps l).
Proof. apply (sort_deps_gen l []). constructor. Qed.

Lemma sort_deps_perm l : Permutation (sort_deps l) l.
Proof. apply (sort_deps_gen l []). constructor. Qed.

(** * the check *)
Lemma state_eqb_eq a b : state_eqb a b = true <-> a = b.
Proof. destruct a, b; simpl; split; intro H; try reflexivity; try discriminate. Qed.

Lemma collect_keys e es :
  let c := collect e (non_removed es) [] in
  NoDup (map dep_key c) /\
  (forall k, In k (map dep_key c) <-> In k (map entry_key (dependants e es))).
Proof.
  assert (Hok : acc_ok e []) by (split; [constructor | intros d []]).
  destruct (collect_spec e (non_removed es) [] Hok) as (H1 & _ & H3 & H4). simpl in *.
  split; [apply H1|]. intro k. split; intro Hk.
  - apply in_map_iff in Hk. destruct Hk as [d [<- Hd]].
    destruct (H3 d Hd) as [[]|[f [Hf Hu]]].
    apply in_map_iff. exists f. split; [symmetry; eapply uses_key; eauto|].
    unfold dependants. apply filter_In. split; auto. apply uses_some_iff. eauto.
  - apply in_map_iff in Hk. destruct Hk as [f [<- Hf]].
    unfold dependants in Hf. apply filter_In in Hf. destruct Hf as [Hf Hs].
    apply uses_some_iff in Hs. destruct Hs as [d Hu].
    destruct (H4 f d Hf Hu) as [d' [Hd' Hk]].
    apply in_map_iff. exists d'. split; auto. rewrite Hk. eapply uses_key; eauto.
Qed.

Lemma broken_keys e es :
  let b := sort_deps (collect e (non_removed es) []) in
  Sorted dle b /\ NoDup (map dep_key b) /\
  (forall k, In k (map dep_key b) <-> In k (map entry_key (dependants e es))).
Proof.
  simpl. destruct (collect_keys e es) as [Hn Hk]. simpl in *.
  pose proof (sort_deps_perm (collect e (non_removed es) [])) as Hp.
  split; [apply sort_deps_sorted|]. split.
  - eapply Permutation_NoDup; [|exact Hn]. apply Permutation_map. apply Permutation_sym. exact Hp.
  - intro k. rewrite <- Hk. split; intro H.
    + eapply Permutation_in; [apply Permutation_map; exact Hp | exact H].
    + eapply Permutation_in; [apply Permutation_map; apply Permutation_sym; exact Hp | exact H].
Qed.

Lemma broken_empty_iff e es :
  sort_deps (collect e (non_removed es) []) = [] <-> dependants e es = [].
Proof.
  destruct (broken_keys e es) as (_ & _ & Hk). simpl in Hk. split; intro H.
  - destruct (dependants e es) as [|f r] eqn:E; auto.
    assert (Hin : In (entry_key f) (map dep_key (sort_deps (collect e (non_removed es) [])))) by (apply Hk; left; auto).
    rewrite H in Hin. destruct Hin.
  - destruct (sort_deps (collect e (non_removed es) [])) as [|d r] eqn:E; auto.
    assert (Hin : In (dep_key d) (map entry_key (dependants e es))) by (apply Hk; left; auto).
    rewrite H in Hin. destruct Hin.
Qed.

Theorem report_iff e es :
  (exists p, report e es = Some p) <->
  d_state e = Removed /\ d_perr e = false /\ d_rerr e = false /\ d_path e = d_target e /\
  replaced e (non_removed es) = false /\ dependants e es <> [].
Proof.
  unfold report, dispatched, is_removed, check.
  destruct (state_eqb (d_state e) Removed) eqn:Es; simpl.
  2:{ split; [intros [p H]; discriminate|]. intros (H & _). apply state_eqb_eq in H. congruence. }
  apply state_eqb_eq in Es.
  destruct (d_perr e); simpl; [split; [intros [p H]; discriminate | intros (_ & H & _); discriminate]|].
  destruct (d_rerr e); simpl; [split; [intros [p H]; discriminate | intros (_ & _ & H & _); discriminate]|].
  destruct (String.eqb (d_path e) (d_target e)) eqn:Ep; simpl.
  2:{ apply String.eqb_neq in Ep. split; [intros [p H]; discriminate | intros (_ & _ & _ & H & _); contradiction]. }
  apply String.eqb_eq in Ep.
  destruct (replaced e (non_removed es)); [split; [intros [p H]; discriminate | intros (_ & _ & _ & _ & H & _); discriminate]|].
  pose proof (broken_empty_iff e es) as Hb.
  destruct (sort_deps (collect e (non_removed es) [])) as [|d r] eqn:E.
  - split; [intros [p H]; discriminate|]. intros (_ & _ & _ & _ & _ & H). exfalso. apply H. apply Hb. reflexivity.
  - split; [|intros _; eexists; reflexivity]. intros _. repeat split; auto.
    intro H. apply Hb in H. discriminate.
Qed.

Theorem report_details e es p :
  report e es = Some p ->
  p_first p = d_first e /\ p_last p = d_last e /\
  p_details p = details_text (p_deps p) /\
  Sorted dle (p_deps p) /\ NoDup (map dep_key (p_deps p)) /\
  (forall k, In k (map dep_key (p_deps p)) <-> In k (map entry_key (dependants e es))) /\
  p_diag p = ("Metric generated by this rule is used by " ++ itoa (Z.of_nat (List.length (p_deps p))) ++ " other rule(s).")%string.
Proof.
  unfold report, check. destruct (dispatched e); [|discriminate].
  destruct (negb (String.eqb (d_path e) (d_target e))); [discriminate|].
  destruct (replaced e (non_removed es)); [discriminate|].
  destruct (broken_keys e es) as (Hs & Hn & Hk). simpl in *.
  destruct (sort_deps (collect e (non_removed es) [])) as [|d r] eqn:E; [discriminate|].
  intro H. inversion H; subst; clear H. simpl. repeat split; auto; apply Hk.
Qed.
