(** C04/C12: structural facts about [walk_node]: every source has duplicate-free ExcludedLabels; on the
    fragment [wf] the source list is never empty. *)
From Coq Require Import List String Bool Floats NArith Lia.
From PintV Require Import Common.Bytes Gen.C04 Model.PromQL Model.Source Model.PromSem Model.PromFrag
  Proofs.C04_lists Proofs.C04_transfer.
Import ListNotations.
Open Scope string_scope.
Open Scope list_scope.

Section Walk.
  Variables fmod fpow : float -> float -> float.
  Notation walk := (walk_node fmod fpow).

  Lemma nd_fold_exclude names : forall s, nd s -> nd (fold_left (fun s name => exclude_label s [name]) names s).
  Proof. induction names as [|n r IH]; intros s H; simpl; auto. apply IH. apply nd_exclude; auto. Qed.

  Lemma nd_parse_aggregation1 s w g : nd s -> nd (parse_aggregation1 s w g).
  Proof.
    intros H. unfold parse_aggregation1. unfold nd. cbn [s_excluded set_returns set_type].
    destruct w.
    - apply nd_exclude; auto.
    - cbn [s_excluded set_fixed]. destruct g as [|g0 gr].
      + exact H.
      + destruct (s_fixed s); cbn [negb].
        * exact H.
        * apply (nd_maybe_include s (g0 :: gr)) in H. exact H.
  Qed.

  Lemma nd_exclude_metric_name s w g : nd s -> nd (exclude_metric_name s w g).
  Proof. intros H. unfold exclude_metric_name. destruct (_ && _); auto. apply nd_exclude; auto. Qed.

  Lemma nd_agg_src op w g p s : nd s -> nd (agg_src op w g p s).
  Proof.
    intros H. unfold agg_src.
    assert (H1 : forall o, nd (exclude_metric_name (set_operation (parse_aggregation1 s w g) o) w g)).
    { intros o. apply nd_exclude_metric_name. exact (nd_parse_aggregation1 s w g H). }
    destruct op; try apply H1.
    assert (H0 : nd (set_operation (parse_aggregation1 s w g) "count_values")) by exact (nd_parse_aggregation1 s w g H).
    assert (H2 : nd (match lit_of p with
                     | Some d => guarantee_label (include_label (set_operation (parse_aggregation1 s w g) "count_values") [d]) [d]
                     | None => set_operation (parse_aggregation1 s w g) "count_values" end)).
    { destruct (lit_of p); [apply nd_guarantee; apply nd_include|]; exact H0. }
    destruct (w || negb (String.eqb (str_of_expr p) metric_name)); [apply nd_exclude_metric_name|]; exact H2.
  Qed.

  Lemma nd_fold_absent names : forall s, nd s ->
    nd (fold_left (fun s name => guarantee_label (include_label s [name]) [name]) names s).
  Proof.
    induction names as [|n r IH]; intros s H; simpl; auto. apply IH. apply nd_guarantee. apply nd_include. auto.
  Qed.

  Lemma nd_fold_vector arg0 : forall s, nd s ->
    nd (fold_left (fun s vs => if s_known vs then set_known (set_number s (s_number vs)) true else s) arg0 s).
  Proof.
    induction arg0 as [|a r IH]; intros s H; simpl; auto. apply IH. destruct (s_known a); auto.
  Qed.

  Lemma nd_parse_promql_func s f args arg0 : nd s -> nd (parse_promql_func s f args arg0).
  Proof.
    intros H. unfold parse_promql_func.
    repeat match goal with |- context [if String.eqb ?a ?b then _ else _] => destruct (String.eqb a b) end.
    - apply nd_guarantee. exact H.
    - exact H.
    - exact H.
    - apply nd_fold_absent. exact H.
    - destruct args; [exact H | apply nd_guarantee; exact H].
    - destruct (lit_of (nth_error args 1)); [apply nd_guarantee|]; exact H.
    - apply nd_fold_vector. exact H.
    - exact H.
  Qed.

  Lemma nd_call_src f args arg0 s : nd s -> nd (call_src f args arg0 s).
  Proof. intros H. unfold call_src. apply nd_parse_promql_func. exact H. Qed.

  Lemma In_call_srcs (w : expr -> list source) F ats s : forall args i,
    In s (call_srcs w F ats i args) -> exists a s0, In a args /\ In s0 (w a) /\ s = F s0.
  Proof.
    induction args as [|a r IH]; intros i H; simpl in H; [tauto|].
    apply in_app_or in H. destruct H as [H|H].
    - destruct (is_vec_or_matrix (arg_type ats i)); [|simpl in H; tauto].
      apply in_map_iff in H. destruct H as [s0 [He Hin]]. exists a, s0. simpl. auto.
    - apply IH in H. destruct H as [a' [s0 [H1 [H2 H3]]]]. exists a', s0. simpl. auto.
  Qed.

  Lemma nd_one_to_one_labels vm s : nd s -> nd (one_to_one_labels vm s).
  Proof.
    intros H. unfold one_to_one_labels. destruct (vm_on vm).
    - apply nd_restrict_guaranteed. apply nd_restrict_included. apply nd_include. exact H.
    - apply nd_exclude. exact H.
  Qed.

  Lemma spr_one_to_one_static op rb vm rhs s : spr (one_to_one_static fmod fpow op rb vm rhs s) s.
  Proof.
    unfold one_to_one_static. destruct (vm_on vm); [apply spr_refl|].
    apply spr_fold. intros s0 x. destruct (static_applies s0 _); [apply spr_apply_static | apply spr_refl].
  Qed.

  Lemma spr_one_to_one_src op rb vm rhs s :
    spr (one_to_one_src fmod fpow op rb vm rhs s) (one_to_one_labels vm s).
  Proof.
    unfold one_to_one_src.
    eapply spr_trans; [apply spr_apply_conditions|].
    eapply spr_trans; [apply spr_add_joins|].
    eapply spr_trans; [apply spr_set_op_default|].
    apply spr_one_to_one_static.
  Qed.

  Lemma nd_group_labels vm s : nd s -> nd (group_labels vm s).
  Proof. intros H. unfold group_labels. destruct (vm_on vm); repeat apply nd_include; exact H. Qed.

  Lemma spr_group_src op rb vm one s : spr (group_src op rb vm one s) (group_labels vm s).
  Proof.
    unfold group_src.
    eapply spr_trans; [apply spr_apply_conditions|].
    eapply spr_trans; [apply spr_add_joins|].
    apply spr_set_op_default.
  Qed.

  Lemma nd_mtm_labels vm s : nd s -> nd (mtm_labels vm s).
  Proof. intros H. unfold mtm_labels. destruct (vm_on vm); [apply nd_include|]; exact H. Qed.

  Lemma spr_mtm_step op rb vm acc rs : spr (fst (mtm_step op rb vm acc rs)) (fst acc).
  Proof.
    destruct acc as [s rc]. unfold mtm_step. cbn [fst].
    destruct op; cbn [fst]; try apply spr_joins; try apply spr_refl.
    eapply spr_trans; [apply spr_unless|].
    destruct (_ && _); [|apply spr_refl].
    eapply spr_trans; [apply spr_dead_label | apply spr_dead].
  Qed.

  Lemma spr_mtm_fold op rb vm rhs : forall acc, spr (fst (fold_left (mtm_step op rb vm) rhs acc)) (fst acc).
  Proof.
    induction rhs as [|r rs IH]; intros acc; simpl; [apply spr_refl|].
    eapply spr_trans; [apply IH | apply spr_mtm_step].
  Qed.

  Lemma spr_mtm_src op rb vm rhs s : spr (fst (mtm_src op rb vm rhs s)) (mtm_labels vm s).
  Proof.
    unfold mtm_src.
    destruct (fold_left (mtm_step op rb vm) rhs (set_op_default (mtm_labels vm s) (vm_card vm), false)) as [s' rc] eqn:E.
    cbn [fst].
    assert (H : spr s' (set_op_default (mtm_labels vm s) (vm_card vm))).
    { pose proof (spr_mtm_fold op rb vm rhs (set_op_default (mtm_labels vm s) (vm_card vm), false)) as H.
      rewrite E in H. exact H. }
    eapply spr_trans; [|apply spr_set_op_default].
    destruct (_ && _); [eapply spr_trans; [apply spr_cond | exact H] | exact H].
  Qed.

  Lemma spr_or_rhs_src vm b s : spr (or_rhs_src vm b s) s.
  Proof.
    unfold or_rhs_src. destruct (negb b).
    - eapply spr_trans; [apply spr_dead_label|]. eapply spr_trans; [apply spr_dead|]. apply spr_set_op_default.
    - apply spr_set_op_default.
  Qed.

  Lemma spr_nil_pair op rb ls0 rs0 :
    spr (nil_pair fmod fpow op rb ls0 rs0) ls0 \/ spr (nil_pair fmod fpow op rb ls0 rs0) rs0.
  Proof.
    unfold nil_pair.
    set (ls := apply_conditions ls0 op rb). set (rs := apply_conditions rs0 op rb).
    assert (Hl : spr ls ls0) by apply spr_apply_conditions.
    assert (Hr : spr rs rs0) by apply spr_apply_conditions.
    destruct (is_vec_or_matrix (s_returns ls)).
    - left. destruct (static_applies ls rs); [eapply spr_trans; [apply spr_apply_static | exact Hl] | exact Hl].
    - destruct (is_vec_or_matrix (s_returns rs)).
      + right. destruct (static_applies ls rs); [eapply spr_trans; [apply spr_apply_static | exact Hr] | exact Hr].
      + left. destruct (static_applies ls rs); [eapply spr_trans; [apply spr_apply_static | exact Hl] | exact Hl].
  Qed.

  (** every source of every expression has duplicate-free ExcludedLabels *)
  Lemma walk_nd : forall e s, In s (walk e) -> nd s.
  Proof.
    induction e using expr_ind'; intros s0 Hin; cbn [walk_node] in Hin.
    - destruct Hin as [<-|[]]. unfold nd. simpl. constructor.
    - destruct Hin as [<-|[]]. unfold nd. simpl. constructor.
    - destruct Hin as [<-|[]]. apply nd_fold_exclude. apply nd_guarantee. unfold nd. simpl. constructor.
    - apply in_map_iff in Hin. destruct Hin as [s1 [<- H1]]. apply IHe in H1. exact H1.
    - auto.
    - auto.
    - auto.
    - destruct op; try (apply in_map_iff in Hin; destruct Hin as [s1 [<- H1]]; apply IHe in H1;
                        first [apply nd_agg_src; exact H1 | exact H1]).
      simpl in Hin. tauto.
    - set (arg0 := match args with [] => [] | a :: _ => walk a end) in *.
      destruct (call_srcs walk (call_src f args arg0) ats 0 args) as [|c0 cr] eqn:E.
      + destruct Hin as [<-|[]]. apply nd_call_src. apply nd_zero.
      + rewrite <- E in Hin. apply In_call_srcs in Hin. destruct Hin as [a [s1 [Ha [Hs1 ->]]]].
        apply nd_call_src. rewrite Forall_forall in H. apply (H a Ha). exact Hs1.
    - destruct vm as [vm|].
      + destruct (vm_card vm).
        * unfold binops_one_to_one in Hin. apply in_map_iff in Hin. destruct Hin as [s1 [<- H1]].
          eapply spr_nd; [apply spr_one_to_one_src|]. apply nd_one_to_one_labels. auto.
        * unfold binops_group in Hin. apply in_map_iff in Hin. destruct Hin as [s1 [<- H1]].
          eapply spr_nd; [apply spr_group_src|]. apply nd_group_labels. auto.
        * unfold binops_group in Hin. apply in_map_iff in Hin. destruct Hin as [s1 [<- H1]].
          eapply spr_nd; [apply spr_group_src|]. apply nd_group_labels. auto.
        * unfold binops_many_to_many in Hin. apply in_app_or in Hin. destruct Hin as [Hin|Hin].
          -- rewrite map_map in Hin. apply in_map_iff in Hin. destruct Hin as [s1 [<- H1]].
             eapply spr_nd; [apply spr_mtm_src|]. apply nd_mtm_labels. auto.
          -- destruct (binop_eqb op OOr); [|simpl in Hin; tauto].
             apply in_map_iff in Hin. destruct Hin as [s1 [<- H1]].
             eapply spr_nd; [apply spr_or_rhs_src|]. auto.
      + unfold binops_nil in Hin. apply in_flat_map in Hin. destruct Hin as [ls0 [Hl Hin]].
        apply in_map_iff in Hin. destruct Hin as [rs0 [<- Hr]].
        destruct (spr_nil_pair op b ls0 rs0) as [Hs|Hs]; eapply spr_nd; eauto.
  Qed.

  Lemma call_srcs_nonempty_result f ats args arg0 :
    (match call_srcs walk (call_src f args arg0) ats 0 args with
     | [] => [call_src f args arg0 zero_source]
     | x => x end) <> [].
  Proof. destruct (call_srcs _ _ _ _ _); discriminate. Qed.

  Lemma walk_nonempty : forall e, wf e = true -> walk e <> [].
  Proof.
    induction e using expr_ind'; intros Hwf; cbn [walk_node]; cbn [wf] in Hwf; try discriminate; auto.
    - intro Hm. apply map_eq_nil in Hm. exact (IHe Hwf Hm).
    - apply andb_true_iff in Hwf. destruct Hwf as [Hw1 Hw2]. specialize (IHe Hw2).
      destruct op; simpl in Hw1; try discriminate; intro Hm; apply map_eq_nil in Hm; tauto.
    - destruct (call_srcs _ _ _ _ _) eqn:E; discriminate.
    - destruct vm as [vm|].
      + apply andb_true_iff in Hwf. destruct Hwf as [Hwf Hr]. apply andb_true_iff in Hwf. destruct Hwf as [Hvm Hl].
        specialize (IHe1 Hl). specialize (IHe2 Hr).
        destruct (vm_card vm).
        * unfold binops_one_to_one. intro Hm. apply map_eq_nil in Hm. tauto.
        * unfold binops_group. intro Hm. apply map_eq_nil in Hm. tauto.
        * unfold binops_group. intro Hm. apply map_eq_nil in Hm. tauto.
        * unfold binops_many_to_many. intro Hm. apply app_eq_nil in Hm. destruct Hm as [Hm _].
          apply map_eq_nil in Hm. apply map_eq_nil in Hm. tauto.
      + apply andb_true_iff in Hwf. destruct Hwf as [Hwf Hr]. apply andb_true_iff in Hwf. destruct Hwf as [_ Hl].
        specialize (IHe1 Hl). specialize (IHe2 Hr).
        unfold binops_nil. destruct (walk e1) as [|l0 lr]; [tauto|]. destruct (walk e2) as [|r0 rr]; [tauto|].
        simpl. discriminate.
  Qed.
End Walk.
