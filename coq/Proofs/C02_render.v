(** C02 (4) render_total: for a line range with 1 <= First <= Last <= number of lines the JSON line expansion returns
    exactly First..Last, all inside the file, and the console prints every one of those lines (the out-of-file guard of
    f44c1ab drops nothing); since 5f804fb the expansion is total (an inverted range yields [First]). *)
From Coq Require Import List ZArith Lia String Bool.
From PintV Require Import Model.Routing Model.Render.
Import ListNotations.
Local Open Scope Z_scope.

Lemma zrange_length first count : List.length (zrange first count) = count.
Proof. unfold zrange. now rewrite map_length, seq_length. Qed.

Lemma zrange_In first count x : In x (zrange first count) <-> first <= x < first + Z.of_nat count.
Proof.
  unfold zrange. rewrite in_map_iff. split.
  - intros (i & <- & Hi). apply in_seq in Hi. lia.
  - intros H. exists (Z.to_nat (x - first)). split; [lia|]. apply in_seq. lia.
Qed.

Theorem expand_ok first last :
  first <= last ->
  exists l, expand first last = Ok l /\ Z.of_nat (List.length l) = last - first + 1 /\
            forall x, In x l <-> first <= x <= last.
Proof.
  intros H. unfold expand. destruct (last <? first) eqn:E; [apply Z.ltb_lt in E; lia|].
  eexists. split; [reflexivity|]. split; [rewrite zrange_length; lia|].
  intros x. rewrite zrange_In. lia.
Qed.

(** Since fix 5f804fb the expansion is total: EVERY range, inverted or not, expands without a makeslice panic; an
    inverted range is rendered as its first line. *)
Theorem expand_total first last :
  exists l, expand first last = Ok l /\ (last < first -> l = [first]).
Proof.
  unfold expand. destruct (last <? first) eqn:E.
  - exists [first]. split; [reflexivity|auto].
  - apply Z.ltb_ge in E. eexists. split; [reflexivity|]. lia.
Qed.

Theorem console_plain_all nlines first last :
  1 <= first -> last <= nlines ->
  console_plain nlines first last = zrange first (Z.to_nat (last - first + 1)).
Proof.
  intros H1 H2. unfold console_plain.
  assert (G : forall l, (forall x, In x l -> 1 <= x <= nlines) -> filter (fun i => (1 <=? i) && (i <=? nlines))%bool l = l).
  { induction l as [|a r IH]; intros Hl; [reflexivity|]. cbn [filter].
    destruct (Hl a (or_introl eq_refl)) as [A B].
    assert (E : ((1 <=? a) && (a <=? nlines))%bool = true) by (apply andb_true_iff; split; apply Z.leb_le; assumption).
    rewrite E. f_equal. apply IH. intros x Hx. apply Hl. right. exact Hx. }
  apply G. intros x Hx. apply zrange_In in Hx. lia.
Qed.

(** The guard makes the console loop safe for ANY range: every printed index is a valid index of the file. *)
Theorem console_plain_in_bounds nlines first last x :
  In x (console_plain nlines first last) -> 1 <= x <= nlines.
Proof.
  unfold console_plain. rewrite filter_In. intros [_ H]. apply andb_true_iff in H. destruct H as [A B].
  apply Z.leb_le in A. apply Z.leb_le in B. lia.
Qed.

Lemma zrange_one a : zrange a 1 = [a].
Proof. unfold zrange. cbn [seq map]. f_equal. lia. Qed.

Theorem expand_singleton a : expand a a = Ok [a].
Proof.
  unfold expand. rewrite Z.ltb_irrefl. replace (a - a + 1) with 1 by lia. change (Z.to_nat 1) with 1%nat.
  now rewrite zrange_one.
Qed.

Theorem console_plain_singleton nlines a : 1 <= a <= nlines -> console_plain nlines a a = [a].
Proof.
  intros H. rewrite console_plain_all; [|lia|lia]. replace (a - a + 1) with 1 by lia. change (Z.to_nat 1) with 1%nat.
  apply zrange_one.
Qed.

(** ---- InjectDiagnostics: which source lines are printed ---- *)

Lemma fold_max_ge : forall r x y, In y (x :: r) -> y <= fold_left Z.max r x.
Proof.
  induction r as [|a r IH]; intros x y H; cbn [fold_left].
  - destruct H as [->|[]]. lia.
  - destruct H as [->|[->|H]].
    + specialize (IH (Z.max y a) (Z.max y a) (or_introl eq_refl)). lia.
    + specialize (IH (Z.max x y) (Z.max x y) (or_introl eq_refl)). lia.
    + exact (IH (Z.max x a) y (or_intror H)).
Qed.

(** No panic iff some diagnostic has a position. *)
Theorem inject_lines_ok_iff nlines ds :
  (exists l, inject_lines nlines ds = Ok l) <-> List.concat ds <> [].
Proof.
  unfold inject_lines. destruct (List.concat ds) as [|x r].
  - split; [intros (l & H); discriminate|intros H; contradiction].
  - split; [discriminate|intros _; eexists; reflexivity].
Qed.

(** Every printed line number is a line of the file, whatever the positions are ... *)
Theorem inject_lines_in_file nlines ds l x :
  inject_lines nlines ds = Ok l -> In x l -> 1 <= x <= nlines.
Proof.
  unfold inject_lines. destruct (List.concat ds) as [|y r]; [discriminate|]. intros H Hx. inversion H; subst. clear H.
  apply filter_In in Hx. destruct Hx as [Hx _]. apply zrange_In in Hx. lia.
Qed.

(** ... and when the positions are inside the file nothing is lost: a line is printed IFF some diagnostic has a
    position on it. *)
Theorem inject_lines_complete nlines ds l :
  (forall x, In x (List.concat ds) -> 1 <= x <= nlines) ->
  inject_lines nlines ds = Ok l ->
  forall x, In x l <-> In x (List.concat ds).
Proof.
  unfold inject_lines. intros Hin. destruct (List.concat ds) as [|y r] eqn:E; [discriminate|]. intros H. inversion H; subst. clear H.
  intros x. rewrite filter_In, zrange_In. split.
  - intros [_ Hb]. apply andb_true_iff in Hb. destruct Hb as [_ Hb].
    change ((x =? y) || existsb (Z.eqb x) r)%bool with (existsb (Z.eqb x) (y :: r)) in Hb. apply existsb_exists in Hb.
    destruct Hb as (z & Hz & Ez). apply Z.eqb_eq in Ez. subst z. exact Hz.
  - intros Hx. pose proof (Hin x Hx) as B. split; [lia|]. apply andb_true_iff. split.
    + apply Z.leb_le. exact (fold_max_ge r y x Hx).
    + change ((x =? y) || existsb (Z.eqb x) r)%bool with (existsb (Z.eqb x) (y :: r)).
      apply existsb_exists. exists x. split; [exact Hx|apply Z.eqb_refl].
Qed.
