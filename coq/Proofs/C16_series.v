(** C16 — lemmas about the decision tree model of promql/series (Model/Series.v). *)
From Coq Require Import List String ZArith NArith Bool Lia.
From PintV Require Import Common.Bytes Common.GoTime Model.Range Model.RangeRef Model.Series Proofs.C13_slice Proofs.C13_grid
  Proofs.C13_headline.
Import ListNotations.
Open Scope Z_scope.

(** the grid points the range probe of [count(bare selector)] evaluates: the union of the slices' grids *)
Definition probe_points (now : Z) (st : settings) : list Z :=
  match range_requests now st with
  | None => []
  | Some rs => flat_map (fun r => grid_between (rq_start r) (rq_end r) (rq_step r)) rs
  end.

(** the instant probe carries no [time] parameter: it is evaluated at the server's clock *)
Lemma instant_probe_at_now re d now ms : instant_probe re d now ms = instant_match re d now ms.
Proof. reflexivity. Qed.

Section S.
  Variable re : string -> string -> bool.

  (** --- structure of the selector loop ------------------------------------------------------ *)

  Lemma check_all_entry d others now st rules sels : forall done prior k o,
    In (k, o) (check_all re d others now st rules sels done prior) ->
    ~ In k done /\
    exists pre s post p, sels = (pre ++ s :: post)%list /\ vs_str s = k /\
      (forall s', In s' pre -> vs_str s' <> k) /\
      o = verdict re d others now st rules p s.
  Proof.
    induction sels as [|s r IH]; intros done prior k o H; cbn [check_all] in H; [contradiction|].
    destruct (mem_str (vs_str s) done) eqn:E.
    - destruct (IH done prior k o H) as [Hnd [pre [s0 [post [p [Hs [Hk [Hpre Ho]]]]]]]].
      split; [exact Hnd|]. exists (s :: pre), s0, post, p. subst r. split; [reflexivity|]. split; [exact Hk|].
      split; [|exact Ho]. intros s' [Hs'|Hs']; [|apply Hpre; exact Hs'].
      subst s'. intro Heq. apply Hnd. apply mem_str_In. rewrite <- Heq. exact E.
    - destruct H as [H|H].
      + inversion H; subst k o. split.
        * intro Hin. apply mem_str_In in Hin. congruence.
        * exists [], s, r, prior. split; [reflexivity|]. split; [reflexivity|]. split; [intros s' []|reflexivity].
      + destruct (IH (vs_str s :: done) _ k o H) as [Hnd [pre [s0 [post [p [Hs [Hk [Hpre Ho]]]]]]]].
        split; [intro Hin; apply Hnd; right; exact Hin|].
        exists (s :: pre), s0, post, p. subst r. split; [reflexivity|]. split; [exact Hk|]. split; [|exact Ho].
        intros s' [Hs'|Hs']; [|apply Hpre; exact Hs'].
        subst s'. intro Heq. apply Hnd. left. exact Heq.
  Qed.

  Lemma check_all_covers d others now st rules sels : forall done prior s,
    In s sels -> ~ In (vs_str s) done ->
    In (vs_str s) (map fst (check_all re d others now st rules sels done prior)).
  Proof.
    induction sels as [|s0 r IH]; intros done prior s Hin Hnd; [contradiction|]. cbn [check_all].
    destruct (mem_str (vs_str s0) done) eqn:E.
    - destruct Hin as [Hin|Hin].
      + subst s0. exfalso. apply Hnd. apply mem_str_In. exact E.
      + apply IH; assumption.
    - cbn [map fst]. destruct (String.eqb (vs_str s0) (vs_str s)) eqn:Es.
      + apply String.eqb_eq in Es. left. exact Es.
      + apply String.eqb_neq in Es. right. destruct Hin as [Hin|Hin]; [subst s0; congruence|].
        apply IH; [exact Hin|]. intros [H|H]; [congruence|apply Hnd; exact H].
  Qed.

  Lemma check_all_nodup d others now st rules sels : forall done prior,
    NoDup (map fst (check_all re d others now st rules sels done prior)).
  Proof.
    induction sels as [|s r IH]; intros done prior; cbn [check_all]; [constructor|].
    destruct (mem_str (vs_str s) done); [apply IH|].
    cbn [map fst]. constructor; [|apply IH].
    intro Hin. apply in_map_iff in Hin. destruct Hin as [[k o] [Hk Hin]]. cbn in Hk. subst k.
    destruct (check_all_entry _ _ _ _ _ _ _ _ _ _ Hin) as [Hnd _]. apply Hnd. left. reflexivity.
  Qed.

  (** a verdict that does not depend on the accumulated problem list is the verdict, known [prior] or not *)
  Lemma verdict_const d others now st rules s o :
    (forall b, check_selector re d others now st rules b s = o) -> outcome_eqb o o = true ->
    forall p, verdict re d others now st rules p s = o.
  Proof.
    intros H Hr p. unfold verdict. destruct p as [b|]; [apply H|]. rewrite !H, Hr. reflexivity.
  Qed.

  (** --- step 1: present now ----------------------------------------------------------------- *)

  Lemma present_decided d others now st rules b s :
    is_alerts s = false -> instant_match re d now (vs_matchers s) <> [] ->
    check_selector re d others now st rules b s = Decided [].
  Proof.
    intros Ha Hp. unfold check_selector. destruct (vs_disabled s || vs_snoozed s); [reflexivity|].
    rewrite Ha, instant_probe_at_now. destruct (instant_match re d now (vs_matchers s)); [contradiction|reflexivity].
  Qed.

  (** --- step 2: never there ------------------------------------------------------------------ *)

  Lemma sel_matches_bare ms ls : sel_matches re ms ls = true -> sel_matches re (bare_matchers ms) ls = true.
  Proof.
    unfold sel_matches, bare_matchers. rewrite !forallb_forall. intros H m Hin.
    apply filter_In in Hin. apply H. tauto.
  Qed.

  Lemma instant_bare_nil d t ms : instant_match re d t (bare_matchers ms) = [] -> instant_match re d t ms = [].
  Proof.
    unfold instant_match. induction d as [|s r IH]; [reflexivity|]. cbn [filter map].
    destruct (sel_matches re (bare_matchers ms) (ts_labels s) && pres_of (ts_visible s) t) eqn:E1; [discriminate|].
    intro H. specialize (IH H).
    destruct (sel_matches re ms (ts_labels s) && pres_of (ts_visible s) t) eqn:E2; [|exact IH].
    apply andb_true_iff in E2. destruct E2 as [E2 E3]. apply sel_matches_bare in E2. rewrite E2, E3 in E1. discriminate.
  Qed.

  Lemma filter_none {A} (f : A -> bool) l : (forall x, In x l -> f x = false) -> filter f l = [].
  Proof.
    induction l as [|x r IH]; intros H; [reflexivity|]. cbn [filter]. rewrite (H x (or_introl eq_refl)).
    apply IH. intros y Hy. apply H. right. exact Hy.
  Qed.

  Lemma flat_map_nil {A B} (f : A -> list B) l : (forall x, In x l -> f x = []) -> flat_map f l = [].
  Proof.
    induction l as [|x r IH]; intros H; [reflexivity|]. cbn [flat_map]. rewrite (H x (or_introl eq_refl)).
    apply IH. intros y Hy. apply H. right. exact Hy.
  Qed.

  Lemma range_probe_never d now st ms : 0 <= set_step st ->
    (forall t, In t (probe_points now st) -> instant_match re d t ms = []) ->
    range_probe re d now st ms = Some [].
  Proof.
    intros Hstep Hnever. unfold range_probe, range_probe_pres. unfold probe_points in Hnever.
    assert (range_requests now st <> None) as Htot.
    { unfold range_requests, range_requests_for.
      pose proof (query_slices_total (now - set_lookback st) now (set_lookback st) (set_step st) Hstep) as Htot.
      destruct (query_slices _ _ _ _ _) as [sl|]; [discriminate|contradiction]. }
    destruct (range_requests now st) as [rs|]; [|contradiction]. clear Htot.
    rewrite flat_map_nil; [reflexivity|].
    intros s Hs. unfold serve_range, per_slice. cbn [fold_left fst snd].
    unfold server_samples. rewrite filter_none; [reflexivity|].
    intros t Ht. unfold sel_presence. rewrite Hnever; [reflexivity|].
    apply in_flat_map. exists s. split; assumption.
  Qed.

  Lemma should_report_no_others now st s : should_report re [] now st s = true.
  Proof. reflexivity. Qed.

  Lemma should_report_no_ignore others now st s : set_ignore_elsewhere st = [] -> should_report re others now st s = true.
  Proof.
    intros H. unfold should_report. rewrite H. apply negb_true_iff.
    induction others as [|o r IH]; [reflexivity|]. cbn [existsb] in *. rewrite IH.
    destruct (instant_probe re o now (vs_matchers s)); reflexivity.
  Qed.

  Lemma never_there_bug d others now st rules b s :
    vs_disabled s = false -> vs_snoozed s = false -> is_alerts s = false ->
    vs_bare_str s <> EmptyString -> 0 <= set_step st ->
    (forall t, In t (probe_points now st) \/ t = now -> instant_match re d t (bare_matchers (vs_matchers s)) = []) ->
    has_recording rules (vs_bare_str s) = false ->
    mem_str (vs_bare_str s) (set_ignored st) = false ->
    (others = [] \/ set_ignore_elsewhere st = []) ->
    check_selector re d others now st rules b s = Decided [(summary_nonexistent, Bug)].
  Proof.
    intros Hd Hz Ha Hb Hstep Hnever Hrec Hign Hoth. unfold check_selector.
    rewrite Hd, Hz, Ha. cbn [orb]. rewrite instant_probe_at_now.
    rewrite (instant_bare_nil d now (vs_matchers s)) by (apply Hnever; right; reflexivity).
    destruct (String.eqb (vs_bare_str s) "") eqn:E; [apply String.eqb_eq in E; contradiction|].
    rewrite range_probe_never; [|exact Hstep|intros t Ht; apply Hnever; left; exact Ht].
    rewrite Hrec. unfold sev_of. rewrite Hign.
    assert (should_report re others now st s = true) as Hsr.
    { destruct Hoth as [Ho|Ho]; [subst others; reflexivity|apply should_report_no_ignore; exact Ho]. }
    rewrite Hsr. reflexivity.
  Qed.
  (** --- what the range probe returns: the runs of ONE unsliced evaluation (C13) ------------------- *)

  Lemma flat_map_map' {A B C} (f : B -> list C) (g : A -> B) l : flat_map f (map g l) = flat_map (fun x => f (g x)) l.
  Proof. induction l as [|x r IH]; [reflexivity|]. cbn [map flat_map]. rewrite IH. reflexivity. Qed.

  Lemma range_probe_pres_runs now st pres : sec <= set_step st -> set_step st <= max_int64 - 2 * hour ->
    exists sl, query_slices (slice_fuel (now - set_lookback st) now (slice_size (set_step st)))
                 (now - set_lookback st) now (set_lookback st) (set_step st) = Some sl /\
      first_start sl (now - set_lookback st) <= now - set_lookback st /\
      range_probe_pres now st pres
      = Some (runs_of count_fp (set_step st) pres (first_start sl (now - set_lookback st)) now).
  Proof.
    intros Hs Hmax. assert (0 <= set_step st) as H0 by (unfold sec in Hs; lia).
    pose proof (query_slices_total (now - set_lookback st) now (set_lookback st) (set_step st) H0) as Htot.
    destruct (query_slices _ _ _ _ _) as [sl|] eqn:Hq; [|contradiction]. exists sl. split; [reflexivity|]. split.
    - destruct (query_slices_shape _ _ _ _ _ sl Hs Hmax Hq) as [E|[m [_ [_ [a [b [r [Es Ha]]]]]]]].
      + subst sl. cbn [first_start]. lia.
      + rewrite Es. cbn [first_start]. lia.
    - unfold range_probe_pres, range_requests, range_requests_for. rewrite Hq. rewrite flat_map_map'.
      cbn [serve_range rq_start rq_end rq_step].
      change (fun x : tr => per_slice (set_step st) [(count_fp, pres)] (fst x, snd x))
        with (fun x : tr => per_slice1 (set_step st) count_fp pres (fst x, snd x)).
      assert (forall l : list tr, flat_map (fun x : tr => per_slice1 (set_step st) count_fp pres (fst x, snd x)) l
                                  = flat_map (per_slice1 (set_step st) count_fp pres) l) as Ef.
      { intro l. induction l as [|[a b] r IH]; [reflexivity|]. cbn [flat_map fst snd]. rewrite IH. reflexivity. }
      rewrite Ef.
      apply (finalize_eq_unsliced (set_step st) count_fp pres Hs _ _ _ _ sl sl _ Hmax Hq (Permutation.Permutation_refl sl)).
      unfold merge_fuel. lia.
  Qed.

  (** --- FindGaps terminates within its fuel --------------------------------------------------------- *)

  Lemma find_gaps_total step ranges baseline until : 0 < step -> forall fuel gaps from,
    (1 <= fuel)%nat -> (until - from) / step + 2 <= Z.of_nat fuel ->
    find_gaps fuel ranges baseline gaps step from until <> None.
  Proof.
    intros Hp. induction fuel as [|f IH]; intros gaps from H1 H; [lia|].
    cbn [find_gaps]. destruct (until <? from) eqn:E; [discriminate|]. apply Z.ltb_ge in E.
    assert (0 <= (until - from) / step) as Hq by (apply Z.div_pos; lia).
    assert ((until - (from + step)) / step = (until - from) / step - 1) as Hd.
    { replace (until - (from + step)) with (until - from + (-1) * step) by lia. rewrite Z.div_add by lia. lia. }
    assert ((1 <= f)%nat) as Hf by lia.
    assert ((until - (from + step)) / step + 2 <= Z.of_nat f) as Hn by lia.
    destruct (covers ranges from || negb (covers baseline from)); [apply IH; assumption|].
    destruct (extend_gap gaps from step) as [g' found]. apply IH; assumption.
  Qed.

  Lemma gaps_of_total now st ranges up : 0 < set_step st -> 0 <= set_lookback st -> gaps_of now st ranges up <> None.
  Proof.
    intros Hp Hl. unfold gaps_of. unfold gaps_fuel.
    assert (0 <= (now - (now - set_lookback st)) / set_step st) as Hq by (apply Z.div_pos; lia).
    apply find_gaps_total; [exact Hp| |]; [|rewrite Z2Nat.id by lia; lia].
    assert (1 <= Z.of_nat (Z.to_nat ((now - (now - set_lookback st)) / set_step st + 3))) by (rewrite Z2Nat.id by lia; lia).
    lia.
  Qed.

  (** --- the verdict depends on the database only through the probe instants ------------------------- *)

  (** two databases answer every selector alike at every instant pint probes: now, and the range grid *)
  Definition agree (now : Z) (st : settings) (d d' : db) : Prop :=
    forall t ms, In t (probe_points now st) \/ t = now -> instant_match re d t ms = instant_match re d' t ms.

  Lemma serve_range_ext pres pres' r :
    (forall t, In t (grid_between (rq_start r) (rq_end r) (rq_step r)) -> pres t = pres' t) ->
    serve_range pres r = serve_range pres' r.
  Proof.
    intros H. unfold serve_range, per_slice. cbn [fold_left fst snd]. unfold server_samples.
    rewrite (filter_ext_in _ _ _ H). reflexivity.
  Qed.

  Lemma range_probe_pres_ext now st pres pres' :
    (forall t, In t (probe_points now st) -> pres t = pres' t) ->
    range_probe_pres now st pres = range_probe_pres now st pres'.
  Proof.
    unfold range_probe_pres, probe_points. destruct (range_requests now st) as [rs|]; [|reflexivity]. intros H.
    assert (flat_map (serve_range pres) rs = flat_map (serve_range pres') rs) as E.
    { induction rs as [|r rs IH]; [reflexivity|]. cbn [flat_map] in *. rewrite IH.
      - rewrite (serve_range_ext pres pres' r); [reflexivity|]. intros t Ht. apply H. apply in_or_app. left. exact Ht.
      - intros t Ht. apply H. apply in_or_app. right. exact Ht. }
    rewrite E. reflexivity.
  Qed.

  Section Ext.
    Variables (now : Z) (st : settings) (d d' : db).
    Hypothesis Hag : agree now st d d'.

    Lemma sel_presence_agree ms t : In t (probe_points now st) -> sel_presence re d ms t = sel_presence re d' ms t.
    Proof. intros Ht. unfold sel_presence. rewrite (Hag t ms (or_introl Ht)). reflexivity. Qed.

    Lemma instant_probe_agree ms : instant_probe re d now ms = instant_probe re d' now ms.
    Proof. rewrite !instant_probe_at_now. apply Hag. right. reflexivity. Qed.

    Lemma range_probe_agree ms : range_probe re d now st ms = range_probe re d' now st ms.
    Proof. unfold range_probe. apply range_probe_pres_ext. intros t Ht. apply sel_presence_agree. exact Ht. Qed.

    Lemma uptime_agree : uptime_ranges re d now st = uptime_ranges re d' now st.
    Proof. unfold uptime_ranges. rewrite range_probe_agree. reflexivity. Qed.

    Lemma pwg_sel_agree ms up :
      probe_with_gaps now st (sel_presence re d ms) up = probe_with_gaps now st (sel_presence re d' ms) up.
    Proof.
      unfold probe_with_gaps. rewrite (range_probe_pres_ext now st (sel_presence re d ms) (sel_presence re d' ms)); [reflexivity|].
      intros t Ht. apply sel_presence_agree. exact Ht.
    Qed.

    Lemma pwg_absent_agree ms up :
      probe_with_gaps now st (absent_presence re d ms) up = probe_with_gaps now st (absent_presence re d' ms) up.
    Proof.
      unfold probe_with_gaps.
      rewrite (range_probe_pres_ext now st (absent_presence re d ms) (absent_presence re d' ms)); [reflexivity|].
      intros t Ht. unfold absent_presence. rewrite sel_presence_agree by exact Ht. reflexivity.
    Qed.

    Lemma step3_agree up trs s names : step3 re d now st up trs s names = step3 re d' now st up trs s names.
    Proof.
      induction names as [|n r IH]; [reflexivity|]. cbn [step3]. rewrite IH. unfold step3_one.
      rewrite pwg_absent_agree. reflexivity.
    Qed.

    Lemma step567_agree up bg s ms : step567 re d now st up bg s ms = step567 re d' now st up bg s ms.
    Proof.
      induction ms as [|m r IH]; [reflexivity|]. cbn [step567]. rewrite IH. unfold step567_one.
      rewrite pwg_sel_agree. reflexivity.
    Qed.

    Lemma steps_3_to_8_agree prior up trs s :
      steps_3_to_8 re d now st prior up trs s = steps_3_to_8 re d' now st prior up trs s.
    Proof. unfold steps_3_to_8. rewrite step3_agree. destruct (gaps_of now st trs up); [|reflexivity].
      destruct (step3 re d' now st up trs s (label_names s)); [|reflexivity].
      rewrite step567_agree. reflexivity.
    Qed.

    Lemma check_selector_agree others rules b s :
      check_selector re d others now st rules b s = check_selector re d' others now st rules b s.
    Proof.
      unfold check_selector. rewrite instant_probe_agree, range_probe_agree, uptime_agree.
      destruct (vs_disabled s || vs_snoozed s); [reflexivity|]. destruct (is_alerts s); [reflexivity|].
      destruct (instant_probe re d' now (vs_matchers s)); [|reflexivity].
      destruct (String.eqb (vs_bare_str s) ""); [reflexivity|].
      destruct (range_probe re d' now st (bare_matchers (vs_matchers s))) as [[|x r]|]; try reflexivity.
      destruct (uptime_ranges re d' now st); [|reflexivity]. apply steps_3_to_8_agree.
    Qed.

    Lemma verdict_agree others rules p s :
      verdict re d others now st rules p s = verdict re d' others now st rules p s.
    Proof. unfold verdict. destruct p as [b|]; rewrite ?check_selector_agree; reflexivity. Qed.

    Lemma check_all_agree others rules sels : forall done prior,
      check_all re d others now st rules sels done prior = check_all re d' others now st rules sels done prior.
    Proof.
      induction sels as [|s r IH]; intros done prior; [reflexivity|]. cbn [check_all].
      destruct (mem_str (vs_str s) done); [apply IH|]. rewrite verdict_agree, IH. reflexivity.
    Qed.
  End Ext.

  (** --- step 4: the metric was there from the start of the window and disappeared ------------------- *)

  Lemma disappeared_reported d others now st rules s r up :
    vs_disabled s = false -> vs_snoozed s = false -> is_alerts s = false ->
    instant_match re d now (vs_matchers s) = [] -> vs_bare_str s <> EmptyString ->
    0 < set_step st -> 0 <= set_lookback st ->
    range_probe re d now st (bare_matchers (vs_matchers s)) = Some [r] ->
    uptime_ranges re d now st = Some up ->
    label_names s = [] ->
    r_start r <= now - set_lookback st + set_step st ->
    r_end r < now - set_step st ->
    check_selector re d others now st rules false s =
      Decided (if r_end r <? now - vs_min_age s then [nonexistent (sev_of st s)] else []).
  Proof.
    intros Hd Hz Ha Hi Hb Hp Hlb Hr Hu Hl H1 H2. unfold check_selector. rewrite Hd, Hz, Ha. cbn [orb].
    rewrite instant_probe_at_now, Hi.
    destruct (String.eqb (vs_bare_str s) "") eqn:E; [apply String.eqb_eq in E; contradiction|].
    rewrite Hr, Hu. unfold steps_3_to_8. pose proof (gaps_of_total now st [r] up Hp Hlb) as Hg.
    destruct (gaps_of now st [r] up) as [bg|]; [|contradiction]. rewrite Hl. cbn [step3 orb negb].
    cbn [List.length Nat.eqb oldest newest map fold_left andb].
    assert ((r_start r <=? now - set_lookback st + set_step st) = true) as E1 by (apply Z.leb_le; exact H1).
    assert ((r_end r <? now - set_step st) = true) as E2 by (apply Z.ltb_lt; exact H2).
    rewrite E1, E2. cbn [andb]. destruct (r_end r <? now - vs_min_age s); reflexivity.
  Qed.
  (** --- step 5: a matcher whose single-matcher selector never matched ---------------------------------- *)

  Lemma range_probe_pres_never now st pres : 0 <= set_step st ->
    (forall t, In t (probe_points now st) -> pres t = false) ->
    range_probe_pres now st pres = Some [].
  Proof.
    intros Hstep Hnever. unfold range_probe_pres. unfold probe_points in Hnever.
    assert (range_requests now st <> None) as Htot.
    { unfold range_requests, range_requests_for.
      pose proof (query_slices_total (now - set_lookback st) now (set_lookback st) (set_step st) Hstep) as Htot.
      destruct (query_slices _ _ _ _ _) as [sl|]; [discriminate|contradiction]. }
    destruct (range_requests now st) as [rs|]; [|contradiction]. clear Htot.
    rewrite flat_map_nil; [reflexivity|].
    intros r Hr. unfold serve_range, per_slice. cbn [fold_left fst snd].
    unfold server_samples. rewrite filter_none; [reflexivity|].
    intros t Ht. apply Hnever. apply in_flat_map. exists r. split; assumption.
  Qed.

  Lemma matcher_never_matches d now st up bg s lm : 0 < set_step st -> 0 <= set_lookback st ->
    (forall t, In t (probe_points now st) -> instant_match re d t (label_selector s lm) = []) ->
    step567_one re d now st up bg s lm = MProblems [nonexistent (sev_of st s)].
  Proof.
    intros Hp Hl Hnever. unfold step567_one, probe_with_gaps.
    rewrite range_probe_pres_never; [|lia|intros t Ht; unfold sel_presence; rewrite (Hnever t Ht); reflexivity].
    pose proof (gaps_of_total now st [] up Hp Hl) as Hg. destruct (gaps_of now st [] up); [reflexivity|contradiction].
  Qed.

  (** a selector that matches the labels of no stored series returns nothing at any instant *)
  Lemma instant_match_no_label_match d t ms :
    forallb (fun x => negb (sel_matches re ms (ts_labels x))) d = true -> instant_match re d t ms = [].
  Proof.
    intros H. unfold instant_match. rewrite filter_none; [reflexivity|]. intros x Hx.
    rewrite forallb_forall in H. specialize (H x Hx). apply negb_true_iff in H. rewrite H. reflexivity.
  Qed.
End S.
