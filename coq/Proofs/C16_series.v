(** C16 — lemmas about the decision tree model of promql/series (Model/Series.v). *)
From Coq Require Import List String ZArith NArith Bool Lia.
From PintV Require Import Common.Bytes Common.GoTime Model.Range Model.RangeRef Model.Series Proofs.C13_slice.
Import ListNotations.
Open Scope Z_scope.

(** the grid points the range probe of [count(bare selector)] evaluates: the union of the slices' grids *)
Definition probe_points (now : Z) (st : settings) : list Z :=
  match range_requests now st with
  | None => []
  | Some rs => flat_map (fun r => grid_between (rq_start r) (rq_end r) (rq_step r)) rs
  end.

(** the instant probe carries no [time] parameter: it is evaluated at the server's clock *)
Lemma instant_probe_at_now re d now ms : instant_probe re d now ms = instant_match re d now ms.
Proof. reflexivity. Qed.

Section S.
  Variable re : string -> string -> bool.

  (** --- structure of the selector loop ------------------------------------------------------ *)

  Lemma check_all_entry d others now st rules sels : forall done k o,
    In (k, o) (check_all re d others now st rules sels done) ->
    ~ In k done /\
    exists pre s post, sels = (pre ++ s :: post)%list /\ vs_str s = k /\
      (forall s', In s' pre -> vs_str s' <> k) /\
      o = check_selector re d others now st rules s.
  Proof.
    induction sels as [|s r IH]; intros done k o H; cbn [check_all] in H; [contradiction|].
    destruct (mem_str (vs_str s) done) eqn:E.
    - destruct (IH done k o H) as [Hnd [pre [s0 [post [Hs [Hk [Hpre Ho]]]]]]].
      split; [exact Hnd|]. exists (s :: pre), s0, post. subst r. split; [reflexivity|]. split; [exact Hk|].
      split; [|exact Ho]. intros s' [Hs'|Hs']; [|apply Hpre; exact Hs'].
      subst s'. intro Heq. apply Hnd. apply mem_str_In. rewrite <- Heq. exact E.
    - destruct H as [H|H].
      + inversion H; subst k o. split.
        * intro Hin. apply mem_str_In in Hin. congruence.
        * exists [], s, r. split; [reflexivity|]. split; [reflexivity|]. split; [intros s' []|reflexivity].
      + destruct (IH (vs_str s :: done) k o H) as [Hnd [pre [s0 [post [Hs [Hk [Hpre Ho]]]]]]].
        split; [intro Hin; apply Hnd; right; exact Hin|].
        exists (s :: pre), s0, post. subst r. split; [reflexivity|]. split; [exact Hk|]. split; [|exact Ho].
        intros s' [Hs'|Hs']; [|apply Hpre; exact Hs'].
        subst s'. intro Heq. apply Hnd. left. exact Heq.
  Qed.

  Lemma check_all_covers d others now st rules sels : forall done s,
    In s sels -> ~ In (vs_str s) done ->
    In (vs_str s) (map fst (check_all re d others now st rules sels done)).
  Proof.
    induction sels as [|s0 r IH]; intros done s Hin Hnd; [contradiction|]. cbn [check_all].
    destruct (mem_str (vs_str s0) done) eqn:E.
    - destruct Hin as [Hin|Hin].
      + subst s0. exfalso. apply Hnd. apply mem_str_In. exact E.
      + apply IH; assumption.
    - cbn [map fst]. destruct (String.eqb (vs_str s0) (vs_str s)) eqn:Es.
      + apply String.eqb_eq in Es. left. exact Es.
      + apply String.eqb_neq in Es. right. destruct Hin as [Hin|Hin]; [subst s0; congruence|].
        apply IH; [exact Hin|]. intros [H|H]; [congruence|apply Hnd; exact H].
  Qed.

  Lemma check_all_nodup d others now st rules sels : forall done,
    NoDup (map fst (check_all re d others now st rules sels done)).
  Proof.
    induction sels as [|s r IH]; intros done; cbn [check_all]; [constructor|].
    destruct (mem_str (vs_str s) done); [apply IH|].
    cbn [map fst]. constructor; [|apply IH].
    intro Hin. apply in_map_iff in Hin. destruct Hin as [[k o] [Hk Hin]]. cbn in Hk. subst k.
    destruct (check_all_entry _ _ _ _ _ _ _ _ _ Hin) as [Hnd _]. apply Hnd. left. reflexivity.
  Qed.

  (** --- step 1: present now ----------------------------------------------------------------- *)

  Lemma present_decided d others now st rules s :
    is_alerts s = false -> instant_match re d now (vs_matchers s) <> [] ->
    check_selector re d others now st rules s = Decided [].
  Proof.
    intros Ha Hp. unfold check_selector. destruct (vs_disabled s || vs_snoozed s); [reflexivity|].
    rewrite Ha, instant_probe_at_now. destruct (instant_match re d now (vs_matchers s)); [contradiction|reflexivity].
  Qed.

  (** --- step 2: never there ------------------------------------------------------------------ *)

  Lemma sel_matches_bare ms ls : sel_matches re ms ls = true -> sel_matches re (bare_matchers ms) ls = true.
  Proof.
    unfold sel_matches, bare_matchers. rewrite !forallb_forall. intros H m Hin.
    apply filter_In in Hin. apply H. tauto.
  Qed.

  Lemma instant_bare_nil d t ms : instant_match re d t (bare_matchers ms) = [] -> instant_match re d t ms = [].
  Proof.
    unfold instant_match. induction d as [|s r IH]; [reflexivity|]. cbn [filter map].
    destruct (sel_matches re (bare_matchers ms) (ts_labels s) && pres_of (ts_visible s) t) eqn:E1; [discriminate|].
    intro H. specialize (IH H).
    destruct (sel_matches re ms (ts_labels s) && pres_of (ts_visible s) t) eqn:E2; [|exact IH].
    apply andb_true_iff in E2. destruct E2 as [E2 E3]. apply sel_matches_bare in E2. rewrite E2, E3 in E1. discriminate.
  Qed.

  Lemma filter_none {A} (f : A -> bool) l : (forall x, In x l -> f x = false) -> filter f l = [].
  Proof.
    induction l as [|x r IH]; intros H; [reflexivity|]. cbn [filter]. rewrite (H x (or_introl eq_refl)).
    apply IH. intros y Hy. apply H. right. exact Hy.
  Qed.

  Lemma flat_map_nil {A B} (f : A -> list B) l : (forall x, In x l -> f x = []) -> flat_map f l = [].
  Proof.
    induction l as [|x r IH]; intros H; [reflexivity|]. cbn [flat_map]. rewrite (H x (or_introl eq_refl)).
    apply IH. intros y Hy. apply H. right. exact Hy.
  Qed.

  Lemma range_probe_never d now st ms : 0 <= set_step st ->
    (forall t, In t (probe_points now st) -> instant_match re d t ms = []) ->
    range_probe re d now st ms = Some [].
  Proof.
    intros Hstep Hnever. unfold range_probe. unfold probe_points in Hnever.
    assert (range_requests now st <> None) as Htot.
    { unfold range_requests, range_requests_for.
      pose proof (query_slices_total (now - set_lookback st) now (set_lookback st) (set_step st) Hstep) as Htot.
      destruct (query_slices _ _ _ _ _) as [sl|]; [discriminate|contradiction]. }
    destruct (range_requests now st) as [rs|]; [|contradiction]. clear Htot.
    rewrite flat_map_nil; [reflexivity|].
    intros s Hs. unfold serve_range, per_slice. cbn [fold_left fst snd].
    unfold server_samples. rewrite filter_none; [reflexivity|].
    intros t Ht. unfold sel_presence. rewrite Hnever; [reflexivity|].
    apply in_flat_map. exists s. split; assumption.
  Qed.

  Lemma should_report_no_others now st s : should_report re [] now st s = true.
  Proof. reflexivity. Qed.

  Lemma should_report_no_ignore others now st s : set_ignore_elsewhere st = [] -> should_report re others now st s = true.
  Proof.
    intros H. unfold should_report. rewrite H. apply negb_true_iff.
    induction others as [|o r IH]; [reflexivity|]. cbn [existsb] in *. rewrite IH.
    destruct (instant_probe re o now (vs_matchers s)); reflexivity.
  Qed.

  Lemma never_there_bug d others now st rules s :
    vs_disabled s = false -> vs_snoozed s = false -> is_alerts s = false ->
    vs_bare_str s <> EmptyString -> 0 <= set_step st ->
    (forall t, In t (probe_points now st) \/ t = now -> instant_match re d t (bare_matchers (vs_matchers s)) = []) ->
    has_recording rules (vs_bare_str s) = false ->
    mem_str (vs_bare_str s) (set_ignored st) = false ->
    (others = [] \/ set_ignore_elsewhere st = []) ->
    check_selector re d others now st rules s = Decided [(summary_nonexistent, Bug)].
  Proof.
    intros Hd Hz Ha Hb Hstep Hnever Hrec Hign Hoth. unfold check_selector.
    rewrite Hd, Hz, Ha. cbn [orb]. rewrite instant_probe_at_now.
    rewrite (instant_bare_nil d now (vs_matchers s)) by (apply Hnever; right; reflexivity).
    destruct (String.eqb (vs_bare_str s) "") eqn:E; [apply String.eqb_eq in E; contradiction|].
    rewrite range_probe_never; [|exact Hstep|intros t Ht; apply Hnever; left; exact Ht].
    rewrite Hrec, Hign.
    assert (should_report re others now st s = true) as Hsr.
    { destruct Hoth as [Ho|Ho]; [subst others; reflexivity|apply should_report_no_ignore; exact Ho]. }
    rewrite Hsr. reflexivity.
  Qed.
End S.
