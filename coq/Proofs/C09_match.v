(** C09 — lemmas about Model/Match.v: the code-order evaluation equals the documented boolean meaning. *)
From Coq Require Import List String Ascii ZArith Bool Lia.
From PintV Require Import Common.Bytes Gen.Tables Model.Match.
Import ListNotations.
Open Scope string_scope.
Open Scope list_scope.

(* ---------------------------------------------------------------------------------------------- *)
(** * merge_maps: pairs visible after the merge (maps with unique keys) *)

Definition keys (m : ymap) : list string := map fst m.

Lemma set_value_keys items k v :
  keys (set_value items k v) = if mem_str k (keys items) then keys items else keys items ++ [k].
Proof.
  induction items as [|[k' v'] r IH]; simpl; [reflexivity|].
  rewrite (String.eqb_sym k k'). destruct (String.eqb k' k) eqn:E; simpl; [reflexivity|].
  unfold keys in *. rewrite IH. destruct (mem_str k (map fst r)); reflexivity.
Qed.

Lemma nodup_app_one {A} (l : list A) x : NoDup l -> ~ In x l -> NoDup (l ++ [x]).
Proof.
  induction l as [|y l IH]; intros H Hn; simpl.
  - constructor; [intros []|constructor].
  - inversion H; subst. constructor.
    + intro Hin. apply in_app_or in Hin. destruct Hin as [Hin|[Hin|[]]]; [contradiction|].
      subst. apply Hn. left. reflexivity.
    + apply IH; [assumption|]. intro Hin. apply Hn. right. exact Hin.
Qed.

Lemma set_value_nodup items k v : NoDup (keys items) -> NoDup (keys (set_value items k v)).
Proof.
  intro H. rewrite set_value_keys. destruct (mem_str k (keys items)) eqn:M; [exact H|].
  apply nodup_app_one; [exact H|]. intro Hin. apply mem_str_In in Hin. congruence.
Qed.

Lemma in_set_value items k v k' v' : NoDup (keys items) ->
  (In (k', v') (set_value items k v) <-> (k' = k /\ v' = v) \/ (k' <> k /\ In (k', v') items)).
Proof.
  induction items as [|[k0 v0] r IH]; intro H; simpl.
  - split.
    + intros [E|[]]. inversion E; subst. left. split; reflexivity.
    + intros [[-> ->]|[_ []]]. left. reflexivity.
  - inversion H as [|? ? Hn Hr]; subst. destruct (String.eqb k0 k) eqn:E.
    + apply String.eqb_eq in E. subst k0. simpl. split.
      * intros [E|Hin].
        -- inversion E; subst. left. split; reflexivity.
        -- destruct (String.eqb k' k) eqn:E2.
           ++ apply String.eqb_eq in E2. subst k'. exfalso. apply Hn. unfold keys.
              change k with (fst (k, v')). apply in_map. exact Hin.
           ++ apply String.eqb_neq in E2. right. split; [exact E2|]. right. exact Hin.
      * intros [[-> ->]|[Hne [E|Hin]]].
        -- left. reflexivity.
        -- inversion E; subst. congruence.
        -- right. exact Hin.
    + apply String.eqb_neq in E. simpl. rewrite (IH Hr). split.
      * intros [E2|[[-> ->]|[Hne Hin]]].
        -- inversion E2; subst. right. split; [exact E|]. left. reflexivity.
        -- left. split; reflexivity.
        -- right. split; [exact Hne|]. right. exact Hin.
      * intros [[-> ->]|[Hne [E2|Hin]]].
        -- right. left. split; reflexivity.
        -- left. exact E2.
        -- right. right. split; assumption.
Qed.

Lemma in_merge_maps : forall l g k v, NoDup (keys g) -> NoDup (keys l) ->
  (In (k, v) (merge_maps g l) <-> In (k, v) l \/ (~ In k (keys l) /\ In (k, v) g)).
Proof.
  unfold merge_maps. induction l as [|[k0 v0] l IH]; intros g k v Hg Hl; simpl.
  - split; [intro H; right; split; [intros []|exact H]|intros [[]|[_ H]]; exact H].
  - inversion Hl as [|? ? Hn Hl']; subst.
    rewrite (IH (set_value g k0 v0) k v (set_value_nodup g k0 v0 Hg) Hl').
    rewrite (in_set_value g k0 v0 k v Hg). split.
    + intros [H|[Hnk [[-> ->]|[Hne H]]]].
      * left. right. exact H.
      * left. left. reflexivity.
      * right. split; [|exact H]. intros [E|Hin]; [congruence|contradiction].
    + intros [[E|H]|[Hnk H]].
      * inversion E; subst. destruct (in_dec string_dec k (keys l)) as [Hin|Hnin]; [contradiction|].
        right. split; [exact Hnin|]. left. split; reflexivity.
      * left. exact H.
      * right. split; [intro Hin; apply Hnk; right; exact Hin|].
        right. split; [|exact H]. intro E. apply Hnk. left. symmetry. exact E.
Qed.

(* ---------------------------------------------------------------------------------------------- *)
(** * entry_labels vs the documented label set *)

Definition wf_labels (e : mentry) : Prop :=
  (forall l, me_labels e = Some l -> NoDup (keys l)) /\ (forall g, me_group_labels e = Some g -> NoDup (keys g)).

Lemma existsb_ext_set {A} (f : A -> bool) l1 l2 : (forall x, In x l1 <-> In x l2) -> existsb f l1 = existsb f l2.
Proof.
  intro H. destruct (existsb f l1) eqn:E1; symmetry.
  - apply existsb_exists in E1. destruct E1 as [x [Hx Fx]]. apply existsb_exists. exists x. split; [apply H; exact Hx|exact Fx].
  - apply not_true_is_false. intro E2. apply existsb_exists in E2. destruct E2 as [x [Hx Fx]].
    assert (existsb f l1 = true) by (apply existsb_exists; exists x; split; [apply H; exact Hx|exact Fx]). congruence.
Qed.

Lemma existsb_keys own k : existsb (fun o : string * string => String.eqb (fst o) k) own = mem_str k (keys own).
Proof.
  induction own as [|[k0 v0] r IH]; simpl; [reflexivity|]. rewrite (String.eqb_sym k k0), IH. reflexivity.
Qed.

Lemma entry_labels_same_set e : wf_labels e -> forall kv, In kv (entry_labels e) <-> In kv (doc_labels e).
Proof.
  intros [Wl Wg] [k v]. unfold entry_labels, doc_labels.
  assert (F : forall own g, NoDup (keys own) -> NoDup (keys g) ->
              (In (k, v) (merge_maps g own) <->
               In (k, v) (filter (fun kv => negb (existsb (fun o => String.eqb (fst o) (fst kv)) own)) g ++ own))).
  { intros own g Ho Hg. rewrite (in_merge_maps own g k v Hg Ho). rewrite in_app_iff, filter_In. simpl.
    rewrite existsb_keys. split.
    - intros [H|[Hn H]]; [right; exact H|left; split; [exact H|]].
      apply negb_true_iff. apply not_true_is_false. intro M. apply mem_str_In in M. contradiction.
    - intros [[H Hn]|H]; [right; split; [|exact H]|left; exact H].
      apply negb_true_iff in Hn. intro Hin. apply mem_str_In in Hin. congruence. }
  assert (G : forall g, In (k, v) g <-> In (k, v) (filter (fun kv : string * string => negb (existsb (fun o : string * string => String.eqb (fst o) (fst kv)) [])) g ++ [])).
  { intro g. rewrite app_nil_r, filter_In. simpl. tauto. }
  destruct (me_kind e); destruct (me_labels e) as [own|] eqn:L; destruct (me_group_labels e) as [g|] eqn:Gl;
    try (apply F; [apply Wl; reflexivity|apply Wg; reflexivity]); try (apply G); simpl; tauto.
Qed.

(* ---------------------------------------------------------------------------------------------- *)
(** * states and durations *)

Local Opaque String.eqb.
Lemma state_case_doc s state :
  state_case_matches s state =
  (String.eqb s "any" || match doc_state_name s with Some n => String.eqb n state | None => false end).
Proof.
  unfold state_case_matches, doc_state_name, state_matches_cases. cbn [assoc].
  destruct (String.eqb s "any") eqn:E0; [reflexivity|].
  destruct (String.eqb s "added") eqn:E1;
    [cbn [mem_str]; rewrite (String.eqb_sym state); destruct (String.eqb "Added" state); reflexivity|].
  destruct (String.eqb s "modified") eqn:E2;
    [cbn [mem_str]; rewrite (String.eqb_sym state); destruct (String.eqb "Modified" state); reflexivity|].
  destruct (String.eqb s "renamed") eqn:E3;
    [cbn [mem_str]; rewrite (String.eqb_sym state); destruct (String.eqb "Moved" state); reflexivity|].
  destruct (String.eqb s "removed") eqn:E4;
    [cbn [mem_str]; rewrite (String.eqb_sym state); destruct (String.eqb "Removed" state); reflexivity|].
  destruct (String.eqb s "unmodified") eqn:E5;
    [cbn [mem_str]; rewrite (String.eqb_sym state); destruct (String.eqb "Noop" state); reflexivity|].
  reflexivity.
Qed.
Local Transparent String.eqb.

Lemma state_matches_doc states state : state_matches states state = doc_state states state.
Proof.
  unfold state_matches, doc_state. induction states as [|s r IH]; simpl; [reflexivity|].
  rewrite state_case_doc, IH. reflexivity.
Qed.

Lemma default_states_doc cmd : default_match_states cmd = doc_default_states cmd.
Proof. unfold default_match_states, doc_default_states. destruct (String.eqb cmd "ci"); reflexivity. Qed.

Lemma duration_is_match_doc dm d : duration_is_match dm d = doc_cmp (fst dm) d (snd dm).
Proof.
  unfold duration_is_match, doc_cmp. destruct (fst dm); try reflexivity.
  - apply Z.geb_leb.
  - apply Z.gtb_ltb.
Qed.

Lemma duration_ops_spec op d v :
  duration_is_match (op, d) v = true <->
  match op with
  | OpLess => (v < d)%Z | OpLessEqual => (v <= d)%Z | OpEqual => v = d
  | OpNotEqual => v <> d | OpMoreEqual => (v >= d)%Z | OpMore => (v > d)%Z
  end.
Proof.
  unfold duration_is_match; simpl. destruct op.
  - apply Z.ltb_lt.
  - apply Z.leb_le.
  - apply Z.eqb_eq.
  - rewrite negb_true_iff. rewrite Z.eqb_neq. tauto.
  - rewrite Z.geb_leb, Z.leb_le. lia.
  - rewrite Z.gtb_ltb, Z.ltb_lt. lia.
Qed.

(* ---------------------------------------------------------------------------------------------- *)
(** * One block: code order = conjunction of the nine documented conditions *)

Section WithOracles.
  Variable full_match : string -> string -> bool.
  Variable parse_dur : string -> option Z.

  Lemma duration_cond_doc expr e field :
    duration_cond parse_dur expr (me_kind e) field = doc_duration parse_dur expr e field.
  Proof.
    unfold duration_cond, doc_duration. destruct (me_kind e); try reflexivity.
    destruct field as [v|]; [|reflexivity]. destruct (parse_dur v); [|reflexivity].
    apply duration_is_match_doc.
  Qed.

  Lemma if_false_else (a b : bool) : (if a then false else b) = negb a && b.
  Proof. destruct a; reflexivity. Qed.

  Lemma andb_eq (a b c d : bool) : a = c -> b = d -> a && b = c && d.
  Proof. intros -> ->. reflexivity. Qed.

  Lemma match_is_match_eq_all_conds cmd m e : wf_labels e ->
    match_is_match full_match parse_dur cmd m e = all_conds full_match parse_dur cmd m e.
  Proof.
    intro W. unfold match_is_match. rewrite !if_false_else.
    unfold all_conds, all_conditions. cbn [forallb].
    apply andb_eq.
    { (* command *) unfold cond_holds. destruct (m_command m) as [c|]; [apply negb_involutive|reflexivity]. }
    apply andb_eq.
    { (* state *) unfold cond_holds. destruct (m_state m) as [|s0 st]; [reflexivity|].
      rewrite negb_involutive. apply state_matches_doc. }
    apply andb_eq.
    { (* kind *) unfold cond_holds. destruct (String.eqb (m_kind m) ""); [reflexivity|]. cbn [negb andb orb].
      destruct (me_kind e); [apply negb_involutive|apply negb_involutive|reflexivity]. }
    apply andb_eq.
    { (* path *) unfold cond_holds. destruct (String.eqb (m_path m) ""); [reflexivity|]. cbn [negb andb orb]. apply negb_involutive. }
    apply andb_eq.
    { (* name *) unfold cond_holds. destruct (String.eqb (m_name m) ""); [reflexivity|]. cbn [negb andb orb].
      destruct (me_kind e); [apply negb_involutive|apply negb_involutive|reflexivity]. }
    apply andb_eq.
    { (* label *) unfold cond_holds. destruct (m_label m) as [l|]; [|reflexivity]. rewrite negb_involutive.
      unfold kv_is_matching. apply existsb_ext_set. apply entry_labels_same_set. exact W. }
    apply andb_eq.
    { (* annotation *) unfold cond_holds. destruct (m_annotation m) as [a|]; [|reflexivity]. rewrite negb_involutive.
      unfold annotation_is_matching, kv_is_matching. reflexivity. }
    apply andb_eq.
    { (* for *) unfold cond_holds. destruct (String.eqb (m_for m) ""); [reflexivity|]. cbn [negb andb orb].
      rewrite negb_involutive. apply duration_cond_doc. }
    apply andb_eq; [|reflexivity].
    { (* keep_firing_for *) unfold cond_holds. destruct (String.eqb (m_keep m) ""); [reflexivity|]. cbn [negb andb orb].
      rewrite negb_involutive. apply duration_cond_doc. }
  Qed.

  Lemma existsb_ext_fun {A} (f g : A -> bool) l : (forall x, f x = g x) -> existsb f l = existsb g l.
  Proof. intro H. induction l as [|x l IH]; simpl; [reflexivity|]. rewrite H, IH. reflexivity. Qed.

  Lemma default_rule_match_doc cmd mtch :
    default_rule_match mtch (default_match_states cmd) = doc_with_default_state cmd mtch.
  Proof.
    unfold default_rule_match, doc_with_default_state. rewrite default_states_doc. reflexivity.
  Qed.

  Lemma default_rule_match_nonempty mtch ds : default_rule_match mtch ds <> [].
  Proof. unfold default_rule_match. destruct mtch; simpl; discriminate. Qed.

  Lemma rule_block_applies_eq_doc cmd e ignore mtch : wf_labels e ->
    rule_block_applies full_match parse_dur cmd e ignore mtch = doc_applies full_match parse_dur cmd e ignore mtch.
  Proof.
    intro W. unfold rule_block_applies, is_match, doc_applies.
    rewrite (existsb_ext_fun _ (fun i => all_conds full_match parse_dur cmd i e) ignore
               (fun i => match_is_match_eq_all_conds cmd i e W)).
    rewrite <- default_rule_match_doc.
    destruct (existsb (fun i => all_conds full_match parse_dur cmd i e) ignore); simpl; [reflexivity|].
    pose proof (default_rule_match_nonempty mtch (default_match_states cmd)) as NE.
    destruct (default_rule_match mtch (default_match_states cmd)) as [|m0 ms] eqn:D; [congruence|].
    apply existsb_ext_fun. intro x. apply match_is_match_eq_all_conds. exact W.
  Qed.

  Lemma is_match_eq_doc_selects cmd e ignore mtch : wf_labels e ->
    is_match full_match parse_dur cmd e ignore mtch = doc_selects full_match parse_dur cmd e ignore mtch.
  Proof.
    intro W. unfold is_match, doc_selects.
    rewrite (existsb_ext_fun _ (fun i => all_conds full_match parse_dur cmd i e) ignore
               (fun i => match_is_match_eq_all_conds cmd i e W)).
    destruct (existsb (fun i => all_conds full_match parse_dur cmd i e) ignore); simpl; [reflexivity|].
    destruct mtch as [|m0 ms]; [reflexivity|].
    apply existsb_ext_fun. intro x. apply match_is_match_eq_all_conds. exact W.
  Qed.
End WithOracles.

(* ---------------------------------------------------------------------------------------------- *)
(** * group labels *)

Lemma group_label_visible full_match e l g k v :
  me_group_labels e = Some g -> wf_labels e -> In (k, v) g ->
  (forall own, me_labels e = Some own -> me_kind e <> Neither -> ~ In k (keys own)) ->
  full_match (km_key l) k = true -> full_match (km_value l) v = true ->
  kv_is_matching full_match l (entry_labels e) = true.
Proof.
  intros Hg W Hin Hown Fk Fv. unfold kv_is_matching. apply existsb_exists. exists (k, v). split.
  - apply (entry_labels_same_set e W). unfold doc_labels. rewrite Hg. apply in_app_iff. left.
    apply filter_In. split; [exact Hin|]. simpl. apply negb_true_iff. rewrite existsb_keys.
    apply not_true_is_false. intro M. apply mem_str_In in M.
    destruct (me_kind e) eqn:K; destruct (me_labels e) as [own|] eqn:L; simpl in M; try contradiction.
    + apply (Hown own eq_refl); [discriminate|exact M].
    + apply (Hown own eq_refl); [discriminate|exact M].
  - simpl. rewrite Fk, Fv. reflexivity.
Qed.

(** the side effect of MergeMaps on the group's labels is the identity exactly when no rule label
    overrides a group label with a different value *)
Lemma set_value_absent_prefix items k v :
  mem_str k (keys items) = false -> firstn (List.length items) (set_value items k v) = items.
Proof.
  induction items as [|[k0 v0] r IH]; simpl; intro M; [reflexivity|].
  destruct (String.eqb k k0) eqn:E; [discriminate|]. rewrite (String.eqb_sym k0 k), E. simpl. f_equal. apply IH. exact M.
Qed.
