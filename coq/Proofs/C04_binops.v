(** C04: binary operators. *)
From Coq Require Import List String Bool Floats NArith Arith Lia.
From PintV Require Import Common.Bytes Gen.C04 Model.PromQL Model.Source Model.PromSem Model.PromFrag
  Proofs.C04_lists Proofs.C04_transfer Proofs.C04_walk Proofs.C04_sound.
Import ListNotations.
Open Scope string_scope.
Open Scope list_scope.

Lemma get_fold_include o incl : forall m l,
  get (fold_left (fun m ln => ls_set m ln (get o ln)) incl m) l = if mem_str l incl then get o l else get m l.
Proof.
  induction incl as [|ln r IH]; intros m l; simpl; [reflexivity|].
  rewrite IH. rewrite get_set. destruct (String.eqb l ln) eqn:E.
  - apply String.eqb_eq in E. subst. destruct (mem_str ln r); reflexivity.
  - reflexivity.
Qed.

Lemma has_pre_metric (c : bool) ls l : has (if c then drop_name ls else ls) l = true -> has ls l = true.
Proof.
  destruct c; auto. intros H. apply has_get in H. rewrite get_drop_name in H.
  destruct (String.eqb l metric_name); [congruence | apply has_get; exact H].
Qed.

(** one-to-one *)
Lemma has_result_metric_oto op rb vm m o l :
  vm_card vm = OneToOne -> vm_include vm = [] ->
  has (result_metric op rb vm m o) l = true ->
  has m l = true /\ (if vm_on vm then In l (vm_labels vm) else ~ In l (vm_labels vm)).
Proof.
  intros Hc Hi H. unfold result_metric in H. rewrite Hc, Hi in H. cbn [fold_left] in H.
  apply has_get in H. destruct (vm_on vm).
  - rewrite get_keep in H. destruct (mem_str l (vm_labels vm)) eqn:E; [|congruence].
    split; [|apply mem_str_true; exact E]. eapply has_pre_metric. apply has_get. exact H.
  - rewrite get_without in H. destruct (mem_str l (vm_labels vm)) eqn:E; [congruence|].
    split; [|apply mem_str_false; exact E]. eapply has_pre_metric. apply has_get. exact H.
Qed.

Lemma oto_labels_cons vm s m out :
  Cons s m ->
  (forall l, has out l = true -> has m l = true /\ (if vm_on vm then In l (vm_labels vm) else ~ In l (vm_labels vm))) ->
  Cons (one_to_one_labels vm s) out.
Proof.
  intros HC Ho l Hl. destruct (Ho l Hl) as [Hm Hv]. specialize (HC l Hm).
  unfold one_to_one_labels. destruct (vm_on vm).
  - apply can_have_iff in HC. destruct HC as [He _]. apply can_have_iff.
    cbn [restrict_guaranteed restrict_included s_excluded s_included set_guaranteed set_included].
    split.
    + cbn [include_label s_excluded set_excluded set_included set_fixed]. intro Hin. apply In_remove_from in Hin. tauto.
    + left. apply In_remove_from_keep.
      * cbn [include_label s_included set_included set_excluded set_fixed]. apply In_append_to. tauto.
      * rewrite filter_In. intros [_ Hf]. rewrite (mem_str_of_In _ _ Hv) in Hf. discriminate.
  - apply can_have_exclude; auto.
Qed.

(** group_left / group_right: [m] is the "many" side *)
Lemma has_result_metric_group op rb vm m o l :
  vm_card vm <> OneToOne ->
  has (result_metric op rb vm m o) l = true -> In l (vm_include vm) \/ has m l = true.
Proof.
  intros Hc H. unfold result_metric in H. apply has_get in H. rewrite get_fold_include in H.
  destruct (mem_str l (vm_include vm)) eqn:E.
  - left. apply mem_str_true. exact E.
  - right. destruct (vm_card vm); [congruence| | |]; eapply has_pre_metric; apply has_get; exact H.
Qed.

Lemma group_labels_cons vm s m out :
  nd s -> Cons s m ->
  (forall l, has out l = true -> In l (vm_include vm) \/ has m l = true) ->
  Cons (group_labels vm s) out.
Proof.
  intros Hnd HC Ho l Hl. unfold group_labels.
  assert (H1 : can_have_label (include_label s (vm_include vm)) l = true).
  { destruct (Ho l Hl) as [Hi|Hm].
    - apply can_have_include_new; auto.
    - apply le_perm_include. auto. }
  destruct (vm_on vm); [apply le_perm_include|]; exact H1.
Qed.

Lemma mtm_labels_le vm s : le_perm s (mtm_labels vm s).
Proof. unfold mtm_labels. destruct (vm_on vm); [apply le_perm_include | apply le_perm_refl]. Qed.

Lemma In_filter_weak {A} (f : A -> bool) x l : In x (filter f l) -> In x l.
Proof. rewrite filter_In. tauto. Qed.
