(** C01: a plain rule mapping accepted by pint's strict mode (no error, no Bug/Fatal of the modelled checks)
    is decoded without error by the Prometheus loader model and passes Rule.Validate. *)
From Coq Require Import List String Ascii Arith Bool Lia.
From PintV Require Import Common.Bytes Model.Yaml Model.Parser Model.Routing Model.PromLoader
     Proofs.C19_relaxed Proofs.C02_wellformed Proofs.C01_prom Proofs.C01_pint.
Import ListNotations.
Open Scope string_scope.
Open Scope list_scope.

Lemma node_value_plain x : plain_node x -> node_value x = n_value x.
Proof. intros [Ha _]. unfold node_value. now rewrite Ha. Qed.

Lemma contains_brace_same s : PromLoader.contains_brace s = Parser.contains_brace s.
Proof. induction s as [|c r IH]; cbn; [reflexivity|]. now rewrite IH. Qed.

Lemma is_tag_true tag want : is_tag tag want = true -> tag = nullTag \/ tag = want.
Proof.
  unfold is_tag. destruct (String.eqb tag nullTag) eqn:E; [left; now apply String.eqb_eq|].
  intros H. right. now apply String.eqb_eq.
Qed.

(** what pint's kindMismatch checks (b22de24, 4a0d172) leave through: the node, read through an alias, has the expected
    kind, or is a null scalar.  The guard says nothing about tags any more; kinds come from these checks. *)
Lemma km_cases n k : kind_mismatch n k = false ->
  n_kind (deref n) = k \/ (n_kind (deref n) = KScalar /\ n_tag (deref n) = nullTag).
Proof.
  unfold kind_mismatch, deref. destruct (n_alias n) as [t|]; set (m := match _ with _ => _ end) || idtac;
    (destruct ((n_tag _ =? nullTag) && kind_eqb (n_kind _) KScalar)%bool eqn:E; intros H;
     [right; apply andb_true_iff in E; destruct E as [E1 E2]; split; [now apply kind_eqb_eq|now apply String.eqb_eq]
     |left; apply negb_false_iff in H; now apply kind_eqb_eq]).
Qed.

Lemma km_scalar n : kind_mismatch n KScalar = false -> n_kind (deref n) = KScalar.
Proof. intros H. destruct (km_cases n KScalar H) as [K|[K _]]; exact K. Qed.

Lemma km_plain x k : n_alias x = None -> kind_mismatch x k = false -> n_kind x = k \/ (n_kind x = KScalar /\ n_tag x = nullTag).
Proof. intros Ha H. pose proof (km_cases x k H) as X. unfold deref in X. now rewrite Ha in X. Qed.

Lemma plain_nonempty_scalar x : plain_node x -> n_value x <> "" -> n_kind x = KScalar.
Proof.
  intros (_ & _ & H) V. destruct (n_kind x); try contradiction; try reflexivity.
  destruct H as (E & _). congruence.
Qed.

Lemma first_bad_tag_none want kd : forall l,
  first_bad_tag want kd l = None -> forall k n, In (k, Some n) l -> is_tag (n_tag n) want = true /\ kind_mismatch n kd = false.
Proof.
  induction l as [|[k o] r IH]; intros H k0 n Hin; [destruct Hin|].
  cbn [first_bad_tag] in H. destruct o as [m|].
  - destruct (negb (is_tag (n_tag m) want) || kind_mismatch m kd)%bool eqn:E; [discriminate|].
    apply orb_false_iff in E. destruct E as [E E']. apply negb_false_iff in E.
    destruct Hin as [X|X]; [inversion X; subst; split; assumption|exact (IH H k0 n X)].
  - destruct Hin as [X|X]; [discriminate|exact (IH H k0 n X)].
Qed.

(** fix d65cbbf: no record/alert/expr value is a null spelled with text *)
Lemma first_null_text_none : forall l,
  first_null_text l = None -> forall k n, In (k, Some n) l -> n_tag n = nullTag -> n_value n = "".
Proof.
  induction l as [|[k o] r IH]; intros H k0 n Hin T; [destruct Hin|].
  cbn [first_null_text] in H. destruct o as [m|].
  - destruct ((n_tag m =? nullTag) && negb (n_value m =? ""))%bool eqn:E; [discriminate|].
    destruct Hin as [X|X]; [|exact (IH H k0 n X T)]. inversion X; subst m.
    rewrite T in E. cbn [andb] in E. change (nullTag =? nullTag) with true in E. cbn [andb] in E.
    apply negb_false_iff in E. now apply String.eqb_eq.
  - destruct Hin as [X|X]; [discriminate|exact (IH H k0 n X T)].
Qed.

Lemma validate_string_map_loop_none fld all off lines : forall l seen,
  (forall k v, In (k, v) l -> n_alias k = None) ->      (* keys that are no aliases: nodeValue(key) = key.Value (cd8be7e) *)
  validate_string_map_loop fld all off lines seen l = None ->
  (forall k v, In (k, v) l -> is_tag (n_tag v) strTag = true /\ kind_mismatch v KScalar = false) /\
  NoDup (map key_text l) /\ (forall kv, In kv l -> ~ In (key_text kv) seen).
Proof.
  induction l as [|[k v] r IH]; intros seen Hna H.
  - split; [intros ? ? []|split; [constructor|intros ? []]].
  - cbn [validate_string_map_loop] in H. rewrite (node_value_noalias k (Hna k v (or_introl eq_refl))) in H.
    destruct (negb (is_tag (n_tag v) strTag) || kind_mismatch v KScalar)%bool eqn:E1; [discriminate|].
    apply orb_false_iff in E1. destruct E1 as [E1 E1']. apply negb_false_iff in E1.
    destruct (mem_str (n_value k) seen) eqn:E2; [discriminate|].
    destruct (IH _ (fun k0 v0 H0 => Hna k0 v0 (or_intror H0)) H) as (A & B & C). split; [|split].
    + intros k0 v0 [X|X]; [inversion X; subst; split; assumption|exact (A k0 v0 X)].
    + cbn [map]. constructor; [|exact B]. intros Hin. apply in_map_iff in Hin. destruct Hin as (kv & Ek & Hkv).
      apply (C kv Hkv). rewrite Ek. left. reflexivity.
    + intros kv [X|X].
      * subst kv. change (key_text (k, v)) with (n_value k). intros Hs. apply mem_str_In in Hs. congruence.
      * intros Hs. apply (C kv X). right. exact Hs.
Qed.

Lemma validate_string_map_none fld nodes off lines :
  (forall k v, In (k, v) nodes -> n_alias k = None) ->
  validate_string_map fld nodes off lines = None ->
  (forall k v, In (k, v) nodes -> is_tag (n_tag v) strTag = true /\ kind_mismatch v KScalar = false) /\ NoDup (map key_text nodes).
Proof.
  intros Hna H. destruct (validate_string_map_loop_none _ _ _ _ _ _ Hna H) as (A & B & _). split; assumption.
Qed.

(** Entry.Labels(): every value of the rule's own labels survives the merge with the group labels. *)
Lemma set_value_in acc kv : exists k', In (k', snd kv) (set_value acc kv) /\ y_value k' = y_value (fst kv).
Proof.
  induction acc as [|[k v] r IH]; cbn [set_value].
  - exists (fst kv). split; [left; destruct kv; reflexivity|reflexivity].
  - destruct (String.eqb (y_value k) (y_value (fst kv))) eqn:E.
    + exists (fst kv). split; [left; destruct kv; reflexivity|reflexivity].
    + destruct IH as (k' & A & B). exists k'. split; [right; exact A|exact B].
Qed.

Lemma set_value_preserve acc kv k' v :
  In (k', v) acc -> y_value k' <> y_value (fst kv) -> In (k', v) (set_value acc kv).
Proof.
  induction acc as [|[k0 v0] r IH]; intros Hin Hne; [destruct Hin|]. cbn [set_value].
  destruct (String.eqb (y_value k0) (y_value (fst kv))) eqn:E.
  - destruct Hin as [X|X]; [inversion X; subst; apply String.eqb_eq in E; congruence|right; exact X].
  - destruct Hin as [X|X]; [left; exact X|right; exact (IH X Hne)].
Qed.

Lemma fold_set_value_preserve items : forall acc k' v,
  In (k', v) acc -> (forall ab, In ab items -> y_value (fst ab) <> y_value k') ->
  In (k', v) (fold_left set_value items acc).
Proof.
  induction items as [|ab r IH]; intros acc k' v Hin Hne; cbn [fold_left]; [exact Hin|].
  apply IH.
  - apply set_value_preserve; [exact Hin|]. intro X. apply (Hne ab (or_introl eq_refl)). now symmetry.
  - intros ab' Hab. apply Hne. right. exact Hab.
Qed.

Lemma fold_set_value_keeps items : forall acc,
  NoDup (map (fun ab : ynode * ynode => y_value (fst ab)) items) ->
  forall ab, In ab items -> exists k', In (k', snd ab) (fold_left set_value items acc).
Proof.
  induction items as [|ab0 r IH]; intros acc Hnd ab Hin; [destruct Hin|]. cbn [fold_left].
  inversion Hnd as [|x l Hn Hr]; subst.
  destruct Hin as [<-|Hin].
  - destruct (set_value_in acc ab0) as (k' & A & B). exists k'.
    apply fold_set_value_preserve; [exact A|]. intros ab' Hab' X. apply Hn. rewrite <- B, <- X. now apply (in_map (fun ab : ynode * ynode => y_value (fst ab))).
  - exact (IH _ Hr ab Hin).
Qed.

Lemma entry_labels_keeps gl rl :
  NoDup (map (fun ab : ynode * ynode => y_value (fst ab)) (ym_items rl)) ->
  forall ab, In ab (ym_items rl) -> exists k', In (k', snd ab) (entry_labels gl (Some rl)).
Proof.
  intros Hnd ab Hin. unfold entry_labels. destruct gl as [g|].
  - exact (fold_set_value_keeps _ _ Hnd ab Hin).
  - exists (fst ab). destruct ab. exact Hin.
Qed.

Section Rule.
  Variable plines : list string -> node -> nat -> nat * nat.
  Variables metric_ok lname_ok lvalue_ok dur_ok expr_ok tmpl_pint tmpl_prom dur_zero : string -> bool.
  Variables str_ok int_ok null_ok : node -> bool.
  Hypothesis H_str : forall n, n_kind n = KScalar -> n_tag n <> nullTag -> str_ok n = true.
  Hypothesis H_null : forall n, n_kind n = KScalar -> n_tag n = nullTag -> null_ok n = true.
  Hypothesis H_tmpl : forall s, tmpl_pint s = true -> tmpl_prom s = true.
  Hypothesis H_lname_empty : lname_ok "" = false.
  Hypothesis H_lvalue_empty : lvalue_ok "" = true.
  Hypothesis H_tmpl_empty : tmpl_prom "" = true.

  Variable lines : list string.

  Notation nyn := (new_yaml_node plines lines 0).
  Notation nym := (new_yaml_map plines lines 0).

  Lemma bad_label_none : forall items,
    bad_label lname_ok lvalue_ok items = None ->
    forall k v, In (k, v) items ->
      lname_ok (y_value k) = true /\ y_value k <> "__name__" /\ lvalue_ok (y_value v) = true.
  Proof.
    induction items as [|[k v] r IH]; intros H k0 v0 Hin; [destruct Hin|].
    cbn [bad_label] in H.
    destruct (negb (lname_ok (y_value k)) || (y_value k =? "__name__"))%bool eqn:E1; [discriminate|].
    apply orb_false_iff in E1. destruct E1 as [E1 E1']. apply negb_false_iff in E1. apply String.eqb_neq in E1'.
    destruct (negb (lvalue_ok (y_value v))) eqn:E2; [discriminate|]. apply negb_false_iff in E2.
    destruct Hin as [X|X]; [inversion X; subst; auto|exact (IH H k0 v0 X)].
  Qed.

  Lemma bad_annotation_none : forall items,
    bad_annotation lname_ok items = None -> forall k v, In (k, v) items -> lname_ok (y_value k) = true.
  Proof.
    induction items as [|[k v] r IH]; intros H k0 v0 Hin; [destruct Hin|].
    cbn [bad_annotation] in H. destruct (negb (lname_ok (y_value k))) eqn:E1; [discriminate|]. apply negb_false_iff in E1.
    destruct Hin as [X|X]; [inversion X; subst; auto|exact (IH H k0 v0 X)].
  Qed.

  Lemma nyn_value' x c : y_value (nyn x c) = node_value x.
  Proof. unfold new_yaml_node. destruct (plines lines x c). reflexivity. Qed.

  (** the items of a YamlMap built from a plain mapping: key/value texts of the pairs, in order *)
  Lemma yaml_map_items_plain kc : forall lps : list (node * node),
    (forall a b, In (a, b) lps -> n_alias a = None) ->
    map (fun ab : ynode * ynode => (y_value (fst ab), y_value (snd ab))) (yaml_map_items plines lines 0 kc (flatten lps)) =
    map (fun kv : node * node => (n_value (fst kv), node_value (snd kv))) lps.
  Proof.
    induction lps as [|[a b] r IH]; intros H; [reflexivity|].
    rewrite flatten_cons. cbn [yaml_map_items map fst snd].
    pose proof (H a b (or_introl eq_refl)) as Ha.
    rewrite (IH (fun a0 b0 H0 => H a0 b0 (or_intror H0))). f_equal.
    rewrite !nyn_value'. unfold node_value at 1. now rewrite Ha.
  Qed.

  Definition plain_below (n : node) : Prop := forall m, reach n m -> plain_node m.

  Lemma plain_below_content n c : plain_below n -> In c (n_content n) -> plain_below c.
  Proof. intros H Hc m Hm. apply H. eapply reach_content; eassumption. Qed.

  Lemma plain_pairs n k x :
    plain_below n -> In (k, x) (mapping_nodes n) -> plain_below k /\ plain_below x.
  Proof.
    intros H Hin. destruct (mapping_nodes_l_In _ _ _ Hin) as [Hk Hx].
    split; eapply plain_below_content; eassumption.
  Qed.

  Lemma plain_self n : plain_below n -> plain_node n.
  Proof. intros H. apply H. apply reach_refl. Qed.

  Lemma unpack_plain n : plain_below n -> unpack_nodes n = n_content n.
  Proof.
    intros H. unfold unpack_nodes. apply unpack_loop_plain. intros c Hc.
    apply plain_not_merge. apply (H c). eapply reach_content; [exact Hc|apply reach_refl].
  Qed.

  (** ---- the rule-level guard: aliases are allowed as the VALUE of a rule key and as a value inside its labels /
      annotations mapping (yaml.v3 alias nodes, [alias_to]); keys, the rule mapping itself and everything the aliases point
      at are plain. ---- *)
  Definition leaf (vv : node) : Prop := exists tv, sees vv tv /\ plain_below tv.

  Definition lmap (t : node) : Prop :=
    plain_node t /\ n_kind t = KMapping /\
    forall kk vv, In (kk, vv) (mapping_nodes t) -> plain_below kk /\ leaf vv.

  Definition tgt_ok (t : node) : Prop := plain_below t \/ lmap t.

  Definition field_value (x : node) : Prop := exists t, sees x t /\ tgt_ok t.

  Definition rule_guard (rn : node) : Prop :=
    plain_node rn /\ forall k x, In (k, x) (mapping_nodes rn) -> plain_below k /\ field_value x.

  Lemma plain_leaf x : plain_below x -> leaf x.
  Proof. intros H. exists x. split; [apply sees_self; exact (proj1 (plain_self x H))|exact H]. Qed.

  Lemma plain_lmap x : plain_below x -> n_kind x = KMapping -> lmap x.
  Proof.
    intros H K. split; [exact (plain_self x H)|]. split; [exact K|]. intros kk vv Hin.
    destruct (plain_pairs x kk vv H Hin) as [A B]. split; [exact A|exact (plain_leaf vv B)].
  Qed.

  Lemma tgt_plain t : tgt_ok t -> plain_node t.
  Proof. intros [H|[H _]]; [exact (plain_self t H)|exact H]. Qed.

  Lemma tgt_lmap t : tgt_ok t -> n_kind t = KMapping -> lmap t.
  Proof. intros [H|H] K; [exact (plain_lmap t H K)|exact H]. Qed.

  Lemma plain_rule_guard rn : plain_below rn -> rule_guard rn.
  Proof.
    intros H. split; [exact (plain_self rn H)|]. intros k x Hin. destruct (plain_pairs rn k x H Hin) as [A B].
    split; [exact A|]. exists x. split; [apply sees_self; exact (proj1 (plain_self x B))|left; exact B].
  Qed.

  (** what pint's node [x] (a raw value or the resolved copy of an alias) and Prometheus' [deref x] have in common *)
  Definition views (x t : node) : Prop :=
    deref x = t /\ n_alias t = None /\ n_tag x = n_tag t /\ n_content x = n_content t /\ node_value x = n_value t /\
    (n_alias x = None -> x = t) /\ (n_alias x <> None -> n_value x <> "").

  Lemma views_unp x t : sees x t -> views (unp x) t.
  Proof.
    intros Hs. destruct (unp_view x t Hs) as (A & B & C & D & E). destruct (sees_deref x t Hs) as [_ Ht].
    repeat split; auto.
    - intros Hn. rewrite E in Hn. unfold unp. rewrite Hn. destruct Hs as [[-> _]|(_ & X & _)]; [reflexivity|congruence].
    - intros Hn. rewrite E in Hn. destruct Hs as [[-> X]|(_ & X & _ & _ & _ & _ & V)]; [congruence|].
      unfold unp. rewrite X. exact V.
  Qed.

  Lemma leaf_scalar_of vv : leaf vv -> kind_mismatch vv KScalar = false -> leaf_scalar vv.
  Proof.
    intros (tv & Hs & Hp) Hk. exists tv. split; [exact Hs|]. pose proof (plain_self tv Hp) as Hn. split; [exact Hn|].
    rewrite <- (proj1 (sees_deref vv tv Hs)). exact (km_scalar vv Hk).
  Qed.

  (** Prometheus' view of a label/annotation map that pint validated *)
  Definition pairs_text (lps : list (node * node)) : list (string * string) :=
    map (fun kv => (key_text kv, str_val (snd kv))) lps.

  Lemma strmap_of_validated fld x off ln :
    tgt_ok x -> kind_mismatch x KMapping = false ->
    validate_string_map fld (mapping_nodes x) off ln = None ->
    (forall k v, In (k, v) (mapping_nodes x) -> n_value k <> "") ->
    (n_kind x = KScalar /\ dec_strmap str_ok null_ok x = DNull) \/
    (n_kind x = KMapping /\ dec_strmap str_ok null_ok x = DOk (pairs_text (mapping_nodes x))).
  Proof.
    intros Hp Hkm Hv Hne. pose proof (tgt_plain x Hp) as Hx.
    destruct (km_plain x KMapping (proj1 Hx) Hkm) as [K|[K T]].
    2:{ left. split; [exact K|]. apply dec_strmap_null; auto. }
    - right. split; [exact K|].
      destruct (tgt_lmap x Hp K) as (_ & _ & Hl).
      destruct (validate_string_map_none _ _ _ _ (fun k v Hin => proj1 (plain_self k (proj1 (Hl k v Hin)))) Hv) as [Hvals Hnd].
      apply dec_strmap_plain; auto.
      + split; [|exact Hnd]. intros k v Hin. destruct (Hl k v Hin) as [Hpk _].
        pose proof (plain_self k Hpk) as Hk. split; [exact Hk|]. split.
        * apply plain_nonempty_scalar; auto. exact (Hne k v Hin).
        * exact (plain_mapping_keys x k v Hx K Hin).
      + intros k v Hin. destruct (Hl k v Hin) as [_ Hlv].
        exact (leaf_scalar_of v Hlv (proj2 (Hvals k v Hin))).
  Qed.

  (** slots in terms of the pairs *)
  Lemma slot_scalar ps s f :
    match f with FLabels | FAnn | FUnknown => False | _ => True end ->
    slots_spec plines lines 0 f ps slots0 s ->
    get_sc f s = match find_field f ps with Some (k, x) => Some (x, nyn x 1) | None => None end.
  Proof.
    intros Hf H. unfold slots_spec in H. destruct (find_field f ps) as [[k x]|].
    - destruct H as (_ & H & _). destruct f; try contradiction; cbn [slot mk] in H;
        destruct (get_sc _ s) as [[x' y']|]; cbn in H; inversion H; subst; reflexivity.
    - destruct H as (H & _). destruct f; try contradiction; cbn [slot] in H;
        destruct (get_sc _ s) as [[x' y']|]; cbn in H; try discriminate; reflexivity.
  Qed.

  Lemma slot_labels ps s :
    slots_spec plines lines 0 FLabels ps slots0 s ->
    s_labels s = match find_field FLabels ps with Some (k, x) => Some (x, nym k x) | None => None end.
  Proof.
    intros H. unfold slots_spec in H. destruct (find_field FLabels ps) as [[k x]|].
    - destruct H as (_ & H & _). cbn [slot mk] in H. destruct (s_labels s) as [[x' m']|]; cbn in H; inversion H; subst; reflexivity.
    - destruct H as (H & _). cbn [slot] in H. destruct (s_labels s) as [[x' m']|]; cbn in H; try discriminate; reflexivity.
  Qed.

  Lemma slot_ann ps s :
    slots_spec plines lines 0 FAnn ps slots0 s ->
    s_ann s = match find_field FAnn ps with Some (k, x) => Some (x, nym k x) | None => None end.
  Proof.
    intros H. unfold slots_spec in H. destruct (find_field FAnn ps) as [[k x]|].
    - destruct H as (_ & H & _). cbn [slot mk] in H. destruct (s_ann s) as [[x' m']|]; cbn in H; inversion H; subst; reflexivity.
    - destruct H as (H & _). cbn [slot] in H. destruct (s_ann s) as [[x' m']|]; cbn in H; try discriminate; reflexivity.
  Qed.

  Lemma find_field_In f ps k x : find_field f ps = Some (k, x) -> In (k, x) ps /\ field_of (n_value k) = f.
  Proof.
    intros H. apply find_some in H. destruct H as [Hin Hf]. split; [exact Hin|].
    unfold has_field in Hf. now apply feqb_eq in Hf.
  Qed.

  (** Prometheus looks fields up by name; on pairs with known keys that is the same lookup *)
  Lemma look_find f ps :
    f <> FUnknown ->
    look (field_name f) (map (fun kv => (key_text kv, snd kv)) ps) = option_map snd (find_field f ps).
  Proof.
    intros Hf. unfold look. rewrite assoc_map_find. unfold find_field. f_equal.
    induction ps as [|kv r IH]; [reflexivity|]. cbn [find].
    assert (E : String.eqb (field_name f) (key_text kv) = has_field f kv).
    { unfold has_field. destruct (String.eqb (field_name f) (key_text kv)) eqn:E1.
      - apply String.eqb_eq in E1. rewrite <- E1, (field_of_field_name f Hf). symmetry. apply feqb_refl.
      - destruct (feqb (field_of (key_text kv)) f) eqn:E2; [|reflexivity].
        apply feqb_eq in E2. apply (field_of_name _ _ E2) in Hf. rewrite Hf in E1. rewrite String.eqb_refl in E1. discriminate. }
    rewrite E. destruct (has_field f kv); [reflexivity|exact IH].
  Qed.

  Lemma rule_loop_inl_err : forall parts key s0 r1,
    rule_loop plines lines 0 parts key s0 = inl r1 -> r_error r1 <> None.
  Proof.
    induction parts as [|part rest IH]; intros key s0 r1 H; cbn [rule_loop] in H; [discriminate|].
    destruct key as [k|]; [|eapply IH; exact H].
    destruct (field_of (node_value k)); try (destruct (get_sc _ _); [inversion H; discriminate|eapply IH; exact H]).
    - destruct (s_labels _); [inversion H; discriminate|eapply IH; exact H].
    - destruct (s_ann _); [inversion H; discriminate|eapply IH; exact H].
    - eapply IH; exact H.
  Qed.

  Lemma filter_unique {A} (P : A -> bool) l y z :
    List.length (filter P l) = 1 -> find P l = Some y -> In z l -> P z = true -> z = y.
  Proof.
    induction l as [|a r IH]; intros Hl Hf Hz Pz; [destruct Hz|].
    cbn [filter find] in *. destruct (P a) eqn:Pa.
    - inversion Hf; subst. cbn [List.length] in Hl.
      destruct Hz as [->|Hz]; [reflexivity|].
      assert (In z (filter P r)) by (apply filter_In; split; assumption).
      destruct (filter P r); [contradiction|cbn in Hl; lia].
    - destruct Hz as [->|Hz]; [congruence|]. exact (IH Hl Hf Hz Pz).
  Qed.

  (** the pair found for a field is the only pair with that key *)
  Lemma pair_is_found ps s f k x :
    f <> FUnknown ->
    slots_spec plines lines 0 f ps slots0 s ->
    In (k, x) ps -> field_of (n_value k) = f -> find_field f ps = Some (k, x).
  Proof.
    intros Hf H Hin Fk. unfold slots_spec in H.
    assert (Hh : has_field f (k, x) = true) by (unfold has_field; change (key_text (k, x)) with (n_value k); rewrite Fk; apply feqb_refl).
    destruct (find_field f ps) as [[k' x']|] eqn:E.
    - destruct H as (_ & _ & Hl). f_equal. symmetry. exact (filter_unique _ _ _ _ Hl E Hin Hh).
    - destruct H as (_ & Hfil). assert (X : In (k, x) (filter (has_field f) ps)) by (apply filter_In; split; assumption).
      rewrite Hfil in X. destruct X.
  Qed.

  Notation PRS := (parse_rule_strict plines metric_ok lname_ok lvalue_ok).
  Notation PR := (parse_rule plines metric_ok lname_ok lvalue_ok).

  (** the key/value pairs as parseRule sees them: unpackNodes replaces an alias value by its resolved copy *)
  Definition ups (rn : node) : list (node * node) := map (fun kv => (fst kv, unp (snd kv))) (mapping_nodes rn).

  Lemma flatten_ups (rps : list (node * node)) :
    flat_map (fun kv : node * node => [fst kv; unp (snd kv)]) rps = flatten (map (fun kv => (fst kv, unp (snd kv))) rps).
  Proof. induction rps as [|[k x] r IH]; [reflexivity|]. cbn [flat_map map fst snd app]. rewrite flatten_cons. now rewrite IH. Qed.

  Lemma ups_keys rn : map key_text (ups rn) = map key_text (mapping_nodes rn).
  Proof. unfold ups. rewrite map_map. reflexivity. Qed.

  Lemma tgt_not_merge t : tgt_ok t -> n_alias t = None /\ n_tag t <> mergeTag.
  Proof. intros H. exact (plain_not_merge t (tgt_plain t H)). Qed.

  Lemma unpack_guard rn : rule_guard rn -> n_kind rn <> KSequence -> unpack_nodes rn = flatten (ups rn).
  Proof.
    intros [Hrn Hg] Ks. unfold unpack_nodes, ups.
    destruct (n_kind rn) eqn:K; try (destruct Hrn as (_ & _ & X); rewrite K in X; contradiction).
    - rewrite (plain_mapping_content rn Hrn K). unfold flatten at 1. rewrite unpack_loop_values; [apply flatten_ups|].
      intros k x Hin. destruct (Hg k x Hin) as [Hk (t & Hs & Ht)]. split; [exact (plain_not_merge k (plain_self k Hk))|].
      destruct Hs as [[-> _]|Hal]; [left; exact (tgt_not_merge t Ht)|right; exists t; exact Hal].
    - destruct Hrn as (_ & _ & X). rewrite K in X. unfold mapping_nodes. rewrite X. reflexivity.
  Qed.

  (** Step 1: what acceptance by parseRuleStrict means, in terms of the pairs [ps] unpackNodes hands to parseRule. *)
  Lemma rule_accept_core rn ps :
    unpack_nodes rn = flatten ps ->
    (forall kv, In kv ps -> n_alias (fst kv) = None) ->
    r_error (PRS lines rn) = None ->
    exists s,
      ps <> [] /\
      (forall kv, In kv ps -> field_of (key_text kv) <> FUnknown) /\
      NoDup (map key_text ps) /\
      (forall f, f <> FUnknown -> slots_spec plines lines 0 f ps slots0 s) /\
      (forall c, In c (rule_checks metric_ok lname_ok lvalue_ok 0 rn s) -> c = None) /\
      rule_final s = (PRS lines rn, false).
  Proof.
    intros Hu Hna Herr.
    unfold parse_rule_strict in *.
    destruct (negb (is_tag (n_tag rn) mapTag) || kind_mismatch rn KMapping)%bool eqn:Et; [discriminate|].
    rewrite Hu in *.
    destruct (bad_rule_key (flatten ps)) eqn:Bk; [discriminate|].
    destruct (PR lines 0 rn) as [r e] eqn:PRE. destruct e; [discriminate|].
    unfold parse_rule in PRE. rewrite Hu in PRE.
    destruct (rule_loop plines lines 0 (flatten ps) None slots0) as [r0|s] eqn:RL.
    { inversion PRE; subst. exfalso. exact (rule_loop_inl_err _ _ _ _ RL Herr). }
    destruct (first_some (rule_checks metric_ok lname_ok lvalue_ok 0 rn s)) as [[pe [f l]]|] eqn:FS.
    { inversion PRE; subst. discriminate Herr. }
    pose proof (rule_loop_slots plines lines 0 ps slots0 s Hna RL) as Hsl.
    pose proof (bad_rule_key_flatten ps Hna Bk) as Hknown.
    exists s. repeat split.
    - intros E. rewrite E in RL. cbn in RL. inversion RL; subst s. cbn in PRE. discriminate PRE.
    - exact Hknown.
    - apply keys_nodup; [exact Hknown|]. intros f0 Hf0. specialize (Hsl f0 Hf0). unfold slots_spec in Hsl.
      destruct (find_field f0 ps) as [[k x]|]; [destruct Hsl as (_ & _ & ->); lia|destruct Hsl as (_ & ->); cbn; lia].
    - exact Hsl.
    - exact (first_some_none _ FS).
    - exact PRE.
  Qed.

  Lemma accepted_is_map rn : r_error (PRS lines rn) = None -> kind_mismatch rn KMapping = false.
  Proof.
    unfold parse_rule_strict. destruct (negb (is_tag (n_tag rn) mapTag) || kind_mismatch rn KMapping)%bool eqn:Et; [discriminate|].
    intros _. apply orb_false_iff in Et. exact (proj2 Et).
  Qed.

  Lemma guard_not_seq rn : rule_guard rn -> kind_mismatch rn KMapping = false -> n_kind rn <> KSequence.
  Proof. intros [(Ha & _) _] Hk K. destruct (km_plain rn KMapping Ha Hk) as [X|[X _]]; congruence. Qed.

  Lemma ups_noalias_keys rn : rule_guard rn -> forall kv, In kv (ups rn) -> n_alias (fst kv) = None.
  Proof.
    intros Hp kv Hin. unfold ups in Hin. apply in_map_iff in Hin. destruct Hin as ([k x] & <- & Hin). cbn [fst].
    destruct (proj2 Hp k x Hin) as [Hpk _]. exact (proj1 (plain_self k Hpk)).
  Qed.

  Lemma rule_accept_facts rn :
    rule_guard rn -> r_error (PRS lines rn) = None ->
    let ps := ups rn in
    exists s,
      n_kind rn = KMapping /\ n_content rn = flatten (mapping_nodes rn) /\
      (forall kv, In kv ps -> field_of (key_text kv) <> FUnknown) /\
      NoDup (map key_text ps) /\
      (forall f, f <> FUnknown -> slots_spec plines lines 0 f ps slots0 s) /\
      (forall c, In c (rule_checks metric_ok lname_ok lvalue_ok 0 rn s) -> c = None) /\
      rule_final s = (PRS lines rn, false).
  Proof.
    intros Hp Herr ps. pose proof (proj1 Hp) as Hrn.
    pose proof (guard_not_seq rn Hp (accepted_is_map rn Herr)) as Ks.
    destruct (rule_accept_core rn ps (unpack_guard rn Hp Ks) (ups_noalias_keys rn Hp) Herr) as (s & Hne & A & B & C & D & E).
    assert (K : n_kind rn = KMapping).
    { pose proof Hrn as (_ & _ & H). destruct (n_kind rn) eqn:K; try contradiction; try reflexivity.
      exfalso. apply Hne. unfold ps, ups, mapping_nodes. rewrite H. reflexivity. }
    exists s. split; [exact K|]. split; [exact (plain_mapping_content rn Hrn K)|]. auto.
  Qed.

  Lemma field_name_in f : f <> FUnknown -> In (field_name f) rule_fields.
  Proof. destruct f; cbn; intros H; try tauto. Qed.

  Lemma views_scalar x t :
    views x t -> tgt_ok t -> kind_mismatch x KScalar = false -> plain_node t /\ n_kind t = KScalar.
  Proof.
    intros (D & _) Hp Hk. pose proof (tgt_plain t Hp) as Hx. split; [exact Hx|].
    rewrite <- D. exact (km_scalar x Hk).
  Qed.

  Lemma dec_str_value x t :
    views x t -> tgt_ok t -> kind_mismatch x KScalar = false -> n_tag x <> nullTag ->
    dec_string str_ok null_ok x = DOk (node_value x).
  Proof.
    intros Hv Hp Ht Hn. destruct (views_scalar x t Hv Hp Ht) as [Hx K]. destruct Hv as (D & A & T & _ & V & _).
    rewrite (dec_string_deref str_ok null_ok x) by (now rewrite D). rewrite D.
    rewrite (dec_string_scalar str_ok null_ok H_str H_null t Hx K), <- T. apply String.eqb_neq in Hn. now rewrite Hn, V.
  Qed.

  Lemma dec_dur_value x t :
    views x t -> tgt_ok t -> kind_mismatch x KScalar = false ->
    dec_duration str_ok null_ok dur_ok x =
    if String.eqb (n_tag x) nullTag then DNull else if dur_ok (node_value x) then DOk (node_value x) else DErr.
  Proof.
    intros Hv Hp Ht. destruct (views_scalar x t Hv Hp Ht) as [Hx K]. destruct Hv as (D & A & T & _ & V & _).
    rewrite (dec_duration_deref str_ok null_ok dur_ok x) by (now rewrite D). rewrite D.
    rewrite (dec_duration_scalar str_ok null_ok H_str H_null dur_ok t Hx K), <- T, V. reflexivity.
  Qed.

  Lemma nth_checks_none (l : list (option (perror * (nat * nat)))) :
    (forall c, In c l -> c = None) -> forall i c, nth_error l i = Some c -> c = None.
  Proof. intros H i c E. apply H. eapply nth_error_In. exact E. Qed.

  (** values of the label pairs as pint's YamlMap items see them *)
  Lemma ymap_items_texts k x :
    lmap x ->
    map (fun ab : ynode * ynode => (y_value (fst ab), y_value (snd ab))) (ym_items (nym k x)) =
    map (fun kv : node * node => (n_value (fst kv), node_value (snd kv))) (mapping_nodes x).
  Proof.
    intros (Hx & K & Hl). unfold new_yaml_map. cbn [ym_items].
    rewrite (plain_mapping_content x Hx K). apply yaml_map_items_plain.
    intros a b Hin. destruct (Hl a b Hin) as [Ha _]. exact (proj1 (plain_self a Ha)).
  Qed.

  Lemma in_items_texts (items : list (ynode * ynode)) (lps : list (node * node)) :
    map (fun ab : ynode * ynode => (y_value (fst ab), y_value (snd ab))) items =
    map (fun kv : node * node => (n_value (fst kv), node_value (snd kv))) lps ->
    forall kv, In kv lps -> exists ab, In ab items /\ y_value (fst ab) = n_value (fst kv) /\ y_value (snd ab) = node_value (snd kv).
  Proof.
    revert lps. induction items as [|ab r IH]; intros [|kv0 lr] H kv Hin; cbn [map] in H; try discriminate; [destruct Hin|].
    inversion H as [[E1 E2 E3]]. destruct Hin as [<-|Hin].
    - exists ab. split; [left; reflexivity|]. split; assumption.
    - destruct (IH lr E3 kv Hin) as (ab' & A & B). exists ab'. split; [right; exact A|exact B].
  Qed.

  (** label pairs validated by pint: Prometheus' label checks pass on the decoded map *)
  Lemma labels_valid k x :
    lmap x ->
    bad_label lname_ok lvalue_ok (ym_items (nym k x)) = None ->
    forallb (label_ok lname_ok lvalue_ok) (pairs_text (mapping_nodes x)) = true.
  Proof.
    intros Hp Hb. apply forallb_forall. intros [a b] Hin. unfold pairs_text in Hin.
    apply in_map_iff in Hin. destruct Hin as ([kk vv] & E & Hin). inversion E; subst a b. clear E.
    destruct (in_items_texts _ _ (ymap_items_texts k x Hp) (kk, vv) Hin) as ([ya yb] & Hab & E1 & E2).
    cbn [fst snd] in *. destruct (bad_label_none _ Hb ya yb Hab) as (L1 & L2 & L3).
    unfold label_ok. cbn [fst snd]. change (key_text (kk, vv)) with (n_value kk).
    rewrite <- E1, L1. apply String.eqb_neq in L2. rewrite L2. cbn [negb andb].
    unfold str_val. destruct (String.eqb (n_tag (deref vv)) nullTag); [exact H_lvalue_empty|].
    now rewrite <- node_value_deref, <- E2.
  Qed.

  Lemma label_keys_nonempty k x :
    lmap x ->
    (forall ya yb, In (ya, yb) (ym_items (nym k x)) -> lname_ok (y_value ya) = true) ->
    forall kk vv, In (kk, vv) (mapping_nodes x) -> n_value kk <> "".
  Proof.
    intros Hp H kk vv Hin E.
    destruct (in_items_texts _ _ (ymap_items_texts k x Hp) (kk, vv) Hin) as ([ya yb] & Hab & E1 & _).
    cbn [fst] in E1. specialize (H ya yb Hab). rewrite E1, E in H. congruence.
  Qed.

  (** template check: every decoded label/annotation value passes Prometheus' ParseTest *)
  Lemma templates_valid k x (checked : list (ynode * ynode)) :
    lmap x ->
    (forall ab, In ab (ym_items (nym k x)) -> exists k', In (k', snd ab) checked) ->
    existsb (fun kv : ynode * ynode => negb (tmpl_pint (y_value (snd kv)))) checked = false ->
    forallb (fun kv : string * string => tmpl_prom (snd kv)) (pairs_text (mapping_nodes x)) = true.
  Proof.
    intros Hp Hsub Hex. apply forallb_forall. intros [a b] Hin. unfold pairs_text in Hin.
    apply in_map_iff in Hin. destruct Hin as ([kk vv] & E & Hin). inversion E; subst a b. clear E.
    cbn [snd]. unfold str_val. destruct (String.eqb (n_tag (deref vv)) nullTag); [exact H_tmpl_empty|].
    destruct (in_items_texts _ _ (ymap_items_texts k x Hp) (kk, vv) Hin) as ([ya yb] & Hab & _ & E2).
    cbn [snd] in E2. destruct (Hsub (ya, yb) Hab) as (k' & Hk'). cbn [snd] in Hk'.
    apply H_tmpl. rewrite <- node_value_deref, <- E2.
    destruct (tmpl_pint (y_value yb)) eqn:T; [reflexivity|].
    assert (X : existsb (fun kv : ynode * ynode => negb (tmpl_pint (y_value (snd kv)))) checked = true).
    { apply existsb_exists. exists (k', yb). split; [exact Hk'|]. cbn [snd]. now rewrite T. }
    congruence.
  Qed.

  Lemma field_of_empty : field_of "" = FUnknown.
  Proof. reflexivity. Qed.

  (** Step 2: the Prometheus loader decodes the accepted rule mapping; field by field. *)
  Lemma in_ups rn k x : In (k, x) (mapping_nodes rn) -> In (k, unp x) (ups rn).
  Proof. intros H. unfold ups. apply in_map_iff. exists (k, x). split; [reflexivity|exact H]. Qed.

  Lemma rule_decodes rn :
    rule_guard rn -> r_error (PRS lines rn) = None ->
    dec_fields str_ok null_ok (Some rule_fields) rn = DOk (map (fun kv => (key_text kv, snd kv)) (mapping_nodes rn)).
  Proof.
    intros Hp Herr. destruct (rule_accept_facts rn Hp Herr) as (s & K & Hc & Hknown & Hnd & _).
    rewrite ups_keys in Hnd.
    assert (Hknown' : forall k x, In (k, x) (mapping_nodes rn) -> field_of (n_value k) <> FUnknown).
    { intros k x Hin. exact (Hknown (k, unp x) (in_ups rn k x Hin)). }
    apply dec_fields_plain; auto.
    - exact (proj1 Hp).
    - split; [|exact Hnd]. intros k x Hin. destruct (proj2 Hp k x Hin) as [Hk _].
      pose proof (plain_self k Hk) as Hkn. split; [exact Hkn|]. split.
      + apply plain_nonempty_scalar; auto. intro E. apply (Hknown' k x Hin). now rewrite E.
      + exact (plain_mapping_keys rn k x (proj1 Hp) K Hin).
    - intros fields E s0 Hs. inversion E; subst fields. apply in_map_iff in Hs. destruct Hs as ([k x] & <- & Hin).
      change (key_text (k, x)) with (n_value k).
      rewrite (field_of_name (n_value k) _ eq_refl (Hknown' k x Hin)). apply field_name_in. exact (Hknown' k x Hin).
  Qed.

  (** what dec_rule does with the assignment list; it looks at every value through [deref], so it cannot tell a raw
      alias node from the resolved copy pint works with *)
  Definition rule_tail (a : list (string * node)) : dres prule :=
    if existsb (rule_field_err str_ok null_ok dur_ok) a then DErr
    else DOk {| pr_record := str_field str_ok null_ok "record" a; pr_alert := str_field str_ok null_ok "alert" a;
                pr_expr := str_field str_ok null_ok "expr" a;
                pr_for := dur_field str_ok null_ok dur_ok "for" a; pr_keep := dur_field str_ok null_ok dur_ok "keep_firing_for" a;
                pr_labels := map_field str_ok null_ok "labels" a; pr_annotations := map_field str_ok null_ok "annotations" a |}.

  Lemma dec_rule_tail n :
    dec_rule str_ok null_ok dur_ok n =
    match dec_fields str_ok null_ok (Some rule_fields) n with DErr => DErr | DNull => DNull | DOk a => rule_tail a end.
  Proof. reflexivity. Qed.

  Lemma dec_string_unp x : dec_string str_ok null_ok (unp x) = dec_string str_ok null_ok x.
  Proof. unfold dec_string. now rewrite deref_unp. Qed.
  Lemma dec_duration_unp x : dec_duration str_ok null_ok dur_ok (unp x) = dec_duration str_ok null_ok dur_ok x.
  Proof. unfold dec_duration. now rewrite deref_unp, dec_string_unp. Qed.
  Lemma dec_strmap_unp x : dec_strmap str_ok null_ok (unp x) = dec_strmap str_ok null_ok x.
  Proof. unfold dec_strmap, dec_fields. now rewrite deref_unp. Qed.

  Definition unp_assign (a : list (string * node)) : list (string * node) := map (fun kv => (fst kv, unp (snd kv))) a.

  Lemma look_unp name a : look name (unp_assign a) = option_map unp (look name a).
  Proof.
    unfold look, unp_assign. induction a as [|[k v] r IH]; [reflexivity|]. cbn [map assoc fst snd].
    destruct (String.eqb name k); [reflexivity|exact IH].
  Qed.

  Lemma rule_tail_unp a : rule_tail (unp_assign a) = rule_tail a.
  Proof.
    unfold rule_tail.
    assert (E : existsb (rule_field_err str_ok null_ok dur_ok) (unp_assign a) = existsb (rule_field_err str_ok null_ok dur_ok) a).
    { unfold unp_assign. induction a as [|[k v] r IH]; [reflexivity|]. cbn [map existsb fst snd]. rewrite IH. f_equal.
      unfold rule_field_err. now rewrite dec_string_unp, dec_duration_unp, dec_strmap_unp. }
    rewrite E. destruct (existsb _ a); [reflexivity|]. f_equal.
    unfold str_field, dur_field, map_field. rewrite !look_unp.
    destruct (look "record" a), (look "alert" a), (look "expr" a), (look "for" a), (look "keep_firing_for" a),
             (look "labels" a), (look "annotations" a); cbn [option_map];
      rewrite ?dec_string_unp, ?dec_duration_unp, ?dec_strmap_unp; reflexivity.
  Qed.

  Lemma ups_assign rn :
    map (fun kv => (key_text kv, snd kv)) (ups rn) = unp_assign (map (fun kv => (key_text kv, snd kv)) (mapping_nodes rn)).
  Proof. unfold ups, unp_assign. rewrite !map_map. reflexivity. Qed.

  Lemma nyn_value x c : y_value (nyn x c) = node_value x.
  Proof. unfold new_yaml_node. destruct (plines lines x c). reflexivity. Qed.

  Definition field_value_ok (f : field) (x : node) : Prop :=
    match f with
    | FRecord | FAlert | FExpr => derr (dec_string str_ok null_ok x) = false
    | FFor | FKeep => derr (dec_duration str_ok null_ok dur_ok x) = false
    | FLabels | FAnn => derr (dec_strmap str_ok null_ok x) = false
    | FUnknown => True
    end.

  Lemma no_field_err ps :
    (forall kv, In kv ps -> field_of (key_text kv) <> FUnknown) ->
    (forall k x, In (k, x) ps -> field_value_ok (field_of (n_value k)) x) ->
    existsb (rule_field_err str_ok null_ok dur_ok) (map (fun kv => (key_text kv, snd kv)) ps) = false.
  Proof.
    intros Hknown Hok. apply not_true_is_false. intro X. apply existsb_exists in X.
    destruct X as ([name x] & Hin & Herr). apply in_map_iff in Hin. destruct Hin as ([k x'] & E & Hin).
    inversion E; subst name x'. clear E. change (key_text (k, x)) with (n_value k) in Herr.
    pose proof (Hknown (k, x) Hin) as Hf. change (key_text (k, x)) with (n_value k) in Hf.
    pose proof (Hok k x Hin) as Hv.
    rewrite (field_of_name (n_value k) _ eq_refl Hf) in Herr.
    destruct (field_of (n_value k)); cbn in Herr, Hv; try congruence.
  Qed.

  Lemma strmap_noerr fld x off ln :
    tgt_ok x -> kind_mismatch x KMapping = false ->
    validate_string_map fld (mapping_nodes x) off ln = None ->
    (forall k v, In (k, v) (mapping_nodes x) -> n_value k <> "") ->
    derr (dec_strmap str_ok null_ok x) = false.
  Proof.
    intros A B C D. destruct (strmap_of_validated fld x off ln A B C D) as [[_ E]|[_ E]]; rewrite E; reflexivity.
  Qed.

  Lemma items_keys k x :
    lmap x ->
    map (fun ab : ynode * ynode => y_value (fst ab)) (ym_items (nym k x)) = map key_text (mapping_nodes x).
  Proof.
    intros Hp. pose proof (ymap_items_texts k x Hp) as H.
    apply (f_equal (map fst)) in H. rewrite !map_map in H. exact H.
  Qed.

  Lemma ensure_none key kv ex (f l : nat) :
    option_map (fun pe : perror => (pe, (f, l))) (ensure_required_keys key kv ex) = None ->
    ensure_required_keys key kv ex = None.
  Proof. destruct (ensure_required_keys key kv ex); [discriminate|reflexivity]. Qed.


  (** a validated `labels:` value: decodes, passes the label checks and the template check *)
  Lemma labels_facts_t kl xl ln (checked : list (ynode * ynode)) :
    tgt_ok xl -> kind_mismatch xl KMapping = false ->
    validate_string_map "labels" (mapping_nodes xl) 0 ln = None ->
    bad_label lname_ok lvalue_ok (ym_items (nym kl xl)) = None ->
    derr (dec_strmap str_ok null_ok xl) = false /\
    forallb (label_ok lname_ok lvalue_ok) (dval (dec_strmap str_ok null_ok xl) []) = true /\
    ((forall ab, In ab (ym_items (nym kl xl)) -> exists k', In (k', snd ab) checked) ->
     existsb (fun kv : ynode * ynode => negb (tmpl_pint (y_value (snd kv)))) checked = false ->
     forallb (fun kv : string * string => tmpl_prom (snd kv)) (dval (dec_strmap str_ok null_ok xl) []) = true) /\
    NoDup (map (fun ab : ynode * ynode => y_value (fst ab)) (ym_items (nym kl xl))).
  Proof.
    intros Hp Ht Hv Hb. pose proof (tgt_plain xl Hp) as Hx.
    destruct (km_plain xl KMapping (proj1 Hx) Ht) as [K|[K T]].
    2:{ (* null *)
      rewrite (dec_strmap_null str_ok null_ok H_null xl Hx K T). cbn [derr dval forallb].
      assert (C : n_content xl = []).
      { destruct Hx as (_ & _ & H). rewrite K in H. exact H. }
      repeat split; auto. unfold new_yaml_map. cbn [ym_items]. rewrite C. constructor. }
    - pose proof (tgt_lmap xl Hp K) as Hl.
      assert (Hne : forall k v, In (k, v) (mapping_nodes xl) -> n_value k <> "").
      { apply (label_keys_nonempty kl xl Hl). intros ya yb Hab. exact (proj1 (bad_label_none _ Hb ya yb Hab)). }
      destruct (strmap_of_validated "labels" xl 0 ln Hp Ht Hv Hne) as [[K' _]|[_ E]].
      { rewrite K in K'. discriminate. }
      rewrite E. cbn [derr dval]. split; [reflexivity|]. split; [exact (labels_valid kl xl Hl Hb)|]. split.
      + intros Hsub Hex. exact (templates_valid kl xl checked Hl Hsub Hex).
      + rewrite (items_keys kl xl Hl).
        exact (proj2 (validate_string_map_none _ _ _ _ (fun k v Hin => proj1 (plain_self k (proj1 (proj2 (proj2 Hl) k v Hin)))) Hv)).
  Qed.

  Lemma annotations_facts_t kn xn ln :
    tgt_ok xn -> kind_mismatch xn KMapping = false ->
    validate_string_map "annotations" (mapping_nodes xn) 0 ln = None ->
    bad_annotation lname_ok (ym_items (nym kn xn)) = None ->
    derr (dec_strmap str_ok null_ok xn) = false /\
    forallb (fun kv : string * string => lname_ok (fst kv)) (dval (dec_strmap str_ok null_ok xn) []) = true /\
    (existsb (fun kv : ynode * ynode => negb (tmpl_pint (y_value (snd kv)))) (ym_items (nym kn xn)) = false ->
     forallb (fun kv : string * string => tmpl_prom (snd kv)) (dval (dec_strmap str_ok null_ok xn) []) = true).
  Proof.
    intros Hp Ht Hv Hb. pose proof (tgt_plain xn Hp) as Hx.
    destruct (km_plain xn KMapping (proj1 Hx) Ht) as [K|[K T]].
    2:{ rewrite (dec_strmap_null str_ok null_ok H_null xn Hx K T). cbn [derr dval forallb]. auto. }
    - pose proof (tgt_lmap xn Hp K) as Hl.
      assert (Hne : forall k v, In (k, v) (mapping_nodes xn) -> n_value k <> "").
      { apply (label_keys_nonempty kn xn Hl). intros ya yb Hab. exact (bad_annotation_none _ Hb ya yb Hab). }
      destruct (strmap_of_validated "annotations" xn 0 ln Hp Ht Hv Hne) as [[K' _]|[_ E]].
      { rewrite K in K'. discriminate. }
      rewrite E. cbn [derr dval]. split; [reflexivity|]. split.
      + apply forallb_forall. intros [a0 b0] Hin. unfold pairs_text in Hin. apply in_map_iff in Hin.
        destruct Hin as ([kk vv] & E0 & Hin). inversion E0; subst a0 b0. cbn [fst].
        destruct (in_items_texts _ _ (ymap_items_texts kn xn Hl) (kk, vv) Hin) as ([ya yb] & Hab & E1 & _).
        cbn [fst] in E1. change (key_text (kk, vv)) with (n_value kk). rewrite <- E1. exact (bad_annotation_none _ Hb ya yb Hab).
      + intros Hex. apply (templates_valid kn xn (ym_items (nym kn xn)) Hl); [|exact Hex].
        intros ab Hab. exists (fst ab). destruct ab. exact Hab.
  Qed.

  (** the same for pint's node [x] that stands for [t] (an alias resolved by unpackNodes carries the content of its target) *)
  Lemma views_map_eqs k x t :
    views x t ->
    mapping_nodes x = mapping_nodes t /\ ym_items (nym k x) = ym_items (nym k t) /\
    dec_strmap str_ok null_ok x = dec_strmap str_ok null_ok t.
  Proof.
    intros (D & A & T & C & _). split; [unfold mapping_nodes; now rewrite C|]. split.
    - unfold new_yaml_map. cbn [ym_items]. now rewrite C.
    - rewrite (dec_strmap_deref str_ok null_ok x) by (now rewrite D). now rewrite D.
  Qed.

  Lemma km_views x t k : views x t -> kind_mismatch x k = kind_mismatch t k.
  Proof.
    intros (D & A & _). unfold kind_mismatch. rewrite A. fold (deref x). now rewrite D.
  Qed.

  Lemma labels_facts kl xl t ln (checked : list (ynode * ynode)) :
    views xl t -> tgt_ok t -> kind_mismatch xl KMapping = false ->
    validate_string_map "labels" (mapping_nodes xl) 0 ln = None ->
    bad_label lname_ok lvalue_ok (ym_items (nym kl xl)) = None ->
    derr (dec_strmap str_ok null_ok xl) = false /\
    forallb (label_ok lname_ok lvalue_ok) (dval (dec_strmap str_ok null_ok xl) []) = true /\
    ((forall ab, In ab (ym_items (nym kl xl)) -> exists k', In (k', snd ab) checked) ->
     existsb (fun kv : ynode * ynode => negb (tmpl_pint (y_value (snd kv)))) checked = false ->
     forallb (fun kv : string * string => tmpl_prom (snd kv)) (dval (dec_strmap str_ok null_ok xl) []) = true) /\
    NoDup (map (fun ab : ynode * ynode => y_value (fst ab)) (ym_items (nym kl xl))).
  Proof.
    intros Hv Hp. destruct (views_map_eqs kl xl t Hv) as (E1 & E2 & E3).
    rewrite E1, E2, E3, (km_views xl t KMapping Hv). apply labels_facts_t. exact Hp.
  Qed.

  Lemma annotations_facts kn xn t ln :
    views xn t -> tgt_ok t -> kind_mismatch xn KMapping = false ->
    validate_string_map "annotations" (mapping_nodes xn) 0 ln = None ->
    bad_annotation lname_ok (ym_items (nym kn xn)) = None ->
    derr (dec_strmap str_ok null_ok xn) = false /\
    forallb (fun kv : string * string => lname_ok (fst kv)) (dval (dec_strmap str_ok null_ok xn) []) = true /\
    (existsb (fun kv : ynode * ynode => negb (tmpl_pint (y_value (snd kv)))) (ym_items (nym kn xn)) = false ->
     forallb (fun kv : string * string => tmpl_prom (snd kv)) (dval (dec_strmap str_ok null_ok xn) []) = true).
  Proof.
    intros Hv Hp. destruct (views_map_eqs kn xn t Hv) as (E1 & E2 & E3).
    rewrite E1, E2, E3, (km_views xn t KMapping Hv). apply annotations_facts_t. exact Hp.
  Qed.

  (** The core, for any description [ps] of what unpackNodes hands to parseRule and any assignment list [a_prom] the
      Prometheus decoder builds, as long as dec_rule cannot tell the two apart. *)
  Theorem rule_sound_core rn glabels ps a_prom :
    unpack_nodes rn = flatten ps ->
    (forall k x, In (k, x) ps -> n_alias k = None /\ exists t, views x t /\ tgt_ok t) ->
    dec_fields str_ok null_ok (Some rule_fields) rn = DOk a_prom ->
    rule_tail a_prom = rule_tail (map (fun kv => (key_text kv, snd kv)) ps) ->
    r_error (PRS lines rn) = None ->
    rule_blocks expr_ok dur_ok tmpl_pint glabels (PRS lines rn) = false ->
    exists pr, dec_rule str_ok null_ok dur_ok rn = DOk pr /\
               rule_valid expr_ok dur_zero metric_ok lname_ok lvalue_ok tmpl_prom pr = true.
  Proof.
    intros Hu Hps Hdec Htail Herr Hblk.
    destruct (rule_accept_core rn ps Hu (fun kv Hin => proj1 (Hps (fst kv) (snd kv) ltac:(destruct kv; exact Hin))) Herr)
      as (s & Hne & Hknown & Hnd & Hsl & Hall & Hfin).
    set (a := map (fun kv => (key_text kv, snd kv)) ps) in *.
    (* slots as lookups *)
    pose proof (slot_scalar ps s FRecord I (Hsl FRecord ltac:(discriminate))) as Sr. cbn [get_sc] in Sr.
    pose proof (slot_scalar ps s FAlert I (Hsl FAlert ltac:(discriminate))) as Sa. cbn [get_sc] in Sa.
    pose proof (slot_scalar ps s FExpr I (Hsl FExpr ltac:(discriminate))) as Se. cbn [get_sc] in Se.
    pose proof (slot_scalar ps s FFor I (Hsl FFor ltac:(discriminate))) as Sf. cbn [get_sc] in Sf.
    pose proof (slot_scalar ps s FKeep I (Hsl FKeep ltac:(discriminate))) as Sk. cbn [get_sc] in Sk.
    pose proof (slot_labels ps s (Hsl FLabels ltac:(discriminate))) as Sl.
    pose proof (slot_ann ps s (Hsl FAnn ltac:(discriminate))) as Sn.
    pose proof (nth_checks_none _ Hall) as Hnth.
    (* positions in [rule_checks]: 5 scalar tags, 6 null spelled with text (fix d65cbbf), 7 map tags, 8/9 string maps,
       10/11 required keys, 13 metric name, 14 braces, 15 labels, 16 annotations *)
    pose proof (Hnth 0 _ eq_refl) as C0. pose proof (Hnth 2 _ eq_refl) as C2. pose proof (Hnth 3 _ eq_refl) as C3.
    pose proof (Hnth 4 _ eq_refl) as C4. pose proof (Hnth 5 _ eq_refl) as C5. pose proof (Hnth 6 _ eq_refl) as CN.
    pose proof (Hnth 7 _ eq_refl) as C6.
    pose proof (Hnth 8 _ eq_refl) as C7. pose proof (Hnth 9 _ eq_refl) as C8. pose proof (Hnth 10 _ eq_refl) as C9.
    pose proof (Hnth 11 _ eq_refl) as C10. pose proof (Hnth 13 _ eq_refl) as C12. pose proof (Hnth 14 _ eq_refl) as C13.
    pose proof (Hnth 15 _ eq_refl) as C14. pose proof (Hnth 16 _ eq_refl) as C15.
    clear Hnth Hall.
    (* Prometheus lookups *)
    assert (Lk : forall f, f <> FUnknown -> look (field_name f) a = option_map snd (find_field f ps)).
    { intros f Hf. apply look_find. exact Hf. }
    pose proof (Lk FRecord ltac:(discriminate)) as Lr. pose proof (Lk FAlert ltac:(discriminate)) as La.
    pose proof (Lk FExpr ltac:(discriminate)) as Le. pose proof (Lk FFor ltac:(discriminate)) as Lf.
    pose proof (Lk FKeep ltac:(discriminate)) as Lkp. pose proof (Lk FLabels ltac:(discriminate)) as Ll.
    pose proof (Lk FAnn ltac:(discriminate)) as Ln. cbn [field_name] in Lr, La, Le, Lf, Lkp, Ll, Ln. clear Lk.
    rewrite dec_rule_tail, Hdec, Htail. unfold rule_tail.
    (* tag facts *)
    assert (T5 : forall k n, In (k, Some n) [("record", onode (s_record s)); ("alert", onode (s_alert s)); ("expr", onode (s_expr s));
                                             ("for", onode (s_for s)); ("keep_firing_for", onode (s_keep s))] ->
                             kind_mismatch n KScalar = false).
    { intros k n Hin. refine (proj2 (first_bad_tag_none strTag KScalar _ _ k n Hin)). destruct (first_bad_tag strTag _ _) as [[k0 p0]|]; [discriminate C5|reflexivity]. }
    assert (T6 : forall k n, In (k, Some n) [("labels", onode (s_labels s)); ("annotations", onode (s_ann s))] ->
                             kind_mismatch n KMapping = false).
    { intros k n Hin. refine (proj2 (first_bad_tag_none mapTag KMapping _ _ k n Hin)). destruct (first_bad_tag mapTag _ _) as [[k0 p0]|]; [discriminate C6|reflexivity]. }
    assert (TN : forall k n, In (k, Some n) [("record", onode (s_record s)); ("alert", onode (s_alert s)); ("expr", onode (s_expr s))] ->
                             n_tag n = nullTag -> n_value n = "").
    { apply first_null_text_none. destruct (first_null_text _) as [[k0 p0]|]; [discriminate CN|reflexivity]. }
    clear C5 C6 CN.
    rewrite Sr, Sa, Se, Sf, Sk, Sl, Sn in *.
    unfold rule_final in Hfin. rewrite Sr, Sa, Se, Sf, Sk, Sl, Sn in Hfin.
    (* each pair is the one found for its field *)
    assert (Hfound : forall k x, In (k, x) ps -> find_field (field_of (n_value k)) ps = Some (k, x)).
    { intros k x Hin. apply (pair_is_found ps s); auto.
      - exact (Hknown (k, x) Hin).
      - apply Hsl. exact (Hknown (k, x) Hin). }
    assert (Hpl : forall f k x, find_field f ps = Some (k, x) -> (exists t, views x t /\ tgt_ok t) /\ In (k, x) ps).
    { intros f k x E. destruct (find_field_In f ps k x E) as [Hin _]. split; [|exact Hin]. exact (proj2 (Hps k x Hin)). }
    assert (Hnn : forall x t, views x t -> (n_tag x = nullTag -> n_value x = "") -> node_value x <> "" -> n_tag x <> nullTag).
    { intros x t (_ & _ & _ & _ & _ & V1 & V2) Hn Hv T. specialize (Hn T).
      destruct (n_alias x) as [tt|] eqn:Ax.
      - apply V2; [discriminate|exact Hn].
      - apply Hv. unfold node_value. now rewrite Ax. }
    destruct (find_field FRecord ps) as [[kr xr]|] eqn:Fr.
    - (* ---- recording rule ---- *)
      destruct (find_field FAlert ps) as [[ka xa]|] eqn:Fa; [discriminate C0|].
      destruct (find_field FFor ps) as [[kf xf]|] eqn:Ff; [discriminate C2|].
      destruct (find_field FKeep ps) as [[kk xk]|] eqn:Fkp; [discriminate C3|].
      destruct (find_field FAnn ps) as [[kn xn]|] eqn:Fn; [discriminate C4|].
      destruct (find_field FExpr ps) as [[ke xe]|] eqn:Fe; [|discriminate Hfin].
      inversion Hfin as [Hr]. clear Hfin. rewrite <- Hr in Hblk. cbn [rule_blocks r_body] in Hblk.
      apply negb_false_iff in Hblk. rewrite nyn_value in Hblk.
      destruct (Hpl _ _ _ Fr) as [(tr & Hvr & Hpr) Hinr]. destruct (Hpl _ _ _ Fe) as [(te & Hve & Hpe) Hine].
      pose proof (T5 "record" xr (or_introl eq_refl)) as Tr.
      pose proof (T5 "expr" xe (or_intror (or_intror (or_introl eq_refl)))) as Te.
      destruct (ensure_required_none _ _ _ _ _ (ensure_none _ _ _ _ _ C9) eq_refl) as (Vr & m & e & Ee & Ve).
      inversion Ee; subst m e. rewrite nyn_value in Vr, Ve.
      assert (Nr : n_tag xr <> nullTag) by (exact (Hnn xr tr Hvr (TN "record" xr (or_introl eq_refl)) Vr)).
      assert (Ne : n_tag xe <> nullTag) by (exact (Hnn xe te Hve (TN "expr" xe (or_intror (or_intror (or_introl eq_refl)))) Ve)).
      pose proof (dec_str_value xr tr Hvr Hpr Tr Nr) as Dr.
      pose proof (dec_str_value xe te Hve Hpe Te Ne) as De.
      cbn [isSome orb] in C14.
      (* labels *)
      assert (HL : match find_field FLabels ps with
                   | Some (kl, xl) => derr (dec_strmap str_ok null_ok xl) = false /\
                                      forallb (label_ok lname_ok lvalue_ok) (dval (dec_strmap str_ok null_ok xl) []) = true
                   | None => True end).
      { destruct (find_field FLabels ps) as [[kl xl]|] eqn:Fl; [|exact I].
        destruct (Hpl _ _ _ Fl) as [(tl & Hvl & Hpl') _].
        pose proof (T6 "labels" xl (or_introl eq_refl)) as Tl.
        destruct (bad_label lname_ok lvalue_ok (ym_items (nym kl xl))) eqn:Bl; [discriminate C14|].
        destruct (labels_facts kl xl tl _ [] Hvl Hpl' Tl C7 Bl) as (A & B & _). split; assumption. }
      assert (Herrs : existsb (rule_field_err str_ok null_ok dur_ok) a = false).
      { apply no_field_err; [exact Hknown|]. intros k x Hin. pose proof (Hfound k x Hin) as Hf.
        destruct (field_of (n_value k)) eqn:Fk; cbn [field_value_ok]; try exact I.
        - rewrite Fr in Hf. inversion Hf; subst. now rewrite Dr.
        - rewrite Fa in Hf. discriminate.
        - rewrite Fe in Hf. inversion Hf; subst. now rewrite De.
        - rewrite Ff in Hf. discriminate.
        - rewrite Fkp in Hf. discriminate.
        - rewrite Hf in HL. exact (proj1 HL).
        - rewrite Fn in Hf. discriminate. }
      rewrite Herrs. eexists. split; [reflexivity|].
      unfold rule_valid, str_field, dur_field, map_field. cbn [pr_record pr_alert pr_expr pr_for pr_keep pr_labels pr_annotations].
      rewrite Lr, La, Le, Lf, Lkp, Ll, Ln. cbn [option_map snd]. rewrite Dr, De. cbn [dval].
      assert (Er : is_empty (node_value xr) = false) by (unfold is_empty; now apply String.eqb_neq).
      assert (Ee' : is_empty (node_value xe) = false) by (unfold is_empty; now apply String.eqb_neq).
      rewrite Er, Ee'. cbn [is_empty String.eqb negb andb orb nonzero_dur]. rewrite Hblk.
      rewrite nyn_value in C12, C13.
      destruct (metric_ok (node_value xr)) eqn:Mk; [|discriminate C12]. cbn [negb] in C13.
      rewrite contains_brace_same.
      destruct (Parser.contains_brace (node_value xr)) eqn:Cb; [discriminate C13|]. cbn [negb andb].
      destruct (find_field FLabels ps) as [[kl xl]|]; cbn [option_map snd]; [|reflexivity].
      destruct HL as [_ HL]. rewrite HL. reflexivity.
    - (* ---- alerting rule ---- *)
      destruct (find_field FAlert ps) as [[ka xa]|] eqn:Fa; [|discriminate Hfin].
      destruct (find_field FExpr ps) as [[ke xe]|] eqn:Fe; [|discriminate Hfin].
      inversion Hfin as [Hr]. clear Hfin. rewrite <- Hr in Hblk. cbn [rule_blocks r_body] in Hblk.
      apply orb_false_iff in Hblk. destruct Hblk as [Hblk Htm].
      apply orb_false_iff in Hblk. destruct Hblk as [Hblk Hbk].
      apply orb_false_iff in Hblk. destruct Hblk as [Hex Hbf]. apply negb_false_iff in Hex.
      rewrite Hex in Htm. cbn [andb] in Htm. apply orb_false_iff in Htm. destruct Htm as [Htl Hta].
      rewrite nyn_value in Hex.
      destruct (Hpl _ _ _ Fa) as [(ta & Hva & Hpa) Hina]. destruct (Hpl _ _ _ Fe) as [(te & Hve & Hpe) Hine].
      pose proof (T5 "alert" xa (or_intror (or_introl eq_refl))) as Ta.
      pose proof (T5 "expr" xe (or_intror (or_intror (or_introl eq_refl)))) as Te.
      destruct (ensure_required_none _ _ _ _ _ (ensure_none _ _ _ _ _ C10) eq_refl) as (Va & m & e & Ee & Ve).
      inversion Ee; subst m e. rewrite nyn_value in Va, Ve.
      assert (Na : n_tag xa <> nullTag) by (exact (Hnn xa ta Hva (TN "alert" xa (or_intror (or_introl eq_refl))) Va)).
      assert (Ne : n_tag xe <> nullTag) by (exact (Hnn xe te Hve (TN "expr" xe (or_intror (or_intror (or_introl eq_refl)))) Ve)).
      pose proof (dec_str_value xa ta Hva Hpa Ta Na) as Da.
      pose proof (dec_str_value xe te Hve Hpe Te Ne) as De.
      cbn [isSome orb] in C14.
      (* for / keep_firing_for *)
      assert (HF : match find_field FFor ps with
                   | Some (kf, xf) => derr (dec_duration str_ok null_ok dur_ok xf) = false
                   | None => True end).
      { destruct (find_field FFor ps) as [[kf xf]|] eqn:Ff; [|exact I].
        destruct (Hpl _ _ _ Ff) as [(tf & Hvf & Hpf) _].
        pose proof (T5 "for" xf (or_intror (or_intror (or_intror (or_introl eq_refl))))) as Tf.
        rewrite (dec_dur_value xf tf Hvf Hpf Tf). destruct (String.eqb (n_tag xf) nullTag); [reflexivity|].
        cbn [oval option_map snd bad_dur] in Hbf. rewrite nyn_value in Hbf.
        apply negb_false_iff in Hbf. now rewrite Hbf. }
      assert (HK : match find_field FKeep ps with
                   | Some (kk, xk) => derr (dec_duration str_ok null_ok dur_ok xk) = false
                   | None => True end).
      { destruct (find_field FKeep ps) as [[kk xk]|] eqn:Fkp; [|exact I].
        destruct (Hpl _ _ _ Fkp) as [(tk & Hvk & Hpk) _].
        pose proof (T5 "keep_firing_for" xk (or_intror (or_intror (or_intror (or_intror (or_introl eq_refl)))))) as Tk.
        rewrite (dec_dur_value xk tk Hvk Hpk Tk). destruct (String.eqb (n_tag xk) nullTag); [reflexivity|].
        cbn [oval option_map snd bad_dur] in Hbk. rewrite nyn_value in Hbk.
        apply negb_false_iff in Hbk. now rewrite Hbk. }
      assert (HL : match find_field FLabels ps with
                   | Some (kl, xl) => derr (dec_strmap str_ok null_ok xl) = false /\
                                      forallb (label_ok lname_ok lvalue_ok) (dval (dec_strmap str_ok null_ok xl) []) = true /\
                                      forallb (fun kv : string * string => tmpl_prom (snd kv)) (dval (dec_strmap str_ok null_ok xl) []) = true
                   | None => True end).
      { destruct (find_field FLabels ps) as [[kl xl]|] eqn:Fl; [|exact I].
        destruct (Hpl _ _ _ Fl) as [(tl & Hvl & Hpl') _].
        pose proof (T6 "labels" xl (or_introl eq_refl)) as Tl.
        destruct (bad_label lname_ok lvalue_ok (ym_items (nym kl xl))) eqn:Bl; [discriminate C14|].
        cbn [oval option_map snd] in Htl.
        destruct (labels_facts kl xl tl _ (entry_labels glabels (Some (nym kl xl))) Hvl Hpl' Tl C7 Bl) as (A & B & C & D).
        split; [exact A|]. split; [exact B|]. apply C; [|exact Htl].
        apply entry_labels_keeps. exact D. }
      assert (HN : match find_field FAnn ps with
                   | Some (kn, xn) => derr (dec_strmap str_ok null_ok xn) = false /\
                                      forallb (fun kv : string * string => lname_ok (fst kv)) (dval (dec_strmap str_ok null_ok xn) []) = true /\
                                      forallb (fun kv : string * string => tmpl_prom (snd kv)) (dval (dec_strmap str_ok null_ok xn) []) = true
                   | None => True end).
      { destruct (find_field FAnn ps) as [[kn xn]|] eqn:Fn; [|exact I].
        destruct (Hpl _ _ _ Fn) as [(tn & Hvn & Hpn) _].
        pose proof (T6 "annotations" xn (or_intror (or_introl eq_refl))) as Tn.
        destruct (bad_annotation lname_ok (ym_items (nym kn xn))) eqn:Bn; [discriminate C15|].
        cbn [oval option_map snd] in Hta.
        destruct (annotations_facts kn xn tn _ Hvn Hpn Tn C8 Bn) as (A & B & C).
        split; [exact A|]. split; [exact B|]. exact (C Hta). }
      assert (Herrs : existsb (rule_field_err str_ok null_ok dur_ok) a = false).
      { apply no_field_err; [exact Hknown|]. intros k x Hin. pose proof (Hfound k x Hin) as Hf.
        destruct (field_of (n_value k)) eqn:Fk; cbn [field_value_ok]; try exact I.
        - rewrite Fr in Hf. discriminate.
        - rewrite Fa in Hf. inversion Hf; subst. now rewrite Da.
        - rewrite Fe in Hf. inversion Hf; subst. now rewrite De.
        - rewrite Hf in HF. exact HF.
        - rewrite Hf in HK. exact HK.
        - rewrite Hf in HL. exact (proj1 HL).
        - rewrite Hf in HN. exact (proj1 HN). }
      rewrite Herrs. eexists. split; [reflexivity|].
      unfold rule_valid, str_field, dur_field, map_field. cbn [pr_record pr_alert pr_expr pr_for pr_keep pr_labels pr_annotations].
      rewrite Lr, La, Le, Lf, Lkp, Ll, Ln. cbn [option_map snd]. rewrite Da, De. cbn [dval].
      assert (Ea : is_empty (node_value xa) = false) by (unfold is_empty; now apply String.eqb_neq).
      assert (Ee' : is_empty (node_value xe) = false) by (unfold is_empty; now apply String.eqb_neq).
      rewrite Ea, Ee'. cbn [is_empty String.eqb negb andb orb]. rewrite Hex. cbn [andb].
      destruct (find_field FLabels ps) as [[kl xl]|]; destruct (find_field FAnn ps) as [[kn xn]|]; cbn [option_map snd forallb andb].
      + destruct HL as (_ & L1 & L2). destruct HN as (_ & N1 & N2). rewrite L1, L2, N1, N2. reflexivity.
      + destruct HL as (_ & L1 & L2). rewrite L1, L2. reflexivity.
      + destruct HN as (_ & N1 & N2). rewrite N1, N2. reflexivity.
      + reflexivity.
  Qed.
  Lemma ups_views rn : rule_guard rn -> forall k x, In (k, x) (ups rn) -> n_alias k = None /\ exists t, views x t /\ tgt_ok t.
  Proof.
    intros Hp k x Hin. split; [exact (ups_noalias_keys rn Hp (k, x) Hin)|].
    unfold ups in Hin. apply in_map_iff in Hin. destruct Hin as ([k0 x0] & E0 & Hin0). inversion E0; subst k x.
    destruct (proj2 Hp k0 x0 Hin0) as [_ (t & Hs & Ht)]. exists t. split; [exact (views_unp x0 t Hs)|exact Ht].
  Qed.

  Theorem rule_sound rn glabels :
    rule_guard rn ->
    r_error (PRS lines rn) = None ->
    rule_blocks expr_ok dur_ok tmpl_pint glabels (PRS lines rn) = false ->
    exists pr, dec_rule str_ok null_ok dur_ok rn = DOk pr /\
               rule_valid expr_ok dur_zero metric_ok lname_ok lvalue_ok tmpl_prom pr = true.
  Proof.
    intros Hp Herr Hblk.
    pose proof (guard_not_seq rn Hp (accepted_is_map rn Herr)) as Ks.
    apply (rule_sound_core rn glabels (ups rn) (map (fun kv => (key_text kv, snd kv)) (mapping_nodes rn))); auto.
    - exact (unpack_guard rn Hp Ks).
    - exact (ups_views rn Hp).
    - exact (rule_decodes rn Hp Herr).
    - now rewrite ups_assign, rule_tail_unp.
  Qed.
End Rule.
