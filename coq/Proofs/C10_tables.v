(** C10/C07 — the tables of the model agree with the tables the translator extracted from the current Go sources
    (coq/Gen/C10.v, regenerated on every run by translator/ext_C10.go): the comment prefix, the keyword -> type table
    of parseType, the numbering of comments.Type, IsRuleComment, and what ContentReader.parseComments does for each
    comment type (which skip mode, whether it is collected, whether the ignore/file diagnostic is emitted).
    Orders of switch cases are irrelevant and not compared. *)
From Coq Require Import List String Ascii NArith ZArith Bool Arith.
From PintV Require Import Common.Bytes Gen.C10 Model.CommentsUnicode Model.Comments Model.Reader.
Import ListNotations.
Open Scope string_scope.
Open Scope list_scope.

Definition all_ctypes : list (string * ctype) :=
  [ ("UnknownType", UnknownType); ("InvalidComment", InvalidComment); ("IgnoreFileType", IgnoreFileType);
    ("IgnoreLineType", IgnoreLineType); ("IgnoreBeginType", IgnoreBeginType); ("IgnoreEndType", IgnoreEndType);
    ("IgnoreNextLineType", IgnoreNextLineType); ("FileOwnerType", FileOwnerType); ("RuleOwnerType", RuleOwnerType);
    ("FileDisableType", FileDisableType); ("DisableType", DisableType); ("FileSnoozeType", FileSnoozeType);
    ("SnoozeType", SnoozeType); ("RuleSetType", RuleSetType) ].

Definition ctype_of_name (s : string) : option ctype := assoc s all_ctypes.

(** Go's iota numbering as used by the model side of the correspondence *)
Definition type_num (t : ctype) : N :=
  match t with
  | UnknownType => 0 | InvalidComment => 1 | IgnoreFileType => 2 | IgnoreLineType => 3 | IgnoreBeginType => 4
  | IgnoreEndType => 5 | IgnoreNextLineType => 6 | FileOwnerType => 7 | RuleOwnerType => 8 | FileDisableType => 9
  | DisableType => 10 | FileSnoozeType => 11 | SnoozeType => 12 | RuleSetType => 13
  end%N.

(** keyword string -> type, from the generated parseType switch and the generated var block *)
Definition gen_keyword_table : list (string * ctype) :=
  flat_map (fun ct => match assoc (fst ct) gen_comment_strings, ctype_of_name (snd ct) with
                      | Some k, Some t => [(k, t)]
                      | _, _ => []
                      end) gen_parse_type.

Definition table_sub (a b : list (string * ctype)) : bool :=
  forallb (fun kt => match assoc (fst kt) b with Some t' => ctype_eqb (snd kt) t' | None => false end) a.

(** what the MODEL's [scan1] does for a comment of type [t], in the vocabulary of the translator *)
Definition skip_name (s : skip_mode) : string :=
  match s with
  | SkipNone => "skipNone" | SkipNextLine => "skipNextLine" | SkipBegin => "skipBegin" | SkipEnd => "skipEnd"
  | SkipCurrentLine => "skipCurrentLine" | SkipFile => "skipFile"
  end.

Definition model_class (t : ctype) : string :=
  let c := {| c_type := t; c_off := 3; c_val := VNone |} in
  let '(found, skip, cs, ds) := scan1 7 20 (false, SkipNone, [], []) c in
  let parts :=
    (match ds with
     | [(7, 4, 19)] => ["diag"]      (* Line = lineno, FirstColumn = Offset+1, LastColumn = len(buf)-1 *)
     | [] => []
     | _ => ["?diag"]
     end) ++
    (if found then ["found"] else []) ++
    (match cs with [] => [] | _ => ["collect"] end) ++
    (match skip with SkipNone => [] | s => [append "skip=" (skip_name s)] end) in
  match parts with [] => "pass" | _ => String.concat "," parts end.

(** the translator sorts the parts of a case body; "collect" < "diag" < "found" < "skip=..." *)
Definition gen_class (name : string) : string :=
  match assoc name gen_reader_switch with Some a => a | None => "pass" end.

Definition tables_ok : bool :=
  String.eqb gen_prefix prefix &&
  Nat.eqb (List.length gen_keyword_table) (List.length gen_parse_type) &&
  Nat.eqb (List.length gen_keyword_table) (List.length type_table) &&
  table_sub type_table gen_keyword_table && table_sub gen_keyword_table type_table &&
  String.eqb gen_parse_type_default "UnknownType" &&
  Nat.eqb (List.length gen_type_consts) (List.length all_ctypes) &&
  forallb (fun nv => match ctype_of_name (fst nv) with Some t => N.eqb (type_num t) (snd nv) | None => false end) gen_type_consts &&
  forallb (fun nt => Bool.eqb (is_rule_comment (snd nt)) (mem_str (fst nt) gen_rule_comment_types)) all_ctypes &&
  forallb (fun n => match ctype_of_name n with Some _ => true | None => false end) gen_rule_comment_types &&
  forallb (fun nt => String.eqb (model_class (snd nt)) (gen_class (fst nt))) all_ctypes &&
  forallb (fun na => match ctype_of_name (fst na) with Some _ => true | None => false end) gen_reader_switch &&
  Nat.eqb (List.length gen_parser_states) 7.

Theorem tables_match_source : tables_ok = true.
Proof. vm_compute. reflexivity. Qed.
