(** C07 — round trip of the comment grammar: a well-formed [# pint <keyword> <value>] comment, at any byte offset
    after an ASCII prefix without '#', parses to exactly that keyword, offset and value. *)
From Coq Require Import List String Ascii NArith ZArith Bool Arith Lia.
From PintV Require Import Common.Bytes Model.CommentsUnicode Model.Comments.
Import ListNotations.
Open Scope string_scope.
Open Scope list_scope.
Open Scope nat_scope.

Definition code (c : ascii) : N := N_of_ascii c.

Fixpoint zipidx (i : nat) (s : string) : list (nat * N) :=
  match s with EmptyString => [] | String c r => (i, code c) :: zipidx (S i) r end.

Fixpoint all_ascii (s : string) : bool :=
  match s with EmptyString => true | String c r => (code c <? 128)%N && all_ascii r end.

Fixpoint codes (s : string) : list N := match s with EmptyString => [] | String c r => code c :: codes r end.

Lemma decode_ascii s : forall i, all_ascii s = true -> decode_from 0 i s = zipidx i s.
Proof.
  induction s as [|c r IH]; intros i H; [reflexivity|].
  cbn [all_ascii] in H. apply andb_true_iff in H. destruct H as [Hc Hr].
  cbn [decode_from zipidx]. unfold decode1. fold (code c). rewrite Hc. cbn [Nat.pred]. rewrite IH by exact Hr. reflexivity.
Qed.

Lemma zipidx_app a : forall i b, zipidx i (append a b) = zipidx i a ++ zipidx (i + String.length a) b.
Proof.
  induction a as [|c r IH]; intros i b; cbn [append zipidx String.length app].
  - rewrite Nat.add_0_r. reflexivity.
  - rewrite IH. replace (S i + String.length r) with (i + S (String.length r)) by lia. reflexivity.
Qed.

Lemma append_assoc' (a b c : string) : append (append a b) c = append a (append b c).
Proof. induction a; cbn; congruence. Qed.

Lemma all_ascii_app a b : all_ascii (append a b) = all_ascii a && all_ascii b.
Proof. induction a as [|c r IH]; cbn; [reflexivity|]. rewrite IH, andb_assoc. reflexivity. Qed.

Lemma encode_ascii s : all_ascii s = true -> encode_runes (codes s) = s.
Proof.
  induction s as [|c r IH]; intros H; [reflexivity|].
  cbn [all_ascii] in H. apply andb_true_iff in H. destruct H as [Hc Hr].
  cbn [codes encode_runes]. unfold encode_rune. rewrite Hc. cbn [append]. rewrite IH by exact Hr.
  unfold byte, code. rewrite ascii_N_embedding. reflexivity.
Qed.

(** prefix: ASCII, no '#' *)
Fixpoint no_hash (s : string) : bool :=
  match s with EmptyString => true | String c r => negb (code c =? hash)%N && no_hash r end.

Lemma skip_prefix pre : forall i st, p_state st = NeedsHash -> no_hash pre = true ->
  fold_left pstep (zipidx i pre) st = st.
Proof.
  induction pre as [|c r IH]; intros i st Hs H; [reflexivity|].
  cbn [no_hash] in H. apply andb_true_iff in H. destruct H as [Hc Hr]. apply negb_true_iff in Hc.
  cbn [zipidx fold_left]. unfold pstep at 2. rewrite Hs, Hc. apply IH; assumption.
Qed.

(** value: no newline *)
Fixpoint no_newline (s : string) : bool :=
  match s with EmptyString => true | String c r => negb (code c =? newline)%N && no_newline r end.

Lemma read_value v : forall i st, p_state st = ReadsValue -> no_newline v = true ->
  fold_left pstep (zipidx i v) st =
  {| p_state := ReadsValue; p_buf := rev (codes v) ++ p_buf st; p_type := p_type st; p_off := p_off st |}.
Proof.
  induction v as [|c r IH]; intros i st Hs H.
  - cbn. destruct st; cbn in *; subst; reflexivity.
  - cbn [no_newline] in H. apply andb_true_iff in H. destruct H as [Hc Hr]. apply negb_true_iff in Hc.
    cbn [zipidx fold_left]. unfold pstep at 2. rewrite Hs. unfold step_reads_value. rewrite Hc.
    rewrite IH by (try exact Hr; cbn; exact Hs). cbn [push p_buf p_type p_off codes rev]. rewrite <- app_assoc. reflexivity.
Qed.

Definition first_code (s : string) : option N := match s with EmptyString => None | String c _ => Some (code c) end.
Fixpoint last_code (s : string) : option N :=
  match s with EmptyString => None | String c EmptyString => Some (code c) | String _ r => last_code r end.

(** a value the grammar returns unchanged: ASCII, non-empty, no newline, no white space at either end *)
Definition ok_value (v : string) : Prop :=
  all_ascii v = true /\ no_newline v = true /\
  (exists a, first_code v = Some a /\ is_space a = false) /\ (exists z, last_code v = Some z /\ is_space z = false).

Lemma drop_space_first l a t : l = a :: t -> is_space a = false -> drop_space l = l.
Proof. intros -> H. cbn. rewrite H. reflexivity. Qed.

Lemma rev_codes_last v z : last_code v = Some z -> exists t, rev (codes v) = z :: t.
Proof.
  induction v as [|c r IH]; intros H; [discriminate|].
  destruct r as [|c' r'].
  - inversion H. exists []. reflexivity.
  - change (last_code (String c (String c' r'))) with (last_code (String c' r')) in H.
    destruct (IH H) as [t Ht]. exists (t ++ [code c]). cbn [codes rev] in *. rewrite Ht. reflexivity.
Qed.

Lemma trimmed_ok v : ok_value v -> trimmed_value (rev (codes v)) = v.
Proof.
  intros (Ha & _ & (a & Hf & Hsa) & (z & Hl & Hsz)). unfold trimmed_value.
  destruct (rev_codes_last v z Hl) as [t Ht].
  rewrite (drop_space_first _ z t Ht Hsz), rev_involutive.
  destruct v as [|c r]; [discriminate|]. inversion Hf; subst a.
  rewrite (drop_space_first (codes (String c r)) (code c) (codes r) eq_refl Hsa). apply encode_ascii. exact Ha.
Qed.

Definition after_keyword (t : ctype) (i : nat) : pst := {| p_state := NeedsValue; p_buf := []; p_type := t; p_off := i |}.

(** [kw_ok kw t]: from the needs-hash state, reading "# pint <kw> " leaves the machine waiting for the value of a
    comment of type [t] that starts at the '#' (checked by computation for each of the 12 keywords below) *)
Definition kw_ok (kw : string) (t : ctype) : Prop :=
  all_ascii kw = true /\
  forall i st, p_state st = NeedsHash ->
    fold_left pstep (zipidx i (append "# pint " (append kw " "))) st = after_keyword t i.

Section WithTime.
Variable tp : string -> option Z.

Definition whole (pre kw v : string) : string := append pre (append (append "# pint " (append kw " ")) v).

Theorem grammar_roundtrip kw t pre v line :
  kw_ok kw t -> t <> UnknownType ->
  all_ascii pre = true -> no_hash pre = true -> ok_value v ->
  parse_comment tp (whole pre kw v) line =
  match parse_value tp t v line with
  | inl val => Some {| c_type := t; c_off := String.length pre; c_val := val |}
  | inr e => Some {| c_type := InvalidComment; c_off := String.length pre;
                     c_val := VInvalid e line (S (String.length pre)) (String.length (whole pre kw v)) |}
  end.
Proof.
  intros [Hkw Hrun] Ht Hpa Hpre Hv. pose proof Hv as (Hva & Hvn & (a & Hf & Hsa) & _).
  unfold parse_comment, run_machine, decode_all.
  assert (Hall : all_ascii (append (whole pre kw v) (String (ascii_of_N 10) EmptyString)) = true).
  { unfold whole. rewrite !all_ascii_app, Hpa, Hkw, Hva. reflexivity. }
  rewrite (decode_ascii _ 0 Hall). unfold whole. rewrite !append_assoc'.
  rewrite zipidx_app, fold_left_app, (skip_prefix pre 0 pinit eq_refl Hpre). cbn [Nat.add].
  change (append "# pint " (append kw (append " " (append v (String (ascii_of_N 10) EmptyString)))))
    with (append "# pint " (append kw (append " " (append v (String (ascii_of_N 10) EmptyString))))).
  replace (append "# pint " (append kw (append " " (append v (String (ascii_of_N 10) EmptyString)))))
    with (append (append "# pint " (append kw " ")) (append v (String (ascii_of_N 10) EmptyString)))
    by (rewrite !append_assoc'; reflexivity).
  rewrite zipidx_app, fold_left_app.
  rewrite (Hrun (String.length pre) pinit eq_refl).
  rewrite zipidx_app, fold_left_app.
  (* the value: first byte is not a space -> reads-value *)
  destruct v as [|c r]; [discriminate|]. inversion Hf; subst a.
  cbn [no_newline] in Hvn. apply andb_true_iff in Hvn. destruct Hvn as [Hc Hr]. apply negb_true_iff in Hc.
  cbn [zipidx fold_left].
  assert (E1 : forall j, pstep (after_keyword t (String.length pre)) (j, code c) =
               {| p_state := ReadsValue; p_buf := [code c]; p_type := t; p_off := String.length pre |}).
  { intros j. unfold pstep. cbn [after_keyword p_state]. rewrite Hsa. unfold step_reads_value, set_state, push.
    cbn [p_state p_buf p_type p_off]. rewrite Hc. reflexivity. }
  rewrite E1. rewrite read_value by (try exact Hr; reflexivity).
  cbn [p_buf p_type p_off].
  assert (E2 : forall j st, p_state st = ReadsValue -> pstep st (j, code (ascii_of_N 10)) = st).
  { intros j st Hs. unfold pstep. rewrite Hs. reflexivity. }
  rewrite E2 by reflexivity.
  unfold finish. cbn [p_type p_buf p_off].
  replace (rev (codes r) ++ [code c]) with (rev (codes (String c r))) by reflexivity.
  rewrite (trimmed_ok (String c r) Hv). rewrite <- !append_assoc'.
  destruct t; try congruence; reflexivity.
Qed.

End WithTime.

(** the 12 keywords, by computation *)
Ltac kw_tac := split; [reflexivity|]; intros i st H; destruct st as [s b t o]; cbn in H; subst s; vm_compute; reflexivity.

Lemma kw_ignore_file : kw_ok "ignore/file" IgnoreFileType. Proof. kw_tac. Qed.
Lemma kw_ignore_line : kw_ok "ignore/line" IgnoreLineType. Proof. kw_tac. Qed.
Lemma kw_ignore_begin : kw_ok "ignore/begin" IgnoreBeginType. Proof. kw_tac. Qed.
Lemma kw_ignore_end : kw_ok "ignore/end" IgnoreEndType. Proof. kw_tac. Qed.
Lemma kw_ignore_next_line : kw_ok "ignore/next-line" IgnoreNextLineType. Proof. kw_tac. Qed.
Lemma kw_file_owner : kw_ok "file/owner" FileOwnerType. Proof. kw_tac. Qed.
Lemma kw_rule_owner : kw_ok "rule/owner" RuleOwnerType. Proof. kw_tac. Qed.
Lemma kw_file_disable : kw_ok "file/disable" FileDisableType. Proof. kw_tac. Qed.
Lemma kw_disable : kw_ok "disable" DisableType. Proof. kw_tac. Qed.
Lemma kw_file_snooze : kw_ok "file/snooze" FileSnoozeType. Proof. kw_tac. Qed.
Lemma kw_snooze : kw_ok "snooze" SnoozeType. Proof. kw_tac. Qed.
Lemma kw_rule_set : kw_ok "rule/set" RuleSetType. Proof. kw_tac. Qed.

Lemma ok_value_nonempty v : ok_value v -> is_empty v = false.
Proof. intros (_ & _ & (a & H & _) & _). destruct v; [discriminate|reflexivity]. Qed.

Section Corollaries.
Variable tp : string -> option Z.

Theorem roundtrip_disable pre m line :
  all_ascii pre = true -> no_hash pre = true -> ok_value m ->
  parse_comment tp (append pre (append "# pint disable " m)) line =
  Some {| c_type := DisableType; c_off := String.length pre; c_val := VDisable m |}.
Proof.
  intros Hp Hh Hm. pose proof (grammar_roundtrip tp "disable" DisableType pre m line kw_disable) as G.
  unfold whole in G. cbn [append] in G. cbn [append]. rewrite G; try assumption; try discriminate.
  cbn [parse_value]. rewrite (ok_value_nonempty m Hm). reflexivity.
Qed.

Theorem roundtrip_file_disable pre m line :
  all_ascii pre = true -> no_hash pre = true -> ok_value m ->
  parse_comment tp (append pre (append "# pint file/disable " m)) line =
  Some {| c_type := FileDisableType; c_off := String.length pre; c_val := VDisable m |}.
Proof.
  intros Hp Hh Hm. pose proof (grammar_roundtrip tp "file/disable" FileDisableType pre m line kw_file_disable) as G.
  unfold whole in G. cbn [append] in G. cbn [append]. rewrite G; try assumption; try discriminate.
  cbn [parse_value]. rewrite (ok_value_nonempty m Hm). reflexivity.
Qed.

Fixpoint no_space (s : string) : bool :=
  match s with EmptyString => true | String c r => negb (Ascii.eqb c " "%char) && no_space r end.

Lemma split_stamp stamp m : no_space stamp = true -> split_first_space (append stamp (String " "%char m)) = Some (stamp, m).
Proof.
  induction stamp as [|c r IH]; intros H; cbn [append split_first_space].
  - reflexivity.
  - cbn [no_space] in H. apply andb_true_iff in H. destruct H as [Hc Hr]. apply negb_true_iff in Hc.
    rewrite Hc, (IH Hr). reflexivity.
Qed.

(** snooze / file/snooze: the stamp is what precedes the first space, the match is the rest; the time comes from
    [time.Parse] ([tp]) *)
Theorem roundtrip_snooze (file : bool) pre stamp m u line :
  all_ascii pre = true -> no_hash pre = true ->
  no_space stamp = true -> tp stamp = Some u -> ok_value (append stamp (String " "%char m)) ->
  parse_comment tp (append pre (append (if file then "# pint file/snooze " else "# pint snooze ") (append stamp (String " "%char m)))) line =
  Some {| c_type := if file then FileSnoozeType else SnoozeType; c_off := String.length pre; c_val := VSnooze u m |}.
Proof.
  intros Hp Hh Hs Ht Hv. destruct file.
  - pose proof (grammar_roundtrip tp "file/snooze" FileSnoozeType pre _ line kw_file_snooze ltac:(discriminate) Hp Hh Hv) as G.
    unfold whole in G. cbn [append] in G. cbn [append]. rewrite G.
    cbn [parse_value]. rewrite (ok_value_nonempty _ Hv). unfold parse_snooze. rewrite (split_stamp _ _ Hs), Ht. reflexivity.
  - pose proof (grammar_roundtrip tp "snooze" SnoozeType pre _ line kw_snooze ltac:(discriminate) Hp Hh Hv) as G.
    unfold whole in G. cbn [append] in G. cbn [append]. rewrite G.
    cbn [parse_value]. rewrite (ok_value_nonempty _ Hv). unfold parse_snooze. rewrite (split_stamp _ _ Hs), Ht. reflexivity.
Qed.

End Corollaries.
