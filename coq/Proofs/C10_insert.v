(** C10 — inserting a fully excluded block between lines in normal state only shifts what follows (spec level). *)
From Coq Require Import List String Ascii NArith ZArith Bool Arith Lia.
From PintV Require Import Common.Bytes Model.CommentsUnicode Model.Comments Model.Reader Model.MaskSpec
  Proofs.C10_refine Proofs.C10_nonint.
Import ListNotations.
Open Scope string_scope.
Open Scope list_scope.
Open Scope nat_scope.

Arguments nl : simpl never.

Section WithTime.
Variable tp : string -> option Z.

(** ** line numbers only flow into values *)
Definition shift_val (t : ctype) (k : nat) (v : cvalue) : cvalue :=
  match v with
  | VInvalid e l f la => VInvalid e (l + k) f la
  | VOwner name l => match t with FileOwnerType => VOwner name (l + k) | _ => v end
  | _ => v
  end.

Definition shift_comment (k : nat) (c : comment) : comment :=
  {| c_type := c_type c; c_off := c_off c; c_val := shift_val (c_type c) k (c_val c) |}.

Lemma parse_comment_shift s n k :
  parse_comment tp s (n + k) = option_map (shift_comment k) (parse_comment tp s n).
Proof.
  unfold parse_comment, finish. generalize (run_machine s) as st. intros st.
  destruct (p_type st) eqn:Ht; try reflexivity; unfold parse_value;
    try (destruct (is_empty (trimmed_value (p_buf st))); reflexivity);
    try (destruct (is_empty (trimmed_value (p_buf st))); [reflexivity|];
         unfold parse_snooze; destruct (split_first_space (trimmed_value (p_buf st))) as [[a b]|]; [|reflexivity];
         destruct (tp a); reflexivity).
Qed.

Lemma line_comment_shift n k b : line_comment tp (n + k) b = option_map (shift_comment k) (line_comment tp n b).
Proof. apply parse_comment_shift. Qed.

Definition shift_diag (k : nat) (d : diag) : diag := let '(l, f, t) := d in (l + k, f, t).

Definition shift_res (k : nat) (x : string * list comment * list diag) : string * list comment * list diag :=
  (masked x, map (shift_comment k) (collected x), map (shift_diag k) (diagsof x)).

Lemma spec_action_shift st oc k :
  spec_action st (option_map (shift_comment k) oc) =
  let '(st', a, cs, d) := spec_action st oc in (st', a, map (shift_comment k) cs, d).
Proof.
  destruct st as [[|]| |]; destruct oc as [c|]; cbn; try reflexivity; destruct (c_type c); reflexivity.
Qed.

Lemma spec_step_shift st n k b :
  spec_step tp st (n + k) b =
  let '(st', m, cs, ds) := spec_step tp st n b in (st', m, map (shift_comment k) cs, map (shift_diag k) ds).
Proof.
  unfold spec_step. rewrite line_comment_shift, spec_action_shift.
  destruct (spec_action st (line_comment tp n b)) as [[[st' a] cs] d]. destruct d; reflexivity.
Qed.

Lemma spec_steps_shift bs : forall st n k,
  spec_steps tp st (n + k) bs = (map (shift_res k) (fst (spec_steps tp st n bs)), snd (spec_steps tp st n bs)).
Proof.
  induction bs as [|b t IH]; intros st n k; [reflexivity|].
  cbn [spec_steps]. change (S (n + k)) with (S n + k). rewrite spec_step_shift.
  destruct (spec_step tp st (S n) b) as [[[st' m] cs] ds]. rewrite IH.
  destruct (spec_steps tp st' (S n) t) as [l fin]. reflexivity.
Qed.

Lemma spec_steps_app a : forall st n b,
  spec_steps tp st n (a ++ b) =
  (fst (spec_steps tp st n a) ++ fst (spec_steps tp (snd (spec_steps tp st n a)) (n + List.length a) b),
   snd (spec_steps tp (snd (spec_steps tp st n a)) (n + List.length a) b)).
Proof.
  induction a as [|x t IH]; intros st n b.
  - cbn. rewrite Nat.add_0_r. destruct (spec_steps tp st n b); reflexivity.
  - cbn [app spec_steps List.length]. destruct (spec_step tp st (S n) x) as [[[st' m] cs] ds].
    rewrite IH. destruct (spec_steps tp st' (S n) t) as [l fin]. cbn [fst snd].
    replace (n + S (List.length t)) with (S n + List.length t) by lia. reflexivity.
Qed.

(** ** fully excluded blocks *)

(** type and offset of the line's pint comment (independent of the line number) *)
Definition ltype (b : string) : option (ctype * nat) :=
  match line_comment tp 0 b with Some c => Some (c_type c, c_off c) | None => None end.

Lemma ltype_any n b :
  match line_comment tp n b with Some c => Some (c_type c, c_off c) | None => None end = ltype b.
Proof.
  unfold ltype. change n with (0 + n). rewrite line_comment_shift. destruct (line_comment tp 0 b); reflexivity.
Qed.

(** a line yaml treats as blank: spaces, then nothing, the newline, or a comment *)
Definition yaml_blank (m : string) : Prop :=
  exists k r, m = append (spaces k) r /\
              (r = EmptyString \/ r = String nl EmptyString \/ exists r', r = String "#"%char r').

Definition hashc : ascii := "#"%char.

Inductive excl_block : list string -> Prop :=
| EB_next d x o :
    ltype d = Some (IgnoreNextLineType, o) -> yaml_blank d -> wf_chunk x -> excl_block [d; x]
| EB_line p r' :
    ltype (append p (String hashc r')) = Some (IgnoreLineType, String.length p) -> no_nl p = true ->
    excl_block [append p (String hashc r')]
| EB_block d1 pay d2 o1 o2 :
    ltype d1 = Some (IgnoreBeginType, o1) -> yaml_blank d1 ->
    Forall (fun x => wf_chunk x /\ forall o, ltype x <> Some (IgnoreEndType, o)) pay ->
    ltype d2 = Some (IgnoreEndType, o2) -> yaml_blank d2 ->
    excl_block (d1 :: pay ++ [d2])
| EB_app a b : excl_block a -> excl_block b -> excl_block (a ++ b).

Definition inert_blank (x : string * list comment * list diag) : Prop :=
  yaml_blank (masked x) /\ collected x = [] /\ diagsof x = [].

Lemma yaml_blank_all b : wf_chunk b -> yaml_blank (blank_from 0 0 true b).
Proof.
  intros H. rewrite (blank_all_chunk b H). exists (String.length (strip_nl b)), (tail_nl b). split; [reflexivity|].
  destruct (tail_nl_cases b) as [-> | ->]; auto.
Qed.

Lemma step_of_ltype (st : sstate) n b t o :
  ltype b = Some (t, o) -> exists c, line_comment tp n b = Some c /\ c_type c = t /\ c_off c = o.
Proof.
  intros H. pose proof (ltype_any n b) as E. rewrite H in E.
  destruct (line_comment tp n b) as [c|]; [|discriminate]. inversion E. exists c. auto.
Qed.

Lemma block_payload pay : forall n,
  Forall (fun x => wf_chunk x /\ forall o, ltype x <> Some (IgnoreEndType, o)) pay ->
  snd (spec_steps tp SBlock n pay) = SBlock /\ Forall inert_blank (fst (spec_steps tp SBlock n pay)).
Proof.
  induction pay as [|x t IH]; intros n H; [split; [reflexivity|constructor]|].
  inversion H as [|? ? [Hw Hne] Ht]; subst. cbn [spec_steps]. unfold spec_step.
  assert (E : spec_action SBlock (line_comment tp (S n) x) = (SBlock, BlankAll, [], None)).
  { pose proof (ltype_any (S n) x) as L. cbn. destruct (line_comment tp (S n) x) as [c|]; [|reflexivity].
    destruct (c_type c) eqn:Ht'; try reflexivity. exfalso. apply (Hne (c_off c)). rewrite <- L. reflexivity. }
  rewrite E. destruct (IH (S n) Ht) as [Hs Hf]. destruct (spec_steps tp SBlock (S n) t) as [l fin].
  cbn [fst snd] in *. split; [exact Hs|]. constructor; [|exact Hf].
  unfold inert_blank; cbn. repeat split. apply yaml_blank_all. exact Hw.
Qed.

Lemma step_kw (st : sstate) n d t o st' :
  ltype d = Some (t, o) ->
  (forall c, c_type c = t -> spec_action st (Some c) = (st', Keep, [], None)) ->
  spec_step tp st n d = (st', d, [], []).
Proof.
  intros H Hact. destruct (step_of_ltype st n d _ _ H) as (c & Hc & Ht & _).
  unfold spec_step. rewrite Hc, (Hact c Ht). reflexivity.
Qed.

Lemma step_target n x : spec_step tp (SNormal true) n x = (SNormal false, blank_from 0 0 true x, [], []).
Proof. reflexivity. Qed.

Lemma excl_block_steps blk : excl_block blk -> forall n,
  snd (spec_steps tp (SNormal false) n blk) = SNormal false /\
  Forall inert_blank (fst (spec_steps tp (SNormal false) n blk)).
Proof.
  induction 1 as [d x o Hd Hyd Hx | p r' Hl Hp | d1 pay d2 o1 o2 H1 Hy1 Hpay H2 Hy2 | a b Ha IHa Hb IHb]; intros n.
  - cbn [spec_steps].
    rewrite (step_kw (SNormal false) (S n) d _ _ (SNormal true) Hd) by (intros c Hc; cbn; rewrite Hc; reflexivity).
    rewrite step_target. cbn [fst snd].
    split; [reflexivity|]. repeat constructor; cbn; try reflexivity; [exact Hyd | apply yaml_blank_all; exact Hx].
  - destruct (step_of_ltype (SNormal false) (S n) _ _ _ Hl) as (c & Hc & Ht & Ho).
    cbn [spec_steps]. unfold spec_step. rewrite Hc. cbn [spec_action]. rewrite Ht. cbn [apply_action diag_of fst snd].
    split; [reflexivity|]. repeat constructor; cbn [masked collected diagsof fst snd]; try reflexivity.
    rewrite Ho. pose proof (blank_prefix p 0 (String hashc r') Hp) as X. cbn [Nat.add] in X. rewrite X.
    exists (String.length p), (String hashc r'). split; [reflexivity|]. right; right. exists r'. reflexivity.
  - change (d1 :: pay ++ [d2]) with ([d1] ++ pay ++ [d2]).
    rewrite spec_steps_app. cbn [spec_steps].
    rewrite (step_kw (SNormal false) (S n) d1 _ _ SBlock H1) by (intros c Hc; cbn; rewrite Hc; reflexivity).
    cbn [fst snd List.length]. rewrite spec_steps_app.
    destruct (block_payload pay (n + 1) Hpay) as [Hs Hf]. rewrite Hs. cbn [spec_steps].
    rewrite (step_kw SBlock (S (n + 1 + List.length pay)) d2 _ _ (SNormal false) H2) by (intros c Hc; cbn; rewrite Hc; reflexivity).
    cbn [fst snd]. split; [reflexivity|]. constructor; [unfold inert_blank; cbn; auto|].
    apply Forall_app. split; [exact Hf|]. repeat constructor; cbn; auto.
  - rewrite spec_steps_app. destruct (IHa n) as [Hsa Hfa]. rewrite Hsa.
    destruct (IHb (n + List.length a)) as [Hsb Hfb]. cbn [fst snd]. split; [exact Hsb|].
    apply Forall_app. split; assumption.
Qed.

Lemma spec_steps_length bs : forall st n, List.length (fst (spec_steps tp st n bs)) = List.length bs.
Proof.
  induction bs as [|b t IH]; intros st n; [reflexivity|]. cbn [spec_steps].
  destruct (spec_step tp st (S n) b) as [[[st' m] cs] ds]. specialize (IH st' (S n)).
  destruct (spec_steps tp st' (S n) t). cbn in *. congruence.
Qed.

(** Inserting a fully excluded block [blk] at a point where the spec is in normal state: the lines before are
    unchanged, the block contributes only yaml-blank lines (no comment, no diagnostic), and everything after is the
    old result with its line numbers shifted by the length of the block; the final state is the same. *)
Theorem spec_insert_shift pre blk post :
  snd (spec_steps tp (SNormal false) 0 pre) = SNormal false ->
  excl_block blk ->
  let L1 := fst (spec_steps tp (SNormal false) 0 pre) in
  let L2 := fst (spec_steps tp (SNormal false) (List.length pre) post) in
  let fin := snd (spec_steps tp (SNormal false) (List.length pre) post) in
  spec_steps tp (SNormal false) 0 (pre ++ post) = (L1 ++ L2, fin) /\
  exists B, List.length B = List.length blk /\ Forall inert_blank B /\
    spec_steps tp (SNormal false) 0 (pre ++ blk ++ post) = (L1 ++ B ++ map (shift_res (List.length blk)) L2, fin).
Proof.
  intros Hpre Hblk L1 L2 fin. split.
  - rewrite spec_steps_app, Hpre. reflexivity.
  - destruct (excl_block_steps blk Hblk (List.length pre)) as [Hs Hf].
    exists (fst (spec_steps tp (SNormal false) (List.length pre) blk)). split; [apply spec_steps_length|]. split; [exact Hf|].
    rewrite spec_steps_app, Hpre. cbn [Nat.add]. rewrite spec_steps_app, Hs. cbn [fst snd].
    rewrite spec_steps_shift. reflexivity.
Qed.

End WithTime.

(** ** from chunk lists back to files *)
Definition nlS : string := String nl EmptyString.

(** a complete line: newline-free text followed by the newline *)
Definition line_chunk (b : string) : Prop := exists l, no_nl l = true /\ b = append l nlS.

Lemma chunks_line l rest : no_nl l = true -> chunks (append (append l nlS) rest) = append l nlS :: chunks rest.
Proof.
  induction l as [|c r IH]; intros H.
  - cbn [append nlS]. cbn [chunks]. rewrite Ascii.eqb_refl. reflexivity.
  - cbn [no_nl] in H. apply andb_true_iff in H. destruct H as [Hc Hr]. apply negb_true_iff in Hc.
    cbn [append]. cbn [chunks]. rewrite Hc. rewrite (IH Hr). reflexivity.
Qed.

Lemma chunks_concat bs : Forall line_chunk bs -> chunks (concat_str bs) = bs.
Proof.
  induction 1 as [|b t (l & Hl & ->) Ht IH]; [reflexivity|].
  cbn [concat_str]. rewrite (chunks_line l (concat_str t) Hl), IH. reflexivity.
Qed.

Section Files.
Variable tp : string -> option Z.

(** the insert-shift theorem about FILES: [f] = the lines [pre ++ post], [f'] = the same file with the excluded block
    [blk] inserted between [pre] and [post] *)
Theorem spec_insert_shift_files pre blk post :
  Forall line_chunk pre -> Forall line_chunk blk -> Forall line_chunk post ->
  s_st (reader_spec tp (concat_str pre)) = SNormal false ->
  excl_block tp blk ->
  exists L1 L2 B fin,
    List.length B = List.length blk /\ Forall inert_blank B /\
    reader_spec tp (concat_str (pre ++ post)) = assemble (L1 ++ L2) fin (List.length pre + List.length post) /\
    reader_spec tp (concat_str (pre ++ blk ++ post)) =
      assemble (L1 ++ B ++ map (shift_res (List.length blk)) L2) fin (List.length pre + (List.length blk + List.length post)).
Proof.
  intros Hpre Hblk Hpost Hst Hex.
  assert (Hst' : snd (spec_steps tp (SNormal false) 0 pre) = SNormal false).
  { rewrite (reader_spec_assemble tp (concat_str pre)), (chunks_concat pre Hpre) in Hst. exact Hst. }
  destruct (spec_insert_shift tp pre blk post Hst' Hex) as (E1 & B & HB & Hin & E2).
  exists (fst (spec_steps tp (SNormal false) 0 pre)), (fst (spec_steps tp (SNormal false) (List.length pre) post)), B,
         (snd (spec_steps tp (SNormal false) (List.length pre) post)).
  split; [exact HB|]. split; [exact Hin|]. split.
  - rewrite reader_spec_assemble, chunks_concat by (apply Forall_app; split; assumption).
    rewrite E1, app_length. reflexivity.
  - rewrite reader_spec_assemble, chunks_concat by (apply Forall_app; split; [assumption | apply Forall_app; split; assumption]).
    rewrite E2, !app_length. reflexivity.
Qed.

End Files.
