(** C06 lemmas, part 10: multi-line flow scalars (plain with a trailing comment, quoted without inner quotes or
    escapes) imply the guard [node_ok]. *)
From Coq Require Import List String Ascii ZArith Bool Lia.
From PintV Require Import Common.Bytes Model.Position Model.Layout
     Proofs.C06_expand Proofs.C06_match Proofs.C06_styles Proofs.C06_blocks.
Import ListNotations.
Local Open Scope Z_scope.
Local Open Scope list_scope.

Lemma gscan_skip_prefix : forall pre bytes need rest,
  mem_char need pre = false -> gscan (pre ++ bytes) need rest = gscan bytes need rest.
Proof.
  induction pre as [|b pre IH]; intros bytes need rest H; [reflexivity|].
  cbn [mem_char] in H. apply orb_false_iff in H. destruct H as [H1 H2].
  cbn [append gscan]. rewrite H1. apply IH. exact H2.
Qed.

(** a line on which the scan consumes exactly a segment (stated on the scan result) *)
Lemma segment_line_ok' line more col minCol pending need rest col2 W :
  slen line =? 0 = false ->
  adjust_col line col need rest = Some col2 ->
  gscan (sdrop (Z.to_nat (col2 - 1)) line) need rest =
    (true, match W with EmptyString => None | String c W' => Some (c, W') end) ->
  match W with
  | EmptyString => True
  | String c W' => is_fold_char c = true /\
                   match W' with
                   | EmptyString => c = newline
                   | String n' r' => lay_ok false more minCol minCol (Some c) n' r' = true
                   end
  end ->
  lay_ok false (line :: more) col minCol pending need rest = true.
Proof.
  intros Hl Hadj Hg HW. cbn [lay_ok andb]. rewrite Hl, Hadj, Hg.
  destruct W as [|c W']; [reflexivity|]. destruct HW as [Hf HW]. rewrite Hf.
  destruct W' as [|n' r']; [subst c; apply Ascii.eqb_refl|exact HW].
Qed.

(** a line on which the value ends *)
Lemma done_line_ok line more col minCol pending need rest col2 :
  slen line =? 0 = false ->
  adjust_col line col need rest = Some col2 ->
  snd (gscan (sdrop (Z.to_nat (col2 - 1)) line) need rest) = None ->
  lay_ok false (line :: more) col minCol pending need rest = true.
Proof.
  intros Hl Hadj Hg. cbn [lay_ok andb]. rewrite Hl, Hadj.
  destruct (gscan (sdrop (Z.to_nat (col2 - 1)) line) need rest) as [m res]. cbn [snd] in Hg. subst res. reflexivity.
Qed.

(** the token starts with a non-blank byte: no column adjustment *)
Lemma adjust_nonspace pre t need rest c r :
  t = String c r -> Ascii.eqb c space = false ->
  adjust_col (pre ++ t) (slen pre + 1) need rest = Some (slen pre + 1) /\
  sdrop (Z.to_nat (slen pre + 1 - 1)) (pre ++ t) = t.
Proof.
  intros Et Hc. pose proof (slen_nonneg pre) as Hp. pose proof (slen_nonneg r) as Hr.
  assert (Hd : sdrop (Z.to_nat (slen pre + 1 - 1)) (pre ++ t) = t).
  { replace (Z.to_nat (slen pre + 1 - 1)) with (String.length pre) by (unfold slen; lia). apply sdrop_app_length. }
  split; [|exact Hd].
  unfold adjust_col. rewrite slen_app. subst t. rewrite slen_String.
  replace (Z.min (slen pre + (slen r + 1)) (slen pre + 1)) with (slen pre + 1) by lia.
  replace (slen pre + 1 <=? 0) with false by (symmetry; apply Z.leb_gt; lia).
  rewrite Hd.
  pose proof (count_leading_space_nonneg (String need rest)) as Hvs.
  set (vs := count_leading_space (String need rest)) in *.
  cbn [count_leading_space]. rewrite Hc.
  replace (vs <? 0) with false by (symmetry; apply Z.ltb_ge; lia). reflexivity.
Qed.

(** content line with something after the segment *)
Lemma adjust_content_trailer indent b trailer W minCol need rest :
  has_nonspace b = true -> minCol - 1 <= Z.of_nat indent -> 1 <= minCol ->
  String need rest = (b ++ W)%string ->
  adjust_col (spaces indent ++ b ++ trailer) minCol need rest = Some (Z.of_nat indent + 1) /\
  sdrop (Z.to_nat (Z.of_nat indent + 1 - 1)) (spaces indent ++ b ++ trailer) = (b ++ trailer)%string.
Proof.
  intros Hb Hi Hm E. pose proof (has_nonspace_nonempty b Hb) as Hne.
  assert (Hlb : 1 <= slen b) by (destruct b; [contradiction|rewrite slen_String; pose proof (slen_nonneg b); lia]).
  pose proof (slen_nonneg trailer) as Ht.
  split.
  - unfold adjust_col. rewrite !slen_app, slen_spaces.
    replace (Z.min (Z.of_nat indent + (slen b + slen trailer)) minCol) with minCol by lia.
    replace (minCol <=? 0) with false by (symmetry; apply Z.leb_gt; lia).
    rewrite sdrop_spaces by lia. rewrite cls_spaces_app. rewrite E.
    rewrite (has_nonspace_cls_app b W Hb), (has_nonspace_cls_app b trailer Hb).
    set (cb := count_leading_space b).
    destruct (cb <? Z.of_nat (indent - Z.to_nat (minCol - 1)) + cb) eqn:E2.
    + f_equal. lia.
    + apply Z.ltb_ge in E2. f_equal. lia.
  - replace (Z.to_nat (Z.of_nat indent + 1 - 1)) with indent by lia.
    rewrite sdrop_spaces by lia. replace (indent - indent)%nat with 0%nat by lia. reflexivity.
Qed.

Lemma line_nonempty_slen s c r : s = String c r -> slen s =? 0 = false.
Proof. intros E. subst. apply Z.eqb_neq. rewrite slen_String. pose proof (slen_nonneg r). lia. Qed.

Lemma seg_line_slen k seg t : has_nonspace seg = true -> slen (spaces k ++ seg ++ t) =? 0 = false.
Proof.
  intros H. pose proof (has_nonspace_nonempty seg H) as Hne. destruct seg as [|c r]; [contradiction|].
  apply Z.eqb_neq. rewrite !slen_app, slen_String, slen_spaces.
  pose proof (slen_nonneg r). pose proof (slen_nonneg t). lia.
Qed.

(** middle lines, then the last line *)
Lemma fm_rest_ok minCol last trailer after : forall mid c W',
  1 <= minCol ->
  forallb (seg_ok minCol) mid = true -> seg_ok minCol last = true ->
  String c W' = pm_suffix (mid ++ [last]) ->
  is_fold_char c = true /\
  match W' with
  | EmptyString => c = newline
  | String n' r' =>
      lay_ok false (map (fun ks => (spaces (fst ks) ++ snd ks)%string) mid
              ++ (spaces (fst last) ++ snd last ++ trailer)%string :: after) minCol minCol (Some c) n' r' = true
  end.
Proof.
  induction mid as [|[k seg] mid IH]; intros c W' Hm Hmid Hlast E.
  - (* the last line *)
    destruct last as [k seg]. cbn [app pm_suffix snd fst] in *. inversion E; subst c W'. split; [reflexivity|].
    unfold seg_ok in Hlast. cbn [fst snd] in Hlast.
    apply andb_true_iff in Hlast. destruct Hlast as [Hk Hi]. apply andb_true_iff in Hk. destruct Hk as [Hns _].
    apply Z.leb_le in Hi.
    pose proof (has_nonspace_nonempty seg Hns) as Hne. destruct seg as [|n0 r0]; [contradiction|].
    cbn [append map app]. rewrite sapp_nil_r.
    destruct (adjust_content_trailer k (String n0 r0) trailer EmptyString minCol n0 r0 Hns Hi Hm
                                     ltac:(rewrite sapp_nil_r; reflexivity)) as [Ha Hd].
    eapply done_line_ok; [apply (seg_line_slen k (String n0 r0) trailer Hns)|exact Ha|].
    change (String n0 (r0 ++ trailer)) with (String n0 r0 ++ trailer)%string.
    rewrite Hd. apply gscan_subseq. apply subseq_complete. apply Sub_app_r. apply Sub_refl.
  - cbn [app pm_suffix snd] in E. inversion E; subst c W'. split; [reflexivity|].
    cbn [forallb] in Hmid. apply andb_true_iff in Hmid. destruct Hmid as [Hk Hr].
    unfold seg_ok in Hk. cbn [fst snd] in Hk.
    apply andb_true_iff in Hk. destruct Hk as [Hk Hi]. apply andb_true_iff in Hk. destruct Hk as [Hns _].
    apply Z.leb_le in Hi.
    pose proof (has_nonspace_nonempty seg Hns) as Hne. destruct seg as [|n0 r0]; [contradiction|].
    cbn [append map app fst snd].
    destruct (adjust_content k (String n0 r0) (pm_suffix (mid ++ [last])) minCol n0 (r0 ++ pm_suffix (mid ++ [last]))%string
                             Hns Hi Hm eq_refl) as [Ha Hd].
    eapply segment_line_ok with (b := String n0 r0) (W := pm_suffix (mid ++ [last]));
      [discriminate|reflexivity|exact Ha|exact Hd|].
    destruct (pm_suffix (mid ++ [last])) as [|c2 W2] eqn:Ev.
    + exact I.
    + apply (IH c2 W2 Hm Hr Hlast). reflexivity.
Qed.

Lemma pm_suffix_nonempty mid last : pm_suffix (mid ++ [last]) <> EmptyString.
Proof. destruct mid; cbn; discriminate. Qed.

Theorem flow_ml_node_ok : forall p minCol,
  fm_ok p minCol = true -> node_ok (fm_lines p) (fm_node p) minCol = true.
Proof.
  intros p minCol H. unfold fm_ok in H.
  destruct (fm_first p) as [|f fr] eqn:Ef; [discriminate|].
  repeat (apply andb_true_iff in H; destruct H as [H ?]).
  rename H into Hnn, H0 into Hlast, H1 into Hmid, H2 into Hm, H3 into Hmem, H4 into Hopen, H5 into Hf, H6 into Hns, H7 into Hasc.
  apply negb_true_iff in Hf. apply negb_true_iff in Hopen. apply negb_true_iff in Hmem. apply Z.leb_le in Hm.
  unfold node_ok, fm_node, mksn0. cbn [sn_value sn_line sn_col sn_block sn_anchor sn_dq].
  unfold fm_value in *. rewrite Ef in *. cbn [append] in *.
  rewrite Hnn. cbn [andb].
  replace (1 <=? Z.of_nat (List.length (fm_pre p)) + 1) with true by (symmetry; apply Z.leb_le; lia).
  cbn [andb]. unfold fm_lines.
  replace (Z.to_nat (Z.of_nat (List.length (fm_pre p)) + 1 - 1)) with (List.length (fm_pre p)) by lia.
  rewrite skipn_app_exact. rewrite Ef. cbv zeta.
  assert (Hl0 : slen (fm_keyline_pre p ++ fm_open p ++ String f fr) =? 0 = false).
  { apply Z.eqb_neq. rewrite !slen_app, slen_String. pose proof (slen_nonneg (fm_keyline_pre p)).
    pose proof (slen_nonneg (fm_open p)). pose proof (slen_nonneg fr). lia. }
  rewrite Hl0. rewrite (first_col_plain _ _ _ _ Hasc).
  set (V := pm_suffix (fm_mid p ++ [fm_last p])).
  (* the token on the key line starts with a non-blank byte *)
  assert (Htok : exists c r, (fm_open p ++ String f fr)%string = String c r /\ Ascii.eqb c space = false).
  { destruct (fm_open p) as [|o orr] eqn:Eo.
    - exists f, fr. split; [reflexivity|exact Hf].
    - exists o, (orr ++ String f fr)%string. split; [reflexivity|]. cbn in Hopen. exact Hopen. }
  destruct Htok as [c0 [r0 [Etok Hc0]]].
  destruct (adjust_nonspace (fm_keyline_pre p) (fm_open p ++ String f fr)%string f (fr ++ V)%string c0 r0 Etok Hc0) as [Ha Hd].
  eapply segment_line_ok' with (W := V).
  - rewrite Etok. apply Z.eqb_neq. rewrite slen_app, slen_String.
    pose proof (slen_nonneg (fm_keyline_pre p)). pose proof (slen_nonneg r0). lia.
  - exact Ha.
  - rewrite Hd. rewrite (gscan_skip_prefix (fm_open p) (String f fr) f (fr ++ V)%string Hmem).
    apply gscan_exact; [discriminate|reflexivity].
  - destruct V as [|c2 W2] eqn:Ev; [exact I|].
    apply (fm_rest_ok minCol (fm_last p) (fm_trailer p) (fm_after p) (fm_mid p) c2 W2 Hm Hmid Hlast).
    symmetry. exact Ev.
Qed.
