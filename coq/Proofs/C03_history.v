(** History-level statements for the whole of GitBranchFinder.Find (Model/GitBranch.classify = git.Changes, readRules on the
    selected bodies, matchEntries + state switch for every change, merge into the glob list), under the named hypothesis
    [log_faithful]: what is compared is the fork-point version against the HEAD version, and a rule of the HEAD tree that
    is untouched relative to the fork point ends in state Noop, for ANY branch history. *)
From Coq Require Import List String Ascii ZArith NArith Bool Lia Permutation.
From PintV Require Import Common.Bytes Model.GitBranch Proofs.C03_match Proofs.C03_state Proofs.C03_merge Proofs.C03_final Proofs.C03_skip.
From PintV Require Model.GitChanges Proofs.C03_changes Proofs.C03_faithful.
Import ListNotations.
Open Scope string_scope.
Open Scope list_scope.

Module GC := Model.GitChanges.
Module PC := Proofs.C03_changes.
Module PF := Proofs.C03_faithful.

Definition enc (o : option N) : N := match o with Some b => b | None => 0%N end.

Section History.
  Variable n : nat.
  Variable snap : nat -> string -> option N.
  Variable cidx : string -> nat.
  Variable log : list GC.entry.
  Variable type_at : string -> string -> GC.ptype.
  Variable body_at : string -> string -> N.
  Variable body_lines : N -> N.
  Variable blame : string -> string -> list (string * Z * Z).

  Hypothesis LF : PF.log_faithful n snap cidx log.
  Hypothesis TF : forall e, In e log -> forall p,
    type_at (GC.parent (GC.le_commit e)) p = GC.Missing <-> snap (PF.idx cidx e - 1) p = None.
  Hypothesis BF : forall e, In e log -> forall p,
    body_at (GC.parent (GC.le_commit e)) p = enc (snap (PF.idx cidx e - 1) p) /\
    body_at (GC.le_commit e) p = enc (snap (PF.idx cidx e) p).

  Notation changes := (GC.fold_log type_at (fun _ => true) (fun _ => false) log).
  Notation fin := (GC.finalise type_at body_at body_lines blame).

  (** ** bodies: fork point and HEAD *)
  Lemma bodies_fork_and_head p k ch : p <> "" ->
    PC.nth_by_path changes p k = Some ch ->
    let f := fin ch in
    (GC.ch_before ch <> "" -> GC.f_body_before f = enc (snap 0 (GC.ch_before ch)) /\ snap 0 (GC.ch_before ch) <> None) /\
    (GC.ch_status ch <> GC.st "D" -> k = 0%nat /\ GC.f_body_after f = enc (snap n p)) /\
    (GC.ch_status ch = GC.st "D" ->
       GC.f_body_after f = 0%N /\
       (snap n p = None \/ exists x, In x log /\ GC.le_dst x = p /\ GC.le_src x <> p)).
  Proof.
    intros Hp Hget.
    destruct (PF.change_bodies_faithful n snap cidx log LF type_at TF p k ch Hget)
      as (e1 & em & Hin1 & Hinm & Hhd & Hlast & Hafter & Hdst & Hst & Hn & Hb).
    cbv zeta. unfold GC.finalise. cbn [GC.f_body_before GC.f_body_after]. rewrite Hhd, Hlast, Hafter.
    split; [|split].
    - intro Hne. destruct (Hb Hne) as [Hs Hpres]. split; auto.
      assert (E : String.eqb (GC.ch_before ch) "" = false) by (apply String.eqb_neq; exact Hne).
      rewrite E. simpl. rewrite (proj1 (BF e1 Hin1 (GC.ch_before ch))). unfold PF.idx in Hs. unfold PF.idx. rewrite Hs. reflexivity.
    - intro Hd. destruct Hn as [[Hk Hn]|[HD _]].
      + split; [exact Hk|].
        assert (E : String.eqb p "" = false) by (apply String.eqb_neq; exact Hp). rewrite E.
        assert (E2 : Ascii.eqb (GC.ch_status ch) (GC.st "D") = false) by (apply Ascii.eqb_neq; exact Hd). rewrite E2. simpl.
        rewrite (proj2 (BF em Hinm p)). rewrite Hn. reflexivity.
      + exfalso. apply Hd. rewrite Hst. exact HD.
    - intro Hd. rewrite Hd. rewrite Ascii.eqb_refl. rewrite andb_false_r. split; [reflexivity|].
      destruct Hn as [[Hk Hn]|[_ Hx]]; [left|right; exact Hx].
      rewrite Hn. rewrite Hst in Hd.
      destruct (PF.lf_entry n snap cidx log LF em Hinm) as [(Hs & _)|[(Hs & E1 & _ & Hnone)|[([Hs|Hs] & _)|(Hs & _)]]];
        unfold PF.is_st in Hs; rewrite Hs in Hd; try (vm_compute in Hd; discriminate Hd).
      rewrite <- Hdst, <- E1. exact Hnone.
  Qed.

  (** ** the parser (an input): entries carry the path name they were read under; an absent body has no rules *)
  Variable parse : N -> string -> list entry.
  Hypothesis parse_path : forall id q a, In a (parse id q) -> e_path a = q.
  Hypothesis parse_none : forall q, parse 0%N q = [].

  Notation cin := (change_in_of body_lines parse).
  Definition history_changes : list change_in := map (fun ch => cin (fin ch)) changes.

  (** the versions compared for one record *)
  Lemma compared_versions p k ch : p <> "" ->
    PC.nth_by_path changes p k = Some ch ->
    let ci := cin (fin ch) in
    (GC.ch_before ch <> "" -> ci_before ci = parse (enc (snap 0 (GC.ch_before ch))) (GC.ch_before ch)) /\
    (GC.ch_before ch = "" -> ci_before ci = parse 0%N "") /\
    (GC.ch_status ch <> GC.st "D" -> ci_after ci = parse (enc (snap n p)) p) /\
    (GC.ch_status ch = GC.st "D" -> ci_after ci = parse 0%N p).
  Proof.
    intros Hp Hget.
    pose proof (bodies_fork_and_head p k ch Hp Hget) as H. cbv zeta in H. destruct H as (Hb & Ha & Hd).
    pose proof (PC.nth_by_path_after _ _ _ _ Hget) as Hafter.
    cbv zeta. unfold change_in_of. cbn [ci_before ci_after].
    assert (Ec : GC.f_change (fin ch) = ch) by reflexivity.
    rewrite Ec, Hafter. split; [|split; [|split]].
    - intro Hne. rewrite (proj1 (Hb Hne)). reflexivity.
    - intro He. unfold GC.finalise. cbn [GC.f_body_before]. rewrite He. reflexivity.
    - intro Hs. rewrite (proj2 (Ha Hs)). reflexivity.
    - intro Hs. rewrite (proj1 (Hd Hs)). reflexivity.
  Qed.

  (** "rule [a] of the HEAD version is untouched relative to the base version" on plain lists *)
  Definition untouched_lists (before after : list entry) (a : entry) : Prop :=
    e_name a <> "" /\
    (count_id a after <= count_id a before)%nat /\
    (forall b, In b before -> is_identical a b = true ->
       e_path b = e_path a /\ Permutation (e_disabled b) (e_disabled a)).

  (** the base version of the file now at [p]: the fork-point content of its origin, nothing if it was created on the branch *)
  Definition base_rules (ch : GC.change) : list entry :=
    if String.eqb (GC.ch_before ch) "" then [] else parse (enc (snap 0 (GC.ch_before ch))) (GC.ch_before ch).

  (** ** untouched => Noop, for any faithful history *)
  Theorem history_untouched_noop (glob : list entry) (i : nat) (g : entry) :
    nth_error glob i = Some g -> e_state g = Noop -> e_path g <> "" ->
    (forall ch, GC.get_change_by_path changes (e_path g) = Some ch -> GC.ch_status ch <> GC.st "D" ->
       forall a, In a (parse (enc (snap n (e_path g))) (e_path g)) -> is_same a g = true ->
         untouched_lists (base_rules ch) (parse (enc (snap n (e_path g))) (e_path g)) a) ->
    exists g', nth_error (find glob history_changes) i = Some g' /\ strip g' = strip g /\ e_state g' = Noop.
  Proof.
    intros Hn Hs Hp Hun. apply untouched_final_noop; auto.
    intros c a Hc Ha Hpath Hsame.
    unfold history_changes in Hc. apply in_map_iff in Hc. destruct Hc as (ch & <- & Hch).
    assert (Ea : ci_after (cin (fin ch)) = parse (GC.f_body_after (fin ch)) (GC.ch_after ch)) by reflexivity.
    rewrite Ea in Ha. pose proof (parse_path _ _ _ Ha) as Hq.
    assert (Hafter : GC.ch_after ch = e_path g) by congruence.
    destruct (PC.member_is_observed _ _ Hch) as [k Hk]. rewrite Hafter in Hk.
    pose proof (compared_versions (e_path g) k ch Hp Hk) as Hcv. cbv zeta in Hcv.
    destruct Hcv as (Hb1 & Hb2 & Ha1 & Ha2).
    pose proof (bodies_fork_and_head (e_path g) k ch Hp Hk) as Hbo. cbv zeta in Hbo. destruct Hbo as (_ & Hnd & _).
    destruct (Ascii.ascii_dec (GC.ch_status ch) (GC.st "D")) as [HD|HD].
    - (* a deletion has no HEAD rules *)
      exfalso. rewrite Ea, Hafter in Ha2. rewrite Hafter in Ha. rewrite (Ha2 HD), parse_none in Ha. destruct Ha.
    - destruct (Hnd HD) as [Hk0 _]. subst k.
      assert (Hget : GC.get_change_by_path changes (e_path g) = Some ch) by (rewrite PC.get_is_nth0; exact Hk).
      rewrite Ea, Hafter in Ha1. rewrite Hafter in Ha. rewrite (Ha1 HD) in Ha.
      destruct (Hun ch Hget HD a Ha Hsame) as (U1 & U2 & U3).
      unfold untouched_in. rewrite Ea, Hafter, (Ha1 HD).
      assert (Eb : ci_before (cin (fin ch)) = base_rules ch).
      { unfold base_rules. destruct (String.eqb (GC.ch_before ch) "") eqn:E.
        - apply String.eqb_eq in E. rewrite (Hb2 E). apply parse_none.
        - apply String.eqb_neq in E. apply (Hb1 E). }
      rewrite Eb. auto.
  Qed.

  (** which record a HEAD entry at path p can come from: the most recent record for p, and it is not a deletion *)
  Lemma head_entry_record ch a p : p <> "" ->
    In ch changes -> In a (ci_after (cin (fin ch))) -> e_path a = p ->
    GC.get_change_by_path changes p = Some ch /\ GC.ch_status ch <> GC.st "D" /\
    ci_after (cin (fin ch)) = parse (enc (snap n p)) p /\ ci_before (cin (fin ch)) = base_rules ch.
  Proof.
    intros Hp Hch Ha Hpath.
    assert (Ea : ci_after (cin (fin ch)) = parse (GC.f_body_after (fin ch)) (GC.ch_after ch)) by reflexivity.
    rewrite Ea in Ha. pose proof (parse_path _ _ _ Ha) as Hq.
    assert (Hafter : GC.ch_after ch = p) by congruence.
    destruct (PC.member_is_observed _ _ Hch) as [k Hk]. rewrite Hafter in Hk.
    pose proof (compared_versions p k ch Hp Hk) as Hcv. cbv zeta in Hcv. destruct Hcv as (Hb1 & Hb2 & Ha1 & Ha2).
    pose proof (bodies_fork_and_head p k ch Hp Hk) as Hbo. cbv zeta in Hbo. destruct Hbo as (_ & Hnd & _).
    destruct (Ascii.ascii_dec (GC.ch_status ch) (GC.st "D")) as [HD|HD].
    - exfalso. rewrite Ea, Hafter in Ha2. rewrite Hafter in Ha. rewrite (Ha2 HD), parse_none in Ha. destruct Ha.
    - destruct (Hnd HD) as [Hk0 _]. subst k. split; [rewrite PC.get_is_nth0; exact Hk|]. split; auto. split; [apply Ha1; exact HD|].
      unfold base_rules. destruct (String.eqb (GC.ch_before ch) "") eqn:E.
      + apply String.eqb_eq in E. rewrite (Hb2 E). apply parse_none.
      + apply String.eqb_neq in E. apply (Hb1 E).
  Qed.

  (** ** changed => never skipped, for any faithful history *)
  Theorem history_changed_not_noop (glob : list entry) (i : nat) (g : entry) (ch : GC.change) :
    nth_error glob i = Some g -> first_at glob i g -> e_path g <> "" ->
    GC.get_change_by_path changes (e_path g) = Some ch -> GC.ch_status ch <> GC.st "D" ->
    (exists a, In a (parse (enc (snap n (e_path g))) (e_path g)) /\ is_same a g = true) ->
    (forall a, In a (parse (enc (snap n (e_path g))) (e_path g)) -> is_same a g = true ->
       forall b, In b (base_rules ch) -> is_identical a b = false) ->
    exists g', nth_error (find glob history_changes) i = Some g' /\ strip g' = strip g /\
               (e_state g' = Added \/ e_state g' = Modified \/ e_state g' = Moved).
  Proof.
    intros Hn Hf Hp Hget HD (a0 & Ha0 & Hs0) Hdiff.
    assert (Hch : In ch changes).
    { rewrite PC.get_is_nth0 in Hget. unfold PC.nth_by_path in Hget. apply nth_error_In in Hget.
      apply filter_In in Hget. destruct Hget as [Hin _]. apply in_rev. exact Hin. }
    assert (Hk : PC.nth_by_path changes (e_path g) 0 = Some ch) by (rewrite <- PC.get_is_nth0; exact Hget).
    pose proof (compared_versions (e_path g) 0 ch Hp Hk) as Hcv. cbv zeta in Hcv. destruct Hcv as (_ & _ & Ha1 & _).
    apply changed_final_not_noop; auto.
    - exists (cin (fin ch)), a0. split; [unfold history_changes; apply (in_map (fun c => cin (fin c))); exact Hch|].
      split; [rewrite (Ha1 HD); exact Ha0|]. split; auto. apply (parse_path _ _ _ Ha0).
    - intros c a Hc Ha Hpath Hsame b Hb.
      unfold history_changes in Hc. apply in_map_iff in Hc. destruct Hc as (ch' & <- & Hch').
      destruct (head_entry_record ch' a (e_path g) Hp Hch' Ha Hpath) as (Hget' & _ & Eaft & Ebef).
      assert (ch' = ch) by congruence. subst ch'.
      rewrite Eaft in Ha. rewrite Ebef in Hb. apply (Hdiff a Ha Hsame b Hb).
  Qed.
End History.
