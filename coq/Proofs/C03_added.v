(** match_sound (iii), second half: a HEAD rule that stays unpaired (Added) never has exactly one unpaired base rule of
    its kind and name.  Invariant of the second pass: the number of base rules of a given (name, kind) only changes when
    it is exactly one. *)
From Coq Require Import List String ZArith NArith Bool Lia Permutation.
From PintV Require Import Common.Bytes Model.GitBranch Proofs.C03_match.
Import ListNotations.
Open Scope string_scope.
Open Scope list_scope.

Definition cnt (n : string) (k : kind) (l : list entry) : nat := List.length (filter (by_name n k) l).

Definition unpaired_befores (ml : list matched) : list entry :=
  flat_map (fun m => match m with OnlyBefore b => [b] | _ => [] end) ml.

Lemma by_name_key n1 k1 n2 k2 e : by_name n1 k1 e = true -> by_name n2 k2 e = true -> n1 = n2 /\ k1 = k2.
Proof.
  unfold by_name. rewrite !andb_true_iff, !String.eqb_eq, !kind_eqb_eq. intros [[_ H1] H2] [[_ H3] H4]. split; congruence.
Qed.

Lemma cnt_perm n k l1 l2 : Permutation l1 l2 -> cnt n k l1 = cnt n k l2.
Proof.
  unfold cnt. induction 1; simpl; auto.
  - destruct (by_name n k x); simpl; congruence.
  - destruct (by_name n k x), (by_name n k y); simpl; reflexivity.
  - congruence.
Qed.

Lemma cnt_filter_other n k n2 k2 l :
  (n, k) <> (n2, k2) -> cnt n k (filter (fun e => negb (by_name n2 k2 e)) l) = cnt n k l.
Proof.
  intro Hne. unfold cnt. induction l as [|x r IH]; simpl; auto.
  destruct (by_name n2 k2 x) eqn:E2; simpl.
  - destruct (by_name n k x) eqn:E1; simpl; auto.
    destruct (by_name_key _ _ _ _ _ E1 E2). subst. contradiction.
  - destruct (by_name n k x); simpl; congruence.
Qed.

Lemma cnt_filter_same n k l : cnt n k (filter (fun e => negb (by_name n k e)) l) = 0%nat.
Proof.
  unfold cnt. induction l as [|x r IH]; simpl; auto.
  destruct (by_name n k x) eqn:E; simpl; auto. rewrite E. exact IH.
Qed.

Lemma key_dec (n n2 : string) (k k2 : kind) : {(n, k) = (n2, k2)} + {(n, k) <> (n2, k2)}.
Proof.
  destruct (String.string_dec n n2) as [->|Hn]; [|right; congruence].
  destruct k, k2; try (left; reflexivity); right; congruence.
Qed.

(** the second pass changes the number of base rules of a (name, kind) only when that number is exactly one *)
Lemma pass2_cnt_stable : forall ml before ml' bf,
  pass2 ml before = (ml', bf) ->
  forall n k, cnt n k before <> 1%nat -> cnt n k bf = cnt n k before.
Proof.
  induction ml as [|m r IH]; intros before ml' bf H n k Hne; simpl in H.
  - inversion H; subst. reflexivity.
  - destruct m as [a|b a i mv|b].
    + unfold find_rules_by_name in H.
      pose proof (filter_partition_perm (by_name (e_name a) (e_kind a)) before) as Hpart.
      remember (filter (fun e => negb (by_name (e_name a) (e_kind a) e)) before) as nomatch.
      remember (filter (by_name (e_name a) (e_kind a)) before) as matches.
      assert (Hm : List.length matches = cnt (e_name a) (e_kind a) before) by (subst; reflexivity).
      assert (Hnomatch : (n, k) <> (e_name a, e_kind a) -> cnt n k nomatch = cnt n k before)
        by (intro; subst nomatch; apply cnt_filter_other; auto).
      destruct (key_dec n (e_name a) k (e_kind a)) as [Ek|Ek].
      * inversion Ek; subst n k.
        destruct matches as [|b1 [|b2 rest]].
        -- destruct (pass2 r nomatch) as [ml2 bf2] eqn:P. inversion H; subst ml' bf.
           rewrite (IH _ _ _ P (e_name a) (e_kind a)).
           ++ rewrite Heqnomatch, cnt_filter_same. simpl in Hm. lia.
           ++ rewrite Heqnomatch, cnt_filter_same. lia.
        -- simpl in Hm. exfalso. apply Hne. auto.
        -- destruct (pass2 r (nomatch ++ b1 :: b2 :: rest)) as [ml2 bf2] eqn:P. inversion H; subst ml' bf.
           rewrite (IH _ _ _ P (e_name a) (e_kind a)).
           ++ apply cnt_perm. exact Hpart.
           ++ rewrite (cnt_perm _ _ _ _ Hpart). exact Hne.
      * specialize (Hnomatch Ek).
        destruct matches as [|b1 [|b2 rest]].
        -- destruct (pass2 r nomatch) as [ml2 bf2] eqn:P. inversion H; subst ml' bf.
           rewrite (IH _ _ _ P n k); congruence.
        -- destruct (pass2 r nomatch) as [ml2 bf2] eqn:P. inversion H; subst ml' bf.
           rewrite (IH _ _ _ P n k); congruence.
        -- destruct (pass2 r (nomatch ++ b1 :: b2 :: rest)) as [ml2 bf2] eqn:P. inversion H; subst ml' bf.
           rewrite (IH _ _ _ P n k).
           ++ apply cnt_perm. exact Hpart.
           ++ rewrite (cnt_perm _ _ _ _ Hpart). exact Hne.
    + destruct (pass2 r before) as [ml2 bf2] eqn:P. inversion H; subst. eapply IH; eauto.
    + destruct (pass2 r before) as [ml2 bf2] eqn:P. inversion H; subst. eapply IH; eauto.
Qed.

Lemma pass2_only_after_cnt : forall ml before ml' bf,
  pass2 ml before = (ml', bf) ->
  forall a, In (OnlyAfter a) ml' -> cnt (e_name a) (e_kind a) bf <> 1%nat.
Proof.
  induction ml as [|m r IH]; intros before ml' bf H a Ha; simpl in H.
  - inversion H; subst. destruct Ha.
  - destruct m as [a0|b0 a0 i mv|b0].
    + unfold find_rules_by_name in H.
      pose proof (filter_partition_perm (by_name (e_name a0) (e_kind a0)) before) as Hpart.
      remember (filter (fun e => negb (by_name (e_name a0) (e_kind a0) e)) before) as nomatch.
      remember (filter (by_name (e_name a0) (e_kind a0)) before) as matches.
      destruct matches as [|b1 [|b2 rest]].
      * destruct (pass2 r nomatch) as [ml2 bf2] eqn:P. inversion H; subst ml' bf.
        destruct Ha as [E|Ha]; [|eapply IH; eauto].
        inversion E; subst a0.
        assert (Hz : cnt (e_name a) (e_kind a) nomatch = 0%nat) by (subst nomatch; apply cnt_filter_same).
        rewrite (pass2_cnt_stable _ _ _ _ P (e_name a) (e_kind a)); lia.
      * destruct (pass2 r nomatch) as [ml2 bf2] eqn:P. inversion H; subst ml' bf.
        destruct Ha as [E|Ha]; [discriminate | eapply IH; eauto].
      * destruct (pass2 r (nomatch ++ b1 :: b2 :: rest)) as [ml2 bf2] eqn:P. inversion H; subst ml' bf.
        destruct Ha as [E|Ha]; [|eapply IH; eauto].
        inversion E; subst a0.
        assert (Hc : cnt (e_name a) (e_kind a) (nomatch ++ b1 :: b2 :: rest) = S (S (List.length rest))).
        { rewrite (cnt_perm _ _ _ _ Hpart). unfold cnt. rewrite <- Heqmatches. reflexivity. }
        rewrite (pass2_cnt_stable _ _ _ _ P (e_name a) (e_kind a)); lia.
    + destruct (pass2 r before) as [ml2 bf2] eqn:P. inversion H; subst.
      destruct Ha as [E|Ha]; [discriminate | eapply IH; eauto].
    + destruct (pass2 r before) as [ml2 bf2] eqn:P. inversion H; subst.
      destruct Ha as [E|Ha]; [discriminate | eapply IH; eauto].
Qed.

Lemma unpaired_befores_app l1 l2 : unpaired_befores (l1 ++ l2) = unpaired_befores l1 ++ unpaired_befores l2.
Proof. unfold unpaired_befores. apply flat_map_app. Qed.

Lemma unpaired_befores_none ml : no_only_before ml -> unpaired_befores ml = [].
Proof.
  induction ml as [|m r IH]; intro Hno; simpl; auto.
  assert (Hm := Hno m (or_introl eq_refl)). destruct m; try contradiction; simpl; apply IH; intros x Hx; apply Hno; right; auto.
Qed.

Lemma unpaired_befores_map bs : unpaired_befores (map OnlyBefore bs) = bs.
Proof. induction bs; simpl; congruence. Qed.

Theorem added_name_count before after a :
  In (OnlyAfter a) (match_entries before after) ->
  cnt (e_name a) (e_kind a) (unpaired_befores (match_entries before after)) <> 1%nat.
Proof.
  destruct (match_entries_unfold before after) as (ml1 & b1 & ml2 & b2 & P1 & P2 & ->).
  destruct (pass1_spec _ _ _ _ P1) as (_ & _ & Hn1 & _).
  destruct (pass2_spec _ _ _ _ Hn1 P2) as (_ & _ & Hn2 & _).
  intro Ha. rewrite unpaired_befores_app, (unpaired_befores_none _ Hn2), unpaired_befores_map. simpl.
  apply in_app_or in Ha. destruct Ha as [Ha|Ha]; [|apply in_map_iff in Ha; destruct Ha as [x [E _]]; discriminate].
  eapply pass2_only_after_cnt; eauto.
Qed.
