(** C13 — MergeRanges at index level: definitions mirroring Model/Range.v on index intervals, and the
    specification of the fixpoint: on a staircase it terminates within [length + 1] fuel, preserves the
    covered grid points, and ends with pairwise non-touching intervals. *)
From Coq Require Import List ZArith NArith Bool Lia Arith.
From PintV Require Import Common.GoTime Model.Range Proofs.C13_overlaps Proofs.C13_stair.
Import ListNotations.
Open Scope Z_scope.

Fixpoint iabsorb (src : ival) (l : list ival) : list ival * bool :=
  match l with
  | [] => ([], false)
  | m :: r =>
      let '(r', f) := iabsorb src r in
      match iov m src with
      | Some h => (h :: r', true)
      | None => (m :: r', f)
      end
  end.

Definition istep (st : list ival * bool) (src : ival) : list ival * bool :=
  let '(M, had) := st in
  let '(M', f) := iabsorb src M in
  ((if f then M' else M ++ [src]), had || f).

Definition ipass (source : list ival) : list ival * bool := fold_left istep source ([], false).

Fixpoint iinsert (x : ival) (l : list ival) : list ival :=
  match l with
  | [] => [x]
  | y :: r => if fst y <? fst x then y :: iinsert x r else x :: y :: r
  end.

Fixpoint isort (l : list ival) : list ival :=
  match l with
  | [] => []
  | x :: r => iinsert x (isort r)
  end.

Fixpoint iloop (rec : list ival -> option (list ival * bool)) (n : nat) (l : list ival) : option (list ival) :=
  match n with
  | O => None
  | S n' => match rec l with
            | None => None
            | Some (l', true) => iloop rec n' l'
            | Some (l', false) => Some l'
            end
  end.

Fixpoint imerge (fuel : nat) (source : list ival) : option (list ival * bool) :=
  match fuel with
  | O => None
  | S f =>
      let '(M, had) := ipass source in
      if negb had then Some (source, false)
      else match iloop (imerge f) (S (length M)) M with
           | None => None
           | Some l => Some (isort l, true)
           end
  end.

(** --- invariants ---------------------------------------------------------------------------- *)

Definition Inv (l : list ival) : Prop := stair l /\ T l /\ valid l.
Definition nontouch (a b : ival) : Prop := touch a b = false.

Lemma nontouch_sym a b : nontouch a b -> nontouch b a.
Proof. unfold nontouch, touch. rewrite andb_comm. tauto. Qed.

Definition gtouch (src m : ival) : ival := if touch m src then hull m src else m.

Lemma iabsorb_spec src M : (forall m, In m M -> hole m src = false) ->
  iabsorb src M = (map (gtouch src) M, existsb (fun m => touch m src) M).
Proof.
  induction M as [|m r IH]; intros Hh; [reflexivity|]. cbn [iabsorb map existsb].
  rewrite IH by (intros x Hx; apply Hh; right; exact Hx).
  unfold iov, gtouch. rewrite (Hh m (or_introl eq_refl)). destruct (touch m src); reflexivity.
Qed.

Definition ieqb (x y : ival) : bool := (fst x =? fst y) && (snd x =? snd y).
Definition mem (x : ival) (l : list ival) : bool := existsb (ieqb x) l.

Lemma ieqb_eq x y : ieqb x y = true <-> x = y.
Proof.
  unfold ieqb. destruct x, y. cbn [fst snd]. rewrite andb_true_iff, !Z.eqb_eq. split; [intros [? ?]; subst; reflexivity|intros E; inversion E; tauto].
Qed.

Lemma mem_In x l : mem x l = true <-> In x l.
Proof.
  unfold mem. rewrite existsb_exists. split.
  - intros [y [Hy E]]. apply ieqb_eq in E. subst. exact Hy.
  - intros H. exists x. split; [exact H|apply ieqb_eq; reflexivity].
Qed.

Lemma Inv_mid M src tail : Inv (M ++ src :: tail) <-> Inv (src :: M ++ tail).
Proof.
  unfold Inv, stair. rewrite (FOP_mid ord M src tail ord_sym).
  assert (forall x, In x (M ++ src :: tail) <-> In x (src :: M ++ tail)) as Hin.
  { intros x. rewrite in_app_iff. cbn [In]. rewrite in_app_iff. tauto. }
  split; intros [H1 [H2 H3]]; (split; [exact H1|split]).
  - apply (T_incl (M ++ src :: tail)); [intros x Hx; apply Hin; exact Hx|exact H2].
  - intros x Hx. apply H3. apply Hin. exact Hx.
  - apply (T_incl (src :: M ++ tail)); [intros x Hx; apply Hin; exact Hx|exact H2].
  - intros x Hx. apply H3. apply Hin. exact Hx.
Qed.

Lemma stair_distinct M tail : stair (M ++ tail) -> forall t, In t tail -> mem t M = false.
Proof.
  intros Hs t Ht. apply FOP_app in Hs. destruct Hs as [_ [_ H]].
  destruct (mem t M) eqn:E; [|reflexivity]. apply mem_In in E. exfalso.
  destruct (H t t E Ht) as [L|L]; unfold lt2 in L; lia.
Qed.

(** one step of the pass *)
Lemma istep_inv M src tail had M' had' :
  Inv (M ++ src :: tail) -> istep (M, had) src = (M', had') ->
  Inv (M' ++ tail) /\ (forall k, cov (M' ++ tail) k <-> cov (M ++ src :: tail) k) /\
  ((had' = had /\ M' = M ++ [src] /\ forall m, In m M -> touch m src = false) \/
   (had' = true /\ length M' = length M)).
Proof.
  intros HI Hst. pose proof HI as HI0. apply Inv_mid in HI. destruct HI as [Hs [HT Hv]].
  assert (forall m, In m M -> hole m src = false) as Hnh.
  { intros m Hm. apply (stair_no_hole (src :: M ++ tail) m src Hs); [right; apply in_or_app; left; exact Hm|left; reflexivity|].
    intro E. subst m. inversion Hs as [|? ? Hf _]; subst. rewrite Forall_forall in Hf.
    destruct (Hf src (in_or_app _ _ _ (or_introl Hm))) as [L|L]; unfold lt2 in L; lia. }
  unfold istep in Hst. rewrite (iabsorb_spec src M Hnh) in Hst.
  destruct (existsb (fun m => touch m src) M) eqn:Ef; inversion Hst; subst M' had'; clear Hst.
  - (* absorbed *)
    set (A := fun x => touch x src && mem x M).
    assert (map (gtouch src) M ++ tail = map (G src A) (M ++ tail)) as Emap.
    { rewrite map_app. f_equal.
      - apply map_ext_in. intros m Hm. unfold G, A, gtouch. rewrite (proj2 (mem_In m M) Hm), andb_true_r. reflexivity.
      - rewrite <- (map_id tail) at 1. apply map_ext_in. intros t Ht. unfold G, A.
        assert (stair (M ++ tail)) as Hs' by (inversion Hs; assumption).
        rewrite (stair_distinct M tail Hs' t Ht), andb_false_r. reflexivity. }
    assert (forall x, In x (M ++ tail) -> A x = true -> touch x src = true) as HA.
    { intros x _ Hx. unfold A in Hx. apply andb_true_iff in Hx. tauto. }
    rewrite Emap. split; [|split].
    + split; [apply (step_stair src A (M ++ tail) Hs HT HA)|split;
        [apply (step_T src A (M ++ tail) Hs HT HA)|apply (step_valid src A (M ++ tail) Hv)]].
    + intros k. rewrite (step_cov src A (M ++ tail) HA Hv).
      * unfold cov. split; intros [x [Hx Hk]]; exists x; (split; [|exact Hk]);
          rewrite in_app_iff in *; cbn [In] in *; rewrite in_app_iff in *; tauto.
      * apply existsb_exists in Ef. destruct Ef as [m [Hm Htm]]. exists m. split; [apply in_or_app; left; exact Hm|].
        unfold A. rewrite Htm, (proj2 (mem_In m M) Hm). reflexivity.
    + right. split; [apply orb_true_r|apply map_length].
  - rewrite <- app_assoc. cbn [app]. split; [exact HI0|]. split; [tauto|].
    left. split; [apply orb_false_r|]. split; [reflexivity|].
    intros m Hm. destruct (touch m src) eqn:E; [|reflexivity].
    assert (existsb (fun m => touch m src) M = true) as C by (apply existsb_exists; exists m; tauto). congruence.
Qed.

(** every element of [rest] fails to touch everything before it *)
Fixpoint sep (M rest : list ival) : Prop :=
  match rest with
  | [] => True
  | s :: r => (forall m, In m M -> touch m s = false) /\ sep (M ++ [s]) r
  end.

Lemma sep_FOP M rest : ForallOrdPairs nontouch M -> sep M rest -> ForallOrdPairs nontouch (M ++ rest).
Proof.
  revert M. induction rest as [|s r IH]; intros M HM Hsep; [rewrite app_nil_r; exact HM|].
  destruct Hsep as [H1 H2]. replace (M ++ s :: r) with ((M ++ [s]) ++ r) by (rewrite <- app_assoc; reflexivity).
  apply IH; [|exact H2]. apply FOP_app. split; [exact HM|]. split; [constructor; constructor|].
  intros x y Hx [Hy|[]]. subst y. apply H1. exact Hx.
Qed.

Lemma ipass_fold rest : forall M had M' had',
  Inv (M ++ rest) -> fold_left istep rest (M, had) = (M', had') ->
  Inv M' /\ (forall k, cov M' k <-> cov (M ++ rest) k) /\
  (length M' <= length M + length rest)%nat /\
  (had' = true -> had = true \/ (length M' < length M + length rest)%nat) /\
  (had' = false -> had = false /\ M' = M ++ rest /\ sep M rest).
Proof.
  induction rest as [|src tail IH]; intros M had M' had' HI Hf.
  - cbn [fold_left] in Hf. inversion Hf; subst. rewrite app_nil_r in *. split; [exact HI|]. split; [tauto|].
    cbn [length]. split; [lia|]. split; [tauto|]. intros ->. cbn [sep]. tauto.
  - cbn [fold_left] in Hf. destruct (istep (M, had) src) as [M1 had1] eqn:Est.
    destruct (istep_inv M src tail had M1 had1 HI Est) as [HI1 [Hc1 Hcase]].
    destruct (IH M1 had1 M' had' HI1 Hf) as [HI' [Hc' [Hl' [Ht' Hf']]]].
    split; [exact HI'|]. split; [intros k; rewrite Hc'; apply Hc1|].
    cbn [length]. destruct Hcase as [[Eh [EM Hnt]]|[Eh EL]].
    + subst had1 M1. rewrite app_length in *. cbn [length] in *. split; [lia|]. split.
      * intros H. destruct (Ht' H) as [?|?]; [left; assumption|right; lia].
      * intros H. destruct (Hf' H) as [? [? Hs]]. split; [assumption|]. split; [rewrite <- app_assoc in *; assumption|].
        cbn [sep]. split; assumption.
    + subst had1. split; [lia|]. split.
      * intros _. right. lia.
      * intros H. destruct (Hf' H) as [C _]. discriminate.
Qed.

Lemma ipass_spec L M had : Inv L -> ipass L = (M, had) ->
  Inv M /\ (forall k, cov M k <-> cov L k) /\ (length M <= length L)%nat /\
  (had = true -> (length M < length L)%nat) /\
  (had = false -> M = L /\ ForallOrdPairs nontouch L).
Proof.
  intros HI Hp. unfold ipass in Hp.
  destruct (ipass_fold L [] false M had HI Hp) as [H1 [H2 [H3 [H4 H5]]]]. cbn [app length plus] in *.
  split; [exact H1|]. split; [exact H2|]. split; [exact H3|]. split.
  - intros E. destruct (H4 E) as [C|C]; [discriminate|exact C].
  - intros E. destruct (H5 E) as [_ [EM Hs]]. split; [exact EM|]. apply (sep_FOP [] L); [constructor|exact Hs].
Qed.

(** --- sorting preserves everything ----------------------------------------------------------- *)

Lemma iinsert_split x l : exists l1 l2, l = l1 ++ l2 /\ iinsert x l = l1 ++ x :: l2.
Proof.
  induction l as [|y r IH]; [exists [], []; split; reflexivity|]. cbn [iinsert].
  destruct (fst y <? fst x).
  - destruct IH as [l1 [l2 [E1 E2]]]. exists (y :: l1), l2. cbn [app]. rewrite <- E1, E2. split; reflexivity.
  - exists [], (y :: r). split; reflexivity.
Qed.

Lemma isort_In x l : In x (isort l) <-> In x l.
Proof.
  induction l as [|y r IH]; [tauto|]. cbn [isort]. destruct (iinsert_split y (isort r)) as [l1 [l2 [E1 E2]]].
  rewrite E2. rewrite in_app_iff. cbn [In]. rewrite <- IH, E1, in_app_iff. tauto.
Qed.

Lemma isort_FOP (P : ival -> ival -> Prop) l : (forall a b, P a b -> P b a) ->
  ForallOrdPairs P l -> ForallOrdPairs P (isort l).
Proof.
  intros Hsym. induction l as [|y r IH]; intros H; [constructor|]. cbn [isort].
  inversion H as [|? ? Hf Hr]; subst. specialize (IH Hr).
  destruct (iinsert_split y (isort r)) as [l1 [l2 [E1 E2]]]. rewrite E2.
  apply (FOP_mid P l1 y l2 Hsym). rewrite <- E1. constructor; [|exact IH].
  rewrite Forall_forall in *. intros z Hz. apply Hf. apply isort_In. exact Hz.
Qed.

Lemma isort_length l : length (isort l) = length l.
Proof.
  induction l as [|y r IH]; [reflexivity|]. cbn [isort length].
  destruct (iinsert_split y (isort r)) as [l1 [l2 [E1 E2]]]. rewrite E2, <- IH, E1, !app_length. cbn [length]. lia.
Qed.

Lemma isort_Inv l : Inv l -> Inv (isort l).
Proof.
  intros [H1 [H2 H3]]. split; [apply isort_FOP; [apply ord_sym|exact H1]|]. split.
  - apply (T_incl l); [intros x Hx; apply isort_In; exact Hx|exact H2].
  - intros x Hx. apply H3. apply isort_In. exact Hx.
Qed.

Lemma isort_cov l k : cov (isort l) k <-> cov l k.
Proof. unfold cov. split; intros [x [Hx Hk]]; exists x; (split; [apply isort_In; exact Hx|exact Hk]). Qed.

(** --- the fixpoint --------------------------------------------------------------------------- *)

Definition spec (L R : list ival) (b : bool) : Prop :=
  Inv R /\ (forall k, cov R k <-> cov L k) /\ ForallOrdPairs nontouch R /\
  (b = false -> R = L) /\ (b = true -> (length R < length L)%nat).

Lemma imerge_spec : forall fuel L, (length L < fuel)%nat -> Inv L ->
  exists R b, imerge fuel L = Some (R, b) /\ spec L R b.
Proof.
  induction fuel as [|f IH]; intros L Hlen HI; [lia|]. cbn [imerge].
  destruct (ipass L) as [M had] eqn:Ep.
  destruct (ipass_spec L M had HI Ep) as [HIM [HcM [HlM [Hh1 Hh0]]]].
  destruct had; cbn [negb].
  - specialize (Hh1 eq_refl).
    assert (forall n l, (length l < n)%nat -> (length l < f)%nat -> Inv l ->
              exists l', iloop (imerge f) n l = Some l' /\ Inv l' /\ (forall k, cov l' k <-> cov l k) /\
                         ForallOrdPairs nontouch l' /\ (length l' <= length l)%nat) as Hloop.
    { induction n as [|n IHn]; intros l Hn Hf HIl; [lia|]. cbn [iloop].
      destruct (IH l Hf HIl) as [R [b [E [HIR [HcR [HnR [Hb0 Hb1]]]]]]]. rewrite E. destruct b.
      - specialize (Hb1 eq_refl). destruct (IHn R ltac:(lia) ltac:(lia) HIR) as [l' [E' [H1 [H2 [H3 H4]]]]].
        exists l'. split; [exact E'|]. split; [exact H1|]. split; [intros k; rewrite H2; apply HcR|]. split; [exact H3|lia].
      - exists R. rewrite (Hb0 eq_refl) in *. split; [reflexivity|]. split; [exact HIR|]. split; [tauto|]. split; [exact HnR|lia]. }
    destruct (Hloop (S (length M)) M ltac:(lia) ltac:(lia) HIM) as [l' [E' [H1 [H2 [H3 H4]]]]].
    rewrite E'. exists (isort l'), true. split; [reflexivity|]. split; [apply isort_Inv; exact H1|]. split.
    + intros k. rewrite isort_cov, H2. apply HcM.
    + split; [apply isort_FOP; [apply nontouch_sym|exact H3]|]. split; [discriminate|]. intros _. rewrite isort_length. lia.
  - destruct (Hh0 eq_refl) as [EM Hnt]. exists L, false. split; [reflexivity|]. split; [exact HI|]. split; [tauto|].
    split; [exact Hnt|]. split; [reflexivity|discriminate].
Qed.
