(** C02: every rule the parser model returns (either mode, every forest) is well-formed; routing of error entries. *)
From Coq Require Import List String Ascii Arith Bool Lia.
From PintV Require Import Common.Bytes Model.Yaml Model.Parser Model.Routing Proofs.C19_relaxed Proofs.C19_wrapper.
Import ListNotations.
Open Scope string_scope.
Open Scope list_scope.

Lemma first_some_none {A} (l : list (option A)) : first_some l = None -> forall x, In x l -> x = None.
Proof.
  induction l as [|o l IH]; intros H x Hx; [destruct Hx|].
  destruct o; [discriminate|]. destruct Hx as [<-|Hx]; [reflexivity|]. exact (IH H x Hx).
Qed.

Lemma first_some_In {A} (l : list (option A)) r : first_some l = Some r -> In (Some r) l.
Proof.
  induction l as [|o l IH]; intros H; [discriminate|]. destruct o; [inversion H; left; reflexivity|right; auto].
Qed.

Definition groups_wf (gs : list group) : Prop := forall g r, In g gs -> In r (g_rules g) -> wellformed r.

Lemma groups_wf_app a b : groups_wf a -> groups_wf b -> groups_wf (a ++ b).
Proof. intros Ha Hb g r Hg. apply in_app_or in Hg. destruct Hg; eauto. Qed.

Lemma groups_wf_nil : groups_wf [].
Proof. intros g r []. Qed.

Definition here_none {A} (o : option A) : Prop := o = None.

Section C02.
  Variable plines : list string -> node -> nat -> nat * nat.
  Variables metric_ok lname_ok lvalue_ok dur_ok : string -> bool.
  Variable int_ok : node -> bool.
  Variable null_ok : node -> bool.

  Notation PR := (parse_rule plines metric_ok lname_ok lvalue_ok).
  Notation PRS := (parse_rule_strict plines metric_ok lname_ok lvalue_ok).
  Notation PG := (parse_group plines metric_ok lname_ok lvalue_ok dur_ok int_ok).
  Notation PN := (parse_node plines metric_ok lname_ok lvalue_ok).
  Notation PNS := (parse_node_S plines metric_ok lname_ok lvalue_ok).

  Lemma err_rule_wf a b c d : wellformed (err_rule a b c d).
  Proof. exact I. Qed.

  Lemma mk_err_wf a b pe : wellformed (mk_err a b pe).
  Proof. exact I. Qed.

  Lemma has_value_true y : has_value y = true -> y_value y <> "".
  Proof. unfold has_value. intros H E. rewrite E in H. discriminate. Qed.

  Lemma ensure_required_none key kv ex y n :
    ensure_required_keys key kv ex = None -> kv = Some (n, y) ->
    y_value y <> "" /\ exists m e, ex = Some (m, e) /\ y_value e <> "".
  Proof.
    intros H ->. unfold ensure_required_keys in H.
    destruct (has_value y) eqn:Hy; cbn [negb] in H; [|discriminate].
    destruct ex as [[m e]|]; [|discriminate].
    destruct (has_value e) eqn:He; cbn [negb] in H; [|discriminate].
    split; [now apply has_value_true|]. exists m, e. split; [reflexivity|now apply has_value_true].
  Qed.

  (** parseRule: a non-empty result is an error rule or a complete alerting/recording rule. *)
  Lemma parse_rule_wf lines off n r : PR lines off n = (r, false) -> wellformed r.
  Proof.
    unfold parse_rule.
    destruct (rule_loop plines lines off (unpack_nodes n) None slots0) as [r0|s] eqn:L.
    - (* duplicated key *)
      intros H. inversion H; subst. clear H.
      assert (G : forall parts key s0 r1, rule_loop plines lines off parts key s0 = inl r1 -> wellformed r1).
      { induction parts as [|part rest IH]; intros key s0 r1 H; cbn [rule_loop] in H; [discriminate|].
        destruct key as [k|]; [|eapply IH; exact H].
        destruct (field_of (node_value k)); try (destruct (get_sc _ _); [inversion H; exact I|eapply IH; exact H]).
        - destruct (s_labels _); [inversion H; exact I|eapply IH; exact H].
        - destruct (s_ann _); [inversion H; exact I|eapply IH; exact H].
        - eapply IH; exact H. }
      exact (G _ _ _ _ L).
    - destruct (first_some (rule_checks metric_ok lname_ok lvalue_ok off n s)) as [[pe [f l]]|] eqn:FS.
      + intros H. inversion H. exact I.
      + pose proof (first_some_none _ FS) as Hall.
        assert (Hrec : here_none (ensure_required_keys "record" (s_record s) (s_expr s))).
        { unfold here_none.
          assert (X : option_map (fun pe => (pe, (s_first s, s_last s))) (ensure_required_keys "record" (s_record s) (s_expr s)) = None).
          { apply Hall. unfold rule_checks. cbn [In]. do 10 right. left. reflexivity. }
          destruct (ensure_required_keys "record" (s_record s) (s_expr s)); [discriminate X|reflexivity]. }
        assert (Hal : here_none (ensure_required_keys "alert" (s_alert s) (s_expr s))).
        { unfold here_none.
          assert (X : option_map (fun pe => (pe, (s_first s, s_last s))) (ensure_required_keys "alert" (s_alert s) (s_expr s)) = None).
          { apply Hall. unfold rule_checks. cbn [In]. do 11 right. left. reflexivity. }
          destruct (ensure_required_keys "alert" (s_alert s) (s_expr s)); [discriminate X|reflexivity]. }
        unfold here_none in *. unfold rule_final.
        destruct (s_record s) as [[rn ry]|] eqn:R.
        * destruct (ensure_required_none _ _ _ _ _ Hrec eq_refl) as (H1 & m & e & He & H2). rewrite He.
          intros H. inversion H; subst. cbn. split; assumption.
        * destruct (s_alert s) as [[an ay]|] eqn:A.
          -- destruct (ensure_required_none _ _ _ _ _ Hal eq_refl) as (H1 & m & e & He & H2). rewrite He.
             intros H. inversion H; subst. cbn. split; assumption.
          -- intros H. inversion H.
  Qed.

  Lemma parse_rule_strict_wf lines n : wellformed (PRS lines n).
  Proof.
    unfold parse_rule_strict.
    destruct (negb (is_tag (n_tag n) mapTag) || kind_mismatch n KMapping)%bool; [exact I|].
    destruct (bad_rule_key (unpack_nodes n)); [exact I|].
    destruct (PR lines 0 n) as [r e] eqn:E. destruct e; [exact I|]. exact (parse_rule_wf _ _ _ _ E).
  Qed.

  Definition rules_wf (g : group) : Prop := forall r, In r (g_rules g) -> wellformed r.

  Lemma group_entry_wf thanos lines g k v g1 :
    rules_wf g ->
    group_entry plines metric_ok lname_ok lvalue_ok dur_ok int_ok thanos lines g k v = inl g1 \/
    group_entry plines metric_ok lname_ok lvalue_ok dur_ok int_ok thanos lines g k v = inr g1 -> rules_wf g1.
  Proof.
    intros Hg H. unfold group_entry in H.
    repeat match type of H with
           | context [if ?b then _ else _] => destruct b
           | context [match ?b with Some _ => _ | None => _ end] => destruct b
           | context [let (_, _) := ?p in _] => destruct p
           end;
      destruct H as [H|H]; try discriminate; inversion H; subst; clear H; try exact Hg.
    intros r Hr. cbn [g_add_rules g_rules] in Hr. apply in_app_or in Hr. destruct Hr as [Hr|Hr]; [exact (Hg r Hr)|].
    apply in_map_iff in Hr. destruct Hr as (c & <- & _). apply parse_rule_strict_wf.
  Qed.

  Lemma group_loop_wf thanos lines im nl : forall l g sk,
    rules_wf g -> rules_wf (group_loop plines metric_ok lname_ok lvalue_ok dur_ok int_ok thanos lines im nl g sk l).
  Proof.
    induction l as [|[k v] r IH]; intros g sk Hg; cbn [group_loop].
    - destruct (_ && _)%bool; exact Hg.
    - destruct (group_entry plines metric_ok lname_ok lvalue_ok dur_ok int_ok thanos lines g k v) as [g1|g1] eqn:E.
      + exact (group_entry_wf _ _ _ _ _ _ Hg (or_introl E)).
      + pose proof (group_entry_wf _ _ _ _ _ _ Hg (or_intror E)) as H1.
        destruct (mem_str (node_value k) sk); [exact H1|]. apply IH. exact H1.
  Qed.

  Lemma parse_group_wf thanos lines n : rules_wf (PG thanos lines n).
  Proof.
    unfold parse_group. destruct (negb (is_tag (n_tag n) mapTag) || kind_mismatch n KMapping)%bool; [intros r []|].
    apply group_loop_wf. intros r [].
  Qed.

  Lemma groups_of_seq_wf thanos lines : forall items names acc names' acc',
    groups_wf acc ->
    groups_of_seq plines metric_ok lname_ok lvalue_ok dur_ok int_ok thanos lines items names acc = inr (names', acc') -> groups_wf acc'.
  Proof.
    induction items as [|c r IH]; intros names acc names' acc' Ha H; cbn [groups_of_seq] in H.
    - inversion H; subst. exact Ha.
    - destruct (mem_str _ names); [discriminate|]. eapply IH; [|exact H].
      apply groups_wf_app; [exact Ha|]. intros g r0 [<-|[]]. apply parse_group_wf.
  Qed.

  Lemma groups_of_entries_wf thanos lines : forall l hg names acc names' acc',
    groups_wf acc ->
    groups_of_entries plines metric_ok lname_ok lvalue_ok dur_ok int_ok thanos lines l hg names acc = inr (names', acc') -> groups_wf acc'.
  Proof.
    induction l as [|[k v] r IH]; intros hg names acc names' acc' Ha H; cbn [groups_of_entries] in H.
    - inversion H; subst. exact Ha.
    - repeat match type of H with context [if ?b then _ else _] => destruct b; try discriminate end.
      destruct (groups_of_seq _ _ _ _ _ _ _ _ _ _) as [e|[n1 a1]] eqn:E; [discriminate|].
      eapply IH; [|exact H]. eapply groups_of_seq_wf; [exact Ha|exact E].
  Qed.

  Lemma groups_of_roots_wf thanos lines : forall roots names acc names' acc',
    groups_wf acc ->
    groups_of_roots plines metric_ok lname_ok lvalue_ok dur_ok int_ok thanos lines roots names acc = inr (names', acc') -> groups_wf acc'.
  Proof.
    induction roots as [|n r IH]; intros names acc names' acc' Ha H; cbn [groups_of_roots] in H.
    - inversion H; subst. exact Ha.
    - destruct (negb _ || _)%bool; [discriminate|].
      destruct (groups_of_entries _ _ _ _ _ _ _ _ _ _ _) as [e|[n1 a1]] eqn:E; [discriminate|].
      eapply IH; [|exact H]. eapply groups_of_entries_wf; [exact Ha|exact E].
  Qed.

  Lemma parse_strict_loop_wf thanos lines yerr : forall ds idx groups err,
    groups_wf groups ->
    groups_wf (f_groups (parse_strict_loop plines metric_ok lname_ok lvalue_ok dur_ok int_ok null_ok thanos lines ds yerr idx groups err)).
  Proof.
    induction ds as [|[d nl] r IH]; intros idx groups err Hg; cbn [parse_strict_loop].
    - destruct yerr; exact Hg.
    - destruct (too_big d); [exact Hg|]. destruct (strict_prepass null_ok d); [exact Hg|]. unfold parse_groups.
      destruct (groups_of_roots _ _ _ _ _ _ _ _ _ _) as [e|[n1 a1]] eqn:E; [exact Hg|].
      apply IH. apply groups_wf_app; [exact Hg|]. eapply groups_of_roots_wf; [apply groups_wf_nil|exact E].
  Qed.

  (** Strict mode, every forest. *)
  Theorem strict_rules_wellformed thanos lines ds yerr :
    groups_wf (f_groups (parse_strict plines metric_ok lname_ok lvalue_ok dur_ok int_ok null_ok thanos lines ds yerr)).
  Proof. apply parse_strict_loop_wf, groups_wf_nil. Qed.

  (** Relaxed mode, every forest. *)
  Lemma try_parse_group_wf lines off c g kv :
    try_parse_group plines lines off c = Some (g, kv) -> rules_wf g.
  Proof.
    unfold try_parse_group.
    assert (G : forall l g0 ro, g_rules (fst (try_group_loop plines lines off l g0 ro)) = g_rules g0).
    { induction l as [|[k v] r IH]; intros g0 ro; cbn [try_group_loop fst]; [reflexivity|].
      repeat match goal with |- context [if ?b then _ else _] => destruct b end; rewrite IH; reflexivity. }
    specialize (G (mapping_nodes c) empty_group None).
    destruct (try_group_loop plines lines off (mapping_nodes c) empty_group None) as [g' [kv'|]]; [|discriminate].
    destruct (g_name g' =? ""); [discriminate|]. intros H. inversion H; subst.
    intros r Hr. cbn [fst] in G. rewrite G in Hr. destruct Hr.
  Qed.

  Lemma concat_opt_wf {B} (F : B -> option (list group)) : forall l gs,
    (forall c g, In c l -> F c = Some g -> groups_wf g) -> concat_opt (map F l) = Some gs -> groups_wf gs.
  Proof.
    induction l as [|c l IH]; intros gs H E; cbn [map concat_opt] in E.
    - inversion E. apply groups_wf_nil.
    - destruct (F c) as [x|] eqn:Fc; [|discriminate]. destruct (concat_opt (map F l)) as [y|] eqn:Fl; [|discriminate].
      inversion E; subst. apply groups_wf_app; [exact (H c x (or_introl eq_refl) Fc)|].
      apply (IH y); [|reflexivity]. intros c0 g0 Hc. apply H. right. exact Hc.
  Qed.

  Lemma parse_node_wf : forall fuel lines off n parent grp gs,
    (forall g, grp = Some g -> rules_wf g) ->
    PN fuel lines off n parent grp = Some gs -> groups_wf gs.
  Proof.
    induction fuel as [|fuel IH]; intros lines off n parent grp gs Hgrp H; [discriminate|].
    rewrite PNS in H. cbn zeta in H.
    assert (Hch : forall x, concat_opt (map (fun c => PN fuel lines off c (Some n) grp) (unpack_nodes n)) = Some x -> groups_wf x).
    { intros x. apply concat_opt_wf. intros c g _ Hc. exact (IH _ _ _ _ _ _ Hgrp Hc). }
    destruct (n_kind n); auto.
    - destruct (parent_is parent "groups").
      + revert H. apply concat_opt_wf. intros c g _ Hc.
        destruct (try_parse_group plines lines off c) as [[g0 [rk rv]]|] eqn:T.
        * eapply IH; [|exact Hc]. intros g1 E. inversion E; subst. exact (try_parse_group_wf _ _ _ _ _ T).
        * inversion Hc. apply groups_wf_nil.
      + fold (seq_step plines metric_ok lname_ok lvalue_ok fuel lines off n) in H. fold sel_rules in H. fold sel_nested in H.
        assert (Hr : forall l r, In r (flat_map sel_rules (map (seq_step plines metric_ok lname_ok lvalue_ok fuel lines off n) l)) -> wellformed r).
        { induction l as [|c l IHl]; intros r Hr; [destruct Hr|].
          cbn [map flat_map] in Hr. apply in_app_or in Hr. destruct Hr as [Hr|Hr]; [|exact (IHl r Hr)].
          rewrite seq_step_eq in Hr. destruct (PR lines off c) as [rr e] eqn:E. destruct e; [destruct Hr|].
          destruct Hr as [<-|[]]. exact (parse_rule_wf _ _ _ _ E). }
        assert (Hn : forall l x, concat_opt (flat_map sel_nested (map (seq_step plines metric_ok lname_ok lvalue_ok fuel lines off n) l)) = Some x -> groups_wf x).
        { induction l as [|c l IHl]; intros x Hx; [inversion Hx; apply groups_wf_nil|].
          cbn [map flat_map] in Hx. rewrite seq_step_eq in Hx. destruct (PR lines off c) as [rr e]. destruct e; cbn [sel_nested app] in Hx.
          - cbn [concat_opt] in Hx. destruct (PN fuel lines off c (Some n) None) as [y|] eqn:E; [|discriminate].
            match type of Hx with match ?t with _ => _ end = _ => destruct t as [z|] eqn:E2; [|discriminate] end.
            inversion Hx; subst.
            apply groups_wf_app; [|exact (IHl z eq_refl)]. eapply IH; [|exact E]. intros g0 X. discriminate.
          - exact (IHl x Hx). }
        destruct (concat_opt _) as [nested|] eqn:En; [|discriminate]. inversion H; subst. clear H.
        apply groups_wf_app; [|exact (Hn _ _ En)].
        set (g0 := match grp with Some g => g | None => empty_group end).
        assert (Hg0 : rules_wf g0).
        { unfold g0. destruct grp as [g|]; [exact (Hgrp g eq_refl)|intros r []]. }
        destruct (flat_map sel_rules _) as [|r0 rs] eqn:Er.
        * destruct (parent_is parent "rules"); [|apply groups_wf_nil]. intros g r [<-|[]] Hr0. exact (Hg0 r Hr0).
        * intros g r [<-|[]] Hr0. cbn [g_add_rules g_rules] in Hr0. apply in_app_or in Hr0. destruct Hr0 as [X|X]; [exact (Hg0 r X)|].
          apply (Hr (unpack_nodes n)). rewrite Er. exact X.
    - revert H. apply concat_opt_wf. intros [k v] g _ Hc. exact (IH _ _ _ _ _ _ Hgrp Hc).
    - destruct (_ && _ && _)%bool; auto. destruct (n_embedded n); auto. exact (IH _ _ _ _ _ _ Hgrp H).
  Qed.

  Theorem relaxed_rules_wellformed lines ds yerr f :
    parse_relaxed plines metric_ok lname_ok lvalue_ok lines ds yerr = Some f -> groups_wf (f_groups f).
  Proof.
    unfold parse_relaxed.
    assert (G : forall ds0 acc f0, groups_wf acc ->
                 parse_relaxed_loop plines metric_ok lname_ok lvalue_ok lines ds0 yerr acc = Some f0 -> groups_wf (f_groups f0)).
    { induction ds0 as [|[d nl] r IH]; intros acc f0 Ha H; cbn [parse_relaxed_loop] in H.
      - inversion H; subst. exact Ha.
      - destruct (too_big d); [inversion H; subst; exact Ha|].
        destruct (PN (doc_fuel d) (firstn nl lines) 0 d None None) as [gs|] eqn:E; [|discriminate].
        eapply IH; [|exact H]. apply groups_wf_app; [exact Ha|]. eapply parse_node_wf; [|exact E]. intros g X. discriminate. }
    apply G, groups_wf_nil.
  Qed.

  (** ---- routing ---- *)
  Lemma read_rules_entries f e :
    groups_wf (f_groups f) -> In e (read_rules f) ->
    (exists pe, e_perr e = Some pe /\ e_rule e = zero_rule) \/ (e_perr e = None /\ wellformed (e_rule e)).
  Proof.
    intros Hwf. unfold read_rules. destruct (f_error f) as [pe|].
    - intros [<-|[]]. left. exists pe. split; reflexivity.
    - intros H. apply in_flat_map in H. destruct H as (g & Hg & H). apply in_app_or in H. destruct H as [H|H].
      + destruct (g_error g) as [pe|]; [|destruct H]. destruct H as [<-|[]]. left. exists pe. split; reflexivity.
      + apply in_map_iff in H. destruct H as (r & <- & Hr). right. split; [reflexivity|]. exact (Hwf g r Hg Hr).
  Qed.

  (** Entries with an error get the error check only, whose problem is computed without crashing; every other
      entry carries a complete alerting/recording rule (non-empty name and expr). *)
  Theorem routing_total base f e :
    groups_wf (f_groups f) -> In e (read_rules f) ->
    (has_error e = true /\ checks_for_entry base e = [yaml_parse_reporter] /\
     exists p, parse_rule_error e = Ok p /\ p_fatal p = true /\ p_first p = p_last p) \/
    (has_error e = false /\ checks_for_entry base e = base e /\
     match r_body (e_rule e) with
     | Alerting a x _ _ _ _ => y_value a <> "" /\ y_value x <> ""
     | Recording n x _ => y_value n <> "" /\ y_value x <> ""
     | NoBody => False
     end).
  Proof.
    intros Hwf Hin. destruct (read_rules_entries f e Hwf Hin) as [(pe & H1 & H2)|(H1 & H2)].
    - left. unfold has_error, checks_for_entry, has_error, parse_rule_error. rewrite H1. repeat split. eexists. repeat split.
    - unfold wellformed in H2. unfold has_error, checks_for_entry, has_error, parse_rule_error. rewrite H1.
      destruct (r_error (e_rule e)) as [pe|].
      + left. repeat split. eexists. repeat split.
      + right. repeat split. exact H2.
  Qed.
End C02.
