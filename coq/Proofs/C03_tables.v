(** The finite tables of internal/git/changes.go the model hinges on, in table form, so that the translator output
    (Gen/C03.v, regenerated from the Go AST on every run) can be compared with them. *)
From Coq Require Import List String Ascii ZArith NArith Bool.
From PintV Require Import Common.Bytes Model.GitChanges.
Import ListNotations.
Open Scope string_scope.

(** the two case lists of the `switch change.Status` that chooses Path.Before.Name for a path without an earlier record,
    as status letters: Before.Name is set only after an ls-tree probe / is the source path *)
Definition probe_statuses : list string := ["A"; "C"].
Definition src_statuses : list string := ["D"; "R"; "M"; "T"].

Definition has_status (s : ascii) (l : list string) : bool := existsb (fun x => Ascii.eqb s (st x)) l.

Lemma initial_before_table type_at e :
  initial_before type_at e =
  if has_status (le_status e) probe_statuses then
    match type_at (parent (le_commit e)) (le_src e) with Missing => "" | _ => le_src e end
  else if has_status (le_status e) src_statuses then le_src e
  else "".
Proof.
  unfold initial_before, has_status, probe_statuses, src_statuses. cbn [existsb].
  rewrite !orb_false_r. rewrite !orb_assoc. reflexivity.
Qed.

(** status letter of a FileStatus constant name under a translator table *)
Definition letter_of (consts : list (string * Z)) (name : string) : option string :=
  match assoc name consts with
  | Some z => Some (String (ascii_of_N (Z.to_N z)) "")
  | None => None
  end.

Fixpoint letters_of (consts : list (string * Z)) (names : list string) : option (list string) :=
  match names with
  | [] => Some []
  | n :: r => match letter_of consts n, letters_of consts r with
              | Some l, Some ls => Some (l :: ls)
              | _, _ => None
              end
  end.

(** PathType: constructor order of the model *)
Definition ptype_index (t : ptype) : Z := match t with Missing => 0 | Dir => 1 | File => 2 | Symlink => 3 end%Z.
Definition ptype_name (t : ptype) : string :=
  match t with Missing => "Missing" | Dir => "Dir" | File => "File" | Symlink => "Symlink" end.
