(** C13 — index-level theory of one absorption step of MergeRanges: the staircase invariant (DESIGN
    Appendix D), made precise.

    A list of index intervals is a *staircase* when any two elements are strictly ordered in both
    coordinates ([stair]) and no element lies between two touching ones ([T]).  Disjoint runs are a
    staircase; absorbing an incoming element into the elements it touches preserves the staircase; in a
    staircase Overlaps never meets one of its two holes. *)
From Coq Require Import List ZArith NArith Bool Lia.
From PintV Require Import Common.GoTime Model.Range Proofs.C13_overlaps.
Import ListNotations.
Open Scope Z_scope.

Definition lt2 (x y : ival) : Prop := fst x < fst y /\ snd x < snd y.
Definition ord (x y : ival) : Prop := lt2 x y \/ lt2 y x.

Definition stair (l : list ival) : Prop := ForallOrdPairs ord l.
Definition T (l : list ival) : Prop :=
  forall y x z, In y l -> In x l -> In z l -> lt2 y x -> lt2 x z -> snd y + 1 < fst z.
Definition valid (l : list ival) : Prop := forall x, In x l -> fst x <= snd x.
Definition cov (l : list ival) (k : Z) : Prop := exists x, In x l /\ fst x <= k <= snd x.

(** --- ForallOrdPairs toolkit ---------------------------------------------------------------- *)

Lemma ord_sym x y : ord x y -> ord y x.
Proof. unfold ord. tauto. Qed.

Lemma FOP_app {A} (P : A -> A -> Prop) l1 l2 :
  ForallOrdPairs P (l1 ++ l2) <->
  ForallOrdPairs P l1 /\ ForallOrdPairs P l2 /\ (forall x y, In x l1 -> In y l2 -> P x y).
Proof.
  induction l1 as [|a r IH]; cbn [app].
  - split; [intros H; split; [constructor|split; [exact H|intros x y []]]|tauto].
  - split.
    + intros H. inversion H as [|? ? Hf Hr]; subst. apply IH in Hr. destruct Hr as [H1 [H2 H3]].
      rewrite Forall_forall in Hf. split; [|split; [exact H2|]].
      * constructor; [|exact H1]. apply Forall_forall. intros x Hx. apply Hf. apply in_or_app. left. exact Hx.
      * intros x y [Hx|Hx] Hy; [subst x; apply Hf; apply in_or_app; right; exact Hy|apply H3; assumption].
    + intros [H1 [H2 H3]]. inversion H1 as [|? ? Hf Hr]; subst. rewrite Forall_forall in Hf.
      constructor.
      * apply Forall_forall. intros x Hx. apply in_app_or in Hx. destruct Hx as [Hx|Hx];
          [apply Hf; exact Hx|apply H3; [left; reflexivity|exact Hx]].
      * apply IH. split; [exact Hr|split; [exact H2|]]. intros x y Hx Hy. apply H3; [right; exact Hx|exact Hy].
Qed.

Lemma FOP_In {A} (P : A -> A -> Prop) l : ForallOrdPairs P l -> (forall x y, P x y -> P y x) ->
  forall x y, In x l -> In y l -> x = y \/ P x y.
Proof.
  intros H Hsym x y Hx Hy. destruct (ForallOrdPairs_In H x y Hx Hy) as [E|[E|E]]; [left; exact E|right; exact E|right; apply Hsym; exact E].
Qed.

Lemma FOP_map_In {A B} (P : A -> A -> Prop) (Q : B -> B -> Prop) (f : A -> B) l :
  ForallOrdPairs P l -> (forall x y, In x l -> In y l -> P x y -> Q (f x) (f y)) ->
  ForallOrdPairs Q (map f l).
Proof.
  induction 1 as [|a r Hf Hr IH]; intros Himp; cbn [map]; constructor.
  - rewrite Forall_forall in *. intros y Hy. apply in_map_iff in Hy. destruct Hy as [x [E Hx]]. subst y.
    apply Himp; [left; reflexivity|right; exact Hx|apply Hf; exact Hx].
  - apply IH. intros x y Hx Hy. apply Himp; right; assumption.
Qed.

Lemma FOP_mid {A} (P : A -> A -> Prop) l1 x l2 : (forall a b, P a b -> P b a) ->
  (ForallOrdPairs P (l1 ++ x :: l2) <-> ForallOrdPairs P (x :: l1 ++ l2)).
Proof.
  intros Hsym. rewrite FOP_app. split.
  - intros [H1 [H2 H3]]. inversion H2 as [|? ? Hf Hr]; subst. rewrite Forall_forall in Hf. constructor.
    + apply Forall_forall. intros y Hy. apply in_app_or in Hy. destruct Hy as [Hy|Hy].
      * apply Hsym. apply H3; [exact Hy|left; reflexivity].
      * apply Hf. exact Hy.
    + apply FOP_app. split; [exact H1|split; [exact Hr|]]. intros a b Ha Hb. apply H3; [exact Ha|right; exact Hb].
  - intros H. inversion H as [|? ? Hf Hr]; subst. rewrite Forall_forall in Hf. apply FOP_app in Hr.
    destruct Hr as [H1 [H2 H3]]. split; [exact H1|split].
    + constructor; [|exact H2]. apply Forall_forall. intros y Hy. apply Hf. apply in_or_app. right. exact Hy.
    + intros a b Ha [Hb|Hb]; [subst b; apply Hsym; apply Hf; apply in_or_app; left; exact Ha|apply H3; assumption].
Qed.

Lemma T_incl l l' : (forall x, In x l' -> In x l) -> T l -> T l'.
Proof. intros Hi HT y x z Hy Hx Hz. apply HT; apply Hi; assumption. Qed.

(** in a staircase an element never equals another one, so Overlaps never meets a hole *)
Lemma stair_no_hole l a b : stair l -> In a l -> In b l -> a <> b -> hole a b = false.
Proof.
  intros Hs Ha Hb Hne. destruct (FOP_In ord l Hs ord_sym a b Ha Hb) as [E|[[H1 H2]|[H1 H2]]]; [contradiction| |];
    unfold hole; apply orb_false_iff; split; apply andb_false_iff; left; apply Z.eqb_neq; lia.
Qed.

(** --- one absorption step ------------------------------------------------------------------- *)

Section Step.
  Variable src : ival.
  Variable A : ival -> bool.           (* which elements absorb [src] *)
  Definition G (x : ival) : ival := if A x then hull x src else x.

  Variable W : list ival.
  Hypothesis Hstair : stair (src :: W).
  Hypothesis HT : T (src :: W).
  Hypothesis HA : forall x, In x W -> A x = true -> touch x src = true.

  Lemma W_ord_src x : In x W -> ord x src.
  Proof.
    intros Hx. inversion Hstair as [|? ? Hf _]; subst. rewrite Forall_forall in Hf. apply ord_sym. apply Hf. exact Hx.
  Qed.

  Lemma W_stair : stair W.
  Proof. inversion Hstair; assumption. Qed.

  Ltac t3 a b c := let H := fresh "Ht" in
    assert (lt2 a b -> lt2 b c -> snd a + 1 < fst c) as H by (apply HT; cbn [In]; tauto).

  Lemma G_mono x y : In x W -> In y W -> lt2 x y -> lt2 (G x) (G y).
  Proof.
    intros Hx Hy Hlt. pose proof (W_ord_src x Hx) as Ox. pose proof (W_ord_src y Hy) as Oy.
    pose proof (HA x Hx) as Ax. pose proof (HA y Hy) as Ay.
    t3 x y src. t3 src x y. t3 x src y. t3 y x src. t3 src y x. t3 y src x.
    unfold G, hull, touch, ord, lt2 in *. destruct x as [x1 x2], y as [y1 y2], src as [s1 s2]. cbn [fst snd] in *.
    destruct (A (x1, x2)); destruct (A (y1, y2)); cbn [fst snd];
      try (specialize (Ax eq_refl); apply andb_true_iff in Ax; destruct Ax as [Ax1 Ax2]; apply Z.leb_le in Ax1, Ax2);
      try (specialize (Ay eq_refl); apply andb_true_iff in Ay; destruct Ay as [Ay1 Ay2]; apply Z.leb_le in Ay1, Ay2);
      destruct Ox as [[? ?]|[? ?]]; destruct Oy as [[? ?]|[? ?]]; lia.
  Qed.

  Lemma step_stair : stair (map G W).
  Proof.
    apply (FOP_map_In ord ord G W W_stair). intros x y Hx Hy [H|H]; [left|right]; apply G_mono; assumption.
  Qed.

  Lemma lt2_irrefl x : ~ lt2 x x.
  Proof. unfold lt2. lia. Qed.

  Lemma lt2_asym x y : lt2 x y -> lt2 y x -> False.
  Proof. unfold lt2. lia. Qed.

  (** origins of an ordered pair of images are ordered the same way *)
  Lemma G_reflect x y : In x W -> In y W -> lt2 (G x) (G y) -> lt2 x y.
  Proof.
    intros Hx Hy H. destruct (FOP_In ord W W_stair ord_sym x y Hx Hy) as [E|[E|E]].
    - subst y. exfalso. exact (lt2_irrefl _ H).
    - exact E.
    - exfalso. apply (lt2_asym _ _ H). apply G_mono; assumption.
  Qed.

  Lemma step_T : T (map G W).
  Proof.
    intros y' x' z' Hy Hx Hz Hyx Hxz.
    apply in_map_iff in Hy. destruct Hy as [y [Ey Hy]]. apply in_map_iff in Hx. destruct Hx as [x [Ex Hx]].
    apply in_map_iff in Hz. destruct Hz as [z [Ez Hz]]. subst y' x' z'.
    pose proof (G_reflect _ _ Hy Hx Hyx) as Lyx. pose proof (G_reflect _ _ Hx Hz Hxz) as Lxz.
    pose proof (W_ord_src x Hx) as Ox. pose proof (W_ord_src y Hy) as Oy. pose proof (W_ord_src z Hz) as Oz.
    pose proof (HA y Hy) as Ay. pose proof (HA z Hz) as Az.
    t3 y x z. t3 y x src. t3 src x z. t3 y src z. t3 x src z. t3 y src x.
    clear Hyx Hxz.
    unfold G, hull, touch, ord, lt2 in *. destruct x as [x1 x2], y as [y1 y2], z as [z1 z2], src as [s1 s2]. cbn [fst snd] in *.
    destruct (A (y1, y2)); destruct (A (z1, z2)); cbn [fst snd];
      try (specialize (Ay eq_refl); apply andb_true_iff in Ay; destruct Ay as [Ay1 Ay2]; apply Z.leb_le in Ay1, Ay2);
      try (specialize (Az eq_refl); apply andb_true_iff in Az; destruct Az as [Az1 Az2]; apply Z.leb_le in Az1, Az2);
      destruct Ox as [[? ?]|[? ?]]; destruct Oy as [[? ?]|[? ?]]; destruct Oz as [[? ?]|[? ?]]; lia.
  Qed.

  Lemma step_valid : valid (src :: W) -> valid (map G W).
  Proof.
    intros Hv x' Hx. apply in_map_iff in Hx. destruct Hx as [x [E Hx]]. subst x'.
    pose proof (Hv x (or_intror Hx)). pose proof (Hv src (or_introl eq_refl)).
    unfold G, hull. destruct (A x); cbn [fst snd]; lia.
  Qed.

  (** coverage: hulls of touching intervals add no point; if somebody absorbed [src], none is lost *)
  Lemma step_cov : valid (src :: W) -> (exists x, In x W /\ A x = true) ->
    forall k, cov (map G W) k <-> cov (src :: W) k.
  Proof.
    intros Hv [a [Ha Aa]] k. split.
    - intros [x' [Hx Hk]]. apply in_map_iff in Hx. destruct Hx as [x [E Hx]]. subst x'.
      unfold G in Hk. destruct (A x) eqn:Ex.
      + pose proof (HA x Hx Ex) as Ht. unfold touch in Ht. apply andb_true_iff in Ht. destruct Ht as [Ht1 Ht2].
        apply Z.leb_le in Ht1, Ht2. unfold hull in Hk. cbn [fst snd] in Hk.
        pose proof (Hv x (or_intror Hx)). pose proof (Hv src (or_introl eq_refl)).
        destruct (Z_le_gt_dec (fst x) k) as [H1|H1]; [destruct (Z_le_gt_dec k (snd x)) as [H2|H2]|].
        * exists x. split; [right; exact Hx|lia].
        * exists src. split; [left; reflexivity|lia].
        * exists src. split; [left; reflexivity|lia].
      + exists x. split; [right; exact Hx|exact Hk].
    - intros [x [[E|Hx] Hk]].
      + subst x. exists (G a). split; [apply in_map; exact Ha|]. unfold G. rewrite Aa. unfold hull. cbn [fst snd]. lia.
      + exists (G x). split; [apply in_map; exact Hx|]. unfold G. destruct (A x); [unfold hull; cbn [fst snd]; lia|exact Hk].
  Qed.
End Step.
