(** End-to-end converse for GitBranchFinder.Find (model [find] = state assignment of every change + merge into the glob
    list): a rule of the HEAD tree that the branch did not touch -- its file's base version holds at least as many rules
    with its content as the HEAD version, at the same path, under the same set of disabled checks -- ends in state Noop in
    the list `pint ci` lints, whatever else happened on the branch; and a glob entry only ever takes its state from a
    branch entry for the same path and the same rule position. *)
From Coq Require Import List String ZArith NArith Bool Lia Permutation.
From PintV Require Import Common.Bytes Model.GitBranch Proofs.C03_match Proofs.C03_state Proofs.C03_sort Proofs.C03_merge.
Import ListNotations.
Open Scope string_scope.
Open Scope list_scope.

(** "the branch did not touch rule [a] of the HEAD version of change [c]" *)
Definition untouched_in (c : change_in) (a : entry) : Prop :=
  e_name a <> "" /\
  (count_id a (ci_after c) <= count_id a (ci_before c))%nat /\
  (forall b, In b (ci_before c) -> is_identical a b = true ->
     e_path b = e_path a /\ Permutation (e_disabled b) (e_disabled a)).

Lemma untouched_assign c a m :
  untouched_in c a -> In m (match_entries (ci_before c) (ci_after c)) -> In a (after_of m) ->
  assign c m = [set_state a Noop []].
Proof.
  intros (Hne & Hcnt & Hsame) Hm Ha. apply untouched_noop; auto.
  intros b Hb Hi. destruct (Hsame b Hb Hi) as [Hp Hd]. split; auto.
  apply entry_identical_iff in Hd. unfold entry_identical in Hd. apply list_str_eqb_eq in Hd. exact Hd.
Qed.

(** every non-Removed branch entry is the output for one HEAD entry of its change *)
Lemma branch_entry_origin c e :
  In e (change_entries c) -> e_state e <> Removed ->
  exists m a, In m (match_entries (ci_before c) (ci_after c)) /\ In a (after_of m) /\ In e (assign c m) /\
              strip e = strip a /\ In a (ci_after c).
Proof.
  unfold change_entries. intros Hin Hs. apply in_flat_map in Hin. destruct Hin as [m [Hm He]].
  pose proof (assign_cases _ _ _ He) as Hc. destruct m as [a|b a i mv|b].
  - subst e. exists (OnlyAfter a), a. repeat split; auto; [left; reflexivity|].
    apply (match_only_after_member _ _ _ Hm).
  - exists (Both b a i mv), a. destruct (match_both_members _ _ _ _ _ _ Hm) as [_ Ha].
    destruct Hc as [(_ & _ & ->)|[(_ & ->)|(_ & _ & ->)]]; repeat split; auto; left; reflexivity.
  - destruct Hc as [_ [ml ->]]. exfalso. apply Hs. reflexivity.
Qed.

Lemma state_eqb_false a b : state_eqb a b = false -> a <> b.
Proof. intros H E. subst. destruct b; discriminate. Qed.

Lemma strip_path x y : strip x = strip y -> e_path x = e_path y.
Proof. intro H. apply (f_equal e_path) in H. exact H. Qed.

Lemma strip_is_same_r e x y : strip x = strip y -> is_same e x = is_same e y.
Proof.
  intro H. unfold is_same.
  pose proof (f_equal e_kind H) as H1. pose proof (f_equal e_rerr H) as H2.
  pose proof (f_equal e_first H) as H3. pose proof (f_equal e_last H) as H4.
  cbn in H1, H2, H3, H4. rewrite H1, H2, H3, H4. reflexivity.
Qed.

Lemma strip_is_same_l g x y : strip x = strip y -> is_same x g = is_same y g.
Proof.
  intro H. unfold is_same.
  pose proof (f_equal e_kind H) as H1. pose proof (f_equal e_rerr H) as H2.
  pose proof (f_equal e_first H) as H3. pose proof (f_equal e_last H) as H4.
  cbn in H1, H2, H3, H4. rewrite H1, H2, H3, H4. reflexivity.
Qed.

(** where the state of a glob entry can come from *)
Definition takes_from (g' g e : entry) : Prop :=
  e_state e <> Removed /\ e_path e = e_path g /\ is_same e g = true /\ e_state g' = e_state e /\ e_mod g' = e_mod e.

Lemma update_first_state e : forall all all' i g,
  update_first e all = Some all' -> nth_error all i = Some g ->
  exists g', nth_error all' i = Some g' /\ strip g' = strip g /\
             (g' = g \/ (e_path e = e_path g /\ is_same e g = true /\ g' = set_state g (e_state e) (e_mod e))).
Proof.
  induction all as [|x r IH]; intros all' i g H Hn; simpl in H; [discriminate|].
  destruct (String.eqb (e_path e) (e_path x) && is_same e x) eqn:E.
  - inversion H; subst. destruct i as [|i]; simpl in *.
    + inversion Hn; subst. eexists. split; [reflexivity|]. split; [apply strip_set_state|].
      right. apply andb_true_iff in E. destruct E as [E1 E2]. apply String.eqb_eq in E1. auto.
    + exists g. auto.
  - destruct (update_first e r) as [r'|] eqn:U; [|discriminate]. inversion H; subst.
    destruct i as [|i]; simpl in *.
    + inversion Hn; subst. exists g. auto.
    + eapply IH; eauto.
Qed.

Lemma merge_one_state all e i g :
  nth_error all i = Some g ->
  exists g', nth_error (merge_one all e) i = Some g' /\ strip g' = strip g /\ (g' = g \/ takes_from g' g e).
Proof.
  intro Hn. unfold merge_one.
  assert (Happ : nth_error (all ++ [e]) i = Some g).
  { rewrite nth_error_app1; auto. apply nth_error_Some. congruence. }
  destruct (state_eqb (e_state e) Removed) eqn:Es; [exists g; auto|].
  apply state_eqb_false in Es.
  destruct (update_first e all) as [all'|] eqn:U; [|exists g; auto].
  destruct (update_first_state e _ _ _ _ U Hn) as (g' & H1 & H2 & [->|(Hp & Hi & ->)]).
  - exists g. auto.
  - eexists. split; [exact H1|]. split; [apply strip_set_state|]. right. unfold takes_from. cbn. auto.
Qed.

Lemma merge_state : forall branch all i g,
  nth_error all i = Some g ->
  exists g', nth_error (merge all branch) i = Some g' /\ strip g' = strip g /\
             (g' = g \/ exists e, In e branch /\ takes_from g' g e).
Proof.
  unfold merge. induction branch as [|e r IH]; intros all i g Hn; simpl.
  - exists g. auto.
  - destruct (merge_one_state all e i g Hn) as (g1 & H1 & Hs1 & Hc1).
    destruct (IH _ _ _ H1) as (g2 & H2 & Hs2 & Hc2).
    exists g2. split; auto. split; [congruence|].
    destruct Hc2 as [->|(e' & Hin & Hne & Hp & Hi & Hst & Hm)].
    + destruct Hc1 as [->|Ht]; [left; reflexivity|]. right. exists e. split; [left; reflexivity|exact Ht].
    + right. exists e'. split; [right; exact Hin|]. unfold takes_from. repeat split; auto.
      * rewrite Hp. apply strip_path. exact Hs1.
      * rewrite <- Hi. symmetry. apply strip_is_same_r. exact Hs1.
Qed.

(** the end-to-end converse *)
Theorem untouched_final_noop glob cs i g :
  nth_error glob i = Some g -> e_state g = Noop ->
  (forall c a, In c cs -> In a (ci_after c) -> e_path a = e_path g -> is_same a g = true -> untouched_in c a) ->
  exists g', nth_error (find glob cs) i = Some g' /\ strip g' = strip g /\ e_state g' = Noop.
Proof.
  intros Hn Hs Hun. unfold find.
  destruct (merge_state (branch_entries cs) glob i g Hn) as (g' & H1 & H2 & [->|(e & Hin & Hne & Hp & Hi & Hst & _)]).
  - exists g. auto.
  - exists g'. split; auto. split; auto. rewrite Hst.
    unfold branch_entries in Hin. apply in_flat_map in Hin. destruct Hin as [c [Hc He]].
    destruct (branch_entry_origin c e He Hne) as (m & a & Hm & Ha & Hea & Hse & Hina).
    assert (Hu : untouched_in c a).
    { apply Hun; auto.
      - rewrite <- Hp. symmetry. apply strip_path. exact Hse.
      - rewrite <- Hi. symmetry. apply strip_is_same_l. exact Hse. }
    rewrite (untouched_assign c a m Hu Hm Ha) in Hea. destruct Hea as [<-|[]]. reflexivity.
Qed.

(** a glob entry's final state is its own or that of a branch entry for the same path and rule position *)
Theorem final_state_origin glob cs i g :
  nth_error glob i = Some g ->
  exists g', nth_error (find glob cs) i = Some g' /\ strip g' = strip g /\
    (g' = g \/ exists c a s ml, In c cs /\ In a (ci_after c) /\ In (set_state a s ml) (change_entries c) /\
                 e_path a = e_path g /\ is_same a g = true /\ e_state g' = s /\ e_mod g' = ml).
Proof.
  intro Hn. unfold find.
  destruct (merge_state (branch_entries cs) glob i g Hn) as (g' & H1 & H2 & [->|(e & Hin & Hne & Hp & Hi & Hst & Hmd)]).
  - exists g. auto.
  - exists g'. split; auto. split; auto. right.
    unfold branch_entries in Hin. apply in_flat_map in Hin. destruct Hin as [c [Hc He]].
    destruct (branch_entry_origin c e He Hne) as (m & a & Hm & Ha & Hea & Hse & Hina).
    exists c, a, (e_state e), (e_mod e). split; auto. split; auto.
    assert (Ee : e = set_state a (e_state e) (e_mod e)).
    { pose proof (assign_cases _ _ _ Hea) as Hc'. destruct m as [a0|b a0 i0 mv|b]; simpl in Ha.
      - destruct Ha as [<-|[]]. subst e. reflexivity.
      - destruct Ha as [<-|[]]. destruct Hc' as [(_ & _ & ->)|[(_ & ->)|(_ & _ & ->)]]; reflexivity.
      - destruct Ha. }
    split; [rewrite <- Ee; exact He|]. split; [rewrite <- Hp; symmetry; apply strip_path; exact Hse|].
    split; [rewrite <- Hi; symmetry; apply strip_is_same_l; exact Hse|]. auto.
Qed.

(** * Removed entries reach the final list unchanged (what rule/dependency then runs on).
    GlobFinder lists every valid rule of the HEAD tree, so a non-Removed branch entry without a rule error always finds its
    glob entry, which comes before anything that was appended: appended entries are never overwritten. *)
Definition covered (glob : list entry) (e : entry) : Prop :=
  e_state e = Removed \/ e_rerr e = true \/
  exists g0, In g0 glob /\ e_path e = e_path g0 /\ is_same e g0 = true.

Lemma is_same_rerr e g : e_rerr e = true -> is_same e g = false.
Proof. intro H. unfold is_same. rewrite H. simpl. rewrite andb_false_r. reflexivity. Qed.

Lemma update_first_rerr e all : e_rerr e = true -> update_first e all = None.
Proof.
  intro H. induction all as [|x r IH]; simpl; auto.
  rewrite (is_same_rerr e x H), andb_false_r. rewrite IH. reflexivity.
Qed.

Lemma update_first_app_l e : forall G X,
  (exists g, In g G /\ e_path e = e_path g /\ is_same e g = true) ->
  exists G', update_first e (G ++ X) = Some (G' ++ X) /\ map strip G' = map strip G.
Proof.
  induction G as [|x r IH]; intros X (g & Hin & Hp & Hs); [destruct Hin|]. simpl.
  destruct (String.eqb (e_path e) (e_path x) && is_same e x) eqn:E.
  - exists (set_state x (e_state e) (e_mod e) :: r). split; auto.
  - destruct Hin as [->|Hin].
    + rewrite Hp, String.eqb_refl, Hs in E. discriminate.
    + destruct (IH X (ex_intro _ g (conj Hin (conj Hp Hs)))) as (G' & HU & HM).
      rewrite HU. exists (x :: G'). split; auto. simpl. rewrite HM. reflexivity.
Qed.

Lemma in_map_strip g0 (G glob : list entry) :
  map strip G = map strip glob -> In g0 glob -> exists g, In g G /\ strip g = strip g0.
Proof.
  intros HM Hin. assert (H : In (strip g0) (map strip G)) by (rewrite HM; apply in_map; exact Hin).
  apply in_map_iff in H. destruct H as (g & Hs & Hg). exists g. auto.
Qed.

Lemma merge_keeps_appended glob : forall branch G X,
  map strip G = map strip glob ->
  (forall e, In e branch -> covered glob e) ->
  exists G' X', fold_left merge_one branch (G ++ X) = G' ++ X ++ X' /\ map strip G' = map strip glob /\
                (forall e, In e branch -> e_state e = Removed -> In e X').
Proof.
  induction branch as [|e r IH]; intros G X HM Hcov; simpl.
  - exists G, []. rewrite app_nil_r. repeat split; auto; try (intros e []).
  - assert (Hr : forall x, In x r -> covered glob x) by (intros x Hx; apply Hcov; right; exact Hx).
    destruct (Hcov e (or_introl eq_refl)) as [Hrem|[Herr|(g0 & Hg0 & Hp & Hs)]].
    + (* Removed: appended *)
      unfold merge_one at 2. rewrite Hrem. simpl. rewrite <- app_assoc.
      destruct (IH G (X ++ [e]) HM Hr) as (G' & X' & HF & HM' & HX).
      exists G', ([e] ++ X'). rewrite HF. rewrite <- !app_assoc. split; auto. split; auto.
      intros x [<-|Hx] Hst; [left; reflexivity|right; apply HX; auto].
    + (* rule error: never matches anything, appended *)
      unfold merge_one at 2. destruct (state_eqb (e_state e) Removed) eqn:Es.
      * rewrite <- app_assoc.
        destruct (IH G (X ++ [e]) HM Hr) as (G' & X' & HF & HM' & HX).
        exists G', ([e] ++ X'). rewrite HF. rewrite <- !app_assoc. split; auto. split; auto.
        intros x [<-|Hx] Hst; [left; reflexivity|right; apply HX; auto].
      * rewrite (update_first_rerr e _ Herr). rewrite <- app_assoc.
        destruct (IH G (X ++ [e]) HM Hr) as (G' & X' & HF & HM' & HX).
        exists G', ([e] ++ X'). rewrite HF. rewrite <- !app_assoc. split; auto. split; auto.
        intros x [<-|Hx] Hst; [left; reflexivity|right; apply HX; auto].
    + (* covered by a glob entry: only the glob part changes *)
      unfold merge_one at 2. destruct (state_eqb (e_state e) Removed) eqn:Es.
      * rewrite <- app_assoc.
        destruct (IH G (X ++ [e]) HM Hr) as (G' & X' & HF & HM' & HX).
        exists G', ([e] ++ X'). rewrite HF. rewrite <- !app_assoc. split; auto. split; auto.
        intros x [<-|Hx] Hst; [left; reflexivity|right; apply HX; auto].
      * destruct (in_map_strip g0 G glob HM Hg0) as (g & Hg & Hsg).
        assert (Hex : exists g, In g G /\ e_path e = e_path g /\ is_same e g = true).
        { exists g. split; auto. split.
          - rewrite Hp. symmetry. apply strip_path. exact Hsg.
          - rewrite <- Hs. apply strip_is_same_r. exact Hsg. }
        destruct (update_first_app_l e G X Hex) as (G1 & HU & HM1). rewrite HU.
        assert (HM1' : map strip G1 = map strip glob) by congruence.
        destruct (IH G1 X HM1' Hr) as (G' & X' & HF & HM' & HX).
        exists G', X'. split; auto. split; auto.
        intros x [<-|Hx] Hst; [|apply HX; auto].
        exfalso. apply state_eqb_false in Es. contradiction.
Qed.

Theorem removed_reaches_final glob cs e :
  (forall x, In x (branch_entries cs) -> covered glob x) ->
  In e (branch_entries cs) -> e_state e = Removed -> In e (find glob cs).
Proof.
  intros Hcov Hin Hst. unfold find, merge.
  destruct (merge_keeps_appended glob (branch_entries cs) glob [] eq_refl Hcov) as (G' & X' & HF & _ & HX).
  rewrite app_nil_r in HF. rewrite HF. simpl. apply in_or_app. right. apply HX; auto.
Qed.
