(** Proofs for C05 (control flow): the exit status of the modelled actionLint / actionCI. *)
From Coq Require Import List String Ascii ZArith Bool Lia.
From PintV Require Import Common.Bytes Gen.Tables Gen.C05 Model.Severity Model.Summary Model.ExitFlow Proofs.C05_exit.
Import ListNotations.
Open Scope Z_scope.

Lemma main_exit_code_nonzero : main_exit_code <> 0.
Proof. vm_compute. discriminate. Qed.

Lemma failed_code st a b c : o_code (failed st a b c) <> 0.
Proof. exact main_exit_code_nonzero. Qed.

Lemma passed_code a b c : o_code (passed a b c) = 0.
Proof. reflexivity. Qed.

(** * pint lint *)

(** a stage outside pint's own decision failed: non-zero exit, nothing submitted *)
Lemma lint_infra_failure i sevs :
  lint_infra_ok i = false -> o_code (action_lint i sevs) <> 0 /\ o_submitted (action_lint i sevs) = false.
Proof.
  unfold lint_infra_ok, action_lint. intro H.
  destruct (action_setup (li_setup i)); cbn [negb]; [|split; [apply failed_code|reflexivity]].
  destruct (Nat.eqb (li_paths i) 0); cbn [negb]; [split; [apply failed_code|reflexivity]|].
  destruct (li_find_ok i); cbn [negb]; [|split; [apply failed_code|reflexivity]].
  destruct (li_generate_ok i); cbn [negb]; [|split; [apply failed_code|reflexivity]].
  destruct (li_check_ok i); cbn [negb]; [|split; [apply failed_code|reflexivity]].
  destruct (parse_severity (flag_value "lint" "min-severity" (li_min_sev i))); [|split; [apply failed_code|reflexivity]].
  destruct (parse_severity (flag_value "lint" "fail-on" (li_fail_on i))); [|split; [apply failed_code|reflexivity]].
  destruct (li_outputs_ok i); cbn [negb]; [|split; [apply failed_code|reflexivity]].
  destruct (li_submit_ok i); cbn [negb]; [|split; [apply failed_code|reflexivity]].
  cbn in H. discriminate.
Qed.

(** an invalid severity flag: linting ran, nothing was reported, non-zero exit *)
Lemma lint_invalid_flag i sevs :
  lint_infra_ok i = true ->
  parse_severity (flag_value "lint" "min-severity" (li_min_sev i)) = None \/
  parse_severity (flag_value "lint" "fail-on" (li_fail_on i)) = None ->
  let o := action_lint i sevs in
  o_code o <> 0 /\ o_linted o = true /\ o_outputs_created o = false /\ o_submitted o = false /\
  (o_stage o = Some SMinSeverity \/ o_stage o = Some SFailOn).
Proof.
  unfold lint_infra_ok, action_lint. intros H Hp.
  rewrite !andb_true_iff in H. destruct H as [[[[[[Hs Hpa] Hfi] Hge] Hch] Hou] Hsu].
  rewrite Hs. cbn [negb].
  destruct (Nat.eqb (li_paths i) 0); [discriminate|].
  rewrite Hfi, Hge, Hch. cbn [negb].
  destruct (parse_severity (flag_value "lint" "min-severity" (li_min_sev i))) as [m|].
  - destruct Hp as [Hp|Hp]; [discriminate|]. rewrite Hp. cbn.
    split; [apply main_exit_code_nonzero|]. repeat split; auto.
  - cbn. split; [apply main_exit_code_nonzero|]. repeat split; auto.
Qed.

(** everything else went well and the flags parse: the exit status is the threshold decision *)
Lemma lint_completed i sevs m f :
  lint_infra_ok i = true ->
  parse_severity (flag_value "lint" "min-severity" (li_min_sev i)) = Some m ->
  parse_severity (flag_value "lint" "fail-on" (li_fail_on i)) = Some f ->
  let o := action_lint i sevs in
  (o_code o <> 0 <-> exists s, In s sevs /\ f <= s) /\
  o_linted o = true /\ o_submitted o = true.
Proof.
  unfold lint_infra_ok, action_lint. intros H Hm Hf.
  rewrite !andb_true_iff in H. destruct H as [[[[[[Hs Hpa] Hfi] Hge] Hch] Hou] Hsu].
  rewrite Hs. cbn [negb].
  destruct (Nat.eqb (li_paths i) 0); [discriminate|].
  rewrite Hfi, Hge, Hch, Hm, Hf, Hou, Hsu. cbn [negb].
  destruct (exit_lint f m sevs) eqn:E.
  - split; [|split; reflexivity]. split; [intros _; apply exit_lint_iff in E; exact E | intros _; apply failed_code].
  - split; [|split; reflexivity]. split.
    + intro Hc. exfalso. apply Hc. reflexivity.
    + intro Hex. apply (exit_lint_iff f m sevs) in Hex. rewrite Hex in E. discriminate.
Qed.

(** * pint ci *)

Lemma ci_base_branch_skip i sevs :
  action_setup (ci_setup i) = true -> ci_on_base i = true ->
  action_ci i sevs = passed false false false.
Proof.
  unfold ci_on_base, action_ci. intros Hs Hb. rewrite Hs. cbn [negb].
  destruct (ci_current_branch i) as [cur|]; [|discriminate]. rewrite Hb. reflexivity.
Qed.

Lemma ci_infra_failure i sevs :
  ci_on_base i = false -> ci_infra_ok i = false ->
  o_code (action_ci i sevs) <> 0 /\ o_submitted (action_ci i sevs) = false.
Proof.
  unfold ci_on_base, ci_infra_ok, action_ci. intros Hb H.
  destruct (action_setup (ci_setup i)); cbn [negb]; [|split; [apply failed_code|reflexivity]].
  destruct (ci_current_branch i) as [cur|]; [|split; [apply failed_code|reflexivity]].
  rewrite Hb.
  destruct (ci_find_ok i); cbn [negb]; [|split; [apply failed_code|reflexivity]].
  destruct (ci_git_find_ok i); cbn [negb]; [|split; [apply failed_code|reflexivity]].
  destruct (ci_generate_ok i); cbn [negb]; [|split; [apply failed_code|reflexivity]].
  destruct (ci_check_ok i); cbn [negb]; [|split; [apply failed_code|reflexivity]].
  destruct (ci_outputs_ok i); cbn [negb]; [|split; [apply failed_code|reflexivity]].
  destruct (ci_reporters_ok i); cbn [negb]; [|split; [apply failed_code|reflexivity]].
  destruct (parse_severity (flag_value "ci" "fail-on" (ci_fail_on i))); [|split; [apply failed_code|reflexivity]].
  destruct (ci_submit_ok i); cbn [negb]; [|split; [apply failed_code|reflexivity]].
  cbn in H. discriminate.
Qed.

Lemma ci_invalid_fail_on i sevs :
  ci_on_base i = false -> ci_infra_ok i = true ->
  parse_severity (flag_value "ci" "fail-on" (ci_fail_on i)) = None ->
  action_ci i sevs = failed SFailOn true true false.
Proof.
  unfold ci_on_base, ci_infra_ok, action_ci. intros Hb H Hp.
  rewrite !andb_true_iff in H. destruct H as [[[[[[[[Hs Hbr] Hfi] Hgf] Hge] Hch] Hou] Hre] Hsu].
  rewrite Hs. cbn [negb].
  destruct (ci_current_branch i) as [cur|]; [|discriminate].
  rewrite Hb, Hfi, Hgf, Hge, Hch, Hou, Hre, Hp. reflexivity.
Qed.

Lemma ci_completed i sevs f :
  ci_on_base i = false -> ci_infra_ok i = true ->
  parse_severity (flag_value "ci" "fail-on" (ci_fail_on i)) = Some f ->
  let o := action_ci i sevs in
  (o_code o <> 0 <-> exists s, In s sevs /\ f <= s) /\
  o_linted o = true /\ o_submitted o = true.
Proof.
  unfold ci_on_base, ci_infra_ok, action_ci. intros Hb H Hp.
  rewrite !andb_true_iff in H. destruct H as [[[[[[[[Hs Hbr] Hfi] Hgf] Hge] Hch] Hou] Hre] Hsu].
  rewrite Hs. cbn [negb].
  destruct (ci_current_branch i) as [cur|]; [|discriminate].
  rewrite Hb, Hfi, Hgf, Hge, Hch, Hou, Hre, Hp, Hsu. cbn [negb].
  destruct (exit_ci f sevs) eqn:E.
  - split; [|split; reflexivity]. split; [intros _; apply exit_ci_iff in E; exact E | intros _; apply failed_code].
  - split; [|split; reflexivity]. split.
    + intro Hc. exfalso. apply Hc. reflexivity.
    + intro Hex. apply (exit_ci_iff f sevs) in Hex. rewrite Hex in E. discriminate.
Qed.

(** * the base-branch test *)

Lemma last_segment_from_no_slash s : forall acc,
  (forall c, In c (list_ascii_of_string s) -> c <> "/"%char) ->
  last_segment_from s acc = (acc ++ s)%string.
Proof.
  induction s as [|c r IH]; intros acc H; cbn [last_segment_from].
  - clear H. induction acc as [|a acc' IHa]; [reflexivity|]. cbn. f_equal. exact IHa.
  - destruct (Ascii.eqb c "/"%char) eqn:E.
    + apply Ascii.eqb_eq in E. exfalso. apply (H c); [left; reflexivity|exact E].
    + rewrite IH.
      * clear. induction acc as [|a acc' IHa]; [reflexivity|]. cbn. f_equal. exact IHa.
      * intros c0 Hin. apply H. right. exact Hin.
Qed.

(** a base branch name without "/" is compared as a whole *)
Lemma last_segment_plain s :
  (forall c, In c (list_ascii_of_string s) -> c <> "/"%char) -> last_segment s = s.
Proof. intro H. unfold last_segment. rewrite last_segment_from_no_slash by exact H. reflexivity. Qed.

(** * generated tables *)

Lemma flag_defaults_documented :
  flag_default "lint" "fail-on" = Some "bug"%string /\
  flag_default "lint" "min-severity" = Some "warning"%string /\
  flag_default "ci" "fail-on" = Some "bug"%string /\
  flag_default "ci" "min-severity" = None /\
  parse_severity (flag_value "lint" "fail-on" None) = sev_value "Bug" /\
  parse_severity (flag_value "ci" "fail-on" None) = sev_value "Bug" /\
  parse_severity (flag_value "lint" "min-severity" None) = sev_value "Warning" /\
  sev_value "Bug" = Some 2 /\ sev_value "Warning" = Some 1.
Proof. vm_compute. repeat split. Qed.

Lemma exit_paths_of_the_source :
  only_last_is_nil true lint_returns = true /\
  ci_nil_returns_ok ci_returns = true /\
  only_last_is_nil false setup_returns = true /\
  threshold_eqb lint_threshold (">=", "sum-of-counts", "positive")%string = true /\
  threshold_eqb ci_threshold (">=", "flag", "set")%string = true /\
  main_exit_code = 1 /\
  count_by_severity_shape = "every-report-counts-once-under-its-own-severity"%string.
Proof. vm_compute. repeat split. Qed.

Lemma stage_order_of_the_source : lint_order_ok lint_stage_seq = true /\ ci_order_ok ci_stage_seq = true.
Proof. vm_compute. split; reflexivity. Qed.
