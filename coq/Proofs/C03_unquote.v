(** unquotePath (Model/GitChanges.unquote_path, i.e. strconv.Unquote on git's C-style quoting) inverts git's quoting
    of a path (quote_c_style with core.quotePath) for every byte string. *)
From Coq Require Import List String Ascii ZArith NArith Bool Lia.
From PintV Require Import Common.Bytes Model.GitChanges.
Import ListNotations.
Open Scope string_scope.

(** one decoding step of unquote_body, as a non-recursive function *)
Definition decode_head (s : string) : option (ascii * string) :=
  match s with
  | EmptyString => None
  | String c r =>
    let n := N_of_ascii c in
    if N.eqb n 34 then None
    else if N.eqb n 10 then None
    else if N.eqb n 92 then
      match r with
      | String e r1 =>
        match simple_escape e with
        | Some x => Some (x, r1)
        | None =>
          match octal_digit e, r1 with
          | Some d1, String e2 (String e3 r3) =>
            match octal_digit e2, octal_digit e3 with
            | Some d2, Some d3 =>
              let v := (d1 * 64 + d2 * 8 + d3)%N in
              if N.ltb 255 v then None else Some (ascii_of_N v, r3)
            | _, _ => None
            end
          | _, _ => None
          end
        end
      | EmptyString => None
      end
    else Some (c, r)
  end.

Lemma unquote_body_head s x r :
  decode_head s = Some (x, r) ->
  unquote_body s = match unquote_body r with Some t => Some (String x t) | None => None end.
Proof.
  unfold decode_head. destruct s as [|c r0]; [discriminate|]. cbn [unquote_body].
  destruct (N.eqb (N_of_ascii c) 34); [discriminate|].
  destruct (N.eqb (N_of_ascii c) 10); [discriminate|].
  destruct (N.eqb (N_of_ascii c) 92).
  - destruct r0 as [|e r1]; [discriminate|].
    destruct (simple_escape e) as [y|].
    + intro H. inversion H; subst. reflexivity.
    + destruct (octal_digit e) as [d1|]; [|discriminate].
      destruct r1 as [|e2 [|e3 r3]]; try discriminate.
      destruct (octal_digit e2) as [d2|]; [|discriminate].
      destruct (octal_digit e3) as [d3|]; [|discriminate].
      cbv zeta. destruct (N.ltb 255 (d1 * 64 + d2 * 8 + d3)); [discriminate|].
      intro H. inversion H; subst. reflexivity.
  - intro H. inversion H; subst. reflexivity.
Qed.

Lemma decode_head_quote c rest : decode_head (quote_byte c ++ rest) = Some (c, rest).
Proof.
  destruct c as [[] [] [] [] [] [] [] []]; vm_compute; reflexivity.
Qed.

Lemma unquote_body_step c rest :
  unquote_body (quote_byte c ++ rest) =
  match unquote_body rest with Some t => Some (String c t) | None => None end.
Proof. apply unquote_body_head. apply decode_head_quote. Qed.

Lemma str_append_assoc (a b c : string) : ((a ++ b) ++ c = a ++ (b ++ c))%string.
Proof. induction a as [|x a IH]; simpl; [reflexivity|]. rewrite IH. reflexivity. Qed.

Lemma unquote_body_quote p :
  unquote_body (quote_bytes p ++ String (ascii_of_N 34) "") = Some p.
Proof.
  induction p as [|c r IH]; [reflexivity|].
  cbn [quote_bytes]. rewrite str_append_assoc, unquote_body_step, IH. reflexivity.
Qed.

Lemma no_quote_first p : any_needs_quote p = false ->
  match p with String c _ => N.eqb (N_of_ascii c) 34 = false | EmptyString => True end.
Proof.
  destruct p as [|c r]; simpl; auto. intro H. apply orb_false_iff in H. destruct H as [H _].
  unfold needs_quote in H. repeat (apply orb_false_iff in H; destruct H as [H ?]). assumption.
Qed.

Theorem unquote_git_quote p : unquote_path (git_quote p) = p.
Proof.
  unfold git_quote. destruct (any_needs_quote p) eqn:E.
  - unfold unquote_path. change (N.eqb (N_of_ascii (ascii_of_N 34)) 34) with true. cbv iota.
    rewrite unquote_body_quote. reflexivity.
  - pose proof (no_quote_first p E) as H. destruct p as [|c r]; simpl; auto. rewrite H. reflexivity.
Qed.
