(** C04: the induction.  [walk_sound]: on the fragment [wf], for every result R admitted by [Sem],
    every source's Returns agrees with the shape of R and every series of R is consistent with some source. *)
From Coq Require Import List String Bool Floats NArith Arith Lia.
From PintV Require Import Common.Bytes Gen.C04 Model.PromQL Model.Source Model.PromSem Model.PromFrag
  Proofs.C04_lists Proofs.C04_transfer Proofs.C04_walk Proofs.C04_sound Proofs.C04_calls Proofs.C04_binops.
Import ListNotations.
Open Scope string_scope.
Open Scope list_scope.

Section Main.
  Variables fmod fpow : float -> float -> float.
  Notation walk := (walk_node fmod fpow).
  Variable db : list labelset.

  Definition Inv (e : expr) (R : result) : Prop :=
    (forall s, In s (walk e) -> ret_ok R s) /\
    (forall ls, In ls (series_of R) -> exists s, In s (walk e) /\ Cons s ls).

  Definition P (e : expr) : Prop := wf e = true -> forall R, Sem db e R -> Inv e R.

  Lemma Sem_inv e R : Sem db e R -> exists cs, Forall2 (Sem db) (children e) cs /\ local db e cs R = Some true.
  Proof. intros H. inversion H; subst. eauto. Qed.

  Lemma Forall2_1 {A B} (Q : A -> B -> Prop) a cs : Forall2 Q [a] cs -> exists c, cs = [c] /\ Q a c.
  Proof. intros H. inversion H as [|? ? ? ? Hq Hr]; subst. inversion Hr; subst. eauto. Qed.

  Lemma Forall2_2 {A B} (Q : A -> B -> Prop) a b cs :
    Forall2 Q [a; b] cs -> exists c d, cs = [c; d] /\ Q a c /\ Q b d.
  Proof.
    intros H. inversion H as [|? ? ? ? Hq Hr]; subst. apply Forall2_1 in Hr. destruct Hr as [d [-> Hd]]. eauto.
  Qed.

  Lemma Some_true_inj (b : bool) : Some b = Some true -> b = true.
  Proof. congruence. Qed.

  Lemma Cons_set_returns s v ls : Cons s ls -> Cons (set_returns s v) ls.
  Proof. intros H l Hl. rewrite (same_perm_can_have _ s); [auto | apply sp_returns]. Qed.

  (** transfer of the invariant along "same sources, result equal up to label-set equality" *)
  Lemma Inv_same_walk e e' C R :
    walk e' = walk e ->
    (forall s, ret_ok C s -> ret_ok R s) ->
    (forall x, In x (series_of R) -> exists y, In y (series_of C) /\ forall l, has x l = true -> has y l = true) ->
    Inv e C -> Inv e' R.
  Proof.
    intros Hw Hr Hs [I1 I2]. split; rewrite Hw.
    - intros s Hin. apply Hr. auto.
    - intros x Hx. destruct (Hs x Hx) as [y [Hy Hxy]]. destruct (I2 y Hy) as [s [Hin HC]].
      exists s. split; auto. eapply Cons_sub; eauto.
  Qed.

  Lemma seteq_has R C : seteq_ls R C = true ->
    forall x, In x R -> exists y, In y C /\ forall l, has x l = true -> has y l = true.
  Proof.
    intros H x Hx. destruct (seteq_ls_l R C H x Hx) as [y [Hy He]]. exists y. split; auto.
    intros l Hl. rewrite <- (has_ext x y He). exact Hl.
  Qed.

  Lemma subset_has R C : subset_ls R C = true ->
    forall x, In x R -> exists y, In y C /\ forall l, has x l = true -> has y l = true.
  Proof.
    intros H x Hx. destruct (subset_ls_spec R C H x Hx) as [y [Hy He]]. exists y. split; auto.
    intros l Hl. rewrite <- (has_ext x y He). exact Hl.
  Qed.

  Lemma has_drop_name ls l : has (drop_name ls) l = true -> has ls l = true.
  Proof. apply (has_pre_metric true). Qed.

  Lemma In_map_drop x C : In x (map drop_name C) -> exists y, In y C /\ forall l, has x l = true -> has y l = true.
  Proof.
    intros H. apply in_map_iff in H. destruct H as [y [<- Hy]]. exists y. split; auto. apply has_drop_name.
  Qed.

  Lemma P_num v : P (ENum v).
  Proof.
    intros _ R HS. apply Sem_inv in HS. destruct HS as [cs [Hc Hl]]. inversion Hc; subst.
    destruct R; try discriminate. split.
    - intros s [<-|[]]. reflexivity.
    - intros ls [].
  Qed.

  Lemma P_str v : P (EStr v).
  Proof.
    intros _ R HS. apply Sem_inv in HS. destruct HS as [cs [Hc Hl]]. inversion Hc; subst.
    destruct R; try discriminate. split.
    - intros s Hs. exact I.
    - intros ls [].
  Qed.

  Lemma walk_sel ms : walk (ESel ms) = [sel_src ms].
  Proof. reflexivity. Qed.

  Lemma P_sel ms : P (ESel ms).
  Proof.
    intros _ R HS. apply Sem_inv in HS. destruct HS as [cs [Hc Hl]]. inversion Hc; subst.
    destruct R; try discriminate. cbn [local] in Hl. apply Some_true_inj in Hl.
    apply andb_true_iff in Hl. destruct Hl as [Hl _]. rewrite forallb_forall in Hl.
    unfold Inv. rewrite walk_sel. split.
    - intros s [<-|[]]. unfold ret_ok. rewrite sel_ret. reflexivity.
    - intros ls Hin. exists (sel_src ms). split; [left; reflexivity|].
      specialize (Hl ls Hin). apply andb_true_iff in Hl. apply sel_cons. tauto.
  Qed.

  Lemma P_matrix e : P e -> P (EMatrix e).
  Proof.
    intros IH Hwf R HS. apply Sem_inv in HS. destruct HS as [cs [Hc Hl]]. cbn [children] in Hc.
    apply Forall2_1 in Hc. destruct Hc as [c [-> Hc]]. cbn [wf] in Hwf.
    destruct c as [| |C|C|]; destruct R as [| |R0|R0|]; try discriminate. cbn [local] in Hl. apply Some_true_inj in Hl.
    destruct (IH Hwf _ Hc) as [I1 I2]. split; cbn [walk_node].
    - intros s Hin. apply in_map_iff in Hin. destruct Hin as [s0 [<- _]]. reflexivity.
    - intros x Hx. destruct (seteq_has _ _ Hl x Hx) as [y [Hy Hxy]]. destruct (I2 y Hy) as [s [Hin HC]].
      exists (set_returns s VMatrix). split; [apply (in_map (fun s => set_returns s VMatrix)); exact Hin|].
      apply Cons_set_returns. eapply Cons_sub; eauto.
  Qed.

  Lemma P_subq e : P e -> P (ESubq e).
  Proof.
    intros IH Hwf R HS. apply Sem_inv in HS. destruct HS as [cs [Hc Hl]]. cbn [children] in Hc.
    apply Forall2_1 in Hc. destruct Hc as [c [-> Hc]]. cbn [wf] in Hwf.
    destruct c as [| |C|C|]; destruct R as [| |R0|R0|]; try discriminate. cbn [local] in Hl. apply Some_true_inj in Hl.
    apply (Inv_same_walk e (ESubq e) (RVec C) (RMat R0)); auto.
    intros x Hx. apply (seteq_has _ _ Hl x Hx).
  Qed.

  Lemma P_paren e : P e -> P (EParen e).
  Proof.
    intros IH Hwf R HS. apply Sem_inv in HS. destruct HS as [cs [Hc Hl]]. cbn [children] in Hc.
    apply Forall2_1 in Hc. destruct Hc as [c [-> Hc]]. cbn [wf] in Hwf.
    destruct c as [| |C|C|]; destruct R as [| |R0|R0|]; try discriminate; cbn [local] in Hl; apply Some_true_inj in Hl.
    - apply (Inv_same_walk e (EParen e) RScalar RScalar); auto. intros x [].
    - apply (Inv_same_walk e (EParen e) RStr RStr); auto. intros x [].
    - apply (Inv_same_walk e (EParen e) (RVec C) (RVec R0)); auto. intros x Hx. apply (seteq_has _ _ Hl x Hx).
    - apply (Inv_same_walk e (EParen e) (RMat C) (RMat R0)); auto. intros x Hx. apply (seteq_has _ _ Hl x Hx).
  Qed.

  Lemma P_unary b e : P e -> P (EUnary b e).
  Proof.
    intros IH Hwf R HS. apply Sem_inv in HS. destruct HS as [cs [Hc Hl]]. cbn [children] in Hc.
    apply Forall2_1 in Hc. destruct Hc as [c [-> Hc]]. cbn [wf] in Hwf.
    destruct c as [| |C|C|]; destruct R as [| |R0|R0|]; try discriminate; cbn [local] in Hl; apply Some_true_inj in Hl.
    - apply (Inv_same_walk e (EUnary b e) RScalar RScalar); auto. intros x [].
    - apply (Inv_same_walk e (EUnary b e) (RVec C) (RVec R0)); auto. intros x Hx.
      destruct (seteq_has _ _ Hl x Hx) as [y [Hy Hxy]]. destruct b.
      + apply In_map_drop in Hy. destruct Hy as [z [Hz Hyz]]. exists z. split; auto.
      + exists y. split; auto.
  Qed.

  (** *** aggregations *)

  Lemma agg_core op w g p e C R0 :
    P e -> wf_agg op p = true -> wf e = true -> Sem db e (RVec C) ->
    agg_rule op w g p C R0 = Some true -> Inv (EAgg op w g p e) (RVec R0).
  Proof.
    intros IH Hwa Hwf HS Hl. destruct (IH Hwf _ HS) as [I1 I2].
    assert (Hplain : op <> ACountValues -> op <> ATopk -> op <> ABottomk -> op <> AOther ->
                     seteq_ls R0 (map (group_key w g) C) = true ->
                     walk (EAgg op w g p e) = map (agg_src op w g p) (walk e) ->
                     Inv (EAgg op w g p e) (RVec R0)).
    { intros H1 H2 H3 H4 Hse Hw. split; rewrite Hw.
      - intros s Hin. apply in_map_iff in Hin. destruct Hin as [s0 [<- _]]. unfold ret_ok. rewrite agg_src_ret. reflexivity.
      - intros x Hx. destruct (seteq_ls_l _ _ Hse x Hx) as [y [Hy He]].
        apply in_map_iff in Hy. destruct Hy as [z [<- Hz]]. destruct (I2 z Hz) as [s [Hin HC]].
        exists (agg_src op w g p s). split; [apply in_map; exact Hin|].
        apply (agg_cons_plain op w g p s z x H1 HC He). }
    destruct op; cbn [agg_rule] in Hl; try (apply Some_true_inj in Hl);
      try (apply Hplain; [congruence | congruence | congruence | congruence | exact Hl | reflexivity]).
    - (* count_values *)
      cbn [wf_agg] in Hwa. destruct (lit_of p) as [dst|] eqn:Ep; [|discriminate].
      apply andb_true_iff in Hl. destruct Hl as [Hl _]. rewrite forallb_forall in Hl.
      split; cbn [walk_node].
      + intros s Hin. apply in_map_iff in Hin. destruct Hin as [s0 [<- _]]. unfold ret_ok. rewrite agg_src_ret. reflexivity.
      + intros x Hx. specialize (Hl x Hx). apply andb_true_iff in Hl. destruct Hl as [Hkeep Hl].
        apply eqb_prop in Hkeep.
        apply mem_ls_spec in Hl. destruct Hl as [y [Hy He]].
        apply in_map_iff in Hy. destruct Hy as [z [<- Hz]]. destruct (I2 z Hz) as [s [Hin HC]].
        exists (agg_src ACountValues w g p s). split; [apply in_map; exact Hin|].
        apply (agg_cons_count_values w g dst s z x); auto.
        * eapply walk_nd; eauto.
        * intros n Hn. specialize (He n). rewrite !get_without in He. simpl in He.
          destruct (String.eqb n dst) eqn:E; [apply String.eqb_eq in E; congruence | exact He].
    - (* topk *)
      split; cbn [walk_node].
      + intros s Hin. apply in_map_iff in Hin. destruct Hin as [s0 [<- Hs0]]. apply (I1 s0 Hs0).
      + intros x Hx. destruct (subset_has _ _ Hl x Hx) as [y [Hy Hxy]]. destruct (I2 y Hy) as [s [Hin HC]].
        exists (topk_src ATopk s). split; [apply in_map; exact Hin|].
        eapply Cons_spr; [unfold topk_src; eapply spr_trans; [apply spr_operation | apply spr_type]|].
        eapply Cons_sub; eauto.
    - (* bottomk *)
      split; cbn [walk_node].
      + intros s Hin. apply in_map_iff in Hin. destruct Hin as [s0 [<- Hs0]]. apply (I1 s0 Hs0).
      + intros x Hx. destruct (subset_has _ _ Hl x Hx) as [y [Hy Hxy]]. destruct (I2 y Hy) as [s [Hin HC]].
        exists (topk_src ABottomk s). split; [apply in_map; exact Hin|].
        eapply Cons_spr; [unfold topk_src; eapply spr_trans; [apply spr_operation | apply spr_type]|].
        eapply Cons_sub; eauto.
    - discriminate.
  Qed.

  Lemma P_agg op w g p e : P e -> P (EAgg op w g p e).
  Proof.
    intros IH Hwf R HS. apply Sem_inv in HS. destruct HS as [cs [Hc Hl]].
    cbn [wf] in Hwf. apply andb_true_iff in Hwf. destruct Hwf as [Hwa Hwf].
    destruct p as [pe|]; cbn [children] in Hc.
    - apply Forall2_2 in Hc. destruct Hc as [cp [c [-> [_ Hc]]]].
      cbn [local] in Hl. destruct cp; destruct c as [| |C| |]; destruct R as [| |R0| |]; try discriminate;
        eapply agg_core; eauto.
    - apply Forall2_1 in Hc. destruct Hc as [c [-> Hc]].
      cbn [local] in Hl. destruct c as [| |C| |]; destruct R as [| |R0| |]; try discriminate.
      eapply agg_core; eauto.
  Qed.

  (** *** calls *)

  Lemma Forall2_nth {A B} (Q : A -> B -> Prop) : forall l1 l2 i c,
    Forall2 Q l1 l2 -> nth_error l2 i = Some c -> exists a, nth_error l1 i = Some a /\ Q a c.
  Proof.
    intros l1 l2 i c H. revert i. induction H as [|x y r1 r2 Hq Hr IH]; intros i Hn.
    - destruct i; discriminate.
    - destruct i as [|i]; simpl in *.
      + inversion Hn; subst. eauto.
      + apply IH. exact Hn.
  Qed.

  Lemma nth_error_In' {A} (l : list A) i a : nth_error l i = Some a -> In a l.
  Proof. apply nth_error_In. Qed.

  Lemma absent_labels_sel_of a :
    absent_labels a = match sel_of_arg a with Some ms => fst (fold_left absent_step ms ([], [])) | None => [] end.
  Proof. reflexivity. Qed.

  Lemma sel_of_walk : forall a ms, sel_of_arg a = Some ms -> exists s0, In s0 (walk a) /\ s_selector s0 = Some ms.
  Proof.
    unfold sel_of_arg. induction a using expr_ind'; intros ms0 H0; cbn [strip_parens] in H0; try discriminate.
    - inversion H0; subst. exists (sel_src ms0). split; [left; reflexivity | apply sel_src_selector].
    - destruct a; try discriminate. inversion H0; subst.
      exists (set_returns (sel_src ms0) VMatrix). split; [left; reflexivity|].
      cbn [s_selector set_returns]. apply sel_src_selector.
    - cbn [walk_node]. apply IHa. exact H0.
  Qed.

  Lemma call_ret f ats args s :
    sem_class f <> SCNone -> In s (walk (ECall f ats args)) ->
    s_returns s = match sem_class f with SCScalar => VScalar | _ => VVector end.
  Proof.
    intros Hc Hin. apply walk_call_In in Hin. destruct Hin as [es [-> _]]. apply call_src_ret. exact Hc.
  Qed.

  Lemma Cons_empty s x : (forall n, get x n = get (@nil (string * string)) n) -> Cons s x.
  Proof. intros H l Hl. apply has_get in Hl. rewrite H in Hl. unfold get in Hl. simpl in Hl. congruence. Qed.

  Lemma P_call f ats args : Forall P args -> P (ECall f ats args).
  Proof.
    intros IH Hwf R HS. apply Sem_inv in HS. destruct HS as [cs [Hc Hl]]. cbn [children] in Hc.
    cbn [wf] in Hwf. apply andb_true_iff in Hwf. destruct Hwf as [Hwc Hwa].
    rewrite forallb_forall in Hwa. rewrite Forall_forall in IH.
    cbn [local] in Hl. unfold call_rule in Hl. unfold wf_call in Hwc.
    assert (Hne : sem_class f <> SCNone) by (intro E; rewrite E in Hwc; discriminate).
    pose proof (compat_of f Hne) as Hk. unfold compat in Hk.
    pose proof (fun s => call_ret f ats args s Hne) as Hret.
    destruct (sem_class f) eqn:Ec; try congruence.
    - (* SCMap *)
      destruct (first_vec_arg ats (List.length args) 0) as [i|] eqn:Ef; [|discriminate].
      destruct R as [| |R0| |]; try discriminate.
      destruct (nth_error cs i) as [C|] eqn:En; [|discriminate].
      destruct (is_series_result C) eqn:Es; [|discriminate]. apply Some_true_inj in Hl.
      destruct (Forall2_nth _ _ _ _ _ Hc En) as [a [Ha HSa]].
      pose proof (nth_error_In' _ _ _ Ha) as Hina.
      destruct (IH a Hina (Hwa a Hina) C HSa) as [I1 I2].
      apply first_vec_arg_spec in Ef. destruct Ef as [_ Hv].
      split.
      + intros s Hin. unfold ret_ok. rewrite (Hret s Hin). reflexivity.
      + intros x Hx. unfold map_rule in Hl. apply andb_true_iff in Hl. destruct Hl as [Hl _].
        destruct (subset_has _ _ Hl x Hx) as [y [Hy Hxy]].
        assert (Hz : exists z, In z (series_of C) /\ forall l, has x l = true -> has z l = true).
        { destruct keep_name.
          - exists y. split; auto.
          - apply In_map_drop in Hy. destruct Hy as [z [Hz Hyz]]. exists z. split; auto. }
        destruct Hz as [z [Hz Hxz]]. destruct (I2 z Hz) as [s0 [Hs0 HC]].
        exists (call_src f args (arg0_of fmod fpow args) s0). split.
        * apply (walk_call_intro fmod fpow f ats args i a s0 Ha Hv Hs0).
        * apply orb_true_iff in Hk.
          assert (Hle : le_perm s0 (call_src f args (arg0_of fmod fpow args) s0)).
          { apply call_src_le. destruct Hk as [Hk|Hk]; apply String.eqb_eq in Hk; auto. }
          eapply Cons_le; [exact Hle|]. eapply Cons_sub; eauto.
    - (* SCAbsent *)
      destruct cs as [|C [|? ?]]; try discriminate.
      destruct R as [| |R0| |]; try discriminate.
      destruct args as [|a [|? ?]]; try discriminate.
      destruct (is_series_result C) eqn:Es; [|discriminate]. apply String.eqb_eq in Hk.
      split.
      + intros s Hin. unfold ret_ok. rewrite (Hret s Hin). reflexivity.
      + intros x Hx. destruct (series_of C) eqn:Eser; apply Some_true_inj in Hl.
        * destruct (seteq_ls_l _ _ Hl x Hx) as [y [[<-|[]] He]].
          rewrite (absent_labels_sel_of a) in He. destruct (sel_of_arg a) as [ms|] eqn:Eso.
          -- destruct (sel_of_walk a ms Eso) as [s0 [Hs0 Hsel]].
             exists (call_src f [a] (arg0_of fmod fpow [a]) s0). split.
             ++ apply (walk_call_intro fmod fpow f ats [a] 0 a s0); auto.
             ++ intros l Hl'. apply (call_src_absent f a _ s0 ms l Hk Eso).
                ** eapply walk_nd; eauto.
                ** apply has_get. rewrite <- He. apply has_get. exact Hl'.
          -- destruct (walk_call_exists fmod fpow f ats [a]) as [s Hs]. exists s. split; auto.
             apply Cons_empty. exact He.
        * destruct (seteq_ls_l _ _ Hl x Hx) as [y [[] _]].
    - (* SCVector *)
      destruct R as [| |R0| |]; try discriminate. apply Some_true_inj in Hl. split.
      + intros s Hin. unfold ret_ok. rewrite (Hret s Hin). reflexivity.
      + intros x Hx. destruct (seteq_ls_l _ _ Hl x Hx) as [y [[<-|[]] He]].
        destruct (walk_call_exists fmod fpow f ats args) as [s Hs]. exists s. split; auto.
        apply Cons_empty. exact He.
    - (* SCScalar *)
      destruct R; try discriminate. split.
      + intros s Hin. unfold ret_ok. rewrite (Hret s Hin). reflexivity.
      + intros x [].
    - (* SCTimeLike *)
      apply String.eqb_eq in Hk.
      destruct cs as [|C [|? ?]]; destruct R as [| |R0| |]; try discriminate;
        try (destruct C; discriminate).
      + apply Some_true_inj in Hl. split.
        * intros s Hin. unfold ret_ok. rewrite (Hret s Hin). reflexivity.
        * intros x Hx. destruct (seteq_ls_l _ _ Hl x Hx) as [y [[<-|[]] He]].
          destruct (walk_call_exists fmod fpow f ats args) as [s Hs]. exists s. split; auto.
          apply Cons_empty. exact He.
      + destruct C as [| |C| |]; try discriminate. apply Some_true_inj in Hl.
        inversion Hc as [|a ? rargs ? HSa Hr]; subst. inversion Hr; subst.
        assert (Hina : In a [a]) by (left; reflexivity).
        destruct (IH a Hina (Hwa a Hina) _ HSa) as [I1 I2].
        split.
        * intros s Hin. unfold ret_ok. rewrite (Hret s Hin). reflexivity.
        * intros x Hx. unfold map_rule in Hl. apply andb_true_iff in Hl. destruct Hl as [Hl _].
          destruct (subset_has _ _ Hl x Hx) as [y [Hy Hxy]].
          apply In_map_drop in Hy. destruct Hy as [z [Hz Hyz]]. destruct (I2 z Hz) as [s0 [Hs0 HC]].
          exists (call_src f [a] (arg0_of fmod fpow [a]) s0). split.
          -- apply (walk_call_intro fmod fpow f ats [a] 0 a s0); auto.
          -- assert (Hle : le_perm s0 (call_src f [a] (arg0_of fmod fpow [a]) s0)).
             { apply call_src_le. right; right; right. split; [exact Hk | discriminate]. }
             eapply Cons_le; [exact Hle|]. eapply Cons_sub; [|exact HC]. auto.
    - (* SCDst *)
      apply String.eqb_eq in Hk.
      destruct cs as [|C cs']; try discriminate. destruct C as [| |C| |]; try discriminate.
      destruct args as [|a [|a1 rargs]]; try discriminate.
      destruct R as [| |R0| |]; try discriminate.
      destruct (lit_val a1) as [dst|] eqn:Ed; [|discriminate]. apply Some_true_inj in Hl.
      apply andb_true_iff in Hl. destruct Hl as [Hl _].
      inversion Hc as [|? ? ? ? HSa Hr]; subst.
      assert (Hina : In a (a :: a1 :: rargs)) by (left; reflexivity).
      destruct (IH a Hina (Hwa a Hina) _ HSa) as [I1 I2].
      split.
      + intros s Hin. unfold ret_ok. rewrite (Hret s Hin). reflexivity.
      + intros x Hx.
        assert (Hx' : In (ls_without x [dst]) (map (fun ls => ls_without ls [dst]) R0)) by (apply (in_map (fun ls => ls_without ls [dst])); exact Hx).
        destruct (subset_ls_spec _ _ Hl _ Hx') as [y [Hy He]].
        apply in_map_iff in Hy. destruct Hy as [z [<- Hz]]. destruct (I2 z Hz) as [s0 [Hs0 HC]].
        exists (call_src f (a :: a1 :: rargs) (arg0_of fmod fpow (a :: a1 :: rargs)) s0). split.
        * apply (walk_call_intro fmod fpow f ats (a :: a1 :: rargs) 0 a s0); auto.
        * intros l Hl'. destruct (string_dec l dst) as [->|Hnd].
          -- apply call_src_arg1_dst; auto. eapply walk_nd; eauto.
          -- assert (Hle : le_perm s0 (call_src f (a :: a1 :: rargs) (arg0_of fmod fpow (a :: a1 :: rargs)) s0)).
             { apply call_src_le. auto. }
             apply Hle. apply HC. specialize (He l). rewrite !get_without in He. simpl in He.
             destruct (String.eqb l dst) eqn:E; [apply String.eqb_eq in E; congruence|].
             apply has_get. rewrite <- He. apply has_get. exact Hl'.
  Qed.

  (** *** binary operators *)

  Lemma nil_pair_cases op rb ls0 rs0 :
    let v s := is_vec_or_matrix (s_returns s) in
    (v ls0 = true -> spr (nil_pair fmod fpow op rb ls0 rs0) ls0) /\
    (v ls0 = false -> v rs0 = true -> spr (nil_pair fmod fpow op rb ls0 rs0) rs0) /\
    (v ls0 = false -> v rs0 = false -> spr (nil_pair fmod fpow op rb ls0 rs0) ls0).
  Proof.
    cbv zeta. unfold nil_pair.
    set (ls := apply_conditions ls0 op rb). set (rs := apply_conditions rs0 op rb).
    assert (Hl : spr ls ls0) by apply spr_apply_conditions.
    assert (Hr : spr rs rs0) by apply spr_apply_conditions.
    destruct Hl as [Hl1 Hl2]. destruct Hr as [Hr1 Hr2]. rewrite Hl2, Hr2.
    assert (Hl : spr ls ls0) by (split; auto). assert (Hr : spr rs rs0) by (split; auto).
    split; [|split]; intros; repeat match goal with H : is_vec_or_matrix _ = _ |- _ => rewrite H; clear H end;
      destruct (static_applies ls rs); try (eapply spr_trans; [apply spr_apply_static|]); assumption.
  Qed.

  Lemma ret_one_to_one_labels vm s : s_returns (one_to_one_labels vm s) = s_returns s.
  Proof. unfold one_to_one_labels. destruct (vm_on vm); reflexivity. Qed.

  Lemma ret_group_labels vm s : s_returns (group_labels vm s) = s_returns s.
  Proof. unfold group_labels. destruct (vm_on vm); reflexivity. Qed.

  Lemma ret_mtm_labels vm s : s_returns (mtm_labels vm s) = s_returns s.
  Proof. unfold mtm_labels. destruct (vm_on vm); reflexivity. Qed.

  Lemma bin_rule_arith op rb vm Cl Cr R :
    is_setop op = false ->
    bin_rule op rb vm Cl Cr R =
    (let '(many, one) := match vm_card vm with OneToMany => (Cr, Cl) | _ => (Cl, Cr) end in
     let pairs := flat_map (fun m => map (fun o => (m, o)) (filter (sig_match vm m) one)) many in
     let outs := map (fun p => result_metric op rb vm (fst p) (snd p)) pairs in
     Some (subset_ls R outs && (if is_comparison op && negb rb then true else subset_ls outs R))).
  Proof. destruct op; simpl; intros H; try discriminate; reflexivity. Qed.

  Lemma outs_spec op rb vm many one y :
    In y (map (fun p => result_metric op rb vm (fst p) (snd p))
              (flat_map (fun m => map (fun o => (m, o)) (filter (sig_match vm m) one)) many)) ->
    exists m o, In m many /\ In o one /\ y = result_metric op rb vm m o.
  Proof.
    intros H. apply in_map_iff in H. destruct H as [[m o] [<- Hp]]. apply in_flat_map in Hp.
    destruct Hp as [m' [Hm Hp]]. apply in_map_iff in Hp. destruct Hp as [o' [Heq Ho]]. inversion Heq; subst.
    apply filter_In in Ho. exists m, o. simpl. tauto.
  Qed.

  Lemma P_bin op rb vm l r : P l -> P r -> P (EBin op rb vm l r).
  Proof.
    intros IHl IHr Hwf R HS. apply Sem_inv in HS. destruct HS as [cs [Hc Hl]]. cbn [children] in Hc.
    apply Forall2_2 in Hc. destruct Hc as [cl [cr [-> [HSl HSr]]]].
    destruct vm as [vm|]; cbn [wf] in Hwf; apply andb_true_iff in Hwf; destruct Hwf as [Hwf Hwr];
      apply andb_true_iff in Hwf; destruct Hwf as [Hwv Hwl].
    - (* vector/vector *)
      cbn [local] in Hl.
      destruct cl as [| |Cl| |]; try discriminate; destruct cr as [| |Cr| |]; try discriminate;
        destruct R as [| |R0| |]; try discriminate.
      apply and_opt_true in Hl. destruct Hl as [Hl _].
      destruct (IHl Hwl _ HSl) as [L1 L2]. destruct (IHr Hwr _ HSr) as [R1 R2].
      unfold wf_vm in Hwv. destruct (is_setop op) eqn:Eset.
      + (* and / or / unless *)
        assert (Hcard : vm_card vm = ManyToMany) by (destruct (vm_card vm); simpl in Hwv; congruence).
        assert (Hlhs : forall y, In y Cl -> exists s, In s (walk (EBin op rb (Some vm) l r)) /\ Cons s y).
        { intros y Hy. destruct (L2 y Hy) as [s0 [Hs0 HC]].
          exists (fst (mtm_src op rb vm (walk r) s0)). split.
          - cbn [walk_node]. rewrite Hcard. unfold binops_many_to_many. apply in_or_app. left.
            rewrite map_map. apply (in_map (fun x => fst (mtm_src op rb vm (walk r) x))). exact Hs0.
          - eapply Cons_spr; [apply spr_mtm_src|]. eapply Cons_le; [apply mtm_labels_le | exact HC]. }
        split.
        * intros s Hin. cbn [walk_node] in Hin. rewrite Hcard in Hin. unfold binops_many_to_many in Hin.
          apply in_app_or in Hin. destruct Hin as [Hin|Hin].
          -- rewrite map_map in Hin. apply in_map_iff in Hin. destruct Hin as [s0 [<- Hs0]].
             unfold ret_ok. destruct (spr_mtm_src op rb vm (walk r) s0) as [_ Hr]. rewrite Hr, ret_mtm_labels.
             apply (L1 s0 Hs0).
          -- destruct (binop_eqb op OOr); [|inversion Hin].
             apply in_map_iff in Hin. destruct Hin as [s0 [<- Hs0]].
             unfold ret_ok. destruct (spr_or_rhs_src vm (existsb snd (map (mtm_src op rb vm (walk r)) (walk l))) s0) as [_ Hr].
             rewrite Hr. apply (R1 s0 Hs0).
        * intros x Hx. cbn [series_of] in Hx.
          destruct op; try discriminate; cbn [bin_rule] in Hl; apply Some_true_inj in Hl;
            destruct (seteq_has _ _ Hl x Hx) as [y [Hy Hxy]].
          -- apply In_filter_weak in Hy. destruct (Hlhs y Hy) as [s [Hs HC]]. exists s. split; auto.
             eapply Cons_sub; eauto.
          -- apply in_app_or in Hy. destruct Hy as [Hy|Hy].
             ++ destruct (Hlhs y Hy) as [s [Hs HC]]. exists s. split; auto. eapply Cons_sub; eauto.
             ++ apply In_filter_weak in Hy. destruct (R2 y Hy) as [s0 [Hs0 HC]].
                exists (or_rhs_src vm (existsb snd (map (mtm_src OOr rb vm (walk r)) (walk l))) s0). split.
                ** cbn [walk_node]. rewrite Hcard. unfold binops_many_to_many. apply in_or_app. right.
                   cbn [binop_eqb]. apply in_map. exact Hs0.
                ** eapply Cons_spr; [apply spr_or_rhs_src|]. eapply Cons_sub; eauto.
          -- apply In_filter_weak in Hy. destruct (Hlhs y Hy) as [s [Hs HC]]. exists s. split; auto.
             eapply Cons_sub; eauto.
      + (* arithmetic / comparison *)
        rewrite (bin_rule_arith op rb vm Cl Cr R0 Eset) in Hl.
        destruct (vm_card vm) eqn:Hcard; try discriminate.
        * (* one-to-one *)
          destruct (vm_include vm) eqn:Hinc; [|discriminate].
          cbv zeta in Hl. apply Some_true_inj in Hl. apply andb_true_iff in Hl. destruct Hl as [Hl _].
          split.
          -- intros s Hin. cbn [walk_node] in Hin. rewrite Hcard in Hin. unfold binops_one_to_one in Hin.
             apply in_map_iff in Hin. destruct Hin as [s0 [<- Hs0]].
             unfold ret_ok. destruct (spr_one_to_one_src fmod fpow op rb vm (walk r) s0) as [_ Hr].
             rewrite Hr, ret_one_to_one_labels. apply (L1 s0 Hs0).
          -- intros x Hx. destruct (subset_ls_spec _ _ Hl x Hx) as [y [Hy He]].
             apply outs_spec in Hy. destruct Hy as [m [o [Hm [Ho ->]]]].
             destruct (L2 m Hm) as [s0 [Hs0 HC]].
             exists (one_to_one_src fmod fpow op rb vm (walk r) s0). split.
             ++ cbn [walk_node]. rewrite Hcard. unfold binops_one_to_one. apply in_map. exact Hs0.
             ++ eapply Cons_spr; [apply spr_one_to_one_src|].
                apply (oto_labels_cons vm s0 m x HC). intros l0 Hl0.
                apply (has_result_metric_oto op rb vm m o l0 Hcard Hinc).
                rewrite <- (has_ext x _ He). exact Hl0.
        * (* many-to-one: group_left *)
          cbv zeta in Hl. apply Some_true_inj in Hl. apply andb_true_iff in Hl. destruct Hl as [Hl _].
          split.
          -- intros s Hin. cbn [walk_node] in Hin. rewrite Hcard in Hin. unfold binops_group in Hin.
             apply in_map_iff in Hin. destruct Hin as [s0 [<- Hs0]].
             unfold ret_ok. destruct (spr_group_src op rb vm (walk r) s0) as [_ Hr].
             rewrite Hr, ret_group_labels. apply (L1 s0 Hs0).
          -- intros x Hx. destruct (subset_ls_spec _ _ Hl x Hx) as [y [Hy He]].
             apply outs_spec in Hy. destruct Hy as [m [o [Hm [Ho ->]]]].
             destruct (L2 m Hm) as [s0 [Hs0 HC]].
             exists (group_src op rb vm (walk r) s0). split.
             ++ cbn [walk_node]. rewrite Hcard. unfold binops_group. apply in_map. exact Hs0.
             ++ eapply Cons_spr; [apply spr_group_src|].
                apply (group_labels_cons vm s0 m x); [eapply walk_nd; eauto | exact HC|].
                intros l0 Hl0. apply (has_result_metric_group op rb vm m o l0); [congruence|].
                rewrite <- (has_ext x _ He). exact Hl0.
        * (* one-to-many: group_right *)
          cbv zeta in Hl. apply Some_true_inj in Hl. apply andb_true_iff in Hl. destruct Hl as [Hl _].
          split.
          -- intros s Hin. cbn [walk_node] in Hin. rewrite Hcard in Hin. unfold binops_group in Hin.
             apply in_map_iff in Hin. destruct Hin as [s0 [<- Hs0]].
             unfold ret_ok. destruct (spr_group_src op rb vm (walk l) s0) as [_ Hr].
             rewrite Hr, ret_group_labels. apply (R1 s0 Hs0).
          -- intros x Hx. destruct (subset_ls_spec _ _ Hl x Hx) as [y [Hy He]].
             apply outs_spec in Hy. destruct Hy as [m [o [Hm [Ho ->]]]].
             destruct (R2 m Hm) as [s0 [Hs0 HC]].
             exists (group_src op rb vm (walk l) s0). split.
             ++ cbn [walk_node]. rewrite Hcard. unfold binops_group. apply in_map. exact Hs0.
             ++ eapply Cons_spr; [apply spr_group_src|].
                apply (group_labels_cons vm s0 m x); [eapply walk_nd; eauto | exact HC|].
                intros l0 Hl0. apply (has_result_metric_group op rb vm m o l0); [congruence|].
                rewrite <- (has_ext x _ He). exact Hl0.
    - (* an operand is a scalar *)
      apply negb_true_iff in Hwv.
      pose proof (walk_nonempty fmod fpow l Hwl) as Hnl. pose proof (walk_nonempty fmod fpow r Hwr) as Hnr.
      cbn [local] in Hl.
      destruct cl as [| |V| |]; try discriminate; destruct cr as [| |V'| |]; try discriminate;
        destruct R as [| |R0| |]; try discriminate;
        destruct (IHl Hwl _ HSl) as [L1 L2]; destruct (IHr Hwr _ HSr) as [R1 R2].
      + (* scalar op scalar *)
        split; [|intros x []].
        intros s Hin. cbn [walk_node] in Hin. unfold binops_nil in Hin. apply in_flat_map in Hin.
        destruct Hin as [ls0 [Hl0 Hin]]. apply in_map_iff in Hin. destruct Hin as [rs0 [<- Hr0]].
        destruct (nil_pair_cases op rb ls0 rs0) as [_ [_ H3]]. specialize (H3 (L1 ls0 Hl0) (R1 rs0 Hr0)).
        unfold ret_ok. destruct H3 as [_ H3]. rewrite H3. apply (L1 ls0 Hl0).
      + (* scalar op vector *)
        apply and_opt_true in Hl. destruct Hl as [Hl _].
        unfold binscalar_rule in Hl. rewrite Hwv in Hl.
        split.
        * intros s Hin. cbn [walk_node] in Hin. unfold binops_nil in Hin. apply in_flat_map in Hin.
          destruct Hin as [ls0 [Hl0 Hin]]. apply in_map_iff in Hin. destruct Hin as [rs0 [<- Hr0]].
          destruct (nil_pair_cases op rb ls0 rs0) as [_ [H2 _]]. specialize (H2 (L1 ls0 Hl0) (R1 rs0 Hr0)).
          unfold ret_ok. destruct H2 as [_ H2]. rewrite H2. apply (R1 rs0 Hr0).
        * intros x Hx.
          assert (Hz : exists z, In z V' /\ forall l0, has x l0 = true -> has z l0 = true).
          { destruct (is_comparison op && negb rb); apply Some_true_inj in Hl.
            - apply (subset_has _ _ Hl x Hx).
            - destruct (seteq_has _ _ Hl x Hx) as [y [Hy Hxy]]. apply In_map_drop in Hy.
              destruct Hy as [z [Hz Hyz]]. exists z. split; auto. }
          destruct Hz as [z [Hz Hxz]]. destruct (R2 z Hz) as [rs0 [Hr0 HC]].
          destruct (walk l) as [|ls0 lrest] eqn:El; [congruence|].
          exists (nil_pair fmod fpow op rb ls0 rs0). split.
          -- cbn [walk_node]. rewrite El. unfold binops_nil. apply in_flat_map. exists ls0. split; [left; reflexivity|].
             apply in_map. exact Hr0.
          -- destruct (nil_pair_cases op rb ls0 rs0) as [_ [H2 _]].
             assert (Hl0 : In ls0 (ls0 :: lrest)) by (left; reflexivity).
             specialize (H2 (L1 ls0 Hl0) (R1 rs0 Hr0)).
             eapply Cons_spr; [exact H2|]. eapply Cons_sub; eauto.
      + (* vector op scalar *)
        apply and_opt_true in Hl. destruct Hl as [Hl _].
        unfold binscalar_rule in Hl. rewrite Hwv in Hl.
        split.
        * intros s Hin. cbn [walk_node] in Hin. unfold binops_nil in Hin. apply in_flat_map in Hin.
          destruct Hin as [ls0 [Hl0 Hin]]. apply in_map_iff in Hin. destruct Hin as [rs0 [<- Hr0]].
          destruct (nil_pair_cases op rb ls0 rs0) as [H1 _]. specialize (H1 (L1 ls0 Hl0)).
          unfold ret_ok. destruct H1 as [_ H1]. rewrite H1. apply (L1 ls0 Hl0).
        * intros x Hx.
          assert (Hz : exists z, In z V /\ forall l0, has x l0 = true -> has z l0 = true).
          { destruct (is_comparison op && negb rb); apply Some_true_inj in Hl.
            - apply (subset_has _ _ Hl x Hx).
            - destruct (seteq_has _ _ Hl x Hx) as [y [Hy Hxy]]. apply In_map_drop in Hy.
              destruct Hy as [z [Hz Hyz]]. exists z. split; auto. }
          destruct Hz as [z [Hz Hxz]]. destruct (L2 z Hz) as [ls0 [Hl0 HC]].
          destruct (walk r) as [|rs0 rrest] eqn:Er; [congruence|].
          exists (nil_pair fmod fpow op rb ls0 rs0). split.
          -- cbn [walk_node]. rewrite Er. unfold binops_nil. apply in_flat_map. exists ls0. split; [exact Hl0|].
             left. reflexivity.
          -- destruct (nil_pair_cases op rb ls0 rs0) as [H1 _]. specialize (H1 (L1 ls0 Hl0)).
             eapply Cons_spr; [exact H1|]. eapply Cons_sub; eauto.
  Qed.

  (** the induction *)
  Theorem walk_sound : forall e, P e.
  Proof.
    induction e using expr_ind'.
    - apply P_num. - apply P_str. - apply P_sel. - apply P_matrix; auto. - apply P_subq; auto.
    - apply P_paren; auto. - apply P_unary; auto. - apply P_agg; auto. - apply P_call; auto.
    - apply P_bin; auto.
  Qed.
End Main.
