(** C01, Prometheus side: on "plain" mappings (no aliases, no merge keys, natural tags) whose keys are distinct
    known field names, yaml.v3's struct decoding assigns every key/value pair, in order. *)
From Coq Require Import List String Ascii Arith Bool Lia.
From PintV Require Import Common.Bytes Model.Yaml Model.Parser Model.PromLoader Proofs.C19_relaxed.
Import ListNotations.
Open Scope string_scope.
Open Scope list_scope.

(** The documented fragment: below the document root every node is a mapping, a sequence or a scalar as yaml.v3 builds them
    (collections carry no value, scalars no content, mapping content comes in key/value pairs, no key is tagged !!null), not
    tagged !!merge; no alias nodes.  The TAG of a node is otherwise free: that it fits the kind where it matters is enforced by
    pint itself since b22de24 / 4a0d172 (kind_mismatch at the nine sites).  (That a null-tagged scalar resolves to null is no
    longer part of the fragment: pint's strict pre-pass b9483ac enforces it, see Proofs/C01_full.v.) *)
Definition null_text (s : string) : Prop := s = "" \/ s = "~" \/ s = "null" \/ s = "Null" \/ s = "NULL".

Definition plain_node (m : node) : Prop :=
  n_alias m = None /\ n_tag m <> mergeTag /\
  match n_kind m with
  | KMapping => n_value m = "" /\
                (exists ps, n_content m = flat_map (fun kv : node * node => [fst kv; snd kv]) ps /\
                            forall k v, In (k, v) ps -> n_tag k <> nullTag)
  | KSequence => n_value m = ""
  | KScalar => n_content m = []
  | _ => False
  end.

Definition flatten (ps : list (node * node)) : list node := flat_map (fun kv : node * node => [fst kv; snd kv]) ps.

Lemma flatten_cons k v r : flatten ((k, v) :: r) = k :: v :: flatten r.
Proof. reflexivity. Qed.

Lemma mapping_nodes_flatten ps : mapping_nodes_l (flatten ps) = ps.
Proof. induction ps as [|[k v] r IH]; [reflexivity|]. rewrite flatten_cons. cbn [mapping_nodes_l]. now rewrite IH. Qed.

Lemma even_nodes_flatten ps : even_nodes (flatten ps) = map fst ps.
Proof. induction ps as [|[k v] r IH]; [reflexivity|]. rewrite flatten_cons. cbn [even_nodes map fst]. now rewrite IH. Qed.

Lemma plain_mapping_content m :
  plain_node m -> n_kind m = KMapping -> n_content m = flatten (mapping_nodes m).
Proof.
  intros (_ & _ & H) K. rewrite K in H. destruct H as (_ & ps & E & _). unfold mapping_nodes. rewrite E.
  fold (flatten ps). now rewrite mapping_nodes_flatten.
Qed.

Lemma plain_mapping_keys m k v :
  plain_node m -> n_kind m = KMapping -> In (k, v) (mapping_nodes m) -> n_tag k <> nullTag.
Proof.
  intros (_ & _ & H) K. rewrite K in H. destruct H as (_ & ps & E & Hk). unfold mapping_nodes. rewrite E.
  fold (flatten ps). rewrite mapping_nodes_flatten. apply Hk.
Qed.

(** unpackNodes is the identity on content without aliases and merge keys *)
Lemma unpack_loop_plain self : forall l,
  (forall c, In c l -> n_alias c = None /\ n_tag c <> mergeTag) -> unpack_loop self l false = l.
Proof.
  induction l as [|c r IH]; intros H; cbn [unpack_loop]; [reflexivity|].
  destruct (H c (or_introl eq_refl)) as [Ha Ht].
  assert (E : (n_tag c =? mergeTag) = false) by now apply String.eqb_neq.
  rewrite E, Ha. cbn [andb]. f_equal. apply IH. intros c0 Hc. apply H. right. exact Hc.
Qed.

Lemma plain_not_merge m : plain_node m -> n_alias m = None /\ n_tag m <> mergeTag.
Proof. intros (Ha & Ht & _). split; assumption. Qed.

(** ---- aliases in value position ----
    An alias node as yaml.v3 hands it out: kind alias, no content of its own, ShortTag() of its target; the target is not an
    alias.  [sees x t]: the value node [x] stands for [t] — [x] is [t] itself (not an alias) or an alias of [t]. *)
Definition alias_to (x t : node) : Prop :=
  n_kind x = KAlias /\ n_alias x = Some t /\ n_content x = [] /\ n_tag x = n_tag t /\ n_alias t = None /\ n_tag x <> mergeTag /\
  n_value x <> "".     (* Value of an alias node = the anchor name *)

Definition sees (x t : node) : Prop := (x = t /\ n_alias t = None) \/ alias_to x t.

Lemma sees_deref x t : sees x t -> deref x = t /\ n_alias t = None.
Proof. unfold deref. intros [[-> H]|(_ & H & _ & _ & Ht & _)]; rewrite H; auto. Qed.

Lemma node_value_deref x : node_value x = n_value (deref x).
Proof. unfold node_value, deref. destruct (n_alias x); reflexivity. Qed.

Lemma sees_tag x t : sees x t -> n_tag x = n_tag t.
Proof. intros [[-> _]|(_ & _ & _ & H & _)]; auto. Qed.

Lemma sees_value x t : sees x t -> node_value x = n_value t.
Proof. unfold node_value. intros [[-> H]|(_ & H & _)]; now rewrite H. Qed.

Lemma sees_self x : n_alias x = None -> sees x x.
Proof. intros H. left. auto. Qed.

(** parser.go resolveMapAlias(part, part) as unpackNodes applies it to a non-merge alias child: the alias node with the
    content of its target (nothing is filtered: an alias node has no keys of its own) *)
Definition unp (x : node) : node :=
  match n_alias x with Some t => set_content x (n_content t) | None => x end.

Lemma filter_pairs_alias part : n_kind part = KAlias -> forall l, filter_pairs part l = l.
Proof.
  intros K. assert (H : forall key, has_key part key = false) by (intros key; unfold has_key, node_keys; now rewrite K).
  fix IH 1. intros [|k [|v r]]; cbn [filter_pairs]; rewrite ?H; cbn [negb]; [reflexivity|reflexivity|].
  cbn [app]. now rewrite IH.
Qed.

Lemma resolve_self_alias x t : alias_to x t -> resolve_map_alias x x = unp x.
Proof.
  intros (K & A & _). unfold resolve_map_alias, unp. rewrite A. now rewrite (filter_pairs_alias x K).
Qed.

Lemma deref_unp x : deref (unp x) = deref x.
Proof. unfold unp, deref. destruct (n_alias x) as [t|] eqn:E; [cbn [set_content n_alias]; now rewrite E|now rewrite E]. Qed.

Lemma unp_view x t :
  sees x t -> deref (unp x) = t /\ n_tag (unp x) = n_tag t /\ n_content (unp x) = n_content t /\
              node_value (unp x) = n_value t /\ n_alias (unp x) = n_alias x.
Proof.
  intros [[-> H]|(K & A & C & T & Ht & _)]; unfold unp, deref, node_value.
  - rewrite !H. auto.
  - rewrite A. cbn [set_content n_alias n_tag n_content]. rewrite A. auto.
Qed.

(** unpackNodes on content whose keys are plain and whose values are plain or aliases: values are replaced by [unp] *)
Lemma unpack_loop_values self : forall ps : list (node * node),
  (forall k x, In (k, x) ps -> (n_alias k = None /\ n_tag k <> mergeTag) /\
                               ((n_alias x = None /\ n_tag x <> mergeTag) \/ exists t, alias_to x t)) ->
  unpack_loop self (flat_map (fun kv : node * node => [fst kv; snd kv]) ps) false =
  flat_map (fun kv : node * node => [fst kv; unp (snd kv)]) ps.
Proof.
  induction ps as [|[k x] r IH]; intros H; [reflexivity|].
  cbn [flat_map fst snd app unpack_loop].
  destruct (H k x (or_introl eq_refl)) as [[Ka Kt] Hx].
  assert (E : (n_tag k =? mergeTag) = false) by now apply String.eqb_neq.
  rewrite E, Ka. cbn [andb]. f_equal.
  specialize (IH (fun k0 x0 H0 => H k0 x0 (or_intror H0))).
  destruct Hx as [[Xa Xt]|(t & Hal)].
  - assert (E' : (n_tag x =? mergeTag) = false) by now apply String.eqb_neq.
    rewrite E', Xa. cbn [andb]. unfold unp. rewrite Xa. f_equal. exact IH.
  - pose proof Hal as (K & A & C & T & Ht & Hm & _).
    assert (E' : (n_tag x =? mergeTag) = false) by now apply String.eqb_neq.
    rewrite E', A. cbn [andb app]. rewrite (resolve_self_alias x t Hal). f_equal. exact IH.
Qed.

Section Prom.
  Variables str_ok int_ok null_ok : node -> bool.
  Hypothesis H_str : forall n, n_kind n = KScalar -> n_tag n <> nullTag -> str_ok n = true.
  (** a null-tagged scalar that spells a null resolves to null (false only for an explicit !!null tag on a quoted text) *)
  Hypothesis H_null : forall n, n_kind n = KScalar -> n_tag n = nullTag -> null_ok n = true.

  Lemma plain_null_ok x : plain_node x -> n_kind x = KScalar -> n_tag x = nullTag -> null_scalar null_ok x = true.
  Proof.
    intros _ K T.
    unfold null_scalar. rewrite T. cbn [String.eqb Ascii.eqb Bool.eqb andb]. change (nullTag =? nullTag) with true. cbn [andb].
    apply H_null; auto.
  Qed.

  Lemma null_scalar_tag x : n_tag x <> nullTag -> null_scalar null_ok x = false.
  Proof. intros T. unfold null_scalar. apply String.eqb_neq in T. now rewrite T. Qed.

  Lemma deref_plain m : n_alias m = None -> deref m = m.
  Proof. unfold deref. now intros ->. Qed.

  (** A plain scalar key that is not null-tagged decodes to its text. *)
  Lemma dec_key_scalar k :
    plain_node k -> n_kind k = KScalar -> n_tag k <> nullTag -> dec_string str_ok null_ok k = DOk (n_value k).
  Proof.
    intros [Ha _] K T. unfold dec_string. rewrite (deref_plain k Ha), K, (null_scalar_tag k T).
    now rewrite (H_str k K T).
  Qed.

  Definition key_text (kv : node * node) : string := n_value (fst kv).

  (** keys usable as struct field names / map keys: plain non-null scalars with pairwise distinct texts *)
  Definition good_keys (ps : list (node * node)) : Prop :=
    (forall k v, In (k, v) ps -> plain_node k /\ n_kind k = KScalar /\ n_tag k <> nullTag) /\
    NoDup (map key_text ps).

  Lemma key_in_false k keys :
    ~ In (n_value k) (map n_value keys) -> key_in k keys = false.
  Proof.
    induction keys as [|k' r IH]; intros H; cbn [key_in]; [reflexivity|].
    cbn [map In] in H. rewrite IH by tauto.
    assert (E : (n_value k =? n_value k') = false) by (apply String.eqb_neq; intro X; apply H; left; now symmetry).
    rewrite E. now rewrite andb_false_r.
  Qed.

  Lemma unique_keys_nodup ps : NoDup (map key_text ps) -> unique_keys (flatten ps) = true.
  Proof.
    unfold unique_keys. rewrite even_nodes_flatten.
    induction ps as [|[k v] r IH]; intros H; cbn [map unique_key_list]; [reflexivity|].
    inversion H as [|x l Hn Hr]; subst. rewrite (IH Hr), andb_true_r.
    rewrite key_in_false; [reflexivity|]. rewrite map_map. exact Hn.
  Qed.

  (** the loop of mappingStruct / mapping over plain pairs: every pair is assigned, nothing else happens *)
  Lemma map_loop_plain known : forall ps done acc,
    (forall k v, In (k, v) ps -> plain_node k /\ n_kind k = KScalar /\ n_tag k <> nullTag) ->
    NoDup (map key_text ps) ->
    (forall s, In s (map key_text ps) -> ~ In s done) ->
    (forall fields, known = Some fields -> forall s, In s (map key_text ps) -> In s fields) ->
    map_loop str_ok null_ok known (flatten ps) None done acc None =
    Some (acc ++ map (fun kv => (key_text kv, snd kv)) ps, None, None).
  Proof.
    induction ps as [|[k v] r IH]; intros done acc Hk Hnd Hdone Hknown; cbn [flatten flat_map app map_loop map fst snd].
    - now rewrite app_nil_r.
    - destruct (Hk k v (or_introl eq_refl)) as (Hp & Hkind & Htag).
      assert (Hm : is_merge_key k = false).
      { unfold is_merge_key. destruct (plain_not_merge k Hp) as [_ Hmt]. apply String.eqb_neq in Hmt. rewrite Hmt. now rewrite andb_false_r. }
      rewrite Hm, (dec_key_scalar k Hp Hkind Htag). cbn [option_map].
      inversion Hnd as [|x l Hn Hr]; subst.
      assert (IHr : forall done' acc',
                 (forall s, In s (map key_text r) -> ~ In s done') ->
                 map_loop str_ok null_ok known (flatten r) None done' acc' None =
                 Some (acc' ++ map (fun kv => (key_text kv, snd kv)) r, None, None)).
      { intros done' acc' Hd. apply IH; auto.
        - intros k0 v0 H0. apply (Hk k0 v0). right. exact H0.
        - intros fields Ef s Hs. apply (Hknown fields Ef). right. exact Hs. }
      fold (flatten r).
      destruct known as [fields|].
      + assert (Hin : mem_key (n_value k) fields = true).
        { apply mem_str_In. apply (Hknown fields eq_refl). left. reflexivity. }
        rewrite Hin.
        assert (Hnd' : mem_key (n_value k) done = false).
        { apply not_true_is_false. intro X. apply mem_str_In in X. exact (Hdone (n_value k) (or_introl eq_refl) X). }
        rewrite Hnd'. rewrite IHr.
        * rewrite <- app_assoc. reflexivity.
        * intros s Hs [X|X]; [subst s; exact (Hn Hs)|]. exact (Hdone s (or_intror Hs) X).
      + rewrite IHr.
        * rewrite <- app_assoc. reflexivity.
        * intros s Hs X. exact (Hdone s (or_intror Hs) X).
  Qed.

  (** d.mappingStruct / d.mapping on a plain mapping with good keys *)
  Lemma dec_fields_plain known m :
    plain_node m -> n_kind m = KMapping ->
    good_keys (mapping_nodes m) ->
    (forall fields, known = Some fields -> forall s, In s (map key_text (mapping_nodes m)) -> In s fields) ->
    dec_fields str_ok null_ok known m = DOk (map (fun kv => (key_text kv, snd kv)) (mapping_nodes m)).
  Proof.
    intros Hp K [Hk Hnd] Hknown. unfold dec_fields. destruct Hp as [Ha Hp']. rewrite (deref_plain m Ha).
    pose proof (plain_mapping_content m (conj Ha Hp') K) as Ec.
    rewrite K in Hp'. destruct Hp' as (T & _). rewrite K.
    cbn [map_fields]. rewrite Ec, (unique_keys_nodup _ Hnd). cbn [negb].
    rewrite (map_loop_plain known (mapping_nodes m) [] [] Hk Hnd (fun _ _ X => X) Hknown). reflexivity.
  Qed.

  (** ---- every decoder looks at a value through [deref] ---- *)
  Lemma deref_idem x : n_alias (deref x) = None -> deref (deref x) = deref x.
  Proof. intros H. unfold deref at 1. now rewrite H. Qed.

  Lemma dec_string_deref x : n_alias (deref x) = None -> dec_string str_ok null_ok x = dec_string str_ok null_ok (deref x).
  Proof. intros H. unfold dec_string. now rewrite (deref_idem x H). Qed.

  Lemma dec_duration_deref (dur_ok : string -> bool) x :
    n_alias (deref x) = None -> dec_duration str_ok null_ok dur_ok x = dec_duration str_ok null_ok dur_ok (deref x).
  Proof. intros H. unfold dec_duration. now rewrite (deref_idem x H), (dec_string_deref x H). Qed.

  Lemma dec_fields_deref known x :
    n_alias (deref x) = None -> dec_fields str_ok null_ok known x = dec_fields str_ok null_ok known (deref x).
  Proof. intros H. unfold dec_fields. now rewrite (deref_idem x H). Qed.

  Lemma dec_strmap_deref x : n_alias (deref x) = None -> dec_strmap str_ok null_ok x = dec_strmap str_ok null_ok (deref x).
  Proof. intros H. unfold dec_strmap. now rewrite (dec_fields_deref None x H). Qed.

  (** ---- values ---- *)
  Definition str_val (x : node) : string := if String.eqb (n_tag (deref x)) nullTag then "" else n_value (deref x).

  (** a label / annotation value: a plain scalar, or an alias of one *)
  Definition leaf_scalar (x : node) : Prop := exists t, sees x t /\ plain_node t /\ n_kind t = KScalar.

  Lemma plain_leaf_scalar x : plain_node x -> n_kind x = KScalar -> leaf_scalar x.
  Proof. intros Hp K. exists x. split; [apply sees_self; exact (proj1 Hp)|auto]. Qed.

  Lemma dec_string_scalar x :
    plain_node x -> n_kind x = KScalar ->
    dec_string str_ok null_ok x = if String.eqb (n_tag x) nullTag then DNull else DOk (n_value x).
  Proof.
    intros Hp K. pose proof Hp as [Ha _]. unfold dec_string. rewrite (deref_plain x Ha), K.
    destruct (String.eqb (n_tag x) nullTag) eqn:E.
    - apply String.eqb_eq in E. now rewrite (plain_null_ok x Hp K E).
    - apply String.eqb_neq in E. rewrite (null_scalar_tag x E). now rewrite (H_str x K E).
  Qed.

  Lemma dec_duration_scalar (dur_ok : string -> bool) x :
    plain_node x -> n_kind x = KScalar ->
    dec_duration str_ok null_ok dur_ok x =
    if String.eqb (n_tag x) nullTag then DNull else if dur_ok (n_value x) then DOk (n_value x) else DErr.
  Proof.
    intros Hp K. pose proof Hp as [Ha _]. unfold dec_duration.
    rewrite (dec_string_scalar x Hp K), (deref_plain x Ha), K. cbn [kind_eqb andb].
    destruct (String.eqb (n_tag x) nullTag) eqn:E; [|reflexivity].
    apply String.eqb_eq in E. pose proof (plain_null_ok x Hp K E) as N. unfold null_scalar in N.
    apply andb_true_iff in N. destruct N as [_ N]. rewrite N. reflexivity.
  Qed.

  Lemma assoc_map_find name : forall ps : list (node * node),
    assoc name (map (fun kv => (key_text kv, snd kv)) ps) =
    option_map snd (find (fun kv => String.eqb name (key_text kv)) ps).
  Proof.
    induction ps as [|[k v] r IH]; [reflexivity|].
    cbn [map assoc find]. change (key_text (k, v)) with (n_value k). cbn [snd].
    destruct (String.eqb name (n_value k)); [reflexivity|exact IH].
  Qed.

  (** map[string]string from a plain mapping whose keys are good and whose values are plain scalars *)
  Lemma strmap_values_plain : forall ps : list (node * node),
    (forall k x, In (k, x) ps -> leaf_scalar x) ->
    strmap_values str_ok null_ok (map (fun kv => (key_text kv, snd kv)) ps) =
    Some (map (fun kv => (key_text kv, str_val (snd kv))) ps).
  Proof.
    induction ps as [|[k x] r IH]; intros H; cbn [map strmap_values key_text fst snd]; [reflexivity|].
    destruct (H k x (or_introl eq_refl)) as (t & Hs & Hp & Hk).
    destruct (sees_deref x t Hs) as [Hd Ht].
    assert (Ha : n_alias (deref x) = None) by now rewrite Hd.
    rewrite (dec_string_deref x Ha), Hd, (dec_string_scalar t Hp Hk), (IH (fun k0 x0 H0 => H k0 x0 (or_intror H0))).
    unfold str_val. rewrite Hd.
    destruct (String.eqb (n_tag t) nullTag); reflexivity.
  Qed.

  Lemma dec_strmap_plain v :
    plain_node v -> n_kind v = KMapping -> good_keys (mapping_nodes v) ->
    (forall k x, In (k, x) (mapping_nodes v) -> leaf_scalar x) ->
    dec_strmap str_ok null_ok v = DOk (map (fun kv => (key_text kv, str_val (snd kv))) (mapping_nodes v)).
  Proof.
    intros Hp K Hg Hv. unfold dec_strmap.
    rewrite (dec_fields_plain None v Hp K Hg) by (intros f X; discriminate).
    now rewrite (strmap_values_plain _ Hv).
  Qed.

  Lemma dec_strmap_null v :
    plain_node v -> n_kind v = KScalar -> n_tag v = nullTag -> dec_strmap str_ok null_ok v = DNull.
  Proof.
    intros Hp K T. pose proof Hp as [Ha _]. unfold dec_strmap, dec_fields.
    rewrite (deref_plain v Ha), K, (plain_null_ok v Hp K T). reflexivity.
  Qed.

  Lemma dec_fields_null known v :
    plain_node v -> n_kind v = KScalar -> n_tag v = nullTag -> dec_fields str_ok null_ok known v = DNull.
  Proof.
    intros Hp K T. pose proof Hp as [Ha _]. unfold dec_fields.
    rewrite (deref_plain v Ha), K, (plain_null_ok v Hp K T). reflexivity.
  Qed.

  Lemma dec_slice_null {A} (dec : node -> dres A) v :
    plain_node v -> n_kind v = KScalar -> n_tag v = nullTag -> dec_slice null_ok dec v = DNull.
  Proof.
    intros Hp K T. pose proof Hp as [Ha _]. unfold dec_slice.
    rewrite (deref_plain v Ha), K, (plain_null_ok v Hp K T). reflexivity.
  Qed.
End Prom.
