(** C11: the transition system is not vacuous and really reorders: with two workers and two one-report jobs there
    is a complete run that delivers the reports in job order and one that delivers them swapped. *)
From Coq Require Import List Arith Lia Bool.
From PintV Require Import Model.ScanLTS.
Import ListNotations.

Definition ex_run (j : nat) : list nat := [j].

Local Notation st := (mk nat nat).
Local Notation estep := (step nat nat ex_run 2).
Local Notation esteps := (steps nat nat ex_run 2).

Ltac go c := eapply st_cons; [c; cbn; try lia; try (repeat constructor)|cbn [app]].

(** job 1 then job 2 *)
Example run_in_order : exists k s,
  esteps (init nat nat 2 [1; 2]) k s /\ done nat nat s = true /\ summary nat nat s = [1; 2] /\ (forall s', ~ estep s s').
Proof.
  eexists. eexists. split; [|split; [|split]].
  - unfold init. cbn [repeat].
    go ltac:(apply s_produce). go ltac:(apply s_produce). go ltac:(apply s_close_jobs).
    go ltac:(apply (s_take nat nat ex_run 2 _ _ _ _ [] [WIdle])).
    go ltac:(apply (s_take nat nat ex_run 2 _ _ _ _ [WBusy [1]] [])).
    go ltac:(apply (s_send nat nat ex_run 2 _ _ _ [] 1 [] [WBusy [2]])).
    go ltac:(apply (s_send nat nat ex_run 2 _ _ _ [WBusy []] 2 [] [])).
    go ltac:(apply s_recv). go ltac:(apply s_recv).
    go ltac:(apply (s_finish nat nat ex_run 2 _ _ _ [] [WBusy []])).
    go ltac:(apply (s_finish nat nat ex_run 2 _ _ _ [WIdle] [])).
    go ltac:(apply (s_exit nat nat ex_run 2 _ [] [WIdle])).
    go ltac:(apply (s_exit nat nat ex_run 2 _ [WExited] [])).
    go ltac:(apply s_close_results). go ltac:(apply s_end).
    apply st_nil.
  - reflexivity.
  - reflexivity.
  - intros s' H. inversion H; subst;
      try match goal with E : _ ++ _ :: _ = _ |- _ => destruct w1 as [|? [|? w1]]; cbn in E; try discriminate; inversion E end;
      try match goal with E : _ ++ _ :: _ = [] |- _ => symmetry in E; now apply app_cons_not_nil in E end.
Qed.

(** job 2's report overtakes job 1's *)
Example run_swapped : exists k s,
  esteps (init nat nat 2 [1; 2]) k s /\ done nat nat s = true /\ summary nat nat s = [2; 1].
Proof.
  eexists. eexists. split; [|split].
  - unfold init. cbn [repeat].
    go ltac:(apply s_produce). go ltac:(apply s_produce). go ltac:(apply s_close_jobs).
    go ltac:(apply (s_take nat nat ex_run 2 _ _ _ _ [] [WIdle])).
    go ltac:(apply (s_take nat nat ex_run 2 _ _ _ _ [WBusy [1]] [])).
    go ltac:(apply (s_send nat nat ex_run 2 _ _ _ [WBusy [1]] 2 [] [])).
    go ltac:(apply (s_send nat nat ex_run 2 _ _ _ [] 1 [] [WBusy []])).
    go ltac:(apply s_recv). go ltac:(apply s_recv).
    go ltac:(apply (s_finish nat nat ex_run 2 _ _ _ [] [WBusy []])).
    go ltac:(apply (s_finish nat nat ex_run 2 _ _ _ [WIdle] [])).
    go ltac:(apply (s_exit nat nat ex_run 2 _ [] [WIdle])).
    go ltac:(apply (s_exit nat nat ex_run 2 _ [WExited] [])).
    go ltac:(apply s_close_results). go ltac:(apply s_end).
    apply st_nil.
  - reflexivity.
  - reflexivity.
Qed.
