(** C17: generic theorems about one reporting run ([step]) and repeated runs over an abstract platform. *)
From Coq Require Import List ZArith NArith Bool Lia Arith.
From PintV Require Import Common.Bytes Model.CommentsReconcile.
Import ListNotations.
Local Open Scope nat_scope.

Section Generic.
  Context {E P : Type}.
  Variable pf : platform E P.

  (** platform law L1 on a pending list: what Create stores for a pending comment is IsEqual to it *)
  Definition L1 (pend : list P) : Prop :=
    forall p e, In p pend -> create pf p = Some e -> is_equal pf e p = true.

  (** platform law L2 for a key function: an existing comment equals pending comments of one key only *)
  Definition L2 {K} (pkey : P -> K) (pend : list P) : Prop :=
    forall e p p', In p pend -> In p' pend -> is_equal pf e p = true -> is_equal pf e p' = true -> pkey p = pkey p'.

  (* ---- the create loop ---------------------------------------------------------------------- *)

  Ltac cp_step ex r n' c d Er :=
    destruct (create_phase pf ex r n') as [c d] eqn:Er; cbn [fst snd].

  Lemma cp_cases ex pend n p :
    In p pend ->
    covered_by pf ex p = true \/ In p (snd (create_phase pf ex pend n)) \/ In (p, create pf p) (fst (create_phase pf ex pend n)).
  Proof.
    revert n. induction pend as [|q r IH]; intros n Hin; [destruct Hin|]. cbn [create_phase].
    destruct (covered_by pf ex q) eqn:Ec.
    - destruct Hin as [->|Hin]; auto.
    - destruct (can_create pf n); cbn [negb].
      + destruct (create pf q) as [e|] eqn:Eq.
        * cp_step ex r (S n) c d Er. destruct Hin as [->|Hin]; [right; right; rewrite Eq; now left|].
          specialize (IH (S n) Hin). rewrite Er in IH. cbn [fst snd] in IH. intuition.
        * cp_step ex r n c d Er. destruct Hin as [->|Hin]; [right; right; rewrite Eq; now left|].
          specialize (IH n Hin). rewrite Er in IH. cbn [fst snd] in IH. intuition.
      + cp_step ex r n c d Er.
        destruct Hin as [->|Hin]; [right; left; now left|].
        specialize (IH n Hin). rewrite Er in IH. cbn [fst snd] in IH. intuition.
  Qed.

  Lemma cp_created ex pend n p oe :
    In (p, oe) (fst (create_phase pf ex pend n)) -> In p pend /\ covered_by pf ex p = false /\ oe = create pf p.
  Proof.
    revert n. induction pend as [|q r IH]; intros n; cbn [create_phase]; [intros []|].
    destruct (covered_by pf ex q) eqn:Ec.
    - intros H. apply IH in H. intuition.
    - destruct (can_create pf n); cbn [negb].
      + destruct (create pf q) as [e|] eqn:Eq.
        * cp_step ex r (S n) c d Er. intros [H|H].
          -- inversion H; subst. intuition.
          -- specialize (IH (S n)). rewrite Er in IH. apply IH in H. intuition.
        * cp_step ex r n c d Er. intros [H|H].
          -- inversion H; subst. intuition.
          -- specialize (IH n). rewrite Er in IH. apply IH in H. intuition.
      + cp_step ex r n c d Er. intros H.
        specialize (IH n). rewrite Er in IH. apply IH in H. intuition.
  Qed.

  Lemma cp_deferred ex pend n p :
    In p (snd (create_phase pf ex pend n)) -> In p pend /\ covered_by pf ex p = false.
  Proof.
    revert n. induction pend as [|q r IH]; intros n; cbn [create_phase]; [intros []|].
    destruct (covered_by pf ex q) eqn:Ec.
    - intros H. apply IH in H. intuition.
    - destruct (can_create pf n) eqn:Eb; cbn [negb].
      + destruct (create pf q) as [e|] eqn:Eq.
        * cp_step ex r (S n) c d Er. intros H.
          specialize (IH (S n)). rewrite Er in IH. apply IH in H. intuition.
        * cp_step ex r n c d Er. intros H.
          specialize (IH n). rewrite Er in IH. apply IH in H. intuition.
      + cp_step ex r n c d Er. intros [H|H].
        * subst. intuition.
        * specialize (IH n). rewrite Er in IH. apply IH in H. intuition.
  Qed.

  Lemma cp_all_covered ex pend n :
    (forall p, In p pend -> covered_by pf ex p = true) -> create_phase pf ex pend n = ([], []).
  Proof.
    induction pend as [|q r IH]; intros H; cbn [create_phase]; auto.
    rewrite (H q) by now left. apply IH. intros p Hp. apply H. now right.
  Qed.

  (** when every pending comment is covered or cannot be placed, the loop stores nothing *)
  Lemma cp_nothing_stored ex pend n :
    (forall p, In p pend -> covered_by pf ex p = true \/ create pf p = None) ->
    stored (fst (create_phase pf ex pend n)) = [].
  Proof.
    revert n. induction pend as [|q r IH]; intros n H; cbn [create_phase]; auto.
    assert (Hr : forall p, In p r -> covered_by pf ex p = true \/ create pf p = None) by (intros p Hp; apply H; now right).
    destruct (covered_by pf ex q) eqn:Ec; [now apply IH|].
    destruct (H q (or_introl eq_refl)) as [K|K]; [congruence|].
    destruct (can_create pf n); cbn [negb].
    - rewrite K. specialize (IH n Hr). cp_step ex r n c d Er. cbn [fst] in IH. cbn [stored flat_map snd app]. exact IH.
    - specialize (IH n Hr). cp_step ex r n c d Er. exact IH.
  Qed.

  (** with budget m the loop PLACES at most m - n further comments (Create calls that are skipped are free) *)
  Lemma cp_budget m ex pend n :
    (forall k, can_create pf k = (k <? m)) -> List.length (stored (fst (create_phase pf ex pend n))) <= m - n.
  Proof.
    intros Hb. revert n. induction pend as [|q r IH]; intros n; cbn [create_phase]; [cbn; lia|].
    destruct (covered_by pf ex q); auto. rewrite Hb. destruct (n <? m) eqn:El; cbn [negb].
    - apply Nat.ltb_lt in El. destruct (create pf q) as [e|] eqn:Eq.
      + specialize (IH (S n)). cp_step ex r (S n) c d Er. cbn [fst] in IH. cbn [stored flat_map snd app List.length] in *.
        fold (stored c). lia.
      + specialize (IH n). cp_step ex r n c d Er. cbn [fst] in IH. cbn [stored flat_map snd app] in *. fold (stored c). lia.
    - specialize (IH n). cp_step ex r n c d Er. exact IH.
  Qed.

  (** the placeable comments refused by the budget: exactly those beyond the first m - n uncovered placeable ones *)
  Lemma cp_deferred_length m ex pend n :
    (forall k, can_create pf k = (k <? m)) ->
    List.length (filter (placeable pf) (snd (create_phase pf ex pend n))) = List.length (todo pf ex pend) - (m - n).
  Proof.
    intros Hb. revert n. induction pend as [|q r IH]; intros n; cbn [create_phase todo filter]; [reflexivity|].
    fold (todo pf ex r). destruct (covered_by pf ex q); cbn [negb andb]; auto.
    rewrite Hb. destruct (n <? m) eqn:El; cbn [negb].
    - apply Nat.ltb_lt in El. unfold placeable at 2. destruct (create pf q) as [e|] eqn:Eq.
      + specialize (IH (S n)). cp_step ex r (S n) c d Er. cbn [snd] in IH. cbn [List.length]. lia.
      + specialize (IH n). cp_step ex r n c d Er. cbn [snd] in IH. lia.
    - apply Nat.ltb_ge in El. specialize (IH n). cp_step ex r n c d Er. cbn [snd] in IH. cbn [filter].
      destruct (placeable pf q); cbn [List.length]; lia.
  Qed.

  (** counting: placeable comments still uncovered w.r.t. [cov'] are among the deferred placeable ones *)
  Lemma cp_uncovered_le (cov' : P -> bool) ex pend n :
    (forall p, In p pend -> covered_by pf ex p = true -> cov' p = true) ->
    (forall p e, In (p, Some e) (fst (create_phase pf ex pend n)) -> cov' p = true) ->
    List.length (filter (fun p => negb (cov' p) && placeable pf p) pend) <=
    List.length (filter (placeable pf) (snd (create_phase pf ex pend n))).
  Proof.
    revert n. induction pend as [|q r IH]; intros n H1 H2; cbn [create_phase filter]; [cbn; lia|].
    cbn [create_phase] in H2.
    assert (H1r : forall p, In p r -> covered_by pf ex p = true -> cov' p = true) by (intros p Hp; apply H1; now right).
    destruct (covered_by pf ex q) eqn:Ec.
    - rewrite (H1 q) by (auto; now left). cbn [negb andb]. apply IH; auto.
    - destruct (can_create pf n); cbn [negb] in *.
      + unfold placeable at 1. destruct (create pf q) as [e|] eqn:Eq.
        * destruct (create_phase pf ex r (S n)) as [c d] eqn:Er. cbn [fst snd] in *.
          rewrite (H2 q e) by now left. cbn [negb andb].
          specialize (IH (S n)). rewrite Er in IH. cbn [fst snd] in IH. apply IH; auto.
          intros p e' Hin. apply (H2 p e'). now right.
        * destruct (create_phase pf ex r n) as [c d] eqn:Er. cbn [fst snd] in *.
          rewrite andb_false_r.
          specialize (IH n). rewrite Er in IH. cbn [fst snd] in IH. apply IH; auto.
          intros p e' Hin. apply (H2 p e'). now right.
      + destruct (create_phase pf ex r n) as [c d] eqn:Er. cbn [fst snd] in *.
        specialize (IH n). rewrite Er in IH. cbn [fst snd] in IH.
        assert (List.length (filter (fun p => negb (cov' p) && placeable pf p) r) <= List.length (filter (placeable pf) d)) as Hle
          by (apply IH; auto).
        cbn [filter]. destruct (placeable pf q); [|rewrite andb_false_r; exact Hle].
        destruct (negb (cov' q)); cbn [andb List.length]; lia.
  Qed.

  (* ---- one run -------------------------------------------------------------------------------- *)

  Lemma stale_false_of_equal pend e p : In p pend -> is_equal pf e p = true -> stale pf pend e = false.
  Proof.
    intros Hp He. unfold stale. replace (existsb (fun p0 => is_equal pf e p0) pend) with true; auto.
    symmetry. apply existsb_exists. eauto.
  Qed.

  Lemma stored_in (c : list (P * option E)) (e : E) : In e (stored c) <-> exists p, In (p, Some e) c.
  Proof.
    unfold stored. rewrite in_flat_map. split.
    - intros ([p [e'|]] & Hin & He); cbn in He; [destruct He as [<-|[]]; eauto|destruct He].
    - intros (p & Hin). exists (p, Some e). split; auto. now left.
  Qed.

  Lemma covered_by_iff store p : covered_by pf store p = true <-> exists e, In e store /\ is_equal pf e p = true.
  Proof. unfold covered_by. apply existsb_exists. Qed.

  (** covered_or_deferred: after a run every pending comment is IsEqual to a store element, or was refused by
      CanCreate, or Create silently skipped it (stored nothing). *)
  Lemma covered_or_deferred store pend :
    L1 pend ->
    forall p, In p pend ->
      covered_by pf (fst (step pf store pend)) p = true \/
      In p (l_deferred (snd (step pf store pend))) \/
      (In (p, None) (l_created (snd (step pf store pend))) /\ create pf p = None).
  Proof.
    intros HL p Hp. unfold step. pose proof (cp_cases store pend 0 p Hp) as Hc.
    destruct (create_phase pf store pend 0) as [c d] eqn:Ecp. cbn [fst snd l_deferred l_created] in *.
    destruct Hc as [Hc|[Hc|Hc]]; auto.
    - left. apply covered_by_iff in Hc. destruct Hc as (e & He & Heq). apply covered_by_iff. exists e. split; auto.
      apply in_or_app. left. apply filter_In. split; auto. now rewrite (stale_false_of_equal pend e p).
    - destruct (create pf p) as [e|] eqn:Ec; [left|right; right; auto].
      apply covered_by_iff. exists e. split; [|now apply (HL p e)].
      apply in_or_app. right. apply stored_in. eauto.
  Qed.

  (** the number of comments PLACED by a run never exceeds the budget (skipped Create calls are not counted) *)
  Lemma created_le_budget m store pend :
    (forall k, can_create pf k = (k <? m)) -> List.length (stored (l_created (snd (step pf store pend)))) <= m.
  Proof.
    intros Hb. unfold step. pose proof (cp_budget m store pend 0 Hb) as H.
    destruct (create_phase pf store pend 0) as [c d]. cbn [fst snd l_created] in *. lia.
  Qed.

  (** no_duplicate_creation: Create is never called for a comment IsEqual to a pre-existing one *)
  Lemma no_duplicate_creation store pend p oe :
    In (p, oe) (l_created (snd (step pf store pend))) ->
    In p pend /\ forall e, In e store -> is_equal pf e p = false.
  Proof.
    unfold step. destruct (create_phase pf store pend 0) as [c d] eqn:Ecp. cbn [snd l_created]. intros H.
    pose proof (cp_created store pend 0 p oe) as K. rewrite Ecp in K. cbn [fst] in K. destruct (K H) as (Hp & Hc & _).
    split; auto. intros e He. destruct (is_equal pf e p) eqn:Eq; auto.
    assert (covered_by pf store p = true) by (apply covered_by_iff; eauto). congruence.
  Qed.

  (** stale_removed: exactly the deletable existing comments equal to no pending one are deleted and gone from
      the kept part of the store; every other existing comment is untouched *)
  Lemma stale_removed store pend e :
    In e store ->
    (stale pf pend e = true -> In e (l_deleted (snd (step pf store pend))) /\
                               ~ In e (filter (fun x => negb (stale pf pend x)) store)) /\
    (stale pf pend e = false -> In e (fst (step pf store pend)) /\ ~ In e (l_deleted (snd (step pf store pend)))).
  Proof.
    intros He. unfold step. destruct (create_phase pf store pend 0) as [c d]. cbn [fst snd l_deleted]. split; intros Hs.
    - split; [apply filter_In; auto|]. intros H. apply filter_In in H. rewrite Hs in H. destruct H; discriminate.
    - split; [apply in_or_app; left; apply filter_In; rewrite Hs; auto|].
      intros H. apply filter_In in H. destruct H; congruence.
  Qed.

  Lemma deleted_spec store pend e :
    In e (l_deleted (snd (step pf store pend))) ->
    In e store /\ can_delete pf e = true /\ forall p, In p pend -> is_equal pf e p = false.
  Proof.
    unfold step. destruct (create_phase pf store pend 0) as [c d]. cbn [snd l_deleted]. intros H.
    apply filter_In in H. destruct H as [He Hs]. unfold stale in Hs. apply andb_true_iff in Hs. destruct Hs as [Hn Hd].
    repeat split; auto. intros p Hp. destruct (is_equal pf e p) eqn:Eq; auto.
    assert (existsb (fun p0 => is_equal pf e p0) pend = true) as Hx by (apply existsb_exists; eauto).
    rewrite Hx in Hn. discriminate.
  Qed.

  Lemma filter_all {A} (f : A -> bool) l : (forall x, In x l -> f x = true) -> filter f l = l.
  Proof.
    induction l as [|a l IH]; intros H; cbn [filter]; auto. rewrite (H a) by now left.
    f_equal. apply IH. intros x Hx. apply H. now right.
  Qed.

  Lemma filter_none {A} (f : A -> bool) l : (forall x, In x l -> f x = false) -> filter f l = [].
  Proof.
    induction l as [|a l IH]; intros H; cbn [filter]; auto. rewrite (H a) by now left.
    apply IH. intros x Hx. apply H. now right.
  Qed.

  (** idempotent: when a run deferred no comment that could have been placed, repeating it with the same pending
      list stores nothing, deletes nothing and leaves the store as it is.  (Comments the platform cannot place
      are offered to Create again - and skipped again - in every run; they never enter the store.) *)
  Lemma idempotent store pend :
    L1 pend ->
    (forall p, In p (l_deferred (snd (step pf store pend))) -> create pf p = None) ->
    let store' := fst (step pf store pend) in
    fst (step pf store' pend) = store' /\
    stored (l_created (snd (step pf store' pend))) = [] /\
    l_deleted (snd (step pf store' pend)) = [] /\
    (forall p, In p (l_deferred (snd (step pf store' pend))) -> create pf p = None).
  Proof.
    intros HL Hd store'.
    assert (Hcov : forall p, In p pend -> covered_by pf store' p = true \/ create pf p = None).
    { intros p Hp. destruct (covered_or_deferred store pend HL p Hp) as [H|[H|[_ H]]]; auto. }
    assert (Hns : forall e, In e store' -> stale pf pend e = false).
    { intros e He. unfold store', step in He. destruct (create_phase pf store pend 0) as [c d] eqn:Ecp. cbn [fst] in He.
      apply in_app_or in He. destruct He as [He|He].
      - apply filter_In in He. destruct He as [_ He]. now apply negb_true_iff in He.
      - apply stored_in in He. destruct He as (p & Hin).
        pose proof (cp_created store pend 0 p (Some e)) as K. rewrite Ecp in K. cbn [fst] in K.
        destruct (K Hin) as (Hp & _ & Hc). apply (stale_false_of_equal pend e p Hp). apply (HL p e Hp). auto. }
    pose proof (cp_nothing_stored store' pend 0 Hcov) as Hst.
    assert (Hdef : forall p, In p (snd (create_phase pf store' pend 0)) -> create pf p = None).
    { intros p Hp. apply cp_deferred in Hp. destruct Hp as [Hp Hc]. destruct (Hcov p Hp); congruence. }
    unfold step at 1 2 3 4. destruct (create_phase pf store' pend 0) as [c d]. cbn [fst snd l_created l_deleted l_deferred] in *.
    rewrite Hst, app_nil_r. repeat split; auto.
    - apply filter_all. intros e He. now rewrite (Hns e He).
    - now apply filter_none.
  Qed.

  (* ---- repeated runs ---------------------------------------------------------------------------- *)

  Lemma run_n_snoc k store pend : fst (step pf (run_n pf k store pend) pend) = run_n pf k (fst (step pf store pend)) pend.
  Proof. revert store. induction k as [|k IH]; intros store; cbn [run_n]; auto. Qed.

  (** one run with budget m covers at least min(m, remaining) more of the pending comments that can be placed *)
  Lemma todo_decreases m store pend :
    L1 pend -> (forall k, can_create pf k = (k <? m)) ->
    List.length (todo pf (fst (step pf store pend)) pend) <= List.length (todo pf store pend) - m.
  Proof.
    intros HL Hb.
    pose proof (cp_deferred_length m store pend 0 Hb) as Hlen. rewrite Nat.sub_0_r in Hlen. rewrite <- Hlen.
    unfold todo. apply cp_uncovered_le.
    - intros p Hp Hc. apply covered_by_iff in Hc. destruct Hc as (e & He & Heq). apply covered_by_iff. exists e. split; auto.
      unfold step. destruct (create_phase pf store pend 0) as [c d]. cbn [fst].
      apply in_or_app. left. apply filter_In. split; auto. now rewrite (stale_false_of_equal pend e p).
    - intros p e Hin. pose proof (cp_created store pend 0 p (Some e) Hin) as (Hp & _ & Hoe).
      apply covered_by_iff. exists e. split; [|now apply (HL p e)].
      unfold step. destruct (create_phase pf store pend 0) as [c d] eqn:Ecp. cbn [fst] in *.
      apply in_or_app. right. apply stored_in. exists p. exact Hin.
  Qed.

  Lemma todo_after_runs m store pend k :
    L1 pend -> (forall k, can_create pf k = (k <? m)) ->
    List.length (todo pf (run_n pf k store pend) pend) <= List.length (todo pf store pend) - k * m.
  Proof.
    intros HL Hb. revert store. induction k as [|k IH]; intros store; cbn [run_n]; [lia|].
    specialize (IH (fst (step pf store pend))).
    pose proof (todo_decreases m store pend HL Hb). lia.
  Qed.

  Lemma filter_nil_forall {A} (f : A -> bool) l : filter f l = [] -> forall x, In x l -> f x = false.
  Proof.
    induction l as [|a l IH]; intros H x Hx; [destruct Hx|]. cbn [filter] in H.
    destruct (f a) eqn:Ea; [discriminate|]. destruct Hx as [<-|Hx]; auto.
  Qed.

  (** converges: with budget m, n placeable comments uncovered at the start and unchanged results, run k+1
      defers no comment that can be placed as soon as (k+1)*m >= n - whatever else is pending (comments on
      paths outside the pull request are skipped by Create and cost nothing) *)
  Lemma converges m store pend k :
    L1 pend -> (forall k, can_create pf k = (k <? m)) ->
    List.length (todo pf store pend) <= S k * m ->
    forall p, In p (l_deferred (snd (step pf (run_n pf k store pend) pend))) -> create pf p = None.
  Proof.
    intros HL Hb Hn.
    pose proof (todo_after_runs m store pend k HL Hb) as Hu.
    pose proof (cp_deferred_length m (run_n pf k store pend) pend 0 Hb) as Hlen.
    unfold step. destruct (create_phase pf (run_n pf k store pend) pend 0) as [c d]. cbn [snd l_deferred] in *.
    assert (Hz : filter (placeable pf) d = []) by (apply length_zero_iff_nil; cbn in Hn; lia).
    intros p Hp. pose proof (filter_nil_forall _ _ Hz p Hp) as K. unfold placeable in K.
    destruct (create pf p); [discriminate|reflexivity].
  Qed.

  (** ... and then everything that can be placed IS covered: after run k+1 nothing is left to do *)
  Lemma converged_todo_nil m store pend k :
    L1 pend -> (forall k, can_create pf k = (k <? m)) ->
    List.length (todo pf store pend) <= S k * m ->
    todo pf (run_n pf (S k) store pend) pend = [].
  Proof.
    intros HL Hb Hn. apply length_zero_iff_nil.
    pose proof (todo_after_runs m store pend (S k) HL Hb). lia.
  Qed.
End Generic.
