(** C17: generic theorems about one reporting run ([step]) and repeated runs over an abstract platform. *)
From Coq Require Import List ZArith NArith Bool Lia Arith.
From PintV Require Import Common.Bytes Model.CommentsReconcile.
Import ListNotations.
Local Open Scope nat_scope.

Section Generic.
  Context {E P : Type}.
  Variable pf : platform E P.

  (** platform law L1 on a pending list: what Create stores for a pending comment is IsEqual to it *)
  Definition L1 (pend : list P) : Prop :=
    forall p e, In p pend -> create pf p = Some e -> is_equal pf e p = true.

  (** platform law L2 for a key function: an existing comment equals pending comments of one key only *)
  Definition L2 {K} (pkey : P -> K) (pend : list P) : Prop :=
    forall e p p', In p pend -> In p' pend -> is_equal pf e p = true -> is_equal pf e p' = true -> pkey p = pkey p'.

  (* ---- the create loop ---------------------------------------------------------------------- *)

  Lemma cp_cases ex pend n p :
    In p pend ->
    covered_by pf ex p = true \/ In p (snd (create_phase pf ex pend n)) \/ In (p, create pf p) (fst (create_phase pf ex pend n)).
  Proof.
    revert n. induction pend as [|q r IH]; intros n Hin; [destruct Hin|]. cbn [create_phase].
    destruct (covered_by pf ex q) eqn:Ec.
    - destruct Hin as [->|Hin]; auto.
    - destruct (can_create pf n); cbn [negb].
      + destruct (create_phase pf ex r (S n)) as [c d] eqn:Er. cbn [fst snd].
        destruct Hin as [->|Hin]; [right; right; now left|].
        specialize (IH (S n) Hin). rewrite Er in IH. cbn [fst snd] in IH. intuition.
      + destruct (create_phase pf ex r n) as [c d] eqn:Er. cbn [fst snd].
        destruct Hin as [->|Hin]; [right; left; now left|].
        specialize (IH n Hin). rewrite Er in IH. cbn [fst snd] in IH. intuition.
  Qed.

  Lemma cp_created ex pend n p oe :
    In (p, oe) (fst (create_phase pf ex pend n)) -> In p pend /\ covered_by pf ex p = false /\ oe = create pf p.
  Proof.
    revert n. induction pend as [|q r IH]; intros n; cbn [create_phase]; [intros []|].
    destruct (covered_by pf ex q) eqn:Ec.
    - intros H. apply IH in H. intuition.
    - destruct (can_create pf n); cbn [negb].
      + destruct (create_phase pf ex r (S n)) as [c d] eqn:Er. cbn [fst]. intros [H|H].
        * inversion H; subst. intuition.
        * specialize (IH (S n)). rewrite Er in IH. apply IH in H. intuition.
      + destruct (create_phase pf ex r n) as [c d] eqn:Er. cbn [fst]. intros H.
        specialize (IH n). rewrite Er in IH. apply IH in H. intuition.
  Qed.

  Lemma cp_deferred ex pend n p :
    In p (snd (create_phase pf ex pend n)) -> In p pend /\ covered_by pf ex p = false.
  Proof.
    revert n. induction pend as [|q r IH]; intros n; cbn [create_phase]; [intros []|].
    destruct (covered_by pf ex q) eqn:Ec.
    - intros H. apply IH in H. intuition.
    - destruct (can_create pf n) eqn:Eb; cbn [negb].
      + destruct (create_phase pf ex r (S n)) as [c d] eqn:Er. cbn [snd]. intros H.
        specialize (IH (S n)). rewrite Er in IH. apply IH in H. intuition.
      + destruct (create_phase pf ex r n) as [c d] eqn:Er. cbn [snd]. intros [H|H].
        * subst. intuition.
        * specialize (IH n). rewrite Er in IH. apply IH in H. intuition.
  Qed.

  Lemma cp_all_covered ex pend n :
    (forall p, In p pend -> covered_by pf ex p = true) -> create_phase pf ex pend n = ([], []).
  Proof.
    induction pend as [|q r IH]; intros H; cbn [create_phase]; auto.
    rewrite (H q) by now left. apply IH. intros p Hp. apply H. now right.
  Qed.

  (** with budget m the loop issues at most m - n further Create calls *)
  Lemma cp_budget m ex pend n :
    (forall k, can_create pf k = (k <? m)) -> List.length (fst (create_phase pf ex pend n)) <= m - n.
  Proof.
    intros Hb. revert n. induction pend as [|q r IH]; intros n; cbn [create_phase]; [cbn; lia|].
    destruct (covered_by pf ex q); auto. rewrite Hb. destruct (n <? m) eqn:El; cbn [negb].
    - apply Nat.ltb_lt in El. specialize (IH (S n)). destruct (create_phase pf ex r (S n)) as [c d]. cbn [fst List.length] in *. lia.
    - specialize (IH n). destruct (create_phase pf ex r n) as [c d]. cbn [fst] in *. exact IH.
  Qed.

  Lemma cp_deferred_length m ex pend n :
    (forall k, can_create pf k = (k <? m)) ->
    List.length (snd (create_phase pf ex pend n)) = List.length (uncovered pf ex pend) - (m - n).
  Proof.
    intros Hb. revert n. induction pend as [|q r IH]; intros n; cbn [create_phase uncovered filter]; [reflexivity|].
    fold (uncovered pf ex r). destruct (covered_by pf ex q); cbn [negb]; auto.
    rewrite Hb. destruct (n <? m) eqn:El; cbn [negb].
    - apply Nat.ltb_lt in El. specialize (IH (S n)). destruct (create_phase pf ex r (S n)) as [c d]. cbn [snd List.length] in *. lia.
    - apply Nat.ltb_ge in El. specialize (IH n). destruct (create_phase pf ex r n) as [c d]. cbn [snd List.length] in *. lia.
  Qed.

  (** counting: comments still uncovered w.r.t. [cov'] are among the deferred ones *)
  Lemma cp_uncovered_le (cov' : P -> bool) ex pend n :
    (forall p, In p pend -> covered_by pf ex p = true -> cov' p = true) ->
    (forall p oe, In (p, oe) (fst (create_phase pf ex pend n)) -> cov' p = true) ->
    List.length (filter (fun p => negb (cov' p)) pend) <= List.length (snd (create_phase pf ex pend n)).
  Proof.
    revert n. induction pend as [|q r IH]; intros n H1 H2; cbn [create_phase filter]; [cbn; lia|].
    cbn [create_phase] in H2. destruct (covered_by pf ex q) eqn:Ec.
    - rewrite (H1 q) by (auto; now left). cbn [negb]. apply IH; auto. intros p Hp. apply H1. now right.
    - destruct (can_create pf n); cbn [negb] in *.
      + destruct (create_phase pf ex r (S n)) as [c d] eqn:Er. cbn [fst snd] in *.
        rewrite (H2 q (create pf q)) by now left. cbn [negb].
        specialize (IH (S n)). rewrite Er in IH. cbn [fst snd] in IH. apply IH.
        * intros p Hp. apply H1. now right.
        * intros p oe Hin. apply (H2 p oe). now right.
      + destruct (create_phase pf ex r n) as [c d] eqn:Er. cbn [fst snd] in *.
        specialize (IH n). rewrite Er in IH. cbn [fst snd] in IH.
        assert (List.length (filter (fun p => negb (cov' p)) r) <= List.length d) as Hle.
        { apply IH; auto. intros p Hp. apply H1. now right. }
        destruct (negb (cov' q)); cbn [List.length]; lia.
  Qed.

  (* ---- one run -------------------------------------------------------------------------------- *)

  Lemma stale_false_of_equal pend e p : In p pend -> is_equal pf e p = true -> stale pf pend e = false.
  Proof.
    intros Hp He. unfold stale. replace (existsb (fun p0 => is_equal pf e p0) pend) with true; auto.
    symmetry. apply existsb_exists. eauto.
  Qed.

  Lemma stored_in (c : list (P * option E)) (e : E) : In e (stored c) <-> exists p, In (p, Some e) c.
  Proof.
    unfold stored. rewrite in_flat_map. split.
    - intros ([p [e'|]] & Hin & He); cbn in He; [destruct He as [<-|[]]; eauto|destruct He].
    - intros (p & Hin). exists (p, Some e). split; auto. now left.
  Qed.

  Lemma covered_by_iff store p : covered_by pf store p = true <-> exists e, In e store /\ is_equal pf e p = true.
  Proof. unfold covered_by. apply existsb_exists. Qed.

  (** covered_or_deferred: after a run every pending comment is IsEqual to a store element, or was refused by
      CanCreate, or Create silently skipped it (stored nothing). *)
  Lemma covered_or_deferred store pend :
    L1 pend ->
    forall p, In p pend ->
      covered_by pf (fst (step pf store pend)) p = true \/
      In p (l_deferred (snd (step pf store pend))) \/
      (In (p, None) (l_created (snd (step pf store pend))) /\ create pf p = None).
  Proof.
    intros HL p Hp. unfold step. pose proof (cp_cases store pend 0 p Hp) as Hc.
    destruct (create_phase pf store pend 0) as [c d] eqn:Ecp. cbn [fst snd l_deferred l_created] in *.
    destruct Hc as [Hc|[Hc|Hc]]; auto.
    - left. apply covered_by_iff in Hc. destruct Hc as (e & He & Heq). apply covered_by_iff. exists e. split; auto.
      apply in_or_app. left. apply filter_In. split; auto. now rewrite (stale_false_of_equal pend e p).
    - destruct (create pf p) as [e|] eqn:Ec; [left|right; right; auto].
      apply covered_by_iff. exists e. split; [|now apply (HL p e)].
      apply in_or_app. right. apply stored_in. eauto.
  Qed.

  (** the number of Create calls of a run never exceeds the budget *)
  Lemma created_le_budget m store pend :
    (forall k, can_create pf k = (k <? m)) -> List.length (l_created (snd (step pf store pend))) <= m.
  Proof.
    intros Hb. unfold step. pose proof (cp_budget m store pend 0 Hb) as H.
    destruct (create_phase pf store pend 0) as [c d]. cbn [fst snd l_created] in *. lia.
  Qed.

  (** no_duplicate_creation: Create is never called for a comment IsEqual to a pre-existing one *)
  Lemma no_duplicate_creation store pend p oe :
    In (p, oe) (l_created (snd (step pf store pend))) ->
    In p pend /\ forall e, In e store -> is_equal pf e p = false.
  Proof.
    unfold step. destruct (create_phase pf store pend 0) as [c d] eqn:Ecp. cbn [snd l_created]. intros H.
    pose proof (cp_created store pend 0 p oe) as K. rewrite Ecp in K. cbn [fst] in K. destruct (K H) as (Hp & Hc & _).
    split; auto. intros e He. destruct (is_equal pf e p) eqn:Eq; auto.
    assert (covered_by pf store p = true) by (apply covered_by_iff; eauto). congruence.
  Qed.

  (** stale_removed: exactly the deletable existing comments equal to no pending one are deleted and gone from
      the kept part of the store; every other existing comment is untouched *)
  Lemma stale_removed store pend e :
    In e store ->
    (stale pf pend e = true -> In e (l_deleted (snd (step pf store pend))) /\
                               ~ In e (filter (fun x => negb (stale pf pend x)) store)) /\
    (stale pf pend e = false -> In e (fst (step pf store pend)) /\ ~ In e (l_deleted (snd (step pf store pend)))).
  Proof.
    intros He. unfold step. destruct (create_phase pf store pend 0) as [c d]. cbn [fst snd l_deleted]. split; intros Hs.
    - split; [apply filter_In; auto|]. intros H. apply filter_In in H. rewrite Hs in H. destruct H; discriminate.
    - split; [apply in_or_app; left; apply filter_In; rewrite Hs; auto|].
      intros H. apply filter_In in H. destruct H; congruence.
  Qed.

  Lemma deleted_spec store pend e :
    In e (l_deleted (snd (step pf store pend))) ->
    In e store /\ can_delete pf e = true /\ forall p, In p pend -> is_equal pf e p = false.
  Proof.
    unfold step. destruct (create_phase pf store pend 0) as [c d]. cbn [snd l_deleted]. intros H.
    apply filter_In in H. destruct H as [He Hs]. unfold stale in Hs. apply andb_true_iff in Hs. destruct Hs as [Hn Hd].
    repeat split; auto. intros p Hp. destruct (is_equal pf e p) eqn:Eq; auto.
    assert (existsb (fun p0 => is_equal pf e p0) pend = true) as Hx by (apply existsb_exists; eauto).
    rewrite Hx in Hn. discriminate.
  Qed.

  Lemma filter_all {A} (f : A -> bool) l : (forall x, In x l -> f x = true) -> filter f l = l.
  Proof.
    induction l as [|a l IH]; intros H; cbn [filter]; auto. rewrite (H a) by now left.
    f_equal. apply IH. intros x Hx. apply H. now right.
  Qed.

  Lemma filter_none {A} (f : A -> bool) l : (forall x, In x l -> f x = false) -> filter f l = [].
  Proof.
    induction l as [|a l IH]; intros H; cbn [filter]; auto. rewrite (H a) by now left.
    apply IH. intros x Hx. apply H. now right.
  Qed.

  (** idempotent: when a run deferred nothing and skipped nothing, repeating it with the same pending list
      creates nothing, deletes nothing and leaves the store as it is *)
  Lemma idempotent store pend :
    L1 pend ->
    l_deferred (snd (step pf store pend)) = [] ->
    (forall p, ~ In (p, None) (l_created (snd (step pf store pend)))) ->
    let store' := fst (step pf store pend) in
    step pf store' pend = (store', {| l_created := []; l_deferred := []; l_deleted := [] |}).
  Proof.
    intros HL Hd Hs store'.
    assert (Hcov : forall p, In p pend -> covered_by pf store' p = true).
    { intros p Hp. destruct (covered_or_deferred store pend HL p Hp) as [H|[H|[H _]]]; auto.
      - rewrite Hd in H. destruct H.
      - exfalso. eapply Hs; eauto. }
    assert (Hns : forall e, In e store' -> stale pf pend e = false).
    { intros e He. unfold store', step in He. destruct (create_phase pf store pend 0) as [c d] eqn:Ecp. cbn [fst] in He.
      apply in_app_or in He. destruct He as [He|He].
      - apply filter_In in He. destruct He as [_ He]. now apply negb_true_iff in He.
      - apply stored_in in He. destruct He as (p & Hin).
        pose proof (cp_created store pend 0 p (Some e)) as K. rewrite Ecp in K. cbn [fst] in K.
        destruct (K Hin) as (Hp & _ & Hc). apply (stale_false_of_equal pend e p Hp). apply (HL p e Hp). auto. }
    unfold step at 1. rewrite (cp_all_covered store' pend 0 Hcov). cbn [stored flat_map]. rewrite app_nil_r.
    f_equal.
    - apply filter_all. intros e He. now rewrite (Hns e He).
    - f_equal. now apply filter_none.
  Qed.

  (* ---- repeated runs ---------------------------------------------------------------------------- *)

  (** one run with budget m covers at least min(m, uncovered) more pending comments *)
  Lemma uncovered_decreases m store pend :
    L1 pend -> (forall k, can_create pf k = (k <? m)) -> (forall p, In p pend -> create pf p <> None) ->
    List.length (uncovered pf (fst (step pf store pend)) pend) <= List.length (uncovered pf store pend) - m.
  Proof.
    intros HL Hb Hskip.
    pose proof (cp_deferred_length m store pend 0 Hb) as Hlen. rewrite Nat.sub_0_r in Hlen. rewrite <- Hlen.
    unfold uncovered. apply cp_uncovered_le.
    - intros p Hp Hc. destruct (covered_or_deferred store pend HL p Hp) as [H|[H|[H _]]]; auto.
      + unfold step in H. destruct (create_phase pf store pend 0) as [c d] eqn:Ecp. cbn [snd l_deferred] in H.
        pose proof (cp_deferred store pend 0 p) as K. rewrite Ecp in K. cbn [snd] in K. destruct (K H). congruence.
      + unfold step in H. destruct (create_phase pf store pend 0) as [c d] eqn:Ecp. cbn [snd l_created] in H.
        pose proof (cp_created store pend 0 p None) as K. rewrite Ecp in K. cbn [fst] in K. destruct (K H) as (_ & K2 & _). congruence.
    - intros p oe Hin. pose proof (cp_created store pend 0 p oe Hin) as (Hp & _ & Hoe).
      destruct (create pf p) as [e|] eqn:Ec; [|exfalso; now apply (Hskip p Hp)].
      apply covered_by_iff. exists e. split; [|now apply (HL p e)].
      unfold step. destruct (create_phase pf store pend 0) as [c d] eqn:Ecp. cbn [fst] in *.
      apply in_or_app. right. apply stored_in. exists p. now rewrite <- Hoe.
  Qed.

  Lemma uncovered_after_runs m store pend k :
    L1 pend -> (forall k, can_create pf k = (k <? m)) -> (forall p, In p pend -> create pf p <> None) ->
    List.length (uncovered pf (run_n pf k store pend) pend) <= List.length (uncovered pf store pend) - k * m.
  Proof.
    intros HL Hb Hskip. revert store. induction k as [|k IH]; intros store; cbn [run_n]; [lia|].
    specialize (IH (fst (step pf store pend))).
    pose proof (uncovered_decreases m store pend HL Hb Hskip). lia.
  Qed.

  (** converges: with budget m >= 1, n comments uncovered at the start and unchanged results, the k-th run
      defers nothing as soon as k*m >= n, and every later run creates and deletes nothing *)
  Lemma converges m store pend k :
    L1 pend -> (forall k, can_create pf k = (k <? m)) -> (forall p, In p pend -> create pf p <> None) ->
    List.length (uncovered pf store pend) <= S k * m ->
    l_deferred (snd (step pf (run_n pf k store pend) pend)) = [].
  Proof.
    intros HL Hb Hskip Hn.
    pose proof (uncovered_after_runs m store pend k HL Hb Hskip) as Hu.
    pose proof (cp_deferred_length m (run_n pf k store pend) pend 0 Hb) as Hlen.
    unfold step. destruct (create_phase pf (run_n pf k store pend) pend 0) as [c d]. cbn [snd l_deferred] in *.
    apply length_zero_iff_nil. cbn in Hn. lia.
  Qed.
End Generic.
