(** C04, the "live branch" refinement on expressions without constant vectors ([novc]): every vector-typed result
    branch of the analyser has AlwaysReturns = false and IsDead = false.  (All four dead-marking mechanisms of
    source.go need an always-returning operand.) *)
From Coq Require Import List String Bool Floats NArith Arith Lia.
From PintV Require Import Common.Bytes Gen.C04 Model.PromQL Model.Source Model.PromSem Model.PromFrag Model.PromLive
  Proofs.C04_lists Proofs.C04_transfer Proofs.C04_walk Proofs.C04_sound Proofs.C04_calls Proofs.C04_binops Proofs.C04_main.
Import ListNotations.
Open Scope string_scope.
Open Scope list_scope.

(** same AlwaysReturns / IsDead / Returns *)
Definition dpr (s s' : source) : Prop :=
  s_always s = s_always s' /\ s_dead s = s_dead s' /\ s_returns s = s_returns s'.

Lemma dpr_refl s : dpr s s. Proof. repeat split. Qed.
Lemma dpr_trans a b c : dpr a b -> dpr b c -> dpr a c.
Proof. unfold dpr. intuition congruence. Qed.

Lemma dpr_fold {X} (f : source -> X -> source) :
  (forall s x, dpr (f s x) s) -> forall l s, dpr (fold_left f l s) s.
Proof.
  intros Hf l. induction l as [|x r IH]; intros s; simpl; [apply dpr_refl|].
  eapply dpr_trans; [apply IH | apply Hf].
Qed.

Lemma dpr_exclude s ns : dpr (exclude_label s ns) s. Proof. repeat split. Qed.

Lemma dpr_maybe_include s ns : dpr (maybe_include_label s ns) s.
Proof.
  unfold maybe_include_label. apply dpr_fold. intros s0 x. destruct (mem_str x (s_excluded s0)); repeat split.
Qed.

Lemma dpr_exclude_metric_name s w g : dpr (exclude_metric_name s w g) s.
Proof. unfold exclude_metric_name. destruct (_ && _); repeat split. Qed.

Definition isv (s : source) : bool := is_vec_or_matrix (s_returns s).

Definition quiet (s : source) : Prop := s_always s = false /\ s_dead s = false.

Lemma quiet_dpr s s' : dpr s s' -> quiet s' -> quiet s.
Proof. intros [A [D _]] [Q1 Q2]. unfold quiet. rewrite A, D. split; assumption. Qed.

Lemma sel_src_quiet ms : quiet (sel_src ms).
Proof.
  unfold sel_src.
  match goal with |- quiet (fold_left ?f ?names ?s0) =>
    apply (quiet_dpr _ s0 (dpr_fold f (fun s x => dpr_exclude s [x]) names s0)) end.
  split; reflexivity.
Qed.

Lemma pa1_dpr s w g : s_always (parse_aggregation1 s w g) = s_always s /\ s_dead (parse_aggregation1 s w g) = s_dead s.
Proof.
  unfold parse_aggregation1. cbn [s_always s_dead set_returns set_type].
  destruct w; [split; reflexivity|]. cbn [s_always s_dead set_fixed].
  destruct g as [|g0 gr]; [split; reflexivity|].
  destruct (negb (s_fixed s)); [|split; reflexivity].
  destruct (dpr_maybe_include s (g0 :: gr)) as [Ha [Hd _]].
  cbn [restrict_included restrict_guaranteed s_always s_dead set_included set_guaranteed]. split; assumption.
Qed.

Lemma agg_src_quiet op w g p s : quiet s -> quiet (agg_src op w g p s).
Proof.
  intros [Qa Qd]. destruct (pa1_dpr s w g) as [Ha Hd].
  assert (H2 : forall o, quiet (exclude_metric_name (set_operation (parse_aggregation1 s w g) o) w g)).
  { intros o. apply (quiet_dpr _ _ (dpr_exclude_metric_name _ w g)). split; cbn [s_always s_dead set_operation]; congruence. }
  unfold agg_src. destruct op; try apply H2.
  destruct (w || negb (String.eqb (str_of_expr p) metric_name)).
  - apply (quiet_dpr _ _ (dpr_exclude_metric_name _ w g)).
    destruct (lit_of p); split; cbn [s_always s_dead guarantee_label include_label set_excluded set_included set_guaranteed set_operation]; congruence.
  - destruct (lit_of p); split; cbn [s_always s_dead guarantee_label include_label set_excluded set_included set_guaranteed set_operation]; congruence.
Qed.

Lemma fold_absent_dead names : forall s,
  s_dead (fold_left (fun s name => guarantee_label (include_label s [name]) [name]) names s) = s_dead s.
Proof. intros s. destruct (fold_absent_flags names s) as [H _]. exact H. Qed.

(** calls: every kind but "vector", "scalar" and time functions without arguments keeps (or clears) both flags *)
Lemma call_src_quiet f args a0 es :
  quiet es ->
  func_kind f <> "vector" -> func_kind f <> "scalar" -> (func_kind f = "timelike" -> args <> []) ->
  isv (call_src f args a0 es) = true -> quiet (call_src f args a0 es).
Proof.
  intros [Qa Qd] Hv Hs Ht. rewrite call_src_unfold. unfold parse_promql_func.
  destruct (String.eqb (func_kind f) "preserve") eqn:E1; [intros _; split; assumption|].
  destruct (String.eqb (func_kind f) "sort") eqn:E2; [intros _; split; assumption|].
  destruct (String.eqb (func_kind f) "scalar") eqn:E3; [apply String.eqb_eq in E3; congruence|].
  destruct (String.eqb (func_kind f) "absent") eqn:E4.
  { intros _. apply String.eqb_eq in E4.
    destruct (ppf_absent_flags (pre_call f args es) f args a0 E4) as [Hd [Ha _]].
    rewrite (ppf_absent _ _ _ _ E4) in Hd, Ha. split; assumption. }
  destruct (String.eqb (func_kind f) "timelike") eqn:E5.
  { apply String.eqb_eq in E5. specialize (Ht E5). destruct args; [congruence|]. intros _. split; assumption. }
  destruct (String.eqb (func_kind f) "arg1") eqn:E6; [intros _; destruct (lit_of (nth_error args 1)); split; assumption|].
  destruct (String.eqb (func_kind f) "vector") eqn:E7; [apply String.eqb_eq in E7; congruence|].
  intros H. discriminate.
Qed.

Lemma In_call_srcs_idx (w : expr -> list source) F ats s : forall args k,
  In s (call_srcs w F ats k args) ->
  exists j a s0, nth_error args j = Some a /\ is_vec_or_matrix (arg_type ats (k + j)) = true /\ In s0 (w a) /\ s = F s0.
Proof.
  induction args as [|a r IH]; intros k H; simpl in H; [tauto|].
  apply in_app_or in H. destruct H as [H|H].
  - destruct (is_vec_or_matrix (arg_type ats k)) eqn:E; [|simpl in H; tauto].
    apply in_map_iff in H. destruct H as [s0 [He Hin]]. exists 0%nat, a, s0. rewrite Nat.add_0_r. simpl. auto.
  - apply IH in H. destruct H as [j [a' [s0 [H1 [H2 [H3 H4]]]]]]. exists (S j), a', s0.
    replace (k + S j)%nat with (S k + j)%nat by lia. simpl. auto.
Qed.

Lemma single_vec_arg_spec ats args i j a :
  single_vec_arg ats args = true -> first_vec_arg ats (List.length args) 0 = Some i ->
  nth_error args j = Some a -> is_vec_or_matrix (arg_type ats j) = true -> j = i.
Proof.
  unfold single_vec_arg. intros H Hf Hn Hv. rewrite Hf in H. rewrite forallb_forall in H.
  assert (Hj : In j (seq 0 (List.length args))).
  { apply in_seq. split; [lia|]. simpl. apply nth_error_Some. congruence. }
  specialize (H j Hj). apply orb_true_iff in H. destruct H as [H|H].
  - apply Nat.eqb_eq in H. exact H.
  - change (is_vec_or_matrix_t (arg_type_of ats j)) with (is_vec_or_matrix (arg_type ats j)) in H. rewrite Hv in H. discriminate.
Qed.

Lemma first_vec_arg_none ats : forall n k, first_vec_arg ats n k = None ->
  forall j, (k <= j < k + n)%nat -> is_vec_or_matrix (arg_type ats j) = false.
Proof.
  induction n as [|n IH]; intros k H j Hj; [lia|]. simpl in H.
  destruct (is_vec_or_matrix_t (arg_type_of ats k)) eqn:E; [discriminate|].
  destruct (Nat.eq_dec j k) as [->|Hne]; [exact E|]. apply (IH (S k) H). lia.
Qed.

Section Live.
  Variables fmod fpow : float -> float -> float.
  Notation walk := (walk_node fmod fpow).
  Variable db : list labelset.

  Definition L (e : expr) : Prop :=
    wf e = true -> novc e = true -> forall R, Sem db e R ->
    forall s, In s (walk e) -> isv s = true -> quiet s.

  (** sources of an operand whose admitted result is a vector or a matrix are vector/matrix typed *)
  Lemma operand_isv e R s : wf e = true -> Sem db e R -> is_series_result R = true -> In s (walk e) -> isv s = true.
  Proof.
    intros Hwf HS Hr Hin. destruct (walk_sound fmod fpow db e Hwf R HS) as [I1 _]. specialize (I1 s Hin).
    destruct R; try discriminate; exact I1.
  Qed.

  Lemma static_off s rs : s_always s = false -> static_applies s rs = false.
  Proof. intros H. unfold static_applies. rewrite H. reflexivity. Qed.

  Lemma static_off_r s rs : s_always rs = false -> static_applies s rs = false.
  Proof. intros H. unfold static_applies. rewrite H. destruct (s_always s); reflexivity. Qed.

  Lemma apply_conditions_dpr s op rb : dpr (apply_conditions s op rb) s.
  Proof. unfold apply_conditions. destruct (check_conditions s op rb). repeat split. Qed.

  Lemma set_op_default_dpr s c : dpr (set_op_default s c) s.
  Proof. unfold set_op_default. destruct (String.eqb (s_operation s) ""); repeat split. Qed.

  Lemma add_joins_dpr vm others s : dpr (add_joins vm others s) s.
  Proof. unfold add_joins. apply dpr_fold. intros s0 x. repeat split. Qed.

  Lemma one_to_one_labels_dpr vm s : dpr (one_to_one_labels vm s) s.
  Proof. unfold one_to_one_labels. destruct (vm_on vm); repeat split. Qed.

  Lemma group_labels_dpr vm s : dpr (group_labels vm s) s.
  Proof. unfold group_labels. destruct (vm_on vm); repeat split. Qed.

  Lemma mtm_labels_dpr vm s : dpr (mtm_labels vm s) s.
  Proof. unfold mtm_labels. destruct (vm_on vm); repeat split. Qed.

  Lemma one_to_one_static_off op rb vm rhs : forall s,
    s_always s = false -> one_to_one_static fmod fpow op rb vm rhs s = s.
  Proof.
    intros s Ha. unfold one_to_one_static. destruct (vm_on vm); [reflexivity|].
    induction rhs as [|r rest IH]; simpl; [reflexivity|]. rewrite (static_off s _ Ha). exact IH.
  Qed.

  Lemma one_to_one_src_quiet op rb vm rhs s : quiet s -> quiet (one_to_one_src fmod fpow op rb vm rhs s).
  Proof.
    intros Q. unfold one_to_one_src.
    assert (Q1 : quiet (one_to_one_labels vm s)) by (apply (quiet_dpr _ _ (one_to_one_labels_dpr vm s)); exact Q).
    rewrite (one_to_one_static_off op rb vm rhs _ (proj1 Q1)).
    apply (quiet_dpr _ _ (apply_conditions_dpr _ op rb)).
    apply (quiet_dpr _ _ (add_joins_dpr vm rhs _)).
    apply (quiet_dpr _ _ (set_op_default_dpr _ _)). exact Q1.
  Qed.

  Lemma group_src_quiet op rb vm one s : quiet s -> quiet (group_src op rb vm one s).
  Proof.
    intros Q. unfold group_src.
    apply (quiet_dpr _ _ (apply_conditions_dpr _ op rb)).
    apply (quiet_dpr _ _ (add_joins_dpr vm one _)).
    apply (quiet_dpr _ _ (set_op_default_dpr _ _)).
    apply (quiet_dpr _ _ (group_labels_dpr vm s)). exact Q.
  Qed.

  Lemma mark_join_always s rs vm : s_always (mark_join s rs vm) = s_always rs.
  Proof. unfold mark_join. destruct (can_join s rs vm); reflexivity. Qed.

  Lemma mtm_fold_quiet op rb vm rhs :
    (forall rs, In rs rhs -> s_always rs = false) ->
    forall acc, quiet (fst acc) -> quiet (fst (fold_left (mtm_step op rb vm) rhs acc)).
  Proof.
    induction rhs as [|r rest IH]; intros Hr acc Q; simpl; [exact Q|].
    apply IH; [intros rs H; apply Hr; right; exact H|].
    destruct acc as [s rc]. unfold mtm_step. cbn [fst] in *.
    assert (Ha : s_always (mark_join s r vm) = false) by (rewrite mark_join_always; apply Hr; left; reflexivity).
    destruct op; cbn [fst]; try exact Q; try (destruct Q as [Q1 Q2]; split; assumption).
    rewrite Ha. rewrite andb_false_r. cbn [andb]. destruct Q as [Q1 Q2]. split; assumption.
  Qed.

  Lemma mtm_src_quiet op rb vm rhs s :
    (forall rs, In rs rhs -> s_always rs = false) -> quiet s -> quiet (fst (mtm_src op rb vm rhs s)).
  Proof.
    intros Hr Q. unfold mtm_src.
    assert (Q1 : quiet (set_op_default (mtm_labels vm s) (vm_card vm))).
    { apply (quiet_dpr _ _ (set_op_default_dpr _ _)). apply (quiet_dpr _ _ (mtm_labels_dpr vm s)). exact Q. }
    pose proof (mtm_fold_quiet op rb vm rhs Hr (set_op_default (mtm_labels vm s) (vm_card vm), false) Q1) as Q2.
    destruct (fold_left (mtm_step op rb vm) rhs (set_op_default (mtm_labels vm s) (vm_card vm), false)) as [s' rc].
    cbn [fst] in *. destruct (_ && _); [|exact Q2]. destruct Q2 as [A B]. split; assumption.
  Qed.

  Lemma mtm_src_can_be_empty op rb vm rhs s : s_always s = false -> snd (mtm_src op rb vm rhs s) = true.
  Proof.
    intros Ha. unfold mtm_src.
    assert (Ha' : s_always (set_op_default (mtm_labels vm s) (vm_card vm)) = false).
    { destruct (set_op_default_dpr (mtm_labels vm s) (vm_card vm)) as [E _]. rewrite E.
      destruct (mtm_labels_dpr vm s) as [E2 _]. rewrite E2. exact Ha. }
    destruct (fold_left (mtm_step op rb vm) rhs (set_op_default (mtm_labels vm s) (vm_card vm), false)) as [s' rc].
    cbn [snd]. rewrite Ha'. reflexivity.
  Qed.

  Lemma nil_pair_quiet op rb ls0 rs0 :
    (isv ls0 = true -> quiet ls0) -> (isv rs0 = true -> quiet rs0) ->
    isv (nil_pair fmod fpow op rb ls0 rs0) = true -> quiet (nil_pair fmod fpow op rb ls0 rs0).
  Proof.
    intros Hl Hr. unfold nil_pair, isv in *.
    set (ls := apply_conditions ls0 op rb). set (rs := apply_conditions rs0 op rb).
    destruct (apply_conditions_dpr ls0 op rb) as [La [Ld Lr]]. destruct (apply_conditions_dpr rs0 op rb) as [Ra [Rd Rr]].
    fold ls in La, Ld, Lr. fold rs in Ra, Rd, Rr. rewrite Lr, Rr.
    destruct (is_vec_or_matrix (s_returns ls0)) eqn:El.
    - destruct (Hl eq_refl) as [Q1 Q2]. rewrite (static_off ls rs) by congruence. intros _. split; congruence.
    - destruct (is_vec_or_matrix (s_returns rs0)) eqn:Er.
      + destruct (Hr eq_refl) as [Q1 Q2]. rewrite (static_off_r ls rs) by congruence. intros _. split; congruence.
      + destruct (static_applies ls rs).
        * unfold apply_static. destruct (calculate_static_return _ _ _ _ _ _). cbn [s_returns set_dead_label set_dead set_number].
          rewrite Lr, El. discriminate.
        * rewrite Lr, El. discriminate.
  Qed.

  Theorem live_branches : forall e, L e.
  Proof.
    induction e using expr_ind'; intros Hwf Hn R HS s0 Hin Hv.
    - destruct Hin as [<-|[]]. discriminate.
    - destruct Hin as [<-|[]]. discriminate.
    - destruct Hin as [<-|[]]. apply sel_src_quiet.
    - (* matrix *)
      apply Sem_inv in HS. destruct HS as [cs [Hc Hl]]. cbn [children] in Hc.
      apply Forall2_1 in Hc. destruct Hc as [c [-> Hc]]. cbn [wf] in Hwf. cbn [novc] in Hn.
      destruct c as [| |C|C|]; destruct R as [| |R0|R0|]; try discriminate.
      cbn [walk_node] in Hin. apply in_map_iff in Hin. destruct Hin as [s1 [<- H1]].
      assert (Q : quiet s1) by (apply (IHe Hwf Hn _ Hc s1 H1); apply (operand_isv e (RVec C) s1 Hwf Hc eq_refl H1)).
      destruct Q as [A B]. split; assumption.
    - (* subquery *)
      apply Sem_inv in HS. destruct HS as [cs [Hc Hl]]. cbn [children] in Hc.
      apply Forall2_1 in Hc. destruct Hc as [c [-> Hc]]. exact (IHe Hwf Hn _ Hc s0 Hin Hv).
    - (* paren *)
      apply Sem_inv in HS. destruct HS as [cs [Hc Hl]]. cbn [children] in Hc.
      apply Forall2_1 in Hc. destruct Hc as [c [-> Hc]]. exact (IHe Hwf Hn _ Hc s0 Hin Hv).
    - (* unary *)
      apply Sem_inv in HS. destruct HS as [cs [Hc Hl]]. cbn [children] in Hc.
      apply Forall2_1 in Hc. destruct Hc as [c [-> Hc]]. exact (IHe Hwf Hn _ Hc s0 Hin Hv).
    - (* aggregation *)
      apply Sem_inv in HS. destruct HS as [cs [Hc Hl]].
      cbn [wf] in Hwf. apply andb_true_iff in Hwf. destruct Hwf as [Hwa Hwf]. cbn [novc] in Hn.
      assert (Hop : exists C, Sem db e (RVec C)).
      { destruct p as [pe|]; cbn [children] in Hc.
        - apply Forall2_2 in Hc. destruct Hc as [cp [c [-> [_ Hc]]]]. cbn [local] in Hl.
          destruct cp; destruct c as [| |C| |]; destruct R; try discriminate; eauto.
        - apply Forall2_1 in Hc. destruct Hc as [c [-> Hc]]. cbn [local] in Hl.
          destruct c as [| |C| |]; destruct R; try discriminate; eauto. }
      destruct Hop as [C HSe].
      assert (Hq : forall s1, In s1 (walk e) -> quiet s1).
      { intros s1 H1. apply (IHe Hwf Hn _ HSe s1 H1). apply (operand_isv e (RVec C) s1 Hwf HSe eq_refl H1). }
      destruct op; cbn [walk_node] in Hin; try (apply in_map_iff in Hin; destruct Hin as [s1 [<- H1]]);
        try (apply agg_src_quiet; apply Hq; exact H1).
      + destruct (Hq s1 H1) as [A B]. split; assumption.
      + destruct (Hq s1 H1) as [A B]. split; assumption.
      + destruct Hin.
    - (* call *)
      apply Sem_inv in HS. destruct HS as [cs [Hc Hl]]. cbn [children] in Hc.
      cbn [wf] in Hwf. apply andb_true_iff in Hwf. destruct Hwf as [Hwc Hwa].
      cbn [novc] in Hn. apply andb_true_iff in Hn. destruct Hn as [Hn Hna]. apply andb_true_iff in Hn. destruct Hn as [Hcl Hsv].
      rewrite forallb_forall in Hwa, Hna. rewrite Forall_forall in H.
      unfold wf_call in Hwc.
      assert (Hne : sem_class f <> SCNone) by (intro E; rewrite E in Hwc; discriminate).
      pose proof (compat_of f Hne) as Hk. unfold compat in Hk.
      (* the kind is not "vector"/"scalar-with-vector-result"/time function without argument *)
      pose proof (call_ret fmod fpow f ats args s0 Hne Hin) as Hret.
      assert (Hkinds : func_kind f <> "vector" /\ (func_kind f = "scalar" -> isv s0 = false) /\ (func_kind f = "timelike" -> args <> [])).
      { destruct (sem_class f) eqn:Ec; try congruence.
        - apply orb_true_iff in Hk. destruct Hk as [Hk|Hk]; apply String.eqb_eq in Hk; rewrite Hk; repeat split; try discriminate.
        - apply String.eqb_eq in Hk. rewrite Hk. repeat split; discriminate.
        - apply String.eqb_eq in Hk. rewrite Hk. split; [discriminate|]. split; [|discriminate].
          intros _. unfold isv. rewrite Hret. reflexivity.
        - apply String.eqb_eq in Hk. rewrite Hk. split; [discriminate|]. split; [discriminate|].
          intros _ ->. discriminate.
        - apply String.eqb_eq in Hk. rewrite Hk. repeat split; discriminate. }
      destruct Hkinds as [Hk1 [Hk2 Hk3]].
      assert (Hk2' : func_kind f <> "scalar") by (intro E; rewrite (Hk2 E) in Hv; discriminate).
      (* where the source comes from *)
      cbn [walk_node] in Hin. fold (arg0_of fmod fpow args) in Hin.
      assert (Hes : exists es, s0 = call_src f args (arg0_of fmod fpow args) es /\ quiet es).
      { destruct (call_srcs walk (call_src f args (arg0_of fmod fpow args)) ats 0 args) as [|c0 cr] eqn:E.
        - destruct Hin as [<-|[]]. exists zero_source. split; [reflexivity | split; reflexivity].
        - rewrite <- E in Hin. apply In_call_srcs_idx in Hin. destruct Hin as [j [a [s1 [Hj [Hvj [H1 ->]]]]]].
          exists s1. split; [reflexivity|]. simpl in Hvj.
          assert (Hina : In a args) by (eapply nth_error_In; eauto).
          (* the argument's admitted result is a vector/matrix *)
          assert (Hser : exists Ca, Sem db a Ca /\ is_series_result Ca = true).
          { destruct (first_vec_arg ats (List.length args) 0) as [i|] eqn:Ef.
            - assert (j = i) by (eapply single_vec_arg_spec; eauto). subst j.
              cbn [local] in Hl. unfold call_rule in Hl.
              destruct (sem_class f) eqn:Ec; try congruence.
              + rewrite Ef in Hl. destruct R as [| |R0| |]; try discriminate.
                destruct (nth_error cs i) as [Ci|] eqn:En; [|discriminate].
                destruct (is_series_result Ci) eqn:Es; [|discriminate].
                destruct (Forall2_nth _ _ _ _ _ Hc En) as [a' [Ha' HSa]]. rewrite Hj in Ha'. inversion Ha'; subst a'. eauto.
              + (* absent: flags do not depend on the operand; any quiet-ness will do, but we still need a result *)
                destruct cs as [|C0 [|? ?]]; try discriminate. destruct R as [| |R0| |]; try discriminate.
                destruct args as [|a0 [|? ?]]; try discriminate.
                destruct (is_series_result C0) eqn:Es; [|discriminate].
                apply first_vec_arg_spec in Ef. destruct i as [|i]; [|simpl in Ef; lia].
                simpl in Hj. inversion Hj; subst a0. inversion Hc; subst. eauto.
              + exfalso. apply Hk2'. apply String.eqb_eq in Hk. exact Hk.
              + destruct cs as [|C0 [|? ?]]; destruct R as [| |R0| |]; try discriminate; try (destruct C0; discriminate).
                * inversion Hc; subst. destruct i; discriminate.
                * destruct C0 as [| |C0| |]; try discriminate. inversion Hc as [|a0 ? rargs ? HSa Hr]; subst. inversion Hr; subst.
                  apply first_vec_arg_spec in Ef. destruct i as [|i]; [|simpl in Ef; lia].
                  simpl in Hj. inversion Hj; subst a0. eauto.
              + destruct cs as [|C0 cs']; try discriminate. destruct C0 as [| |C0| |]; try discriminate.
                destruct args as [|a0 rargs]; try discriminate.
                inversion Hc as [|? ? ? ? HSa Hr]; subst.
                assert (i = 0%nat).
                { unfold first_vec_arg in Ef. simpl in Ef. fold first_vec_arg in Ef. rewrite Hwc in Ef. inversion Ef. reflexivity. }
                subst i. simpl in Hj. inversion Hj; subst a0. eauto.
            - exfalso. pose proof (first_vec_arg_none ats (List.length args) 0 Ef j) as Hno.
              rewrite Hno in Hvj; [discriminate|]. split; [lia|]. simpl. apply nth_error_Some. congruence. }
          destruct Hser as [Ca [HSa Hsr]].
          apply (H a Hina (Hwa a Hina) (Hna a Hina) Ca HSa s1 H1).
          apply (operand_isv a Ca s1 (Hwa a Hina) HSa Hsr H1). }
      destruct Hes as [es [-> Qes]].
      apply call_src_quiet; auto.
    - (* binary *)
      apply Sem_inv in HS. destruct HS as [cs [Hc Hl]]. cbn [children] in Hc.
      apply Forall2_2 in Hc. destruct Hc as [cl [cr [-> [HSl HSr]]]].
      cbn [novc] in Hn. apply andb_true_iff in Hn. destruct Hn as [Hn1 Hn2].
      destruct vm as [vm|]; cbn [wf] in Hwf; apply andb_true_iff in Hwf; destruct Hwf as [Hwf Hwr];
        apply andb_true_iff in Hwf; destruct Hwf as [Hwv Hwl].
      + (* vector/vector *)
        cbn [local] in Hl.
        destruct cl as [| |Cl| |]; try discriminate; destruct cr as [| |Cr| |]; try discriminate.
        assert (Ql : forall s, In s (walk e1) -> quiet s).
        { intros s H1. apply (IHe1 Hwl Hn1 _ HSl s H1). apply (operand_isv e1 (RVec Cl) s Hwl HSl eq_refl H1). }
        assert (Qr : forall s, In s (walk e2) -> quiet s).
        { intros s H1. apply (IHe2 Hwr Hn2 _ HSr s H1). apply (operand_isv e2 (RVec Cr) s Hwr HSr eq_refl H1). }
        cbn [walk_node] in Hin. destruct (vm_card vm).
        * unfold binops_one_to_one in Hin. apply in_map_iff in Hin. destruct Hin as [s1 [<- H1]].
          apply one_to_one_src_quiet. auto.
        * unfold binops_group in Hin. apply in_map_iff in Hin. destruct Hin as [s1 [<- H1]].
          apply group_src_quiet. auto.
        * unfold binops_group in Hin. apply in_map_iff in Hin. destruct Hin as [s1 [<- H1]].
          apply group_src_quiet. auto.
        * unfold binops_many_to_many in Hin. apply in_app_or in Hin. destruct Hin as [Hin|Hin].
          -- rewrite map_map in Hin. apply in_map_iff in Hin. destruct Hin as [s1 [<- H1]].
             apply mtm_src_quiet; [intros rs Hrs; apply (Qr rs Hrs) | auto].
          -- destruct (binop_eqb op OOr); [|destruct Hin].
             apply in_map_iff in Hin. destruct Hin as [s1 [<- H1]].
             unfold or_rhs_src.
             assert (Hce : existsb snd (map (mtm_src op b vm (walk e2)) (walk e1)) = true).
             { pose proof (walk_nonempty fmod fpow e1 Hwl) as Hne. destruct (walk e1) as [|l0 lr] eqn:El; [congruence|].
               simpl. rewrite (mtm_src_can_be_empty op b vm (walk e2) l0); [reflexivity|].
               apply (Ql l0). left. reflexivity. }
             rewrite Hce. cbn [negb]. apply (quiet_dpr _ _ (set_op_default_dpr _ _)). auto.
      + (* an operand is a scalar *)
        cbn [walk_node] in Hin. unfold binops_nil in Hin. apply in_flat_map in Hin. destruct Hin as [ls0 [Hl0 Hin]].
        apply in_map_iff in Hin. destruct Hin as [rs0 [<- Hr0]].
        apply nil_pair_quiet; [| |exact Hv].
        * intros Hvl. exact (IHe1 Hwl Hn1 _ HSl ls0 Hl0 Hvl).
        * intros Hvr. exact (IHe2 Hwr Hn2 _ HSr rs0 Hr0 Hvr).
  Qed.
End Live.
