(** C07 — attachment: which comment fields end up in rule.Comments. *)
From Coq Require Import List String Ascii NArith ZArith Bool Arith Lia.
From PintV Require Import Common.Bytes Model.CommentsUnicode Model.Comments Model.Attach.
Import ListNotations.
Open Scope string_scope.
Open Scope list_scope.

Lemma in_nonempty s x : In s (nonempty x) <-> s = x /\ x <> EmptyString.
Proof.
  destruct x as [|a r]; cbn.
  - split; [contradiction | intros [_ H]; congruence].
  - split.
    + intros [H|[]]. split; [symmetry; exact H | discriminate].
    + intros [H _]. left. symmetry. exact H.
Qed.

Lemma merge_comments_unfold n :
  merge_comments n = nonempty (y_head n) ++ nonempty (y_line n) ++ nonempty (y_foot n) ++ flat_map merge_comments (y_content n).
Proof. destruct n; reflexivity. Qed.

(** every comment field of a part (after hoisting) is a field of the part's subtree or one of the three fields of the
    rule's own mapping node *)
Lemma hoist_fields node len i p s :
  In s (merge_comments (hoist node len i p)) ->
  In s (merge_comments p) \/ In s (nonempty (y_head node) ++ nonempty (y_line node) ++ nonempty (y_foot node)).
Proof.
  destruct p as [h l f k c]. unfold hoist. rewrite !merge_comments_unfold. cbn [y_head y_line y_foot y_content].
  rewrite !in_app_iff.
  intros [H|[H|[H|H]]].
  - destruct (Nat.eqb i 0 && negb (is_empty_str (y_head node)) && is_empty_str h); auto.
  - destruct (Nat.eqb i 0 && negb (is_empty_str (y_line node)) && is_empty_str l); auto. 
  - match type of H with In _ (nonempty (if ?b then _ else _)) => destruct b end; auto 6.
  - auto 6.
Qed.

Lemma hoist_all_In node len : forall parts i q,
  In q (hoist_all node len i parts) -> exists j p, In p parts /\ q = hoist node len j p.
Proof.
  induction parts as [|p t IH]; intros i q H; [contradiction|].
  cbn in H. destruct H as [<-|H].
  - exists i, p. split; [left; reflexivity|reflexivity].
  - destruct (IH _ _ H) as (j & p' & Hin & ->). exists j, p'. split; [right; exact Hin|reflexivity].
Qed.

Lemma hoist_nline node len i p : y_nline (hoist node len i p) = y_nline p.
Proof. destruct p; reflexivity. Qed.

Lemma hoist_content node len i p : y_content (hoist node len i p) = y_content p.
Proof. destruct p; reflexivity. Qed.

Section WithTime.
Variable tp : string -> option Z.

(** SOUND: every comment of the rule is a rule-type comment (rule/owner, disable, snooze, rule/set) parsed from a
    comment field of the rule's own mapping node or of a node below it — never from anywhere else (a sibling rule is
    a different node: [rule_comments] is a function of this node alone). *)
Theorem attach_sound node c :
  In c (rule_comments tp node) ->
  is_rule_comment (c_type c) = true /\
  exists s k, In s (merge_comments node) /\ In c (parse tp k s).
Proof.
  unfold rule_comments, part_comments. intros H.
  apply in_flat_map in H. destruct H as (q & Hq & H).
  apply in_flat_map in H. destruct H as (s & Hs & H).
  apply filter_In in H. destruct H as [Hc Hr]. split; [exact Hr|].
  destruct (hoist_all_In _ _ _ _ _ Hq) as (j & p & Hp & ->).
  exists s, (y_nline (hoist node (List.length (y_content node)) j p)). split; [|exact Hc].
  rewrite (merge_comments_unfold node).
  destruct (hoist_fields _ _ _ _ _ Hs) as [H|H].
  - rewrite !in_app_iff. right; right; right. apply in_flat_map. exists p. split; assumption.
  - rewrite !in_app_iff in *. tauto.
Qed.

Lemma hoist_all_nth node len : forall parts i j p,
  nth_error parts j = Some p -> nth_error (hoist_all node len i parts) j = Some (hoist node len (i + j) p).
Proof.
  induction parts as [|q t IH]; intros i j p H; destruct j; cbn in *; try discriminate.
  - inversion H. rewrite Nat.add_0_r. reflexivity.
  - rewrite (IH (S i) j p H). f_equal. f_equal. lia.
Qed.

(** COMPLETE below the parts: a rule-type comment in ANY comment field of ANY node strictly below a key or value of
    the rule (labels/annotations entries, nested values ...) is attached to the rule. *)
Theorem attach_complete_below node j p s c :
  nth_error (y_content node) j = Some p ->
  In s (flat_map merge_comments (y_content p)) ->
  In c (parse tp (y_nline p) s) -> is_rule_comment (c_type c) = true ->
  In c (rule_comments tp node).
Proof.
  intros Hp Hs Hc Hr. unfold rule_comments.
  apply in_flat_map. exists (hoist node (List.length (y_content node)) j p). split.
  - pose proof (hoist_all_nth node (List.length (y_content node)) _ 0 j p Hp) as H. cbn in H. eapply nth_error_In. exact H.
  - unfold part_comments. apply in_flat_map. exists s. split.
    + rewrite merge_comments_unfold, hoist_content, !in_app_iff. auto.
    + rewrite hoist_nline. apply filter_In. split; assumption.
Qed.

(** ... and on the parts themselves: the head and line comment of every key/value node are always read; the foot
    comment too, unless it is the LAST part and the mapping node has a foot comment of its own that replaces it. *)
Theorem attach_complete_part node j p s c :
  nth_error (y_content node) j = Some p ->
  (s = y_head p \/ s = y_line p \/
   (s = y_foot p /\ (j <> List.length (y_content node) - 1 \/ y_foot node = EmptyString))) ->
  s <> EmptyString ->
  In c (parse tp (y_nline p) s) -> is_rule_comment (c_type c) = true ->
  In c (rule_comments tp node).
Proof.
  intros Hp Hs Hne Hc Hr. unfold rule_comments.
  apply in_flat_map. exists (hoist node (List.length (y_content node)) j p). split.
  - pose proof (hoist_all_nth node (List.length (y_content node)) _ 0 j p Hp) as H. cbn in H. eapply nth_error_In. exact H.
  - unfold part_comments. apply in_flat_map. exists s. split.
    + destruct p as [h l f k cc]. cbn [y_head y_line y_foot] in Hs. unfold hoist. rewrite merge_comments_unfold.
      cbn [y_head y_line y_foot y_content]. rewrite !in_app_iff, !in_nonempty.
      destruct Hs as [-> | [-> | [-> Hcond]]].
      * left. destruct h; [congruence|]. cbn [is_empty_str]. rewrite andb_false_r. split; [reflexivity|discriminate].
      * right; left. destruct l; [congruence|]. cbn [is_empty_str]. rewrite andb_false_r. split; [reflexivity|discriminate].
      * right; right; left.
        assert (E : (Nat.eqb j (List.length (y_content node) - 1) && negb (is_empty_str (y_foot node))) = false).
        { destruct Hcond as [Hj | Hf].
          - apply Nat.eqb_neq in Hj. rewrite Hj. reflexivity.
          - rewrite Hf. cbn. apply andb_false_r. }
        rewrite E. cbn [andb]. split; [reflexivity|exact Hne].
    + rewrite hoist_nline. apply filter_In. split; assumption.
Qed.

End WithTime.
