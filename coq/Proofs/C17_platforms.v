(** C17: platform laws L1 / L2 for the GitHub and GitLab models. *)
From Coq Require Import List String Ascii ZArith NArith Bool Lia.
From PintV Require Import Common.Bytes Model.CommentsReconcile Model.Platforms Proofs.C17_reconcile.
Import ListNotations.
Local Open Scope Z_scope.

(** diffLineFor answers about the line it was asked about *)
Lemma dlf_loop_new ls prev line dl : dlf_loop ls prev line = Some dl -> dl_new dl = line.
Proof.
  revert prev. induction ls as [|d rest IH]; intros prev; cbn [dlf_loop].
  - destruct prev as [last|]; [|discriminate]. destruct (dl_new last <? line); [|discriminate].
    intros H. injection H as <-. reflexivity.
  - destruct (dl_new d =? line) eqn:E1.
    + intros H. injection H as <-. now apply Z.eqb_eq.
    + destruct (line <? dl_new d); [intros H; injection H as <-; reflexivity|apply IH].
Qed.

Lemma diff_line_for_new ls line dl : diff_line_for ls line = Some dl -> dl_new dl = line.
Proof. apply dlf_loop_new. Qed.

(* ---- GitLab ------------------------------------------------------------------------------------ *)

(** L1 for GitLab (code after fix 38f6be7): a created discussion, listed back, is recognised — for every diff,
    every anchor, every 1-indexed line and non-empty path *)
Lemma gitlab_L1 diffs p e :
  0 < pc_line p -> pc_path p <> ""%string -> gl_create diffs p = Some e -> gl_is_equal e p = true.
Proof.
  intros Hl Hp. unfold gl_create, gl_discussion.
  destruct (find (fun d => String.eqb (gd_new_path d) (pc_path p)) diffs) as [d|] eqn:Ef; [|discriminate].
  apply find_some in Ef. destruct Ef as [_ Ep]. apply String.eqb_eq in Ep.
  assert (Hne : String.eqb (gd_new_path d) "" = false) by (apply String.eqb_neq; congruence).
  assert (Hpos : (0 <? pc_line p) = true) by now apply Z.ltb_lt.
  unfold gl_is_equal.
  destruct (diff_line_for (parse_diff_lines (gd_diff d)) (pc_line p)) as [dl|] eqn:Ed.
  - apply diff_line_for_new in Ed.
    destruct (pc_anchor_before p); [|destruct (negb (dl_mod dl))]; intros H; injection H as <-;
      unfold gl_listed; cbn [gp_new_line gp_old_line gp_new_path gp_old_path ec_path ec_line ec_text];
      rewrite Hne, ?Ed, ?Hpos, Ep, String.eqb_refl, ?Z.eqb_refl, String.eqb_refl; reflexivity.
  - intros H; injection H as <-. unfold gl_listed; cbn [gp_new_line gp_old_line gp_new_path gp_old_path ec_path ec_line ec_text].
    rewrite Hne, Hpos, Ep, String.eqb_refl, Z.eqb_refl, String.eqb_refl. reflexivity.
Qed.

Definition gl_key (p : pcomment) := (pc_path p, pc_line p, trim_nl (pc_text p)).

Lemma gitlab_L2 e p p' : gl_is_equal e p = true -> gl_is_equal e p' = true -> gl_key p = gl_key p'.
Proof.
  unfold gl_is_equal, gl_key. rewrite !andb_true_iff, !String.eqb_eq, !Z.eqb_eq.
  intros [[A B] C] [[A' B'] C']. congruence.
Qed.

(* ---- GitHub ------------------------------------------------------------------------------------ *)

(** L1 for GitHub: IsEqual recomputes fixCommentLine, so whatever Create posts is recognised *)
Lemma github_L1 files p e : gh_create files p = Some e -> gh_is_equal files e p = true.
Proof.
  unfold gh_create, gh_is_equal. destruct (gh_patch files (pc_path p)); [|discriminate].
  destruct (parse_diff_lines s); [discriminate|]. intros H. injection H as <-.
  cbn [ec_path ec_line ec_text]. now rewrite !String.eqb_refl, Z.eqb_refl.
Qed.

Definition gh_key files (p : pcomment) := (pc_path p, snd (gh_fix_comment_line files p), trim_nl (pc_text p)).

Lemma github_L2 files e p p' :
  gh_is_equal files e p = true -> gh_is_equal files e p' = true -> gh_key files p = gh_key files p'.
Proof.
  unfold gh_is_equal, gh_key. rewrite !andb_true_iff, !String.eqb_eq, !Z.eqb_eq.
  intros [[A B] C] [[A' B'] C']. congruence.
Qed.

(** the exception: Create returns nil without posting for a path outside the pull request (or a file
    without diff lines); updateDestination still counts it against the budget *)
Lemma github_skip_iff files p :
  gh_create files p = None <->
  (gh_patch files (pc_path p) = None \/ exists s, gh_patch files (pc_path p) = Some s /\ parse_diff_lines s = []).
Proof.
  unfold gh_create. destruct (gh_patch files (pc_path p)) as [s|]; [|intuition].
  destruct (parse_diff_lines s) eqn:E; split; intros H; auto; try discriminate.
  - right. eauto.
  - destruct H as [H|(s' & H1 & H2)]; [discriminate|]. injection H1 as <-. congruence.
Qed.

Lemma github_L1_list files n pend : L1 (github files n) pend.
Proof. intros p e _ H. now apply github_L1. Qed.

Lemma gitlab_L1_list diffs n pend :
  (forall p, In p pend -> 0 < pc_line p /\ pc_path p <> ""%string) -> L1 (gitlab diffs n) pend.
Proof. intros H p e Hp Hc. destruct (H p Hp). now apply (gitlab_L1 diffs). Qed.
