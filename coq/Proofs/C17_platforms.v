(** C17: platform laws L1 / L2 for the GitHub and GitLab models. *)
From Coq Require Import List String Ascii ZArith NArith Bool Lia.
From PintV Require Import Common.Bytes Model.CommentsReconcile Model.Platforms Proofs.C17_reconcile.
Import ListNotations.
Local Open Scope Z_scope.

(** diffLineFor answers about the line it was asked about *)
Lemma dlf_loop_new ls prev line dl : dlf_loop ls prev line = Some dl -> dl_new dl = line.
Proof.
  revert prev. induction ls as [|d rest IH]; intros prev; cbn [dlf_loop].
  - destruct prev as [last|]; [|discriminate]. destruct (dl_new last <? line); [|discriminate].
    intros H. injection H as <-. reflexivity.
  - destruct (dl_new d =? line) eqn:E1.
    + intros H. injection H as <-. now apply Z.eqb_eq.
    + destruct (line <? dl_new d); [intros H; injection H as <-; reflexivity|apply IH].
Qed.

Lemma diff_line_for_new ls line dl : diff_line_for ls line = Some dl -> dl_new dl = line.
Proof. apply dlf_loop_new. Qed.

(* ---- GitLab ------------------------------------------------------------------------------------ *)

(** L1 for GitLab (code after fix 38f6be7): a created discussion, listed back, is recognised — for every diff,
    every anchor, every 1-indexed line and non-empty path *)
Lemma gitlab_L1 diffs p e :
  0 < pc_line p -> pc_path p <> ""%string -> gl_create diffs p = Some e -> gl_is_equal e p = true.
Proof.
  intros Hl Hp. unfold gl_create, gl_discussion.
  destruct (find (fun d => String.eqb (gd_new_path d) (pc_path p)) diffs) as [d|] eqn:Ef; [|discriminate].
  apply find_some in Ef. destruct Ef as [_ Ep]. apply String.eqb_eq in Ep.
  assert (Hne : String.eqb (gd_new_path d) "" = false) by (apply String.eqb_neq; congruence).
  assert (Hpos : (0 <? pc_line p) = true) by now apply Z.ltb_lt.
  unfold gl_is_equal.
  destruct (diff_line_for (parse_diff_lines (gd_diff d)) (pc_line p)) as [dl|] eqn:Ed.
  - apply diff_line_for_new in Ed.
    destruct (pc_anchor_before p); [|destruct (negb (dl_mod dl))]; intros H; injection H as <-;
      unfold gl_listed; cbn [gp_new_line gp_old_line gp_new_path gp_old_path ec_path ec_line ec_text];
      rewrite Hne, ?Ed, ?Hpos, Ep, String.eqb_refl, ?Z.eqb_refl, String.eqb_refl; reflexivity.
  - intros H; injection H as <-. unfold gl_listed; cbn [gp_new_line gp_old_line gp_new_path gp_old_path ec_path ec_line ec_text].
    rewrite Hne, Hpos, Ep, String.eqb_refl, Z.eqb_refl, String.eqb_refl. reflexivity.
Qed.

Definition gl_key (p : pcomment) := (pc_path p, pc_line p, trim_nl (pc_text p)).

Lemma gitlab_L2 e p p' : gl_is_equal e p = true -> gl_is_equal e p' = true -> gl_key p = gl_key p'.
Proof.
  unfold gl_is_equal, gl_key. rewrite !andb_true_iff, !String.eqb_eq, !Z.eqb_eq.
  intros [[A B] C] [[A' B'] C']. congruence.
Qed.

(* ---- GitHub ------------------------------------------------------------------------------------ *)

(** L1 for GitHub: IsEqual recomputes fixCommentLine, so whatever Create posts is recognised *)
Lemma github_L1 files p e : gh_create files p = Some e -> gh_is_equal files e p = true.
Proof.
  unfold gh_create, gh_is_equal. destruct (gh_patch files (pc_path p)); [|discriminate].
  destruct (parse_diff_lines s); [discriminate|]. intros H. injection H as <-.
  cbn [ec_path ec_line ec_text]. now rewrite !String.eqb_refl, Z.eqb_refl.
Qed.

Definition gh_key files (p : pcomment) := (pc_path p, snd (gh_fix_comment_line files p), trim_nl (pc_text p)).

Lemma github_L2 files e p p' :
  gh_is_equal files e p = true -> gh_is_equal files e p' = true -> gh_key files p = gh_key files p'.
Proof.
  unfold gh_is_equal, gh_key. rewrite !andb_true_iff, !String.eqb_eq, !Z.eqb_eq.
  intros [[A B] C] [[A' B'] C']. congruence.
Qed.

(** when Create cannot place a comment (errCommentSkipped, not counted against the budget since fix 15e1a20):
    exactly for a path outside the pull request or a file without diff lines *)
Lemma github_skip_iff files p :
  gh_create files p = None <->
  (gh_patch files (pc_path p) = None \/ exists s, gh_patch files (pc_path p) = Some s /\ parse_diff_lines s = []).
Proof.
  unfold gh_create. destruct (gh_patch files (pc_path p)) as [s|]; [|intuition].
  destruct (parse_diff_lines s) eqn:E; split; intros H; auto; try discriminate.
  - right. eauto.
  - destruct H as [H|(s' & H1 & H2)]; [discriminate|]. injection H1 as <-. congruence.
Qed.

Lemma github_L1_list files n pend : L1 (github files n) pend.
Proof. intros p e _ H. now apply github_L1. Qed.

Lemma gitlab_L1_list diffs n pend :
  (forall p, In p pend -> 0 < pc_line p /\ pc_path p <> ""%string) -> L1 (gitlab diffs n) pend.
Proof. intros H p e Hp Hc. destruct (H p Hp). now apply (gitlab_L1 diffs). Qed.

Lemma gitlab_skip_iff diffs p :
  gl_create diffs p = None <-> (forall d, In d diffs -> gd_new_path d <> pc_path p).
Proof.
  unfold gl_create, gl_discussion.
  destruct (find (fun d => String.eqb (gd_new_path d) (pc_path p)) diffs) as [d|] eqn:Ef.
  - apply find_some in Ef. destruct Ef as [Hin Ep]. apply String.eqb_eq in Ep. split.
    + destruct (diff_line_for _ _) as [dl|]; [destruct (pc_anchor_before p); [|destruct (negb (dl_mod dl))]|]; discriminate.
    + intros H. exfalso. exact (H d Hin Ep).
  - split; auto. intros _ d Hin Ep. pose proof (find_none _ _ Ef d Hin) as K. cbn in K.
    apply String.eqb_neq in K. contradiction.
Qed.

(* ---- the platforms over the server's state ------------------------------------------------------ *)

Lemma gl_view_post diffs p n : gl_post diffs p = Some n -> gl_view n = gl_create diffs p.
Proof.
  unfold gl_post, gl_create. destruct (gl_discussion diffs p) as [pos|]; [|discriminate].
  intros H. injection H as <-. reflexivity.
Qed.

Lemma gitlab_srv_L1 diffs m p n :
  0 < pc_line p -> pc_path p <> ""%string -> create (gitlab_srv diffs m) p = Some n -> is_equal (gitlab_srv diffs m) n p = true.
Proof.
  intros Hl Hp H. cbn [create gitlab_srv] in H. cbn [is_equal gitlab_srv]. rewrite (gl_view_post diffs p n H).
  destruct (gl_create diffs p) as [e|] eqn:Ec.
  - now apply (gitlab_L1 diffs).
  - unfold gl_post, gl_create in *. destruct (gl_discussion diffs p); discriminate.
Qed.

Lemma gitlab_srv_L1_list diffs n pend :
  (forall p, In p pend -> 0 < pc_line p /\ pc_path p <> ""%string) -> L1 (gitlab_srv diffs n) pend.
Proof. intros H p e Hp Hc. destruct (H p Hp). now apply (gitlab_srv_L1 diffs n). Qed.

Lemma github_srv_L1 files m p c :
  pc_path p <> ""%string -> create (github_srv files m) p = Some c -> is_equal (github_srv files m) c p = true.
Proof.
  intros Hp H. cbn [create github_srv] in H. cbn [is_equal github_srv]. unfold gh_view.
  assert (ec_path c = pc_path p) as E.
  { unfold gh_create in H. destruct (gh_patch files (pc_path p)); [|discriminate].
    destruct (parse_diff_lines s); [discriminate|]. injection H as <-. reflexivity. }
  rewrite E. apply String.eqb_neq in Hp. rewrite Hp. now apply github_L1.
Qed.

Lemma github_srv_L1_list files n pend :
  (forall p, In p pend -> pc_path p <> ""%string) -> L1 (github_srv files n) pend.
Proof. intros H p e Hp Hc. apply (github_srv_L1 files n); auto. Qed.

(** what List does not show can be neither recognised nor deleted: on every platform, an element that is equal to
    no pending comment and may not be deleted is in the store after the run and not in the delete log *)
Lemma invisible_untouched {E P} (pf : platform E P) store pend e :
  In e store -> (forall p, is_equal pf e p = false) -> can_delete pf e = false ->
  In e (fst (step pf store pend)) /\ ~ In e (l_deleted (snd (step pf store pend))) /\
  forall p, In p pend -> is_equal pf e p = false.
Proof.
  intros He Hn Hd. assert (Hs : stale pf pend e = false) by (unfold stale; now rewrite Hd, andb_false_r).
  destruct (stale_removed pf store pend e He) as [_ B]. destruct (B Hs) as [B1 B2]. auto.
Qed.
