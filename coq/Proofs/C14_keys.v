(** C14 — the lock key determines the cache keys, except for range questions that differ in their lookback. *)
From Coq Require Import List String Ascii Bool.
From PintV Require Import Model.KeyLockKeys.
Import ListNotations.
Local Open Scope string_scope.

Lemma app_inv_head_str (p a b : string) : p ++ a = p ++ b -> a = b.
Proof. induction p; cbn; intros H; [exact H|]. injection H as H. auto. Qed.

(** Questions that are not range queries: a shared cache key forces the same lock key. *)
Lemma shared_cache_key_same_lock q1 q2 s1 s2 k :
  is_range q1 = false -> is_range q2 = false ->
  In k (cache_keys q1 s1) -> In k (cache_keys q2 s2) -> lock_key q1 = lock_key q2.
Proof.
  intros R1 R2 H1 H2.
  destruct q1, q2; try discriminate; cbn in H1, H2;
    destruct H1 as [<-|[]]; destruct H2 as [E|[]]; try discriminate E; try reflexivity.
  - injection E as ->. reflexivity.
  - injection E as ->. reflexivity.
Qed.

(** A range question never shares a cache key with a question of another kind. *)
Lemma range_disjoint_from_others q1 q2 s1 s2 k :
  is_range q1 = true -> is_range q2 = false ->
  In k (cache_keys q1 s1) -> In k (cache_keys q2 s2) -> False.
Proof.
  intros R1 R2 H1 H2. destruct q1; try discriminate. cbn in H1. apply in_map_iff in H1. destruct H1 as [s [<- _]].
  destruct q2; try discriminate; cbn in H2; destruct H2 as [E|[]]; discriminate E.
Qed.

(** Two range questions sharing a slice have the same expression and step ... *)
Lemma range_shared_slice e1 lb1 st1 e2 lb2 st2 s1 s2 k :
  In k (cache_keys (QRange e1 lb1 st1) s1) -> In k (cache_keys (QRange e2 lb2 st2) s2) -> e1 = e2 /\ st1 = st2.
Proof.
  cbn. rewrite !in_map_iff. intros [a [<- _]] [b [E _]]. injection E as -> _ _ ->. split; reflexivity.
Qed.

(** ... so with the repaired key they hold the same lock. *)
Lemma fixed_key_determines q1 q2 s1 s2 k :
  In k (cache_keys q1 s1) -> In k (cache_keys q2 s2) -> lock_key_fixed q1 = lock_key_fixed q2.
Proof.
  intros H1 H2. destruct (is_range q1) eqn:R1, (is_range q2) eqn:R2.
  - destruct q1, q2; try discriminate. destruct (range_shared_slice _ _ _ _ _ _ _ _ _ H1 H2) as [-> ->]. reflexivity.
  - exfalso. eapply range_disjoint_from_others; eauto.
  - exfalso. eapply (range_disjoint_from_others q2 q1); eauto.
  - destruct q1, q2; try discriminate; cbn [lock_key_fixed]; eapply shared_cache_key_same_lock; eauto.
Qed.
