(** C14 — soundness of the key-table criterion: when [table_ok] holds, two requests with the same cache key are
    guarded by the same lock key (for all rows of the table, all values of the variables), and the side condition
    of the transition system follows for every set of callers asking questions built from the table. *)
From Coq Require Import List String Ascii Bool Lia.
From PintV Require Import Common.Bytes Model.KeyLockKeys Model.KeyLock Proofs.C14_lts.
Import ListNotations.
Local Open Scope string_scope.

Lemma comp_eqb_eq a b : comp_eqb a b = true -> a = b.
Proof.
  destruct a as [la sa], b as [lb sb]. unfold comp_eqb. cbn [fst snd]. rewrite andb_true_iff.
  intros [H1 H2]. apply eqb_prop in H1. apply String.eqb_eq in H2. congruence.
Qed.

Lemma comps_eqb_eq a b : comps_eqb a b = true -> a = b.
Proof.
  revert b. induction a as [|x a IH]; intros [|y b]; cbn [comps_eqb]; try discriminate; auto.
  rewrite andb_true_iff. intros [H1 H2]. apply comp_eqb_eq in H1. apply IH in H2. congruence.
Qed.

(** different lengths or different literals at one position: the hashed lists differ whatever the variables are *)
Lemma lits_differ_sound a b e1 e2 : lits_differ a b = true -> map (cval e1) a <> map (cval e2) b.
Proof.
  revert b. induction a as [|x a IH]; intros [|y b]; cbn [lits_differ map]; try discriminate.
  rewrite orb_true_iff. intros [H|H] E; injection E as E1 E2.
  - rewrite !andb_true_iff in H. destruct H as [[Hx Hy] Hn]. unfold cval in E1. rewrite Hx, Hy in E1.
    apply negb_true_iff in Hn. apply String.eqb_neq in Hn. contradiction.
  - exact (IH b H E2).
Qed.

Lemma in_vars_of v l : In v (vars_of l) <-> In (false, v) l.
Proof.
  unfold vars_of. rewrite in_map_iff. split.
  - intros ([b s] & <- & H). apply filter_In in H. destruct H as [H Hb]. cbn in Hb. destruct b; [discriminate|exact H].
  - intros H. exists (false, v). split; auto. apply filter_In. auto.
Qed.

(** equal hashed lists of ONE row: every variable of the row has the same value on both sides *)
Lemma cache_eq_vars c e1 e2 : map (cval e1) c = map (cval e2) c -> forall v, In v (vars_of c) -> e1 v = e2 v.
Proof.
  induction c as [|[b s] c IH]; intros E v Hv; [destruct Hv|]. cbn [map] in E. injection E as E1 E2.
  apply in_vars_of in Hv. destruct Hv as [Hv|Hv].
  - injection Hv as -> ->. exact E1.
  - apply IH; auto. now apply in_vars_of.
Qed.

Lemma vars_agree_map l e1 e2 : (forall v, In v (vars_of l) -> e1 v = e2 v) -> map (cval e1) l = map (cval e2) l.
Proof.
  induction l as [|[b s] l IH]; intros H; cbn [map]; auto. f_equal.
  - unfold cval. cbn [fst snd]. destruct b; auto. apply H. apply in_vars_of. now left.
  - apply IH. intros v Hv. apply H. apply in_vars_of. right. now apply in_vars_of.
Qed.

Lemma row_ok_spec r v : row_ok r = true -> In v (vars_of (kr_lock r)) -> In v (vars_of (kr_cache r)) /\ ~ In v slice_vars.
Proof.
  unfold row_ok. rewrite forallb_forall. intros H Hv. specialize (H v Hv). apply andb_true_iff in H. destruct H as [H1 H2].
  split; [now apply mem_str_In|]. intros K. apply mem_str_In in K. rewrite K in H2. discriminate.
Qed.

(** ** the criterion is sound: a shared cache key implies the same lock key *)
Lemma keys_sound t r1 r2 e1 e2 :
  table_ok t = true -> In r1 t -> In r2 t ->
  cache_val r1 e1 = cache_val r2 e2 -> lock_str r1 e1 = lock_str r2 e2.
Proof.
  unfold table_ok. rewrite forallb_forall. intros H H1 H2 E. specialize (H r1 H1). rewrite forallb_forall in H.
  specialize (H r2 H2). unfold pair_ok in H. apply orb_true_iff in H. destruct H as [H|H].
  - exfalso. exact (lits_differ_sound _ _ e1 e2 H E).
  - apply andb_true_iff in H. destruct H as [Hs Hr]. unfold same_row in Hs. rewrite !andb_true_iff in Hs.
    destruct Hs as [[Hsep Hl] Hc]. apply String.eqb_eq in Hsep. apply comps_eqb_eq in Hl. apply comps_eqb_eq in Hc.
    unfold lock_str. rewrite <- Hsep, <- Hl. f_equal. apply vars_agree_map. intros v Hv.
    destruct (row_ok_spec r1 v Hr Hv) as [Hin _]. unfold cache_val in E. rewrite <- Hc in E.
    exact (cache_eq_vars _ _ _ E v Hin).
Qed.

(** the lock key of a row that is [row_ok] does not depend on the slice *)
Lemma lock_str_with_slice r e sl : row_ok r = true -> lock_str r (with_slice e sl) = lock_str r e.
Proof.
  intros Hr. unfold lock_str. f_equal. apply vars_agree_map. intros v Hv.
  destruct (row_ok_spec r v Hr Hv) as [_ Hn]. unfold with_slice, slice_vars in *.
  destruct (String.eqb_spec v "slice_start") as [->|_]; [exfalso; apply Hn; now left|].
  destruct (String.eqb_spec v "slice_end") as [->|_]; [exfalso; apply Hn; right; now left|]. reflexivity.
Qed.

Lemma table_ok_row_ok t r : table_ok t = true -> In r t -> row_ok r = true.
Proof.
  unfold table_ok. rewrite forallb_forall. intros H Hr. specialize (H r Hr). rewrite forallb_forall in H. specialize (H r Hr).
  unfold pair_ok in H. apply orb_true_iff in H. destruct H as [H|H].
  - exfalso. exact (lits_differ_sound _ _ (fun _ => "") (fun _ => "") H eq_refl).
  - apply andb_true_iff in H. tauto.
Qed.

(* ---- from the table to the side condition of the transition system ------------------------------- *)

(** a caller: one question = a row of the table, the values of its variables, and the slices it is cut into
    (one pseudo-slice for questions that are not range queries) *)
Record qcaller := mk_qcaller { qc_row : key_row; qc_env : env; qc_slices : list (string * string) }.

Definition q_lock (c : qcaller) : string := lock_str (qc_row c) (qc_env c).
Definition q_requests (c : qcaller) : list (list string) :=
  map (fun sl => cache_val (qc_row c) (with_slice (qc_env c) sl)) (qc_slices c).

Section SideCond.
  Variable t : list key_row.
  Variable callers : nat -> qcaller.
  (** the transition system names keys by numbers: any injective numbering of lock-key strings / hashed lists *)
  Variable encL : string -> nat.
  Variable encC : list string -> nat.
  Hypothesis encL_inj : forall a b, encL a = encL b -> a = b.
  Hypothesis encC_inj : forall a b, encC a = encC b -> a = b.

  Definition qconfig (pool : nat) : config :=
    mk_config (fun c => encL (q_lock (callers c))) (fun c => map encC (q_requests (callers c))) pool.

  Lemma NoDup_map_inj {A B} (f : A -> B) l : (forall a b, f a = f b -> a = b) -> NoDup l -> NoDup (map f l).
  Proof.
    intros Hf. induction 1 as [|x l Hx _ IH]; cbn [map]; constructor; auto.
    intros H. apply in_map_iff in H. destruct H as (y & E & Hy). apply Hf in E. subst. contradiction.
  Qed.

  (** [side_cond] holds for callers asking questions of a table that satisfies the criterion, provided each
      caller's own requests are pairwise different (its slices are distinct) *)
  Lemma side_cond_from_table pool :
    table_ok t = true ->
    (forall c, In (qc_row (callers c)) t) ->
    (forall c, NoDup (q_requests (callers c))) ->
    side_cond (qconfig pool).
  Proof.
    intros Hok Hrow Hnd. constructor; cbn [jobs_of key_of qconfig].
    - intros c. apply NoDup_map_inj; auto.
    - intros c c' ck Hk H1 H2. apply Hk. f_equal.
      apply in_map_iff in H1. destruct H1 as (k1 & <- & H1). apply in_map_iff in H2. destruct H2 as (k2 & E & H2).
      apply encC_inj in E. subst k2. unfold q_requests in H1, H2.
      apply in_map_iff in H1. destruct H1 as (s1 & E1 & _). apply in_map_iff in H2. destruct H2 as (s2 & E2 & _).
      unfold q_lock.
      rewrite <- (lock_str_with_slice (qc_row (callers c)) (qc_env (callers c)) s1) by (eapply table_ok_row_ok; eauto).
      rewrite <- (lock_str_with_slice (qc_row (callers c')) (qc_env (callers c')) s2) by (eapply table_ok_row_ok; eauto).
      apply (keys_sound t); auto. congruence.
  Qed.
End SideCond.
