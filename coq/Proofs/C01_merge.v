(** C01: a rule mapping with ONE merge key `<<: *anchor` (the usual way to share rule fields).
    pint: unpackNodes splices the anchored mapping's pairs that the rule does not set itself at the position of the merge key;
    Prometheus: yaml.v3 decodes the explicit keys first and then the merged mapping, skipping the keys already set.
    Both end up with the same fields (as a permutation), so the rule-level soundness carries over. *)
From Coq Require Import List String Ascii Arith Bool Lia Permutation.
From PintV Require Import Common.Bytes Model.Yaml Model.Parser Model.Routing Model.PromLoader
     Proofs.C19_relaxed Proofs.C02_wellformed Proofs.C01_prom Proofs.C01_pint Proofs.C01_rule.
Import ListNotations.
Open Scope string_scope.
Open Scope list_scope.

(** ---- lookups and existsb do not depend on the order of an assignment list with distinct keys ---- *)
Lemma assoc_perm {A} (name : string) (a b : list (string * A)) :
  Permutation a b -> NoDup (map fst a) -> assoc name a = assoc name b.
Proof.
  induction 1 as [|[k v] a b P IH|[k1 v1] [k2 v2] a|a b c P1 IH1 P2 IH2]; intros Hnd.
  - reflexivity.
  - cbn [assoc]. inversion Hnd; subst. destruct (String.eqb name k); [reflexivity|auto].
  - cbn [assoc]. cbn [map fst] in Hnd. inversion Hnd as [|x l Hn Hr]; subst.
    destruct (String.eqb name k2) eqn:E2, (String.eqb name k1) eqn:E1; try reflexivity.
    apply String.eqb_eq in E1, E2. subst. exfalso. apply Hn. left. reflexivity.
  - rewrite IH1 by exact Hnd. apply IH2. eapply Permutation_NoDup; [apply Permutation_map; exact P1|exact Hnd].
Qed.

Lemma existsb_perm {A} (f : A -> bool) (a b : list A) : Permutation a b -> existsb f a = existsb f b.
Proof.
  induction 1 as [|x a b P IH|x y a|a b c P1 IH1 P2 IH2]; cbn [existsb]; try congruence.
  destruct (f x), (f y); reflexivity.
Qed.

(** ---- pint: unpackNodes over a mapping with merge pairs ---- *)
Definition merge_key (k : node) : Prop :=
  n_alias k = None /\ n_kind k = KScalar /\ n_tag k = mergeTag /\ n_value k = "<<".

Lemma merge_key_is k : merge_key k -> is_merge_key k = true.
Proof. intros (_ & K & T & V). unfold is_merge_key. rewrite K, T, V. reflexivity. Qed.

Definition not_in (self : node) (kv : node * node) : bool := negb (has_key self (n_value (fst kv))).

(** what unpackNodes makes of one key/value pair of [self] *)
Definition splice (self : node) (kv : node * node) : list (node * node) :=
  if is_merge_key (fst kv) then
    match n_alias (snd kv) with
    | Some t => filter (not_in self) (mapping_nodes t)
    | None => []
    end
  else [(fst kv, unp (snd kv))].

Lemma filter_pairs_flatten parent : forall tps : list (node * node),
  filter_pairs parent (flatten tps) = flatten (filter (not_in parent) tps).
Proof.
  induction tps as [|[k v] r IH]; [reflexivity|].
  rewrite flatten_cons. cbn [filter_pairs filter]. unfold not_in at 1. cbn [fst]. fold (flatten r). rewrite IH.
  destruct (negb (has_key parent (n_value k))); [rewrite flatten_cons|]; reflexivity.
Qed.

Lemma flatten_app (a b : list (node * node)) : flatten (a ++ b) = flatten a ++ flatten b.
Proof. unfold flatten. apply flat_map_app. Qed.

(** every pair is a normal one (plain key, value plain or an alias) or the merge of an alias to a mapping *)
Definition pair_ok (kv : node * node) : Prop :=
  ((n_alias (fst kv) = None /\ n_tag (fst kv) <> mergeTag) /\
   ((n_alias (snd kv) = None /\ n_tag (snd kv) <> mergeTag) \/ exists t, alias_to (snd kv) t)) \/
  (merge_key (fst kv) /\ exists t, alias_to (snd kv) t /\ n_content t = flatten (mapping_nodes t)).

Lemma unpack_loop_splice self : forall ps : list (node * node),
  (forall kv, In kv ps -> pair_ok kv) ->
  unpack_loop self (flatten ps) false = flatten (flat_map (splice self) ps).
Proof.
  induction ps as [|[k x] r IH]; intros H; [reflexivity|].
  rewrite flatten_cons. cbn [flat_map]. rewrite flatten_app.
  specialize (IH (fun kv Hkv => H kv (or_intror Hkv))).
  destruct (H (k, x) (or_introl eq_refl)) as [[[Ka Kt] Hx]|[Hm (t & Hal & Hc)]]; cbn [fst snd] in *.
  - assert (Em : is_merge_key k = false).
    { unfold is_merge_key. apply String.eqb_neq in Kt. rewrite Kt. now rewrite andb_false_r. }
    unfold splice. cbn [fst snd]. rewrite Em. cbn [flatten flat_map app fst snd unpack_loop].
    assert (E : (n_tag k =? mergeTag) = false) by now apply String.eqb_neq.
    rewrite E, Ka. cbn [andb]. f_equal.
    destruct Hx as [[Xa Xt]|(t & Hal)].
    + assert (E' : (n_tag x =? mergeTag) = false) by now apply String.eqb_neq.
      rewrite E', Xa. cbn [andb]. unfold unp. rewrite Xa. f_equal. exact IH.
    + pose proof Hal as (K & A & C & T & Ht & Hmt & _).
      assert (E' : (n_tag x =? mergeTag) = false) by now apply String.eqb_neq.
      rewrite E', A. cbn [andb app]. rewrite (resolve_self_alias x t Hal). f_equal. exact IH.
  - pose proof Hm as (Ka & Kk & Kt & Kv). pose proof Hal as (K & A & C & T & Ht & Hmt & _).
    unfold splice. cbn [fst snd]. rewrite (merge_key_is k Hm), A.
    cbn [unpack_loop]. rewrite Kt, Kv. cbn [String.eqb Ascii.eqb Bool.eqb andb]. change (mergeTag =? mergeTag) with true. cbn [andb].
    rewrite Ka.
    assert (E' : (n_tag x =? mergeTag) = false) by now apply String.eqb_neq.
    rewrite E', A. cbn [andb].
    unfold resolve_map_alias. rewrite A. cbn [set_content n_content]. rewrite Hc, filter_pairs_flatten. f_equal. exact IH.
Qed.

Lemma NoDup_app_insert {A} (a b : list A) x : NoDup (a ++ b) -> ~ In x (a ++ b) -> NoDup (a ++ x :: b).
Proof.
  intros H Hx. apply NoDup_Add with (a := x) (l := a ++ b); [apply Add_app|]. split; assumption.
Qed.

Lemma NoDup_app_parts {A} (a b : list A) :
  NoDup (a ++ b) -> NoDup a /\ NoDup b /\ (forall x, In x a -> In x b -> False).
Proof.
  induction a as [|x a IH]; cbn [app]; intros H.
  - split; [constructor|]. split; [exact H|]. intros ? [].
  - inversion H as [|y l Hn Hr]; subst. destruct (IH Hr) as (A1 & A2 & A3). split.
    + constructor; [|exact A1]. intros X. apply Hn. apply in_or_app. auto.
    + split; [exact A2|]. intros z [->|Hz] Hb; [apply Hn; apply in_or_app; auto|exact (A3 z Hz Hb)].
Qed.

Lemma nodes_height_in c : forall l, In c l -> node_height c <= nodes_height l.
Proof.
  induction l as [|x r IH]; intros H; [destruct H|]. cbn [nodes_height]. destruct H as [->|H]; [lia|]. specialize (IH H). lia.
Qed.

Lemma fuel_pos n c m : In c (n_content n) -> exists h, Nat.max (nodes_height (n_content n)) m = S h.
Proof.
  intros H. pose proof (nodes_height_in c _ H) as L. rewrite (node_height_eq c) in L.
  destruct (Nat.max (nodes_height (n_content n)) m) eqn:E; [lia|]. eexists. reflexivity.
Qed.

Lemma fname_in f : f <> FUnknown -> In (field_name f) rule_fields.
Proof. destruct f; cbn; intros H; try tauto. Qed.

Lemma NoDup_app_remove_mid {A} (a b c : list A) : NoDup (a ++ b ++ c) -> NoDup (a ++ c).
Proof.
  intros H. induction b as [|x b IH]; [exact H|]. apply IH. exact (NoDup_remove_1 a (b ++ c) x H).
Qed.

Section Merge.
  Variable plines : list string -> node -> nat -> nat * nat.
  Variables metric_ok lname_ok lvalue_ok dur_ok expr_ok tmpl_pint tmpl_prom dur_zero : string -> bool.
  Variables str_ok int_ok null_ok : node -> bool.
  Hypothesis H_str : forall n, n_kind n = KScalar -> n_tag n <> nullTag -> str_ok n = true.
  Hypothesis H_null : forall n, n_kind n = KScalar -> n_tag n = nullTag -> null_ok n = true.
  Hypothesis H_tmpl : forall s, tmpl_pint s = true -> tmpl_prom s = true.
  Hypothesis H_lname_empty : lname_ok "" = false.
  Hypothesis H_lvalue_empty : lvalue_ok "" = true.
  Hypothesis H_tmpl_empty : tmpl_prom "" = true.
  Variable lines : list string.

  Notation tail := (rule_tail dur_ok str_ok null_ok).

  Lemma rule_tail_perm a b :
    Permutation a b -> NoDup (map fst a) -> tail a = tail b.
  Proof.
    intros P Hnd. unfold rule_tail. rewrite (existsb_perm _ a b P).
    destruct (existsb _ b); [reflexivity|]. f_equal.
    unfold str_field, dur_field, map_field, look. now rewrite !(assoc_perm _ a b P Hnd).
  Qed.
  Notation assigns := (map (fun kv : node * node => (key_text kv, snd kv))).
  Notation good_key k := (plain_node k /\ n_kind k = KScalar /\ n_tag k <> nullTag).

  Lemma good_key_not_merge k : good_key k -> is_merge_key k = false.
  Proof.
    intros (Hp & _ & _). unfold is_merge_key. destruct (plain_not_merge k Hp) as [_ Hmt]. apply String.eqb_neq in Hmt.
    rewrite Hmt. now rewrite andb_false_r.
  Qed.

  (** ---- Prometheus: the explicit pairs before / after the merge key ---- *)
  Lemma map_loop_seg fields : forall (ps : list (node * node)) rest done acc mn,
    (forall k v, In (k, v) ps -> good_key k) ->
    NoDup (map key_text ps) ->
    (forall s, In s (map key_text ps) -> ~ In s done) ->
    (forall s, In s (map key_text ps) -> In s fields) ->
    map_loop str_ok null_ok (Some fields) (flatten ps ++ rest) None done acc mn =
    map_loop str_ok null_ok (Some fields) rest None (rev (map key_text ps) ++ done) (acc ++ assigns ps) mn.
  Proof.
    induction ps as [|[k v] r IH]; intros rest done acc mn Hk Hnd Hdone Hknown.
    - cbn. now rewrite app_nil_r.
    - rewrite flatten_cons. cbn [app map_loop].
      pose proof (Hk k v (or_introl eq_refl)) as Hg. rewrite (good_key_not_merge k Hg).
      destruct Hg as (Hp & Hkind & Htag).
      rewrite (dec_key_scalar str_ok null_ok H_str k Hp Hkind Htag). cbn [option_map].
      assert (Hin : mem_key (n_value k) fields = true).
      { apply mem_str_In. apply Hknown. left. reflexivity. }
      rewrite Hin.
      assert (Hnd' : mem_key (n_value k) done = false).
      { apply not_true_is_false. intro X. apply mem_str_In in X. exact (Hdone (n_value k) (or_introl eq_refl) X). }
      rewrite Hnd'. inversion Hnd as [|x l Hn Hr]; subst.
      rewrite IH.
      + cbn [map rev]. change (key_text (k, v)) with (n_value k). rewrite <- !app_assoc. cbn [app snd]. reflexivity.
      + intros k0 v0 H0. apply (Hk k0 v0). right. exact H0.
      + exact Hr.
      + intros s Hs [X|X]; [subst s; exact (Hn Hs)|]. exact (Hdone s (or_intror Hs) X).
      + intros s Hs. apply Hknown. right. exact Hs.
  Qed.

  (** ---- Prometheus: the merged mapping, decoded under the set of keys already taken ---- *)
  Definition free (set : list string) (kv : node * node) : bool := negb (mem_key (key_text kv) set).

  Lemma filter_free_cons s set : forall tps : list (node * node),
    ~ In s (map key_text tps) -> filter (free (s :: set)) tps = filter (free set) tps.
  Proof.
    induction tps as [|kv r IH]; intros H; [reflexivity|]. cbn [filter].
    assert (E : free (s :: set) kv = free set kv).
    { unfold free, mem_key. cbn [mem_str]. destruct (String.eqb (key_text kv) s) eqn:E1; [|reflexivity].
      apply String.eqb_eq in E1. exfalso. apply H. left. now symmetry. }
    rewrite E, IH; [reflexivity|]. intros X. apply H. right. exact X.
  Qed.

  Lemma filter_free_cons_one s set (kv : node * node) : key_text kv <> s -> free (s :: set) kv = free set kv.
  Proof.
    intros H. unfold free, mem_key. cbn [mem_str]. destruct (String.eqb (key_text kv) s) eqn:E1; [|reflexivity].
    apply String.eqb_eq in E1. contradiction.
  Qed.

  Lemma map_loop_target fields : forall (tps : list (node * node)) set done acc,
    (forall k v, In (k, v) tps -> good_key k) ->
    NoDup (map key_text tps) ->
    (forall kv, In kv tps -> free set kv = true -> ~ In (key_text kv) done) ->
    (forall kv, In kv tps -> free set kv = true -> In (key_text kv) fields) ->
    exists set',
      map_loop str_ok null_ok (Some fields) (flatten tps) (Some set) done acc None =
      Some (acc ++ assigns (filter (free set) tps), None, Some set').
  Proof.
    induction tps as [|[k v] r IH]; intros set done acc Hk Hnd Hdone Hknown.
    - exists set. cbn. now rewrite app_nil_r.
    - rewrite flatten_cons. cbn [map_loop].
      pose proof (Hk k v (or_introl eq_refl)) as Hg. rewrite (good_key_not_merge k Hg).
      destruct Hg as (Hp & Hkind & Htag).
      rewrite (dec_key_scalar str_ok null_ok H_str k Hp Hkind Htag).
      inversion Hnd as [|x l Hn Hr]; subst.
      cbn [filter]. replace (free set (k, v)) with (negb (mem_key (n_value k) set)) by reflexivity.
      destruct (mem_key (n_value k) set) eqn:Sk; cbn [negb].
      + apply IH; auto.
        * intros k0 v0 H0. apply (Hk k0 v0). right. exact H0.
        * intros kv H0. apply Hdone. right. exact H0.
        * intros kv H0. apply Hknown. right. exact H0.
      + cbn [option_map].
        assert (Fk : free set (k, v) = true) by (unfold free; change (key_text (k, v)) with (n_value k); now rewrite Sk).
        assert (Hin : mem_key (n_value k) fields = true).
        { apply mem_str_In. exact (Hknown (k, v) (or_introl eq_refl) Fk). }
        rewrite Hin.
        assert (Hnd' : mem_key (n_value k) done = false).
        { apply not_true_is_false. intro X. apply mem_str_In in X. exact (Hdone (k, v) (or_introl eq_refl) Fk X). }
        rewrite Hnd'.
        destruct (IH (n_value k :: set) (n_value k :: done) (acc ++ [(n_value k, v)])) as (set' & E).
        * intros k0 v0 H0. apply (Hk k0 v0). right. exact H0.
        * exact Hr.
        * intros kv H0 F0 [X|X].
          -- apply Hn. change (key_text (k, v)) with (n_value k). rewrite X. now apply (in_map key_text).
          -- rewrite (filter_free_cons_one (n_value k) set kv) in F0; [exact (Hdone kv (or_intror H0) F0 X)|].
             intros Y. apply Hn. change (key_text (k, v)) with (n_value k). rewrite <- Y. now apply (in_map key_text).
        * intros kv H0 F0. apply Hknown; [right; exact H0|].
          rewrite (filter_free_cons_one (n_value k) set kv) in F0; [exact F0|].
          intros Y. apply Hn. change (key_text (k, v)) with (n_value k). rewrite <- Y. now apply (in_map key_text).
        * exists set'. rewrite E. rewrite (filter_free_cons (n_value k) set r Hn). cbn [map]. change (key_text (k, v)) with (n_value k).
          cbn [snd]. now rewrite <- app_assoc.
  Qed.
  (** the non-merge keys decode.go collects before merging = the explicit key texts *)
  Lemma plain_keys_explicit : forall (pre post : list (node * node)) mk mx,
    (forall k v, In (k, v) (pre ++ post) -> good_key k) -> is_merge_key mk = true ->
    plain_keys (flatten (pre ++ (mk, mx) :: post)) = map key_text (pre ++ post).
  Proof.
    intros pre post mk mx Hk Hm. unfold plain_keys. rewrite even_nodes_flatten, !map_app. cbn [map fst].
    rewrite flat_map_app. cbn [flat_map]. rewrite Hm. cbn [app].
    assert (G : forall l : list (node * node), (forall k v, In (k, v) l -> good_key k) ->
                flat_map (fun k => if is_merge_key k then [] else [n_value (deref k)]) (map fst l) = map key_text l).
    { induction l as [|[k v] r IH]; intros H; [reflexivity|]. cbn [map fst flat_map].
      pose proof (H k v (or_introl eq_refl)) as Hg. rewrite (good_key_not_merge k Hg).
      destruct Hg as ((Ha & _) & _). rewrite (deref_plain k Ha). cbn [app]. f_equal.
      apply IH. intros k0 v0 H0. apply (H k0 v0). right. exact H0. }
    rewrite (G pre), (G post); [reflexivity| |]; intros k v H; apply (Hk k v); apply in_or_app; auto.
  Qed.

  (** ---- Prometheus decodes a rule mapping with one merge key ---- *)
  Lemma dec_fields_merge rn pre mk mx post t :
    plain_node rn -> n_kind rn = KMapping -> mapping_nodes rn = pre ++ (mk, mx) :: post ->
    merge_key mk -> alias_to mx t -> plain_node t -> n_kind t = KMapping ->
    (forall k v, In (k, v) (pre ++ post) -> good_key k) ->
    (forall s, In s (map key_text (pre ++ post)) -> In s rule_fields) ->
    NoDup (map key_text (pre ++ post)) ->
    (forall k v, In (k, v) (mapping_nodes t) -> good_key k) ->
    NoDup (map key_text (mapping_nodes t)) ->
    (forall kv, In kv (mapping_nodes t) -> free (map key_text (pre ++ post)) kv = true -> In (key_text kv) rule_fields) ->
    dec_fields str_ok null_ok (Some rule_fields) rn =
    DOk (assigns (pre ++ post) ++ assigns (filter (free (map key_text (pre ++ post))) (mapping_nodes t))).
  Proof.
    intros Hrn K Eps Hm Hal Ht Kt Hk Hknown Hnd Htk Htnd Htknown.
    pose proof Hrn as [Ha _]. pose proof Hal as (Kx & Ax & _ & _ & Hta & _).
    assert (Hin : In mx (n_content rn)).
    { rewrite (plain_mapping_content rn Hrn K), Eps, flatten_app, flatten_cons. apply in_or_app. right. right. left. reflexivity. }
    unfold dec_fields. rewrite (deref_plain rn Ha), K, (node_height_eq rn).
    match goal with |- context [S (Nat.max (nodes_height (n_content rn)) ?m)] => destruct (fuel_pos rn mx m Hin) as [h Eh] end.
    rewrite Eh. clear Eh.
    cbn [map_fields].
    rewrite (plain_mapping_content rn Hrn K), Eps.
    (* uniqueKeys *)
    assert (Hnd' : NoDup (map key_text (pre ++ (mk, mx) :: post))).
    { rewrite map_app. cbn [map]. apply NoDup_app_insert; rewrite <- map_app; [exact Hnd|].
      change (key_text (mk, mx)) with (n_value mk). destruct Hm as (_ & _ & _ & ->).
      intros X. specialize (Hknown _ X). cbn in Hknown.
      repeat (destruct Hknown as [Hknown|Hknown]; [discriminate Hknown|]). exact Hknown. }
    rewrite (unique_keys_nodup str_ok _ Hnd'). cbn [negb].
    rewrite (plain_keys_explicit pre post mk mx Hk (merge_key_is mk Hm)).
    (* the explicit keys, the merge key, the explicit keys *)
    rewrite flatten_app, flatten_cons.
    assert (Hpre : forall k v, In (k, v) pre -> good_key k) by (intros k v H; apply (Hk k v); apply in_or_app; auto).
    assert (Hpost : forall k v, In (k, v) post -> good_key k) by (intros k v H; apply (Hk k v); apply in_or_app; auto).
    rewrite map_app in Hnd. destruct (NoDup_app_parts _ _ Hnd) as (Nd1 & Nd2 & Nd12).
    rewrite (map_loop_seg rule_fields pre _ [] [] None Hpre Nd1).
    2:{ intros s _ []. }
    2:{ intros s Hs. apply Hknown. rewrite map_app. apply in_or_app. auto. }
    cbn [map_loop]. rewrite (merge_key_is mk Hm).
    rewrite <- (app_nil_r (flatten post)).
    rewrite (map_loop_seg rule_fields post [] _ _ (Some mx) Hpost Nd2).
    2:{ intros s Hs X. rewrite app_nil_r in X. apply in_rev in X. exact (Nd12 s X Hs). }
    2:{ intros s Hs. apply Hknown. rewrite map_app. apply in_or_app. auto. }
    cbn [map_loop app].
    (* the merged mapping *)
    assert (Dx : deref mx = t) by (unfold deref; now rewrite Ax).
    rewrite Kx. rewrite !Dx, Kt. cbn [kind_eqb negb].
    rewrite (plain_mapping_content t Ht Kt), (unique_keys_nodup str_ok _ Htnd). cbn [negb].
    destruct (map_loop_target rule_fields (mapping_nodes t) (map key_text (pre ++ post)) [] [] Htk Htnd) as (set' & E).
    { intros kv _ _ []. }
    { exact Htknown. }
    cbn [app] in E |- *. rewrite E. cbn [option_map]. rewrite !map_app. reflexivity.
  Qed.
  (** ---- pint filters the merged pairs by the same key set as Prometheus ---- *)
  Lemma even_values_flatten : forall ps : list (node * node),
    even_values (flatten ps) = flat_map (fun kv => if String.eqb (n_value (fst kv)) "" then [] else [n_value (fst kv)]) ps.
  Proof.
    induction ps as [|[k v] r IH]; [reflexivity|]. rewrite flatten_cons. cbn [even_values flat_map fst]. fold (flatten r). now rewrite IH.
  Qed.

  Lemma in_even_values s : forall ps : list (node * node),
    In s (even_values (flatten ps)) <-> s <> "" /\ In s (map key_text ps).
  Proof.
    intros ps. rewrite even_values_flatten. induction ps as [|[k v] r IH]; cbn [flat_map map In fst]; [tauto|].
    rewrite in_app_iff, IH. change (key_text (k, v)) with (n_value k).
    destruct (String.eqb (n_value k) "") eqn:E.
    - apply String.eqb_eq in E. cbn [In]. split; [tauto|]. intros [Hs [X|X]]; [congruence|tauto].
    - apply String.eqb_neq in E. cbn [In]. split.
      + intros [[X|X]|X]; [subst; tauto|destruct X|tauto].
      + tauto.
  Qed.

  Lemma bool_iff (a b : bool) : (a = true <-> b = true) -> a = b.
  Proof.
    destruct a, b; intros [H1 H2]; try reflexivity.
    - symmetry. apply H1. reflexivity.
    - apply H2. reflexivity.
  Qed.

  Lemma not_in_free rn pre mk mx post (kv : node * node) :
    n_kind rn = KMapping -> n_content rn = flatten (pre ++ (mk, mx) :: post) -> n_value mk = "<<" ->
    key_text kv <> "" -> key_text kv <> "<<" ->
    not_in rn kv = free (map key_text (pre ++ post)) kv.
  Proof.
    intros K C Vm Hne Hnm. unfold not_in, free, has_key, node_keys, mem_key. rewrite K, C. f_equal.
    apply bool_iff. rewrite !mem_str_In, in_even_values. change (n_value (fst kv)) with (key_text kv).
    rewrite !map_app. cbn [map]. change (key_text (mk, mx)) with (n_value mk). rewrite Vm, !in_app_iff. cbn [In].
    split; [intros [_ [X|[X|X]]]; [tauto|congruence|tauto]|tauto].
  Qed.
  Notation PRS := (parse_rule_strict plines metric_ok lname_ok lvalue_ok).

  (** ---- the guard: a plain rule mapping whose pairs are [pre], ONE merge pair `<<: *anchor`, [post]; the anchor is a plain
      mapping without aliases, with distinct non-empty keys other than "<<"; explicit values as in [rule_guard] ---- *)
  Definition merge_rule_guard (rn : node) pre mk mx post t : Prop :=
    plain_node rn /\ n_kind rn = KMapping /\ mapping_nodes rn = pre ++ (mk, mx) :: post /\
    merge_key mk /\ alias_to mx t /\ plain_node t /\ n_kind t = KMapping /\
    (forall k v, In (k, v) (mapping_nodes t) -> plain_below k /\ plain_below v /\ n_value k <> "" /\ n_value k <> "<<") /\
    NoDup (map key_text (mapping_nodes t)) /\
    (forall k x, In (k, x) (pre ++ post) -> plain_below k /\ field_value x).

  Lemma views_self x : n_alias x = None -> views x x.
  Proof.
    intros H. unfold views, deref, node_value. rewrite H. repeat split; auto.
  Qed.

  Lemma splice_normal rn k x : plain_node k -> splice rn (k, x) = [(k, unp x)].
  Proof.
    intros Hk. unfold splice. cbn [fst snd].
    assert (E : is_merge_key k = false).
    { unfold is_merge_key. destruct (plain_not_merge k Hk) as [_ Hmt]. apply String.eqb_neq in Hmt. rewrite Hmt. now rewrite andb_false_r. }
    now rewrite E.
  Qed.

  Lemma flat_map_normal rn : forall l : list (node * node),
    (forall k x, In (k, x) l -> plain_node k) ->
    flat_map (splice rn) l = map (fun kv => (fst kv, unp (snd kv))) l.
  Proof.
    induction l as [|[k x] r IH]; intros H; [reflexivity|]. cbn [flat_map map fst snd].
    rewrite (splice_normal rn k x (H k x (or_introl eq_refl))). cbn [app]. f_equal.
    apply IH. intros k0 x0 H0. apply (H k0 x0). right. exact H0.
  Qed.

  Theorem rule_sound_merge rn glabels pre mk mx post t :
    merge_rule_guard rn pre mk mx post t ->
    r_error (PRS lines rn) = None ->
    rule_blocks expr_ok dur_ok tmpl_pint glabels (PRS lines rn) = false ->
    exists pr, dec_rule str_ok null_ok dur_ok rn = DOk pr /\
               rule_valid expr_ok dur_zero metric_ok lname_ok lvalue_ok tmpl_prom pr = true.
  Proof.
    intros (Hrn & K & Eps & Hm & Hal & Ht & Kt & Htg & Htnd & Hex) Herr Hblk.
    pose proof Hal as (Kx & Ax & _ & _ & Hta & _).
    pose proof (plain_mapping_content rn Hrn K) as Hc.
    set (tps := mapping_nodes t) in *.
    set (F := filter (not_in rn) tps).
    set (un := map (fun kv : node * node => (fst kv, unp (snd kv)))).
    assert (Hpre : forall k x, In (k, x) pre -> plain_node k) by (intros k x H; apply plain_self; apply (Hex k x); apply in_or_app; auto).
    assert (Hpost : forall k x, In (k, x) post -> plain_node k) by (intros k x H; apply plain_self; apply (Hex k x); apply in_or_app; auto).
    (* what unpackNodes hands to parseRule *)
    assert (Eps' : flat_map (splice rn) (mapping_nodes rn) = un pre ++ F ++ un post).
    { rewrite Eps, flat_map_app. cbn [flat_map]. rewrite (flat_map_normal rn pre Hpre), (flat_map_normal rn post Hpost).
      unfold splice at 1. cbn [fst snd]. rewrite (merge_key_is mk Hm), Ax. reflexivity. }
    set (ps := un pre ++ F ++ un post) in *.
    assert (Hu : unpack_nodes rn = flatten ps).
    { unfold unpack_nodes. rewrite Hc. rewrite unpack_loop_splice; [now rewrite Eps'|].
      intros [k x] Hin. rewrite Eps in Hin. apply in_app_or in Hin. destruct Hin as [Hin|[Hin|Hin]].
      - left. destruct (Hex k x (in_or_app _ _ _ (or_introl Hin))) as [Hk (t' & Hs & Ht')]. cbn [fst snd].
        split; [exact (plain_not_merge k (plain_self k Hk))|].
        destruct Hs as [[-> _]|Hal']; [left; exact (tgt_not_merge t' Ht')|right; exists t'; exact Hal'].
      - inversion Hin; subst k x. right. cbn [fst snd]. split; [exact Hm|]. exists t. split; [exact Hal|].
        exact (plain_mapping_content t Ht Kt).
      - left. destruct (Hex k x (in_or_app _ _ _ (or_intror Hin))) as [Hk (t' & Hs & Ht')]. cbn [fst snd].
        split; [exact (plain_not_merge k (plain_self k Hk))|].
        destruct Hs as [[-> _]|Hal']; [left; exact (tgt_not_merge t' Ht')|right; exists t'; exact Hal']. }
    assert (Hps : forall k x, In (k, x) ps -> n_alias k = None /\ exists t', views x t' /\ tgt_ok t').
    { intros k x Hin. unfold ps in Hin. apply in_app_or in Hin. rewrite in_app_iff in Hin.
      assert (Hn : forall l, (forall k0 x0, In (k0, x0) l -> plain_below k0 /\ field_value x0) -> In (k, x) (un l) ->
                   n_alias k = None /\ exists t', views x t' /\ tgt_ok t').
      { intros l Hl H. unfold un in H. apply in_map_iff in H. destruct H as ([k0 x0] & E0 & H0). inversion E0; subst k x.
        destruct (Hl k0 x0 H0) as [Hk (t' & Hs & Ht')]. split; [exact (proj1 (plain_self k0 Hk))|].
        exists t'. split; [exact (views_unp x0 t' Hs)|exact Ht']. }
      destruct Hin as [Hin|[Hin|Hin]].
      - apply (Hn pre); [|exact Hin]. intros k0 x0 H0. apply Hex. apply in_or_app. auto.
      - unfold F in Hin. apply filter_In in Hin. destruct Hin as [Hin _]. destruct (Htg k x Hin) as (Hk & Hx & _).
        split; [exact (proj1 (plain_self k Hk))|]. exists x. split; [apply views_self; exact (proj1 (plain_self x Hx))|left; exact Hx].
      - apply (Hn post); [|exact Hin]. intros k0 x0 H0. apply Hex. apply in_or_app. auto. }
    (* facts from pint's acceptance *)
    destruct (rule_accept_core plines metric_ok lname_ok lvalue_ok lines rn ps Hu
                (fun kv Hin => proj1 (Hps (fst kv) (snd kv) ltac:(destruct kv; exact Hin))) Herr)
      as (s & _ & Hknown & Hnd & _).
    assert (Kun : forall l, map key_text (un l) = map key_text l) by (intros l; unfold un; rewrite map_map; reflexivity).
    assert (Hnd' : NoDup (map key_text pre ++ map key_text F ++ map key_text post)).
    { unfold ps in Hnd. rewrite !map_app, !Kun in Hnd. exact Hnd. }
    assert (HndE : NoDup (map key_text (pre ++ post))).
    { rewrite map_app. apply (NoDup_app_remove_mid _ _ _ Hnd'). }
    assert (HknownE : forall k x, In (k, x) (pre ++ post) -> field_of (n_value k) <> FUnknown).
    { intros k x Hin. apply (Hknown (k, unp x)). unfold ps. apply in_app_or in Hin.
      destruct Hin as [Hin|Hin]; [apply in_or_app; left|apply in_or_app; right; apply in_or_app; right];
        unfold un; apply in_map_iff; exists (k, x); split; auto. }
    assert (Hgood : forall k v, In (k, v) (pre ++ post) -> plain_node k /\ n_kind k = KScalar /\ n_tag k <> nullTag).
    { intros k v Hin. destruct (Hex k v Hin) as [Hk _]. pose proof (plain_self k Hk) as Hkn. split; [exact Hkn|]. split.
      - apply plain_nonempty_scalar; auto. intro E. apply (HknownE k v Hin). now rewrite E.
      - apply (plain_mapping_keys rn k v Hrn K). rewrite Eps. apply in_app_or in Hin. apply in_or_app.
        destruct Hin; [left|right; right]; assumption. }
    assert (Hfree : forall kv, In kv tps -> not_in rn kv = free (map key_text (pre ++ post)) kv).
    { intros [k v] Hin. destruct (Htg k v Hin) as (_ & _ & N1 & N2).
      apply (not_in_free rn pre mk mx post (k, v) K); auto; [now rewrite Hc, Eps|exact (proj2 (proj2 (proj2 Hm)))]. }
    assert (EF : filter (free (map key_text (pre ++ post))) tps = F).
    { unfold F. apply filter_ext_in. intros kv Hin. symmetry. exact (Hfree kv Hin). }
    assert (Hdec : dec_fields str_ok null_ok (Some rule_fields) rn =
                   DOk (map (fun kv => (key_text kv, snd kv)) (pre ++ post) ++ map (fun kv => (key_text kv, snd kv)) F)).
    { rewrite <- EF. apply (dec_fields_merge rn pre mk mx post t); auto.
      - intros s0 Hs. apply in_map_iff in Hs. destruct Hs as ([k x] & <- & Hin). change (key_text (k, x)) with (n_value k).
        rewrite (field_of_name (n_value k) _ eq_refl (HknownE k x Hin)). apply fname_in. exact (HknownE k x Hin).
      - intros k v Hin. destruct (Htg k v Hin) as (Hk & _ & N1 & _). pose proof (plain_self k Hk) as Hkn. split; [exact Hkn|]. split.
        + apply plain_nonempty_scalar; auto.
        + exact (plain_mapping_keys t k v Ht Kt Hin).
      - intros [k v] Hin Hf. rewrite <- (Hfree (k, v) Hin) in Hf.
        assert (X : In (k, v) ps) by (unfold ps; apply in_or_app; right; apply in_or_app; left; unfold F; apply filter_In; auto).
        pose proof (Hknown (k, v) X) as Y. change (key_text (k, v)) with (n_value k) in *.
        rewrite (field_of_name (n_value k) _ eq_refl Y). apply fname_in. exact Y. }
    (* dec_rule cannot tell the two assignment lists apart *)
    apply (rule_sound_core plines metric_ok lname_ok lvalue_ok dur_ok expr_ok tmpl_pint tmpl_prom dur_zero str_ok null_ok
             H_str H_null H_tmpl H_lname_empty H_lvalue_empty H_tmpl_empty lines rn glabels ps _ Hu Hps Hdec); auto.
    set (asg := map (fun kv : node * node => (key_text kv, snd kv))).
    assert (Eun : forall l, asg (un l) = unp_assign (asg l)).
    { intros l. unfold asg, un, unp_assign. rewrite !map_map. reflexivity. }
    assert (EunF : unp_assign (asg F) = asg F).
    { unfold asg, unp_assign. rewrite map_map. apply map_ext_in. intros [k v] Hin. cbn [fst snd]. f_equal.
      unfold F in Hin. apply filter_In in Hin. destruct Hin as [Hin _]. destruct (Htg k v Hin) as (_ & Hv & _).
      unfold unp. now rewrite (proj1 (plain_self v Hv)). }
    assert (Eapp : forall a b, unp_assign (a ++ b) = unp_assign a ++ unp_assign b) by (intros; unfold unp_assign; apply map_app).
    assert (Easg : forall a b, asg (a ++ b) = asg a ++ asg b) by (intros; unfold asg; apply map_app).
    assert (Eps2 : asg ps = unp_assign (asg pre ++ asg F ++ asg post)).
    { unfold ps. rewrite !Easg, !Eun, !Eapp, EunF. reflexivity. }
    change (map (fun kv : node * node => (key_text kv, snd kv)) ps) with (asg ps).
    change (map (fun kv : node * node => (key_text kv, snd kv)) (pre ++ post)) with (asg (pre ++ post)).
    change (map (fun kv : node * node => (key_text kv, snd kv)) F) with (asg F).
    rewrite Eps2, (rule_tail_unp dur_ok str_ok null_ok), Easg.
    apply rule_tail_perm.
    - rewrite <- app_assoc. apply Permutation_app_head. apply Permutation_app_comm.
    - rewrite !map_app. unfold asg. rewrite !map_map. cbn [fst].
      change (map (fun x : node * node => key_text x)) with (map key_text).
      rewrite <- app_assoc. eapply Permutation_NoDup; [|exact Hnd'].
      apply Permutation_app_head. apply Permutation_app_comm.
  Qed.
End Merge.
