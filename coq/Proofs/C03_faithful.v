(** Under the named hypothesis [log_faithful] (git's log relates consecutive snapshots the way `git log --name-status`
    documents), the before/after bodies selected by git.Changes are the fork-point content of the origin path and the HEAD
    content of the destination path: for every record of the change list of every history (no guard since fix d9e7954).
    A record that is shadowed by a later rename onto its path is always a deletion.

    Snapshots: [snap 0] = tree at the fork point, [snap i] = tree after the i-th branch commit (1..n).
    [cidx] maps a commit id to its index. *)
From Coq Require Import List String Ascii ZArith NArith Bool Lia Arith.
From PintV Require Import Common.Bytes Model.GitChanges Proofs.C03_changes.
Import ListNotations.
Open Scope string_scope.
Open Scope list_scope.

Section Faithful.
  Variable n : nat.
  Variable snap : nat -> string -> option N.
  Variable cidx : string -> nat.
  Variable log : list entry.

  Definition idx (e : entry) : nat := cidx (le_commit e).
  Definition touches (e : entry) (p : string) : Prop := le_src e = p \/ le_dst e = p.
  Definition is_st (e : entry) (s : string) : Prop := le_status e = st s.

  (** what one log entry of commit i says about snapshots i-1 and i *)
  Definition faithful_entry (e : entry) : Prop :=
    let i := idx e in
    (is_st e "A" /\ le_src e = le_dst e /\ snap (i - 1) (le_dst e) = None /\ snap i (le_dst e) <> None) \/
    (is_st e "D" /\ le_src e = le_dst e /\ snap (i - 1) (le_src e) <> None /\ snap i (le_src e) = None) \/
    ((is_st e "M" \/ is_st e "T") /\ le_src e = le_dst e /\ snap (i - 1) (le_src e) <> None /\ snap i (le_src e) <> None) \/
    (is_st e "R" /\ le_src e <> le_dst e /\ snap (i - 1) (le_src e) <> None /\ snap i (le_src e) = None /\ snap i (le_dst e) <> None /\
     snap (i - 1) (le_dst e) = None).

  Record log_faithful : Prop := {
    (* the log is ordered by commit (git log --reverse) *)
    lf_mono : forall l1 e1 l2 e2 l3, log = l1 ++ e1 :: l2 ++ e2 :: l3 -> idx e1 <= idx e2;
    lf_range : forall e, In e log -> 1 <= idx e <= n;
    lf_entry : forall e, In e log -> faithful_entry e;
    (* every path whose blob differs between two consecutive snapshots appears in that commit's entries *)
    lf_frame : forall i p, 1 <= i <= n -> (forall e, In e log -> idx e = i -> ~ touches e p) -> snap i p = snap (i - 1) p;
    (* name-status lists a path at most once per commit *)
    lf_once : forall l1 e1 l2 e2 l3, log = l1 ++ e1 :: l2 ++ e2 :: l3 -> idx e1 = idx e2 ->
                ~ touches e1 (le_src e2) /\ ~ touches e2 (le_src e1) /\ le_dst e1 <> le_dst e2
  }.

  Hypothesis LF : log_faithful.

  Notation trace' := (trace_nc (fun _ => true) (fun _ => false)).

  (** a faithful log has no copy entries, so the specification walk is the copy-free one *)
  Lemma faithful_no_copy e : In e log -> is_copy e = false.
  Proof.
    intro Hin. unfold is_copy.
    destruct (lf_entry LF e Hin) as [(Hs & _)|[(Hs & _)|[([Hs|Hs] & _)|(Hs & _)]]]; unfold is_st in Hs; rewrite Hs; reflexivity.
  Qed.


  (** ** shape of a trace: its last entry ends at the path; either the path is not touched afterwards (then k = 0), or the
      next entry touching it is a rename of another file onto it (the record is shadowed) *)
  Lemma trace_last : forall rl p k, trace' rl p k <> [] ->
    exists newer em older, rl = newer ++ em :: older /\ le_dst em = p /\
      trace' rl p k = trace' older (le_src em) 0 ++ [em] /\
      ((k = 0 /\ forall x, In x newer -> ~ touches x p) \/
       (exists n1 x n2, newer = n1 ++ x :: n2 /\ le_dst x = p /\ le_src x <> p /\ forall y, In y n2 -> ~ touches y p)).
  Proof.
    induction rl as [|e r IH]; intros p k Hne; [exfalso; apply Hne; reflexivity|].
    cbn [trace_nc] in *. unfold live in *. simpl in *.
    destruct (String.eqb (le_dst e) p) eqn:Ed.
    - apply String.eqb_eq in Ed. destruct k as [|k'].
      + exists [], e, r. simpl. repeat split; auto. all: try (left; split; auto; intros x []).
      + destruct (String.eqb (le_src e) p) eqn:Es.
        * destruct (IH p (S k') Hne) as (newer & em & older & -> & Hd & Ht & [[Hk _]|(n1 & x & n2 & -> & Hx1 & Hx2 & Hn2)]); [discriminate|].
          exists (e :: n1 ++ x :: n2), em, older. simpl. repeat split; auto. right.
          exists (e :: n1), x, n2. simpl. repeat split; auto.
        * apply String.eqb_neq in Es.
          destruct (IH p k' Hne) as (newer & em & older & -> & Hd & Ht & [[Hk Hno]|(n1 & x & n2 & -> & Hx1 & Hx2 & Hn2)]).
          -- exists (e :: newer), em, older. simpl. repeat split; auto. right.
             exists [], e, newer. simpl. repeat split; auto.
          -- exists (e :: n1 ++ x :: n2), em, older. simpl. repeat split; auto. right.
             exists (e :: n1), x, n2. simpl. repeat split; auto.
    - apply String.eqb_neq in Ed. destruct (String.eqb (le_src e) p) eqn:Es.
      + destruct (IH p (S k) Hne) as (newer & em & older & -> & Hd & Ht & [[Hk _]|(n1 & x & n2 & -> & Hx1 & Hx2 & Hn2)]); [discriminate|].
        exists (e :: n1 ++ x :: n2), em, older. simpl. repeat split; auto. right.
        exists (e :: n1), x, n2. simpl. repeat split; auto.
      + apply String.eqb_neq in Es.
        destruct (IH p k Hne) as (newer & em & older & -> & Hd & Ht & [[Hk Hno]|(n1 & x & n2 & -> & Hx1 & Hx2 & Hn2)]).
        * exists (e :: newer), em, older. simpl. repeat split; auto. left. split; auto.
          intros x [<-|Hx]; [intros [H|H]; contradiction | auto].
        * exists (e :: n1 ++ x :: n2), em, older. simpl. repeat split; auto. right.
          exists (e :: n1), x, n2. simpl. repeat split; auto.
  Qed.

  Lemma trace_first : forall rl p k e1 rest, trace' rl p k = e1 :: rest ->
    exists newer older, rl = newer ++ e1 :: older /\ trace' older (le_src e1) 0 = [].
  Proof.
    induction rl as [|e r IH]; intros p k e1 rest H; [discriminate|].
    cbn [trace_nc] in H. unfold live in H. simpl in H.
    destruct (String.eqb (le_dst e) p) eqn:Ed.
    - destruct k as [|k'].
      + destruct (trace' r (le_src e) 0) as [|x xs] eqn:T.
        * simpl in H. inversion H; subst. exists [], r. split; auto.
        * simpl in H. inversion H; subst. destruct (IH _ _ _ _ T) as (newer & older & -> & Ht).
          exists (e :: newer), older. split; auto.
      + destruct (String.eqb (le_src e) p);
          destruct (IH _ _ _ _ H) as (newer & older & -> & Ht); exists (e :: newer), older; split; auto.
    - destruct (String.eqb (le_src e) p);
        destruct (IH _ _ _ _ H) as (newer & older & -> & Ht); exists (e :: newer), older; split; auto.
  Qed.

  Lemma trace_empty : forall rl p, trace' rl p 0 = [] ->
    (forall x, In x rl -> ~ touches x p) \/
    exists newer e' older, rl = newer ++ e' :: older /\ (forall x, In x newer -> ~ touches x p) /\
      le_src e' = p /\ le_dst e' <> p.
  Proof.
    induction rl as [|e r IH]; intros p H; [left; intros x []|].
    cbn [trace_nc] in H. unfold live in H. simpl in H.
    destruct (String.eqb (le_dst e) p) eqn:Ed.
    - destruct (trace' r (le_src e) 0); discriminate.
    - apply String.eqb_neq in Ed. destruct (String.eqb (le_src e) p) eqn:Es.
      + apply String.eqb_eq in Es. right. exists [], e, r. simpl. repeat split; auto; try (intros x []).
      + apply String.eqb_neq in Es. destruct (IH p H) as [Hno|(newer & e' & older & -> & Hn & Hs & Hd)].
        * left. intros x [<-|Hx]; [intros [?|?]; contradiction | auto].
        * right. exists (e :: newer), e', older. simpl. repeat split; auto.
          intros x [<-|Hx]; [intros [?|?]; contradiction | auto].
  Qed.

  (** ** frame over a range of commits *)
  Lemma frame_range p : forall a b, a <= b -> b <= n ->
    (forall e, In e log -> a < idx e <= b -> ~ touches e p) -> snap b p = snap a p.
  Proof.
    intros a b Hab. induction Hab as [|b Hab IH]; intros Hn Hno; auto.
    rewrite <- IH; [|lia|intros e He Hi; apply Hno; auto; lia].
    replace b with (S b - 1) at 2 by lia.
    apply (lf_frame LF); [lia|]. intros e He Hi. apply Hno; auto. lia.
  Qed.

  (** positions: in [log = l1 ++ e :: l2], entries of l1 have smaller-or-equal index, entries of l2 larger-or-equal *)
  Lemma idx_before l1 e l2 x : log = l1 ++ e :: l2 -> In x l1 -> idx x <= idx e.
  Proof.
    intros E Hx. apply in_split in Hx. destruct Hx as (a & b & ->).
    apply (lf_mono LF a x b e l2). rewrite E, <- app_assoc. reflexivity.
  Qed.

  Lemma idx_after l1 e l2 x : log = l1 ++ e :: l2 -> In x l2 -> idx e <= idx x.
  Proof.
    intros E Hx. apply in_split in Hx. destruct Hx as (a & b & ->).
    apply (lf_mono LF l1 e a x b). exact E.
  Qed.

  Lemma rev_split (rl : list entry) newer e older : rev log = newer ++ e :: older -> log = rev older ++ e :: rev newer.
  Proof.
    intro H. rewrite <- (rev_involutive log), H, rev_app_distr. simpl. rewrite <- app_assoc. reflexivity.
  Qed.

  (** ** G1: the destination path is not touched after the last entry of its chain *)
  Lemma after_last_stable p newer em older :
    rev log = newer ++ em :: older -> (forall x, In x newer -> ~ touches x p) -> snap n p = snap (idx em) p.
  Proof.
    intros E Hno. apply rev_split in E; [|exact (rev log)].
    assert (Hin : In em log) by (rewrite E; apply in_or_app; right; left; auto).
    apply frame_range; [apply (lf_range LF em Hin) | lia |].
    intros e He Hi. rewrite E in He. apply in_app_or in He. destruct He as [He|[<-|He]].
    - pose proof (idx_before _ _ _ _ E He). lia.
    - lia.
    - apply Hno. apply in_rev. exact He.
  Qed.

  (** ** G2: the origin path still has its fork-point content just before the first commit of the chain *)
  Definition present_before (e : entry) : Prop := snap (idx e - 1) (le_src e) <> None.

  Lemma before_first_stable e1 newer older :
    rev log = newer ++ e1 :: older -> trace' older (le_src e1) 0 = [] -> present_before e1 ->
    snap (idx e1 - 1) (le_src e1) = snap 0 (le_src e1).
  Proof.
    intros E Ht Hp. pose proof (rev_split (rev log) _ _ _ E) as EL.
    assert (Hin1 : In e1 log) by (rewrite EL; apply in_or_app; right; left; auto).
    pose proof (lf_range LF e1 Hin1) as Hr1.
    destruct (trace_empty _ _ Ht) as [Hno|(nw & e' & od & Eo & Hn & Hs & Hd)].
    - (* nothing before e1 touches the path *)
      apply frame_range; [lia | lia |].
      intros e He Hi. rewrite EL in He. apply in_app_or in He. destruct He as [He|[<-|He]].
      + apply Hno. apply in_rev. exact He.
      + lia.
      + pose proof (idx_after _ _ _ _ EL He). lia.
    - (* the nearest earlier entry touching the path renamed it away: then it cannot be present before e1 *)
      exfalso. apply Hp.
      assert (EL' : log = rev od ++ e' :: rev nw ++ e1 :: rev newer).
      { rewrite EL, Eo, rev_app_distr. simpl. rewrite <- !app_assoc. reflexivity. }
      assert (Hin' : In e' log) by (rewrite EL'; apply in_or_app; right; left; auto).
      pose proof (lf_mono LF _ _ _ _ _ EL') as Hle.
      destruct (Nat.eq_dec (idx e') (idx e1)) as [Heq|Hneq].
      { destruct (lf_once LF _ _ _ _ _ EL' Heq) as [H1 _]. exfalso. apply H1. left. exact Hs. }
      assert (Hgone : snap (idx e') (le_src e1) = None).
      { destruct (lf_entry LF e' Hin') as [(_ & E1 & _)|[(_ & E1 & _)|[(_ & E1 & _)|(_ & _ & _ & Hnone & _)]]];
          try (exfalso; apply Hd; rewrite <- E1; exact Hs).
        rewrite <- Hs. exact Hnone. }
      rewrite <- Hgone. apply frame_range; [lia | lia |].
      intros e He Hi. rewrite EL' in He. apply in_app_or in He. destruct He as [He|[<-|He]].
      + assert (idx e <= idx e') by (eapply (idx_before _ _ _ _ EL'); eauto). lia.
      + lia.
      + apply in_app_or in He. destruct He as [He|[<-|He]].
        * apply Hn. apply in_rev. exact He.
        * lia.
        * pose proof (idx_after _ _ _ _ EL He). lia.
  Qed.

  (** ** the theorem about a surviving change *)
  Variable type_at : string -> string -> ptype.
  Hypothesis type_faithful : forall e, In e log ->
    forall p, (type_at (parent (le_commit e)) p = Missing <-> snap (idx e - 1) p = None).

  Lemma initial_before_present e : In e log -> initial_before type_at e <> "" ->
    initial_before type_at e = le_src e /\ present_before e.
  Proof.
    intros Hin Hne. unfold initial_before in *. unfold present_before.
    destruct (lf_entry LF e Hin) as [(Hs & E1 & Hb & _)|[(Hs & E1 & Hb & _)|[(Hs & E1 & Hb & _)|(Hs & _ & Hb & _)]]].
    - unfold is_st in Hs. rewrite Hs in *. simpl in *.
      destruct (type_at (parent (le_commit e)) (le_src e)) eqn:T; try (split; [reflexivity|]); try contradiction;
        intro Hnone; apply (type_faithful e Hin) in Hnone; congruence.
    - unfold is_st in Hs. rewrite Hs in *. simpl in *. split; auto.
    - destruct Hs as [Hs|Hs]; unfold is_st in Hs; rewrite Hs in *; simpl in *; split; auto.
    - unfold is_st in Hs. rewrite Hs in *. simpl in *. split; auto.
  Qed.

  Lemma last_map_commit : forall (l : list entry) d, l <> [] -> last (map le_commit l) "" = le_commit (last l d).
  Proof.
    induction l as [|x r IH]; intros d Hne; [contradiction|].
    destruct r as [|y r']; [reflexivity|].
    change (last (map le_commit (x :: y :: r')) "") with (last (map le_commit (y :: r')) "").
    change (last (x :: y :: r') d) with (last (y :: r') d). apply IH. discriminate.
  Qed.

  (** ** G3: a record whose path is touched again without being continued was shadowed by a rename onto the path; the path
      was absent then, so the record's last entry is a deletion *)
  Lemma shadowed_is_deletion p n1 x n2 em older :
    rev log = (n1 ++ x :: n2) ++ em :: older -> le_dst em = p -> le_dst x = p -> le_src x <> p ->
    (forall y, In y n2 -> ~ touches y p) ->
    is_st em "D" /\ In x log.
  Proof.
    intros E Hdm Hdx Hsx Hn2.
    assert (EL : log = rev older ++ em :: rev n2 ++ x :: rev n1).
    { rewrite <- (rev_involutive log), E, !rev_app_distr. simpl. rewrite <- !app_assoc. reflexivity. }
    assert (Hinm : In em log) by (rewrite EL; apply in_or_app; right; left; auto).
    assert (Hinx : In x log) by (rewrite EL; apply in_or_app; right; right; apply in_or_app; right; left; auto).
    split; [|exact Hinx].
    pose proof (lf_mono LF _ _ _ _ _ EL) as Hle.
    assert (Hneq : idx em <> idx x).
    { intro Heq. destruct (lf_once LF _ _ _ _ _ EL Heq) as (_ & _ & H3). apply H3. congruence. }
    pose proof (lf_range LF x Hinx) as Hrx. pose proof (lf_range LF em Hinm) as Hrm.
    assert (Habs : snap (idx x - 1) p = None).
    { destruct (lf_entry LF x Hinx) as [(_ & E1 & _)|[(_ & E1 & _)|[(_ & E1 & _)|(_ & _ & _ & _ & _ & Hnone)]]];
        try (exfalso; apply Hsx; rewrite E1; exact Hdx).
      rewrite <- Hdx. exact Hnone. }
    assert (Hsame : snap (idx x - 1) p = snap (idx em) p).
    { apply frame_range; [lia | lia |].
      intros e He Hi. rewrite EL in He. apply in_app_or in He. destruct He as [He|[<-|He]].
      - pose proof (idx_before _ _ _ _ EL He). lia.
      - lia.
      - apply in_app_or in He. destruct He as [He|[<-|He]].
        + apply Hn2. apply in_rev. exact He.
        + lia.
        + assert (EL2 : log = (rev older ++ em :: rev n2) ++ x :: rev n1) by (rewrite EL, <- app_assoc; reflexivity).
          pose proof (idx_after _ _ _ _ EL2 He). lia. }
    rewrite Habs in Hsame. symmetry in Hsame.
    destruct (lf_entry LF em Hinm) as [(_ & _ & _ & Hp)|[(Hs & _)|[(_ & E1 & _ & Hp)|(_ & _ & _ & _ & Hp & _)]]].
    - exfalso. apply Hp. rewrite Hdm. exact Hsame.
    - exact Hs.
    - exfalso. apply Hp. rewrite E1, Hdm. exact Hsame.
    - exfalso. apply Hp. rewrite Hdm. exact Hsame.
  Qed.

  Theorem change_bodies_faithful p k ch :
    nth_by_path (fold_log type_at (fun _ => true) (fun _ => false) log) p k = Some ch ->
    exists e1 em,
      In e1 log /\ In em log /\
      hd "" (ch_commits ch) = le_commit e1 /\ last (ch_commits ch) "" = le_commit em /\
      ch_after ch = p /\ le_dst em = p /\ ch_status ch = le_status em /\
      (* Body.After is read at the last commit of the chain; either the path is not touched afterwards, or the record is a
         deletion that a later rename landed on *)
      ((k = 0 /\ snap n p = snap (idx em) p) \/ (is_st em "D" /\ exists x, In x log /\ le_dst x = p /\ le_src x <> p)) /\
      (* Body.Before is read at the parent of the first commit of the chain; the origin is untouched until then *)
      (ch_before ch <> "" -> snap (idx e1 - 1) (ch_before ch) = snap 0 (ch_before ch) /\ snap 0 (ch_before ch) <> None).
  Proof.
    intros Hget.
    pose proof (fold_refines_trace type_at (fun _ => true) (fun _ => false) log p k) as Hr. unfold fold in Hr. rewrite Hr in Hget. clear Hr.
    rewrite (trace_nocopy (fun _ => true) (fun _ => false) (rev log)) in Hget
      by (intros x Hx; apply faithful_no_copy; apply in_rev; exact Hx).
    destruct (trace' (rev log) p k) as [|e1 rest] eqn:T; [discriminate|].
    assert (Hne : trace' (rev log) p k <> []) by (rewrite T; discriminate).
    destruct (trace_last _ _ _ Hne) as (newer & em & older & E & Hd & Ht & Hcase).
    destruct (trace_first _ _ _ _ _ T) as (nw1 & od1 & E1 & Ht1).
    assert (Hin1 : In e1 log) by (apply in_rev; rewrite E1; apply in_or_app; right; left; auto).
    assert (Hinm : In em log) by (apply in_rev; rewrite E; apply in_or_app; right; left; auto).
    assert (Hlast : last (e1 :: rest) e1 = em).
    { rewrite <- T, Ht. apply last_app_single. }
    unfold change_of_chain in Hget. cbv zeta in Hget. inversion Hget; subst ch; clear Hget. cbn [ch_commits ch_after ch_status ch_before].
    exists e1, em. split; auto. split; auto. split; [reflexivity|]. split.
    - change (le_commit e1 :: map le_commit rest) with (map le_commit (e1 :: rest)).
      rewrite <- Hlast. apply last_map_commit. discriminate.
    - change (match rest with [] => e1 | _ :: _ => last rest e1 end) with (last (e1 :: rest) e1).
      rewrite Hlast. split; [exact Hd|]. split; [exact Hd|]. split; [reflexivity|]. split.
      + destruct Hcase as [[Hk Hno]|(n1 & x & n2 & En & Hx1 & Hx2 & Hn2)].
        * left. split; auto. eapply after_last_stable; eauto.
        * right. rewrite En in E. destruct (shadowed_is_deletion p n1 x n2 em older E Hd Hx1 Hx2 Hn2) as [HD Hinx].
          split; auto. exists x. auto.
      + intro Hb. destruct (initial_before_present e1 Hin1 Hb) as [Eb Hp]. rewrite Eb.
        pose proof (before_first_stable e1 nw1 od1 E1 Ht1 Hp) as Hs. split; auto.
        rewrite <- Hs. exact Hp.
  Qed.
End Faithful.
