(** C11: the channel protocol of checkRules/scanWorker (Model/ScanLTS.v) delivers every report of every job
    exactly once, on every interleaving; it cannot deadlock and every run is finite. *)
From Coq Require Import List Arith Lia Permutation Bool.
From PintV Require Import Model.ScanLTS.
Import ListNotations.

Section Proofs.
  Variables J A : Type.
  Variable run : J -> list A.
  Variable cap : nat.

  Notation state := (state J A).
  Notation step := (step J A run cap).
  Notation reachable := (reachable J A run cap).
  Notation steps := (steps J A run cap).
  Notation all_reports := (all_reports J A run).
  Notation measure := (measure J A run).
  Notation pend := (pend A).

  (* ------------------------------------------------------------------------------------------ *)
  (** * list helpers *)

  Lemma pend_split (w1 w2 : list (wstate A)) w :
    flat_map pend (w1 ++ w :: w2) = flat_map pend w1 ++ pend w ++ flat_map pend w2.
  Proof. now rewrite flat_map_app. Qed.

  Lemma forall_exited_mid (w1 w2 : list (wstate A)) w : Forall (eq WExited) (w1 ++ w :: w2) -> w = WExited.
  Proof.
    intros H. rewrite Forall_forall in H. symmetry. apply H. apply in_or_app. right. now left.
  Qed.

  Lemma in_exited_swap (w1 w2 : list (wstate A)) w w' :
    w <> WExited -> In WExited (w1 ++ w :: w2) -> In WExited (w1 ++ w' :: w2).
  Proof.
    intros N H. apply in_app_or in H. apply in_or_app. destruct H as [H|[H|H]]; auto.
    - now subst.
    - right. now right.
  Qed.

  Lemma pend_exited (ws : list (wstate A)) : Forall (eq WExited) ws -> flat_map pend ws = [].
  Proof. induction 1 as [|w ws E _ IH]; cbn; auto. now subst. Qed.

  Lemma split_workers (ws : list (wstate A)) :
    Forall (eq WExited) ws \/ exists w1 w w2, ws = w1 ++ w :: w2 /\ w <> WExited.
  Proof.
    induction ws as [|w ws IH]; [left; constructor|].
    destruct w as [|p|].
    - right. exists [], WIdle, ws. split; [reflexivity|discriminate].
    - right. exists [], (WBusy p), ws. split; [reflexivity|discriminate].
    - destruct IH as [IH|(w1 & w & w2 & -> & N)].
      + left. now constructor.
      + right. exists (WExited :: w1), w, w2. split; [reflexivity|assumption].
  Qed.

  (* ------------------------------------------------------------------------------------------ *)
  (** * conservation: no report is lost or duplicated by any transition *)

  Lemma step_conserves s s' : step s s' -> Permutation (all_reports s') (all_reports s).
  Proof.
    intros H. destruct H; unfold all_reports; cbn [summary results workers jobs todo].
    - (* produce *) rewrite flat_map_app. cbn. rewrite app_nil_r, <- !app_assoc. reflexivity.
    - reflexivity.
    - (* take *) rewrite !pend_split. cbn [pend]. cbn [app flat_map]. rewrite <- !app_assoc.
      do 3 apply Permutation_app_head.
      rewrite !app_assoc. do 2 apply Permutation_app_tail. apply Permutation_app_comm.
    - (* send *) rewrite !pend_split. cbn [pend]. rewrite <- !app_assoc. do 2 apply Permutation_app_head.
      cbn [app]. apply Permutation_middle.
    - (* finish *) rewrite !pend_split. reflexivity.
    - (* exit *) rewrite !pend_split. reflexivity.
    - reflexivity.
    - (* recv *) rewrite <- !app_assoc. reflexivity.
    - reflexivity.
  Qed.

  (* ------------------------------------------------------------------------------------------ *)
  (** * protocol invariants *)

  Record inv (n : nat) (total : list A) (s : state) : Prop := {
    i_cons : Permutation (all_reports s) total;
    i_nw : length (workers J A s) = n;
    i_closed : jobs_closed J A s = true -> todo J A s = [];
    i_exit : In WExited (workers J A s) -> jobs_closed J A s = true /\ jobs J A s = [];
    i_rclosed : results_closed J A s = true -> Forall (eq WExited) (workers J A s);
    i_done : done J A s = true -> results_closed J A s = true /\ results J A s = [] }.

  Lemma inv_init n js : inv n (sequential J A run js) (init J A n js).
  Proof.
    split; cbn; try discriminate.
    - unfold all_reports, sequential. cbn. replace (flat_map pend (repeat WIdle n)) with (@nil A); [reflexivity|].
      induction n; cbn; auto.
    - apply repeat_length.
    - intros H. apply repeat_spec in H. discriminate.
  Qed.

  Lemma inv_step n total s s' : inv n total s -> step s s' -> inv n total s'.
  Proof.
    intros I H. destruct I as [I1 I2 I3 I4 I5 I6].
    assert (P : Permutation (all_reports s') total)
      by (eapply Permutation_trans; [apply (step_conserves s s' H)|exact I1]).
    clear I1.
    destruct H; cbn in I2, I3, I4, I5, I6; (split; [exact P|..]); clear P; cbn.
    - (* produce *) assumption.
    - intros E. specialize (I3 E). discriminate.
    - intros E. destruct (I4 E) as [E1 _]. specialize (I3 E1). discriminate.
    - assumption.
    - assumption.
    - (* close_jobs *) assumption.
    - reflexivity.
    - intros E. destruct (I4 E). discriminate.
    - assumption.
    - assumption.
    - (* take *) rewrite app_length in *. cbn in *. assumption.
    - assumption.
    - intros E. apply (in_exited_swap _ _ _ WIdle) in E; [|discriminate]. destruct (I4 E). discriminate.
    - intros E. specialize (I5 E). apply forall_exited_mid in I5. discriminate.
    - assumption.
    - (* send *) rewrite app_length in *. cbn in *. assumption.
    - assumption.
    - intros E. apply (in_exited_swap _ _ _ (WBusy (a :: p))) in E; [|discriminate]. auto.
    - intros E. specialize (I5 E). apply forall_exited_mid in I5. discriminate.
    - intros E. destruct (I6 E) as [E1 _]. specialize (I5 E1). apply forall_exited_mid in I5. discriminate.
    - (* finish *) rewrite app_length in *. cbn in *. assumption.
    - assumption.
    - intros E. apply (in_exited_swap _ _ _ (WBusy [])) in E; [|discriminate]. auto.
    - intros E. specialize (I5 E). apply forall_exited_mid in I5. discriminate.
    - assumption.
    - (* exit *) rewrite app_length in *. cbn in *. assumption.
    - assumption.
    - auto.
    - intros E. specialize (I5 E). apply forall_exited_mid in I5. discriminate.
    - assumption.
    - (* close_results *) assumption.
    - assumption.
    - assumption.
    - auto.
    - intros E. destruct (I6 E). discriminate.
    - (* recv *) assumption.
    - assumption.
    - assumption.
    - assumption.
    - discriminate.
    - (* end *) assumption.
    - assumption.
    - assumption.
    - assumption.
    - auto.
  Qed.

  Lemma inv_reachable n js s : reachable (init J A n js) s -> inv n (sequential J A run js) s.
  Proof. induction 1; [apply inv_init|eapply inv_step; eauto]. Qed.

  (** Safety: whenever the main goroutine's loop has ended, what it fed to summary.Report is a permutation of the
      concatenated per-job report lists: every report of every job exactly once. *)
  Theorem delivered_exactly_once n js s :
    1 <= n -> reachable (init J A n js) s -> done J A s = true ->
    Permutation (summary J A s) (sequential J A run js).
  Proof.
    intros N R D. destruct (inv_reachable n js s R) as [I1 I2 I3 I4 I5 I6].
    destruct (I6 D) as [RC RE]. specialize (I5 RC).
    assert (X : In WExited (workers J A s)).
    { destruct (workers J A s) as [|w ws]; cbn in I2; [lia|]. inversion I5; subst. now left. }
    destruct (I4 X) as [JC JE]. specialize (I3 JC).
    unfold all_reports in I1. rewrite RE, JE, I3, (pend_exited _ I5) in I1. cbn in I1. now rewrite !app_nil_r in I1.
  Qed.

  (** Nothing is delivered that no job produced, at any moment. *)
  Corollary delivered_sound n js s a :
    reachable (init J A n js) s -> In a (summary J A s) -> In a (sequential J A run js).
  Proof.
    intros R H. destruct (inv_reachable n js s R) as [I1 _ _ _ _ _].
    apply (Permutation_in _ I1). unfold all_reports. apply in_or_app. now left.
  Qed.

  (** Progress: with at least one buffer slot, a state in which the main loop has not ended always has a
      successor: no deadlock (and no goroutine waits on a channel that nobody will serve). *)
  Theorem no_deadlock n js s :
    1 <= cap -> reachable (init J A n js) s -> done J A s = false -> exists s', step s s'.
  Proof.
    intros CAP R D. destruct (inv_reachable n js s R) as [I1 I2 I3 I4 I5 I6].
    destruct s as [t jb jc ws rs rc sm dn]. cbn in *. subst dn.
    destruct rs as [|a rs].
    2:{ eexists. apply s_recv. }
    destruct rc.
    { eexists. apply s_end. }
    destruct (split_workers ws) as [F|(w1 & w & w2 & -> & N)].
    { eexists. now apply s_close_results. }
    destruct w as [|p|]; [| |congruence].
    - (* idle worker *)
      destruct jb as [|j jb].
      + destruct jc.
        * eexists. apply s_exit.
        * destruct t as [|j t].
          -- eexists. apply s_close_jobs.
          -- eexists. apply s_produce. cbn. lia.
      + eexists. apply s_take.
    - destruct p as [|a p].
      + eexists. apply s_finish.
      + eexists. apply s_send. cbn. lia.
  Qed.

  (* ------------------------------------------------------------------------------------------ *)
  (** * termination *)

  Lemma list_sum_mid (f : wstate A -> nat) w1 w w2 :
    list_sum (map f (w1 ++ w :: w2)) = list_sum (map f w1) + f w + list_sum (map f w2).
  Proof.
    rewrite map_app, list_sum_app. change (map f (w :: w2)) with (f w :: map f w2).
    change (list_sum (f w :: map f w2)) with (f w + list_sum (map f w2)). lia.
  Qed.

  Lemma list_sum_cons x l : list_sum (x :: l) = x + list_sum l.
  Proof. reflexivity. Qed.

  Lemma step_decreases s s' : step s s' -> S (measure s') = measure s.
  Proof.
    intros H. destruct H; unfold measure; cbn [todo jobs workers results jobs_closed results_closed done];
      rewrite ?list_sum_mid, ?map_app, ?list_sum_app, ?app_length; cbn [map mw length b2n]; rewrite ?list_sum_cons; cbn [list_sum fold_right]; lia.
  Qed.

  (** every path from a state has at most [measure] transitions *)
  Theorem runs_are_finite s k s' : steps s k s' -> k + measure s' = measure s.
  Proof.
    induction 1 as [|s s1 s2 k H _ IH]; [reflexivity|]. apply step_decreases in H. lia.
  Qed.

  Lemma steps_reachable s0 s k s' : reachable s0 s -> steps s k s' -> reachable s0 s'.
  Proof. intros R H. induction H; auto. apply IHsteps. eapply r_step; eauto. Qed.

  (** Liveness: a run that cannot be extended has ended the main loop, and then (safety) delivered everything. *)
  Theorem maximal_runs_deliver n js k s :
    1 <= n -> 1 <= cap ->
    steps (init J A n js) k s -> (forall s', ~ step s s') ->
    done J A s = true /\ Permutation (summary J A s) (sequential J A run js) /\ k <= measure (init J A n js).
  Proof.
    intros N CAP H Stuck.
    assert (R : reachable (init J A n js) s) by (eapply steps_reachable; [apply r_refl|eassumption]).
    assert (D : done J A s = true).
    { destruct (done J A s) eqn:D; auto. destruct (no_deadlock n js s CAP R D) as [s' S']. now apply Stuck in S'. }
    split; auto. split; [now apply (delivered_exactly_once n js s)|].
    apply runs_are_finite in H. lia.
  Qed.
End Proofs.
