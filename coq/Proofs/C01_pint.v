(** C01, pint side: what strict-mode acceptance of a plain rule mapping says about its key/value pairs. *)
From Coq Require Import List String Ascii Arith Bool Lia.
From PintV Require Import Common.Bytes Model.Yaml Model.Parser Model.Routing Model.PromLoader
     Proofs.C19_relaxed Proofs.C02_wellformed Proofs.C01_prom.
Import ListNotations.
Open Scope string_scope.
Open Scope list_scope.

Definition feqb (a b : field) : bool :=
  match a, b with
  | FRecord, FRecord | FAlert, FAlert | FExpr, FExpr | FFor, FFor | FKeep, FKeep
  | FLabels, FLabels | FAnn, FAnn | FUnknown, FUnknown => true
  | _, _ => false
  end.

Lemma feqb_eq a b : feqb a b = true <-> a = b.
Proof. destruct a, b; cbn; split; congruence. Qed.

Lemma feqb_refl a : feqb a a = true.
Proof. now apply feqb_eq. Qed.

Lemma field_of_name s f : field_of s = f -> f <> FUnknown -> s = field_name f.
Proof.
  unfold field_of. intros H Hf.
  destruct (String.eqb s "record") eqn:E1; [apply String.eqb_eq in E1; subst f; exact E1|].
  destruct (String.eqb s "alert") eqn:E2; [apply String.eqb_eq in E2; subst f; exact E2|].
  destruct (String.eqb s "expr") eqn:E3; [apply String.eqb_eq in E3; subst f; exact E3|].
  destruct (String.eqb s "for") eqn:E4; [apply String.eqb_eq in E4; subst f; exact E4|].
  destruct (String.eqb s "keep_firing_for") eqn:E5; [apply String.eqb_eq in E5; subst f; exact E5|].
  destruct (String.eqb s "labels") eqn:E6; [apply String.eqb_eq in E6; subst f; exact E6|].
  destruct (String.eqb s "annotations") eqn:E7; [apply String.eqb_eq in E7; subst f; exact E7|].
  congruence.
Qed.

Lemma field_of_field_name f : f <> FUnknown -> field_of (field_name f) = f.
Proof. destruct f; intros H; reflexivity. Qed.

(** the pairs of a mapping whose key names field [f] *)
Definition has_field (f : field) (kv : node * node) : bool := feqb (field_of (key_text kv)) f.
Definition find_field (f : field) (ps : list (node * node)) : option (node * node) := find (has_field f) ps.

Section Pint.
  Variable plines : list string -> node -> nat -> nat * nat.
  Variables metric_ok lname_ok lvalue_ok dur_ok : string -> bool.
  Variable lines : list string.
  Variable off : nat.

  Notation nyn := (new_yaml_node plines lines off).
  Notation nym := (new_yaml_map plines lines off).

  (** uniform view of the seven slots *)
  Definition slot (f : field) (s : slots) : option (node * (ynode + ymap)) :=
    match f with
    | FLabels => option_map (fun xm : node * ymap => (fst xm, inr (snd xm))) (s_labels s)
    | FAnn => option_map (fun xm : node * ymap => (fst xm, inr (snd xm))) (s_ann s)
    | FUnknown => None
    | _ => option_map (fun xy : node * ynode => (fst xy, inl (snd xy))) (get_sc f s)
    end.

  Definition mk (f : field) (k x : node) : ynode + ymap :=
    match f with
    | FLabels | FAnn => inr (nym k x)
    | _ => inl (nyn x 1)
    end.

  Lemma slot_set_lines f s a b : slot f (set_lines s a b) = slot f s.
  Proof. destruct f; reflexivity. Qed.

  Lemma slot_add_unknown f s k : slot f (add_unknown k s) = slot f s.
  Proof. destruct f; reflexivity. Qed.

  Lemma slot_set_sc f g s x y :
    match g with FLabels | FAnn | FUnknown => False | _ => True end ->
    slot f (set_sc g (x, y) s) = if feqb f g then Some (x, inl y) else slot f s.
  Proof. destruct f, g; cbn; intros H; try contradiction; reflexivity. Qed.

  Lemma slot_set_map f g s x m :
    match g with FLabels | FAnn => True | _ => False end ->
    slot f (set_map g (x, m) s) = if feqb f g then Some (x, inr m) else slot f s.
  Proof. destruct f, g; cbn; intros H; try contradiction; reflexivity. Qed.

  Definition slots_spec (f : field) (ps : list (node * node)) (s s' : slots) : Prop :=
    match find_field f ps with
    | Some (k, x) => slot f s = None /\ slot f s' = Some (x, mk f k x) /\
                     List.length (filter (has_field f) ps) = 1
    | None => slot f s' = slot f s /\ filter (has_field f) ps = []
    end.

  Lemma step_set f g k x r s s3 s' :
    field_of (n_value k) = g -> g <> FUnknown ->
    slot g s = None ->
    (forall h, slot h s3 = if feqb h g then Some (x, mk g k x) else slot h s) ->
    slots_spec f r s3 s' -> slots_spec f ((k, x) :: r) s s'.
  Proof.
    intros Fk Hg Hnone Hs3 IH. unfold slots_spec, find_field in *. cbn [find filter].
    assert (Hh : has_field f (k, x) = feqb g f).
    { unfold has_field. change (key_text (k, x)) with (n_value k). now rewrite Fk. }
    rewrite !Hh.
    destruct (feqb g f) eqn:E.
    - apply feqb_eq in E. subst f.
      destruct (find (has_field g) r) as [[k' x']|].
      + destruct IH as (X & _). rewrite Hs3, feqb_refl in X. discriminate X.
      + destruct IH as (X & Y). rewrite Hs3, feqb_refl in X.
        split; [exact Hnone|]. split; [exact X|]. cbn [List.length]. now rewrite Y.
    - assert (E' : feqb f g = false) by (destruct f, g; cbn in E |- *; congruence).
      destruct (find (has_field f) r) as [[k' x']|].
      + destruct IH as (X & Y & Z). rewrite Hs3, E' in X. auto.
      + destruct IH as (X & Y). rewrite Hs3, E' in X. auto.
  Qed.

  (** The loop of parseRule over a plain mapping: when it does not stop on a duplicated key, every known field's
      slot holds the value of the (unique) pair naming it. *)
  Lemma rule_loop_slots : forall ps s s',
    (forall kv, In kv ps -> n_alias (fst kv) = None) ->
    rule_loop plines lines off (flatten ps) None s = inr s' ->
    forall f, f <> FUnknown -> slots_spec f ps s s'.
  Proof.
    induction ps as [|[k x] r IH]; intros s s' Hna H f Hf.
    - cbn in H. inversion H; subst. unfold slots_spec. cbn. split; reflexivity.
    - rewrite flatten_cons in H. cbn [rule_loop] in H.
      rewrite (node_value_noalias k (Hna (k, x) (or_introl eq_refl))) in H.
      assert (Hna' : forall kv, In kv r -> n_alias (fst kv) = None) by (intros kv Hkv; apply Hna; right; exact Hkv).
      specialize (IH) with (1 := Hna').
      set (pl1 := n_line k + off) in *.
      set (f1 := if ((s_first s =? 0)%nat || (pl1 <? s_first s)%nat)%bool then pl1 else s_first s) in *.
      set (l1 := Nat.max (s_last s) pl1) in *.
      set (s1 := set_lines s f1 l1) in *.
      set (pl2 := n_line x + off) in *.
      set (f2 := if ((s_first s1 =? 0)%nat || (pl2 <? s_first s1)%nat)%bool then pl2 else s_first s1) in *.
      set (l2 := Nat.max (s_last s1) pl2) in *.
      set (s2 := set_lines s1 f2 l2) in *.
      assert (Hs2 : forall g, slot g s2 = slot g s).
      { intros g. unfold s2, s1. now rewrite !slot_set_lines. }
      destruct (field_of (n_value k)) eqn:Fk.
      1-5: (destruct (get_sc _ s2) as [old|] eqn:G; [discriminate H|];
            eapply (step_set f _ k x r s _ s' Fk); [discriminate| | |exact (IH _ _ H f Hf)];
            [ rewrite <- Hs2; cbn [slot]; rewrite G; reflexivity
            | intros h; rewrite slot_set_lines, slot_set_sc by exact I; rewrite Hs2; reflexivity ]).
      + destruct (s_labels s2) as [old|] eqn:G; [discriminate H|].
        eapply (step_set f _ k x r s _ s' Fk); [discriminate| | |exact (IH _ _ H f Hf)].
        * rewrite <- Hs2. cbn [slot]. rewrite G. reflexivity.
        * intros h. rewrite slot_set_lines, slot_set_map by exact I. rewrite Hs2. reflexivity.
      + destruct (s_ann s2) as [old|] eqn:G; [discriminate H|].
        eapply (step_set f _ k x r s _ s' Fk); [discriminate| | |exact (IH _ _ H f Hf)].
        * rewrite <- Hs2. cbn [slot]. rewrite G. reflexivity.
        * intros h. rewrite slot_set_lines, slot_set_map by exact I. rewrite Hs2. reflexivity.
      + (* unknown key: no slot changes *)
        specialize (IH _ s' H f Hf). unfold slots_spec, find_field in *. cbn [find filter].
        assert (Hh : has_field f (k, x) = false).
        { unfold has_field. change (key_text (k, x)) with (n_value k). rewrite Fk. destruct f; try reflexivity; congruence. }
        rewrite !Hh. rewrite slot_add_unknown, Hs2 in IH. exact IH.
  Qed.

  (** All sixteen checks of parseRule passed. *)
  Lemma rule_checks_none n s :
    first_some (rule_checks metric_ok lname_ok lvalue_ok off n s) = None ->
    forall c, In c (rule_checks metric_ok lname_ok lvalue_ok off n s) -> c = None.
  Proof. intros H. exact (first_some_none _ H). Qed.

  Lemma bad_rule_key_flatten : forall ps,
    (forall kv, In kv ps -> n_alias (fst kv) = None) ->
    bad_rule_key (flatten ps) = None -> forall kv, In kv ps -> field_of (key_text kv) <> FUnknown.
  Proof.
    induction ps as [|[k x] r IH]; intros Hna H kv Hin; [destruct Hin|].
    rewrite flatten_cons in H. cbn [bad_rule_key] in H.
    rewrite (node_value_noalias k (Hna (k, x) (or_introl eq_refl))) in H.
    specialize (IH (fun kv0 Hkv => Hna kv0 (or_intror Hkv))).
    destruct Hin as [<-|Hin].
    - change (key_text (k, x)) with (n_value k). destruct (field_of (n_value k)); try discriminate; discriminate H.
    - apply IH; [|exact Hin]. destruct (field_of (n_value k)); try discriminate H; exact H.
  Qed.

  (** at most one pair per known field + all keys known => pairwise distinct key texts *)
  Lemma keys_nodup : forall ps,
    (forall kv, In kv ps -> field_of (key_text kv) <> FUnknown) ->
    (forall f, f <> FUnknown -> List.length (filter (has_field f) ps) <= 1) ->
    NoDup (map key_text ps).
  Proof.
    induction ps as [|kv r IH]; intros Hk Hc; cbn [map]; constructor.
    - intros Hin. apply in_map_iff in Hin. destruct Hin as (kv' & E & Hin').
      set (f := field_of (key_text kv)).
      assert (Hf : f <> FUnknown) by (apply Hk; left; reflexivity).
      specialize (Hc f Hf). cbn [filter] in Hc.
      assert (H1 : has_field f kv = true) by (unfold has_field; apply feqb_refl).
      assert (H2 : has_field f kv' = true) by (unfold has_field; rewrite E; apply feqb_refl).
      rewrite H1 in Hc. cbn [List.length] in Hc.
      assert (H3 : In kv' (filter (has_field f) r)) by (apply filter_In; split; assumption).
      destruct (filter (has_field f) r); [destruct H3|cbn in Hc; lia].
    - apply IH.
      + intros kv' Hin. apply Hk. right. exact Hin.
      + intros f Hf. specialize (Hc f Hf). cbn [filter] in Hc. destruct (has_field f kv); cbn [List.length] in Hc; lia.
  Qed.
End Pint.
