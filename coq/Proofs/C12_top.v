(** C12, the top-level statement: at EVERY operation node of an expression of the fragment, every dead-code verdict the
    analyser introduces there that lies outside the open known-finding classes and inside the proved fragment is sound:
    the flagged operand contributes nothing. *)
From Coq Require Import List String Bool Floats NArith Arith Lia.
From PintV Require Import Common.Bytes Gen.C04 Model.PromQL Model.Source Model.PromSem Model.PromFrag Model.PromAlways Model.PromClass
  Proofs.C04_lists Proofs.C04_transfer Proofs.C04_walk Proofs.C04_sound Proofs.C04_calls Proofs.C04_binops Proofs.C04_main
  Proofs.C12_musthave Proofs.C12_join Proofs.C12_always Proofs.C12_static Proofs.C12_flag Proofs.C12_k3.
Import ListNotations.
Open Scope string_scope.
Open Scope list_scope.

Lemma wf_kids e c : wf e = true -> In c (kids e) -> wf c = true.
Proof.
  intros Hwf Hin. destruct e; cbn [kids children] in Hin; cbn [wf] in Hwf.
  - destruct Hin.
  - destruct Hin.
  - destruct Hin.
  - destruct Hin as [<-|[]]. exact Hwf.
  - destruct Hin as [<-|[]]. exact Hwf.
  - destruct Hin as [<-|[]]. exact Hwf.
  - destruct Hin as [<-|[]]. exact Hwf.
  - apply andb_true_iff in Hwf. destruct Hwf as [_ Hwf]. destruct Hin as [<-|[]]. exact Hwf.
  - apply andb_true_iff in Hwf. destruct Hwf as [_ Hwf]. rewrite forallb_forall in Hwf. auto.
  - destruct vm as [vm|]; apply andb_true_iff in Hwf; destruct Hwf as [Hwf Hr]; apply andb_true_iff in Hwf;
      destruct Hwf as [_ Hl]; destruct Hin as [<-|[<-|[]]]; assumption.
Qed.

Lemma wf_subterm n e : subterm n e -> wf e = true -> wf n = true.
Proof. induction 1; intros Hwf; auto. apply IHsubterm. eapply wf_kids; eauto. Qed.

Lemma plain_match_vm vm : plain_match vm = plain_vm vm.
Proof. destruct vm; reflexivity. Qed.

Section Top.
  Variables fmod fpow : float -> float -> float.
  Notation walk := (walk_node fmod fpow).
  Variable U : list string.
  Variable db : list labelset.
  Hypothesis Htotal : db_total U db.

  (** the analyser's own condition for each kind of verdict at node [n] (what makes promql/impossible report) *)
  Definition emits (n : expr) (v : verdict) : Prop :=
    match n with
    | EBin op rb vm l r =>
        match v with
        | VJoin =>
            match vm with
            | Some vm => op <> OOr /\
                         forall s0 rs, In s0 (walk (many_side vm l r)) -> In rs (walk (other_side vm l r)) ->
                                       can_join (join_view vm s0) rs vm <> None
            | None => False
            end
        | VStatic => forall s, In s (walk n) -> s_dead s = true
        | VUnlessOn =>
            match vm with
            | Some vm => op = OUnless /\ vm_on_empty vm = true /\
                         exists rs, In rs (walk r) /\ s_always rs = true /\ s_cond rs = false
            | None => False
            end
        | VOrRhs =>
            match vm with
            | Some vm => op = OOr /\ forall s, In s (walk l) -> s_always s = true /\ s_cond s = false
            | None => False
            end
        end
    | _ => False
    end.

  (** the verdict is outside every open known-finding class *)
  Definition outside_classes (n : expr) (v : verdict) : Prop :=
    match v with
    | VJoin =>
        match n with
        | EBin op rb (Some vm) l r =>
            forall s0 rs lab, In s0 (walk (many_side vm l r)) -> In rs (walk (other_side vm l r)) ->
                              can_join (join_view vm s0) rs vm = Some lab -> k3_class U n lab = false
        | _ => True
        end
    | VStatic => k1_class n = false /\ k6_class n = false
    | VUnlessOn => k7_class n v = false
    | VOrRhs => k2_class n = false /\ k7_class n v = false
    end.

  (** ... and inside the fragment in which soundness is proved *)
  Definition proved_fragment (n : expr) (v : verdict) : Prop :=
    in_fragment n v = true /\
    match v with
    | VJoin =>
        match n with
        | EBin op rb (Some vm) l r =>
            forall s0 rs lab, In s0 (walk (many_side vm l r)) -> In rs (walk (other_side vm l r)) ->
                              can_join (join_view vm s0) rs vm = Some lab -> join_label_ok U vm (many_side vm l r) lab = true
        | _ => True
        end
    | _ => True
    end.

  (** "the flagged part contributes nothing" *)
  Definition contributes_nothing (n : expr) (v : verdict) : Prop :=
    match n with
    | EBin op rb vm l r =>
        match v with
        | VJoin =>
            match vm with
            | Some vm =>
                forall Cl Cr R, Sem db l (RVec Cl) -> Sem db r (RVec Cr) ->
                  local db n [RVec Cl; RVec Cr] (RVec R) = Some true ->
                  local db n [RVec (match vm_card vm with OneToMany => [] | _ => Cl end);
                              RVec (match vm_card vm with OneToMany => Cr | _ => [] end)] (RVec R) = Some true
                  /\ (op <> OUnless -> R = [])
            | None => True
            end
        | VStatic => forall R, Sem db n (RVec R) -> R = []
        | VUnlessOn =>
            forall Cl Cr R, Sem db r (RVec Cr) -> local db n [RVec Cl; RVec Cr] (RVec R) = Some true -> R = []
        | VOrRhs =>
            forall Cl Cr R, Sem db l (RVec Cl) -> local db n [RVec Cl; RVec Cr] (RVec R) = Some true ->
                            local db n [RVec Cl; RVec []] (RVec R) = Some true
        end
    | _ => True
    end.

  Lemma join_label_must vm many s0 rs lab :
    In s0 (walk many) -> can_join (join_view vm s0) rs vm = Some lab ->
    join_label_ok U vm many lab = true ->
    must_have U many lab = true /\ (vm_on vm = true \/ lab <> metric_name).
  Proof.
    intros H0 Hj Hok. unfold join_label_ok in Hok. apply orb_true_iff in Hok. destruct Hok as [Hok|Hok].
    - apply andb_true_iff in Hok. destruct Hok as [Hm Hn]. split; [exact Hm|].
      apply orb_true_iff in Hn. destruct Hn as [Hn|Hn]; [left; exact Hn | right].
      apply negb_true_iff in Hn. apply String.eqb_neq. exact Hn.
    - repeat (apply andb_true_iff in Hok; destruct Hok as [Hok ?]).
      apply negb_true_iff in Hok.
      assert (Hinc : vm_include vm = []) by (destruct (vm_include vm); [reflexivity | discriminate]).
      assert (Hne : lab <> metric_name) by (apply String.eqb_neq; apply negb_true_iff; assumption).
      split; [|right; exact Hne].
      destruct (analyser_can_have_must fmod fpow U many) as [_ Hk]; [assumption|].
      apply (Hk s0 lab H0); [apply mem_str_In; assumption | exact Hne|].
      apply (join_view_can_have vm s0 lab Hok Hinc). exact (can_join_some_can_have _ _ _ _ Hj).
  Qed.

  Theorem impossible_sound_at n v :
    wf n = true -> emits n v -> outside_classes n v -> proved_fragment n v -> contributes_nothing n v.
  Proof.
    intros Hwf He _ [Hf Hfj].
    destruct n as [| | | | | | | | |op rb vm l r]; try exact I.
    destruct v; cbv beta iota delta [emits] in He; cbv beta iota delta [contributes_nothing];
      cbv beta iota delta [in_fragment] in Hf.
    - (* join *)
      destruct vm as [vm|]; [|destruct He].
      destruct He as [Hor Hall].
      intros Cl Cr R HSl HSr Hloc.
      assert (Hfl : match vm_card vm with OneToMany => all_flagged fmod fpow U vm r l | _ => all_flagged fmod fpow U vm l r end).
      { assert (Hgen : all_flagged fmod fpow U vm (many_side vm l r) (other_side vm l r)).
        { intros s0 rs H0 Hrs. destruct (can_join (join_view vm s0) rs vm) as [lab|] eqn:Ej; [|exfalso; exact (Hall s0 rs H0 Hrs Ej)].
          exists lab. split; [reflexivity|]. apply (join_label_must vm _ s0 rs lab H0 Ej). exact (Hfj s0 rs lab H0 Hrs Ej). }
        unfold many_side, other_side in Hgen. destruct (vm_card vm); exact Hgen. }
      cbn [local] in *. apply and_opt_true in Hloc. destruct Hloc as [Hb Hs]. split.
      + rewrite (join_contributes_nothing fmod fpow U db Htotal op rb vm l r Cl Cr R Hwf Hor HSl HSr Hfl Hb). rewrite Hs. reflexivity.
      + intros Hun. exact (join_returns_nothing fmod fpow U db Htotal op rb vm l r Cl Cr R Hwf Hor Hun HSl HSr Hfl Hb).
    - (* static comparison *)
      repeat (apply andb_true_iff in Hf; destruct Hf as [Hf ?]).
      apply negb_true_iff in Hf. subst rb.
      unfold const_ok in *. destruct (const_val l) as [x|] eqn:Ex; [|discriminate]. destruct (const_val r) as [y|] eqn:Ey; [|discriminate].
      assert (Hplain : plain_vm vm = true) by (rewrite <- plain_match_vm; assumption).
      assert (Hcmp : is_comparison op = true) by assumption.
      destruct (static_flag_is_static_false fmod fpow op false vm l r x y Hcmp Hplain Ex Ey) as [S [Hw Hd]].
      intros R HS.
      assert (HdS : s_dead S = true) by (apply He; rewrite Hw; left; reflexivity).
      rewrite Hd in HdS. exact (static_false_empty db op vm l r x y R Hcmp Ex Ey HdS HS).
    - (* unless on() *)
      destruct vm as [vm|]; [|destruct He].
      destruct He as [-> [_ [rs [Hrs [Ha Hc]]]]].
      apply andb_true_iff in Hf. destruct Hf as [Hf Hk]. apply andb_true_iff in Hf. destruct Hf as [_ Hon].
      intros Cl Cr R HSr Hloc.
      destruct (analyser_always_ne fmod fpow r Hk) as [_ H].
      cbn [local] in Hloc. apply and_opt_true in Hloc. destruct Hloc as [Hb _].
      exact (unless_on_empty_dead db rb vm r Cl Cr R Hon (H rs Hrs Ha Hc) HSr Hb).
    - (* right hand side of or *)
      destruct vm as [vm|]; [|destruct He].
      destruct He as [-> He].
      apply andb_true_iff in Hf. destruct Hf as [Hf Hk]. apply andb_true_iff in Hf. destruct Hf as [_ Hon].
      intros Cl Cr R HSl Hloc.
      assert (Hwl : wf l = true).
      { cbn [wf] in Hwf. apply andb_true_iff in Hwf. destruct Hwf as [Hwf _]. apply andb_true_iff in Hwf. tauto. }
      pose proof (walk_nonempty fmod fpow l Hwl) as Hne.
      destruct (walk l) as [|s0 rest] eqn:Ew; [congruence|].
      destruct (He s0 (or_introl eq_refl)) as [Ha Hc].
      destruct (analyser_always_ne fmod fpow l Hk) as [_ H].
      assert (Han : always_ne l = true) by (apply (H s0); [rewrite Ew; left; reflexivity | exact Ha | exact Hc]).
      cbn [local] in *. apply and_opt_true in Hloc. destruct Hloc as [Hb Hs].
      rewrite (or_on_empty_rhs_dead db rb vm l Cl Cr R Hon Han HSl Hb), Hs. reflexivity.
  Qed.

  (** the same at every operation node of an expression: arbitrary nesting *)
  Theorem impossible_sound e :
    wf e = true ->
    forall n v, subterm n e -> emits n v -> outside_classes n v -> proved_fragment n v -> contributes_nothing n v.
  Proof. intros Hwf n v Hs. apply impossible_sound_at. exact (wf_subterm n e Hs Hwf). Qed.
End Top.
