(** C07 — the enable decision: effect of one extra disable/snooze comment, locked blocks, file-level disables. *)
From Coq Require Import List String Ascii NArith ZArith Bool Lia.
From PintV Require Import Common.Bytes Model.CommentsUnicode Model.Comments Model.Enable.
Import ListNotations.
Open Scope string_scope.
Open Scope list_scope.

Definition mk_disable (m : string) : comment := {| c_type := DisableType; c_off := 0; c_val := VDisable m |}.
Definition mk_snooze (until : Z) (m : string) : comment := {| c_type := SnoozeType; c_off := 0; c_val := VSnooze until m |}.
Definition mk_file_disable (m : string) : comment := {| c_type := FileDisableType; c_off := 0; c_val := VDisable m |}.
Definition mk_file_snooze (until : Z) (m : string) : comment := {| c_type := FileSnoozeType; c_off := 0; c_val := VSnooze until m |}.

Definition with_comments (e : entry) (cs : list comment) : entry :=
  {| e_comments := cs; e_disabled := e_disabled e; e_state := e_state e |}.
Definition with_disabled (e : entry) (d : list string) : entry :=
  {| e_comments := e_comments e; e_disabled := d; e_state := e_state e |}.

(** the checks a rule-level comment for [m] switches off: targeted, not locked, not always-enabled *)
Definition rule_keep (m : string) (pr : prule) : bool :=
  ck_always (pr_check pr) || pr_locked pr || negb (targets m (pr_name pr) (ck_string (pr_check pr)) (pr_tags pr)).

(** the checks a file-level comment for [m] switches off: targeted, not always-enabled (locked does not protect) *)
Definition file_keep (m : string) (pr : prule) : bool :=
  ck_always (pr_check pr) || negb (targets m (pr_name pr) (ck_string (pr_check pr)) (pr_tags pr)).

Section WithNow.
Variable now : Z.

(** ** generic: a change of the entry that only ANDs a per-check predicate into the decision = deleting the
    other checks from the configuration (the "already enabled" de-duplication is re-run on the rest) *)
Lemma select_filter en dis cfg (e e' : entry) (keep : prule -> bool) :
  (forall sofar pr, parsed_rule_is_enabled now en dis sofar e' cfg pr = keep pr && parsed_rule_is_enabled now en dis sofar e cfg pr) ->
  forall prs sofar, select now en dis e' cfg prs sofar = select now en dis e cfg (filter keep prs) sofar.
Proof.
  intros H. induction prs as [|pr t IH]; intros sofar; [reflexivity|].
  cbn [select filter]. rewrite H. destruct (keep pr) eqn:K.
  - cbn [select]. rewrite andb_true_l.
    destruct (pr_match pr && parsed_rule_is_enabled now en dis (map (fun p => ck_string (pr_check p)) sofar) e cfg pr); apply IH.
  - rewrite andb_false_l, andb_false_r. apply IH.
Qed.

Lemma pre_and en dis cfg e e' keep :
  e_state e' = e_state e ->
  (forall d pr, is_enabled now en d (e_comments e') (pr_name pr) (pr_check pr) (pr_tags pr) (pr_locked pr) =
                keep pr && is_enabled now en d (e_comments e) (pr_name pr) (pr_check pr) (pr_tags pr) (pr_locked pr)) ->
  e_disabled e' = e_disabled e ->
  forall sofar pr, parsed_rule_is_enabled now en dis sofar e' cfg pr = keep pr && parsed_rule_is_enabled now en dis sofar e cfg pr.
Proof.
  intros Hs H Hd sofar pr. unfold parsed_rule_is_enabled. rewrite Hs, Hd, !H.
  destruct (N_mem (e_state e) (ck_states (pr_check pr))); cbn; [|rewrite andb_false_r; reflexivity].
  destruct (keep pr); cbn; [reflexivity|].
  reflexivity.
Qed.

(** ** one extra rule comment *)
Lemma disabled_for_rule_insert c1 c2 d name cstr tags :
  is_disabled_for_rule now (c1 ++ d :: c2) name cstr tags =
  comment_disables now name cstr tags d || is_disabled_for_rule now (c1 ++ c2) name cstr tags.
Proof.
  unfold is_disabled_for_rule. rewrite !existsb_app. cbn [existsb].
  destruct (existsb (comment_disables now name cstr tags) c1), (comment_disables now name cstr tags d); reflexivity.
Qed.

Lemma is_enabled_insert en d c1 c2 c pr (tg : bool) :
  comment_disables now (pr_name pr) (ck_string (pr_check pr)) (pr_tags pr) c = tg ->
  is_enabled now en d (c1 ++ c :: c2) (pr_name pr) (pr_check pr) (pr_tags pr) (pr_locked pr) =
  (ck_always (pr_check pr) || pr_locked pr || negb tg) &&
  is_enabled now en d (c1 ++ c2) (pr_name pr) (pr_check pr) (pr_tags pr) (pr_locked pr).
Proof.
  intros Htg. unfold is_enabled. rewrite disabled_for_rule_insert, Htg.
  destruct (ck_always (pr_check pr)); [reflexivity|]. destruct (pr_locked pr); [reflexivity|].
  destruct tg; cbn; [reflexivity|]. reflexivity.
Qed.

Theorem disable_exact en dis cfg e c1 c2 m prs :
  e_comments e = c1 ++ c2 ->
  get_checks now en dis (with_comments e (c1 ++ mk_disable m :: c2)) cfg prs =
  get_checks now en dis e cfg (filter (rule_keep m) prs).
Proof.
  intros He. unfold get_checks. apply select_filter. apply pre_and; try reflexivity.
  intros d pr. cbn [with_comments e_comments]. rewrite He. unfold rule_keep. apply is_enabled_insert. reflexivity.
Qed.

Theorem snooze_live_exact en dis cfg e c1 c2 until m prs :
  e_comments e = c1 ++ c2 -> (now < until)%Z ->
  get_checks now en dis (with_comments e (c1 ++ mk_snooze until m :: c2)) cfg prs =
  get_checks now en dis e cfg (filter (rule_keep m) prs).
Proof.
  intros He Hlive. unfold get_checks. apply select_filter. apply pre_and; try reflexivity.
  intros d pr. cbn [with_comments e_comments]. rewrite He. unfold rule_keep. apply is_enabled_insert.
  cbn. apply Z.ltb_lt in Hlive. rewrite Hlive. reflexivity.
Qed.

Lemma filter_true {A} (l : list A) : filter (fun _ => true) l = l.
Proof. induction l; cbn; congruence. Qed.

Theorem snooze_expired_noop en dis cfg e c1 c2 until m prs :
  e_comments e = c1 ++ c2 -> (until <= now)%Z ->
  get_checks now en dis (with_comments e (c1 ++ mk_snooze until m :: c2)) cfg prs = get_checks now en dis e cfg prs.
Proof.
  intros He Hexp. unfold get_checks. rewrite <- (filter_true prs) at 2. apply select_filter. apply pre_and; try reflexivity.
  intros d pr. cbn [with_comments e_comments]. rewrite He.
  rewrite (is_enabled_insert en d c1 c2 _ pr false).
  - rewrite orb_true_r. reflexivity.
  - cbn. apply Z.ltb_ge in Hexp. rewrite Hexp. reflexivity.
Qed.

(** ** locked blocks *)
Theorem locked_ignores_comments en dis sofar cfg e cs' pr :
  pr_locked pr = true ->
  parsed_rule_is_enabled now en dis sofar (with_comments e cs') cfg pr = parsed_rule_is_enabled now en dis sofar e cfg pr.
Proof.
  intros Hl. unfold parsed_rule_is_enabled, is_enabled. cbn [with_comments e_comments e_disabled e_state]. rewrite Hl. reflexivity.
Qed.

Theorem all_locked_ignore_comments en dis cfg e cs' prs :
  Forall (fun pr => pr_locked pr = true) prs ->
  get_checks now en dis (with_comments e cs') cfg prs = get_checks now en dis e cfg prs.
Proof.
  intros H. unfold get_checks. generalize (@nil prule) as sofar. induction H as [|pr t Hl Ht IH]; intros sofar; [reflexivity|].
  cbn [select]. rewrite (locked_ignores_comments _ _ _ _ _ _ _ Hl).
  destruct (pr_match pr && parsed_rule_is_enabled now en dis (map (fun p => ck_string (pr_check p)) sofar) e cfg pr); apply IH.
Qed.

(** ** file-level comments *)
Lemma mem_str_app x a b : mem_str x (a ++ b) = mem_str x a || mem_str x b.
Proof. induction a as [|y a IH]; cbn; [reflexivity|]. destruct (String.eqb x y); [reflexivity|exact IH]. Qed.

Lemma listed_targets name cstr tags m : listed name cstr tags m = targets m name cstr tags.
Proof.
  unfold listed, targets, matches. cbn [mem_str].
  destruct (String.eqb m name); [reflexivity|]. destruct (String.eqb m cstr); [reflexivity|]. cbn.
  induction tags as [|t r IH]; cbn; [reflexivity|]. destruct (String.eqb m (tag_match name t)); [reflexivity|exact IH].
Qed.

Lemma In_add_once x m l : In x (add_once m l) <-> In x l \/ x = m.
Proof.
  unfold add_once. destruct (mem_str m l) eqn:E.
  - apply mem_str_In in E. split; [auto|]. intros [H|H]; [exact H|subst; exact E].
  - rewrite in_app_iff. cbn. intuition.
Qed.

(** what one file comment contributes to DisabledChecks *)
Definition contributes (c : comment) : option string :=
  match c_type c, c_val c with
  | FileDisableType, VDisable m => Some m
  | FileSnoozeType, VSnooze until m => if (now <? until)%Z then Some m else None
  | _, _ => None
  end.

Lemma file_step_In x acc c : In x (file_disabled_step now acc c) <-> In x acc \/ contributes c = Some x.
Proof.
  unfold file_disabled_step, contributes.
  destruct (c_type c), (c_val c); try (split; [auto | intros [H|H]; [exact H|discriminate]]).
  - rewrite In_add_once. split; intros [H|H]; auto; [right; congruence | inversion H; auto].
  - destruct (now <? until)%Z.
    + rewrite In_add_once. split; intros [H|H]; auto; [right; congruence | inversion H; auto].
    + split; [auto | intros [H|H]; [exact H|discriminate]].
Qed.

Lemma file_fold_In cs : forall x acc,
  In x (fold_left (file_disabled_step now) cs acc) <-> In x acc \/ exists c, In c cs /\ contributes c = Some x.
Proof.
  induction cs as [|c t IH]; intros x acc; cbn [fold_left].
  - split; [auto | intros [H|(c & [] & _)]; exact H].
  - rewrite IH, file_step_In. split.
    + intros [[H|H]|(c' & Hin & Hc)]; auto; right; [exists c | exists c']; cbn; auto.
    + intros [H|(c' & [<-|Hin] & Hc)]; auto. right. exists c'. auto.
Qed.

(** DisabledChecks with one extra live file-level comment for [m] = the old set plus [m] *)
Lemma file_disabled_insert f1 f2 c m :
  contributes c = Some m ->
  forall x, In x (file_disabled now (f1 ++ c :: f2)) <-> In x (file_disabled now (f1 ++ f2)) \/ x = m.
Proof.
  intros Hc x. unfold file_disabled. rewrite !file_fold_In. split.
  - intros [[]|(c' & Hin & Hc')]. apply in_app_iff in Hin. destruct Hin as [Hin|[<-|Hin]].
    + left. right. exists c'. split; [apply in_app_iff; auto|exact Hc'].
    + right. congruence.
    + left. right. exists c'. split; [apply in_app_iff; auto|exact Hc'].
  - intros [[[]|(c' & Hin & Hc')]| ->]; right.
    + exists c'. split; [|exact Hc']. apply in_app_iff in Hin. apply in_app_iff. cbn. tauto.
    + exists c. split; [apply in_app_iff; cbn; auto|exact Hc].
Qed.

Lemma existsb_set {A} (P : A -> bool) l l' m :
  (forall x, In x l' <-> In x l \/ x = m) -> existsb P l' = existsb P l || P m.
Proof.
  intros H. apply eq_true_iff_eq. rewrite orb_true_iff, !existsb_exists. split.
  - intros (x & Hin & Px). apply H in Hin. destruct Hin as [Hin| ->]; [left; exists x; auto|right; exact Px].
  - intros [(x & Hin & Px)|Pm]; [exists x|exists m]; split; auto; apply H; auto.
Qed.

Lemma file_pre_and en dis cfg e d' m :
  (forall x, In x d' <-> In x (e_disabled e) \/ x = m) ->
  forall sofar pr, parsed_rule_is_enabled now en dis sofar (with_disabled e d') cfg pr =
                   file_keep m pr && parsed_rule_is_enabled now en dis sofar e cfg pr.
Proof.
  intros H sofar pr. unfold parsed_rule_is_enabled. cbn [with_disabled e_comments e_disabled e_state].
  destruct (N_mem (e_state e) (ck_states (pr_check pr))); cbn; [|rewrite andb_false_r; reflexivity].
  unfold is_enabled at 1 3. unfold file_keep.
  rewrite (existsb_set _ _ _ _ H), listed_targets.
  destruct (ck_always (pr_check pr)); [reflexivity|]. cbn [orb].
  destruct (negb (pr_locked pr) && is_disabled_for_rule now (e_comments e) (pr_name pr) (ck_string (pr_check pr)) (pr_tags pr));
    [rewrite andb_false_r; reflexivity|].
  destruct (targets m (pr_name pr) (ck_string (pr_check pr)) (pr_tags pr)); cbn.
  - rewrite orb_true_r. reflexivity.
  - rewrite orb_false_r. reflexivity.
Qed.

(** every rule (entry) of a file whose file-level comments gain one live comment for [m] *)
Theorem file_disable_all_rules en dis cfg fc1 fc2 c m e prs :
  contributes c = Some m ->
  e_disabled e = file_disabled now (fc1 ++ fc2) ->
  get_checks now en dis (with_disabled e (file_disabled now (fc1 ++ c :: fc2))) cfg prs =
  get_checks now en dis e cfg (filter (file_keep m) prs).
Proof.
  intros Hc He. unfold get_checks. apply select_filter. apply file_pre_and. rewrite He. apply file_disabled_insert. exact Hc.
Qed.

(** a file-level comment that contributes nothing (expired file/snooze, any other type) changes no entry *)
Theorem file_comment_noop fc1 fc2 c :
  contributes c = None ->
  forall x, In x (file_disabled now (fc1 ++ c :: fc2)) <-> In x (file_disabled now (fc1 ++ fc2)).
Proof.
  intros Hc x. unfold file_disabled. rewrite !file_fold_In. split; intros [[]|(c' & Hin & Hc')]; right; exists c'; split; auto.
  - apply in_app_iff in Hin. destruct Hin as [Hin|[<-|Hin]]; [apply in_app_iff; auto | congruence | apply in_app_iff; auto].
  - apply in_app_iff in Hin. apply in_app_iff. cbn. tauto.
Qed.

End WithNow.

(** ** when no two parsed rules share a String(): the selection is a plain filter, and the extra comment filters the
    old selection (the formula of the design document) *)
Section NoDup.
Variable now : Z.

Definition cstr (p : prule) : string := ck_string (pr_check p).

Lemma pre_sofar_irrelevant en dis cfg e pr s1 s2 :
  mem_str (cstr pr) s1 = mem_str (cstr pr) s2 ->
  parsed_rule_is_enabled now en dis s1 e cfg pr = parsed_rule_is_enabled now en dis s2 e cfg pr.
Proof. intros H. unfold parsed_rule_is_enabled. unfold cstr in H. rewrite H. reflexivity. Qed.

Definition dec en dis cfg e (pr : prule) : bool := pr_match pr && parsed_rule_is_enabled now en dis [] e cfg pr.

Lemma mem_str_false_notin x l : ~ In x l -> mem_str x l = false.
Proof. intros H. destruct (mem_str x l) eqn:E; [|reflexivity]. apply mem_str_In in E. contradiction. Qed.

Lemma select_nodup en dis cfg e : forall prs sofar,
  NoDup (map cstr prs) ->
  (forall p, In p prs -> ~ In (cstr p) (map cstr sofar)) ->
  select now en dis e cfg prs sofar = sofar ++ filter (dec en dis cfg e) prs.
Proof.
  induction prs as [|pr t IH]; intros sofar Hnd Hdis; [cbn; rewrite app_nil_r; reflexivity|].
  cbn [select filter]. inversion Hnd as [|? ? Hnotin Hnd']; subst.
  assert (E : parsed_rule_is_enabled now en dis (map (fun p => ck_string (pr_check p)) sofar) e cfg pr =
              parsed_rule_is_enabled now en dis [] e cfg pr).
  { apply pre_sofar_irrelevant. cbn [mem_str]. apply mem_str_false_notin. apply (Hdis pr). left. reflexivity. }
  rewrite E. change (pr_match pr && parsed_rule_is_enabled now en dis [] e cfg pr) with (dec en dis cfg e pr).
  destruct (dec en dis cfg e pr).
  - rewrite IH; [rewrite <- app_assoc; reflexivity | exact Hnd' |].
    intros p Hp Hin. rewrite map_app, in_app_iff in Hin. destruct Hin as [Hin|[Hin|[]]].
    + apply (Hdis p); [right; exact Hp|exact Hin].
    + apply Hnotin. rewrite Hin. apply in_map. exact Hp.
  - apply IH; [exact Hnd'|]. intros p Hp. apply Hdis. right. exact Hp.
Qed.

Lemma get_checks_nodup en dis cfg e prs :
  NoDup (map cstr prs) -> get_checks now en dis e cfg prs = filter (dec en dis cfg e) prs.
Proof. intros H. unfold get_checks. rewrite select_nodup; [reflexivity|exact H|]. intros p _ []. Qed.

Lemma NoDup_map_filter {A B} (f : A -> B) (P : A -> bool) l : NoDup (map f l) -> NoDup (map f (filter P l)).
Proof.
  induction l as [|x t IH]; intros H; [constructor|]. inversion H as [|? ? Hn Ht]; subst. cbn [filter].
  destruct (P x); [|apply IH; exact Ht]. cbn [map]. constructor; [|apply IH; exact Ht].
  intros Hin. apply Hn. apply in_map_iff in Hin. destruct Hin as (y & Hy & Hin). apply filter_In in Hin.
  apply in_map_iff. exists y. tauto.
Qed.

Lemma filter_comm {A} (P Q : A -> bool) l : filter P (filter Q l) = filter Q (filter P l).
Proof.
  induction l as [|x t IH]; [reflexivity|]. cbn [filter].
  destruct (P x) eqn:Ep, (Q x) eqn:Eq; cbn [filter]; rewrite ?Ep, ?Eq, IH; reflexivity.
Qed.

Theorem disable_exact_nodup en dis cfg e c1 c2 m prs :
  NoDup (map cstr prs) -> e_comments e = c1 ++ c2 ->
  get_checks now en dis (with_comments e (c1 ++ mk_disable m :: c2)) cfg prs =
  filter (rule_keep m) (get_checks now en dis e cfg prs).
Proof.
  intros Hnd He. rewrite (disable_exact now en dis cfg e c1 c2 m prs He).
  rewrite (get_checks_nodup en dis cfg e prs Hnd).
  rewrite (get_checks_nodup en dis cfg e (filter (rule_keep m) prs)) by (apply NoDup_map_filter; exact Hnd).
  apply filter_comm.
Qed.

End NoDup.

(** ** from selected checks to reported problems: the checks themselves are opaque ([run]); the only thing assumed
    about them is that they do not react to the added comment (tested by the relational oracle, not proved). *)
Section Problems.
Variable now : Z.
Variable problem : Type.
Variable run : prule -> entry -> list problem.

Definition problems en dis cfg (e : entry) (prs : list prule) : list (prule * problem) :=
  flat_map (fun pr => map (fun p => (pr, p)) (run pr e)) (get_checks now en dis e cfg prs).

Lemma filter_all {B} (Q : B -> bool) (l : list B) (v : bool) :
  (forall b, In b l -> Q b = v) -> filter Q l = if v then l else [].
Proof.
  induction l as [|b r IH]; intros H; [destruct v; reflexivity|].
  cbn [filter]. rewrite (H b (or_introl eq_refl)). rewrite IH by (intros b0 Hb0; apply H; right; exact Hb0).
  destruct v; reflexivity.
Qed.

Lemma flat_map_filter {A B} (f : A -> list B) (P : A -> bool) (Q : B -> bool) l :
  (forall a b, In b (f a) -> Q b = P a) ->
  flat_map f (filter P l) = filter Q (flat_map f l).
Proof.
  intros H. induction l as [|a t IH]; [reflexivity|]. cbn [filter flat_map]. rewrite filter_app, <- IH.
  rewrite (filter_all Q (f a) (P a) (H a)).
  destruct (P a); reflexivity.
Qed.

Theorem problems_exact en dis cfg e c1 c2 m prs :
  NoDup (map cstr prs) -> e_comments e = c1 ++ c2 ->
  (forall pr, run pr (with_comments e (c1 ++ mk_disable m :: c2)) = run pr e) ->
  problems en dis cfg (with_comments e (c1 ++ mk_disable m :: c2)) prs =
  filter (fun pp => rule_keep m (fst pp)) (problems en dis cfg e prs).
Proof.
  intros Hnd He Hrun. unfold problems. rewrite (disable_exact_nodup now en dis cfg e c1 c2 m prs Hnd He).
  rewrite (flat_map_ext _ (fun pr => map (fun p => (pr, p)) (run pr e))) by (intros pr; rewrite Hrun; reflexivity).
  apply flat_map_filter. intros a b Hb. apply in_map_iff in Hb. destruct Hb as (p & <- & _). reflexivity.
Qed.

End Problems.
