(** C13 — the slices produced by sliceRange / RangeQuery partition the evaluation grid:
    concatenating the per-slice grids (in slice order) gives exactly the grid of ONE query from the first
    slice's start to [end]. *)
From Coq Require Import List ZArith NArith Bool Lia.
From PintV Require Import Common.GoTime Model.Range Model.RangeRef Proofs.C13_slice.
Import ListNotations.
Open Scope Z_scope.

(** shape of a slice list: consecutive slices start [S] apart, every slice but the last ends one second
    before the next one starts, the last one ends at [e] and is at most [S] long *)
Inductive chain (S e : Z) : list tr -> Prop :=
| chain_last a : a <= e <= a + S -> chain S e [(a, e)]
| chain_cons a b r : chain S e ((a + S, b) :: r) -> chain S e ((a, a + S - sec) :: (a + S, b) :: r).

Lemma chain_head_le S e a b r : 0 < S -> chain S e ((a, b) :: r) -> a <= e.
Proof.
  intros HS H. remember ((a, b) :: r) as l eqn:El. revert a b r El.
  induction H as [a0 Ha|a0 b0 r0 H IH]; intros a b r El; inversion El; subst.
  - lia.
  - specialize (IH (a + S) b0 r0 eq_refl). lia.
Qed.

Lemma trim_ends_cons2 x y r : trim_ends (x :: y :: r) = (fst x, snd x - sec) :: trim_ends (y :: r).
Proof. destruct x. reflexivity. Qed.

Lemma slice_loop_chain S e : 0 < S -> forall fuel r l,
  r < e -> slice_loop fuel r e S = Some l ->
  exists b l', trim_ends l = (r, b) :: l' /\ chain S e (trim_ends l).
Proof.
  intros HS fuel. induction fuel as [|f IH]; intros r l Hlt H; cbn [slice_loop] in H; [discriminate|].
  destruct (r <? e) eqn:E; [|apply Z.ltb_ge in E; lia].
  destruct (slice_loop f (r + S) e S) as [l1|] eqn:El; [|discriminate].
  inversion H; subst l; clear H.
  destruct (Z_lt_le_dec (r + S) e) as [Hlt2|Hge].
  - destruct (e <? r + S) eqn:E2; [apply Z.ltb_lt in E2; lia|].
    destruct (IH (r + S) l1 Hlt2 El) as [b [l' [Ht Hc]]].
    destruct l1 as [|x1 l1']; [discriminate|].
    rewrite trim_ends_cons2. cbn [fst snd]. rewrite Ht in *.
    exists (r + S - sec), ((r + S, b) :: l'). split; [reflexivity|].
    apply chain_cons. exact Hc.
  - destruct f as [|f']; [discriminate|]. cbn [slice_loop] in El.
    destruct (r + S <? e) eqn:E3; [apply Z.ltb_lt in E3; lia|]. inversion El; subst l1.
    cbn [trim_ends].
    assert ((if e <? r + S then e else r + S) = e) as -> by (destruct (e <? r + S) eqn:E4; [reflexivity|apply Z.ltb_ge in E4; lia]).
    exists e, []. split; [reflexivity|]. apply chain_last. lia.
Qed.

(** sliceRange, when it really slices, returns a chain that starts at or before [start] and less than one
    slice before it *)
Lemma slice_range_chain fuel start e res S sl : 0 <= res -> 0 < S -> res < e - start ->
  slice_range fuel start e res S = Some sl ->
  chain S e sl /\ exists a b r, sl = (a, b) :: r /\ a <= start < a + S /\ ((a + unix_to_abs) mod S = 0).
Proof.
  intros Hres HS Hlt H. unfold slice_range in H.
  destruct (e - start <=? res) eqn:E; [apply Z.leb_le in E; lia|].
  pose proof (time_round_near start S HS) as [_ [Hlo Hhi]].
  pose proof (time_round_multiple start S HS) as Hmul.
  set (r0 := time_round start S) in *.
  destruct (slice_loop fuel r0 e S) as [l|] eqn:El; [|discriminate]. inversion H; subst sl; clear H.
  destruct (start <? r0) eqn:E1.
  - apply Z.ltb_lt in E1.
    assert (((r0 - S + unix_to_abs) mod S) = 0) as Hm2.
    { replace (r0 - S + unix_to_abs) with ((r0 + unix_to_abs) + (-1) * S) by lia. rewrite Z.mod_add by lia. exact Hmul. }
    destruct (Z_lt_le_dec r0 e) as [Hr|Hr].
    + destruct (e <? r0) eqn:E2; [apply Z.ltb_lt in E2; lia|].
      destruct (slice_loop_chain S e HS fuel r0 l Hr El) as [b [l' [Ht Hc]]].
      destruct l as [|x l0]; [discriminate|].
      cbn [app]. rewrite trim_ends_cons2. cbn [fst snd]. rewrite Ht in *.
      split.
      * replace r0 with (r0 - S + S) at 2 3 by lia. apply chain_cons. replace (r0 - S + S) with r0 by lia. exact Hc.
      * exists (r0 - S), (r0 - sec), ((r0, b) :: l'). split; [reflexivity|]. split; [lia|exact Hm2].
    + destruct fuel as [|f]; [discriminate|]. cbn [slice_loop] in El.
      destruct (r0 <? e) eqn:E3; [apply Z.ltb_lt in E3; lia|]. inversion El; subst l. cbn [app trim_ends].
      assert ((if e <? r0 then e else r0) = e) as -> by (destruct (e <? r0) eqn:E4; [reflexivity|apply Z.ltb_ge in E4; lia]).
      split; [apply chain_last; lia|]. exists (r0 - S), e, []. split; [reflexivity|]. split; [lia|exact Hm2].
  - apply Z.ltb_ge in E1. cbn [app].
    assert (r0 < e) as Hr by lia.
    destruct (slice_loop_chain S e HS fuel r0 l Hr El) as [b [l' [Ht Hc]]].
    split; [exact Hc|]. exists r0, b, l'. split; [exact Ht|]. split; [lia|exact Hmul].
Qed.

(** --- grids --------------------------------------------------------------------------------- *)

Lemma grid_app n m a step : grid (n + m) a step = grid n a step ++ grid m (a + Z.of_nat n * step) step.
Proof.
  revert a. induction n as [|n IH]; intros a.
  - cbn [plus grid app]. f_equal. lia.
  - cbn [plus grid app]. f_equal. rewrite IH. f_equal. f_equal. lia.
Qed.

Lemma npoints_slice a m step : 0 < m -> sec <= step ->
  npoints a (a + m * step - sec) step = Z.to_nat m.
Proof.
  intros Hm Hs. unfold npoints. assert (0 < sec) by (unfold sec; lia).
  destruct (a + m * step - sec <? a) eqn:E; [apply Z.ltb_lt in E; nia|].
  f_equal. replace (a + m * step - sec - a) with ((step - sec) + (m - 1) * step) by lia.
  rewrite Z.div_add by lia. rewrite Z.div_small by lia. lia.
Qed.

Lemma npoints_split a e m step : 0 < m -> 0 < step -> a + m * step <= e ->
  npoints a e step = (Z.to_nat m + npoints (a + m * step) e step)%nat.
Proof.
  intros Hm Hs Hle. unfold npoints.
  destruct (e <? a) eqn:E; [apply Z.ltb_lt in E; nia|].
  destruct (e <? a + m * step) eqn:E2; [apply Z.ltb_lt in E2; lia|].
  replace (e - a) with ((e - (a + m * step)) + m * step) by lia. rewrite Z.div_add by lia.
  assert (0 <= (e - (a + m * step)) / step) by (apply Z.div_pos; lia).
  rewrite <- Z2Nat.inj_add by lia. f_equal. lia.
Qed.

Definition slice_grid (step : Z) (s : tr) : list Z := grid_between (fst s) (snd s) step.

Definition first_start (sl : list tr) (d : Z) : Z := match sl with (s, _) :: _ => s | [] => d end.

(** the per-slice grids, concatenated in slice order, are the grid of one unsliced query *)
Lemma chain_partitions_grid S e step m sl : S = m * step -> 0 < m -> sec <= step ->
  chain S e sl ->
  flat_map (slice_grid step) sl = grid_between (first_start sl 0) e step.
Proof.
  intros HS Hm Hs H. assert (0 < sec) by (unfold sec; lia). assert (0 < S) by nia.
  induction H as [a Ha|a b r H IH].
  - cbn [flat_map first_start slice_grid fst snd]. apply app_nil_r.
  - cbn [flat_map first_start] in *. rewrite IH. unfold slice_grid at 1. cbn [fst snd].
    unfold grid_between. subst S.
    rewrite npoints_slice by assumption.
    pose proof (chain_head_le (m * step) e (a + m * step) b r H1 H) as Hle.
    rewrite (npoints_split a e m step) by lia.
    rewrite grid_app. rewrite Z2Nat.id by lia. reflexivity.
Qed.
