(** C12: static comparison folding.  On syntactically constant operands ([const_val]) the analyser's
    ReturnedNumber IS the value, so a dead verdict of calculateStaticReturn on a filtering comparison
    (no [bool]) is true: the semantics admits only the empty result. *)
From Coq Require Import List String Bool Floats NArith Arith Lia.
From PintV Require Import Common.Bytes Gen.C04 Model.PromQL Model.Source Model.PromSem Model.PromFrag
  Proofs.C04_lists Proofs.C04_transfer Proofs.C04_walk Proofs.C04_sound Proofs.C04_calls Proofs.C04_binops Proofs.C04_main.
Import ListNotations.
Open Scope string_scope.
Open Scope list_scope.

(** the fields static folding reads *)
Definition skn (s s' : source) : Prop :=
  s_known s = s_known s' /\ s_always s = s_always s' /\ s_number s = s_number s' /\ s_dead s = s_dead s'.

Lemma skn_refl s : skn s s. Proof. repeat split. Qed.
Lemma skn_trans a b c : skn a b -> skn b c -> skn a c.
Proof. unfold skn. intuition congruence. Qed.

Lemma skn_apply_conditions s op b : skn (apply_conditions s op b) s.
Proof. unfold apply_conditions. destruct (check_conditions s op b). repeat split. Qed.

Lemma skn_set_op_default s c : skn (set_op_default s c) s.
Proof. unfold set_op_default. destruct (String.eqb (s_operation s) ""); repeat split. Qed.

Lemma skn_add_joins vm others : forall s, skn (add_joins vm others s) s.
Proof.
  unfold add_joins. induction others as [|o r IH]; intros s; simpl; [apply skn_refl|].
  eapply skn_trans; [apply IH|]. repeat split.
Qed.

Lemma skn_exclude s ns : skn (exclude_label s ns) s. Proof. repeat split. Qed.

Definition is_arith (op : binop) : bool := match op with OAdd | OSub | OMul | ODiv => true | _ => false end.

Lemma arith_val_some op x y v : arith_val op x y = Some v -> is_arith op = true.
Proof. destruct op; simpl; intros H; try discriminate; reflexivity. Qed.

Section Static.
  Variables fmod fpow : float -> float -> float.
  Notation walk := (walk_node fmod fpow).

  Lemma calc_arith ls rs op d v :
    arith_val op (s_number ls) (s_number rs) = Some v ->
    calculate_static_return fmod fpow ls rs op d = (v, d).
  Proof. destruct op; simpl; intros H; try discriminate; inversion H; reflexivity. Qed.

  Lemma calc_cmp_dead ls rs op :
    is_comparison op = true ->
    snd (calculate_static_return fmod fpow ls rs op false) = static_false op (s_number ls) (s_number rs).
  Proof.
    destruct op; simpl; intros H; try discriminate;
      match goal with |- snd (if ?c then _ else _) = _ => destruct c; reflexivity end.
  Qed.

  (** single, statically known source *)
  Definition Known1 (e : expr) (v : float) : Prop :=
    exists s, walk e = [s] /\ s_known s = true /\ s_always s = true /\ s_number s = v /\ s_dead s = false.

  Definition KV (e : expr) : Prop := forall v, const_val e = Some v -> Known1 e v.

  Lemma func_kind_vector : func_kind "vector" = "vector".
  Proof. vm_compute. reflexivity. Qed.

  Lemma KV_call f ats args : Forall KV args -> KV (ECall f ats args).
  Proof.
    intros IH v Hc. cbn [const_val] in Hc.
    destruct args as [|a [|? ?]]; try discriminate.
    destruct (String.eqb f "vector" && negb (is_vec_or_matrix_t (arg_type_of ats 0))) eqn:E; [|discriminate].
    apply andb_true_iff in E. destruct E as [Ef Ev]. apply String.eqb_eq in Ef. subst f. apply negb_true_iff in Ev.
    inversion IH as [|? ? Ha _]; subst. destruct (Ha v Hc) as [sa [Hw [Hk [Hal [Hn Hd]]]]].
    unfold Known1. cbn [walk_node call_srcs]. rewrite Hw.
    change (is_vec_or_matrix (arg_type ats 0)) with (is_vec_or_matrix_t (arg_type_of ats 0)). rewrite Ev. cbn [app].
    eexists. split; [reflexivity|].
    rewrite call_src_unfold, (ppf_vector _ _ _ _ func_kind_vector). cbn [fold_left]. rewrite Hk.
    repeat split; try reflexivity. cbn. exact Hn.
  Qed.

  Lemma nil_pair_known op rb sa sb x y v :
    s_known sa = true -> s_always sa = true -> s_number sa = x -> s_dead sa = false ->
    s_known sb = true -> s_always sb = true -> s_number sb = y ->
    arith_val op x y = Some v ->
    let S := nil_pair fmod fpow op rb sa sb in
    s_known S = true /\ s_always S = true /\ s_number S = v /\ s_dead S = false.
  Proof.
    intros Hk1 Ha1 Hn1 Hd1 Hk2 Ha2 Hn2 Hv. cbv zeta. unfold nil_pair.
    set (ls := apply_conditions sa op rb). set (rs := apply_conditions sb op rb).
    destruct (skn_apply_conditions sa op rb) as [L1 [L2 [L3 L4]]]. fold ls in L1, L2, L3, L4.
    destruct (skn_apply_conditions sb op rb) as [R1 [R2 [R3 R4]]]. fold rs in R1, R2, R3, R4.
    unfold static_applies. rewrite L1, L2, R1, R2, Hk1, Ha1, Hk2, Ha2. cbn [andb].
    unfold apply_static. rewrite (calc_arith ls rs op (s_dead ls) v); [|rewrite L3, R3, Hn1, Hn2; exact Hv].
    cbn [s_known s_always s_number s_dead set_dead_label set_dead set_number].
    rewrite L4, Hd1.
    destruct (is_vec_or_matrix (s_returns ls)); [|destruct (is_vec_or_matrix (s_returns rs))];
      repeat split; congruence.
  Qed.

  Lemma oto_known op rb vm sa sb x y v :
    vm_on vm = false ->
    s_known sa = true -> s_always sa = true -> s_number sa = x -> s_dead sa = false ->
    s_known sb = true -> s_always sb = true -> s_number sb = y ->
    arith_val op x y = Some v ->
    let S := one_to_one_src fmod fpow op rb vm [sb] sa in
    s_known S = true /\ s_always S = true /\ s_number S = v /\ s_dead S = false.
  Proof.
    intros Hon Hk1 Ha1 Hn1 Hd1 Hk2 Ha2 Hn2 Hv. cbv zeta. unfold one_to_one_src.
    match goal with |- context [apply_conditions ?s0 op rb] => destruct (skn_apply_conditions s0 op rb) as [A1 [A2 [A3 A4]]] end.
    rewrite A1, A2, A3, A4. clear A1 A2 A3 A4.
    match goal with |- context [add_joins vm [sb] ?s0] => destruct (skn_add_joins vm [sb] s0) as [A1 [A2 [A3 A4]]] end.
    rewrite A1, A2, A3, A4. clear A1 A2 A3 A4.
    match goal with |- context [set_op_default ?s0 (vm_card vm)] => destruct (skn_set_op_default s0 (vm_card vm)) as [A1 [A2 [A3 A4]]] end.
    rewrite A1, A2, A3, A4. clear A1 A2 A3 A4.
    unfold one_to_one_static, one_to_one_labels. rewrite Hon. cbn [fold_left].
    set (s1 := exclude_label sa (vm_labels vm)). set (rs := apply_conditions sb op rb).
    destruct (skn_apply_conditions sb op rb) as [R1 [R2 [R3 R4]]]. fold rs in R1, R2, R3, R4.
    unfold static_applies. change (s_always s1) with (s_always sa). change (s_known s1) with (s_known sa).
    rewrite R1, R2, Hk1, Ha1, Hk2, Ha2. cbn [andb].
    unfold apply_static. change (s_dead s1) with (s_dead sa).
    rewrite (calc_arith s1 rs op (s_dead sa) v); [|change (s_number s1) with (s_number sa); rewrite R3, Hn1, Hn2; exact Hv].
    cbn [s_known s_always s_number s_dead set_dead_label set_dead set_number].
    change (s_always s1) with (s_always sa). change (s_known s1) with (s_known sa).
    repeat split; congruence.
  Qed.

  Lemma KV_bin op rb vm a b : KV a -> KV b -> KV (EBin op rb vm a b).
  Proof.
    intros IHa IHb v Hc. cbn [const_val] in Hc.
    destruct vm as [vm|].
    - destruct (vm_card vm) eqn:Ecard; try discriminate.
      destruct (vm_on vm) eqn:Eon; [discriminate|]. cbn [negb] in Hc.
      destruct (const_val a) as [x|] eqn:Ea; [|discriminate]. destruct (const_val b) as [y|] eqn:Eb; [|discriminate].
      destruct (IHa x Ea) as [sa [Hwa [K1 [A1 [N1 D1]]]]]. destruct (IHb y Eb) as [sb [Hwb [K2 [A2 [N2 D2]]]]].
      exists (one_to_one_src fmod fpow op rb vm [sb] sa). split.
      + cbn [walk_node]. rewrite Ecard, Hwa, Hwb. reflexivity.
      + apply (oto_known op rb vm sa sb x y v); auto.
    - destruct (const_val a) as [x|] eqn:Ea; [|discriminate]. destruct (const_val b) as [y|] eqn:Eb; [|discriminate].
      destruct (IHa x Ea) as [sa [Hwa [K1 [A1 [N1 D1]]]]]. destruct (IHb y Eb) as [sb [Hwb [K2 [A2 [N2 D2]]]]].
      exists (nil_pair fmod fpow op rb sa sb). split.
      + cbn [walk_node]. rewrite Hwa, Hwb. reflexivity.
      + apply (nil_pair_known op rb sa sb x y v); auto.
  Qed.

  Theorem const_val_known : forall e, KV e.
  Proof.
    induction e using expr_ind'; try (intros v Hc; discriminate).
    - intros v' Hc. inversion Hc; subst. eexists. split; [reflexivity|]. repeat split.
    - intros v Hc. cbn [const_val] in Hc. destruct (IHe v Hc) as [s [Hw H]]. exists s. split; auto.
    - apply KV_call; auto.
    - apply KV_bin; auto.
  Qed.

  (** the dead flag the analyser computes for a plain comparison of two constants IS [static_false] *)
  Definition plain_vm (vm : option vmatch) : bool :=
    match vm with
    | None => true
    | Some vm => match vm_card vm with OneToOne => negb (vm_on vm) | _ => false end
    end.

  Theorem static_flag_is_static_false op rb vm l r x y :
    is_comparison op = true -> plain_vm vm = true ->
    const_val l = Some x -> const_val r = Some y ->
    exists S, walk (EBin op rb vm l r) = [S] /\ s_dead S = static_false op x y.
  Proof.
    intros Hcmp Hplain Hx Hy.
    destruct (const_val_known l x Hx) as [sa [Hwa [K1 [A1 [N1 D1]]]]].
    destruct (const_val_known r y Hy) as [sb [Hwb [K2 [A2 [N2 D2]]]]].
    destruct vm as [vm|]; cbn [plain_vm] in Hplain.
    - destruct (vm_card vm) eqn:Ecard; try discriminate. apply negb_true_iff in Hplain.
      exists (one_to_one_src fmod fpow op rb vm [sb] sa). split.
      + cbn [walk_node]. rewrite Ecard, Hwa, Hwb. reflexivity.
      + unfold one_to_one_src.
        match goal with |- context [apply_conditions ?s0 op rb] => destruct (skn_apply_conditions s0 op rb) as [_ [_ [_ A4]]] end.
        rewrite A4. clear A4.
        match goal with |- context [add_joins vm [sb] ?s0] => destruct (skn_add_joins vm [sb] s0) as [_ [_ [_ A4]]] end.
        rewrite A4. clear A4.
        match goal with |- context [set_op_default ?s0 (vm_card vm)] => destruct (skn_set_op_default s0 (vm_card vm)) as [_ [_ [_ A4]]] end.
        rewrite A4. clear A4.
        unfold one_to_one_static, one_to_one_labels. rewrite Hplain. cbn [fold_left].
        set (s1 := exclude_label sa (vm_labels vm)). set (rs := apply_conditions sb op rb).
        destruct (skn_apply_conditions sb op rb) as [R1 [R2 [R3 R4]]]. fold rs in R1, R2, R3, R4.
        unfold static_applies. change (s_always s1) with (s_always sa). change (s_known s1) with (s_known sa).
        rewrite R1, R2, K1, A1, K2, A2. cbn [andb].
        unfold apply_static. change (s_dead s1) with (s_dead sa). rewrite D1.
        pose proof (calc_cmp_dead s1 rs op Hcmp) as Hd.
        destruct (calculate_static_return fmod fpow s1 rs op false) as [nv dv]. cbn [snd] in Hd.
        cbn [s_dead set_dead_label set_dead set_number]. rewrite Hd.
        change (s_number s1) with (s_number sa). rewrite R3, N1, N2. reflexivity.
    - exists (nil_pair fmod fpow op rb sa sb). split.
      + cbn [walk_node]. rewrite Hwa, Hwb. reflexivity.
      + unfold nil_pair.
        set (ls := apply_conditions sa op rb). set (rs := apply_conditions sb op rb).
        destruct (skn_apply_conditions sa op rb) as [L1 [L2 [L3 L4]]]. fold ls in L1, L2, L3, L4.
        destruct (skn_apply_conditions sb op rb) as [R1 [R2 [R3 R4]]]. fold rs in R1, R2, R3, R4.
        unfold static_applies. rewrite L1, L2, R1, R2, K1, A1, K2, A2. cbn [andb].
        unfold apply_static. rewrite L4, D1.
        pose proof (calc_cmp_dead ls rs op Hcmp) as Hd.
        destruct (calculate_static_return fmod fpow ls rs op false) as [nv dv]. cbn [snd] in Hd.
        cbn [s_dead set_dead_label set_dead set_number]. rewrite Hd, L3, R3, N1, N2. reflexivity.
  Qed.
End Static.

(** a filtering comparison of two constants that is statically false admits only the empty result *)
Theorem static_false_empty db op vm l r x y R :
  is_comparison op = true ->
  const_val l = Some x -> const_val r = Some y -> static_false op x y = true ->
  Sem db (EBin op false vm l r) (RVec R) -> R = [].
Proof.
  intros Hcmp Hx Hy Hsf HS. apply Sem_inv in HS. destruct HS as [cs [Hc Hl]]. cbn [children] in Hc.
  apply Forall2_2 in Hc. destruct Hc as [cl [cr [-> _]]].
  assert (Hst : static_rule op false l r R = true -> R = []).
  { unfold static_rule. rewrite Hcmp, Hx, Hy, Hsf. cbn [negb andb]. destruct R; [reflexivity | discriminate]. }
  destruct vm as [vm|]; cbn [local] in Hl;
    destruct cl as [| |Cl| |]; try discriminate; destruct cr as [| |Cr| |]; try discriminate;
    apply and_opt_true in Hl; destruct Hl as [_ Hl]; auto.
Qed.
