(** C08 — logic theorems about the enable/disable decision (Model/CheckSwitch.v), for ALL configurations,
    entries and lists of parsed rules. *)
From Coq Require Import List String Ascii Bool Arith Lia.
From PintV Require Import Common.Bytes Model.CheckSwitch.
Import ListNotations.
Open Scope string_scope.
Open Scope list_scope.

(* ------------------------------------------------------------------------------------------ *)
(** * Strings: '(' never occurs in a plain name *)

Lemma has_char_app ch a b : has_char ch (a ++ b)%string = has_char ch a || has_char ch b.
Proof.
  induction a as [|c a IH]; simpl; [reflexivity|].
  destruct (Ascii.eqb c ch); [reflexivity|exact IH].
Qed.

Lemma get_has_char ch : forall s n, String.get n s = Some ch -> has_char ch s = true.
Proof.
  induction s as [|c s IH]; intros n H; simpl in *; [discriminate|].
  destruct n as [|n].
  - inversion H; subst. rewrite Ascii.eqb_refl. reflexivity.
  - destruct (Ascii.eqb c ch); [reflexivity|]. exact (IH n H).
Qed.

Lemma tagged_has_paren name tag : has_char lparen (tagged name tag) = true.
Proof.
  unfold tagged. rewrite has_char_app. rewrite has_char_app.
  replace (has_char lparen "(+") with true by reflexivity.
  rewrite orb_true_r. reflexivity.
Qed.

(** A plain name (no parenthesis) other than the registered name never hits a well-shaped parsed rule. *)
Lemma hits_plain_other c p :
  plain_name c = true -> string_shape p = true -> c <> pr_name p ->
  hits c (pr_name p) (pr_check p) (pr_tags p) = false.
Proof.
  intros Hpl Hsh Hne. unfold hits.
  assert (E1 : String.eqb c (pr_name p) = false) by (apply String.eqb_neq; exact Hne).
  rewrite E1. simpl.
  unfold plain_name in Hpl. apply negb_true_iff in Hpl.
  assert (E2 : String.eqb c (ck_string (pr_check p)) = false).
  { apply String.eqb_neq. intro Heq. unfold string_shape in Hsh. apply orb_true_iff in Hsh.
    destruct Hsh as [Hs|Hs].
    - apply String.eqb_eq in Hs. congruence.
    - apply andb_true_iff in Hs. destruct Hs as [_ Hs].
      destruct (String.get (String.length (pr_name p)) (ck_string (pr_check p))) as [ch|] eqn:G; [|discriminate].
      apply Ascii.eqb_eq in Hs. subst ch. apply get_has_char in G. rewrite <- Heq in G. congruence. }
  rewrite E2. simpl.
  induction (pr_tags p) as [|t ts IH]; simpl; [reflexivity|].
  rewrite IH, orb_false_r. apply String.eqb_neq. intro Heq.
  pose proof (tagged_has_paren (pr_name p) t) as T. rewrite <- Heq in T. congruence.
Qed.

Lemma hits_self name ck tags : hits name name ck tags = true.
Proof. unfold hits. rewrite String.eqb_refl. reflexivity. Qed.

(* ------------------------------------------------------------------------------------------ *)
(** * The generic "switching = filtering" lemma for the routing loop *)

Lemma existsb_filter_coherent {A} (f keep : A -> bool) (l : list A) :
  (forall q, In q l -> f q = true -> keep q = true) ->
  existsb f (filter keep l) = existsb f l.
Proof.
  induction l as [|q l IH]; intro H; simpl; [reflexivity|].
  destruct (keep q) eqn:K; simpl.
  - rewrite IH; [reflexivity|]. intros q' Hq'. apply H. right. exact Hq'.
  - destruct (f q) eqn:F.
    + rewrite (H q (or_introl eq_refl) F) in K. discriminate.
    + simpl. apply IH. intros q' Hq'. apply H. right. exact Hq'.
Qed.

Lemma filter_app_one {A} (keep : A -> bool) l x :
  filter keep (l ++ [x]) = if keep x then filter keep l ++ [x] else filter keep l.
Proof.
  rewrite filter_app. simpl. destruct (keep x); [reflexivity|apply app_nil_r].
Qed.

Section FoldFilter.
  Variables (c c' : config) (e : entry) (keep : prule -> bool) (all : list prule).

  (** (a) a rule that is filtered out is never enabled under the new configuration *)
  Hypothesis drop : forall acc p, In p all -> keep p = false -> prule_is_enabled c' e acc p = false.
  (** (b) a rule that is kept is decided identically, the already-enabled list being filtered too *)
  Hypothesis same : forall acc p, In p all -> incl acc all -> keep p = true ->
      prule_is_enabled c' e (filter keep acc) p = prule_is_enabled c e acc p.

  Lemma fold_filter : forall prs acc, incl prs all -> incl acc all ->
    get_checks_from c' e (filter keep acc) prs = filter keep (get_checks_from c e acc prs).
  Proof.
    induction prs as [|p prs IH]; intros acc Hprs Hacc; simpl; [reflexivity|].
    assert (Hp : In p all) by (apply Hprs; left; reflexivity).
    assert (Hprs' : incl prs all) by (intros x Hx; apply Hprs; right; exact Hx).
    unfold route_step at 1 2.
    destruct (keep p) eqn:K.
    - rewrite (same acc p Hp Hacc K).
      destruct (pr_matched p && prule_is_enabled c e acc p).
      + rewrite <- IH; [|exact Hprs'|].
        * rewrite filter_app_one, K. reflexivity.
        * intros x Hx. apply in_app_or in Hx. destruct Hx as [Hx|[Hx|[]]]; [apply Hacc; exact Hx|subst; exact Hp].
      + apply IH; assumption.
    - rewrite (drop (filter keep acc) p Hp K). rewrite andb_false_r.
      destruct (pr_matched p && prule_is_enabled c e acc p).
      + rewrite <- IH; [|exact Hprs'|].
        * rewrite filter_app_one, K. reflexivity.
        * intros x Hx. apply in_app_or in Hx. destruct Hx as [Hx|[Hx|[]]]; [apply Hacc; exact Hx|subst; exact Hp].
      + apply IH; assumption.
  Qed.

  Lemma get_checks_filter : forall prs, incl prs all ->
    get_checks c' e prs = filter keep (get_checks c e prs).
  Proof.
    intros prs H. unfold get_checks. change (@nil prule) with (filter keep []) at 1.
    apply fold_filter; [exact H|]. intros x [].
  Qed.
End FoldFilter.

(** coherence extracted from [wf_prules] *)
Lemma wf_plain all p : wf_prules all = true -> In p all -> plain_name (pr_name p) = true.
Proof.
  intros W Hin. unfold wf_prules in W. pose proof (proj1 (forallb_forall _ _) W p Hin) as H.
  apply andb_true_iff in H. destruct H as [H _]. apply andb_true_iff in H. tauto.
Qed.

Lemma wf_shape all p : wf_prules all = true -> In p all -> string_shape p = true.
Proof.
  intros W Hin. unfold wf_prules in W. pose proof (proj1 (forallb_forall _ _) W p Hin) as H.
  apply andb_true_iff in H. destruct H as [H _]. apply andb_true_iff in H. tauto.
Qed.

Lemma wf_coherent all p q : wf_prules all = true -> In p all -> In q all ->
  ck_string (pr_check q) = ck_string (pr_check p) ->
  pr_name q = pr_name p /\ ck_always (pr_check q) = ck_always (pr_check p).
Proof.
  intros W Hp Hq Hs. unfold wf_prules in W. pose proof (proj1 (forallb_forall _ _) W p Hp) as H.
  apply andb_true_iff in H. destruct H as [_ H].
  pose proof (proj1 (forallb_forall _ _) H q Hq) as C. unfold coherent_pair in C.
  rewrite <- Hs, String.eqb_refl in C. apply andb_true_iff in C. destruct C as [C1 C2].
  apply String.eqb_eq in C1. apply Bool.eqb_prop in C2. split; congruence.
Qed.

(** dedup against the filtered list = dedup against the full list, when [keep] is a function of
    (name, AlwaysEnabled) and the tested rule is kept *)
Lemma dedup_filter all keep acc p :
  wf_prules all = true -> In p all -> incl acc all -> keep p = true ->
  (forall q, In q all -> pr_name q = pr_name p -> ck_always (pr_check q) = ck_always (pr_check p) -> keep q = keep p) ->
  existsb (fun q => String.eqb (ck_string (pr_check q)) (ck_string (pr_check p))) (filter keep acc) =
  existsb (fun q => String.eqb (ck_string (pr_check q)) (ck_string (pr_check p))) acc.
Proof.
  intros W Hp Hacc K Hk. apply existsb_filter_coherent. intros q Hq E.
  apply String.eqb_eq in E. destruct (wf_coherent all p q W Hp (Hacc q Hq) E) as [N A].
  rewrite (Hk q (Hacc q Hq) N A). exact K.
Qed.

(* ------------------------------------------------------------------------------------------ *)
(** * Disabling a list of plain names globally: checks{disabled}, --disabled, --offline *)

Definition cfg_enables (rules : list cfg_rule) (name : string) : bool :=
  match scan_cfg_rules rules name false with Some true => true | _ => false end.

Definition keep_disabled (rules : list cfg_rule) (L : list string) (p : prule) : bool :=
  ck_always (pr_check p) || negb (mem_str (pr_name p) L) || cfg_enables rules (pr_name p).

Definition with_disabled (c : config) (d : list string) : config :=
  {| c_enabled := c_enabled c; c_disabled := d; c_rules := c_rules c |}.

Lemma existsb_hits_none L p :
  (forall n, In n L -> plain_name n = true) -> string_shape p = true -> mem_str (pr_name p) L = false ->
  existsb (fun c => hits c (pr_name p) (pr_check p) (pr_tags p)) L = false.
Proof.
  intros Hpl Hsh. induction L as [|n L IH]; intro Hm; simpl; [reflexivity|].
  simpl in Hm. destruct (String.eqb (pr_name p) n) eqn:E; [discriminate|].
  rewrite IH; [|intros x Hx; apply Hpl; right; exact Hx|exact Hm].
  rewrite orb_false_r. apply hits_plain_other; [apply Hpl; left; reflexivity|exact Hsh|].
  apply String.eqb_neq in E. congruence.
Qed.

Lemma existsb_hits_some L name ck tags :
  mem_str name L = true -> existsb (fun c => hits c name ck tags) L = true.
Proof.
  intro H. apply mem_str_In in H. apply existsb_exists. exists name. split; [exact H|apply hits_self].
Qed.

Theorem disable_list_is_filter : forall c e all prs L,
  wf_prules all = true -> incl prs all ->
  (forall n, In n L -> plain_name n = true) ->
  get_checks (with_disabled c (c_disabled c ++ L)) e prs =
  filter (keep_disabled (c_rules c) L) (get_checks c e prs).
Proof.
  intros c e all prs L W Hprs HL.
  apply (get_checks_filter c (with_disabled c (c_disabled c ++ L)) e (keep_disabled (c_rules c) L) all); [| |exact Hprs].
  - (* drop *)
    intros acc p Hp K. unfold keep_disabled in K.
    apply orb_false_iff in K. destruct K as [K K3]. apply orb_false_iff in K. destruct K as [K1 K2].
    apply negb_false_iff in K2.
    unfold prule_is_enabled, with_disabled; simpl.
    destruct (negb (mem_str (e_state e) (ck_states (pr_check p)))); [reflexivity|].
    destruct (negb (is_enabled (c_enabled c) (e_disabled e) (e_comments e) (pr_name p) (pr_check p) (pr_tags p) (pr_locked p))); [reflexivity|].
    unfold cfg_enables in K3.
    destruct (scan_cfg_rules (c_rules c) (pr_name p) false) as [[|]|]; [discriminate| |reflexivity].
    unfold is_enabled. rewrite K1.
    destruct (negb (pr_locked p) && is_disabled_for_rule (e_comments e) (pr_name p) (pr_check p) (pr_tags p)); [reflexivity|].
    rewrite existsb_app. rewrite (existsb_hits_some L _ _ _ K2). rewrite orb_true_r. reflexivity.
  - (* same *)
    intros acc p Hp Hacc K.
    unfold prule_is_enabled, with_disabled; simpl.
    destruct (negb (mem_str (e_state e) (ck_states (pr_check p)))); [reflexivity|].
    destruct (negb (is_enabled (c_enabled c) (e_disabled e) (e_comments e) (pr_name p) (pr_check p) (pr_tags p) (pr_locked p))); [reflexivity|].
    destruct (scan_cfg_rules (c_rules c) (pr_name p) false) as [[|]|] eqn:S; [reflexivity| |reflexivity].
    assert (Hen : is_enabled (c_enabled c) (c_disabled c ++ L) (e_comments e) (pr_name p) (pr_check p) (pr_tags p) (pr_locked p)
                  = is_enabled (c_enabled c) (c_disabled c) (e_comments e) (pr_name p) (pr_check p) (pr_tags p) (pr_locked p)).
    { unfold is_enabled. destruct (ck_always (pr_check p)) eqn:A; [reflexivity|].
      destruct (negb (pr_locked p) && is_disabled_for_rule (e_comments e) (pr_name p) (pr_check p) (pr_tags p)); [reflexivity|].
      rewrite existsb_app.
      unfold keep_disabled, cfg_enables in K. rewrite A, S in K. simpl in K. rewrite orb_false_r in K.
      apply negb_true_iff in K.
      rewrite (existsb_hits_none L p HL (wf_shape all p W Hp) K). rewrite orb_false_r. reflexivity. }
    rewrite Hen.
    destruct (negb (is_enabled (c_enabled c) (c_disabled c) (e_comments e) (pr_name p) (pr_check p) (pr_tags p) (pr_locked p))); [reflexivity|].
    f_equal. apply (dedup_filter all); [exact W|exact Hp|exact Hacc|exact K|].
    intros q Hq N A. unfold keep_disabled. rewrite N, A. reflexivity.
Qed.

(** the decision only depends on the disabled list as a set *)
Lemma existsb_set_ext {A} (f : A -> bool) l1 l2 :
  (forall x, In x l1 <-> In x l2) -> existsb f l1 = existsb f l2.
Proof.
  intro H. destruct (existsb f l1) eqn:E1.
  - symmetry. apply existsb_exists in E1. destruct E1 as [x [Hx Fx]]. apply existsb_exists. exists x. split; [apply H; exact Hx|exact Fx].
  - symmetry. apply not_true_is_false. intro E2. apply existsb_exists in E2. destruct E2 as [x [Hx Fx]].
    assert (existsb f l1 = true) by (apply existsb_exists; exists x; split; [apply H; exact Hx|exact Fx]). congruence.
Qed.

Lemma get_checks_disabled_set_ext : forall c e d1 d2 prs,
  (forall x, In x d1 <-> In x d2) ->
  get_checks (with_disabled c d1) e prs = get_checks (with_disabled c d2) e prs.
Proof.
  intros c e d1 d2 prs H. unfold get_checks. generalize (@nil prule).
  induction prs as [|p prs IH]; intro acc; simpl; [reflexivity|].
  assert (E : route_step (with_disabled c d1) e acc p = route_step (with_disabled c d2) e acc p).
  { unfold route_step, prule_is_enabled, with_disabled; simpl.
    unfold is_enabled at 2 4. rewrite (existsb_set_ext _ d1 d2 H). reflexivity. }
  rewrite E. apply IH.
Qed.

(** [DisableOnlineChecks]: the resulting list is the old one followed by the missing online names *)
Lemma disable_online_In : forall online d x,
  In x (disable_online_checks online d) <-> In x d \/ In x online.
Proof.
  induction online as [|n online IH]; intros d x; simpl; [tauto|].
  unfold disable_online_checks in *. simpl.
  destruct (mem_str n d) eqn:M.
  - rewrite IH. apply mem_str_In in M. split; [tauto|]. intros [H|[H|H]]; [tauto|subst; tauto|tauto].
  - rewrite IH. rewrite in_app_iff. simpl. tauto.
Qed.

Lemma disable_online_prefix : forall online d, exists L,
  disable_online_checks online d = d ++ L /\ (forall x, In x L -> In x online).
Proof.
  induction online as [|n online IH]; intro d; simpl.
  - exists []. split; [symmetry; apply app_nil_r|intros x []].
  - unfold disable_online_checks in *. simpl. destruct (mem_str n d).
    + destruct (IH d) as [L [E HL]]. exists L. split; [exact E|]. intros x Hx. right. apply HL. exact Hx.
    + destruct (IH (d ++ [n])) as [L [E HL]]. exists (n :: L). split.
      * rewrite E. rewrite <- app_assoc. reflexivity.
      * intros x [Hx|Hx]; [left; exact Hx|right; apply HL; exact Hx].
Qed.

Theorem offline_is_disable_list_gen : forall c e all prs online,
  wf_prules all = true -> incl prs all ->
  (forall n, In n online -> plain_name n = true) ->
  get_checks (with_disabled c (disable_online_checks online (c_disabled c))) e prs =
  filter (keep_disabled (c_rules c) online) (get_checks c e prs).
Proof.
  intros c e all prs online W Hprs Hon.
  rewrite (get_checks_disabled_set_ext c e (disable_online_checks online (c_disabled c)) (c_disabled c ++ online)).
  - apply (disable_list_is_filter c e all prs online W Hprs Hon).
  - intro x. rewrite disable_online_In, in_app_iff. tauto.
Qed.

(* ------------------------------------------------------------------------------------------ *)
(** * Restricting the enabled list: checks{enabled}, --enabled *)

Definition keep_enabled (E : list string) (p : prule) : bool :=
  ck_always (pr_check p) || mem_str (pr_name p) E.

Definition with_enabled (c : config) (en : list string) : config :=
  {| c_enabled := en; c_disabled := c_disabled c; c_rules := c_rules c |}.

Definition covers (en : list string) (prs : list prule) : Prop :=
  forall p, In p prs -> ck_always (pr_check p) = true \/ en = [] \/ mem_str (pr_name p) en = true.

Lemma is_enabled_restrict en E d cm p :
  E <> [] -> (ck_always (pr_check p) = true \/ en = [] \/ mem_str (pr_name p) en = true) ->
  is_enabled E d cm (pr_name p) (pr_check p) (pr_tags p) (pr_locked p) =
  is_enabled en d cm (pr_name p) (pr_check p) (pr_tags p) (pr_locked p) && keep_enabled E p.
Proof.
  intros HE Hc. unfold is_enabled, keep_enabled.
  destruct (ck_always (pr_check p)) eqn:A; [reflexivity|]. simpl.
  destruct (negb (pr_locked p) && is_disabled_for_rule cm (pr_name p) (pr_check p) (pr_tags p)); [reflexivity|].
  destruct (existsb (fun c0 => hits c0 (pr_name p) (pr_check p) (pr_tags p)) d); [reflexivity|].
  destruct Hc as [Hc|[Hc|Hc]]; [discriminate| |].
  - subst en. destruct E; [congruence|]. reflexivity.
  - destruct E; [congruence|]. destruct en; [reflexivity|]. rewrite Hc. reflexivity.
Qed.

Theorem enabled_list_is_filter : forall c e all prs E,
  wf_prules all = true -> incl prs all -> E <> [] -> covers (c_enabled c) all ->
  get_checks (with_enabled c E) e prs = filter (keep_enabled E) (get_checks c e prs).
Proof.
  intros c e all prs E W Hprs HE Hcov.
  apply (get_checks_filter c (with_enabled c E) e (keep_enabled E) all); [| |exact Hprs].
  - intros acc p Hp K. unfold prule_is_enabled, with_enabled; simpl.
    destruct (negb (mem_str (e_state e) (ck_states (pr_check p)))); [reflexivity|].
    rewrite (is_enabled_restrict (c_enabled c) E _ _ p HE (Hcov p Hp)). rewrite K, andb_false_r. reflexivity.
  - intros acc p Hp Hacc K. unfold prule_is_enabled, with_enabled; simpl.
    destruct (negb (mem_str (e_state e) (ck_states (pr_check p)))); [reflexivity|].
    rewrite !(is_enabled_restrict (c_enabled c) E _ _ p HE (Hcov p Hp)). rewrite K, !andb_true_r.
    destruct (negb (is_enabled (c_enabled c) (e_disabled e) (e_comments e) (pr_name p) (pr_check p) (pr_tags p) (pr_locked p))); [reflexivity|].
    destruct (scan_cfg_rules (c_rules c) (pr_name p) false) as [[|]|]; [reflexivity| |reflexivity].
    destruct (negb (is_enabled (c_enabled c) (c_disabled c) (e_comments e) (pr_name p) (pr_check p) (pr_tags p) (pr_locked p))); [reflexivity|].
    f_equal. apply (dedup_filter all); [exact W|exact Hp|exact Hacc|exact K|].
    intros q Hq N A. unfold keep_enabled. rewrite N, A. reflexivity.
Qed.

(* ------------------------------------------------------------------------------------------ *)
(** * rule { disable = [...] } *)

Definition keep_rule_disable (r : cfg_rule) (p : prule) : bool :=
  negb (cr_matched r && mem_str (pr_name p) (cr_disable r)).

Definition with_rules (c : config) (rs : list cfg_rule) : config :=
  {| c_enabled := c_enabled c; c_disabled := c_disabled c; c_rules := rs |}.

Lemma scan_app rs1 : forall rs2 name flag,
  scan_cfg_rules (rs1 ++ rs2) name flag =
  match scan_cfg_rules rs1 name flag with None => None | Some f => scan_cfg_rules rs2 name f end.
Proof.
  induction rs1 as [|r rs1 IH]; intros rs2 name flag; simpl; [reflexivity|].
  destruct (negb (cr_matched r)); [apply IH|].
  destruct (mem_str name (cr_disable r)); [reflexivity|apply IH].
Qed.

Lemma scan_insert rs1 r rs2 name flag :
  cr_enable r = [] ->
  scan_cfg_rules (rs1 ++ r :: rs2) name flag =
  if cr_matched r && mem_str name (cr_disable r)
  then match scan_cfg_rules rs1 name flag with None => None | Some _ => None end
  else scan_cfg_rules (rs1 ++ rs2) name flag.
Proof.
  intro He. rewrite !scan_app. destruct (scan_cfg_rules rs1 name flag) as [f|].
  - simpl. rewrite He. simpl. destruct (cr_matched r); simpl; [|reflexivity].
    destruct (mem_str name (cr_disable r)); reflexivity.
  - destruct (cr_matched r && mem_str name (cr_disable r)); reflexivity.
Qed.

Theorem rule_disable_is_filter : forall c e all prs rs1 r rs2,
  wf_prules all = true -> incl prs all -> c_rules c = rs1 ++ rs2 -> cr_enable r = [] ->
  get_checks (with_rules c (rs1 ++ r :: rs2)) e prs = filter (keep_rule_disable r) (get_checks c e prs).
Proof.
  intros c e all prs rs1 r rs2 W Hprs Hrs He.
  apply (get_checks_filter c (with_rules c (rs1 ++ r :: rs2)) e (keep_rule_disable r) all); [| |exact Hprs].
  - intros acc p Hp K. unfold keep_rule_disable in K. apply negb_false_iff in K.
    unfold prule_is_enabled, with_rules; simpl.
    destruct (negb (mem_str (e_state e) (ck_states (pr_check p)))); [reflexivity|].
    destruct (negb (is_enabled (c_enabled c) (e_disabled e) (e_comments e) (pr_name p) (pr_check p) (pr_tags p) (pr_locked p))); [reflexivity|].
    rewrite (scan_insert rs1 r rs2 _ _ He), K. destruct (scan_cfg_rules rs1 (pr_name p) false); reflexivity.
  - intros acc p Hp Hacc K. pose proof K as K'. unfold keep_rule_disable in K'. apply negb_true_iff in K'.
    unfold prule_is_enabled, with_rules; simpl.
    destruct (negb (mem_str (e_state e) (ck_states (pr_check p)))); [reflexivity|].
    destruct (negb (is_enabled (c_enabled c) (e_disabled e) (e_comments e) (pr_name p) (pr_check p) (pr_tags p) (pr_locked p))); [reflexivity|].
    rewrite (scan_insert rs1 r rs2 _ _ He), K', Hrs.
    destruct (scan_cfg_rules (rs1 ++ rs2) (pr_name p) false) as [[|]|]; [reflexivity| |reflexivity].
    destruct (negb (is_enabled (c_enabled c) (c_disabled c) (e_comments e) (pr_name p) (pr_check p) (pr_tags p) (pr_locked p))); [reflexivity|].
    f_equal. apply (dedup_filter all); [exact W|exact Hp|exact Hacc|exact K|].
    intros q Hq N A. unfold keep_rule_disable. rewrite N. reflexivity.
Qed.

(* ------------------------------------------------------------------------------------------ *)
(** * From enabled checks to emitted problems *)

Lemma emitted_filter {P} (run : check -> list P) (keepr : string -> bool) (l : list prule) :
  emitted run (filter (fun p => keepr (ck_reporter (pr_check p))) l) =
  filter (fun x => keepr (fst x)) (emitted run l).
Proof.
  unfold emitted. induction l as [|p l IH]; simpl; [reflexivity|].
  rewrite filter_app, <- IH.
  destruct (keepr (ck_reporter (pr_check p))) eqn:K; simpl.
  - f_equal. induction (run (pr_check p)) as [|x xs IHx]; simpl; [reflexivity|]. rewrite K. f_equal. exact IHx.
  - replace (filter (fun x => keepr (fst x)) (map (fun x => (ck_reporter (pr_check p), x)) (run (pr_check p)))) with (@nil (string * P)); [reflexivity|].
    induction (run (pr_check p)) as [|x xs IHx]; simpl; [reflexivity|]. rewrite K. exact IHx.
Qed.

Lemma filter_ext_in' {A} (f g : A -> bool) l : (forall x, In x l -> f x = g x) -> filter f l = filter g l.
Proof.
  induction l as [|x l IH]; intro H; simpl; [reflexivity|].
  rewrite (H x (or_introl eq_refl)). rewrite IH; [reflexivity|]. intros y Hy. apply H. right. exact Hy.
Qed.

Lemma get_checks_from_incl c e : forall prs acc x, In x (get_checks_from c e acc prs) -> In x acc \/ In x prs.
Proof.
  induction prs as [|p prs IH]; intros acc x H; simpl in *; [left; exact H|].
  apply IH in H. destruct H as [H|H]; [|right; right; exact H].
  unfold route_step in H. destruct (pr_matched p && prule_is_enabled c e acc p); [|left; exact H].
  apply in_app_or in H. destruct H as [H|[H|[]]]; [left; exact H|right; left; exact H].
Qed.

Lemma get_checks_incl c e prs x : In x (get_checks c e prs) -> In x prs.
Proof. intro H. apply get_checks_from_incl in H. destruct H as [[]|H]. exact H. Qed.

(* ------------------------------------------------------------------------------------------ *)
(** * Lists of parsed rules whose String() is  name ++ ("" | "(" ...)  with plain names are well-formed *)

Definition shaped (p : prule) : Prop :=
  plain_name (pr_name p) = true /\
  exists suffix, ck_string (pr_check p) = (pr_name p ++ suffix)%string /\
                 (suffix = EmptyString \/ exists rest, suffix = String lparen rest).

Lemma plain_cons c s : plain_name (String c s) = true -> c <> lparen /\ plain_name s = true.
Proof.
  unfold plain_name. simpl. destruct (Ascii.eqb c lparen) eqn:E; [discriminate|].
  intro H. split; [|exact H]. intro Heq. subst c. rewrite Ascii.eqb_refl in E. discriminate.
Qed.

(** two plain names followed by such suffixes spell the same string only if the names are equal *)
Lemma split_at_paren : forall n1 n2 s1 s2,
  plain_name n1 = true -> plain_name n2 = true ->
  (s1 = EmptyString \/ exists r, s1 = String lparen r) -> (s2 = EmptyString \/ exists r, s2 = String lparen r) ->
  (n1 ++ s1)%string = (n2 ++ s2)%string -> n1 = n2 /\ s1 = s2.
Proof.
  induction n1 as [|c1 n1 IH]; intros n2 s1 s2 P1 P2 H1 H2 E.
  - destruct n2 as [|c2 n2].
    + simpl in E. split; [reflexivity|exact E].
    + simpl in E. apply plain_cons in P2. destruct P2 as [Pc _].
      destruct H1 as [->|[r ->]]; [discriminate|]. inversion E. congruence.
  - destruct n2 as [|c2 n2].
    + simpl in E. apply plain_cons in P1. destruct P1 as [Pc _].
      destruct H2 as [->|[r ->]]; [discriminate|]. inversion E. congruence.
    + simpl in E. inversion E; subst c2.
      apply plain_cons in P1. apply plain_cons in P2.
      destruct (IH n2 s1 s2 (proj2 P1) (proj2 P2) H1 H2 H3) as [-> ->].
      split; reflexivity.
Qed.

Lemma append_nil_r s : (s ++ "")%string = s.
Proof. induction s; simpl; congruence. Qed.

Lemma prefix_append n x : String.prefix n (n ++ x)%string = true.
Proof. induction n as [|a n IH]; simpl; [destruct x; reflexivity|]. destruct (Ascii.ascii_dec a a); [exact IH|congruence]. Qed.

Lemma get_append_head n c r : String.get (String.length n) (n ++ String c r)%string = Some c.
Proof. induction n; simpl; [reflexivity|assumption]. Qed.

Lemma shaped_string_shape p : shaped p -> string_shape p = true.
Proof.
  intros [_ [suffix [E Hs]]]. unfold string_shape. rewrite E.
  destruct Hs as [->|[rest ->]].
  - rewrite append_nil_r, String.eqb_refl. reflexivity.
  - apply orb_true_iff. right. rewrite prefix_append, get_append_head. rewrite Ascii.eqb_refl. reflexivity.
Qed.

Lemma shaped_coherent p q : shaped p -> shaped q ->
  ck_always (pr_check p) = false -> ck_always (pr_check q) = false -> coherent_pair p q = true.
Proof.
  intros [Pp [sp [Ep Hp]]] [Pq [sq [Eq Hq]]] Ap Aq. unfold coherent_pair.
  destruct (String.eqb (ck_string (pr_check p)) (ck_string (pr_check q))) eqn:E; [|reflexivity].
  apply String.eqb_eq in E. rewrite Ep, Eq in E.
  destruct (split_at_paren _ _ _ _ Pp Pq Hp Hq E) as [N _].
  rewrite N, String.eqb_refl, Ap, Aq. reflexivity.
Qed.

Theorem shaped_lists_wellformed prs :
  (forall p, In p prs -> shaped p /\ ck_always (pr_check p) = false) -> wf_prules prs = true.
Proof.
  intro H. unfold wf_prules. apply forallb_forall. intros p Hp.
  destruct (H p Hp) as [Sp Ap]. apply andb_true_iff. split; [apply andb_true_iff; split|].
  - exact (proj1 Sp).
  - apply shaped_string_shape. exact Sp.
  - apply forallb_forall. intros q Hq. destruct (H q Hq) as [Sq Aq]. apply shaped_coherent; assumption.
Qed.
