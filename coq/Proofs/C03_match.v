(** Lemmas about Model/GitBranch.match_entries (both passes) for ALL before/after entry lists. *)
From Coq Require Import List String ZArith NArith Bool Lia Permutation.
From PintV Require Import Common.Bytes Model.GitBranch.
Import ListNotations.
Open Scope string_scope.
Open Scope list_scope.

(** projections of a matched list *)
Definition after_of (m : matched) : list entry :=
  match m with OnlyAfter a => [a] | Both _ a _ _ => [a] | OnlyBefore _ => [] end.
Definition before_of (m : matched) : list entry :=
  match m with OnlyAfter _ => [] | Both b _ _ _ => [b] | OnlyBefore b => [b] end.
Definition afters_of (ml : list matched) : list entry := flat_map after_of ml.
Definition befores_of (ml : list matched) : list entry := flat_map before_of ml.

Definition no_only_before (ml : list matched) : Prop :=
  forall m, In m ml -> match m with OnlyBefore _ => False | _ => True end.

Lemma afters_of_app l1 l2 : afters_of (l1 ++ l2) = afters_of l1 ++ afters_of l2.
Proof. unfold afters_of. apply flat_map_app. Qed.
Lemma befores_of_app l1 l2 : befores_of (l1 ++ l2) = befores_of l1 ++ befores_of l2.
Proof. unfold befores_of. apply flat_map_app. Qed.
Lemma afters_of_only_before bs : afters_of (map OnlyBefore bs) = [].
Proof. induction bs; simpl; auto. Qed.
Lemma befores_of_only_before bs : befores_of (map OnlyBefore bs) = bs.
Proof. induction bs; simpl; congruence. Qed.

(** * is_identical is an equivalence (on the abstraction it is equality of (kind, content id)) *)
Lemma kind_eqb_eq a b : kind_eqb a b = true <-> a = b.
Proof. destruct a, b; simpl; split; intro H; try reflexivity; try discriminate. Qed.

Lemma is_identical_spec a b : is_identical a b = true <-> e_kind a = e_kind b /\ e_cid a = e_cid b.
Proof.
  unfold is_identical. rewrite andb_true_iff, kind_eqb_eq, N.eqb_eq. tauto.
Qed.

Lemma is_identical_sym a b : is_identical a b = is_identical b a.
Proof.
  destruct (is_identical a b) eqn:E1, (is_identical b a) eqn:E2; auto.
  - apply is_identical_spec in E1. destruct E1 as [H1 H2].
    assert (is_identical b a = true) by (apply is_identical_spec; split; congruence). congruence.
  - apply is_identical_spec in E2. destruct E2 as [H1 H2].
    assert (is_identical a b = true) by (apply is_identical_spec; split; congruence). congruence.
Qed.

Lemma is_identical_trans a b c : is_identical a b = true -> is_identical b c = true -> is_identical a c = true.
Proof. rewrite !is_identical_spec. intros [? ?] [? ?]. split; congruence. Qed.

(** * take_identical *)
Lemma take_identical_some a bs b bs' :
  take_identical a bs = Some (b, bs') ->
  is_identical a b = true /\
  exists l1 l2, bs = l1 ++ b :: l2 /\ bs' = l1 ++ l2 /\ (forall x, In x l1 -> is_identical a x = false).
Proof.
  revert b bs'. induction bs as [|x r IH]; intros b bs' H; simpl in H; [discriminate|].
  destruct (is_identical a x) eqn:E.
  - inversion H; subst. split; auto. exists [], bs'. simpl. repeat split; auto. intros ? [].
  - destruct (take_identical a r) as [[y r']|] eqn:T; [|discriminate].
    inversion H; subst. destruct (IH _ _ eq_refl) as [Hi [l1 [l2 [-> [-> Hl]]]]].
    split; auto. exists (x :: l1), l2. simpl. repeat split; auto.
    intros z [<-|Hz]; auto.
Qed.

Lemma take_identical_none a bs :
  take_identical a bs = None -> forall x, In x bs -> is_identical a x = false.
Proof.
  induction bs as [|x r IH]; intros H z Hz; simpl in *; [contradiction|].
  destruct (is_identical a x) eqn:E; [discriminate|].
  destruct (take_identical a r) as [[y r']|] eqn:T; [discriminate|].
  destruct Hz as [<-|Hz]; auto.
Qed.

Lemma take_identical_perm a bs b bs' :
  take_identical a bs = Some (b, bs') -> Permutation bs (b :: bs').
Proof.
  intro H. destruct (take_identical_some _ _ _ _ H) as [_ [l1 [l2 [-> [-> _]]]]].
  symmetry. apply Permutation_middle.
Qed.

(** * pass 1 *)
Definition pass1_both_ok (m : matched) : Prop :=
  match m with
  | Both b a i mv => is_identical a b = true /\ i = entry_identical b a /\ mv = moved a b /\ e_name a <> ""
  | _ => True
  end.

Lemma pass1_spec : forall after before ml bf,
  pass1 after before = (ml, bf) ->
  afters_of ml = after /\
  Permutation (befores_of ml ++ bf) before /\
  no_only_before ml /\
  (forall m, In m ml -> pass1_both_ok m) /\
  (forall a, In (OnlyAfter a) ml -> e_name a <> "" -> forall x, In x bf -> is_identical a x = false).
Proof.
  induction after as [|a r IH]; intros before ml bf H; simpl in H.
  - inversion H; subst. simpl.
    split; [reflexivity|]. split; [apply Permutation_refl|]. split; [intros ? []|]. split; [intros ? []|]. intros ? [].
  - destruct (String.eqb (e_name a) "") eqn:En.
    + destruct (pass1 r before) as [ml' bf'] eqn:P. inversion H; subst.
      destruct (IH _ _ _ P) as (Ha & Hp & Hn & Hb & Hu).
      simpl. repeat split.
      * congruence.
      * exact Hp.
      * intros m [<-|Hm]; [exact I | apply Hn; auto].
      * intros m [<-|Hm]; [exact I | apply Hb; auto].
      * intros a0 [E|Hm] Hne; [|apply Hu; auto].
        inversion E; subst. apply String.eqb_eq in En. contradiction.
    + destruct (take_identical a before) as [[b before']|] eqn:T.
      * destruct (pass1 r before') as [ml' bf'] eqn:P. inversion H; subst.
        destruct (IH _ _ _ P) as (Ha & Hp & Hn & Hb & Hu).
        destruct (take_identical_some _ _ _ _ T) as [Hi _].
        simpl. repeat split.
        -- congruence.
        -- apply Permutation_trans with (b :: before').
           ++ constructor. exact Hp.
           ++ symmetry. eapply take_identical_perm; eauto.
        -- intros m [<-|Hm]; [exact I | apply Hn; auto].
        -- intros m [<-|Hm]; [|apply Hb; auto]. simpl. repeat split; auto.
           apply String.eqb_neq. exact En.
        -- intros a0 [E|Hm] Hne; [discriminate | apply Hu; auto].
      * destruct (pass1 r before) as [ml' bf'] eqn:P. inversion H; subst.
        destruct (IH _ _ _ P) as (Ha & Hp & Hn & Hb & Hu).
        simpl. repeat split.
        -- congruence.
        -- exact Hp.
        -- intros m [<-|Hm]; [exact I | apply Hn; auto].
        -- intros m [<-|Hm]; [exact I | apply Hb; auto].
        -- intros a0 [E|Hm] Hne; [|apply Hu; auto].
           inversion E; subst. intros x Hx.
           apply (take_identical_none _ _ T).
           eapply Permutation_in; [exact Hp|]. apply in_or_app. right. exact Hx.
Qed.

(** * pass 2 *)
Lemma filter_partition_perm {A} (f : A -> bool) l :
  Permutation (filter (fun e => negb (f e)) l ++ filter f l) l.
Proof.
  induction l as [|x r IH]; simpl; auto.
  destruct (f x); simpl.
  - apply Permutation_sym. eapply Permutation_trans; [|apply Permutation_middle].
    constructor. apply Permutation_sym. exact IH.
  - constructor. exact IH.
Qed.

Definition pass2_both_ok (ml : list matched) (m : matched) : Prop :=
  match m with
  | Both b a i mv => In m ml \/ (i = false /\ mv = moved a b /\ by_name (e_name a) (e_kind a) b = true /\ In (OnlyAfter a) ml)
  | _ => True
  end.

Lemma pass2_spec : forall ml before ml' bf,
  no_only_before ml ->
  pass2 ml before = (ml', bf) ->
  afters_of ml' = afters_of ml /\
  Permutation (befores_of ml' ++ bf) (befores_of ml ++ before) /\
  no_only_before ml' /\
  (forall m, In m ml' -> pass2_both_ok ml m) /\
  (forall x, In x bf -> In x before) /\
  (forall a, In (OnlyAfter a) ml' -> In (OnlyAfter a) ml).
Proof.
  induction ml as [|m r IH]; intros before ml' bf Hno H; simpl in H.
  - inversion H; subst. simpl.
    split; [reflexivity|]. split; [apply Permutation_refl|]. split; [intros ? []|]. split; [intros ? []|].
    split; [auto|]. intros ? [].
  - assert (Hno' : no_only_before r) by (intros x Hx; apply Hno; right; exact Hx).
    destruct m as [a|b a i mv|b].
    + (* OnlyAfter *)
      unfold find_rules_by_name in H.
      set (nomatch := filter (fun e => negb (by_name (e_name a) (e_kind a) e)) before) in *.
      set (matches := filter (by_name (e_name a) (e_kind a)) before) in *.
      assert (Hpart : Permutation (nomatch ++ matches) before) by apply filter_partition_perm.
      assert (Hnm : forall x, In x nomatch -> In x before) by (intros x Hx; apply filter_In in Hx; tauto).
      destruct matches as [|b1 [|b2 rest]] eqn:Em.
      * destruct (pass2 r nomatch) as [ml2 bf2] eqn:P. inversion H; subst.
        destruct (IH _ _ _ Hno' P) as (Ha & Hp & Hn & Hb & Hs & Hoa).
        rewrite app_nil_r in Hpart.
        simpl. repeat split.
        -- congruence.
        -- eapply Permutation_trans; [exact Hp|]. apply Permutation_app_head. exact Hpart.
        -- intros m [<-|Hm]; [exact I | apply Hn; auto].
        -- intros m [<-|Hm]; [exact I|]. specialize (Hb _ Hm). destruct m; simpl in *; auto.
           destruct Hb as [Hb|(?&?&?&?)]; [left; right; auto | right; repeat split; auto].
        -- intros x Hx. apply Hnm. apply Hs. exact Hx.
        -- intros a0 [E|Hm]; [left; exact E | right; apply Hoa; exact Hm].
      * destruct (pass2 r nomatch) as [ml2 bf2] eqn:P. inversion H; subst.
        destruct (IH _ _ _ Hno' P) as (Ha & Hp & Hn & Hb & Hs & Hoa).
        assert (Hb1 : by_name (e_name a) (e_kind a) b1 = true).
        { assert (In b1 (filter (by_name (e_name a) (e_kind a)) before)) by (fold matches; rewrite Em; left; auto).
          apply filter_In in H0. tauto. }
        simpl. repeat split.
        -- congruence.
        -- apply Permutation_trans with (b1 :: befores_of r ++ nomatch).
           ++ constructor. exact Hp.
           ++ eapply Permutation_trans; [apply Permutation_middle|].
              apply Permutation_app_head.
              eapply Permutation_trans; [apply Permutation_cons_append | exact Hpart].
        -- intros m [<-|Hm]; [exact I | apply Hn; auto].
        -- intros m [<-|Hm].
           ++ simpl. right. repeat split; auto.
           ++ specialize (Hb _ Hm). destruct m; simpl in *; auto.
              destruct Hb as [Hb|(?&?&?&?)]; [left; right; auto | right; repeat split; auto].
        -- intros x Hx. apply Hnm. apply Hs. exact Hx.
        -- intros a0 [E|Hm]; [discriminate | right; apply Hoa; exact Hm].
      * destruct (pass2 r (nomatch ++ b1 :: b2 :: rest)) as [ml2 bf2] eqn:P. inversion H; subst.
        destruct (IH _ _ _ Hno' P) as (Ha & Hp & Hn & Hb & Hs & Hoa).
        simpl. repeat split.
        -- congruence.
        -- eapply Permutation_trans; [exact Hp|]. apply Permutation_app_head. exact Hpart.
        -- intros m [<-|Hm]; [exact I | apply Hn; auto].
        -- intros m [<-|Hm]; [exact I|]. specialize (Hb _ Hm). destruct m; simpl in *; auto.
           destruct Hb as [Hb|(?&?&?&?)]; [left; right; auto | right; repeat split; auto].
        -- intros x Hx. eapply Permutation_in; [exact Hpart|]. apply Hs. exact Hx.
        -- intros a0 [E|Hm]; [left; exact E | right; apply Hoa; exact Hm].
    + (* Both *)
      destruct (pass2 r before) as [ml2 bf2] eqn:P. inversion H; subst.
      destruct (IH _ _ _ Hno' P) as (Ha & Hp & Hn & Hb & Hs & Hoa).
      simpl. repeat split.
      * congruence.
      * constructor. exact Hp.
      * intros m [<-|Hm]; [exact I | apply Hn; auto].
      * intros m [<-|Hm]; [simpl; left; left; auto|]. specialize (Hb _ Hm). destruct m; simpl in *; auto.
        destruct Hb as [Hb|(?&?&?&?)]; [left; right; auto | right; repeat split; auto].
      * exact Hs.
      * intros a0 Hm. destruct Hm as [E|Hm]; [discriminate | right; apply Hoa; exact Hm].
    + exfalso. apply (Hno (OnlyBefore b)). left. reflexivity.
Qed.

(** * match_entries *)
Lemma match_entries_unfold before after :
  exists ml1 b1 ml2 b2, pass1 after before = (ml1, b1) /\ pass2 ml1 b1 = (ml2, b2) /\
    match_entries before after = ml2 ++ map OnlyBefore b2.
Proof.
  unfold match_entries. destruct (pass1 after before) as [ml1 b1] eqn:P1.
  destruct (pass2 ml1 b1) as [ml2 b2] eqn:P2. exists ml1, b1, ml2, b2. auto.
Qed.

(** every HEAD entry appears exactly once, in order *)
Lemma match_afters before after : afters_of (match_entries before after) = after.
Proof.
  destruct (match_entries_unfold before after) as (ml1 & b1 & ml2 & b2 & P1 & P2 & ->).
  destruct (pass1_spec _ _ _ _ P1) as (Ha & _ & Hn & _).
  destruct (pass2_spec _ _ _ _ Hn P2) as (Ha2 & _).
  rewrite afters_of_app, afters_of_only_before, app_nil_r. congruence.
Qed.

(** every base entry appears exactly once (paired or alone): the pairing is injective and nothing is lost *)
Lemma match_befores_perm before after : Permutation (befores_of (match_entries before after)) before.
Proof.
  destruct (match_entries_unfold before after) as (ml1 & b1 & ml2 & b2 & P1 & P2 & ->).
  destruct (pass1_spec _ _ _ _ P1) as (_ & Hp & Hn & _).
  destruct (pass2_spec _ _ _ _ Hn P2) as (_ & Hp2 & _).
  rewrite befores_of_app, befores_of_only_before.
  eapply Permutation_trans; [exact Hp2 | exact Hp].
Qed.

(** what a pair can be *)
Lemma match_both_sound before after b a i mv :
  In (Both b a i mv) (match_entries before after) ->
  mv = moved a b /\
  ((is_identical a b = true /\ i = entry_identical b a /\ e_name a <> "") \/
   (i = false /\ by_name (e_name a) (e_kind a) b = true)).
Proof.
  destruct (match_entries_unfold before after) as (ml1 & b1 & ml2 & b2 & P1 & P2 & ->).
  destruct (pass1_spec _ _ _ _ P1) as (_ & _ & Hn & Hb1 & _).
  destruct (pass2_spec _ _ _ _ Hn P2) as (_ & _ & _ & Hb2 & _).
  intro H. apply in_app_or in H. destruct H as [H|H].
  - specialize (Hb2 _ H). simpl in Hb2. destruct Hb2 as [Hin|(Hi & Hm & Hbn & _)].
    + specialize (Hb1 _ Hin). simpl in Hb1. destruct Hb1 as (? & ? & ? & ?). split; auto.
    + split; auto.
  - apply in_map_iff in H. destruct H as [x [E _]]. discriminate.
Qed.

Lemma in_befores_of m ml b : In m ml -> In b (before_of m) -> In b (befores_of ml).
Proof. intros. unfold befores_of. apply in_flat_map. eauto. Qed.
Lemma in_afters_of m ml a : In m ml -> In a (after_of m) -> In a (afters_of ml).
Proof. intros. unfold afters_of. apply in_flat_map. eauto. Qed.

Lemma match_both_members before after b a i mv :
  In (Both b a i mv) (match_entries before after) -> In b before /\ In a after.
Proof.
  intro H. split.
  - eapply Permutation_in; [apply match_befores_perm|]. eapply in_befores_of; eauto. simpl; auto.
  - rewrite <- (match_afters before after). eapply in_afters_of; eauto. simpl; auto.
Qed.

Lemma match_only_before_member before after b :
  In (OnlyBefore b) (match_entries before after) -> In b before.
Proof.
  intro H. eapply Permutation_in; [apply match_befores_perm|]. eapply in_befores_of; eauto. simpl; auto.
Qed.

Lemma match_only_after_member before after a :
  In (OnlyAfter a) (match_entries before after) -> In a after.
Proof.
  intro H. rewrite <- (match_afters before after). eapply in_afters_of; eauto. simpl; auto.
Qed.


(** a HEAD rule that stays unpaired (it will be Added) has no identical rule among the base rules that stay unpaired
    (those that will be Removed) *)
Lemma unpaired_no_identical_left before after a b :
  In (OnlyAfter a) (match_entries before after) -> e_name a <> "" ->
  In (OnlyBefore b) (match_entries before after) -> is_identical a b = false.
Proof.
  destruct (match_entries_unfold before after) as (ml1 & b1 & ml2 & b2 & P1 & P2 & ->).
  destruct (pass1_spec _ _ _ _ P1) as (_ & _ & Hn1 & _ & Hu).
  destruct (pass2_spec _ _ _ _ Hn1 P2) as (_ & _ & Hn2 & _ & Hs & Hoa).
  intros Ha Hne Hb.
  apply in_app_or in Ha. destruct Ha as [Ha|Ha]; [|apply in_map_iff in Ha; destruct Ha as [x [E _]]; discriminate].
  apply in_app_or in Hb. destruct Hb as [Hb|Hb]; [exfalso; apply (Hn2 _ Hb)|].
  apply in_map_iff in Hb. destruct Hb as [x [E Hx]]. inversion E; subst x.
  apply (Hu a (Hoa _ Ha) Hne). apply Hs. exact Hx.
Qed.
