(** Proofs for C05: exit status is non-zero exactly when a problem reaches the fail-on severity. *)
From Coq Require Import List String ZArith Bool Lia.
From PintV Require Import Common.Bytes Gen.Tables Model.Severity Model.Summary.
Import ListNotations.
Open Scope Z_scope.

(** * count_by_severity *)

Definition counts_ok (m : list (Z * Z)) : Prop := forall k c, In (k, c) m -> 1 <= c.

Lemma bump_keys s m k : (exists c, In (k, c) (bump s m)) <-> k = s \/ exists c, In (k, c) m.
Proof.
  induction m as [|[k' c'] r IH]; simpl.
  - split.
    + intros [c [H|[]]]. inversion H; auto.
    + intros [->|[c []]]. exists 1. auto.
  - destruct (k' =? s) eqn:E; simpl.
    + apply Z.eqb_eq in E. subst k'. split.
      * intros [c [H|H]]; [inversion H; subst; auto | right; exists c; auto].
      * intros [->|[c [H|H]]].
        -- exists (c' + 1); auto.
        -- inversion H; subst. exists (c + 1); auto.
        -- exists c; auto.
    + split.
      * intros [c [H|H]].
        -- inversion H; subst. right. exists c. auto.
        -- destruct (proj1 IH (ex_intro _ c H)) as [->|[c2 H2]]; [auto|right; exists c2; auto].
      * intros [->|[c [H|H]]].
        -- destruct (proj2 IH (or_introl eq_refl)) as [c2 H2]. exists c2; auto.
        -- inversion H; subst. exists c; auto.
        -- destruct (proj2 IH (or_intror (ex_intro _ c H))) as [c2 H2]. exists c2; auto.
Qed.

Lemma bump_counts_ok s m : counts_ok m -> counts_ok (bump s m).
Proof.
  unfold counts_ok. induction m as [|[k' c'] r IH]; simpl; intros Hm k c Hin.
  - destruct Hin as [H|[]]. inversion H; lia.
  - destruct (k' =? s) eqn:E; simpl in Hin.
    + destruct Hin as [H|H].
      * inversion H; subst. specialize (Hm k c' (or_introl eq_refl)). lia.
      * apply (Hm k c). auto.
    + destruct Hin as [H|H].
      * inversion H; subst. apply (Hm k c). auto.
      * apply IH with (k := k); auto. intros k2 c2 H2. apply (Hm k2 c2). auto.
Qed.

Lemma count_fold_keys sevs : forall m k,
  (exists c, In (k, c) (fold_left (fun m s => bump s m) sevs m)) <-> In k sevs \/ exists c, In (k, c) m.
Proof.
  induction sevs as [|s r IH]; simpl; intros m k.
  - split; [auto | intros [[]|H]; auto].
  - rewrite IH, bump_keys. split.
    + intros [H|[->|H]]; auto.
    + intros [[->|H]|H]; auto.
Qed.

Lemma count_fold_ok sevs : forall m, counts_ok m -> counts_ok (fold_left (fun m s => bump s m) sevs m).
Proof.
  induction sevs as [|s r IH]; simpl; intros m Hm; [exact Hm|]. apply IH, bump_counts_ok, Hm.
Qed.

Lemma count_by_severity_keys sevs k : (exists c, In (k, c) (count_by_severity sevs)) <-> In k sevs.
Proof.
  unfold count_by_severity. rewrite count_fold_keys. split; [intros [H|[c []]]; auto | auto].
Qed.

Lemma count_by_severity_ok sevs : counts_ok (count_by_severity sevs).
Proof. apply count_fold_ok. intros k c []. Qed.

(** * lint loop *)

Lemma lint_fold_fail failOn minSev bugv m : forall acc,
  counts_ok m -> 0 <= fail_problems acc ->
  let res := fold_left (lint_step failOn minSev bugv) m acc in
  0 <= fail_problems res /\
  (0 < fail_problems res <-> 0 < fail_problems acc \/ exists k c, In (k, c) m /\ failOn <= k).
Proof.
  induction m as [|[k c] r IH]; cbn [fold_left]; intros acc Hm Hacc.
  - split; [exact Hacc|]. split; [auto | intros [H|[k [c [[] _]]]]; exact H].
  - assert (Hc : 1 <= c) by (apply (Hm k c); left; reflexivity).
    assert (Hr : counts_ok r) by (intros k2 c2 H2; apply (Hm k2 c2); right; exact H2).
    set (acc' := lint_step failOn minSev bugv acc (k, c)).
    assert (Hacc' : 0 <= fail_problems acc').
    { unfold acc', lint_step. simpl. destruct (failOn <=? k); lia. }
    destruct (IH acc' Hr Hacc') as [H1 H2]. split; [exact H1|].
    rewrite H2. unfold acc', lint_step; simpl.
    destruct (failOn <=? k) eqn:E.
    + apply Z.leb_le in E. split.
      * intros _. right. exists k, c. auto.
      * intros _. left. lia.
    + apply Z.leb_gt in E. split.
      * intros [H|[k2 [c2 [Hin Hle]]]]; [auto|]. right. exists k2, c2. auto.
      * intros [H|[k2 [c2 [[Heq|Hin] Hle]]]]; [auto| |].
        -- inversion Heq; subst. lia.
        -- right. exists k2, c2. auto.
Qed.

Lemma exit_lint_iff failOn minSev sevs :
  exit_lint failOn minSev sevs = true <-> exists s, In s sevs /\ failOn <= s.
Proof.
  unfold exit_lint, lint_counts. rewrite Z.ltb_lt.
  destruct (lint_fold_fail failOn minSev 2 (count_by_severity sevs)
              {| fail_problems := 0; hidden_problems := 0; bug_problems := 0 |}
              (count_by_severity_ok sevs)) as [_ H]; [simpl; lia|].
  rewrite H. simpl. split.
  - intros [Hlt|[k [c [Hin Hle]]]]; [lia|]. exists k. split; [|exact Hle].
    apply count_by_severity_keys. exists c. exact Hin.
  - intros [s [Hin Hle]]. right. apply count_by_severity_keys in Hin. destruct Hin as [c Hc].
    exists s, c. auto.
Qed.

Lemma exit_ci_iff failOn sevs :
  exit_ci failOn sevs = true <-> exists s, In s sevs /\ failOn <= s.
Proof.
  unfold exit_ci. rewrite existsb_exists. split.
  - intros [[k c] [Hin Hle]]. simpl in Hle. apply Z.leb_le in Hle. exists k. split; [|exact Hle].
    apply count_by_severity_keys. exists c. exact Hin.
  - intros [s [Hin Hle]]. apply count_by_severity_keys in Hin. destruct Hin as [c Hc].
    exists (s, c). split; [exact Hc|]. simpl. apply Z.leb_le. exact Hle.
Qed.

Lemma exit_lint_min_severity_irrelevant failOn m1 m2 sevs :
  exit_lint failOn m1 sevs = exit_lint failOn m2 sevs.
Proof.
  apply eq_true_iff_eq. rewrite !exit_lint_iff. reflexivity.
Qed.

(** * Summary.Report never changes whether some severity reaches the threshold *)

Lemma is_equal_sev a b : is_equal a b = true -> r_sev a = r_sev b.
Proof.
  unfold is_equal. rewrite !andb_true_iff. intros [_ H]. apply Z.eqb_eq in H. symmetry. exact H.
Qed.

Lemma summary_report_sevs (P : Z -> Prop) s r :
  (exists x, In x (summary_report s r) /\ P (r_sev x)) <-> (exists x, In x (s ++ [r]) /\ P (r_sev x)).
Proof.
  unfold summary_report, has_report. destruct (existsb (fun er => is_equal er r) s) eqn:E.
  - split.
    + intros [x [Hin HP]]. exists x. split; [apply in_or_app; auto|exact HP].
    + intros [x [Hin HP]]. apply in_app_or in Hin. destruct Hin as [Hin|[<-|[]]].
      * exists x; auto.
      * apply existsb_exists in E. destruct E as [er [Hin Heq]]. exists er. split; [exact Hin|].
        rewrite (is_equal_sev _ _ Heq). exact HP.
  - reflexivity.
Qed.

Lemma collect_fold_sevs (P : Z -> Prop) stream : forall s,
  (exists x, In x (fold_left summary_report stream s) /\ P (r_sev x)) <->
  (exists x, In x (s ++ stream) /\ P (r_sev x)).
Proof.
  induction stream as [|r rest IH]; simpl; intros s.
  - rewrite app_nil_r. reflexivity.
  - rewrite IH. split.
    + intros [x [Hin HP]]. apply in_app_or in Hin. destruct Hin as [Hin|Hin].
      * destruct (proj1 (summary_report_sevs P s r) (ex_intro _ x (conj Hin HP))) as [y [Hy HPy]].
        exists y. split; [|exact HPy]. apply in_app_or in Hy. apply in_or_app.
        destruct Hy as [Hy|[<-|[]]]; [auto | right; left; reflexivity].
      * exists x. split; [|exact HP]. apply in_or_app. right. right. exact Hin.
    + intros [x [Hin HP]]. apply in_app_or in Hin. destruct Hin as [Hin|[<-|Hin]].
      * destruct (proj2 (summary_report_sevs P s r)) as [y [Hy HPy]].
        { exists x. split; [apply in_or_app; auto|exact HP]. }
        exists y. split; [apply in_or_app; auto|exact HPy].
      * destruct (proj2 (summary_report_sevs P s r)) as [y [Hy HPy]].
        { exists r. split; [apply in_or_app; right; left; reflexivity|exact HP]. }
        exists y. split; [apply in_or_app; auto|exact HPy].
      * exists x. split; [apply in_or_app; auto|exact HP].
Qed.

Lemma collect_sevs (P : Z -> Prop) stream :
  (exists x, In x (collect stream) /\ P (r_sev x)) <-> (exists x, In x stream /\ P (r_sev x)).
Proof. unfold collect. rewrite collect_fold_sevs. reflexivity. Qed.

Lemma in_map_sev (P : Z -> Prop) l :
  (exists s, In s (map r_sev l) /\ P s) <-> (exists x, In x l /\ P (r_sev x)).
Proof.
  split.
  - intros [s [Hin HP]]. apply in_map_iff in Hin. destruct Hin as [x [<- Hx]]. exists x; auto.
  - intros [x [Hin HP]]. exists (r_sev x). split; [apply in_map; exact Hin|exact HP].
Qed.

(** * Tables (re-proved against the generated Gen/Tables.v on every run) *)

Definition sev_names_in_order : list string := ["info"; "warning"; "bug"; "fatal"]%string.

Fixpoint strictly_increasing (l : list (option Z)) : bool :=
  match l with
  | Some a :: ((Some b :: _) as r) => (a <? b) && strictly_increasing r
  | [Some _] => true
  | [] => true
  | _ => false
  end.

Lemma parse_table_monotone :
  strictly_increasing (map parse_severity sev_names_in_order) = true.
Proof. vm_compute. reflexivity. Qed.

Lemma parse_table_bug_is_2 : parse_severity "bug" = Some 2 /\ sev_value "Bug" = Some 2.
Proof. vm_compute. split; reflexivity. Qed.

Lemma severity_string_roundtrip :
  forallb (fun p => match severity_of_string (severity_string (snd p)) with
                    | Some v => v =? snd p | None => false end) severity_consts = true.
Proof. vm_compute. reflexivity. Qed.

Lemma severity_consts_distinct :
  NoDup (map snd severity_consts) /\ NoDup (map fst severity_consts).
Proof.
  split.
  - vm_compute. repeat constructor; simpl; intuition discriminate.
  - vm_compute. repeat constructor; simpl; intuition discriminate.
Qed.

Lemma fatal_is_max :
  match sev_value "Fatal" with
  | Some f => forallb (fun p => snd p <=? f) severity_consts
  | None => false end = true.
Proof. vm_compute. reflexivity. Qed.
