(** sort_str (Go: slices.Sort on a clone) is canonical: two lists with the same elements sort to the same list, so
    isEntryIdentical (after fix a826206) does not depend on the order of the `# pint file/disable` comments. *)
From Coq Require Import List String Ascii ZArith NArith Bool Lia Permutation Sorted.
From PintV Require Import Common.Bytes Model.GitBranch Proofs.C03_state.
Import ListNotations.
Open Scope string_scope.
Open Scope list_scope.

Definition sle (a b : string) : Prop := str_leb a b = true.

Lemma str_leb_total a b : str_leb a b = false -> str_leb b a = true.
Proof.
  unfold str_leb. rewrite (String.compare_antisym b a). destruct (String.compare a b); simpl; auto; discriminate.
Qed.

Lemma sle_antisym a b : sle a b -> sle b a -> a = b.
Proof.
  unfold sle, str_leb. rewrite (String.compare_antisym b a).
  destruct (String.compare a b) eqn:E; simpl; try discriminate.
  intros _ _. apply String.compare_eq_iff. exact E.
Qed.

Lemma ascii_compare_eq a b : Ascii.compare a b = Eq -> a = b.
Proof. apply Ascii.compare_eq_iff. Qed.

Lemma ascii_compare_refl a : Ascii.compare a a = Eq.
Proof. unfold Ascii.compare. apply N.compare_refl. Qed.

Lemma ascii_lt_trans a b c : Ascii.compare a b = Lt -> Ascii.compare b c = Lt -> Ascii.compare a c = Lt.
Proof. unfold Ascii.compare. rewrite !N.compare_lt_iff. lia. Qed.

Lemma compare_lt_trans : forall a b c, String.compare a b = Lt -> String.compare b c = Lt -> String.compare a c = Lt.
Proof.
  induction a as [|x a IH]; intros [|y b] [|z c]; simpl; try discriminate; auto.
  destruct (Ascii.compare x y) eqn:Exy; try discriminate.
  - apply ascii_compare_eq in Exy. subst y.
    destruct (Ascii.compare x z) eqn:Exz; try discriminate; auto. apply IH.
  - destruct (Ascii.compare y z) eqn:Eyz; try discriminate.
    + apply ascii_compare_eq in Eyz. subst z. rewrite Exy. auto.
    + rewrite (ascii_lt_trans _ _ _ Exy Eyz). auto.
Qed.

Lemma sle_trans a b c : sle a b -> sle b c -> sle a c.
Proof.
  unfold sle, str_leb.
  destruct (String.compare a b) eqn:Eab; try discriminate; intros _.
  - apply String.compare_eq_iff in Eab. subst b. auto.
  - destruct (String.compare b c) eqn:Ebc; try discriminate; intros _.
    + apply String.compare_eq_iff in Ebc. subst c. rewrite Eab. reflexivity.
    + rewrite (compare_lt_trans _ _ _ Eab Ebc). reflexivity.
Qed.

Lemma insert_str_sorted x l : StronglySorted sle l -> StronglySorted sle (insert_str x l).
Proof.
  induction 1 as [|y r Hr IH Hall]; simpl.
  - repeat constructor.
  - destruct (str_leb x y) eqn:E.
    + constructor; [constructor; auto|]. constructor; auto.
      eapply Forall_impl; [|exact Hall]. intros z Hz. eapply sle_trans; eauto.
    + constructor; auto. apply str_leb_total in E.
      assert (Hin : forall z, In z (insert_str x r) -> sle y z).
      { intros z Hz. apply (Permutation_in z (Permutation_sym (insert_str_perm x r))) in Hz.
        destruct Hz as [<-|Hz]; auto. eapply Forall_forall in Hall; eauto. }
      apply Forall_forall. exact Hin.
Qed.

Lemma sort_str_sorted l : StronglySorted sle (sort_str l).
Proof. induction l as [|x r IH]; simpl; [constructor | apply insert_str_sorted; exact IH]. Qed.

Lemma sorted_perm_eq : forall l1 l2, StronglySorted sle l1 -> StronglySorted sle l2 -> Permutation l1 l2 -> l1 = l2.
Proof.
  induction l1 as [|x r1 IH]; intros l2 H1 H2 Hp.
  - apply Permutation_nil in Hp. auto.
  - destruct l2 as [|y r2]; [apply Permutation_sym, Permutation_nil in Hp; discriminate|].
    inversion H1 as [|? ? Hs1 Ha1]; subst. inversion H2 as [|? ? Hs2 Ha2]; subst.
    assert (x = y).
    { assert (Hx : In x (y :: r2)) by (eapply Permutation_in; [exact Hp | left; auto]).
      assert (Hy : In y (x :: r1)) by (eapply Permutation_in; [apply Permutation_sym; exact Hp | left; auto]).
      destruct Hx as [->|Hx]; auto. destruct Hy as [->|Hy]; auto.
      apply sle_antisym.
      - eapply Forall_forall in Ha1; eauto.
      - eapply Forall_forall in Ha2; eauto. }
    subst y. f_equal. apply IH; auto. eapply Permutation_cons_inv; eauto.
Qed.

Theorem sort_str_canonical l1 l2 : Permutation l1 l2 <-> sort_str l1 = sort_str l2.
Proof.
  split; intro H.
  - apply sorted_perm_eq; try apply sort_str_sorted.
    eapply Permutation_trans; [apply Permutation_sym, sort_str_perm|].
    eapply Permutation_trans; [exact H | apply sort_str_perm].
  - eapply Permutation_trans; [apply sort_str_perm|]. rewrite H. apply Permutation_sym, sort_str_perm.
Qed.

(** isEntryIdentical = "same disabled checks as multisets" *)
Theorem entry_identical_iff b a : entry_identical b a = true <-> Permutation (e_disabled b) (e_disabled a).
Proof.
  unfold entry_identical. rewrite list_str_eqb_eq. symmetry. apply sort_str_canonical.
Qed.
