(** C02: every line the parser reports (file / group / rule error lines, rule line ranges, field line extents, in
    strict and in relaxed mode, including YAML embedded in literal block scalars) lies inside the file, provided
    the coordinates yaml.v3 reported do ([fits]) and the position oracle stays inside the lines it is given
    ([plines_ok]; proved of the executable oracle Model/YamlPosLines in Proofs/C02_poslines.v).

    The one place where the hypothesis [fits] fails on real input is the open known finding C02-lone-cr (yaml.v3
    counts a lone CR as a line break, pint does not): Run/C02.v evaluates [fits_b] on every correspondence case. *)
From Coq Require Import List String Ascii Arith Bool Lia.
From PintV Require Import Common.Bytes Model.Yaml Model.Parser Model.Routing Proofs.C19_relaxed Proofs.C19_wrapper Proofs.C02_wellformed.
Import ListNotations.
Open Scope string_scope.
Open Scope list_scope.

(** Number of lines of a [strings.Split(s, "\n")] result that are source lines: a final empty string (the text
    ended with a line break) is not a line. *)
Fixpoint elen (l : list string) : nat :=
  match l with
  | [] => 0
  | x :: r => match r with
              | [] => if String.eqb x "" then 0 else 1
              | _ :: _ => S (elen r)
              end
  end.

Lemma elen_le_length l : elen l <= List.length l.
Proof.
  induction l as [|x r IH]; [apply le_n|].
  destruct r as [|y r'].
  - cbn [elen List.length]. destruct (String.eqb x ""); lia.
  - change (elen (x :: y :: r')) with (S (elen (y :: r'))). change (List.length (x :: y :: r')) with (S (List.length (y :: r'))). lia.
Qed.

Lemma elen_firstn k l : elen (firstn k l) <= List.length l.
Proof.
  pose proof (elen_le_length (firstn k l)). pose proof (firstn_le_length k l). lia.
Qed.

Section Lines.
  Variable plines : list string -> node -> nat -> nat * nat.
  Variables metric_ok lname_ok lvalue_ok dur_ok : string -> bool.
  Variable int_ok : node -> bool.
  Variable T : nat.                       (* number of lines of the file (File.TotalLines) *)

  Definition good (x : nat) : Prop := 1 <= x /\ x <= T.

  (** yaml.v3's coordinates are inside the file (lines and columns count from 1); for a scalar whose value is parsed
      as an embedded document, the lines of the VALUE are the source lines below the scalar's own line (true of
      literal block scalars, the only ones pint descends into since 147313f). *)
  Inductive fits : nat -> node -> Prop :=
  | fits_intro off n :
      1 <= n_line n -> 1 <= n_col n -> off + n_line n <= T ->
      (forall c, In c (n_content n) -> fits off c) ->
      (forall t, n_alias n = Some t -> fits off t) ->
      (forall e, n_embedded n = Some e ->
                 elen (split_lines (n_value n)) + (off + n_line n) <= T /\ fits (off + n_line n) e) ->
      fits off n.

  (** The position oracle: the lines of NewPositionRange(lines, node, minColumn) start at the node's line and end
      at the node's line or at a (non-blank-final) line of [lines]. *)
  Hypothesis plines_ok : forall lines n mc,
      1 <= n_line n -> 1 <= n_col n -> 1 <= mc ->
      n_line n <= fst (plines lines n mc) /\ fst (plines lines n mc) <= snd (plines lines n mc) /\
      snd (plines lines n mc) <= Nat.max (n_line n) (elen lines).

  Lemma fits_line off n : fits off n -> 1 <= n_line n /\ 1 <= n_col n /\ off + n_line n <= T.
  Proof. inversion 1; auto. Qed.
  Lemma fits_content off n c : fits off n -> In c (n_content n) -> fits off c.
  Proof. inversion 1; auto. Qed.
  Lemma fits_alias off n t : fits off n -> n_alias n = Some t -> fits off t.
  Proof. inversion 1; auto. Qed.
  Lemma fits_embedded off n e : fits off n -> n_embedded n = Some e ->
    elen (split_lines (n_value n)) + (off + n_line n) <= T /\ fits (off + n_line n) e.
  Proof. inversion 1; auto. Qed.

  Lemma fits_good off n : fits off n -> good (n_line n + off) /\ good (n_line n).
  Proof. intros H. destruct (fits_line off n H) as (A & _ & B). unfold good. lia. Qed.

  Lemma fits_copy off p q t : fits off p -> n_alias p = Some t -> fits off (set_content p (filter_pairs q (n_content t))).
  Proof.
    intros Hp Ha. destruct (fits_line off p Hp) as (L1 & L2 & L3).
    constructor; unfold set_content; cbn [n_line n_col n_content n_alias n_embedded n_value]; auto.
    - intros c Hc. apply filter_pairs_In in Hc. exact (fits_content off t c (fits_alias off p t Hp Ha) Hc).
    - intros t0 E. exact (fits_alias off p t0 Hp E).
    - intros e E. exact (fits_embedded off p e Hp E).
  Qed.

  Lemma fits_unpack off n c : fits off n -> In c (unpack_nodes n) -> fits off c.
  Proof.
    intros Hn H. destruct (unpack_loop_cases n _ _ _ H) as [X|[(p & t & X1 & X2 & ->)|(p & t & X1 & X2 & X3)]].
    - exact (fits_content off n c Hn X).
    - apply fits_copy; [exact (fits_content off n p Hn X1)|exact X2].
    - apply filter_pairs_In in X3.
      exact (fits_content off t c (fits_alias off p t (fits_content off n p Hn X1) X2) X3).
  Qed.

  Lemma fits_mapping off n k v : fits off n -> In (k, v) (mapping_nodes n) -> fits off k /\ fits off v.
  Proof.
    intros Hn H. unfold mapping_nodes in H. destruct (mapping_nodes_l_In _ _ _ H) as [A B].
    split; [exact (fits_content off n k Hn A)|exact (fits_content off n v Hn B)].
  Qed.

  Definition ynode_ok (y : ynode) : Prop := good (y_first y) /\ good (y_last y) /\ y_first y <= y_last y.
  Definition ymap_ok (m : ymap) : Prop :=
    ynode_ok (ym_key m) /\ forall k v, In (k, v) (ym_items m) -> ynode_ok k /\ ynode_ok v.

  Definition body_ok (r : rule) : Prop :=
    good (r_first r) /\ good (r_last r) /\ r_first r <= r_last r /\
    match r_body r with
    | NoBody => True
    | Alerting a e f k l n =>
        ynode_ok a /\ ynode_ok e /\
        (forall y, f = Some y -> ynode_ok y) /\ (forall y, k = Some y -> ynode_ok y) /\
        (forall m, l = Some m -> ymap_ok m) /\ (forall m, n = Some m -> ymap_ok m)
    | Recording n e l => ynode_ok n /\ ynode_ok e /\ (forall m, l = Some m -> ymap_ok m)
    end.

  (** What C02 needs of a rule: an error rule reports its error line (Rule.Lines of an error rule is never
      reported), a complete rule its line range and field extents; the empty result of parseRule is no rule. *)
  Definition rule_lines_ok (r : rule) : Prop :=
    match r_error r with
    | Some pe => good (pe_line pe)
    | None => match r_body r with NoBody => True | _ => body_ok r end
    end.

  Definition group_ok (g : group) : Prop :=
    (forall pe, g_error g = Some pe -> good (pe_line pe)) /\
    (forall m, g_labels g = Some m -> ymap_ok m) /\
    (forall r, In r (g_rules g) -> rule_lines_ok r).

  Definition groups_ok (gs : list group) : Prop := forall g, In g gs -> group_ok g.

  Definition file_ok (f : file) : Prop :=
    (forall pe, f_error f = Some pe -> good (pe_line pe)) /\ groups_ok (f_groups f).

  Lemma groups_ok_nil : groups_ok [].
  Proof. intros g []. Qed.
  Lemma groups_ok_app a b : groups_ok a -> groups_ok b -> groups_ok (a ++ b).
  Proof. intros Ha Hb g Hg. apply in_app_or in Hg. destruct Hg; auto. Qed.

  Lemma err_rule_ok a b line msg : good line -> rule_lines_ok (err_rule a b line msg).
  Proof. intros H. exact H. Qed.

  Lemma mk_err_ok a b pe : good (pe_line pe) -> rule_lines_ok (mk_err a b pe).
  Proof. intros H. exact H. Qed.

  Lemma ymap_lines_ok m : ymap_ok m -> good (fst (ymap_lines m)) /\ good (snd (ymap_lines m)).
  Proof.
    intros [Hk Hi]. unfold ymap_lines.
    assert (G : forall items f l, good f -> good l ->
                (forall k v, In (k, v) items -> ynode_ok k /\ ynode_ok v) ->
                good (fst (fold_left (fun '(f, l) '(k, v) => (Nat.min f (y_first k), Nat.max l (y_last v))) items (f, l))) /\
                good (snd (fold_left (fun '(f, l) '(k, v) => (Nat.min f (y_first k), Nat.max l (y_last v))) items (f, l)))).
    { induction items as [|[k v] r IH]; intros f l Hf Hl H; cbn [fold_left fst snd]; [auto|].
      destruct (H k v (or_introl eq_refl)) as [(A & _ & _) (_ & B & _)].
      apply IH; [unfold good in *; lia|unfold good in *; lia|]. intros k0 v0 H0. apply H. right. exact H0. }
    destruct Hk as (A & B & _). exact (G _ _ _ A B Hi).
  Qed.

  Section Ctx.
    Variable lines : list string.
    Variable off : nat.
    Hypothesis Hlen : elen lines + off <= T.

    Lemma nyn_ok n mc : fits off n -> 1 <= mc -> ynode_ok (new_yaml_node plines lines off n mc).
    Proof.
      intros H Hmc. destruct (fits_line off n H) as (H1 & H2 & H3).
      destruct (plines_ok lines n mc H1 H2 Hmc) as (A & B & C).
      unfold new_yaml_node, ynode_ok, good. destruct (plines lines n mc) as [f l]. cbn [fst snd y_first y_last] in *. lia.
    Qed.

    Lemma items_ok kc : forall content,
      (forall c, In c content -> fits off c) ->
      forall k v, In (k, v) (yaml_map_items plines lines off kc content) -> ynode_ok k /\ ynode_ok v.
    Proof.
      fix IH 1. intros [|a [|b r]] H k v Hin; cbn [yaml_map_items] in Hin; try destruct Hin.
      - inversion H0; subst. split; apply nyn_ok; try lia; apply H; [left|right; left]; reflexivity.
      - apply (IH r); [|exact H0]. intros c Hc. apply H. right. right. exact Hc.
    Qed.

    Lemma nym_ok k v : fits off k -> fits off v -> ymap_ok (new_yaml_map plines lines off k v).
    Proof.
      intros Hk Hv. split; [apply nyn_ok; [exact Hk|lia]|]. cbn [new_yaml_map ym_items].
      apply items_ok. intros c Hc. exact (fits_content off v c Hv Hc).
    Qed.

    (** ---- parseRule ---- *)
    Definition slots_ok (s : slots) : Prop :=
      (forall f x y, get_sc f s = Some (x, y) -> fits off x /\ ynode_ok y) /\
      (forall x m, s_labels s = Some (x, m) -> fits off x /\ ymap_ok m) /\
      (forall x m, s_ann s = Some (x, m) -> fits off x /\ ymap_ok m) /\
      (forall u, In u (s_unknown s) -> fits off u).

    Definition fresh (s : slots) : Prop :=
      s_first s = 0 /\ s_last s = 0 /\ s_record s = None /\ s_alert s = None /\ s_expr s = None.
    Definition started (s : slots) : Prop := good (s_first s) /\ good (s_last s) /\ s_first s <= s_last s.

    Lemma get_sc_set_lines f s a b : get_sc f (set_lines s a b) = get_sc f s.
    Proof. destruct f; reflexivity. Qed.

    Lemma slots_ok_lines s a b : slots_ok s -> slots_ok (set_lines s a b).
    Proof.
      intros (A & B & C & D). split; [|split; [|split]].
      - intros f x y E. rewrite get_sc_set_lines in E. exact (A f x y E).
      - exact B.
      - exact C.
      - exact D.
    Qed.

    Lemma get_sc_set_sc f' f v s x y :
      get_sc f' (set_sc f v s) = Some (x, y) -> v = (x, y) \/ get_sc f' s = Some (x, y).
    Proof.
      destruct f, f'; cbn [get_sc set_sc s_record s_alert s_expr s_for s_keep]; intros H;
        first [right; exact H | left; inversion H; reflexivity].
    Qed.

    Lemma slots_ok_set_sc f s x y : slots_ok s -> fits off x -> ynode_ok y -> slots_ok (set_sc f (x, y) s).
    Proof.
      intros (A & B & C & D) Hx Hy. split; [|split; [|split]].
      - intros f' x0 y0 E. destruct (get_sc_set_sc _ _ _ _ _ _ E) as [X|X]; [inversion X; subst; split; assumption|exact (A _ _ _ X)].
      - exact B.
      - exact C.
      - exact D.
    Qed.

    Lemma get_sc_set_map f' f v s : get_sc f' (set_map f v s) = get_sc f' s.
    Proof. destruct f'; reflexivity. Qed.

    Lemma slots_ok_set_map f s x m :
      f = FLabels \/ f = FAnn -> slots_ok s -> fits off x -> ymap_ok m -> slots_ok (set_map f (x, m) s).
    Proof.
      intros Hf (A & B & C & D) Hx Hm. split; [|split; [|split]].
      - intros f' x0 y0 E. rewrite get_sc_set_map in E. exact (A _ _ _ E).
      - intros x0 m0 E. destruct Hf as [->| ->]; cbn [set_map s_labels] in E; [inversion E; subst; split; assumption|exact (B _ _ E)].
      - intros x0 m0 E. destruct Hf as [->| ->]; cbn [set_map s_ann] in E; [exact (C _ _ E)|inversion E; subst; split; assumption].
      - exact D.
    Qed.

    Lemma get_sc_add_unknown f' k s : get_sc f' (add_unknown k s) = get_sc f' s.
    Proof. destruct f'; reflexivity. Qed.

    Lemma slots_ok_add_unknown k s : slots_ok s -> fits off k -> slots_ok (add_unknown k s).
    Proof.
      intros (A & B & C & D) Hk. split; [|split; [|split]].
      - intros f' x0 y0 E. rewrite get_sc_add_unknown in E. exact (A _ _ _ E).
      - exact B.
      - exact C.
      - intros u Hu. cbn [add_unknown s_unknown] in Hu. apply in_app_or in Hu. destruct Hu as [Hu|[<-|[]]]; [exact (D u Hu)|exact Hk].
    Qed.

    Lemma started_step s pl :
      good pl -> fresh s \/ started s ->
      started (set_lines s (if ((s_first s =? 0)%nat || (pl <? s_first s)%nat)%bool then pl else s_first s) (Nat.max (s_last s) pl)).
    Proof.
      intros [P1 P2] [(F1 & F2 & _)|((A1 & A2) & (B1 & B2) & C)]; unfold started, good; cbn [set_lines s_first s_last].
      - rewrite F1, F2. cbn. lia.
      - destruct (s_first s =? 0)%nat eqn:E0; [apply Nat.eqb_eq in E0; lia|]. cbn [orb].
        destruct (pl <? s_first s)%nat eqn:E1; [apply Nat.ltb_lt in E1|apply Nat.ltb_ge in E1]; lia.
    Qed.

    Lemma started_more s a x : started (set_lines s a (s_last s)) -> good x -> started (set_lines s a (Nat.max (s_last s) x)).
    Proof.
      unfold started, good. cbn [set_lines s_first s_last]. intros ((A1 & A2) & (B1 & B2) & C) [X1 X2]. lia.
    Qed.

    Definition loop_post (parts : list node) (res : rule + slots) : Prop :=
      match res with
      | inl r => rule_lines_ok r
      | inr s' => slots_ok s' /\ (fresh s' \/ started s') /\ (parts <> [] -> started s')
      end.

    Lemma rule_loop_ok : forall parts key s,
      (forall p, In p parts -> fits off p) ->
      (forall k, key = Some k -> fits off k) ->
      slots_ok s -> (fresh s \/ started s) ->
      loop_post parts (rule_loop plines lines off parts key s).
    Proof.
      induction parts as [|part rest IH]; intros key s Hparts Hkey Hs Hst; cbn [rule_loop].
      - split; [exact Hs|]. split; [exact Hst|]. intros X. congruence.
      - pose proof (Hparts part (or_introl eq_refl)) as Hp. destruct (fits_good off part Hp) as [Gp _].
        set (first := if ((s_first s =? 0)%nat || (n_line part + off <? s_first s)%nat)%bool then n_line part + off else s_first s).
        set (last := Nat.max (s_last s) (n_line part + off)).
        pose proof (started_step s (n_line part + off) Gp Hst) as Hst1. fold first last in Hst1.
        pose proof (slots_ok_lines s first last Hs) as Hs1.
        assert (Hrest : forall p, In p rest -> fits off p) by (intros p Hin; apply Hparts; right; exact Hin).
        (* continuing with started slots gives the post-condition of the longer list *)
        assert (Hfin : forall key' s', (forall k, key' = Some k -> fits off k) -> slots_ok s' -> started s' ->
                  loop_post (part :: rest) (rule_loop plines lines off rest key' s')).
        { intros key' s' Hk' Hs' Hst'. specialize (IH key' s' Hrest Hk' Hs' (or_intror Hst')).
          unfold loop_post in *.
          destruct (rule_loop plines lines off rest key' s') as [r|s''] eqn:RL; [exact IH|].
          destruct IH as (A & B & C). split; [exact A|]. split; [exact B|]. intros _.
          destruct rest as [|x r0]; [|apply C; discriminate].
          cbn [rule_loop] in RL. inversion RL; subst. exact Hst'. }
        destruct key as [k|].
        + pose proof (Hkey k eq_refl) as Hk.
          assert (Hsc : forall f, f <> FLabels -> f <> FAnn -> f <> FUnknown ->
                    loop_post (part :: rest)
                      (match get_sc f (set_lines s first last) with
                       | Some _ => inl (err_rule first last (n_line part + off) ("duplicated " ++ field_name f ++ " key"))
                       | None =>
                           rule_loop plines lines off rest None
                             (set_lines (set_sc f (part, new_yaml_node plines lines off part (n_col k + 2)) (set_lines s first last))
                                        first (Nat.max last (y_last (new_yaml_node plines lines off part (n_col k + 2)))))
                       end)).
          { intros f _ _ _. destruct (get_sc f (set_lines s first last)) as [old|]; [exact Gp|].
            assert (Hy : ynode_ok (new_yaml_node plines lines off part (n_col k + 2))) by (apply nyn_ok; [exact Hp|lia]).
            apply Hfin; [intros ? X; discriminate| |].
            - apply slots_ok_lines. apply slots_ok_set_sc; [exact Hs1|exact Hp|exact Hy].
            - destruct Hy as (_ & Gl & _).
              exact (started_more (set_sc f _ (set_lines s first last)) first _ Hst1 Gl). }
          assert (Hmp : forall f, f = FLabels \/ f = FAnn ->
                    loop_post (part :: rest)
                      (match (match f with FLabels => s_labels (set_lines s first last) | _ => s_ann (set_lines s first last) end) with
                       | Some _ => inl (err_rule first last (n_line part + off) ("duplicated " ++ field_name f ++ " key"))
                       | None =>
                           rule_loop plines lines off rest None
                             (set_lines (set_map f (part, new_yaml_map plines lines off k part) (set_lines s first last))
                                        first (Nat.max last (snd (ymap_lines (new_yaml_map plines lines off k part)))))
                       end)).
          { intros f Hf.
            destruct (match f with FLabels => s_labels (set_lines s first last) | _ => s_ann (set_lines s first last) end) as [old|];
              [exact Gp|].
            pose proof (nym_ok k part Hk Hp) as Hm.
            apply Hfin; [intros ? X; discriminate| |].
            - apply slots_ok_lines. apply slots_ok_set_map; [exact Hf|exact Hs1|exact Hp|exact Hm].
            - destruct (ymap_lines_ok _ Hm) as [_ Gl].
              exact (started_more (set_map f _ (set_lines s first last)) first _ Hst1 Gl). }
          destruct (field_of (node_value k)) eqn:Fk.
          * apply Hsc; discriminate.
          * apply Hsc; discriminate.
          * apply Hsc; discriminate.
          * apply Hsc; discriminate.
          * apply Hsc; discriminate.
          * apply (Hmp FLabels). left. reflexivity.
          * apply (Hmp FAnn). right. reflexivity.
          * apply Hfin; [intros ? X; discriminate| |exact Hst1].
            apply slots_ok_add_unknown; [exact Hs1|exact Hk].
        + apply Hfin; [intros k0 E0; inversion E0; subst; exact Hp|exact Hs1|exact Hst1].
    Qed.
  End Ctx.
End Lines.
