(** C02: every line the parser reports (error lines, rule line ranges, field line extents) lies inside the file,
    provided the coordinates yaml.v3 reported do ([fits]) and the position oracle stays inside the lines it is given. *)
From Coq Require Import List String Ascii Arith Bool Lia.
From PintV Require Import Common.Bytes Model.Yaml Model.Parser Proofs.C19_relaxed Proofs.C19_wrapper Proofs.C02_wellformed.
Import ListNotations.
Open Scope string_scope.
Open Scope list_scope.

Section Lines.
  Variable plines : list string -> node -> nat -> nat * nat.
  Variables metric_ok lname_ok lvalue_ok dur_ok : string -> bool.
  Variable int_ok : node -> bool.
  Variable T : nat.                       (* number of lines of the file *)

  Definition good (x : nat) : Prop := 1 <= x /\ x <= T.

  (** yaml.v3's coordinates are inside the file; for a scalar whose value is parsed as an embedded document, every
      line of the VALUE is a source line below the scalar's own line (true of literal block scalars). *)
  Inductive fits : nat -> node -> Prop :=
  | fits_intro off n :
      1 <= n_line n -> off + n_line n <= T ->
      (forall c, In c (n_content n) -> fits off c) ->
      (forall t, n_alias n = Some t -> fits off t) ->
      (forall e, n_embedded n = Some e ->
                 List.length (split_lines (n_value n)) + (off + n_line n) <= T /\ fits (off + n_line n) e) ->
      fits off n.

  Hypothesis plines_ok : forall lines n mc off,
      List.length lines + off <= T -> 1 <= n_line n -> off + n_line n <= T ->
      1 <= fst (plines lines n mc) /\ fst (plines lines n mc) <= snd (plines lines n mc) /\
      snd (plines lines n mc) + off <= T.

  Lemma fits_line off n : fits off n -> 1 <= n_line n /\ off + n_line n <= T.
  Proof. inversion 1; auto. Qed.
  Lemma fits_content off n c : fits off n -> In c (n_content n) -> fits off c.
  Proof. inversion 1; auto. Qed.
  Lemma fits_alias off n t : fits off n -> n_alias n = Some t -> fits off t.
  Proof. inversion 1; auto. Qed.
  Lemma fits_embedded off n e : fits off n -> n_embedded n = Some e ->
    List.length (split_lines (n_value n)) + (off + n_line n) <= T /\ fits (off + n_line n) e.
  Proof. inversion 1; auto. Qed.

  Lemma fits_good off n : fits off n -> good (n_line n + off) /\ good (n_line n).
  Proof. intros H. destruct (fits_line off n H). unfold good. lia. Qed.

  Lemma fits_copy off p q t : fits off p -> n_alias p = Some t -> fits off (set_content p (filter_pairs q (n_content t))).
  Proof.
    intros Hp Ha. destruct (fits_line off p Hp). constructor; unfold set_content; cbn [n_line n_content n_alias n_embedded n_value]; auto.
    - intros c Hc. apply filter_pairs_In in Hc. exact (fits_content off t c (fits_alias off p t Hp Ha) Hc).
    - intros t0 E. rewrite Ha in E. inversion E; subst. exact (fits_alias off p t0 Hp Ha).
    - intros e E. exact (fits_embedded off p e Hp E).
  Qed.

  Lemma fits_unpack off n c : fits off n -> In c (unpack_nodes n) -> fits off c.
  Proof.
    intros Hn H. destruct (unpack_loop_cases n _ _ _ H) as [X|[(p & t & X1 & X2 & ->)|(p & t & X1 & X2 & X3)]].
    - exact (fits_content off n c Hn X).
    - apply fits_copy; [exact (fits_content off n p Hn X1)|exact X2].
    - apply filter_pairs_In in X3.
      exact (fits_content off t c (fits_alias off p t (fits_content off n p Hn X1) X2) X3).
  Qed.

  Section Ctx.
    Variable lines : list string.
    Variable off : nat.
    Hypothesis Hlen : List.length lines + off <= T.

    Definition ynode_ok (y : ynode) : Prop := good (y_first y) /\ good (y_last y) /\ y_first y <= y_last y.
    Definition ymap_ok (m : ymap) : Prop :=
      ynode_ok (ym_key m) /\ forall k v, In (k, v) (ym_items m) -> ynode_ok k /\ ynode_ok v.

    Lemma nyn_ok n mc : fits off n -> ynode_ok (new_yaml_node plines lines off n mc).
    Proof.
      intros H. destruct (fits_line off n H) as [H1 H2].
      destruct (plines_ok lines n mc off Hlen H1 H2) as (A & B & C).
      unfold new_yaml_node, ynode_ok, good. destruct (plines lines n mc) as [f l]. cbn [fst snd y_first y_last] in *. lia.
    Qed.

    Lemma items_ok kc : forall content,
      (forall c, In c content -> fits off c) ->
      forall k v, In (k, v) (yaml_map_items plines lines off kc content) -> ynode_ok k /\ ynode_ok v.
    Proof.
      fix IH 1. intros [|a [|b r]] H k v Hin; cbn [yaml_map_items] in Hin; try destruct Hin.
      - inversion H0; subst. split; apply nyn_ok; apply H; [left|right; left]; reflexivity.
      - apply (IH r); [|exact H0]. intros c Hc. apply H. right. right. exact Hc.
    Qed.

    Lemma nym_ok k v : fits off k -> fits off v -> ymap_ok (new_yaml_map plines lines off k v).
    Proof.
      intros Hk Hv. split; [apply nyn_ok; exact Hk|]. cbn [new_yaml_map ym_items].
      apply items_ok. intros c Hc. exact (fits_content off v c Hv Hc).
    Qed.

    Lemma ymap_lines_ok m : ymap_ok m -> good (fst (ymap_lines m)) /\ good (snd (ymap_lines m)).
    Proof.
      intros [Hk Hi]. unfold ymap_lines.
      assert (G : forall items f l, good f -> good l ->
                  (forall k v, In (k, v) items -> ynode_ok k /\ ynode_ok v) ->
                  good (fst (fold_left (fun '(f, l) '(k, v) => (Nat.min f (y_first k), Nat.max l (y_last v))) items (f, l))) /\
                  good (snd (fold_left (fun '(f, l) '(k, v) => (Nat.min f (y_first k), Nat.max l (y_last v))) items (f, l)))).
      { induction items as [|[k v] r IH]; intros f l Hf Hl H; cbn [fold_left fst snd]; [auto|].
        destruct (H k v (or_introl eq_refl)) as [(A & _ & _) (_ & B & _)].
        apply IH; [unfold good in *; lia|unfold good in *; lia|]. intros k0 v0 H0. apply H. right. exact H0. }
      destruct Hk as (A & B & _). exact (G _ _ _ A B Hi).
    Qed.

    (** ---- parseRule ---- *)
    Definition slots_ok (s : slots) : Prop :=
      (forall f x y, get_sc f s = Some (x, y) -> fits off x /\ ynode_ok y) /\
      (forall x m, s_labels s = Some (x, m) -> fits off x /\ ymap_ok m) /\
      (forall x m, s_ann s = Some (x, m) -> fits off x /\ ymap_ok m) /\
      (forall u, In u (s_unknown s) -> fits off u).

    Definition fresh (s : slots) : Prop :=
      s_first s = 0 /\ s_last s = 0 /\ s_record s = None /\ s_alert s = None /\ s_expr s = None.
    Definition started (s : slots) : Prop := good (s_first s) /\ good (s_last s) /\ s_first s <= s_last s.

    Definition rule_lines_ok (r : rule) : Prop :=
      match r_error r with
      | Some pe => good (pe_line pe)
      | None =>
          match r_body r with
          | NoBody => True
          | Alerting a e f k l n =>
              good (r_first r) /\ good (r_last r) /\ r_first r <= r_last r /\ ynode_ok a /\ ynode_ok e /\
              (forall y, f = Some y -> ynode_ok y) /\ (forall y, k = Some y -> ynode_ok y) /\
              (forall m, l = Some m -> ymap_ok m) /\ (forall m, n = Some m -> ymap_ok m)
          | Recording n e l =>
              good (r_first r) /\ good (r_last r) /\ r_first r <= r_last r /\ ynode_ok n /\ ynode_ok e /\
              (forall m, l = Some m -> ymap_ok m)
          end
      end.

    Lemma slots_ok_lines s a b : slots_ok s -> slots_ok (set_lines s a b).
    Proof. intros (A & B & C & D). repeat split; intros; cbn in *; eauto; destruct f; cbn in *; eauto. Qed.

    Lemma started_step s pl :
      good pl -> fresh s \/ started s ->
      started (set_lines s (if ((s_first s =? 0)%nat || (pl <? s_first s)%nat)%bool then pl else s_first s) (Nat.max (s_last s) pl)).
    Proof.
      intros [P1 P2] [(F1 & F2 & _)|((A1 & A2) & (B1 & B2) & C)]; unfold started, good; cbn [set_lines s_first s_last].
      - rewrite F1, F2. cbn. lia.
      - destruct (s_first s =? 0)%nat eqn:E0; [apply Nat.eqb_eq in E0; lia|]. cbn [orb].
        destruct (pl <? s_first s)%nat eqn:E1; [apply Nat.ltb_lt in E1|apply Nat.ltb_ge in E1]; lia.
    Qed.

    Lemma started_last s x : started s -> good x -> started (set_lines s (s_first s) (Nat.max (s_last s) x)).
    Proof. intros ((A1 & A2) & (B1 & B2) & C) [X1 X2]. unfold started, good. cbn [set_lines s_first s_last]. lia. Qed.

    Lemma rule_loop_ok : forall parts key s,
      (forall p, In p parts -> fits off p) ->
      (forall k, key = Some k -> fits off k) ->
      slots_ok s -> (fresh s \/ started s) ->
      match rule_loop plines lines off parts key s with
      | inl r => rule_lines_ok r
      | inr s' => slots_ok s' /\ (fresh s' \/ started s') /\ (parts <> [] -> started s')
      end.
    Proof.
      induction parts as [|part rest IH]; intros key s Hparts Hkey Hs Hst; cbn [rule_loop].
      - split; [exact Hs|]. split; [exact Hst|]. intros X. congruence.
      - pose proof (Hparts part (or_introl eq_refl)) as Hp. destruct (fits_good off part Hp) as [Gp _].
        set (first := if ((s_first s =? 0)%nat || (n_line part + off <? s_first s)%nat)%bool then n_line part + off else s_first s).
        set (last := Nat.max (s_last s) (n_line part + off)).
        pose proof (started_step s (n_line part + off) Gp Hst) as Hst1. fold first last in Hst1.
        pose proof (slots_ok_lines s first last Hs) as Hs1.
        assert (Hrest : forall p, In p rest -> fits off p) by (intros p Hin; apply Hparts; right; exact Hin).
        assert (Hfin : forall key' s', (forall k, key' = Some k -> fits off k) -> slots_ok s' -> started s' ->
                  match rule_loop plines lines off rest key' s' with
                  | inl r => rule_lines_ok r
                  | inr s'' => slots_ok s'' /\ (fresh s'' \/ started s'') /\ (part :: rest <> [] -> started s'')
                  end).
        { intros key' s' Hk' Hs' Hst'. specialize (IH key' s' Hrest Hk' Hs' (or_intror Hst')).
          destruct (rule_loop plines lines off rest key' s') as [r|s'']; [exact IH|].
          destruct IH as (A & B & C). split; [exact A|]. split; [exact B|]. intros _.
          destruct rest as [|x r0]; [cbn in A, B |- *|apply C; discriminate].
          (* rest = []: s'' = s' *) idtac. destruct B as [B|B]; [|exact B]. exact Hst'. }
        destruct key as [k|].
        + pose proof (Hkey k eq_refl) as Hk.
          destruct (field_of (node_value k)) eqn:Fk.
          1-5: (destruct (get_sc _ (set_lines s first last)) as [old|] eqn:G;
                [unfold rule_lines_ok; cbn; exact Gp|];
                apply Hfin; [intros ? X; discriminate| |];
                [ apply slots_ok_lines; destruct Hs1 as (A & B & C & D); repeat split;
                  [ intros f0 x0 y0 E0; destruct f0; cbn in E0; try (inversion E0; subst; split; [exact Hp|apply nyn_ok; exact Hp]); eauto
                  | exact B | exact C | exact D ]
                | pose proof (nyn_ok part (n_col k + 2) Hp) as (_ & Gl & _);
                  destruct Hst1 as (A1 & A2 & A3); unfold started, good in *; cbn [set_lines set_sc s_first s_last]; lia ]).
          * (* labels *)
            destruct (s_labels (set_lines s first last)) as [old|] eqn:G; [unfold rule_lines_ok; cbn; exact Gp|].
            pose proof (nym_ok k part Hk Hp) as Hm.
            apply Hfin; [intros ? X; discriminate| |].
            -- apply slots_ok_lines. destruct Hs1 as (A & B & C & D). repeat split; eauto.
               ++ intros f0 x0 y0 E0. destruct f0; cbn in E0; eauto.
               ++ intros x0 m0 E0. cbn in E0. inversion E0; subst. split; assumption.
            -- destruct (ymap_lines_ok _ Hm) as [_ (Gl1 & Gl2)].
               destruct Hst1 as (A1 & A2 & A3). unfold started, good in *. cbn [set_lines set_map s_first s_last]. lia.
          * (* annotations *)
            destruct (s_ann (set_lines s first last)) as [old|] eqn:G; [unfold rule_lines_ok; cbn; exact Gp|].
            pose proof (nym_ok k part Hk Hp) as Hm.
            apply Hfin; [intros ? X; discriminate| |].
            -- apply slots_ok_lines. destruct Hs1 as (A & B & C & D). repeat split; eauto.
               ++ intros f0 x0 y0 E0. destruct f0; cbn in E0; eauto.
               ++ intros x0 m0 E0. cbn in E0. inversion E0; subst. split; assumption.
            -- destruct (ymap_lines_ok _ Hm) as [_ (Gl1 & Gl2)].
               destruct Hst1 as (A1 & A2 & A3). unfold started, good in *. cbn [set_lines set_map s_first s_last]. lia.
          * (* unknown key *)
            apply Hfin; [intros ? X; discriminate| |exact Hst1].
            destruct Hs1 as (A & B & C & D). repeat split; eauto.
            -- intros f0 x0 y0 E0. destruct f0; cbn in E0; eauto.
            -- intros u Hu. cbn in Hu. apply in_app_or in Hu. destruct Hu as [Hu|[<-|[]]]; [exact (D u Hu)|exact Hk].
        + apply Hfin; [intros k0 E0; inversion E0; subst; exact Hp|exact Hs1|exact Hst1].
    Qed.
  End Ctx.
End Lines.
