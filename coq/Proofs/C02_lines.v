(** C02: every line the parser reports (file / group / rule error lines, rule line ranges, field line extents, in
    strict and in relaxed mode, including YAML embedded in literal block scalars) lies inside the file, provided
    the coordinates yaml.v3 reported do ([fits]) and the position oracle stays inside the lines it is given
    ([plines_ok]; proved of the executable oracle Model/YamlPosLines in Proofs/C02_poslines.v).

    The one place where the hypothesis [fits] fails on real input is the open known finding C02-lone-cr (yaml.v3
    counts a lone CR as a line break, pint does not): Run/C02.v evaluates [fits_b] on every correspondence case. *)
From Coq Require Import List String Ascii Arith Bool Lia.
From PintV Require Import Common.Bytes Model.Yaml Model.Parser Model.YamlFits Model.Routing Proofs.C19_relaxed Proofs.C19_wrapper Proofs.C02_wellformed.
Import ListNotations.
Open Scope string_scope.
Open Scope list_scope.

Lemma elen_le_length l : elen l <= List.length l.
Proof.
  induction l as [|x r IH]; [apply le_n|].
  destruct r as [|y r'].
  - cbn [elen List.length]. destruct (String.eqb x ""); lia.
  - change (elen (x :: y :: r')) with (S (elen (y :: r'))). change (List.length (x :: y :: r')) with (S (List.length (y :: r'))). lia.
Qed.

Lemma elen_firstn k l : elen (firstn k l) <= List.length l.
Proof.
  pose proof (elen_le_length (firstn k l)). pose proof (firstn_length k l). lia.
Qed.

Section Lines.
  Variable plines : list string -> node -> nat -> nat * nat.
  Variables metric_ok lname_ok lvalue_ok dur_ok : string -> bool.
  Variable int_ok : node -> bool.
  Variable null_ok : node -> bool.
  Variable T : nat.                       (* number of lines of the file (File.TotalLines) *)

  Definition good (x : nat) : Prop := 1 <= x /\ x <= T.

  (** yaml.v3's coordinates are inside the file (lines and columns count from 1); for a scalar whose value is parsed
      as an embedded document, the lines of the VALUE are the source lines below the scalar's own line (true of
      literal block scalars, the only ones pint descends into since 147313f). *)
  Inductive fits : nat -> node -> Prop :=
  | fits_intro off n :
      1 <= n_line n -> 1 <= n_col n -> off + n_line n <= T ->
      (forall c, In c (n_content n) -> fits off c) ->
      (forall t, n_alias n = Some t -> fits off t) ->
      (forall e, n_embedded n = Some e ->
                 elen (split_lines (n_value n)) + (off + n_line n) <= T /\ fits (off + n_line n) e) ->
      fits off n.

  (** The position oracle: the lines of NewPositionRange(lines, node, minColumn) start at the node's line and end
      at the node's line or at a (non-blank-final) line of [lines]. *)
  Hypothesis plines_ok : forall lines n mc,
      1 <= n_line n -> 1 <= n_col n -> 1 <= mc ->
      n_line n <= fst (plines lines n mc) /\ fst (plines lines n mc) <= snd (plines lines n mc) /\
      snd (plines lines n mc) <= Nat.max (n_line n) (elen lines).

  Lemma fits_line off n : fits off n -> 1 <= n_line n /\ 1 <= n_col n /\ off + n_line n <= T.
  Proof. inversion 1; auto. Qed.
  Lemma fits_content off n c : fits off n -> In c (n_content n) -> fits off c.
  Proof. inversion 1; auto. Qed.
  Lemma fits_alias off n t : fits off n -> n_alias n = Some t -> fits off t.
  Proof. inversion 1; auto. Qed.
  Lemma fits_embedded off n e : fits off n -> n_embedded n = Some e ->
    elen (split_lines (n_value n)) + (off + n_line n) <= T /\ fits (off + n_line n) e.
  Proof. inversion 1; auto. Qed.

  Lemma fits_good off n : fits off n -> good (n_line n + off) /\ good (n_line n).
  Proof. intros H. destruct (fits_line off n H) as (A & _ & B). unfold good. lia. Qed.

  Lemma fits_copy off p q t : fits off p -> n_alias p = Some t -> fits off (set_content p (filter_pairs q (n_content t))).
  Proof.
    intros Hp Ha. destruct (fits_line off p Hp) as (L1 & L2 & L3).
    constructor; unfold set_content; cbn [n_line n_col n_content n_alias n_embedded n_value]; auto.
    - intros c Hc. apply filter_pairs_In in Hc. exact (fits_content off t c (fits_alias off p t Hp Ha) Hc).
    - intros t0 E. exact (fits_alias off p t0 Hp E).
    - intros e E. exact (fits_embedded off p e Hp E).
  Qed.

  Lemma fits_unpack off n c : fits off n -> In c (unpack_nodes n) -> fits off c.
  Proof.
    intros Hn H. destruct (unpack_loop_cases n _ _ _ H) as [X|[(p & t & X1 & X2 & ->)|(p & t & X1 & X2 & X3)]].
    - exact (fits_content off n c Hn X).
    - apply fits_copy; [exact (fits_content off n p Hn X1)|exact X2].
    - apply filter_pairs_In in X3.
      exact (fits_content off t c (fits_alias off p t (fits_content off n p Hn X1) X2) X3).
  Qed.

  Lemma fits_mapping off n k v : fits off n -> In (k, v) (mapping_nodes n) -> fits off k /\ fits off v.
  Proof.
    intros Hn H. unfold mapping_nodes in H. destruct (mapping_nodes_l_In _ _ _ H) as [A B].
    split; [exact (fits_content off n k Hn A)|exact (fits_content off n v Hn B)].
  Qed.

  Definition ynode_ok (y : ynode) : Prop := good (y_first y) /\ good (y_last y) /\ y_first y <= y_last y.
  Definition ymap_ok (m : ymap) : Prop :=
    ynode_ok (ym_key m) /\ forall k v, In (k, v) (ym_items m) -> ynode_ok k /\ ynode_ok v.

  Definition body_ok (r : rule) : Prop :=
    good (r_first r) /\ good (r_last r) /\ r_first r <= r_last r /\
    match r_body r with
    | NoBody => True
    | Alerting a e f k l n =>
        ynode_ok a /\ ynode_ok e /\
        (forall y, f = Some y -> ynode_ok y) /\ (forall y, k = Some y -> ynode_ok y) /\
        (forall m, l = Some m -> ymap_ok m) /\ (forall m, n = Some m -> ymap_ok m)
    | Recording n e l => ynode_ok n /\ ynode_ok e /\ (forall m, l = Some m -> ymap_ok m)
    end.

  (** What C02 needs of a rule: an error rule reports its error line (Rule.Lines of an error rule is never
      reported), a complete rule its line range and field extents; the empty result of parseRule is no rule. *)
  Definition rule_lines_ok (r : rule) : Prop :=
    match r_error r with
    | Some pe => good (pe_line pe)
    | None => match r_body r with NoBody => True | _ => body_ok r end
    end.

  Definition group_ok (g : group) : Prop :=
    (forall pe, g_error g = Some pe -> good (pe_line pe)) /\
    (forall m, g_labels g = Some m -> ymap_ok m) /\
    (forall r, In r (g_rules g) -> rule_lines_ok r).

  Definition groups_ok (gs : list group) : Prop := forall g, In g gs -> group_ok g.

  Definition file_ok (f : file) : Prop :=
    (forall pe, f_error f = Some pe -> good (pe_line pe)) /\ groups_ok (f_groups f).

  Lemma groups_ok_nil : groups_ok [].
  Proof. intros g []. Qed.
  Lemma groups_ok_app a b : groups_ok a -> groups_ok b -> groups_ok (a ++ b).
  Proof. intros Ha Hb g Hg. apply in_app_or in Hg. destruct Hg; auto. Qed.

  Lemma err_rule_ok a b line msg : good line -> rule_lines_ok (err_rule a b line msg).
  Proof. intros H. exact H. Qed.

  Lemma mk_err_ok a b pe : good (pe_line pe) -> rule_lines_ok (mk_err a b pe).
  Proof. intros H. exact H. Qed.

  Lemma ymap_lines_ok m : ymap_ok m -> good (fst (ymap_lines m)) /\ good (snd (ymap_lines m)).
  Proof.
    intros [Hk Hi]. unfold ymap_lines.
    assert (G : forall items f l, good f -> good l ->
                (forall k v, In (k, v) items -> ynode_ok k /\ ynode_ok v) ->
                good (fst (fold_left (fun '(f, l) '(k, v) => (Nat.min f (y_first k), Nat.max l (y_last v))) items (f, l))) /\
                good (snd (fold_left (fun '(f, l) '(k, v) => (Nat.min f (y_first k), Nat.max l (y_last v))) items (f, l)))).
    { induction items as [|[k v] r IH]; intros f l Hf Hl H; cbn [fold_left fst snd]; [auto|].
      destruct (H k v (or_introl eq_refl)) as [(A & _ & _) (_ & B & _)].
      apply IH; [unfold good in *; lia|unfold good in *; lia|]. intros k0 v0 H0. apply H. right. exact H0. }
    destruct Hk as (A & B & _). exact (G _ _ _ A B Hi).
  Qed.

  Section Ctx.
    Variable lines : list string.
    Variable off : nat.
    Hypothesis Hlen : elen lines + off <= T.

    Lemma nyn_ok n mc : fits off n -> 1 <= mc -> ynode_ok (new_yaml_node plines lines off n mc).
    Proof.
      intros H Hmc. destruct (fits_line off n H) as (H1 & H2 & H3).
      destruct (plines_ok lines n mc H1 H2 Hmc) as (A & B & C).
      unfold new_yaml_node, ynode_ok, good. destruct (plines lines n mc) as [f l]. cbn [fst snd y_first y_last] in *. lia.
    Qed.

    Lemma items_ok kc : forall content,
      (forall c, In c content -> fits off c) ->
      forall k v, In (k, v) (yaml_map_items plines lines off kc content) -> ynode_ok k /\ ynode_ok v.
    Proof.
      fix IH 1. intros [|a [|b r]] H k v Hin; cbn [yaml_map_items] in Hin; try destruct Hin.
      - inversion H0; subst. split; apply nyn_ok; try lia; apply H; [left|right; left]; reflexivity.
      - apply (IH r); [|exact H0]. intros c Hc. apply H. right. right. exact Hc.
    Qed.

    Lemma nym_ok k v : fits off k -> fits off v -> ymap_ok (new_yaml_map plines lines off k v).
    Proof.
      intros Hk Hv. split; [apply nyn_ok; [exact Hk|lia]|]. cbn [new_yaml_map ym_items].
      apply items_ok. intros c Hc. exact (fits_content off v c Hv Hc).
    Qed.

    (** ---- parseRule ---- *)
    Definition slots_ok (s : slots) : Prop :=
      (forall f x y, get_sc f s = Some (x, y) -> fits off x /\ ynode_ok y) /\
      (forall x m, s_labels s = Some (x, m) -> fits off x /\ ymap_ok m) /\
      (forall x m, s_ann s = Some (x, m) -> fits off x /\ ymap_ok m) /\
      (forall u, In u (s_unknown s) -> fits off u).

    Definition fresh (s : slots) : Prop :=
      s_first s = 0 /\ s_last s = 0 /\ s_record s = None /\ s_alert s = None /\ s_expr s = None.
    Definition started (s : slots) : Prop := good (s_first s) /\ good (s_last s) /\ s_first s <= s_last s.

    Lemma get_sc_set_lines f s a b : get_sc f (set_lines s a b) = get_sc f s.
    Proof. destruct f; reflexivity. Qed.

    Lemma slots_ok_lines s a b : slots_ok s -> slots_ok (set_lines s a b).
    Proof.
      intros (A & B & C & D). split; [|split; [|split]].
      - intros f x y E. rewrite get_sc_set_lines in E. exact (A f x y E).
      - exact B.
      - exact C.
      - exact D.
    Qed.

    Lemma get_sc_set_sc f' f v s x y :
      get_sc f' (set_sc f v s) = Some (x, y) -> v = (x, y) \/ get_sc f' s = Some (x, y).
    Proof.
      destruct f, f'; cbn [get_sc set_sc s_record s_alert s_expr s_for s_keep]; intros H;
        first [right; exact H | left; inversion H; reflexivity].
    Qed.

    Lemma slots_ok_set_sc f s x y : slots_ok s -> fits off x -> ynode_ok y -> slots_ok (set_sc f (x, y) s).
    Proof.
      intros (A & B & C & D) Hx Hy. split; [|split; [|split]].
      - intros f' x0 y0 E. destruct (get_sc_set_sc _ _ _ _ _ _ E) as [X|X]; [inversion X; subst; split; assumption|exact (A _ _ _ X)].
      - exact B.
      - exact C.
      - exact D.
    Qed.

    Lemma get_sc_set_map f' f v s : get_sc f' (set_map f v s) = get_sc f' s.
    Proof. destruct f'; reflexivity. Qed.

    Lemma slots_ok_set_map f s x m :
      f = FLabels \/ f = FAnn -> slots_ok s -> fits off x -> ymap_ok m -> slots_ok (set_map f (x, m) s).
    Proof.
      intros Hf (A & B & C & D) Hx Hm. split; [|split; [|split]].
      - intros f' x0 y0 E. rewrite get_sc_set_map in E. exact (A _ _ _ E).
      - intros x0 m0 E. destruct Hf as [->| ->]; cbn [set_map s_labels] in E; [inversion E; subst; split; assumption|exact (B _ _ E)].
      - intros x0 m0 E. destruct Hf as [->| ->]; cbn [set_map s_ann] in E; [exact (C _ _ E)|inversion E; subst; split; assumption].
      - exact D.
    Qed.

    Lemma get_sc_add_unknown f' k s : get_sc f' (add_unknown k s) = get_sc f' s.
    Proof. destruct f'; reflexivity. Qed.

    Lemma slots_ok_add_unknown k s : slots_ok s -> fits off k -> slots_ok (add_unknown k s).
    Proof.
      intros (A & B & C & D) Hk. split; [|split; [|split]].
      - intros f' x0 y0 E. rewrite get_sc_add_unknown in E. exact (A _ _ _ E).
      - exact B.
      - exact C.
      - intros u Hu. cbn [add_unknown s_unknown] in Hu. apply in_app_or in Hu. destruct Hu as [Hu|[<-|[]]]; [exact (D u Hu)|exact Hk].
    Qed.

    Lemma started_step s pl :
      good pl -> fresh s \/ started s ->
      started (set_lines s (if ((s_first s =? 0)%nat || (pl <? s_first s)%nat)%bool then pl else s_first s) (Nat.max (s_last s) pl)).
    Proof.
      intros [P1 P2] [(F1 & F2 & _)|((A1 & A2) & (B1 & B2) & C)]; unfold started, good; cbn [set_lines s_first s_last].
      - rewrite F1, F2. cbn. lia.
      - destruct (s_first s =? 0)%nat eqn:E0; [apply Nat.eqb_eq in E0; lia|]. cbn [orb].
        destruct (pl <? s_first s)%nat eqn:E1; [apply Nat.ltb_lt in E1|apply Nat.ltb_ge in E1]; lia.
    Qed.

    Lemma started_more s a x : started (set_lines s a (s_last s)) -> good x -> started (set_lines s a (Nat.max (s_last s) x)).
    Proof.
      unfold started, good. cbn [set_lines s_first s_last]. intros ((A1 & A2) & (B1 & B2) & C) [X1 X2]. lia.
    Qed.

    Definition loop_post (parts : list node) (res : rule + slots) : Prop :=
      match res with
      | inl r => rule_lines_ok r
      | inr s' => slots_ok s' /\ (fresh s' \/ started s') /\ (parts <> [] -> started s')
      end.

    Lemma rule_loop_ok : forall parts key s,
      (forall p, In p parts -> fits off p) ->
      (forall k, key = Some k -> fits off k) ->
      slots_ok s -> (fresh s \/ started s) ->
      loop_post parts (rule_loop plines lines off parts key s).
    Proof.
      induction parts as [|part rest IH]; intros key s Hparts Hkey Hs Hst; cbn [rule_loop].
      - split; [exact Hs|]. split; [exact Hst|]. intros X. congruence.
      - pose proof (Hparts part (or_introl eq_refl)) as Hp. destruct (fits_good off part Hp) as [Gp _].
        set (first := if ((s_first s =? 0)%nat || (n_line part + off <? s_first s)%nat)%bool then n_line part + off else s_first s).
        set (last := Nat.max (s_last s) (n_line part + off)).
        pose proof (started_step s (n_line part + off) Gp Hst) as Hst1. fold first last in Hst1.
        pose proof (slots_ok_lines s first last Hs) as Hs1.
        assert (Hrest : forall p, In p rest -> fits off p) by (intros p Hin; apply Hparts; right; exact Hin).
        (* continuing with started slots gives the post-condition of the longer list *)
        assert (Hfin : forall key' s', (forall k, key' = Some k -> fits off k) -> slots_ok s' -> started s' ->
                  loop_post (part :: rest) (rule_loop plines lines off rest key' s')).
        { intros key' s' Hk' Hs' Hst'. specialize (IH key' s' Hrest Hk' Hs' (or_intror Hst')).
          unfold loop_post in *.
          destruct (rule_loop plines lines off rest key' s') as [r|s''] eqn:RL; [exact IH|].
          destruct IH as (A & B & C). split; [exact A|]. split; [exact B|]. intros _.
          destruct rest as [|x r0]; [|apply C; discriminate].
          cbn [rule_loop] in RL. inversion RL; subst. exact Hst'. }
        destruct key as [k|].
        + pose proof (Hkey k eq_refl) as Hk.
          assert (Hsc : forall f, f <> FLabels -> f <> FAnn -> f <> FUnknown ->
                    loop_post (part :: rest)
                      (match get_sc f (set_lines s first last) with
                       | Some _ => inl (err_rule first last (n_line part + off) ("duplicated " ++ field_name f ++ " key"))
                       | None =>
                           rule_loop plines lines off rest None
                             (set_lines (set_sc f (part, new_yaml_node plines lines off part 1) (set_lines s first last))
                                        first (Nat.max last (y_last (new_yaml_node plines lines off part 1))))
                       end)).
          { intros f _ _ _. destruct (get_sc f (set_lines s first last)) as [old|]; [exact Gp|].
            assert (Hy : ynode_ok (new_yaml_node plines lines off part 1)) by (apply nyn_ok; [exact Hp|apply le_n]).
            apply Hfin; [intros ? X; discriminate| |].
            - apply slots_ok_lines. apply slots_ok_set_sc; [exact Hs1|exact Hp|exact Hy].
            - destruct Hy as (_ & Gl & _).
              exact (started_more (set_sc f _ (set_lines s first last)) first _ Hst1 Gl). }
          assert (Hmp : forall f, f = FLabels \/ f = FAnn ->
                    loop_post (part :: rest)
                      (match (match f with FLabels => s_labels (set_lines s first last) | _ => s_ann (set_lines s first last) end) with
                       | Some _ => inl (err_rule first last (n_line part + off) ("duplicated " ++ field_name f ++ " key"))
                       | None =>
                           rule_loop plines lines off rest None
                             (set_lines (set_map f (part, new_yaml_map plines lines off k part) (set_lines s first last))
                                        first (Nat.max last (snd (ymap_lines (new_yaml_map plines lines off k part)))))
                       end)).
          { intros f Hf.
            destruct (match f with FLabels => s_labels (set_lines s first last) | _ => s_ann (set_lines s first last) end) as [old|];
              [exact Gp|].
            pose proof (nym_ok k part Hk Hp) as Hm.
            apply Hfin; [intros ? X; discriminate| |].
            - apply slots_ok_lines. apply slots_ok_set_map; [exact Hf|exact Hs1|exact Hp|exact Hm].
            - destruct (ymap_lines_ok _ Hm) as [_ Gl].
              exact (started_more (set_map f _ (set_lines s first last)) first _ Hst1 Gl). }
          destruct (field_of (node_value k)) eqn:Fk.
          * apply Hsc; discriminate.
          * apply Hsc; discriminate.
          * apply Hsc; discriminate.
          * apply Hsc; discriminate.
          * apply Hsc; discriminate.
          * apply (Hmp FLabels). left. reflexivity.
          * apply (Hmp FAnn). right. reflexivity.
          * apply Hfin; [intros ? X; discriminate| |exact Hst1].
            apply slots_ok_add_unknown; [exact Hs1|exact Hk].
        + apply Hfin; [intros k0 E0; inversion E0; subst; exact Hp|exact Hs1|exact Hst1].
    Qed.

    (** ---- the validations of parseRule ---- *)
    Lemma first_bad_tag_In want kd : forall l k p, first_bad_tag want kd l = Some (k, p) -> exists k', In (k', Some p) l.
    Proof.
      induction l as [|[k0 [n0|]] r IH]; intros k p H; cbn [first_bad_tag] in H; [discriminate| |].
      - destruct (negb (is_tag (n_tag n0) want) || kind_mismatch n0 kd)%bool.
        + inversion H; subst. exists k. left. reflexivity.
        + destruct (IH _ _ H) as [k' X]. exists k'. right. exact X.
      - destruct (IH _ _ H) as [k' X]. exists k'. right. exact X.
    Qed.

    Lemma first_null_text_In : forall l k p, first_null_text l = Some (k, p) -> exists k', In (k', Some p) l.
    Proof.
      induction l as [|[k0 [n0|]] r IH]; intros k p H; cbn [first_null_text] in H; [discriminate| |].
      - destruct ((n_tag n0 =? nullTag) && negb (n_value n0 =? ""))%bool.
        + inversion H; subst. exists k. left. reflexivity.
        + destruct (IH _ _ H) as [k' X]. exists k'. right. exact X.
      - destruct (IH _ _ H) as [k' X]. exists k'. right. exact X.
    Qed.

    Lemma onode_Some {A} (o : option (node * A)) p : onode o = Some p -> exists a, o = Some (p, a).
    Proof. destruct o as [[x a]|]; cbn; intros H; [inversion H; subst; exists a; reflexivity|discriminate]. Qed.

    Lemma vsm_ok fld all lns : forall l seen pe lr,
      (forall k v, In (k, v) l -> fits off k /\ fits off v) ->
      validate_string_map_loop fld all off lns seen l = Some (pe, lr) -> good (pe_line pe).
    Proof.
      induction l as [|[k v] r IH]; intros seen pe lr Hl H; cbn [validate_string_map_loop] in H; [discriminate|].
      destruct (Hl k v (or_introl eq_refl)) as [Hk Hv].
      destruct (negb (is_tag (n_tag v) strTag) || kind_mismatch v KScalar)%bool.
      - inversion H; subst. cbn [pe_line]. exact (proj1 (fits_good off v Hv)).
      - destruct (mem_str (node_value k) seen).
        + inversion H; subst. cbn [pe_line]. exact (proj1 (fits_good off k Hk)).
        + eapply IH; [|exact H]. intros k0 v0 H0. apply Hl. right. exact H0.
    Qed.

    Lemma erk_ok key kv ex pe :
      (forall x y, kv = Some (x, y) -> ynode_ok y) -> (forall x y, ex = Some (x, y) -> ynode_ok y) ->
      ensure_required_keys key kv ex = Some pe -> good (pe_line pe).
    Proof.
      intros Hkv Hex H. unfold ensure_required_keys in H. destruct kv as [[x y]|]; [|discriminate].
      destruct (Hkv x y eq_refl) as (_ & Gy & _).
      destruct (negb (has_value y)); [inversion H; subst; exact Gy|].
      destruct ex as [[m e]|]; [|inversion H; subst; exact Gy].
      destruct (Hex m e eq_refl) as (_ & Ge & _).
      destruct (negb (has_value e)); [inversion H; subst; exact Ge|discriminate].
    Qed.

    Lemma bad_label_ok : forall items pe,
      (forall k v, In (k, v) items -> ynode_ok k /\ ynode_ok v) ->
      bad_label lname_ok lvalue_ok items = Some pe -> good (pe_line pe).
    Proof.
      induction items as [|[k v] r IH]; intros pe Hi H; cbn [bad_label] in H; [discriminate|].
      destruct (Hi k v (or_introl eq_refl)) as [(Gk & _ & _) _].
      destruct (negb (lname_ok (y_value k)) || (y_value k =? "__name__"))%bool; [inversion H; subst; exact Gk|].
      destruct (negb (lvalue_ok (y_value v))); [inversion H; subst; exact Gk|].
      apply IH; [|exact H]. intros k0 v0 H0. apply Hi. right. exact H0.
    Qed.

    Lemma bad_annotation_ok : forall items pe,
      (forall k v, In (k, v) items -> ynode_ok k /\ ynode_ok v) ->
      bad_annotation lname_ok items = Some pe -> good (pe_line pe).
    Proof.
      induction items as [|[k v] r IH]; intros pe Hi H; cbn [bad_annotation] in H; [discriminate|].
      destruct (Hi k v (or_introl eq_refl)) as [(Gk & _ & _) _].
      destruct (negb (lname_ok (y_value k))); [inversion H; subst; exact Gk|].
      apply IH; [|exact H]. intros k0 v0 H0. apply Hi. right. exact H0.
    Qed.

    Ltac brk H :=
      repeat match type of H with
             | match ?x with _ => _ end = _ => let E := fresh "E" in destruct x eqn:E; try discriminate H
             end.

    Lemma rule_checks_ok n s : fits off n -> slots_ok s ->
      forall o, In o (rule_checks metric_ok lname_ok lvalue_ok off n s) -> forall pe fl, o = Some (pe, fl) -> good (pe_line pe).
    Proof.
      intros Hn (A & B & C & D) o Hin pe fl ->.
      pose proof (A FRecord) as ARec. pose proof (A FAlert) as AAl. pose proof (A FExpr) as AEx.
      pose proof (A FFor) as AFor. pose proof (A FKeep) as AKeep. cbn [get_sc] in ARec, AAl, AEx, AFor, AKeep.
      assert (Hsc : forall k p, In (k, Some p) [("record", onode (s_record s)); ("alert", onode (s_alert s)); ("expr", onode (s_expr s));
                                               ("for", onode (s_for s)); ("keep_firing_for", onode (s_keep s))] -> fits off p).
      { intros k p H. cbn [In] in H.
        destruct H as [H|[H|[H|[H|[H|[]]]]]]; inversion H as [[H1 H2]]; destruct (onode_Some _ _ H2) as [a X].
        - exact (proj1 (ARec _ _ X)). - exact (proj1 (AAl _ _ X)). - exact (proj1 (AEx _ _ X)).
        - exact (proj1 (AFor _ _ X)). - exact (proj1 (AKeep _ _ X)). }
      assert (Hmp : forall k p, In (k, Some p) [("labels", onode (s_labels s)); ("annotations", onode (s_ann s))] -> fits off p).
      { intros k p H. cbn [In] in H.
        destruct H as [H|[H|[]]]; inversion H as [[H1 H2]]; destruct (onode_Some _ _ H2) as [a X].
        - exact (proj1 (B _ _ X)). - exact (proj1 (C _ _ X)). }
      unfold rule_checks in Hin. cbv beta zeta in Hin. cbn [In] in Hin.
      destruct Hin as [H|[H|[H|[H|[H|[H|[H|[H|[H|[H|[H|[H|[H|[H|[H|[H|[H|[]]]]]]]]]]]]]]]]]].
      - (* both record and alert *)
        brk H. inversion H; subst. cbn [pe_line]. exact (proj1 (fits_good off n Hn)).
      - (* expr only *)
        brk H. inversion H; subst. cbn [pe_line]. subst. exact (proj1 (proj2 (proj2 (AEx _ _ eq_refl)))).
      - brk H. inversion H; subst. cbn [pe_line]. subst. exact (proj1 (proj2 (AFor _ _ eq_refl))).
      - brk H. inversion H; subst. cbn [pe_line]. subst. exact (proj1 (proj2 (AKeep _ _ eq_refl))).
      - brk H. inversion H; subst. cbn [pe_line]. subst. exact (proj1 (ymap_lines_ok _ (proj2 (C _ _ eq_refl)))).
      - destruct (first_bad_tag strTag KScalar _) as [[k p]|] eqn:E; [|discriminate]. inversion H; subst. cbn [pe_line].
        destruct (first_bad_tag_In _ _ _ _ _ E) as [k' X]. exact (proj1 (fits_good off p (Hsc _ _ X))).
      - destruct (first_null_text _) as [[k p]|] eqn:E; [|discriminate]. inversion H; subst. cbn [pe_line].
        destruct (first_null_text_In _ _ _ E) as [k' X].
        apply (fun Y => proj1 (fits_good off p (Hsc k' p Y))). cbn [In] in X |- *. tauto.
      - destruct (first_bad_tag mapTag KMapping _) as [[k p]|] eqn:E; [|discriminate]. inversion H; subst. cbn [pe_line].
        destruct (first_bad_tag_In _ _ _ _ _ E) as [k' X]. exact (proj1 (fits_good off p (Hmp _ _ X))).
      - unfold validate_string_map in H. eapply vsm_ok; [|exact H].
        intros k v Hkv. destruct (s_labels s) as [[p m]|] eqn:E; [|destruct Hkv].
        exact (fits_mapping off p k v (proj1 (B _ _ eq_refl)) Hkv).
      - unfold validate_string_map in H. eapply vsm_ok; [|exact H].
        intros k v Hkv. destruct (s_ann s) as [[p m]|] eqn:E; [|destruct Hkv].
        exact (fits_mapping off p k v (proj1 (C _ _ eq_refl)) Hkv).
      - destruct (ensure_required_keys "record" (s_record s) (s_expr s)) as [pe0|] eqn:E; [|discriminate].
        inversion H; subst. eapply erk_ok; [| |exact E]; intros x y X; [exact (proj2 (ARec _ _ X))|exact (proj2 (AEx _ _ X))].
      - destruct (ensure_required_keys "alert" (s_alert s) (s_expr s)) as [pe0|] eqn:E; [|discriminate].
        inversion H; subst. eapply erk_ok; [| |exact E]; intros x y X; [exact (proj2 (AAl _ _ X))|exact (proj2 (AEx _ _ X))].
      - brk H. inversion H; subst. cbn [pe_line]. apply (fun Y => proj1 (fits_good off _ (D _ Y))). left. reflexivity.
      - brk H. inversion H; subst. cbn [pe_line]. subst. exact (proj1 (proj2 (ARec _ _ eq_refl))).
      - brk H. inversion H; subst. cbn [pe_line]. subst. exact (proj1 (proj2 (ARec _ _ eq_refl))).
      - brk H. destruct (bad_label lname_ok lvalue_ok (ym_items y)) as [pe0|] eqn:Eb; [|discriminate]. inversion H; subst.
        eapply bad_label_ok; [|exact Eb]. exact (proj2 (proj2 (B _ _ eq_refl))).
      - brk H. destruct (bad_annotation lname_ok (ym_items y)) as [pe0|] eqn:Eb; [|discriminate]. inversion H; subst.
        eapply bad_annotation_ok; [|exact Eb]. exact (proj2 (proj2 (C _ _ eq_refl))).
    Qed.

    Lemma slots0_ok : slots_ok slots0.
    Proof.
      split; [|split; [|split]].
      - intros f x y E. destruct f; discriminate E.
      - intros x m E. discriminate E.
      - intros x m E. discriminate E.
      - intros u [].
    Qed.

    Lemma rule_final_ok s : slots_ok s -> fresh s \/ started s -> rule_lines_ok (fst (rule_final s)).
    Proof.
      intros (A & B & C & D) Hst.
      pose proof (A FRecord) as ARec. pose proof (A FAlert) as AAl. pose proof (A FExpr) as AEx.
      pose proof (A FFor) as AFor. pose proof (A FKeep) as AKeep. cbn [get_sc] in ARec, AAl, AEx, AFor, AKeep.
      assert (Hov : forall (o : option (node * ynode)) y,
                 (forall x y0, o = Some (x, y0) -> fits off x /\ ynode_ok y0) -> oval o = Some y -> ynode_ok y).
      { intros [[x y0]|] y Ho E; cbn in E; [inversion E; subst; exact (proj2 (Ho _ _ eq_refl))|discriminate]. }
      assert (Hom : forall (o : option (node * ymap)) m,
                 (forall x m0, o = Some (x, m0) -> fits off x /\ ymap_ok m0) -> oval o = Some m -> ymap_ok m).
      { intros [[x m0]|] m Ho E; cbn in E; [inversion E; subst; exact (proj2 (Ho _ _ eq_refl))|discriminate]. }
      unfold rule_final.
      destruct (s_record s) as [[rn ry]|] eqn:R.
      - destruct (s_expr s) as [[en ey]|] eqn:X; [|exact I].
        destruct Hst as [(_ & _ & F & _)|(S1 & S2 & S3)]; [congruence|].
        unfold rule_lines_ok, body_ok. cbn [fst r_error r_body r_first r_last].
        split; [exact S1|]. split; [exact S2|]. split; [exact S3|].
        split; [exact (proj2 (ARec _ _ eq_refl))|]. split; [exact (proj2 (AEx _ _ eq_refl))|].
        intros m E; exact (Hom _ _ B E).
      - destruct (s_alert s) as [[an ay]|] eqn:Al; [|exact I].
        destruct (s_expr s) as [[en ey]|] eqn:X; [|exact I].
        destruct Hst as [(_ & _ & _ & F & _)|(S1 & S2 & S3)]; [congruence|].
        unfold rule_lines_ok, body_ok. cbn [fst r_error r_body r_first r_last].
        split; [exact S1|]. split; [exact S2|]. split; [exact S3|].
        split; [exact (proj2 (AAl _ _ eq_refl))|]. split; [exact (proj2 (AEx _ _ eq_refl))|].
        split; [intros y E; exact (Hov _ _ AFor E)|]. split; [intros y E; exact (Hov _ _ AKeep E)|].
        split; [intros m E; exact (Hom _ _ B E)|intros m E; exact (Hom _ _ C E)].
    Qed.

    (** parseRule: whatever it returns (error rule, complete rule, or the "not a rule" answer) is fine. *)
    Lemma parse_rule_ok n : fits off n -> rule_lines_ok (fst (parse_rule plines metric_ok lname_ok lvalue_ok lines off n)).
    Proof.
      intros Hn. unfold parse_rule.
      assert (L' : loop_post (unpack_nodes n) (rule_loop plines lines off (unpack_nodes n) None slots0)).
      { apply rule_loop_ok.
        - intros p Hp. exact (fits_unpack off n p Hn Hp).
        - intros k E. discriminate E.
        - exact slots0_ok.
        - left. repeat split. }
      unfold loop_post in L'.
      destruct (rule_loop plines lines off (unpack_nodes n) None slots0) as [r|s]; [exact L'|].
      destruct L' as (Hs & Hst & _).
      destruct (first_some (rule_checks metric_ok lname_ok lvalue_ok off n s)) as [[pe [f l]]|] eqn:FS.
      - cbn [fst]. apply mk_err_ok. exact (rule_checks_ok n s Hn Hs _ (first_some_In _ _ FS) pe (f, l) eq_refl).
      - exact (rule_final_ok s Hs Hst).
    Qed.
  End Ctx.

  (** ---- strict mode (offset 0) ---- *)
  Lemma bad_rule_key_In : forall parts k, bad_rule_key parts = Some k -> In k parts.
  Proof.
    fix IH 1. intros [|k0 [|v r]] k H; cbn [bad_rule_key] in H; [discriminate| |].
    - destruct (field_of (node_value k0)); try discriminate H. inversion H; subst. left. reflexivity.
    - destruct (field_of (node_value k0)); try (right; right; exact (IH r k H)). inversion H; subst. left. reflexivity.
  Qed.

  Lemma gerr_ok g line msg : group_ok g -> good line -> group_ok (gerr g line msg).
  Proof.
    intros (A & B & C) G. split; [|split].
    - intros pe E. cbn [gerr g_error] in E. inversion E; subst. exact G.
    - exact B.
    - exact C.
  Qed.

  Lemma g_set_name_ok g nm : group_ok g -> group_ok (g_set_name g nm).
  Proof. intros (A & B & C). split; [exact A|split; [exact B|exact C]]. Qed.

  Lemma g_set_labels_ok g m : group_ok g -> ymap_ok m -> group_ok (g_set_labels g m).
  Proof.
    intros (A & B & C) Hm. split; [exact A|split; [|exact C]].
    intros m0 E. cbn [g_set_labels g_labels] in E. inversion E; subst. exact Hm.
  Qed.

  Lemma g_add_rules_ok g rs : group_ok g -> (forall r, In r rs -> rule_lines_ok r) -> group_ok (g_add_rules g rs).
  Proof.
    intros (A & B & C) Hr. split; [exact A|split; [exact B|]].
    intros r Hin. cbn [g_add_rules g_rules] in Hin. apply in_app_or in Hin. destruct Hin as [X|X]; [exact (C r X)|exact (Hr r X)].
  Qed.

  Lemma empty_group_ok : group_ok empty_group.
  Proof. split; [|split]; [intros pe E; discriminate E|intros m E; discriminate E|intros r []]. Qed.

  Lemma bad_group_label_ok : forall l pe,
    (forall k v, In (k, v) l -> fits 0 k /\ fits 0 v) -> bad_group_label lname_ok lvalue_ok l = Some pe -> good (pe_line pe).
  Proof.
    induction l as [|[k v] r IH]; intros pe Hl H; cbn [bad_group_label] in H; [discriminate|].
    destruct (Hl k v (or_introl eq_refl)) as [Hk _]. pose proof (proj2 (fits_good 0 k Hk)) as Gk.
    destruct (negb (lname_ok (node_value k)) || (node_value k =? "__name__"))%bool; [inversion H; subst; exact Gk|].
    destruct (negb (lvalue_ok (node_value v))); [inversion H; subst; exact Gk|].
    apply IH; [|exact H]. intros k0 v0 H0. apply Hl. right. exact H0.
  Qed.

  Section Strict.
    Variable thanos : bool.
    Variable lines : list string.
    Hypothesis Hlen : elen lines <= T.

    Lemma Hlen0 : elen lines + 0 <= T.
    Proof. lia. Qed.

    Notation PRS := (parse_rule_strict plines metric_ok lname_ok lvalue_ok lines).
    Notation GE := (group_entry plines metric_ok lname_ok lvalue_ok dur_ok int_ok thanos lines).
    Notation GL := (group_loop plines metric_ok lname_ok lvalue_ok dur_ok int_ok thanos lines).
    Notation PG := (parse_group plines metric_ok lname_ok lvalue_ok dur_ok int_ok thanos lines).

    Lemma parse_rule_strict_ok n : fits 0 n -> rule_lines_ok (PRS n).
    Proof.
      intros Hn. pose proof (proj2 (fits_good 0 n Hn)) as Gn. unfold parse_rule_strict.
      destruct (negb (is_tag (n_tag n) mapTag) || kind_mismatch n KMapping)%bool; [apply err_rule_ok; exact Gn|].
      destruct (bad_rule_key (unpack_nodes n)) as [k|] eqn:B.
      - apply err_rule_ok. exact (proj2 (fits_good 0 k (fits_unpack 0 n k Hn (bad_rule_key_In _ _ B)))).
      - pose proof (parse_rule_ok lines 0 Hlen0 n Hn) as P.
        destruct (parse_rule plines metric_ok lname_ok lvalue_ok lines 0 n) as [r e]. cbn [fst] in P.
        destruct e; [apply err_rule_ok; exact Gn|exact P].
    Qed.

    Lemma group_entry_ok g k v g1 :
      fits 0 k -> fits 0 v -> group_ok g -> GE g k v = inl g1 \/ GE g k v = inr g1 -> group_ok g1.
    Proof.
      intros Hk Hv Hg H. pose proof (proj2 (fits_good 0 k Hk)) as Gk. unfold group_entry in H.
      assert (Hv' : fits 0 (match n_alias v with Some t => t | None => v end)).
      { destruct (n_alias v) as [t|] eqn:Ea; [exact (fits_alias 0 v t Hv Ea)|exact Hv]. }
      set (v' := match n_alias v with Some t => t | None => v end) in *.
      repeat match type of H with
             | context [match validate_string_map ?a ?b ?c ?d with _ => _ end] =>
                 destruct (validate_string_map a b c d) as [[pe0 lr0]|] eqn:V
             | context [match bad_group_label _ _ ?l with _ => _ end] =>
                 destruct (bad_group_label lname_ok lvalue_ok l) as [pe1|] eqn:BG
             | context [if ?b then _ else _] => destruct b
             end;
        destruct H as [H|H]; try discriminate H; inversion H; subst; clear H;
        try exact Hg; try (apply gerr_ok; [exact Hg|exact Gk]).
      all: first
        [ apply g_add_rules_ok; [exact Hg|]; intros r Hr; apply in_map_iff in Hr; destruct Hr as (c & <- & Hc);
          apply parse_rule_strict_ok; exact (fits_unpack 0 v c Hv Hc)
        | apply g_set_labels_ok; [exact Hg|]; exact (nym_ok lines 0 Hlen0 k v' Hk Hv')
        | apply gerr_ok; [exact Hg|]; unfold validate_string_map in V; eapply vsm_ok; [|exact V];
          intros k0 v0 H0; exact (fits_mapping 0 v' k0 v0 Hv' H0)
        | apply gerr_ok; [exact Hg|]; eapply bad_group_label_ok; [|exact BG];
          intros k0 v0 H0; exact (fits_mapping 0 v' k0 v0 Hv' H0) ].
    Qed.

    Lemma group_loop_ok im nl : good nl -> forall l g sk,
      (forall k v, In (k, v) l -> fits 0 k /\ fits 0 v) -> group_ok g -> group_ok (GL im nl g sk l).
    Proof.
      intros Gnl. induction l as [|[k v] r IH]; intros g sk Hl Hg; cbn [group_loop].
      - destruct (_ && _)%bool; [apply gerr_ok; assumption|exact Hg].
      - destruct (Hl k v (or_introl eq_refl)) as [Hk Hv].
        destruct (GE g k v) as [g1|g1] eqn:E.
        + exact (group_entry_ok g k v g1 Hk Hv Hg (or_introl E)).
        + pose proof (group_entry_ok g k v g1 Hk Hv Hg (or_intror E)) as H1.
          destruct (mem_str (node_value k) sk).
          * apply gerr_ok; [exact H1|exact (proj2 (fits_good 0 k Hk))].
          * apply IH; [|exact H1]. intros k0 v0 H0. apply Hl. right. exact H0.
    Qed.

    Lemma parse_group_ok n : fits 0 n -> group_ok (PG n).
    Proof.
      intros Hn. pose proof (proj2 (fits_good 0 n Hn)) as Gn. unfold parse_group.
      destruct (negb (is_tag (n_tag n) mapTag) || kind_mismatch n KMapping)%bool; [apply gerr_ok; [exact empty_group_ok|exact Gn]|].
      apply group_loop_ok; [exact Gn| |exact empty_group_ok].
      intros k v H. exact (fits_mapping 0 n k v Hn H).
    Qed.

    Definition res_ok (r : perror + (list string * list group)) : Prop :=
      match r with inl e => good (pe_line e) | inr (_, gs) => groups_ok gs end.

    Lemma groups_of_seq_ok : forall items names acc,
      (forall c, In c items -> fits 0 c) -> groups_ok acc ->
      res_ok (groups_of_seq plines metric_ok lname_ok lvalue_ok dur_ok int_ok thanos lines items names acc).
    Proof.
      induction items as [|c r IH]; intros names acc Hi Ha; cbn [groups_of_seq]; [exact Ha|].
      pose proof (Hi c (or_introl eq_refl)) as Hc.
      destruct (mem_str _ names); [exact (proj2 (fits_good 0 c Hc))|].
      apply IH; [intros c0 H0; apply Hi; right; exact H0|].
      apply groups_ok_app; [exact Ha|]. intros g [<-|[]]. exact (parse_group_ok c Hc).
    Qed.

    Lemma groups_of_entries_ok : forall l hg names acc,
      (forall k v, In (k, v) l -> fits 0 k /\ fits 0 v) -> groups_ok acc ->
      res_ok (groups_of_entries plines metric_ok lname_ok lvalue_ok dur_ok int_ok thanos lines l hg names acc).
    Proof.
      induction l as [|[k v] r IH]; intros hg names acc Hl Ha; cbn [groups_of_entries]; [exact Ha|].
      destruct (Hl k v (or_introl eq_refl)) as [Hk Hv]. pose proof (proj2 (fits_good 0 k Hk)) as Gk.
      destruct (negb (n_tag k =? strTag)); [exact Gk|].
      destruct (negb (node_value k =? "groups")); [exact Gk|].
      destruct hg; [exact Gk|].
      destruct (negb (is_tag (n_tag v) seqTag) || kind_mismatch v KSequence)%bool; [exact Gk|].
      pose proof (groups_of_seq_ok (unpack_nodes v) names acc (fun c Hc => fits_unpack 0 v c Hv Hc) Ha) as S.
      destruct (groups_of_seq plines metric_ok lname_ok lvalue_ok dur_ok int_ok thanos lines (unpack_nodes v) names acc) as [e|[n1 a1]];
        [exact S|].
      apply IH; [intros k0 v0 H0; apply Hl; right; exact H0|exact S].
    Qed.

    Lemma groups_of_roots_ok : forall roots names acc,
      (forall c, In c roots -> fits 0 c) -> groups_ok acc ->
      res_ok (groups_of_roots plines metric_ok lname_ok lvalue_ok dur_ok int_ok thanos lines roots names acc).
    Proof.
      induction roots as [|n r IH]; intros names acc Hr Ha; cbn [groups_of_roots]; [exact Ha|].
      pose proof (Hr n (or_introl eq_refl)) as Hn.
      destruct (negb (is_tag (n_tag n) mapTag) || kind_mismatch n KMapping)%bool; [exact (proj2 (fits_good 0 n Hn))|].
      pose proof (groups_of_entries_ok (mapping_nodes n) false names acc (fun k v H => fits_mapping 0 n k v Hn H) Ha) as S.
      destruct (groups_of_entries plines metric_ok lname_ok lvalue_ok dur_ok int_ok thanos lines (mapping_nodes n) false names acc) as [e|[n1 a1]];
        [exact S|].
      apply IH; [intros c0 H0; apply Hr; right; exact H0|exact S].
    Qed.

    Lemma parse_groups_ok d : fits 0 d ->
      match parse_groups plines metric_ok lname_ok lvalue_ok dur_ok int_ok thanos lines d with
      | inl e => good (pe_line e)
      | inr gs => groups_ok gs
      end.
    Proof.
      intros Hd. unfold parse_groups.
      pose proof (groups_of_roots_ok (unpack_nodes d) [] [] (fun c Hc => fits_unpack 0 d c Hd Hc) groups_ok_nil) as S.
      destruct (groups_of_roots plines metric_ok lname_ok lvalue_ok dur_ok int_ok thanos lines (unpack_nodes d) [] []) as [e|[n1 a1]]; exact S.
    Qed.
  End Strict.

  Lemma nodes_size_In c : forall l, In c l -> node_size c <= nodes_size l.
  Proof.
    induction l as [|x r IH]; intros H; [destruct H|]. cbn [nodes_size].
    destruct H as [->|H]; [lia|]. specialize (IH H). lia.
  Qed.

  Definition oerr_ok (o : option perror) : Prop := forall pe, o = Some pe -> good (pe_line pe).

  (** the strict pre-passes (b9483ac, e113542) report the line of a node of the document *)
  Fixpoint find_first {A} (f : A -> option node) (l : list A) : option node :=
    match l with
    | [] => None
    | c :: r => match f c with Some x => Some x | None => find_first f r end
    end.

  Lemma find_node_eq P n :
    find_node P n =
    match P n with
    | Some x => Some x
    | None =>
        match (match n_alias n with Some t => find_node P t | None => None end) with
        | Some x => Some x
        | None => find_first (find_node P) (n_content n)
        end
    end.
  Proof.
    destruct n as [k t v l c a content al em]. cbn [find_node n_alias n_content].
    destruct (P _); [reflexivity|].
    destruct (match al with Some t0 => find_node P t0 | None => None end); [reflexivity|].
    induction content as [|x r IH]; [reflexivity|]. cbn [find_first]. destruct (find_node P x); [reflexivity|exact IH].
  Qed.

  Lemma find_node_fits P off :
    (forall n x, fits off n -> P n = Some x -> fits off x) ->
    forall k n x, node_size n <= k -> fits off n -> find_node P n = Some x -> fits off x.
  Proof.
    intros HP. induction k as [|k IH]; intros n x Hk Hn H; [rewrite node_size_eq in Hk; lia|].
    rewrite node_size_eq in Hk. rewrite find_node_eq in H.
    destruct (P n) as [y|] eqn:Pn; [inversion H; subst; exact (HP n x Hn Pn)|].
    destruct (n_alias n) as [t|] eqn:Ea.
    - destruct (find_node P t) as [y|] eqn:Ft.
      + inversion H; subst. apply (IH t x); [lia|exact (fits_alias off n t Hn Ea)|exact Ft].
      + assert (G : forall l, (forall c, In c l -> In c (n_content n)) -> find_first (find_node P) l = Some x -> fits off x).
        { induction l as [|c r IHl]; intros Hl Hf; [discriminate|]. cbn [find_first] in Hf.
          destruct (find_node P c) as [z|] eqn:Fc.
          - inversion Hf; subst. apply (IH c x); [|exact (fits_content off n c Hn (Hl c (or_introl eq_refl)))|exact Fc].
            pose proof (nodes_size_In c _ (Hl c (or_introl eq_refl))). lia.
          - apply IHl; [intros c0 H0; apply Hl; right; exact H0|exact Hf]. }
        exact (G _ (fun c Hc => Hc) H).
    - assert (G : forall l, (forall c, In c l -> In c (n_content n)) -> find_first (find_node P) l = Some x -> fits off x).
      { induction l as [|c r IHl]; intros Hl Hf; [discriminate|]. cbn [find_first] in Hf.
        destruct (find_node P c) as [z|] eqn:Fc.
        - inversion Hf; subst. apply (IH c x); [|exact (fits_content off n c Hn (Hl c (or_introl eq_refl)))|exact Fc].
          pose proof (nodes_size_In c _ (Hl c (or_introl eq_refl))). lia.
        - apply IHl; [intros c0 H0; apply Hl; right; exact H0|exact Hf]. }
      exact (G _ (fun c Hc => Hc) H).
  Qed.

  Lemma second_merge_key_In : forall l m x, second_merge_key l m = Some x -> In x l.
  Proof.
    fix IH 1. intros [|k [|v r]] m x H; cbn [second_merge_key] in H; try discriminate.
    destruct ((n_tag k =? mergeTag) && (n_value k =? "<<"))%bool.
    - destruct m; [right; right; exact (IH r 1 x H)|inversion H; subst; left; reflexivity].
    - right. right. exact (IH r m x H).
  Qed.

  Lemma strict_prepass_ok d e : fits 0 d -> strict_prepass null_ok d = Some e -> good (pe_line e).
  Proof.
    intros Hd. unfold strict_prepass.
    destruct (find_node (null_with_text null_ok) d) as [n|] eqn:F1.
    - intros H. inversion H; subst. cbn [pe_line].
      apply (fun X => proj2 (fits_good 0 n X)).
      apply (find_node_fits (null_with_text null_ok) 0) with (k := node_size d) (n := d); [|apply le_n|exact Hd|exact F1].
      intros n0 x Hn0 Hp. unfold null_with_text in Hp. destruct (_ && _ && _)%bool; [inversion Hp; subst; exact Hn0|discriminate].
    - destruct (find_node dup_merge_key d) as [n|] eqn:F2; [|discriminate].
      intros H. inversion H; subst. cbn [pe_line].
      apply (fun X => proj2 (fits_good 0 n X)).
      apply (find_node_fits dup_merge_key 0) with (k := node_size d) (n := d); [|apply le_n|exact Hd|exact F2].
      intros n0 x Hn0 Hp. unfold dup_merge_key in Hp. destruct (kind_eqb (n_kind n0) KMapping); [|discriminate].
      exact (fits_content 0 n0 x Hn0 (second_merge_key_In _ _ _ Hp)).
  Qed.

  Lemma parse_strict_loop_ok thanos all_lines yerr :
    List.length all_lines <= T -> oerr_ok yerr ->
    forall ds idx groups err,
      (forall d nl, In (d, nl) ds -> fits 0 d) -> groups_ok groups -> oerr_ok err ->
      file_ok (parse_strict_loop plines metric_ok lname_ok lvalue_ok dur_ok int_ok null_ok thanos all_lines ds yerr idx groups err).
  Proof.
    intros HT Hy. induction ds as [|[d nl] r IH]; intros idx groups err Hds Hg He; cbn [parse_strict_loop].
    - destruct yerr as [e|]; (split; [|exact Hg]); cbn [f_error]; [exact Hy|exact He].
    - pose proof (Hds d nl (or_introl eq_refl)) as Hd.
      assert (Hl : elen (firstn nl all_lines) <= T) by (pose proof (elen_firstn nl all_lines); lia).
      destruct (too_big d).
      { split; [|exact Hg]. intros pe E. cbn [f_error] in E. inversion E; subst. exact (proj2 (fits_good 0 d Hd)). }
      destruct (strict_prepass null_ok d) as [e0|] eqn:SP.
      { split; [|exact Hg]. intros pe E. cbn [f_error] in E. inversion E; subst. exact (strict_prepass_ok d pe Hd SP). }
      pose proof (parse_groups_ok thanos (firstn nl all_lines) Hl d Hd) as P.
      destruct (parse_groups plines metric_ok lname_ok lvalue_ok dur_ok int_ok thanos (firstn nl all_lines) d) as [e|gs].
      + split; [|exact Hg]. intros pe E. cbn [f_error] in E. inversion E; subst. exact P.
      + apply IH; [intros d0 nl0 H0; exact (Hds d0 nl0 (or_intror H0))|apply groups_ok_app; assumption|].
        destruct (1 <? S idx)%nat; [|intros pe E; discriminate E].
        intros pe E. inversion E; subst. exact (proj2 (fits_good 0 d Hd)).
  Qed.

  Theorem strict_lines_inside thanos all_lines ds yerr :
    List.length all_lines <= T -> oerr_ok yerr -> (forall d nl, In (d, nl) ds -> fits 0 d) ->
    file_ok (parse_strict plines metric_ok lname_ok lvalue_ok dur_ok int_ok null_ok thanos all_lines ds yerr).
  Proof.
    intros HT Hy Hds. unfold parse_strict. apply parse_strict_loop_ok; try assumption; [exact groups_ok_nil|intros pe E; discriminate E].
  Qed.

  (** ---- relaxed mode ---- *)
  Notation PR := (parse_rule plines metric_ok lname_ok lvalue_ok).
  Notation PN := (parse_node plines metric_ok lname_ok lvalue_ok).
  Notation PNS := (parse_node_S plines metric_ok lname_ok lvalue_ok).

  Lemma try_parse_group_ok lines off c g rk rv :
    elen lines + off <= T -> fits off c ->
    try_parse_group plines lines off c = Some (g, (rk, rv)) -> group_ok g /\ fits off rk /\ fits off rv.
  Proof.
    intros Hlen Hc. unfold try_parse_group.
    assert (G : forall l g0 ro,
               (forall k v, In (k, v) l -> fits off k /\ fits off v) -> group_ok g0 ->
               (forall k v, ro = Some (k, v) -> fits off k /\ fits off v) ->
               group_ok (fst (try_group_loop plines lines off l g0 ro)) /\
               (forall k v, snd (try_group_loop plines lines off l g0 ro) = Some (k, v) -> fits off k /\ fits off v)).
    { induction l as [|[k v] r IH]; intros g0 ro Hl Hg Hro; cbn [try_group_loop]; [split; assumption|].
      destruct (Hl k v (or_introl eq_refl)) as [Hk Hv].
      assert (Hr : forall k0 v0, In (k0, v0) r -> fits off k0 /\ fits off v0) by (intros k0 v0 H0; apply Hl; right; exact H0).
      destruct (node_value k =? "name"); [apply IH; [exact Hr|apply g_set_name_ok; exact Hg|exact Hro]|].
      destruct (node_value k =? "labels");
        [apply IH; [exact Hr|apply g_set_labels_ok; [exact Hg|exact (nym_ok lines off Hlen k v Hk Hv)]|exact Hro]|].
      destruct (node_value k =? "rules"); [|apply IH; assumption].
      apply IH; [exact Hr|exact Hg|].
      destruct (kind_eqb (n_kind v) KSequence); [|exact Hro].
      intros k0 v0 E. inversion E; subst. split; assumption. }
    assert (G' := G (mapping_nodes c) empty_group None (fun k v H => fits_mapping off c k v Hc H) empty_group_ok).
    clear G.
    assert (G : group_ok (fst (try_group_loop plines lines off (mapping_nodes c) empty_group None)) /\
                (forall k v, snd (try_group_loop plines lines off (mapping_nodes c) empty_group None) = Some (k, v) -> fits off k /\ fits off v)).
    { apply G'. intros k v E. discriminate E. }
    clear G'.
    destruct (try_group_loop plines lines off (mapping_nodes c) empty_group None) as [g' [[k' v']|]]; [|discriminate].
    cbn [fst snd] in G. destruct (g_name g' =? ""); [discriminate|]. intros H. inversion H; subst.
    destruct G as [G1 G2]. split; [exact G1|exact (G2 rk rv eq_refl)].
  Qed.

  Lemma concat_opt_ok {B} (F : B -> option (list group)) : forall l gs,
    (forall c g, In c l -> F c = Some g -> groups_ok g) -> concat_opt (map F l) = Some gs -> groups_ok gs.
  Proof.
    induction l as [|c l IH]; intros gs H E; cbn [map concat_opt] in E.
    - inversion E. apply groups_ok_nil.
    - destruct (F c) as [x|] eqn:Fc; [|discriminate]. destruct (concat_opt (map F l)) as [y|] eqn:Fl; [|discriminate].
      inversion E; subst. apply groups_ok_app; [exact (H c x (or_introl eq_refl) Fc)|].
      apply (IH y); [|reflexivity]. intros c0 g0 Hc. apply H. right. exact Hc.
  Qed.

  Lemma parse_node_ok : forall fuel lines off n parent grp gs,
    elen lines + off <= T -> fits off n ->
    (forall g, grp = Some g -> group_ok g) ->
    PN fuel lines off n parent grp = Some gs -> groups_ok gs.
  Proof.
    induction fuel as [|fuel IH]; intros lines off n parent grp gs Hlen Hn Hgrp H; [discriminate|].
    rewrite PNS in H. cbn zeta in H.
    assert (Hch : forall x, concat_opt (map (fun c => PN fuel lines off c (Some n) grp) (unpack_nodes n)) = Some x -> groups_ok x).
    { intros x. apply concat_opt_ok. intros c g Hc Hp. exact (IH _ _ _ _ _ _ Hlen (fits_unpack off n c Hn Hc) Hgrp Hp). }
    destruct (n_kind n); auto.
    - destruct (parent_is parent "groups").
      + revert H. apply concat_opt_ok. intros c g Hc Hp.
        destruct (try_parse_group plines lines off c) as [[g0 [rk rv]]|] eqn:TG.
        * destruct (try_parse_group_ok lines off c g0 rk rv Hlen (fits_unpack off n c Hn Hc) TG) as (G1 & G2 & G3).
          eapply IH; [exact Hlen|exact G3| |exact Hp]. intros g1 E. inversion E; subst. exact G1.
        * inversion Hp. apply groups_ok_nil.
      + fold (seq_step plines metric_ok lname_ok lvalue_ok fuel lines off n) in H. fold sel_rules in H. fold sel_nested in H.
        assert (Hr : forall l r, (forall c, In c l -> fits off c) ->
                       In r (flat_map sel_rules (map (seq_step plines metric_ok lname_ok lvalue_ok fuel lines off n) l)) -> rule_lines_ok r).
        { induction l as [|c l IHl]; intros r Hl Hr; [destruct Hr|].
          cbn [map flat_map] in Hr. apply in_app_or in Hr.
          destruct Hr as [Hr|Hr]; [|exact (IHl r (fun c0 H0 => Hl c0 (or_intror H0)) Hr)].
          rewrite seq_step_eq in Hr. pose proof (parse_rule_ok lines off Hlen c (Hl c (or_introl eq_refl))) as P.
          destruct (PR lines off c) as [rr e]. destruct e; [destruct Hr|].
          destruct Hr as [<-|[]]. exact P. }
        assert (Hnest : forall l x, (forall c, In c l -> fits off c) ->
                       concat_opt (flat_map sel_nested (map (seq_step plines metric_ok lname_ok lvalue_ok fuel lines off n) l)) = Some x -> groups_ok x).
        { induction l as [|c l IHl]; intros x Hl Hx; [inversion Hx; apply groups_ok_nil|].
          cbn [map flat_map] in Hx. rewrite seq_step_eq in Hx. destruct (PR lines off c) as [rr e]. destruct e; cbn [sel_nested app] in Hx.
          - cbn [concat_opt] in Hx. destruct (PN fuel lines off c (Some n) None) as [y|] eqn:E; [|discriminate].
            match type of Hx with match ?t with _ => _ end = _ => destruct t as [z|] eqn:E2; [|discriminate] end.
            inversion Hx; subst.
            apply groups_ok_app; [|exact (IHl z (fun c0 H0 => Hl c0 (or_intror H0)) eq_refl)].
            eapply IH; [exact Hlen|exact (Hl c (or_introl eq_refl))| |exact E]. intros g0 X. discriminate.
          - exact (IHl x (fun c0 H0 => Hl c0 (or_intror H0)) Hx). }
        destruct (concat_opt _) as [nested|] eqn:En; [|discriminate]. inversion H; subst. clear H.
        apply groups_ok_app; [|exact (Hnest _ _ (fun c Hc => fits_unpack off n c Hn Hc) En)].
        set (g0 := match grp with Some g => g | None => empty_group end).
        assert (Hg0 : group_ok g0).
        { unfold g0. destruct grp as [g|]; [exact (Hgrp g eq_refl)|exact empty_group_ok]. }
        destruct (flat_map sel_rules _) as [|r0 rs] eqn:Er.
        * destruct (parent_is parent "rules"); [|apply groups_ok_nil]. intros g [<-|[]]. exact Hg0.
        * intros g [<-|[]]. apply g_add_rules_ok; [exact Hg0|]. intros r X.
          apply (Hr (unpack_nodes n) r (fun c Hc => fits_unpack off n c Hn Hc)). rewrite Er. exact X.
    - revert H. apply concat_opt_ok. intros [k v] g Hkv Hp.
      exact (IH _ _ _ _ _ _ Hlen (proj2 (fits_mapping off n k v Hn Hkv)) Hgrp Hp).
    - destruct (_ && _ && _)%bool; auto. destruct (n_embedded n) as [e|] eqn:Em; auto.
      destruct (fits_embedded off n e Hn Em) as [L1 L2].
      exact (IH _ _ _ _ _ _ L1 L2 Hgrp H).
  Qed.

  Theorem relaxed_lines_inside all_lines ds yerr f :
    List.length all_lines <= T -> oerr_ok yerr -> (forall d nl, In (d, nl) ds -> fits 0 d) ->
    parse_relaxed plines metric_ok lname_ok lvalue_ok all_lines ds yerr = Some f -> file_ok f.
  Proof.
    intros HT Hy. unfold parse_relaxed.
    assert (G : forall ds0 acc f0, (forall d nl, In (d, nl) ds0 -> fits 0 d) -> groups_ok acc ->
                 parse_relaxed_loop plines metric_ok lname_ok lvalue_ok all_lines ds0 yerr acc = Some f0 -> file_ok f0).
    { induction ds0 as [|[d nl] r IH]; intros acc f0 Hds Ha H; cbn [parse_relaxed_loop] in H.
      - inversion H; subst. split; [exact Hy|exact Ha].
      - destruct (too_big d).
        { inversion H; subst. split; [|exact Ha]. intros pe E. cbn [f_error] in E. inversion E; subst.
          exact (proj2 (fits_good 0 d (Hds d nl (or_introl eq_refl)))). }
        destruct (PN (doc_fuel d) (firstn nl all_lines) 0 d None None) as [gs|] eqn:E; [|discriminate].
        eapply IH; [intros d0 nl0 H0; exact (Hds d0 nl0 (or_intror H0))| |exact H].
        apply groups_ok_app; [exact Ha|].
        eapply parse_node_ok; [|exact (Hds d nl (or_introl eq_refl))| |exact E].
        + pose proof (elen_firstn nl all_lines). lia.
        + intros g X. discriminate. }
    intros Hds H. exact (G ds [] f Hds groups_ok_nil H).
  Qed.

  (** ---- from the parsed file to what is reported: the entries of readRules and the yaml/parse problem ---- *)
  Theorem entries_lines_inside f e :
    file_ok f -> In e (read_rules f) ->
    (forall p, parse_rule_error e = Ok p -> good (p_first p) /\ good (p_last p)) /\
    (has_error e = false -> r_body (e_rule e) <> NoBody -> body_ok (e_rule e)) /\
    (forall m, e_glabels e = Some m -> ymap_ok m).
  Proof.
    intros [Hf Hg] Hin. unfold read_rules in Hin.
    assert (Herr : forall pe, good (pe_line pe) ->
              let e0 := {| e_perr := Some pe; e_rule := zero_rule; e_glabels := None |} in
              (forall p, parse_rule_error e0 = Ok p -> good (p_first p) /\ good (p_last p)) /\
              (has_error e0 = false -> r_body (e_rule e0) <> NoBody -> body_ok (e_rule e0)) /\
              (forall m, e_glabels e0 = Some m -> ymap_ok m)).
    { intros pe G e0. split; [|split].
      - intros p E. cbn in E. inversion E; subst. cbn. split; exact G.
      - intros E. discriminate E.
      - intros m E. discriminate E. }
    destruct (f_error f) as [pe|] eqn:FE.
    - destruct Hin as [<-|[]]. exact (Herr pe (Hf pe eq_refl)).
    - apply in_flat_map in Hin. destruct Hin as (g & Hgin & Hin). destruct (Hg g Hgin) as (G1 & G2 & G3).
      apply in_app_or in Hin. destruct Hin as [Hin|Hin].
      + destruct (g_error g) as [pe|] eqn:GE; [|destruct Hin]. destruct Hin as [<-|[]]. exact (Herr pe (G1 pe eq_refl)).
      + apply in_map_iff in Hin. destruct Hin as (r & <- & Hr). pose proof (G3 r Hr) as R. unfold rule_lines_ok in R.
        split; [|split].
        * intros p E. unfold parse_rule_error in E. cbn [e_perr e_rule] in E.
          destruct (r_error r) as [pe|]; [|discriminate]. inversion E; subst. cbn. split; exact R.
        * intros E Hb. unfold has_error in E. cbn [e_perr e_rule] in E |- *. destruct (r_error r); [discriminate|].
          cbn [e_rule] in Hb. destruct (r_body r); try exact R. exfalso. apply Hb. reflexivity.
        * exact G2.
  Qed.

  (** With well-formedness (Proofs/C02_wellformed.v): an entry without error carries a complete rule, whose line
      range and field extents are inside the file. *)
  Theorem entries_report_inside f e :
    file_ok f -> groups_wf (f_groups f) -> In e (read_rules f) ->
    (forall p, parse_rule_error e = Ok p -> good (p_first p) /\ good (p_last p)) /\
    (has_error e = false -> body_ok (e_rule e)) /\
    (forall m, e_glabels e = Some m -> ymap_ok m).
  Proof.
    intros Hf Hwf Hin. destruct (entries_lines_inside f e Hf Hin) as (A & B & C).
    split; [exact A|split; [|exact C]]. intros E. apply B; [exact E|].
    destruct (routing_total (fun _ => []) f e Hwf Hin) as [(E1 & _)|(_ & _ & Hb)]; [rewrite E in E1; discriminate|].
    intros X. rewrite X in Hb. exact Hb.
  Qed.

  (** ---- the executable check of the hypothesis ---- *)
  Lemma fits_b_eq off n :
    fits_b T off n =
    (Nat.leb 1 (n_line n) && Nat.leb 1 (n_col n) && Nat.leb (off + n_line n) T &&
     forallb (fits_b T off) (n_content n) &&
     match n_alias n with Some t => fits_b T off t | None => true end &&
     match n_embedded n with
     | Some e => Nat.leb (elen (split_lines (n_value n)) + (off + n_line n)) T && fits_b T (off + n_line n) e
     | None => true
     end)%bool.
  Proof.
    destruct n as [k t v l c a content al em]. cbn [fits_b n_line n_col n_content n_alias n_embedded n_value].
    assert (H : (fix all (l0 : list node) : bool := match l0 with [] => true | c0 :: r => (fits_b T off c0 && all r)%bool end) content
                 = forallb (fits_b T off) content).
    { induction content as [|x r IH]; cbn [forallb]; [reflexivity|]. now rewrite IH. }
    rewrite H. reflexivity.
  Qed.

  Lemma fits_b_sound : forall k off n, node_size n <= k -> fits_b T off n = true -> fits off n.
  Proof.
    induction k as [|k IH]; intros off n Hk H.
    - rewrite node_size_eq in Hk. lia.
    - rewrite node_size_eq in Hk. rewrite fits_b_eq in H.
      apply andb_true_iff in H. destruct H as [H Hem].
      apply andb_true_iff in H. destruct H as [H Hal].
      apply andb_true_iff in H. destruct H as [H Hco].
      apply andb_true_iff in H. destruct H as [H Hof].
      apply andb_true_iff in H. destruct H as [Hli Hcl].
      apply Nat.leb_le in Hli. apply Nat.leb_le in Hcl. apply Nat.leb_le in Hof.
      constructor; try assumption.
      + intros c Hc. apply IH; [pose proof (nodes_size_In c _ Hc); lia|].
        rewrite forallb_forall in Hco. exact (Hco c Hc).
      + intros t E. rewrite E in *. apply IH; [lia|exact Hal].
      + intros e E. rewrite E in *. apply andb_true_iff in Hem. destruct Hem as [A B]. apply Nat.leb_le in A.
        split; [exact A|]. apply IH; [lia|exact B].
  Qed.

  Lemma docs_fit_sound ds : docs_fit T ds = true -> forall d nl, In (d, nl) ds -> fits 0 d.
  Proof.
    unfold docs_fit. rewrite forallb_forall. intros H d nl Hin.
    apply (fits_b_sound (node_size d)); [apply le_n|]. exact (H (d, nl) Hin).
  Qed.
End Lines.
