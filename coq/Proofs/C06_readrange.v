(** C06 lemmas, part 4: [readRange] selects exactly the points with index in [a..b]; consequently, when the
    positions spell the value, a diagnostic's column range lands on the corresponding bytes. *)
From Coq Require Import List String Ascii ZArith Bool Lia.
From PintV Require Import Common.Bytes Model.Position Model.Layout Proofs.C06_expand Proofs.C06_match.
Import ListNotations.
Local Open Scope Z_scope.
Local Open Scope list_scope.

Fixpoint pick_pts {A} (pts : list A) (idx a b : Z) : list A :=
  match pts with
  | [] => []
  | p :: r =>
      let idx' := idx + 1 in
      if (a <=? idx') && (idx' <=? b) then p :: pick_pts r idx' a b else pick_pts r idx' a b
  end.

Lemma pick_pts_app {A} : forall (p1 p2 : list A) idx a b,
  pick_pts (p1 ++ p2) idx a b = pick_pts p1 idx a b ++ pick_pts p2 (idx + Z.of_nat (List.length p1)) a b.
Proof.
  induction p1 as [|x p1 IH]; intros p2 idx a b.
  - cbn. f_equal. lia.
  - cbn [app pick_pts List.length]. rewrite IH.
    replace (idx + 1 + Z.of_nat (List.length p1)) with (idx + Z.of_nat (S (List.length p1))) by lia.
    destruct ((a <=? idx + 1) && (idx + 1 <=? b)); reflexivity.
Qed.

Lemma map_seq_shift {A} (f : nat -> A) n : map f (seq 1 n) = map (fun k => f (S k)) (seq 0 n).
Proof. rewrite <- seq_shift, map_map. reflexivity. Qed.

Lemma rr_cols_spec : forall n line j idx a b out,
  wf out ->
  let res := rr_cols n line j idx a b out in
  fst res = idx + Z.of_nat n /\ wf (snd res) /\
  expand (snd res) = expand out ++ pick_pts (map (fun k => (line, j + Z.of_nat k)) (seq 0 n)) idx a b.
Proof.
  induction n as [|n IH]; intros line j idx a b out Hwf.
  - cbn. repeat split; [lia|exact Hwf|]. rewrite app_nil_r. reflexivity.
  - cbn [rr_cols].
    set (out' := if (a <=? idx + 1) && (idx + 1 <=? b) then append_position out line j else out).
    assert (Hwf' : wf out') by (unfold out'; destruct ((a <=? idx + 1) && (idx + 1 <=? b)); [apply append_position_wf|]; exact Hwf).
    destruct (IH line (j + 1) (idx + 1) a b out' Hwf') as [H1 [H2 H3]].
    cbv zeta. split; [rewrite H1; lia|]. split; [exact H2|].
    rewrite H3. cbn [seq map pick_pts]. rewrite map_seq_shift.
    replace (map (fun k : nat => (line, j + Z.of_nat (S k))) (seq 0 n))
      with (map (fun k : nat => (line, j + 1 + Z.of_nat k)) (seq 0 n))
      by (apply map_ext; intros k; f_equal; lia).
    replace (j + Z.of_nat 0) with j by lia.
    unfold out'. destruct ((a <=? idx + 1) && (idx + 1 <=? b)).
    + rewrite append_position_expand by exact Hwf. rewrite <- app_assoc. reflexivity.
    + reflexivity.
Qed.

Lemma expand_range_length p : List.length (expand_range p) = Z.to_nat (pr_last p - pr_first p + 1).
Proof. unfold expand_range. rewrite map_length, seq_length. reflexivity. Qed.

Lemma read_range_fold_spec : forall prs idx out a b,
  wf out ->
  let st := fold_left (fun st pr => rr_cols (Z.to_nat (pr_last pr - pr_first pr + 1)) (pr_line pr) (pr_first pr)
                                           (fst st) a b (snd st)) prs (idx, out) in
  wf (snd st) /\ expand (snd st) = expand out ++ pick_pts (expand prs) idx a b.
Proof.
  induction prs as [|p prs IH]; intros idx out a b Hwf.
  - cbn. split; [exact Hwf|]. rewrite app_nil_r. reflexivity.
  - cbn [fold_left fst snd].
    pose proof (rr_cols_spec (Z.to_nat (pr_last p - pr_first p + 1)) (pr_line p) (pr_first p) idx a b out Hwf) as Hc.
    cbv zeta in Hc. destruct Hc as [H1 [H2 H3]].
    destruct (rr_cols (Z.to_nat (pr_last p - pr_first p + 1)) (pr_line p) (pr_first p) idx a b out) as [idx' out'] eqn:E.
    cbn [fst snd] in *.
    destruct (IH idx' out' a b H2) as [H4 H5]. cbv zeta. split; [exact H4|].
    rewrite H5, H3. rewrite expand_cons, pick_pts_app. rewrite expand_range_length.
    rewrite <- app_assoc. subst idx'. reflexivity.
Qed.

(** [readRange] picks the points with index in [a..b]. *)
Theorem read_range_points : forall a b prs,
  wf (read_range a b prs) /\ expand (read_range a b prs) = pick_pts (expand prs) 0 a b.
Proof.
  intros a b prs. unfold read_range.
  destruct (read_range_fold_spec prs 0 [] a b ltac:(constructor)) as [H1 H2].
  cbv zeta in *. split; [exact H1|]. rewrite H2. reflexivity.
Qed.

(** Picking commutes with reading back. *)
Lemma collect_pick : forall (l : list (option ascii)) s idx a b,
  collect l = Some s -> collect (pick_pts l idx a b) = Some (pick_str s idx a b).
Proof.
  induction l as [|[c|] l IH]; intros s idx a b H.
  - cbn in H. inversion H; subst. reflexivity.
  - cbn [collect] in H. destruct (collect l) as [s'|] eqn:E; [|discriminate].
    inversion H; subst. cbn [pick_pts pick_str].
    destruct ((a <=? idx + 1) && (idx + 1 <=? b)).
    + cbn [collect]. rewrite (IH s' (idx + 1) a b eq_refl). reflexivity.
    + apply IH. reflexivity.
  - cbn in H. discriminate.
Qed.

Lemma pick_pts_map {A B} (f : A -> B) : forall l idx a b,
  map f (pick_pts l idx a b) = pick_pts (map f l) idx a b.
Proof.
  induction l as [|x l IH]; intros idx a b; [reflexivity|].
  cbn [pick_pts map]. destruct ((a <=? idx + 1) && (idx + 1 <=? b)); cbn [map]; rewrite IH; reflexivity.
Qed.

Lemma fold_eq_pick : forall rb v idx a b,
  fold_eq rb v = true -> fold_eq (pick_str rb idx a b) (pick_str v idx a b) = true.
Proof.
  induction rb as [|f rb IH]; intros v idx a b H.
  - destruct v; [reflexivity|discriminate].
  - destruct v as [|c v]; [discriminate|].
    cbn [fold_eq] in H. apply andb_true_iff in H. destruct H as [H1 H2].
    cbn [pick_str]. destruct ((a <=? idx + 1) && (idx + 1 <=? b)).
    + cbn [fold_eq]. rewrite H1. cbn. apply IH. exact H2.
    + apply IH. exact H2.
Qed.

(** [spell_match] = a fold-equal prefix followed by line breaks. *)
Lemma spell_match_split : forall rb v,
  spell_match rb v = true ->
  exists pre tailv, v = (pre ++ tailv)%string /\ fold_eq rb pre = true /\ all_newlines tailv = true /\
                    slen pre = slen rb.
Proof.
  induction rb as [|f rb IH]; intros v H.
  - exists EmptyString, v. repeat split. exact H.
  - destruct v as [|c v]; [discriminate|].
    cbn [spell_match] in H. apply andb_true_iff in H. destruct H as [H1 H2].
    destruct (IH v H2) as [pre [tailv [E [Hf [Ht Hl]]]]].
    exists (String c pre), tailv. subst v. repeat split.
    + cbn [fold_eq]. rewrite H1. exact Hf.
    + exact Ht.
    + rewrite !slen_String. lia.
Qed.

Lemma pick_str_beyond : forall s idx a b, b <= idx -> pick_str s idx a b = EmptyString.
Proof.
  induction s as [|c s IH]; intros idx a b H; [reflexivity|].
  cbn [pick_str]. replace (idx + 1 <=? b) with false by (symmetry; apply Z.leb_gt; lia).
  rewrite andb_false_r. apply IH. lia.
Qed.

Lemma pick_str_app : forall pre tailv idx a b,
  b <= idx + slen pre -> pick_str (pre ++ tailv) idx a b = pick_str pre idx a b.
Proof.
  induction pre as [|c pre IH]; intros tailv idx a b H.
  - cbn [append pick_str]. apply pick_str_beyond. unfold slen in H. cbn in H. lia.
  - cbn [append pick_str]. rewrite slen_String in H.
    rewrite (IH tailv (idx + 1) a b) by lia. reflexivity.
Qed.

(** THE DIAGNOSTIC CONSEQUENCE.  If the positions of a field spell its value then for every column range
    [a..b] inside the spelled part, the positions [readRange a b] returns are inside the file and read back
    (up to line folding) exactly [value[a-1:b]]. *)
Theorem read_range_lands_lemma : forall lines pos value a b rb,
  read_back lines pos = Some rb -> spell_match rb value = true ->
  b <= slen rb ->
  exists rb', read_back lines (read_range a b pos) = Some rb' /\
              fold_eq rb' (slice1 a b value) = true.
Proof.
  intros lines pos value a b rb Hrb Hsp Hb.
  destruct (read_range_points a b pos) as [_ He].
  destruct (spell_match_split rb value Hsp) as [pre [tailv [Ev [Hf [_ Hl]]]]].
  exists (pick_str rb 0 a b). split.
  - unfold read_back in *. rewrite He. rewrite pick_pts_map. apply collect_pick. exact Hrb.
  - unfold slice1. subst value. rewrite pick_str_app by lia. apply fold_eq_pick. exact Hf.
Qed.

(** [Len()] of well-formed ranges is the number of points. *)
Lemma plen_fold : forall prs acc,
  wf prs -> fold_left (fun l p => l + (pr_last p - pr_first p + 1)) prs acc = acc + Z.of_nat (List.length (expand prs)).
Proof.
  induction prs as [|p prs IH]; intros acc Hwf.
  - cbn. lia.
  - inversion Hwf as [|? ? Hp Hr]; subst. cbn [fold_left]. rewrite IH by exact Hr.
    rewrite expand_cons, app_length, expand_range_length. unfold wf_range in Hp. lia.
Qed.

Lemma plen_points prs : wf prs -> plen prs = Z.of_nat (List.length (expand prs)).
Proof. intros H. unfold plen. rewrite plen_fold by exact H. lia. Qed.

Lemma collect_length : forall l s, collect l = Some s -> slen s = Z.of_nat (List.length l).
Proof.
  induction l as [|[c|] l IH]; intros s H.
  - inversion H; subst. reflexivity.
  - cbn [collect] in H. destruct (collect l) as [s'|] eqn:E; [|discriminate].
    inversion H; subst. rewrite slen_String. rewrite (IH s' eq_refl). cbn [List.length]. lia.
  - discriminate.
Qed.

Lemma read_back_length lines pos rb : read_back lines pos = Some rb -> slen rb = Z.of_nat (List.length (expand pos)).
Proof. unfold read_back. intros H. rewrite (collect_length _ _ H), map_length. reflexivity. Qed.
