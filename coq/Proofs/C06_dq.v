(** C06 lemmas, part 11: double-quoted scalars whose only escape sequences are the self-escapes backslash-doublequote
    and backslash-backslash (the usual way PromQL is quoted in rule files): the token scanner [scan_line_dq] locates every
    value byte on the byte itself (the escaped character, not the backslash) and the positions spell the value. *)
From Coq Require Import List String Ascii ZArith NArith Bool Lia.
From PintV Require Import Common.Bytes Model.CommentsUnicode Model.Position Model.Layout
     Proofs.C06_expand Proofs.C06_match Proofs.C06_styles Proofs.C06_blocks Proofs.C06_flowml.
Import ListNotations.
Local Open Scope Z_scope.
Local Open Scope list_scope.

Definition dquote : ascii := """"%char.

Definition needs_escape (c : ascii) : bool := Ascii.eqb c dquote || Ascii.eqb c backslash.

Lemma unescape_self c r :
  needs_escape c = true -> unescape (String backslash (String c r)) = (String c EmptyString, 2%nat).
Proof.
  unfold needs_escape. intros H. apply orb_true_iff in H. destruct H as [H|H]; apply Ascii.eqb_eq in H; subst c; reflexivity.
Qed.

Lemma dq_escape_simple_cons c r :
  dq_escape_simple (String c r) =
  if needs_escape c then String backslash (String c (dq_escape_simple r)) else String c (dq_escape_simple r).
Proof. reflexivity. Qed.

(** the scanner over the escaped text of [need :: rest] followed by anything *)
Lemma scan_dq_simple : forall rest need post lines l line col offs pre,
  1 <= line -> 1 <= col ->
  nth_error lines (Z.to_nat (line - 1)) = Some l ->
  sdrop (Z.to_nat (col - 1)) l = (dq_escape_simple (String need rest) ++ post)%string ->
  reads lines offs pre ->
  exists o, scan_line_dq (dq_escape_simple (String need rest) ++ post) 0 line col need rest offs = ScanDone o /\
            o <> [] /\ reads lines o (pre ++ String need rest).
Proof.
  induction rest as [|n' r' IH]; intros need post lines l line col offs pre Hl Hc Hn Hd Hr;
    rewrite dq_escape_simple_cons in *; destruct (needs_escape need) eqn:Ene.
  - (* last byte, escaped *)
    cbn [dq_escape_simple append] in *.
    destruct (sdrop_step _ _ _ _ Hd) as [Hd1 _].
    assert (Hch : char_at lines (line, col + 1) = Some need).
    { eapply char_at_in_line; [exact Hl|lia|exact Hn|].
      replace (Z.to_nat (col + 1 - 1)) with (S (Z.to_nat (col - 1))) by lia. exact Hd1. }
    cbn [scan_line_dq]. replace (Ascii.eqb backslash backslash) with true by reflexivity.
    rewrite (unescape_self need _ Ene). cbn [strip_prefix]. rewrite Ascii.eqb_refl.
    cbn [String.length append_decoded]. change (slen (String need "")) with 1. change (Z.of_nat 2) with 2.
    replace (col + Z.max 0 (2 - 1 + 0)) with (col + 1) by lia.
    eexists. split; [reflexivity|]. split; [apply append_position_nonempty|].
    apply (reads_append lines offs pre line (col + 1) need need Hr Hch (fold_char_eq_refl need)).
  - (* last byte, literal *)
    cbn [dq_escape_simple append] in *.
    assert (Hch : char_at lines (line, col) = Some need) by (eapply char_at_in_line; eauto).
    cbn [scan_line_dq].
    assert (Hnb : Ascii.eqb need backslash = false).
    { unfold needs_escape in Ene. apply orb_false_iff in Ene. apply Ene. }
    rewrite Hnb, Ascii.eqb_refl.
    eexists. split; [reflexivity|]. split; [apply append_position_nonempty|].
    apply (reads_append lines offs pre line col need need Hr Hch (fold_char_eq_refl need)).
  - (* escaped byte, more to come *)
    cbn [append] in *.
    destruct (sdrop_step _ _ _ _ Hd) as [Hd1 _].
    destruct (sdrop_step _ _ _ _ Hd1) as [Hd2 _].
    assert (Hch : char_at lines (line, col + 1) = Some need).
    { eapply char_at_in_line; [exact Hl|lia|exact Hn|].
      replace (Z.to_nat (col + 1 - 1)) with (S (Z.to_nat (col - 1))) by lia. exact Hd1. }
    cbn [scan_line_dq]. replace (Ascii.eqb backslash backslash) with true by reflexivity.
    rewrite (unescape_self need _ Ene). cbn [strip_prefix]. rewrite Ascii.eqb_refl.
    cbn [String.length append_decoded Nat.pred]. change (slen (String need "")) with 1. change (Z.of_nat 2) with 2.
    replace (col + Z.max 0 (2 - 1 + 0)) with (col + 1) by lia.
    cbn [scan_line_dq].
    pose proof (reads_append lines offs pre line (col + 1) need need Hr Hch (fold_char_eq_refl need)) as Hr'.
    destruct (IH n' post lines l line (col + 1 + 1) (append_position offs line (col + 1)) (pre ++ String need EmptyString)%string
                 Hl ltac:(lia) Hn) as [o [Ho [Hne Hro]]].
    + replace (Z.to_nat (col + 1 + 1 - 1)) with (S (S (Z.to_nat (col - 1)))) by lia. exact Hd2.
    + exact Hr'.
    + exists o. split; [exact Ho|]. split; [exact Hne|]. rewrite sapp_cons_mid in Hro. exact Hro.
  - (* literal byte, more to come *)
    cbn [append] in *.
    destruct (sdrop_step _ _ _ _ Hd) as [Hd1 _].
    assert (Hch : char_at lines (line, col) = Some need) by (eapply char_at_in_line; eauto).
    cbn [scan_line_dq].
    assert (Hnb : Ascii.eqb need backslash = false).
    { unfold needs_escape in Ene. apply orb_false_iff in Ene. apply Ene. }
    rewrite Hnb, Ascii.eqb_refl.
    pose proof (reads_append lines offs pre line col need need Hr Hch (fold_char_eq_refl need)) as Hr'.
    destruct (IH n' post lines l line (col + 1) (append_position offs line col) (pre ++ String need EmptyString)%string
                 Hl ltac:(lia) Hn) as [o [Ho [Hne Hro]]].
    + replace (Z.to_nat (col + 1 - 1)) with (S (Z.to_nat (col - 1))) by lia. exact Hd1.
    + exact Hr'.
    + exists o. split; [exact Ho|]. split; [exact Hne|]. rewrite sapp_cons_mid in Hro. exact Hro.
Qed.

(** One-line double-quoted scalar with self-escapes: line = pre ++ quote ++ escaped value ++ quote ++ post. *)
Theorem double_selfescape_spells : forall lines n minCol l pre post need rest,
  sn_block n = false -> sn_anchor n = EmptyString -> sn_dq n = true ->
  sn_value n = String need rest -> Ascii.eqb need dquote = false ->
  line_at lines (sn_line n) = Some l ->
  l = (pre ++ String dquote (dq_escape_simple (String need rest) ++ String dquote post))%string ->
  ascii_only pre = true -> sn_col n = slen pre + 1 ->
  exists pos, new_position_range lines n minCol = Ok pos /\ pos <> [] /\ wf pos /\ spells lines pos (sn_value n).
Proof.
  intros lines n minCol l pre post need rest Hblk Hanc Hdq Ev Hq Hl El Hasc Ec.
  unfold new_position_range. rewrite Ev. unfold npr_entry. rewrite Hblk, Hdq.
  unfold line_at in Hl. destruct (1 <=? sn_line n) eqn:E1; [|discriminate]. apply Z.leb_le in E1.
  replace (sn_line n <=? 0) with false by (symmetry; apply Z.leb_gt; lia).
  assert (Hsk : exists more, skipn (Z.to_nat (sn_line n - 1)) lines = l :: more).
  { clear -Hl. revert Hl. generalize (Z.to_nat (sn_line n - 1)). intros k. revert lines.
    induction k as [|k IH]; intros lines H.
    - destruct lines as [|x r]; [discriminate|]. cbn in H. inversion H; subst. exists r. reflexivity.
    - destruct lines as [|x r]; [discriminate|]. cbn in H. cbn [skipn]. apply IH. exact H. }
  destruct Hsk as [more Hsk]. rewrite Hsk. cbv zeta.
  set (tok := String dquote (dq_escape_simple (String need rest) ++ String dquote post)) in *.
  pose proof (slen_nonneg pre) as Hpre.
  assert (Hlen : slen l =? 0 = false).
  { apply Z.eqb_neq. subst l. rewrite slen_app. unfold tok. rewrite slen_String.
    pose proof (slen_nonneg (dq_escape_simple (String need rest) ++ String dquote post)). lia. }
  rewrite Hlen.
  assert (Hfc : first_col l n = sn_col n).
  { unfold first_col. rewrite Hanc. rewrite Ec. subst l. apply byte_column_ascii. exact Hasc. }
  rewrite Hfc. cbn [npr_loop]. unfold line_step. rewrite Hlen.
  destruct (adjust_nonspace pre tok need rest dquote _ eq_refl eq_refl) as [Ha Hd].
  rewrite Ec. subst l. rewrite Ha, Hd. unfold scan.
  (* the opening quote is not the first byte of the value *)
  unfold tok at 1. cbn [scan_line_dq]. replace (Ascii.eqb dquote backslash) with false by reflexivity.
  rewrite Hq.
  assert (Hnth : nth_error lines (Z.to_nat (sn_line n - 1)) = Some (pre ++ tok)%string).
  { destruct (skipn_cons_nth _ _ _ _ Hsk) as [H _]. exact H. }
  destruct (scan_dq_simple rest need (String dquote post) lines (pre ++ tok)%string (sn_line n) (slen pre + 1 + 1) [] EmptyString
              E1 ltac:(lia) Hnth) as [o [Ho [Hne [Hwf [rb [Hrb Hfe]]]]]].
  - replace (Z.to_nat (slen pre + 1 + 1 - 1)) with (S (Z.to_nat (slen pre + 1 - 1))) by lia.
    apply (sdrop_step _ _ _ _ Hd).
  - apply reads_nil.
  - rewrite Ho. destruct o as [|p o']; [contradiction|].
    exists (p :: o'). repeat split; [discriminate|exact Hwf|].
    exists rb. split; [exact Hrb|]. apply spell_match_exact. exact Hfe.
Qed.
