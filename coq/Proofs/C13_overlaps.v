(** C13 — Overlaps on grid-aligned ranges, at index level (DESIGN Appendix D).

    A grid-aligned range of one series is [R (A1, A2)]: start = g0 + A1*step, end = g0 + A2*step + step - 1s.
    On such ranges the nine cases of Overlaps(existing, incoming) collapse to: "touching (adjacent or sharing
    points) => merged into the hull", EXCEPT the two asymmetric holes: the existing range lies strictly inside
    the incoming one and shares its start (A1 = B1, A2 < B2 - 1) or its end (A2 = B2, A1 > B1 + 1). *)
From Coq Require Import List ZArith NArith Bool Lia.
From PintV Require Import Common.GoTime Model.Range.
Import ListNotations.
Open Scope Z_scope.

Definition ival := (Z * Z)%type.

Definition R (g0 step : Z) (fp : N) (x : ival) : range :=
  mkR fp (g0 + fst x * step) (g0 + snd x * step + (step - sec)).

Definition touch (a b : ival) : bool := (fst b <=? snd a + 1) && (fst a <=? snd b + 1).

Definition hole (a b : ival) : bool :=
  ((fst a =? fst b) && (snd a <? snd b - 1)) || ((snd a =? snd b) && (fst b + 1 <? fst a)).

Definition hull (a b : ival) : ival := (Z.min (fst a) (fst b), Z.max (snd a) (snd b)).

(** index-level Overlaps(existing a, incoming b) *)
Definition iov (a b : ival) : option ival :=
  if hole a b then None else if touch a b then Some (hull a b) else None.

Definition R_tr (g0 step : Z) (x : ival) : tr := (g0 + fst x * step, g0 + snd x * step + (step - sec)).

Lemma cls d step : 0 < step ->
  (d <= -2 /\ d * step <= -2 * step) \/ (d = -1 /\ d * step = - step) \/ (d = 0 /\ d * step = 0) \/
  (d = 1 /\ d * step = step) \/ (2 <= d /\ 2 * step <= d * step).
Proof. intros. destruct (Z_le_gt_dec d (-2)); [left; split; nia|]. destruct (Z.eq_dec d (-1)); [right; left; split; nia|].
  destruct (Z.eq_dec d 0); [right; right; left; split; nia|]. destruct (Z.eq_dec d 1); [right; right; right; left; split; nia|].
  right; right; right; right; split; nia. Qed.

Ltac dbool := repeat match goal with
  | |- context [?x <=? ?y] => first [rewrite (proj2 (Z.leb_le x y)) by lia | rewrite (proj2 (Z.leb_gt x y)) by lia]
  | |- context [?x <? ?y] => first [rewrite (proj2 (Z.ltb_lt x y)) by lia | rewrite (proj2 (Z.ltb_ge x y)) by lia]
  | |- context [?x =? ?y] => first [rewrite (proj2 (Z.eqb_eq x y)) by lia | rewrite (proj2 (Z.eqb_neq x y)) by lia]
  end.

Lemma overlaps_aligned g0 step fp A1 A2 B1 B2 : sec <= step -> A1 <= A2 -> B1 <= B2 ->
  overlaps (R g0 step fp (A1, A2)) (R g0 step fp (B1, B2)) step
  = option_map (R_tr g0 step) (iov (A1, A2) (B1, B2)).
Proof.
  intros Hs HA HB. assert (0 < sec) as Hsec by (unfold sec; lia). assert (0 < step) as Hp by lia.
  unfold overlaps, R, iov, hole, touch, hull, R_tr. cbn [fst snd r_fp r_start r_end].
  rewrite N.eqb_refl. cbn [negb].
  pose proof (cls (A1 - B1) step Hp) as C1. pose proof (cls (A2 - B2) step Hp) as C2.
  pose proof (cls (A2 - B1) step Hp) as C3. pose proof (cls (A1 - B2) step Hp) as C4.
  rewrite !Z.mul_sub_distr_r in C1, C2, C3, C4.
  assert (step = sec \/ sec < step) as Hd by lia.
  destruct Hd as [Hd|Hd];
  destruct C1 as [[? ?]|[[? ?]|[[? ?]|[[? ?]|[? ?]]]]];
  destruct C2 as [[? ?]|[[? ?]|[[? ?]|[[? ?]|[? ?]]]]];
  try (exfalso; lia);
  destruct C3 as [[? ?]|[[? ?]|[[? ?]|[[? ?]|[? ?]]]]];
  try (exfalso; lia);
  destruct C4 as [[? ?]|[[? ?]|[[? ?]|[[? ?]|[? ?]]]]];
  try (exfalso; lia);
  dbool; cbn [andb orb option_map fst snd];
  try reflexivity;
  repeat match goal with
  | |- context [Z.min ?x ?y] => first [rewrite (Z.min_l x y) by lia | rewrite (Z.min_r x y) by lia]
  | |- context [Z.max ?x ?y] => first [rewrite (Z.max_l x y) by lia | rewrite (Z.max_r x y) by lia]
  end;
  reflexivity.
Qed.
