(** C01: groups and the top-level mapping — strict-mode acceptance implies the Prometheus loader model accepts. *)
From Coq Require Import List String Ascii Arith Bool Lia.
From PintV Require Import Common.Bytes Model.Yaml Model.Parser Model.Routing Model.PromLoader
     Proofs.C19_relaxed Proofs.C02_wellformed Proofs.C01_prom Proofs.C01_pint Proofs.C01_rule Proofs.C01_merge.
Import ListNotations.
Open Scope string_scope.
Open Scope list_scope.

Definition find_key (name : string) (ps : list (node * node)) : option (node * node) :=
  find (fun kv => String.eqb name (key_text kv)) ps.

Lemma find_none_iff (name : string) (ps : list (node * node)) :
  find_key name ps = None -> ~ In name (map key_text ps).
Proof.
  intros H Hin. apply in_map_iff in Hin. destruct Hin as (kv & E & Hkv).
  pose proof (find_none _ _ H kv Hkv) as X. cbn in X. rewrite E, String.eqb_refl in X. discriminate.
Qed.

Lemma nodup_key_unique : forall (ps : list (node * node)) k x k' x',
  NoDup (map key_text ps) -> In (k, x) ps -> In (k', x') ps -> n_value k = n_value k' -> (k', x') = (k, x).
Proof.
  induction ps as [|kv r IH]; intros k x k' x' Hnd H1 H2 E; [destruct H1|].
  cbn [map] in Hnd. inversion Hnd as [|y l Hn Hr]; subst.
  destruct H1 as [->|H1], H2 as [H2|H2].
  - now symmetry.
  - exfalso. apply Hn. apply in_map_iff. exists (k', x'). split; [|exact H2]. change (key_text (k', x')) with (n_value k'). now rewrite <- E.
  - subst kv. exfalso. apply Hn. apply in_map_iff. exists (k, x). split; [|exact H1]. change (key_text (k, x)) with (n_value k). now rewrite E.
  - exact (IH _ _ _ _ Hr H1 H2 E).
Qed.

Section Group.
  Variable plines : list string -> node -> nat -> nat * nat.
  Variables metric_ok lname_ok lvalue_ok dur_ok expr_ok tmpl_pint tmpl_prom dur_zero : string -> bool.
  Variables str_ok int_ok null_ok : node -> bool.
  Hypothesis H_str : forall n, n_kind n = KScalar -> n_tag n <> nullTag -> str_ok n = true.
  Hypothesis H_null : forall n, n_kind n = KScalar -> n_tag n = nullTag -> null_ok n = true.
  Hypothesis H_tmpl : forall s, tmpl_pint s = true -> tmpl_prom s = true.
  Hypothesis H_lname_empty : lname_ok "" = false.
  Hypothesis H_lvalue_empty : lvalue_ok "" = true.
  Hypothesis H_tmpl_empty : tmpl_prom "" = true.
  Variable lines : list string.

  Notation PRS := (parse_rule_strict plines metric_ok lname_ok lvalue_ok).
  Notation PG := (parse_group plines metric_ok lname_ok lvalue_ok dur_ok int_ok false).
  Notation GE := (group_entry plines metric_ok lname_ok lvalue_ok dur_ok int_ok false lines).
  Notation nym := (new_yaml_map plines lines 0).

  (** what one accepted key/value pair of a group looks like (Prometheus schema) *)
  Definition group_pair_ok (k v : node) : Prop :=
    let key := node_value k in
    (key = "name" /\ scalar_with_tag v strTag = true /\ n_value v <> "") \/
    ((key = "interval" \/ key = "query_offset") /\ scalar_with_tag v strTag = true /\ dur_ok (n_value v) = true) \/
    (key = "limit" /\ scalar_with_tag v intTag = true /\ int_ok v = true) \/
    (key = "labels" /\ n_tag v = mapTag /\ kind_mismatch v KMapping = false /\
     validate_string_map "labels" (mapping_nodes (deref v)) 0 (0, 0) = None /\
     bad_group_label lname_ok lvalue_ok (mapping_nodes (deref v)) = None) \/
    (key = "rules" /\ kind_mismatch v KSequence = false).

  Ltac brk H :=
    match type of H with
    | context [if ?b then _ else _] => let E := fresh "E" in destruct b eqn:E
    | context [match ?b with Some _ => _ | None => _ end] => let E := fresh "E" in destruct b eqn:E
    | context [let (_, _) := ?p in _] => destruct p
    end.

  Lemma group_entry_inr_full g k v g1 :
    GE g k v = inr g1 ->
    group_pair_ok k v /\
    g_error g1 = g_error g /\
    g_name g1 = (if String.eqb (node_value k) "name" then n_value v else g_name g) /\
    g_labels g1 = (if String.eqb (node_value k) "labels" then Some (nym k (deref v)) else g_labels g) /\
    g_rules g1 = (if String.eqb (node_value k) "rules" then g_rules g ++ map (PRS lines) (unpack_nodes v) else g_rules g).
  Proof.
    unfold group_entry, group_pair_ok. intros H. cbn [negb] in H.
    repeat brk H; try discriminate H; inversion H; subst; clear H;
      repeat match goal with
             | E : (_ =? _)%string = true |- _ => apply String.eqb_eq in E
             | E : (_ || _)%bool = true |- _ => apply orb_true_iff in E; destruct E
             | E : negb _ = false |- _ => apply negb_false_iff in E
             end.
    all: repeat match goal with E : node_value _ = _ |- _ => rewrite E in *; clear E end.
    all: unfold deref; repeat match goal with E : n_alias _ = _ |- _ => rewrite E end.
    all: repeat match goal with E : (_ || _)%bool = false |- _ => apply orb_false_iff in E; destruct E end;
         repeat match goal with E : negb _ = false |- _ => apply negb_false_iff in E end;
         repeat match goal with E : (_ =? _)%string = true |- _ => apply String.eqb_eq in E end.
    all: cbn [String.eqb Ascii.eqb Bool.eqb g_set_name g_set_labels g_add_rules g_error g_name g_labels g_rules].
    all: (split; [|repeat split; reflexivity]).
    all: first [ solve [left; repeat split; auto; apply String.eqb_neq; assumption]
               | solve [right; left; repeat split; auto]
               | solve [right; right; left; repeat split; auto]
               | solve [right; right; right; left; repeat split; auto]
               | solve [right; right; right; right; repeat split; auto] ].
  Qed.

  Lemma find_key_In name ps k v : find_key name ps = Some (k, v) -> In (k, v) ps /\ n_value k = name.
  Proof.
    intros H. apply find_some in H. destruct H as [Hin E]. split; [exact Hin|].
    apply String.eqb_eq in E. symmetry. exact E.
  Qed.

  Lemma find_key_none name ps : ~ In name (map key_text ps) -> find_key name ps = None.
  Proof.
    intros H. destruct (find_key name ps) as [[k v]|] eqn:E; [|reflexivity].
    destruct (find_key_In _ _ _ _ E) as [Hin Ek]. exfalso. apply H. apply in_map_iff. exists (k, v). split; [exact Ek|exact Hin].
  Qed.

  Lemma find_key_cons name k v r :
    find_key name ((k, v) :: r) = if String.eqb name (n_value k) then Some (k, v) else find_key name r.
  Proof. reflexivity. Qed.

  (** The loop of parseGroup over the pairs of a mapping, when it ends without an error. *)
  Lemma group_loop_spec im nl : forall ps g sk,
    (forall kv, In kv ps -> n_alias (fst kv) = None) ->
    g_error g = None ->
    g_error (group_loop plines metric_ok lname_ok lvalue_ok dur_ok int_ok false lines im nl g sk ps) = None ->
    let G := group_loop plines metric_ok lname_ok lvalue_ok dur_ok int_ok false lines im nl g sk ps in
    (forall k v, In (k, v) ps -> group_pair_ok k v /\ ~ In (n_value k) sk) /\
    NoDup (map key_text ps) /\
    g_name G = (match find_key "name" ps with Some (_, v) => n_value v | None => g_name g end) /\
    g_labels G = (match find_key "labels" ps with Some (k, v) => Some (nym k (deref v)) | None => g_labels g end) /\
    g_rules G = g_rules g ++ (match find_key "rules" ps with Some (_, v) => map (PRS lines) (unpack_nodes v) | None => [] end) /\
    (im = true \/ In "rules" (map key_text ps) \/ In "rules" sk -> In "name" (map key_text ps) \/ In "name" sk).
  Proof.
    induction ps as [|[k v] r IH]; intros g sk Hna Hg HG; cbn [group_loop] in *.
    - destruct ((mem_str "rules" sk || im) && negb (mem_str "name" sk))%bool eqn:C; [discriminate HG|].
      cbv zeta. split; [intros k v []|]. split; [constructor|]. split; [reflexivity|]. split; [reflexivity|].
      split; [now rewrite app_nil_r|]. intros Hr. right.
      assert (X : (mem_str "rules" sk || im)%bool = true).
      { destruct Hr as [->|[[]|Hr]]; [apply orb_true_r|]. apply mem_str_In in Hr. now rewrite Hr. }
      rewrite X in C. cbn [andb] in C. apply negb_false_iff in C. now apply mem_str_In.
    - destruct (GE g k v) as [g1|g1] eqn:E.
      { exfalso. exact (group_entry_inl _ _ _ _ _ _ _ _ _ _ _ _ E HG). }
      destruct (mem_str (node_value k) sk) eqn:Dup; [discriminate HG|].
      pose proof (Hna (k, v) (or_introl eq_refl)) as Hka. cbn [fst] in Hka.
      rewrite (node_value_noalias k Hka) in *.
      destruct (group_entry_inr_full g k v g1 E) as (Hok & He & Hn & Hl & Hr).
      rewrite (node_value_noalias k Hka) in Hn, Hl, Hr.
      assert (Hg1 : g_error g1 = None) by congruence.
      specialize (IH g1 (n_value k :: sk) (fun kv Hkv => Hna kv (or_intror Hkv)) Hg1 HG).
      cbv zeta in IH |- *. destruct IH as (I1 & I2 & I3 & I4 & I5 & I6).
      assert (Hnotin : ~ In (n_value k) (map key_text r)).
      { intros Hin. apply in_map_iff in Hin. destruct Hin as ([k' v'] & Ek & Hin'). destruct (I1 k' v' Hin') as [_ Hn'].
        apply Hn'. left. symmetry. exact Ek. }
      split; [|split; [|split; [|split; [|split]]]].
      + intros k0 v0 [X|X].
        * inversion X; subst. split; [exact Hok|]. intros Hs. apply mem_str_In in Hs. congruence.
        * destruct (I1 k0 v0 X) as [A B]. split; [exact A|]. intros Hs. apply B. right. exact Hs.
      + cbn [map]. constructor; [exact Hnotin|exact I2].
      + rewrite I3, Hn, find_key_cons. rewrite (String.eqb_sym "name" (n_value k)).
        destruct (String.eqb (n_value k) "name") eqn:Ek.
        * apply String.eqb_eq in Ek. rewrite find_key_none; [reflexivity|]. now rewrite <- Ek.
        * reflexivity.
      + rewrite I4, Hl, find_key_cons. rewrite (String.eqb_sym "labels" (n_value k)).
        destruct (String.eqb (n_value k) "labels") eqn:Ek.
        * apply String.eqb_eq in Ek. rewrite find_key_none; [reflexivity|]. now rewrite <- Ek.
        * reflexivity.
      + rewrite I5, Hr, find_key_cons. rewrite (String.eqb_sym "rules" (n_value k)).
        destruct (String.eqb (n_value k) "rules") eqn:Ek.
        * apply String.eqb_eq in Ek. rewrite find_key_none; [now rewrite app_nil_r|]. now rewrite <- Ek.
        * reflexivity.
      + cbn [map In]. change (key_text (k, v)) with (n_value k). intros H.
        assert (H' : im = true \/ In "rules" (map key_text r) \/ In "rules" (n_value k :: sk)).
        { destruct H as [X|[[X|X]|X]]; [left; exact X|right; right; left; exact X|right; left; exact X|right; right; right; exact X]. }
        destruct (I6 H') as [X|[X|X]]; [left; right; exact X|left; left; exact X|right; exact X].
  Qed.

  Lemma bad_group_label_none : forall l,
    (forall k v, In (k, v) l -> n_alias k = None) ->      (* keys that are no aliases: nodeValue(key) = key.Value (cd8be7e) *)
    bad_group_label lname_ok lvalue_ok l = None ->
    forall k v, In (k, v) l -> lname_ok (n_value k) = true /\ n_value k <> "__name__" /\ lvalue_ok (node_value v) = true.
  Proof.
    induction l as [|[k v] r IH]; intros Hna H k0 v0 Hin; [destruct Hin|]. cbn [bad_group_label] in H.
    rewrite (node_value_noalias k (Hna k v (or_introl eq_refl))) in H.
    destruct (negb (lname_ok (n_value k)) || (n_value k =? "__name__"))%bool eqn:E1; [discriminate|].
    apply orb_false_iff in E1. destruct E1 as [E1 E1']. apply negb_false_iff in E1. apply String.eqb_neq in E1'.
    destruct (negb (lvalue_ok (node_value v))) eqn:E2; [discriminate|]. apply negb_false_iff in E2.
    destruct Hin as [X|X]; [inversion X; subst; auto|exact (IH (fun k1 v1 H1 => Hna k1 v1 (or_intror H1)) H k0 v0 X)].
  Qed.

  Lemma dec_items_ok {A} (dec : node -> dres A) (P : A -> bool) : forall items,
    (forall c, In c items -> exists a, dec c = DOk a /\ P a = true) ->
    exists l, dec_items dec items = Some l /\ forallb P l = true.
  Proof.
    induction items as [|c r IH]; intros H; [exists []; split; reflexivity|].
    destruct (H c (or_introl eq_refl)) as (a0 & E & Pa). destruct (IH (fun c0 Hc => H c0 (or_intror Hc))) as (l & El & Pl).
    exists (a0 :: l). cbn [dec_items forallb]. rewrite E, El, Pa, Pl. split; reflexivity.
  Qed.

  Notation rule_ok_prom := (rule_valid expr_ok dur_zero metric_ok lname_ok lvalue_ok tmpl_prom).

  (** ---- the group-level guard: everything plain, except that below the items of `rules` the rule-level guard applies
      (aliases as values of rule keys and of rule labels / annotations) ---- *)
  (** a rule item: [rule_guard] (aliases as values), or a rule with one merge key `<<: *anchor` ([merge_rule_guard]) *)
  Definition rule_item_guard (rn : node) : Prop :=
    rule_guard rn \/ exists pre mk mx post t, merge_rule_guard rn pre mk mx post t.

  Lemma rule_item_plain rn : rule_item_guard rn -> plain_node rn.
  Proof. intros [[H _]|(pre & mk & mx & post & t & H & _)]; exact H. Qed.

  Definition rules_guard (v : node) : Prop := plain_node v /\ forall rn, In rn (n_content v) -> rule_item_guard rn.

  Definition group_guard (gn : node) : Prop :=
    plain_node gn /\
    forall k v, In (k, v) (mapping_nodes gn) ->
      plain_below k /\ (n_value k = "rules" -> rules_guard v) /\ (n_value k <> "rules" -> leaf v).

  (** a value that is a plain subtree or an alias of one; when pint insists on a scalar NODE (name, interval, query_offset,
      limit: `entry.val.Kind != yaml.ScalarNode`) it is the plain one *)
  Lemma leaf_scalar_node x : leaf x -> n_kind x = KScalar -> plain_node x.
  Proof.
    intros (t & [[-> _]|(K & _)] & Hp) Kx; [exact (plain_self t Hp)|congruence].
  Qed.

  Lemma plain_group_guard gn : plain_below gn -> group_guard gn.
  Proof.
    intros H. split; [exact (plain_self gn H)|]. intros k v Hin. destruct (plain_pairs gn k v H Hin) as [A B].
    split; [exact A|]. split; [|intros _; exact (plain_leaf v B)]. intros _. split; [exact (plain_self v B)|].
    intros rn Hrn. left. apply plain_rule_guard. eapply plain_below_content; eassumption.
  Qed.

  Lemma unpack_items v : plain_node v -> (forall c, In c (n_content v) -> plain_node c) -> unpack_nodes v = n_content v.
  Proof.
    intros _ H. unfold unpack_nodes. apply unpack_loop_plain. intros c Hc. exact (plain_not_merge c (H c Hc)).
  Qed.

  Lemma km_of_kind x k : n_alias x = None -> n_kind x = k -> kind_mismatch x k = false.
  Proof.
    intros Ha K. unfold kind_mismatch. rewrite Ha, K. destruct ((n_tag x =? nullTag) && kind_eqb k KScalar)%bool; [reflexivity|].
    apply negb_false_iff. now apply kind_eqb_eq.
  Qed.

  Theorem group_sound gn :
    group_guard gn ->
    let g := PG lines gn in
    g_error g = None ->
    (forall r, In r (g_rules g) -> r_error r = None /\ rule_blocks expr_ok dur_ok tmpl_pint (g_labels g) r = false) ->
    (dec_group str_ok int_ok null_ok dur_ok gn = DNull /\ g_name g = "") \/
    (exists pg, dec_group str_ok int_ok null_ok dur_ok gn = DOk pg /\ pg_name pg = g_name g /\ g_name g <> "" /\
                forallb (label_ok lname_ok lvalue_ok) (pg_labels pg) = true /\ forallb rule_ok_prom (pg_rules pg) = true).
  Proof.
    intros Hp g Hge Hrules. pose proof (proj1 Hp) as Hgn.
    unfold g, parse_group in *. clear g.
    destruct (negb (is_tag (n_tag gn) mapTag) || kind_mismatch gn KMapping)%bool eqn:Et; [discriminate Hge|].
    apply orb_false_iff in Et. destruct Et as [Et Ekm]. apply negb_false_iff in Et.
    destruct (n_kind gn) eqn:K; try (destruct Hgn as (_ & _ & X); rewrite K in X; contradiction).
    - (* sequence: refused by kindMismatch *)
      exfalso. destruct (km_plain gn KMapping (proj1 Hgn) Ekm) as [X|[X _]]; congruence.
    - (* mapping *)
      right. set (ps := mapping_nodes gn) in *.
      assert (Hna : forall kv, In kv ps -> n_alias (fst kv) = None).
      { intros [k x] Hin. destruct (proj2 Hp k x Hin) as [Hpk _]. exact (proj1 (plain_self k Hpk)). }
      change (kind_eqb KMapping KMapping) with true in *.
      destruct (group_loop_spec true (n_line gn) ps empty_group [] Hna eq_refl Hge) as (F1 & F2 & F3 & F4 & F5 & F6).
      set (G := group_loop plines metric_ok lname_ok lvalue_ok dur_ok int_ok false lines true (n_line gn) empty_group [] ps) in *.
      cbn [empty_group g_name g_labels g_rules app] in F3, F4, F5.
      set (a := map (fun kv => (key_text kv, snd kv)) ps).
      (* keys *)
      assert (Hkeys : forall k v, In (k, v) ps -> In (n_value k) group_fields /\ n_value k <> "").
      { intros k v Hin. destruct (F1 k v Hin) as [Hok _]. unfold group_pair_ok in Hok.
        rewrite (node_value_noalias k (Hna (k, v) Hin)) in Hok.
        destruct Hok as [(E & _)|[([E|E] & _)|[(E & _)|[(E & _)|(E & _)]]]]; rewrite E; cbn; split; try tauto; discriminate. }
      assert (Hdec : dec_fields str_ok null_ok (Some group_fields) gn = DOk a).
      { apply dec_fields_plain; auto.
        - split; [|exact F2]. intros k v Hin. destruct (proj2 Hp k v Hin) as [Hpk _].
          pose proof (plain_self k Hpk) as Hkn. split; [exact Hkn|]. split.
          + apply plain_nonempty_scalar; auto. exact (proj2 (Hkeys k v Hin)).
          + exact (plain_mapping_keys gn k v Hgn K Hin).
        - intros fields E s0 Hs. inversion E; subst fields. apply in_map_iff in Hs. destruct Hs as ([k v] & <- & Hin).
          exact (proj1 (Hkeys k v Hin)). }
      assert (Lk : forall name, look name a = option_map snd (find_key name ps)).
      { intros name. unfold look, a. apply assoc_map_find. }
      (* the rules value *)
      assert (HR : match find_key "rules" ps with
                   | Some (_, v) => exists prs, dec_slice null_ok (dec_rule str_ok null_ok dur_ok) v = DOk prs /\ forallb rule_ok_prom prs = true \/
                                                dec_slice null_ok (dec_rule str_ok null_ok dur_ok) v = DNull /\ prs = []
                   | None => True end).
      { destruct (find_key "rules" ps) as [[kr vr]|] eqn:Fr; [|exact I].
        destruct (find_key_In _ _ _ _ Fr) as [Hin Ek]. destruct (F1 kr vr Hin) as [Hok _].
        destruct (proj2 Hp kr vr Hin) as (_ & Hrg & _). destruct (Hrg Ek) as [Hv Hitems].
        unfold group_pair_ok in Hok. rewrite (node_value_noalias kr (Hna (kr, vr) Hin)), Ek in Hok.
        destruct Hok as [(E & _)|[([E|E] & _)|[(E & _)|[(E & _)|(_ & Ht)]]]]; try discriminate E.
        destruct (km_plain vr KSequence (proj1 Hv) Ht) as [Kv|[Kv T]].
        2:{ exists []. right. split; [|reflexivity]. apply (dec_slice_null null_ok H_null); auto. }
        - unfold dec_slice. rewrite (deref_plain vr (proj1 Hv)), Kv.
          destruct (dec_items_ok (dec_rule str_ok null_ok dur_ok) rule_ok_prom (n_content vr)) as (prs & E1 & E2).
          { intros rn Hrn. pose proof (Hitems rn Hrn) as Hprn.
            assert (Hr : In (PRS lines rn) (g_rules G)).
            { rewrite F5. apply in_map. rewrite (unpack_items vr Hv (fun c Hc => rule_item_plain c (Hitems c Hc))). exact Hrn. }
            destruct (Hrules _ Hr) as [He Hb].
            destruct Hprn as [Hg|(pre & mk & mx & post & t & Hg)]; [eapply rule_sound; eauto|eapply rule_sound_merge; eauto]. }
          exists prs. left. rewrite E1. split; [reflexivity|exact E2]. }
      (* the labels value *)
      assert (HL : match find_key "labels" ps with
                   | Some (_, v) => exists m, dec_strmap str_ok null_ok v = DOk m /\ forallb (label_ok lname_ok lvalue_ok) m = true
                   | None => True end).
      { destruct (find_key "labels" ps) as [[kl vl]|] eqn:Fl; [|exact I].
        destruct (find_key_In _ _ _ _ Fl) as [Hin Ek]. destruct (F1 kl vl Hin) as [Hok _].
        destruct (proj2 Hp kl vl Hin) as (_ & _ & Hpv'). assert (Hlf : leaf vl) by (apply Hpv'; rewrite Ek; discriminate).
        (* fix 17469da: `labels: *anchor` is read through the anchor, like the loader does *)
        destruct Hlf as (vt & Hsee & Hpv). destruct (sees_deref vl vt Hsee) as [Dv Av]. pose proof (sees_tag vl vt Hsee) as Tv.
        pose proof (plain_self vt Hpv) as Hv.
        unfold group_pair_ok in Hok. rewrite (node_value_noalias kl (Hna (kl, vl) Hin)), Ek in Hok.
        destruct Hok as [(E & _)|[([E|E] & _)|[(E & _)|[(_ & T & Hkm & Hval & Hbad)|(E & _)]]]]; try discriminate E.
        assert (Kv : n_kind vt = KMapping).
        { destruct (km_cases vl KMapping Hkm) as [X|[_ X]]; rewrite Dv in X; [exact X|]. rewrite <- Tv, T in X. discriminate X. }
        rewrite Tv in T. rewrite Dv in Hval, Hbad.
        rewrite (dec_strmap_deref str_ok null_ok vl) by (now rewrite Dv). rewrite Dv.
        clear Dv Tv Hsee Hkm. rename vl into vl0. rename vt into vl.
        assert (Hkna : forall k v, In (k, v) (mapping_nodes vl) -> n_alias k = None).
        { intros k v Hkv. exact (proj1 (plain_self k (proj1 (plain_pairs vl k v Hpv Hkv)))). }
        assert (Hne : forall k v, In (k, v) (mapping_nodes vl) -> n_value k <> "").
        { intros k v Hkv E. destruct (bad_group_label_none _ Hkna Hbad k v Hkv) as (L1 & _). rewrite E in L1. congruence. }
        assert (Ht : kind_mismatch vl KMapping = false) by (exact (km_of_kind vl KMapping (proj1 Hv) Kv)).
        destruct (strmap_of_validated str_ok null_ok H_str H_null "labels" vl 0 (0, 0) (or_introl Hpv) Ht Hval Hne) as [[K' _]|[_ E]].
        { rewrite Kv in K'. discriminate. }
        exists (pairs_text (mapping_nodes vl)). split; [exact E|].
        apply forallb_forall. intros [a0 b0] Hab. unfold pairs_text in Hab. apply in_map_iff in Hab.
        destruct Hab as ([kk vv] & E0 & Hkv). inversion E0; subst a0 b0.
        destruct (bad_group_label_none _ Hkna Hbad kk vv Hkv) as (L1 & L2 & L3).
        unfold label_ok. cbn [fst snd]. change (key_text (kk, vv)) with (n_value kk). rewrite L1.
        apply String.eqb_neq in L2. rewrite L2. cbn [negb andb]. unfold str_val.
        destruct (String.eqb (n_tag (deref vv)) nullTag); [exact H_lvalue_empty|].
        now rewrite <- node_value_deref. }
      (* no field fails to decode *)
      assert (Herrs : existsb (group_field_err str_ok int_ok null_ok dur_ok) a = false).
      { apply not_true_is_false. intro X. apply existsb_exists in X.
        destruct X as ([name x] & Hin & Herr). apply in_map_iff in Hin. destruct Hin as ([k x'] & E & Hin).
        inversion E; subst name x'. clear E. change (key_text (k, x)) with (n_value k) in Herr.
        destruct (F1 k x Hin) as [Hok _].
        assert (Hx' : n_value k <> "rules" -> n_kind x = KScalar -> plain_node x).
        { intros Hk Kx. destruct (proj2 Hp k x Hin) as (_ & _ & Hpx). exact (leaf_scalar_node x (Hpx Hk) Kx). }
        unfold group_pair_ok in Hok. rewrite (node_value_noalias k (Hna (k, x) Hin)) in Hok.
        assert (Hsc : forall tag, scalar_with_tag x tag = true -> n_kind x = KScalar /\ n_tag x = tag).
        { intros tag Hs. unfold scalar_with_tag in Hs. apply andb_true_iff in Hs. destruct Hs as [A B].
          split; [now apply kind_eqb_eq|now apply String.eqb_eq]. }
        destruct Hok as [(E & Hs & Hne)|[([E|E] & Hs & Hd)|[(E & Hs & Hi)|[(E & T & Hkm & Hval & Hbad)|(E & Ht)]]]]; rewrite E in Herr; cbn in Herr;
          try (assert (Hx : n_kind x = KScalar -> plain_node x) by (apply Hx'; rewrite E; discriminate)).
        - destruct (Hsc _ Hs) as [Kx Tx]. specialize (Hx Kx).
          rewrite (dec_string_scalar str_ok null_ok H_str H_null x Hx Kx), Tx in Herr. cbn in Herr. discriminate.
        - destruct (Hsc _ Hs) as [Kx Tx]. specialize (Hx Kx).
          rewrite (dec_duration_scalar str_ok null_ok H_str H_null dur_ok x Hx Kx), Tx in Herr. cbn in Herr. rewrite Hd in Herr. discriminate.
        - destruct (Hsc _ Hs) as [Kx Tx]. specialize (Hx Kx).
          rewrite (dec_duration_scalar str_ok null_ok H_str H_null dur_ok x Hx Kx), Tx in Herr. cbn in Herr. rewrite Hd in Herr. discriminate.
        - destruct (Hsc _ Hs) as [Kx Tx]. specialize (Hx Kx). unfold dec_int in Herr. rewrite (deref_plain x (proj1 Hx)), Kx in Herr.
          rewrite (null_scalar_tag null_ok x) in Herr by (rewrite Tx; discriminate). rewrite Hi in Herr. discriminate.
        - assert (Fl : find_key "labels" ps = Some (k, x)).
          { destruct (find_key "labels" ps) as [[k' x']|] eqn:Fl.
            - destruct (find_key_In _ _ _ _ Fl) as [Hin' Ek'].
              assert (X : (k', x') = (k, x)) by (apply (nodup_key_unique ps); auto; congruence). now rewrite X.
            - exfalso. assert (X : In "labels" (map key_text ps)) by (apply in_map_iff; exists (k, x); split; [exact E|exact Hin]).
              revert X. apply find_none_iff. exact Fl. }
          rewrite Fl in HL. destruct HL as (m & Em & _). rewrite Em in Herr. discriminate.
        - assert (Fr : find_key "rules" ps = Some (k, x)).
          { destruct (find_key "rules" ps) as [[k' x']|] eqn:Fr.
            - destruct (find_key_In _ _ _ _ Fr) as [Hin' Ek'].
              assert (X : (k', x') = (k, x)) by (apply (nodup_key_unique ps); auto; congruence). now rewrite X.
            - exfalso. assert (X : In "rules" (map key_text ps)) by (apply in_map_iff; exists (k, x); split; [exact E|exact Hin]).
              revert X. apply find_none_iff. exact Fr. }
          rewrite Fr in HR. destruct HR as (prs & [(Er & _)|(Er & _)]); rewrite Er in Herr; discriminate. }
      (* the name *)
      assert (Hname_in : In "name" (map key_text ps)).
      { destruct (F6 (or_introl eq_refl)) as [Y|[]]. exact Y. }
      destruct (find_key "name" ps) as [[kn vn]|] eqn:Fn; [|exfalso; exact (find_none_iff _ _ Fn Hname_in)].
      destruct (find_key_In _ _ _ _ Fn) as [Hinn Ekn]. destruct (F1 kn vn Hinn) as [Hokn _].
      destruct (proj2 Hp kn vn Hinn) as (_ & _ & Hpvn'). assert (Hlfn : leaf vn) by (apply Hpvn'; rewrite Ekn; discriminate).
      unfold group_pair_ok in Hokn. rewrite (node_value_noalias kn (Hna (kn, vn) Hinn)), Ekn in Hokn.
      destruct Hokn as [(_ & Hs & Hne)|[([E|E] & _)|[(E & _)|[(E & _)|(E & _)]]]]; try discriminate E.
      unfold scalar_with_tag in Hs. apply andb_true_iff in Hs. destruct Hs as [Ks Ts]. apply kind_eqb_eq in Ks. apply String.eqb_eq in Ts.
      pose proof (leaf_scalar_node vn Hlfn Ks) as Hvn.
      assert (Dn : dec_string str_ok null_ok vn = DOk (n_value vn)).
      { rewrite (dec_string_scalar str_ok null_ok H_str H_null vn Hvn Ks), Ts. reflexivity. }
      unfold dec_group. rewrite Hdec, Herrs. eexists. split; [reflexivity|]. cbn [pg_name pg_labels pg_rules].
      unfold str_field, map_field, rules_field. rewrite !Lk, Fn. cbn [option_map snd]. rewrite Dn. cbn [dval].
      split; [now rewrite F3|]. split; [now rewrite F3|]. split.
      + destruct (find_key "labels" ps) as [[kl vl]|]; cbn [option_map snd]; [|reflexivity].
        destruct HL as (m & Em & Hm). rewrite Em. exact Hm.
      + destruct (find_key "rules" ps) as [[kr vr]|]; cbn [option_map snd dval]; [|reflexivity].
        destruct HR as (prs & [(Er & Hv)|(Er & _)]); rewrite Er; cbn [dval]; [exact Hv|reflexivity].
    - (* null scalar: dropped by Prometheus, an unnamed empty group for pint *)
      left. pose proof Hgn as Hgn'. destruct Hgn as (Ha & _ & C). rewrite K in C.
      assert (T : n_tag gn = nullTag) by (destruct (km_plain gn KMapping Ha Ekm) as [X|[_ X]]; [congruence|exact X]).
      split.
      + unfold dec_group. rewrite (dec_fields_null str_ok null_ok H_null _ gn Hgn' K T). reflexivity.
      + unfold mapping_nodes. rewrite C. reflexivity.
  Qed.

  (** ---- the sequence of groups ---- *)
  Notation group_ok_prom := (groups_valid expr_ok dur_zero metric_ok lname_ok lvalue_ok tmpl_prom).

  Definition pint_group_ok (g : group) : Prop :=
    g_error g = None /\
    forall r, In r (g_rules g) -> r_error r = None /\ rule_blocks expr_ok dur_ok tmpl_pint (g_labels g) r = false.

  Lemma groups_of_seq_spec : forall items names acc names' acc',
    groups_of_seq plines metric_ok lname_ok lvalue_ok dur_ok int_ok false lines items names acc = inr (names', acc') ->
    acc' = acc ++ map (PG lines) items.
  Proof.
    induction items as [|gn r IH]; intros names acc names' acc' H; cbn [groups_of_seq] in H.
    - inversion H; subst. now rewrite app_nil_r.
    - destruct (mem_str _ names); [discriminate|]. rewrite (IH _ _ _ _ H). cbn [map]. now rewrite <- app_assoc.
  Qed.

  Lemma groups_seq_sound : forall items names acc names' acc' seen,
    (forall gn, In gn items -> group_guard gn) ->
    groups_of_seq plines metric_ok lname_ok lvalue_ok dur_ok int_ok false lines items names acc = inr (names', acc') ->
    (forall gn, In gn items -> pint_group_ok (PG lines gn)) ->
    (forall s, In s seen -> In s names) ->
    exists pgs, dec_items (dec_group str_ok int_ok null_ok dur_ok) items = Some pgs /\ group_ok_prom pgs seen = true.
  Proof.
    induction items as [|gn r IH]; intros names acc names' acc' seen Hg H Hok Hseen; cbn [groups_of_seq] in H.
    - exists []. split; reflexivity.
    - destruct (mem_str (g_name (PG lines gn)) names) eqn:Dup; [discriminate|].
      pose proof (Hg gn (or_introl eq_refl)) as Hp. destruct (Hok gn (or_introl eq_refl)) as (He & Hr).
      destruct (group_sound gn Hp He Hr) as [(Ed & En)|(pg & Ed & En & Hne & Hl & Hrv)].
      + destruct (IH _ _ _ _ seen (fun g0 Hg0 => Hg g0 (or_intror Hg0)) H (fun g0 Hg0 => Hok g0 (or_intror Hg0))) as (pgs & E1 & E2).
        { intros s0 Hs0. right. exact (Hseen s0 Hs0). }
        exists pgs. cbn [dec_items]. rewrite Ed, E1. split; [reflexivity|exact E2].
      + destruct (IH _ _ _ _ (pg_name pg :: seen) (fun g0 Hg0 => Hg g0 (or_intror Hg0)) H (fun g0 Hg0 => Hok g0 (or_intror Hg0))) as (pgs & E1 & E2).
        { intros s0 [<-|Hs0]; [left; now rewrite En|right; exact (Hseen s0 Hs0)]. }
        exists (pg :: pgs). cbn [dec_items groups_valid]. rewrite Ed, E1. split; [reflexivity|].
        rewrite Hl, Hrv, E2.
        assert (X1 : PromLoader.is_empty (pg_name pg) = false) by (unfold PromLoader.is_empty; apply String.eqb_neq; now rewrite En).
        assert (X2 : mem_str (pg_name pg) seen = false).
        { apply not_true_is_false. intro X. apply mem_str_In in X. apply Hseen in X. rewrite En in X.
          apply mem_str_In in X. congruence. }
        rewrite X1, X2. reflexivity.
  Qed.
End Group.

Section Doc.
  Variable plines : list string -> node -> nat -> nat * nat.
  Variables metric_ok lname_ok lvalue_ok dur_ok expr_ok tmpl_pint tmpl_prom dur_zero : string -> bool.
  Variables str_ok int_ok null_ok : node -> bool.
  (** pint's own oracle for the strict pre-pass; the final theorem instantiates both with the same function (Proofs/C01_full.v) *)
  Variable null_okP : node -> bool.
  Hypothesis H_str : forall n, n_kind n = KScalar -> n_tag n <> nullTag -> str_ok n = true.
  Hypothesis H_null : forall n, n_kind n = KScalar -> n_tag n = nullTag -> null_ok n = true.
  Hypothesis H_tmpl : forall s, tmpl_pint s = true -> tmpl_prom s = true.
  Hypothesis H_lname_empty : lname_ok "" = false.
  Hypothesis H_lvalue_empty : lvalue_ok "" = true.
  Hypothesis H_tmpl_empty : tmpl_prom "" = true.
  Variable lines : list string.

  Notation PG := (parse_group plines metric_ok lname_ok lvalue_ok dur_ok int_ok false).

  (** ---- the document ---- *)
  Definition guards_doc (d : node) : Prop :=
    n_kind d = KDocument /\
    exists root, n_content d = [root] /\ plain_node root /\
                 forall k v, In (k, v) (mapping_nodes root) ->
                   plain_below k /\ plain_node v /\ forall gn, In gn (n_content v) -> group_guard gn.

  (** the alias-free fragment of the earlier rounds is inside the guard *)
  Lemma plain_guards_doc d root :
    n_kind d = KDocument -> n_content d = [root] -> plain_below root -> guards_doc d.
  Proof.
    intros Kd Cd Hp. split; [exact Kd|]. exists root. split; [exact Cd|]. split; [exact (plain_self root Hp)|].
    intros k v Hin. destruct (plain_pairs root k v Hp Hin) as [A B]. split; [exact A|]. split; [exact (plain_self v B)|].
    intros gn Hgn. apply plain_group_guard. eapply plain_below_content; eassumption.
  Qed.

  Notation blocks := (strict_blocks expr_ok dur_ok tmpl_pint).
  Notation PS := (parse_strict plines metric_ok lname_ok lvalue_ok dur_ok int_ok null_okP false).
  Notation accepts := (prom_accepts str_ok int_ok null_ok expr_ok dur_ok dur_zero metric_ok lname_ok lvalue_ok tmpl_prom).

  Lemma blocks_false_inv f :
    blocks f = false ->
    f_error f = None /\ forall g, In g (f_groups f) -> pint_group_ok dur_ok expr_ok tmpl_pint g.
  Proof.
    unfold strict_blocks. intros H.
    assert (Hall : forall e, In e (read_rules f) -> entry_blocks expr_ok dur_ok tmpl_pint e = false).
    { intros e He. destruct (entry_blocks expr_ok dur_ok tmpl_pint e) eqn:E; [|reflexivity].
      assert (X : existsb (entry_blocks expr_ok dur_ok tmpl_pint) (read_rules f) = true) by (apply existsb_exists; eauto). congruence. }
    unfold read_rules in Hall. destruct (f_error f) as [pe|] eqn:Fe.
    { specialize (Hall _ (or_introl eq_refl)). cbn in Hall. discriminate. }
    split; [reflexivity|]. intros g Hg. split.
    - destruct (g_error g) as [pe|] eqn:Ge; [|reflexivity].
      assert (X : In {| e_perr := Some pe; e_rule := zero_rule; e_glabels := None |}
                     (flat_map (fun g0 => (match g_error g0 with Some e => [{| e_perr := Some e; e_rule := zero_rule; e_glabels := None |}] | None => [] end)
                                          ++ map (fun r => {| e_perr := None; e_rule := r; e_glabels := g_labels g0 |}) (g_rules g0)) (f_groups f))).
      { apply in_flat_map. exists g. split; [exact Hg|]. rewrite Ge. left. reflexivity. }
      specialize (Hall _ X). cbn in Hall. discriminate.
    - intros r Hr.
      assert (X : In {| e_perr := None; e_rule := r; e_glabels := g_labels g |}
                     (flat_map (fun g0 => (match g_error g0 with Some e => [{| e_perr := Some e; e_rule := zero_rule; e_glabels := None |}] | None => [] end)
                                          ++ map (fun r => {| e_perr := None; e_rule := r; e_glabels := g_labels g0 |}) (g_rules g0)) (f_groups f))).
      { apply in_flat_map. exists g. split; [exact Hg|]. apply in_or_app. right. apply in_map_iff. exists r. split; [reflexivity|exact Hr]. }
      specialize (Hall _ X). unfold entry_blocks, has_error in Hall. cbn [e_perr e_rule e_glabels] in Hall.
      destruct (r_error r); [discriminate Hall|]. split; [reflexivity|exact Hall].
  Qed.

  Theorem doc_sound d nl :
    guards_doc d -> blocks (PS lines [(d, nl)] None) = false -> accepts [d] = true.
  Proof.
    intros (Kd & root & Cd & Hroot & Hp) Hb.
    destruct (blocks_false_inv _ Hb) as [Hfe Hgs]. clear Hb.
    fold (pint_group_ok dur_ok expr_ok tmpl_pint) in Hgs.
    unfold parse_strict in *. cbn [parse_strict_loop] in *.
    set (L := firstn nl lines) in *.
    destruct (too_big d) eqn:TB; [discriminate Hfe|].
    destruct (strict_prepass null_okP d) as [e0|] eqn:PP; [discriminate Hfe|].
    destruct (parse_groups plines metric_ok lname_ok lvalue_ok dur_ok int_ok false L d) as [e|gs] eqn:PGs; [discriminate Hfe|].
    cbn [app f_groups] in Hgs. clear Hfe.
    unfold parse_groups in PGs.
    assert (Hu : unpack_nodes d = [root]).
    { unfold unpack_nodes. rewrite Cd. apply unpack_loop_plain. intros c [<-|[]]. exact (plain_not_merge root Hroot). }
    rewrite Hu in PGs. cbn [groups_of_roots] in PGs.
    destruct (negb (is_tag (n_tag root) mapTag) || kind_mismatch root KMapping)%bool eqn:Et; [discriminate PGs|].
    apply orb_false_iff in Et. destruct Et as [Et Ekm]. apply negb_false_iff in Et.
    destruct (groups_of_entries plines metric_ok lname_ok lvalue_ok dur_ok int_ok false L (mapping_nodes root) false [] [])
      as [e|[n1 a1]] eqn:GE; [discriminate PGs|]. inversion PGs; subst a1. clear PGs.
    unfold prom_accepts, load_doc. rewrite Cd.
    destruct (n_kind root) eqn:K; try (destruct Hroot as (_ & _ & X); rewrite K in X; contradiction).
    - exfalso. destruct (km_plain root KMapping (proj1 Hroot) Ekm) as [X|[X _]]; congruence.
    - (* mapping *)
      set (ps := mapping_nodes root) in *.
      destruct ps as [|[k v] rest] eqn:Eps.
      + assert (Hd : dec_fields str_ok null_ok (Some ["groups"]) root = DOk []).
        { rewrite (dec_fields_plain str_ok int_ok null_ok H_str (Some ["groups"]) root Hroot K); fold ps; rewrite Eps; [reflexivity| |].
          - split; [intros ? ? []|constructor].
          - intros fields _ s0 []. }
        rewrite Hd. reflexivity.
      + cbn [groups_of_entries] in GE.
        destruct (negb (n_tag k =? strTag)) eqn:E1; [discriminate GE|].
        destruct (negb (node_value k =? "groups")) eqn:E2; [discriminate GE|]. apply negb_false_iff, String.eqb_eq in E2.
        destruct (negb (is_tag (n_tag v) seqTag) || kind_mismatch v KSequence)%bool eqn:E3; [discriminate GE|].
        apply orb_false_iff in E3. destruct E3 as [_ E3].
        destruct (groups_of_seq plines metric_ok lname_ok lvalue_ok dur_ok int_ok false L (unpack_nodes v) [] []) as [e|[n2 a2]] eqn:GS; [discriminate GE|].
        pose proof (groups_of_entries_true _ _ _ _ _ _ _ _ _ _ _ _ GE) as Hrest. subst rest.
        cbn [groups_of_entries] in GE. inversion GE; subst n1 gs. clear GE.
        assert (Hin : In (k, v) (mapping_nodes root)) by (fold ps; rewrite Eps; left; reflexivity).
        destruct (Hp k v (or_introl eq_refl)) as (Hpk & Hv & Hgroups).
        pose proof (plain_self k Hpk) as Hk.
        rewrite (node_value_plain k Hk) in E2.
        assert (Hd : dec_fields str_ok null_ok (Some ["groups"]) root = DOk [("groups", v)]).
        { rewrite (dec_fields_plain str_ok int_ok null_ok H_str (Some ["groups"]) root Hroot K); fold ps; rewrite Eps.
          - cbn [map]. change (key_text (k, v)) with (n_value k). now rewrite E2.
          - split.
            + intros k0 v0 [X|[]]. inversion X; subst k0 v0. split; [exact Hk|]. split.
              * apply plain_nonempty_scalar; auto. rewrite E2. discriminate.
              * apply (plain_mapping_keys root k v Hroot K). exact Hin.
            + cbn [map]. constructor; [intros []|constructor].
          - intros fields Ef s0 Hs. inversion Ef; subst fields. cbn [map] in Hs. destruct Hs as [<-|[]].
            change (key_text (k, v)) with (n_value k). rewrite E2. left. reflexivity. }
        rewrite Hd. cbn [look assoc String.eqb Ascii.eqb Bool.eqb].
        destruct (km_plain v KSequence (proj1 Hv) E3) as [Kv|[Kv T]]; [unfold dec_slice; rewrite (deref_plain v (proj1 Hv))|].
        2:{ rewrite (dec_slice_null null_ok H_null _ v Hv Kv T). reflexivity. }
        * rewrite Kv.
          rewrite (unpack_items v Hv (fun c Hc => proj1 (Hgroups c Hc))) in GS.
          pose proof (groups_of_seq_spec _ _ _ _ _ _ _ _ _ _ _ _ GS) as Ha2. cbn [app] in Ha2.
          destruct (groups_seq_sound plines metric_ok lname_ok lvalue_ok dur_ok expr_ok tmpl_pint tmpl_prom dur_zero str_ok int_ok null_ok
                                     H_str H_null H_tmpl H_lname_empty H_lvalue_empty H_tmpl_empty L (n_content v) [] [] n2 a2 []) as (pgs & E1' & E2'); auto.
          { intros gn Hgn. apply Hgs. rewrite Ha2. apply in_map. exact Hgn. }
          rewrite E1'. exact E2'.
    - (* null document root *)
      pose proof Hroot as Hroot'. destruct Hroot as (Ha & _ & C). rewrite K in C.
      assert (T : n_tag root = nullTag) by (destruct (km_plain root KMapping Ha Ekm) as [X|[_ X]]; [congruence|exact X]).
      rewrite (dec_fields_null str_ok null_ok H_null _ root Hroot' K T). reflexivity.
  Qed.

  (** The general statement over whatever stream yaml.v3 returned: strict mode never passes a stream with a yaml
      error or with two or more documents, and the empty stream is accepted by Prometheus. *)
  Theorem stream_sound ds yerr :
    (forall d nl, ds = [(d, nl)] -> guards_doc d) ->
    blocks (PS lines ds yerr) = false -> accepts (map fst ds) = true.
  Proof.
    intros Hg Hb. destruct ds as [|[d nl] [|[d2 nl2] r]].
    - reflexivity.
    - destruct yerr as [e|].
      + exfalso. destruct (blocks_false_inv _ Hb) as [Hfe _]. unfold parse_strict in Hfe. cbn [parse_strict_loop] in Hfe.
        destruct (too_big d); [discriminate Hfe|].
        destruct (strict_prepass null_okP d); [discriminate Hfe|].
        destruct (parse_groups _ _ _ _ _ _ _ _ d); cbn in Hfe; discriminate.
      + exact (doc_sound d nl (Hg d nl eq_refl) Hb).
    - exfalso. destruct (blocks_false_inv _ Hb) as [Hfe _]. unfold parse_strict in Hfe. cbn [parse_strict_loop] in Hfe.
      destruct (too_big d); [discriminate Hfe|].
      destruct (strict_prepass null_okP d); [discriminate Hfe|].
      destruct (parse_groups _ _ _ _ _ _ _ _ d); [discriminate Hfe|].
      destruct (too_big d2); [discriminate Hfe|].
      destruct (strict_prepass null_okP d2); [discriminate Hfe|].
      destruct (parse_groups _ _ _ _ _ _ _ _ d2); [discriminate Hfe|].
      revert Hfe. apply strict_loop_multi; [lia|]. cbn. discriminate.
  Qed.
End Doc.
