(** List lemmas used by the C14 invariants (plain stdlib lists). *)
From Coq Require Import List Arith Bool Lia Permutation.
From PintV Require Import Model.KeyLock.
Import ListNotations.

Lemma mem_In x l : mem x l = true <-> In x l.
Proof.
  induction l as [|y r IH]; cbn; [split; [discriminate | tauto]|].
  rewrite orb_true_iff, IH, Nat.eqb_eq. split; intros [H|H]; auto.
Qed.

Lemma mem_false x l : mem x l = false <-> ~ In x l.
Proof. rewrite <- mem_In. destruct (mem x l); split; congruence. Qed.

Lemma remove1_In x y l : In y (remove1 x l) -> In y l.
Proof.
  induction l as [|z r IH]; cbn; [tauto|]. destruct (Nat.eqb x z); cbn; [auto|]. intros [H|H]; auto.
Qed.

Lemma remove1_In_neq x y l : In y l -> y <> x -> In y (remove1 x l).
Proof.
  induction l as [|z r IH]; cbn; [tauto|]. intros [->|H] N.
  - destruct (Nat.eqb_spec x y); [congruence | left; reflexivity].
  - destruct (Nat.eqb x z); [exact H | right; auto].
Qed.

Lemma remove1_NoDup x l : NoDup l -> NoDup (remove1 x l).
Proof.
  induction 1 as [|z r Hz Hr IH]; cbn; [constructor|]. destruct (Nat.eqb x z); [exact Hr|].
  constructor; [|exact IH]. intros H. apply Hz. eapply remove1_In; eauto.
Qed.

Lemma remove1_NoDup_notin x l : NoDup l -> ~ In x (remove1 x l).
Proof.
  induction 1 as [|z r Hz Hr IH]; cbn; [tauto|]. destruct (Nat.eqb_spec x z) as [->|N]; [exact Hz|].
  intros [H|H]; [congruence | auto].
Qed.

Lemma remove1_perm x l : In x l -> Permutation l (x :: remove1 x l).
Proof.
  induction l as [|z r IH]; cbn; [tauto|]. destruct (Nat.eqb_spec x z) as [->|N]; [reflexivity|].
  intros [H|H]; [congruence|]. rewrite perm_swap. constructor. auto.
Qed.

Lemma lookup_In k v l : lookup k l = Some v -> In (k, v) l.
Proof.
  induction l as [|[k' v'] r IH]; cbn; [discriminate|]. destruct (Nat.eqb_spec k k') as [->|N].
  - intros [= ->]. left. reflexivity.
  - intros H. right. auto.
Qed.

Lemma lookup_None k l : lookup k l = None <-> ~ In k (map fst l).
Proof.
  induction l as [|[k' v'] r IH]; cbn; [tauto|]. destruct (Nat.eqb_spec k k') as [->|N].
  - split; [discriminate | intros H; exfalso; apply H; left; reflexivity].
  - rewrite IH. split; [intros H [E|E]; [congruence | auto] | intros H E; apply H; right; exact E].
Qed.

Lemma lookup_NoDup k v l : NoDup (map fst l) -> In (k, v) l -> lookup k l = Some v.
Proof.
  induction l as [|[k' v'] r IH]; cbn; [tauto|]. intros ND [E|E].
  - injection E as -> ->. rewrite Nat.eqb_refl. reflexivity.
  - inversion ND as [|? ? Hn Hr]; subst. destruct (Nat.eqb_spec k k') as [->|N]; [|auto].
    exfalso. apply Hn. change k' with (fst (k', v)). apply in_map. exact E.
Qed.

Lemma drop_keys_In ev p l : In p (drop_keys ev l) <-> In p l /\ ~ In (fst p) ev.
Proof. unfold drop_keys. rewrite filter_In, negb_true_iff, mem_false. tauto. Qed.

Lemma drop_keys_NoDup ev l : NoDup (map fst l) -> NoDup (map fst (drop_keys ev l)).
Proof.
  induction l as [|[k v] r IH]; cbn; [constructor|]. intros ND. inversion ND as [|? ? Hn Hr]; subst.
  destruct (negb (mem k ev)); cbn; [|auto]. constructor; [|auto].
  intros H. apply Hn. apply in_map_iff in H. destruct H as [p [E Hp]]. apply drop_keys_In in Hp.
  apply in_map_iff. exists p. tauto.
Qed.

Lemma drop_keys_lookup_None ev k l : lookup k l = None -> lookup k (drop_keys ev l) = None.
Proof.
  rewrite !lookup_None. intros H E. apply H. apply in_map_iff in E. destruct E as [p [E Hp]].
  apply drop_keys_In in Hp. apply in_map_iff. exists p. tauto.
Qed.

(** [upd] *)
Lemma upd_same {A} (f : nat -> A) i v : upd f i v i = v.
Proof. unfold upd. rewrite Nat.eqb_refl. reflexivity. Qed.

Lemma upd_other {A} (f : nat -> A) i v j : j <> i -> upd f i v j = f j.
Proof. unfold upd. intros H. destruct (Nat.eqb_spec j i); congruence. Qed.

(** Worker job lists *)
Definition wl (f : nat -> wstate) (l : list nat) : list job := flat_map (fun w => wjob (f w)) l.

Lemma wl_upd_notin f w0 x l : ~ In w0 l -> wl (upd f w0 x) l = wl f l.
Proof.
  unfold wl. induction l as [|w r IH]; cbn; [reflexivity|]. intros H.
  rewrite upd_other by (intros ->; apply H; left; reflexivity). rewrite IH; [reflexivity|].
  intros E. apply H. right. exact E.
Qed.

Lemma seq_split3 n w0 : w0 < n -> seq 0 n = seq 0 w0 ++ [w0] ++ seq (S w0) (n - S w0).
Proof.
  intros H. replace n with (w0 + (1 + (n - S w0))) at 1 by lia.
  rewrite seq_app. reflexivity.
Qed.

(** The job list of the pool splits around worker [w0]; the parts [A], [B] do not depend on worker [w0]. *)
Lemma wl_split f n w0 : w0 < n ->
  exists A B, wl f (seq 0 n) = A ++ wjob (f w0) ++ B /\
              forall x, wl (upd f w0 x) (seq 0 n) = A ++ wjob x ++ B.
Proof.
  intros H. exists (wl f (seq 0 w0)), (wl f (seq (S w0) (n - S w0))). split.
  - rewrite (seq_split3 n w0 H). unfold wl. rewrite !flat_map_app. cbn. rewrite app_nil_r. reflexivity.
  - intros x. rewrite (seq_split3 n w0 H). unfold wl. rewrite !flat_map_app. cbn. rewrite app_nil_r.
    rewrite upd_same. f_equal; [|f_equal].
    + apply wl_upd_notin. rewrite in_seq. lia.
    + apply wl_upd_notin. rewrite in_seq. lia.
Qed.

Lemma wl_In f l j : In j (wl f l) <-> exists w, In w l /\ In j (wjob (f w)).
Proof. unfold wl. apply in_flat_map. Qed.

Lemma NoDup_app_l {A} (l1 l2 : list A) : NoDup (l1 ++ l2) -> NoDup l1.
Proof. induction l1; cbn; [constructor|]. inversion 1; subst. constructor; [rewrite in_app_iff in *; tauto | auto]. Qed.

Lemma NoDup_app_r {A} (l1 l2 : list A) : NoDup (l1 ++ l2) -> NoDup l2.
Proof. induction l1; cbn; [auto|]. inversion 1; auto. Qed.

Lemma NoDup_app_disj {A} (l1 l2 : list A) x : NoDup (l1 ++ l2) -> In x l1 -> In x l2 -> False.
Proof.
  induction l1 as [|a r IH]; cbn; [tauto|]. intros ND. inversion ND as [|? ? Hn Hr]; subst. intros [->|Hx1] Hx2.
  - rewrite in_app_iff in Hn. tauto.
  - eauto.
Qed.

(** In a duplicate-free concatenation over distinct indices, one element cannot come from two indices. *)
Lemma NoDup_flat_map_disjoint {A B} (f : A -> list B) l a b x :
  NoDup (flat_map f l) -> NoDup l -> In a l -> In b l -> a <> b -> In x (f a) -> In x (f b) -> False.
Proof.
  induction l as [|c r IH]; cbn; [tauto|]. intros ND NDl. inversion NDl as [|? ? Hc Hr]; subst.
  intros [->|Ha] [->|Hb] N Xa Xb.
  - congruence.
  - eapply (NoDup_app_disj (f a)); eauto. apply in_flat_map. eauto.
  - eapply (NoDup_app_disj (f b)); eauto. apply in_flat_map. eauto.
  - eapply IH; eauto. eapply NoDup_app_r; eauto.
Qed.

Lemma length_flat_map_le {A} (f : nat -> list A) l :
  (forall w, length (f w) <= 1) -> length (flat_map f l) <= length l.
Proof.
  intros H. induction l as [|w r IH]; cbn; [lia|]. rewrite app_length. specialize (H w). lia.
Qed.

(** Pairwise-injective projection keeps duplicate-freeness. *)
Lemma NoDup_map_inj_on {A B} (g : A -> B) l :
  NoDup l -> (forall a b, In a l -> In b l -> g a = g b -> a = b) -> NoDup (map g l).
Proof.
  induction 1 as [|a r Ha Hr IH]; cbn; [constructor|]. intros Hinj. constructor.
  - intros H. apply in_map_iff in H. destruct H as [b [E Hb]].
    assert (b = a) by (apply Hinj; [right; exact Hb | left; reflexivity | exact E]). subst. auto.
  - apply IH. intros; apply Hinj; auto; right; auto.
Qed.

(** Sub-list (order preserving) of a duplicate-free list. *)
Inductive sublist {A} : list A -> list A -> Prop :=
| sl_nil : sublist [] []
| sl_skip x l1 l2 : sublist l1 l2 -> sublist l1 (x :: l2)
| sl_keep x l1 l2 : sublist l1 l2 -> sublist (x :: l1) (x :: l2).

Lemma sublist_In {A} (l1 l2 : list A) x : sublist l1 l2 -> In x l1 -> In x l2.
Proof. induction 1; cbn; intros; auto. destruct H0; auto. Qed.

Lemma sublist_NoDup {A} (l1 l2 : list A) : sublist l1 l2 -> NoDup l2 -> NoDup l1.
Proof.
  induction 1; intros ND; [constructor | inversion ND; auto |].
  inversion ND; subst. constructor; [|auto]. intros Hx. eapply sublist_In in Hx; eauto.
Qed.

Lemma sublist_refl {A} (l : list A) : sublist l l.
Proof. induction l; [constructor | apply sl_keep; auto]. Qed.

Lemma sublist_app {A} (a1 a2 b1 b2 : list A) : sublist a1 a2 -> sublist b1 b2 -> sublist (a1 ++ b1) (a2 ++ b2).
Proof. induction 1; cbn; intros; auto; [apply sl_skip | apply sl_keep]; auto. Qed.

Lemma sublist_nil {A} (l : list A) : sublist [] l.
Proof. induction l; [constructor | apply sl_skip; auto]. Qed.

Lemma sublist_map {A B} (g : A -> B) l1 l2 : sublist l1 l2 -> sublist (map g l1) (map g l2).
Proof. induction 1; cbn; [constructor | apply sl_skip | apply sl_keep]; auto. Qed.

Lemma sublist_flat_map {A B} (f g : A -> list B) l :
  (forall a, sublist (f a) (g a)) -> sublist (flat_map f l) (flat_map g l).
Proof. intros H. induction l; cbn; [constructor | apply sublist_app; auto]. Qed.
