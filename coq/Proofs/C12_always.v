(** C12: [unless on()] and [or on()] verdicts are sound when the deciding operand is [always_ne]. *)
From Coq Require Import List String Bool Floats NArith Arith Lia.
From PintV Require Import Common.Bytes Gen.C04 Model.PromQL Model.Source Model.PromSem Model.PromFrag Model.PromAlways
  Proofs.C04_lists Proofs.C04_transfer Proofs.C04_walk Proofs.C04_sound Proofs.C04_calls Proofs.C04_binops Proofs.C04_main
  Proofs.C12_musthave Proofs.C12_join.
Import ListNotations.
Open Scope string_scope.
Open Scope list_scope.

Section Always.
  Variable db : list labelset.

  Definition NE (R : result) : Prop := exists R0, R = RVec R0 /\ R0 <> [].

  Definition A (e : expr) : Prop := always_ne e = true -> forall R, Sem db e R -> NE R.

  Lemma mem_ls_nonempty x R : mem_ls x R = true -> R <> [].
  Proof. destruct R; simpl; [discriminate | intros _; discriminate]. Qed.

  Lemma subset_nonempty C R : subset_ls C R = true -> C <> [] -> R <> [].
  Proof.
    destruct C as [|c r]; [congruence|]. simpl. intros H _. apply andb_true_iff in H. destruct H as [H _].
    eapply mem_ls_nonempty; eauto.
  Qed.

  Lemma seteq_nonempty R C : seteq_ls R C = true -> C <> [] -> R <> [].
  Proof. unfold seteq_ls. intros H. apply andb_true_iff in H. destruct H as [_ H]. apply subset_nonempty; auto. Qed.

  Lemma map_nonempty {X Y} (f : X -> Y) l : l <> [] -> map f l <> [].
  Proof. destruct l; simpl; [congruence | discriminate]. Qed.

  Lemma A_paren e : A e -> A (EParen e).
  Proof.
    intros IH Ha R HS. cbn [always_ne] in Ha.
    apply Sem_inv in HS. destruct HS as [cs [Hc Hl]]. cbn [children] in Hc.
    apply Forall2_1 in Hc. destruct Hc as [c [-> Hc]]. destruct (IH Ha _ Hc) as [C [-> Hne]].
    destruct R as [| |R0| |]; try discriminate. cbn [local] in Hl. apply Some_true_inj in Hl.
    exists R0. split; auto. eapply seteq_nonempty; eauto.
  Qed.

  Lemma A_unary b e : A e -> A (EUnary b e).
  Proof.
    intros IH Ha R HS. cbn [always_ne] in Ha.
    apply Sem_inv in HS. destruct HS as [cs [Hc Hl]]. cbn [children] in Hc.
    apply Forall2_1 in Hc. destruct Hc as [c [-> Hc]]. destruct (IH Ha _ Hc) as [C [-> Hne]].
    destruct R as [| |R0| |]; try discriminate. cbn [local] in Hl. apply Some_true_inj in Hl.
    exists R0. split; auto. eapply seteq_nonempty; eauto. destruct b; auto. apply map_nonempty; auto.
  Qed.

  Lemma A_agg op w g p e : A e -> A (EAgg op w g p e).
  Proof.
    intros IH Ha R HS. cbn [always_ne] in Ha.
    apply Sem_inv in HS. destruct HS as [cs [Hc Hl]].
    assert (Hcore : forall C R0, C <> [] -> agg_rule op w g p C R0 = Some true -> R0 <> []).
    { intros C R0 Hne Hr. destruct op; try discriminate; cbn [agg_rule] in Hr; apply Some_true_inj in Hr;
        try (eapply seteq_nonempty; [exact Hr | apply map_nonempty; exact Hne]).
      apply andb_true_iff in Hr. destruct Hr as [_ Hr]. destruct C as [|c r]; [congruence|].
      simpl in Hr. apply andb_true_iff in Hr. destruct Hr as [Hr _].
      apply mem_ls_nonempty in Hr. intro E. subst R0. simpl in Hr. congruence. }
    assert (Ha' : always_ne e = true) by (destruct op; try discriminate; exact Ha).
    destruct p as [pe|]; cbn [children] in Hc.
    - apply Forall2_2 in Hc. destruct Hc as [cp [c [-> [_ Hc]]]]. destruct (IH Ha' _ Hc) as [C [-> Hne]].
      cbn [local] in Hl. destruct cp; destruct R as [| |R0| |]; try discriminate; exists R0; split; eauto.
    - apply Forall2_1 in Hc. destruct Hc as [c [-> Hc]]. destruct (IH Ha' _ Hc) as [C [-> Hne]].
      cbn [local] in Hl. destruct R as [| |R0| |]; try discriminate; exists R0; split; eauto.
  Qed.

  Lemma nth_always_spec : forall args i,
    (fix nth_always (l' : list expr) (i : nat) {struct l'} : bool :=
       match l' with
       | [] => false
       | a :: r => match i with O => always_ne a | S k => nth_always r k end
       end) args i = true ->
    exists a, nth_error args i = Some a /\ always_ne a = true.
  Proof.
    induction args as [|a r IH]; intros i H; [discriminate|].
    destruct i as [|i]; simpl; [eauto | apply IH; exact H].
  Qed.

  Lemma A_call f ats args : Forall A args -> A (ECall f ats args).
  Proof.
    intros IH Ha R HS. cbn [always_ne] in Ha. rewrite Forall_forall in IH.
    apply Sem_inv in HS. destruct HS as [cs [Hc Hl]]. cbn [children] in Hc.
    cbn [local] in Hl. unfold call_rule in Hl.
    destruct (sem_class f) eqn:Ec; try discriminate.
    - destruct exact; [|discriminate].
      destruct (first_vec_arg ats (List.length args) 0) as [i|] eqn:Ef; [|discriminate].
      apply nth_always_spec in Ha. destruct Ha as [a [Hn Haa]].
      destruct R as [| |R0| |]; try discriminate.
      destruct (nth_error cs i) as [C|] eqn:En; [|discriminate].
      destruct (is_series_result C) eqn:Es; [|discriminate]. apply Some_true_inj in Hl.
      destruct (Forall2_nth _ _ _ _ _ Hc En) as [a' [Ha' HSa]]. rewrite Hn in Ha'. inversion Ha'; subst a'.
      destruct (IH a (nth_error_In _ _ Hn) Haa _ HSa) as [C0 [-> Hne]].
      exists R0. split; auto. unfold map_rule in Hl. apply andb_true_iff in Hl. destruct Hl as [_ Hl].
      cbn [series_of] in Hl. eapply subset_nonempty; [exact Hl|]. destruct keep_name; auto. apply map_nonempty; auto.
    - destruct R as [| |R0| |]; try discriminate. apply Some_true_inj in Hl. exists R0. split; auto.
      eapply seteq_nonempty; [exact Hl | discriminate].
    - destruct args as [|a [|a2 ar]]; [| |discriminate].
      + inversion Hc; subst.
        destruct R as [| |R0| |]; try discriminate. apply Some_true_inj in Hl. exists R0. split; auto.
        eapply seteq_nonempty; [exact Hl | discriminate].
      + apply Forall2_1 in Hc. destruct Hc as [c [-> HSa]].
        destruct (IH a (or_introl eq_refl) Ha _ HSa) as [C0 [-> Hne]].
        destruct R as [| |R0| |]; try discriminate. apply Some_true_inj in Hl. exists R0. split; auto.
        unfold map_rule in Hl. apply andb_true_iff in Hl. destruct Hl as [_ Hl].
        eapply subset_nonempty; [exact Hl | apply map_nonempty; auto].
  Qed.

  Lemma A_bin op rb vm a b : A a -> A b -> A (EBin op rb vm a b).
  Proof.
    intros IHa IHb Ha R HS. cbn [always_ne] in Ha.
    apply Sem_inv in HS. destruct HS as [cs [Hc Hl]]. cbn [children] in Hc.
    apply Forall2_2 in Hc. destruct Hc as [cl [cr [-> [HSa HSb]]]].
    destruct vm as [vm|].
    - destruct op; try discriminate. destruct (IHa Ha _ HSa) as [Cl [-> Hne]].
      cbn [local] in Hl. destruct cr as [| |Cr| |]; try discriminate; destruct R as [| |R0| |]; try discriminate.
      apply and_opt_true in Hl. destruct Hl as [Hl _].
      cbn [bin_rule] in Hl. apply Some_true_inj in Hl. exists R0. split; auto.
      eapply seteq_nonempty; [exact Hl|]. destruct Cl; [congruence | discriminate].
    - assert (Ha' : negb (is_setop op) && negb (is_comparison op && negb rb) && (always_ne a || always_ne b) = true)
        by (destruct op; exact Ha).
      clear Ha. rename Ha' into Ha.
      apply andb_true_iff in Ha. destruct Ha as [Ha Hor]. apply andb_true_iff in Ha. destruct Ha as [Hset Hcmp].
      apply negb_true_iff in Hset. apply negb_true_iff in Hcmp.
      cbn [local] in Hl. apply orb_true_iff in Hor.
      destruct cl as [| |V| |]; try discriminate; destruct cr as [| |V'| |]; try discriminate;
        destruct R as [| |R0| |]; try discriminate.
      + destruct Hor as [Hor|Hor]; [destruct (IHa Hor _ HSa) as [? [E _]] | destruct (IHb Hor _ HSb) as [? [E _]]]; discriminate.
      + destruct Hor as [Hor|Hor]; [destruct (IHa Hor _ HSa) as [? [E _]]; discriminate|].
        destruct (IHb Hor _ HSb) as [V0 [E Hne]]. inversion E; subst V0.
        apply and_opt_true in Hl. destruct Hl as [Hl _].
        unfold binscalar_rule in Hl. rewrite Hset, Hcmp in Hl. apply Some_true_inj in Hl.
        exists R0. split; auto. eapply seteq_nonempty; [exact Hl | apply map_nonempty; auto].
      + destruct Hor as [Hor|Hor]; [|destruct (IHb Hor _ HSb) as [? [E _]]; discriminate].
        destruct (IHa Hor _ HSa) as [V0 [E Hne]]. inversion E; subst V0.
        apply and_opt_true in Hl. destruct Hl as [Hl _].
        unfold binscalar_rule in Hl. rewrite Hset, Hcmp in Hl. apply Some_true_inj in Hl.
        exists R0. split; auto. eapply seteq_nonempty; [exact Hl | apply map_nonempty; auto].
  Qed.

  Theorem always_ne_sound : forall e, A e.
  Proof.
    induction e using expr_ind'; try (intros Ha; discriminate).
    - apply A_paren; auto. - apply A_unary; auto. - apply A_agg; auto. - apply A_call; auto. - apply A_bin; auto.
  Qed.

  Lemma sig_match_on_empty vm a b : on_empty vm = true -> sig_match vm a b = true.
  Proof.
    unfold on_empty, sig_match. intros H. apply andb_true_iff in H. destruct H as [H1 H2]. rewrite H1.
    destruct (vm_labels vm); [reflexivity | discriminate].
  Qed.

  (** [l unless on() r] with [r] always non-empty returns nothing: the verdict on the left hand side is true *)
  Theorem unless_on_empty_dead rb vm r Cl Cr R :
    on_empty vm = true -> always_ne r = true -> Sem db r (RVec Cr) ->
    bin_rule OUnless rb vm Cl Cr R = Some true -> R = [].
  Proof.
    intros Hon Ha HSr Hl. destruct (always_ne_sound r Ha _ HSr) as [C [E Hne]]. inversion E; subst C.
    cbn [bin_rule] in Hl. apply Some_true_inj in Hl. apply seteq_nil.
    rewrite (filter_none _ Cl) in Hl; auto. intros x _. apply negb_false_iff.
    destruct Cr as [|c cr]; [congruence|]. simpl. rewrite (sig_match_on_empty vm x c Hon). reflexivity.
  Qed.

  (** [l or on() r] with [l] always non-empty: the right hand side contributes nothing *)
  Theorem or_on_empty_rhs_dead rb vm l Cl Cr R :
    on_empty vm = true -> always_ne l = true -> Sem db l (RVec Cl) ->
    bin_rule OOr rb vm Cl Cr R = Some true -> bin_rule OOr rb vm Cl [] R = Some true.
  Proof.
    intros Hon Ha HSl Hl. destruct (always_ne_sound l Ha _ HSl) as [C [E Hne]]. inversion E; subst C.
    cbn [bin_rule] in *. rewrite (filter_none _ Cr) in Hl; auto. intros x _. apply negb_false_iff.
    destruct Cl as [|c cl]; [congruence|]. simpl. rewrite (sig_match_on_empty vm c x Hon). reflexivity.
  Qed.
End Always.
