(** State assignment of GitBranchFinder.Find on top of match_entries: soundness of Noop, one output per HEAD rule,
    changed rules are never Noop, untouched rules are Noop (counting argument over the greedy first pass). *)
From Coq Require Import List String ZArith NArith Bool Lia Permutation.
From PintV Require Import Common.Bytes Model.GitBranch Proofs.C03_match.
Import ListNotations.
Open Scope string_scope.
Open Scope list_scope.

Lemma list_str_eqb_eq a b : list_str_eqb a b = true <-> a = b.
Proof.
  revert b. induction a as [|x a IH]; destruct b as [|y b]; simpl; split; intro H; try reflexivity; try discriminate.
  - apply andb_true_iff in H. destruct H as [H1 H2]. apply String.eqb_eq in H1. apply IH in H2. congruence.
  - inversion H; subst. rewrite String.eqb_refl. simpl. apply IH. reflexivity.
Qed.

Lemma insert_str_perm x l : Permutation (x :: l) (insert_str x l).
Proof.
  induction l as [|y r IH]; simpl; auto.
  destruct (str_leb x y); auto.
  eapply Permutation_trans; [apply perm_swap|]. constructor. exact IH.
Qed.

Lemma sort_str_perm l : Permutation l (sort_str l).
Proof.
  induction l as [|x r IH]; simpl; auto.
  eapply Permutation_trans; [|apply insert_str_perm]. constructor. exact IH.
Qed.

(** equal sorted lists = same disabled checks as multisets *)
Lemma entry_identical_perm b a :
  entry_identical b a = true -> Permutation (e_disabled b) (e_disabled a).
Proof.
  unfold entry_identical. intro H. apply list_str_eqb_eq in H.
  eapply Permutation_trans; [apply sort_str_perm|]. rewrite H. apply Permutation_sym. apply sort_str_perm.
Qed.

Lemma moved_false a b : moved a b = false <-> e_path a = e_path b.
Proof. unfold moved. rewrite negb_false_iff. apply String.eqb_eq. Qed.

(** set_state keeps everything but state and modified lines *)
Lemma set_state_state e s ml : e_state (set_state e s ml) = s.
Proof. reflexivity. Qed.
Lemma is_identical_set_state_l e s ml b : is_identical (set_state e s ml) b = is_identical e b.
Proof. reflexivity. Qed.

(** * what assign can produce *)
Lemma assign_cases c m e :
  In e (assign c m) ->
  match m with
  | OnlyAfter a => e = set_state a Added (common_lines (ci_mod c) (e_mod a))
  | Both b a i mv =>
      (i = true /\ mv = false /\ e = set_state a Noop []) \/
      (mv = true /\ e = set_state a Moved (count_lines (ci_after_lines c))) \/
      (i = false /\ mv = false /\ e = set_state a Modified (common_lines (ci_mod c) (e_mod a)))
  | OnlyBefore b => failed (ci_after c) = false /\ exists ml, e = set_state b Removed ml
  end.
Proof.
  destruct m as [a|b a i mv|b]; simpl.
  - intros [<-|[]]. reflexivity.
  - destruct i, mv; simpl; intros [<-|[]]; auto.
  - destruct (failed (ci_after c)); [intros []|]. intros [<-|[]]. split; auto. eexists. reflexivity.
Qed.

(** * Noop is sound: identical content, same path, same disabled checks *)
Lemma noop_sound c e :
  In e (change_entries c) -> e_state e = Noop ->
  exists a b, In a (ci_after c) /\ In b (ci_before c) /\ e = set_state a Noop [] /\
    is_identical a b = true /\ e_path a = e_path b /\
    sort_str (e_disabled b) = sort_str (e_disabled a) /\ e_name a <> "".
Proof.
  unfold change_entries. intros Hin Hs. apply in_flat_map in Hin. destruct Hin as [m [Hm He]].
  pose proof (assign_cases _ _ _ He) as Hc. destruct m as [a|b a i mv|b].
  - subst e. discriminate.
  - destruct Hc as [(-> & -> & ->)|[(-> & ->)|(-> & -> & ->)]]; try discriminate.
    destruct (match_both_members _ _ _ _ _ _ Hm) as [Hb Ha].
    destruct (match_both_sound _ _ _ _ _ _ Hm) as [Hmv [(Hi & Hei & Hn)|(Hf & _)]]; [|discriminate].
    exists a, b. repeat split; auto.
    + apply moved_false. auto.
    + symmetry in Hei. unfold entry_identical in Hei. apply list_str_eqb_eq in Hei. exact Hei.
  - destruct Hc as [_ [ml ->]]. discriminate.
Qed.

(** * every HEAD entry yields exactly one output entry, in order, with a non-Removed known state;
      base entries only ever yield Removed *)
Definition from_after (e a : entry) : Prop :=
  exists s ml, e = set_state a s ml /\ (s = Noop \/ s = Added \/ s = Modified \/ s = Moved).

Lemma assign_after c m :
  match m with OnlyBefore _ => False | _ => True end ->
  exists e a, assign c m = [e] /\ after_of m = [a] /\ from_after e a.
Proof.
  destruct m as [a|b a i mv|b]; simpl; intros H; [| |contradiction].
  - eexists _, a. repeat split. eexists _, _. split; [reflexivity|]. auto.
  - destruct i, mv; simpl; eexists _, a; repeat split; eexists _, _; (split; [reflexivity|]); auto.
Qed.

Lemma flat_assign_afters c ml :
  no_only_before ml -> Forall2 from_after (flat_map (assign c) ml) (afters_of ml).
Proof.
  induction ml as [|m r IH]; intro Hno; simpl; [constructor|].
  assert (Hm : match m with OnlyBefore _ => False | _ => True end) by (apply Hno; left; auto).
  destruct (assign_after c m Hm) as (e & a & -> & -> & Hf). simpl. constructor; auto.
  apply IH. intros x Hx. apply Hno. right. exact Hx.
Qed.

Lemma flat_assign_only_before c bs e :
  In e (flat_map (assign c) (map OnlyBefore bs)) -> e_state e = Removed /\ exists b, In b bs /\ exists ml, e = set_state b Removed ml.
Proof.
  intro H. apply in_flat_map in H. destruct H as [m [Hm He]].
  apply in_map_iff in Hm. destruct Hm as [b [<- Hb]].
  apply assign_cases in He. destruct He as [_ [ml ->]]. split; auto. exists b. split; auto. eexists; reflexivity.
Qed.

Lemma change_entries_split c :
  exists heads removed,
    change_entries c = heads ++ removed /\
    Forall2 from_after heads (ci_after c) /\
    (forall e, In e removed -> e_state e = Removed /\ exists b, In b (ci_before c) /\ exists ml, e = set_state b Removed ml).
Proof.
  unfold change_entries.
  destruct (match_entries_unfold (ci_before c) (ci_after c)) as (ml1 & b1 & ml2 & b2 & P1 & P2 & E).
  pose proof (match_afters (ci_before c) (ci_after c)) as Ha.
  pose proof (match_befores_perm (ci_before c) (ci_after c)) as Hp.
  rewrite E in *. rewrite flat_map_app.
  destruct (pass1_spec _ _ _ _ P1) as (_ & _ & Hn1 & _).
  destruct (pass2_spec _ _ _ _ Hn1 P2) as (_ & _ & Hn2 & _).
  eexists _, _. split; [reflexivity|]. split.
  - rewrite afters_of_app, afters_of_only_before, app_nil_r in Ha. rewrite <- Ha. apply flat_assign_afters. exact Hn2.
  - intros e He. destruct (flat_assign_only_before _ _ _ He) as [Hs [b [Hb Hml]]]. split; auto.
    exists b. split; auto. eapply Permutation_in; [exact Hp|].
    rewrite befores_of_app, befores_of_only_before. apply in_or_app. right. exact Hb.
Qed.

(** every base rule that was not paired is emitted as Removed (unless the HEAD file has path errors) *)
Lemma unmatched_removed c b :
  In (OnlyBefore b) (match_entries (ci_before c) (ci_after c)) ->
  failed (ci_after c) = false ->
  exists ml, In (set_state b Removed ml) (change_entries c).
Proof.
  intros Hm Hf. unfold change_entries. eexists. apply in_flat_map. exists (OnlyBefore b). split; auto.
  simpl. rewrite Hf. left. reflexivity.
Qed.

(** * a changed rule is never Noop *)
Lemma changed_not_noop c e :
  In e (change_entries c) ->
  (forall b, In b (ci_before c) -> is_identical e b = false) ->
  e_state e <> Noop.
Proof.
  intros Hin Hno Hs. destruct (noop_sound _ _ Hin Hs) as (a & b & _ & Hb & -> & Hi & _).
  specialize (Hno b Hb). rewrite is_identical_set_state_l in Hno. congruence.
Qed.

(** * untouched rules are paired with an identical base rule: counting over the greedy first pass *)
Definition count_id (x : entry) (l : list entry) : nat := List.length (filter (is_identical x) l).
Definition count_idn (x : entry) (l : list entry) : nat :=
  List.length (filter (fun a => is_identical x a && negb (String.eqb (e_name a) "")) l).

Lemma count_idn_le x l : (count_idn x l <= count_id x l)%nat.
Proof.
  unfold count_idn, count_id. induction l as [|a r IH]; simpl; auto.
  destruct (is_identical x a); simpl; [|exact IH].
  destruct (negb (String.eqb (e_name a) "")); simpl; lia.
Qed.

Lemma count_id_perm x l1 l2 : Permutation l1 l2 -> count_id x l1 = count_id x l2.
Proof.
  unfold count_id. induction 1; simpl; auto.
  - destruct (is_identical x x0); simpl; congruence.
  - destruct (is_identical x x0), (is_identical x y); simpl; reflexivity.
  - congruence.
Qed.

Lemma is_identical_class x a b : is_identical a b = true -> is_identical x b = is_identical x a.
Proof.
  intro H. destruct (is_identical x a) eqn:E.
  - eapply is_identical_trans; eauto.
  - destruct (is_identical x b) eqn:E2; auto.
    rewrite is_identical_sym in H. rewrite (is_identical_trans _ _ _ E2 H) in E. discriminate.
Qed.

Lemma is_identical_refl a : is_identical a a = true.
Proof. apply is_identical_spec. auto. Qed.

Lemma pass1_unpaired_count : forall after before ml bf,
  pass1 after before = (ml, bf) ->
  forall a', In (OnlyAfter a') ml -> e_name a' <> "" ->
  (count_id a' before < count_idn a' after)%nat.
Proof.
  induction after as [|a r IH]; intros before ml bf H a' Hin Hne; simpl in H.
  - inversion H; subst. destruct Hin.
  - destruct (String.eqb (e_name a) "") eqn:En.
    + destruct (pass1 r before) as [ml' bf'] eqn:P. inversion H; subst.
      destruct Hin as [E|Hin].
      * inversion E; subst. apply String.eqb_eq in En. contradiction.
      * specialize (IH _ _ _ P _ Hin Hne). unfold count_idn in *. simpl.
        destruct (is_identical a' a && negb (e_name a =? "")); simpl; lia.
    + destruct (take_identical a before) as [[b before']|] eqn:T.
      * destruct (pass1 r before') as [ml' bf'] eqn:P. inversion H; subst.
        destruct Hin as [E|Hin]; [discriminate|].
        specialize (IH _ _ _ P _ Hin Hne).
        destruct (take_identical_some _ _ _ _ T) as [Hi _].
        rewrite (count_id_perm a' _ _ (take_identical_perm _ _ _ _ T)).
        unfold count_id, count_idn in *. simpl.
        rewrite (is_identical_class a' a b Hi). rewrite En. simpl.
        destruct (is_identical a' a); simpl; lia.
      * destruct (pass1 r before) as [ml' bf'] eqn:P. inversion H; subst.
        destruct Hin as [E|Hin].
        -- inversion E; subst a'.
           assert (Hz : count_id a before = 0%nat).
           { unfold count_id. pose proof (take_identical_none _ _ T) as Hnone.
             clear -Hnone. induction before as [|x l IHl]; simpl; auto.
             rewrite (Hnone x (or_introl eq_refl)). apply IHl. intros y Hy. apply Hnone. right; auto. }
           rewrite Hz. unfold count_idn. simpl. rewrite is_identical_refl, En. simpl. lia.
        -- specialize (IH _ _ _ P _ Hin Hne). unfold count_idn in *. simpl.
           destruct (is_identical a' a && negb (e_name a =? "")); simpl; lia.
Qed.

(** If the base file has at least as many copies of the content of [a] as the HEAD file, every occurrence
    of [a] at HEAD is paired with an identical base rule. *)
Lemma untouched_paired before after a m :
  e_name a <> "" ->
  (count_id a after <= count_id a before)%nat ->
  In m (match_entries before after) -> In a (after_of m) ->
  exists b, m = Both b a (entry_identical b a) (moved a b) /\ is_identical a b = true /\ In b before.
Proof.
  intros Hne Hcnt Hm Ha.
  destruct (match_entries_unfold before after) as (ml1 & b1 & ml2 & b2 & P1 & P2 & E).
  assert (Hunp : ~ In (OnlyAfter a) ml1).
  { intro Hin. pose proof (pass1_unpaired_count _ _ _ _ P1 _ Hin Hne) as Hlt.
    pose proof (count_idn_le a after). lia. }
  destruct (pass1_spec _ _ _ _ P1) as (_ & _ & Hn1 & Hb1 & _).
  destruct (pass2_spec _ _ _ _ Hn1 P2) as (_ & _ & _ & Hb2 & _ & Hoa).
  pose proof Hm as Hm0. rewrite E in Hm. apply in_app_or in Hm. destruct Hm as [Hm|Hm].
  - destruct m as [a0|b a0 i mv|b]; simpl in Ha.
    + destruct Ha as [<-|[]]. exfalso. apply Hunp. apply Hoa. exact Hm.
    + destruct Ha as [<-|[]]. specialize (Hb2 _ Hm). simpl in Hb2.
      destruct Hb2 as [Hin|(_ & _ & _ & Hin)]; [|contradiction].
      specialize (Hb1 _ Hin). simpl in Hb1. destruct Hb1 as (Hi & -> & -> & _).
      exists b. repeat split; auto.
      destruct (match_both_members _ _ _ _ _ _ Hm0) as [Hb _]. exact Hb.
    + destruct Ha.
  - apply in_map_iff in Hm. destruct Hm as [x [<- _]]. destruct Ha.
Qed.

(** ... and therefore classified Noop when path and disabled checks agree with the identical base rules *)
Lemma untouched_noop c a m :
  e_name a <> "" ->
  (count_id a (ci_after c) <= count_id a (ci_before c))%nat ->
  (forall b, In b (ci_before c) -> is_identical a b = true ->
     e_path b = e_path a /\ sort_str (e_disabled b) = sort_str (e_disabled a)) ->
  In m (match_entries (ci_before c) (ci_after c)) -> In a (after_of m) ->
  assign c m = [set_state a Noop []].
Proof.
  intros Hne Hcnt Hsame Hm Ha.
  destruct (untouched_paired _ _ _ _ Hne Hcnt Hm Ha) as (b & -> & Hi & Hb).
  destruct (Hsame b Hb Hi) as [Hp Hd].
  simpl. assert (E1 : entry_identical b a = true).
  { unfold entry_identical. apply list_str_eqb_eq. exact Hd. }
  assert (E2 : moved a b = false) by (apply moved_false; auto).
  rewrite E1, E2. reflexivity.
Qed.

(** moved files: an untouched rule of a renamed file is Moved *)
Lemma untouched_moved c a m :
  e_name a <> "" ->
  (count_id a (ci_after c) <= count_id a (ci_before c))%nat ->
  (forall b, In b (ci_before c) -> e_path b <> e_path a) ->
  In m (match_entries (ci_before c) (ci_after c)) -> In a (after_of m) ->
  assign c m = [set_state a Moved (count_lines (ci_after_lines c))].
Proof.
  intros Hne Hcnt Hp Hm Ha.
  destruct (untouched_paired _ _ _ _ Hne Hcnt Hm Ha) as (b & -> & Hi & Hb).
  simpl. assert (E2 : moved a b = true).
  { unfold moved. apply negb_true_iff. apply String.eqb_neq. intro E. apply (Hp b Hb). auto. }
  rewrite E2. destruct (entry_identical b a); reflexivity.
Qed.
