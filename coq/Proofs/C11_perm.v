(** C11: permutation invariance of Summary.Report -> SortReports -> Dedup -> render under H1 and H2. *)
From Coq Require Import List String Ascii ZArith NArith Bool Lia Permutation Sorted.
From PintV Require Import Common.Bytes Common.Sorting Gen.Tables Model.Severity Model.SummarySort Proofs.C11_order.
From PintV Require Proofs.C05_exit.
From PintV Require Import Proofs.C11_stable_sort.
Import ListNotations.
Local Open Scope nat_scope.

(* ---------------------------------------------------------------------------------------------- *)
(** * isEqual *)

Lemma diag_eqb_refl d : diag_eqb d d = true.
Proof. unfold diag_eqb. now rewrite !Z.eqb_refl, String.eqb_refl, N.eqb_refl. Qed.

Lemma is_same_diags_perm sa sb : Permutation sa sb -> is_same_diags sa sb = true.
Proof.
  intros P. unfold is_same_diags. rewrite (Permutation_length P), Nat.eqb_refl. cbn.
  apply forallb_forall. intros a Ha. apply existsb_exists. exists a. split; [|apply diag_eqb_refl].
  now apply (Permutation_in _ P).
Qed.

Lemma is_equal_refl r : is_equal r r = true.
Proof.
  unfold is_equal. rewrite !String.eqb_refl, !Z.eqb_refl, N.eqb_refl. cbn.
  now rewrite is_same_diags_perm.
Qed.

Lemma is_equal_sev a b : is_equal a b = true -> r_sev a = r_sev b.
Proof.
  unfold is_equal. rewrite !andb_true_iff. intros H. destruct H as [_ H]. apply Z.eqb_eq in H. auto.
Qed.

(** equal after the diagnostic sort => isEqual (everything isEqual reads is a field of the model record) *)
Lemma is_equal_of_norm_eq a b : norm a = norm b -> is_equal a b = true.
Proof.
  intros E. unfold norm in E. injection E as E1 E2 E3 E4 E5 E6 E7 E8 E9 E10 E11 E12 E13.
  unfold is_equal. rewrite E1, E2, E3, E4, E6, E7, E8, E10, E11, E12.
  rewrite !String.eqb_refl, !Z.eqb_refl, N.eqb_refl. cbn. rewrite andb_true_r.
  apply is_same_diags_perm. unfold sort_diags in E9.
  transitivity (isort diag_lt (r_diags b)); [symmetry; apply isort_perm|rewrite <- E9; apply isort_perm].
Qed.

(** isSameDiagnostics is symmetric on lists without repeated (columns, message, position) tuples *)
Definition triple (d : diag) := (dg_first d, dg_last d, dg_msg d, dg_extra d).

Lemma diag_eqb_triple a b : diag_eqb a b = true <-> triple a = triple b.
Proof.
  unfold diag_eqb, triple. rewrite !andb_true_iff, !Z.eqb_eq, String.eqb_eq, N.eqb_eq. split.
  - intros [[[-> ->] ->] ->]. reflexivity.
  - intros E. injection E as -> -> -> ->. auto.
Qed.

Lemma is_same_diags_incl sa sb :
  is_same_diags sa sb = true <-> (List.length sa = List.length sb /\ incl (map triple sa) (map triple sb)).
Proof.
  unfold is_same_diags. rewrite andb_true_iff, Nat.eqb_eq, forallb_forall. split; intros [L H]; split; auto.
  - intros t Ht. apply in_map_iff in Ht. destruct Ht as (a & <- & Ha).
    specialize (H a Ha). apply existsb_exists in H. destruct H as (b & Hb & E). apply diag_eqb_triple in E.
    rewrite E. now apply in_map.
  - intros a Ha. apply existsb_exists. assert (Ht : In (triple a) (map triple sb)) by (apply H; now apply in_map).
    apply in_map_iff in Ht. destruct Ht as (b & E & Hb). exists b. split; auto. now apply diag_eqb_triple.
Qed.

Lemma is_same_diags_sym_nodup sa sb :
  NoDup (map triple sa) -> is_same_diags sa sb = true -> is_same_diags sb sa = true.
Proof.
  intros ND H. apply is_same_diags_incl in H. destruct H as [L I]. apply is_same_diags_incl. split; auto.
  apply NoDup_length_incl; auto. rewrite !map_length. lia.
Qed.

(** H1's symmetry part for the code as it is now: isEqual is symmetric whenever the diagnostics of the
    left report carry no repeated (columns, message) triple *)
Lemma is_equal_sym_nodup a b :
  NoDup (map triple (r_diags b)) -> is_equal a b = true -> is_equal b a = true.
Proof.
  intros ND. unfold is_equal. rewrite !andb_true_iff, !String.eqb_eq, !Z.eqb_eq, !N.eqb_eq.
  intros [[[[[[[[[[E1 E2] E3] E4] E5] E6] E7] E8] E9] E10] E11].
  repeat split; auto. now apply is_same_diags_sym_nodup.
Qed.

(* ---------------------------------------------------------------------------------------------- *)
(** * Summary.Report over a stream *)

Definition pairwise_ne (l : list report) : Prop := ForallOrdPairs (fun a b => is_equal a b = false) l.

Lemma FOP_snoc {A} (R : A -> A -> Prop) l x :
  ForallOrdPairs R l -> Forall (fun a => R a x) l -> ForallOrdPairs R (l ++ [x]).
Proof.
  induction 1 as [|a l Ha Hl IH]; intros Hx; cbn.
  - constructor; constructor.
  - inversion Hx as [|? ? Hax Hx']; subst. constructor; [|now apply IH].
    rewrite Forall_forall in *. intros y Hy. apply in_app_or in Hy. destruct Hy as [Hy|[<-|[]]]; auto.
Qed.

Lemma fold_summary_incl s acc x :
  In x (fold_left summary_report s acc) -> In x acc \/ In x s.
Proof.
  revert acc. induction s as [|r s IH]; intros acc H; cbn in H; auto.
  apply IH in H. destruct H as [H|H]; [|right; now right].
  unfold summary_report in H. destruct (has_report acc r); auto.
  apply in_app_or in H. destruct H as [H|[<-|[]]]; auto. right; now left.
Qed.

Lemma collect_incl s x : In x (collect s) -> In x s.
Proof. intros H. apply fold_summary_incl in H. destruct H as [[]|H]; auto. Qed.

Lemma fold_summary_acc s acc x : In x acc -> In x (fold_left summary_report s acc).
Proof.
  revert acc. induction s as [|r s IH]; intros acc H; cbn; auto.
  apply IH. unfold summary_report. destruct (has_report acc r); auto. apply in_or_app; now left.
Qed.

Lemma fold_summary_covers s acc r :
  In r s -> exists er, In er (fold_left summary_report s acc) /\ is_equal er r = true.
Proof.
  revert acc. induction s as [|x s IH]; intros acc H; [destruct H|]. destruct H as [<-|H]; cbn.
  - unfold summary_report. destruct (has_report acc x) eqn:E.
    + apply existsb_exists in E. destruct E as (er & Her & E). exists er. split; auto. now apply fold_summary_acc.
    + exists x. split; [|apply is_equal_refl]. apply fold_summary_acc. apply in_or_app. right; now left.
  - now apply IH.
Qed.

Lemma collect_covers s r : In r s -> exists er, In er (collect s) /\ is_equal er r = true.
Proof. apply fold_summary_covers. Qed.

Lemma fold_summary_pairwise s acc : pairwise_ne acc -> pairwise_ne (fold_left summary_report s acc).
Proof.
  revert acc. induction s as [|r s IH]; intros acc H; cbn; auto.
  apply IH. unfold summary_report. destruct (has_report acc r) eqn:E; auto.
  apply FOP_snoc; auto. rewrite Forall_forall. intros a Ha.
  destruct (is_equal a r) eqn:E2; auto. exfalso.
  assert (has_report acc r = true) by (apply existsb_exists; eauto). congruence.
Qed.

Lemma collect_pairwise s : pairwise_ne (collect s).
Proof. apply fold_summary_pairwise. constructor. Qed.

Lemma pairwise_nodup_norm l : pairwise_ne l -> NoDup (map norm l).
Proof.
  induction 1 as [|a l Ha Hl IH]; cbn; constructor; auto.
  intros Hin. apply in_map_iff in Hin. destruct Hin as (b & E & Hb).
  rewrite Forall_forall in Ha. specialize (Ha b Hb).
  rewrite (is_equal_of_norm_eq a b) in Ha by auto. discriminate.
Qed.

(* ---------------------------------------------------------------------------------------------- *)
(** * The hypotheses *)

(** H1: on the elements of the stream, isEqual is symmetric and implies equality of every rendered field
    (the model record after the diagnostic sort). *)
Definition H1 (s : list report) : Prop :=
  forall a b, In a s -> In b s -> is_equal a b = true -> is_equal b a = true /\ norm a = norm b.

(** H2: the sort key (7 scalar keys + first diagnostic) is injective on the isEqual-classes of the stream. *)
Definition H2 (s : list report) : Prop :=
  forall a b, In a s -> In b s -> sort_key (norm a) = sort_key (norm b) -> is_equal a b = true.

Lemma H1_perm s s' : Permutation s s' -> H1 s -> H1 s'.
Proof. intros P H a b Ha Hb. apply H; apply (Permutation_in _ (Permutation_sym P)); assumption. Qed.

Lemma H2_perm s s' : Permutation s s' -> H2 s -> H2 s'.
Proof. intros P H a b Ha Hb. apply H; apply (Permutation_in _ (Permutation_sym P)); assumption. Qed.

(** the surviving set, up to rendered fields, does not depend on the arrival order *)
Lemma survivors_perm s s' :
  H1 s -> Permutation s s' -> Permutation (map norm (collect s)) (map norm (collect s')).
Proof.
  intros Hh P. apply NoDup_Permutation; try (apply pairwise_nodup_norm, collect_pairwise).
  assert (forall s1 s2, H1 s1 -> Permutation s1 s2 -> forall x, In x (map norm (collect s1)) -> In x (map norm (collect s2))) as K.
  { intros s1 s2 Hh1 P12 x Hx. apply in_map_iff in Hx. destruct Hx as (a & <- & Ha).
    apply collect_incl in Ha. assert (Ha2 : In a s2) by (eapply Permutation_in; eauto).
    destruct (collect_covers s2 a Ha2) as (er & Her & E).
    assert (Her1 : In er s1) by (eapply Permutation_in; [apply Permutation_sym; eauto|now apply collect_incl]).
    destruct (Hh1 er a Her1 Ha E) as [_ En]. rewrite <- En. now apply in_map. }
  intros x; split; [apply (K s s'); auto|apply (K s' s); auto using Permutation_sym]. eapply H1_perm; eauto.
Qed.

(** on the survivors the comparator is a strict total order *)
Section Survivors.
  Variable s : list report.
  Hypothesis Hh2 : H2 s.
  Let dom := map norm (collect s).

  Lemma key_eq_same x y : In x dom -> In y dom -> kcmp x y = Eq -> x = y.
  Proof.
    unfold dom. intros Hx Hy E. apply in_map_iff in Hx, Hy.
    destruct Hx as (a & <- & Ha), Hy as (b & <- & Hb).
    pose proof (collect_pairwise s) as PW.
    destruct (ForallOrdPairs_In PW a b Ha Hb) as [->|[N|N]]; auto; exfalso.
    - apply kcmp_eq_sort_key in E. rewrite (Hh2 a b) in N; auto using collect_incl. discriminate.
    - assert (E' : kcmp (norm b) (norm a) = Eq) by (rewrite (ok_anti _ ok_kcmp), E; reflexivity).
      apply kcmp_eq_sort_key in E'. rewrite (Hh2 b a) in N; auto using collect_incl. discriminate.
  Qed.

  Lemma surv_trans a b c : In a dom -> In b dom -> In c dom ->
    R report_lt a b -> R report_lt b c -> R report_lt a c.
  Proof.
    unfold R. intros Ha Hb Hc Hab Hbc. apply report_lt_spec in Hab, Hbc.
    destruct Hab as [Hab|[Hab _]]; [|apply key_eq_same in Hab; auto; subst; now apply report_lt_spec].
    destruct Hbc as [Hbc|[Hbc _]]; [|apply key_eq_same in Hbc; auto; subst; apply report_lt_spec; now left].
    apply report_lt_spec. left. eapply (ok_trans _ ok_kcmp); eauto.
  Qed.

  Lemma surv_total a b : In a dom -> In b dom -> a <> b -> R report_lt a b \/ R report_lt b a.
  Proof.
    unfold R. intros Ha Hb Hne. destruct (kcmp a b) eqn:E.
    - exfalso. apply Hne. now apply key_eq_same.
    - left. apply report_lt_spec. now left.
    - right. apply report_lt_spec. left. now apply (ok_gt_lt _ ok_kcmp).
  Qed.

  Lemma surv_asym a b : In a dom -> In b dom -> a <> b -> R report_lt a b -> R report_lt b a -> False.
  Proof.
    unfold R. intros Ha Hb Hne Hab Hba. apply report_lt_spec in Hab, Hba.
    destruct Hab as [Hab|[Hab _]]; [|apply Hne; now apply key_eq_same].
    destruct Hba as [Hba|[Hba _]]; [|apply Hne; symmetry; now apply key_eq_same].
    rewrite (ok_anti _ ok_kcmp), Hab in Hba. discriminate.
  Qed.

  Lemma surv_nodup : NoDup dom.
  Proof. apply pairwise_nodup_norm, collect_pairwise. Qed.

  Lemma surv_sort_spec : List.length (collect s) <= block_size -> sort_spec report_lt dom.
  Proof.
    intros L. apply sort_spec_small.
    - unfold dom. now rewrite map_length.
    - apply surv_nodup.
    - apply surv_trans.
    - apply surv_total.
  Qed.
  (** any number of survivors: Go's whole stable sort (insertion-sorted blocks + symMerge) is covered *)
  Lemma surv_sort_spec_any : sort_spec report_lt dom.
  Proof.
    apply (go_stable_sort_spec report_lt dom surv_trans surv_total); [apply incl_refl|apply surv_nodup].
  Qed.
End Survivors.

(** * Main lemma *)
Lemma process_perm_invariant_gen s s' :
  H1 s -> H2 s -> Permutation s s' ->
  sort_spec report_lt (map norm (collect s)) -> sort_spec report_lt (map norm (collect s')) ->
  process s' = process s.
Proof.
  intros Hh1 Hh2 P S1 S2. unfold process, sort_reports. f_equal. symmetry.
  apply stable_sort_perm_invariant; auto.
  - now apply survivors_perm.
  - now apply surv_nodup.
  - now apply surv_trans.
  - now apply surv_asym.
Qed.

Lemma collect_length_perm s s' : H1 s -> Permutation s s' -> List.length (collect s') = List.length (collect s).
Proof.
  intros Hh P. rewrite <- (map_length norm (collect s')), <- (map_length norm (collect s)).
  symmetry. apply Permutation_length. now apply survivors_perm.
Qed.

Lemma process_perm_invariant_small s s' :
  H1 s -> H2 s -> Permutation s s' -> List.length (collect s) <= block_size -> process s' = process s.
Proof.
  intros Hh1 Hh2 P L. apply process_perm_invariant_gen; auto.
  - now apply surv_sort_spec.
  - apply surv_sort_spec; [eapply H2_perm; eauto|]. now rewrite (collect_length_perm s s').
Qed.

Lemma process_perm_invariant s s' :
  H1 s -> H2 s -> Permutation s s' -> process s' = process s.
Proof.
  intros Hh1 Hh2 P. apply process_perm_invariant_gen; auto.
  - now apply surv_sort_spec_any.
  - apply surv_sort_spec_any. eapply H2_perm; eauto.
Qed.

(* ---------------------------------------------------------------------------------------------- *)
(** * Exit status: unconditional *)

Lemma collect_sev_iff (Q : Z -> Prop) s :
  (exists r, In r (collect s) /\ Q (r_sev r)) <-> (exists r, In r s /\ Q (r_sev r)).
Proof.
  split; intros (r & Hr & Hq).
  - exists r. split; auto. now apply collect_incl.
  - destruct (collect_covers s r Hr) as (er & Her & E). exists er. split; auto.
    now rewrite (is_equal_sev er r E).
Qed.

Lemma reaches_iff failOn t :
  (exists v, In v (map r_sev (collect t)) /\ (failOn <= v)%Z) <-> (exists r, In r t /\ (failOn <= r_sev r)%Z).
Proof.
  rewrite <- (collect_sev_iff (fun v => (failOn <= v)%Z) t). split.
  - intros (v & Hv & Hle). apply in_map_iff in Hv. destruct Hv as (r & <- & Hr). eauto.
  - intros (r & Hr & Hle). exists (r_sev r). split; auto. now apply in_map.
Qed.

Lemma reaches_perm failOn s s' : Permutation s s' ->
  (exists r, In r s' /\ (failOn <= r_sev r)%Z) <-> (exists r, In r s /\ (failOn <= r_sev r)%Z).
Proof.
  intros P. split; intros (r & Hr & Hle); exists r; split; auto.
  - apply (Permutation_in _ (Permutation_sym P)); assumption.
  - apply (Permutation_in _ P); assumption.
Qed.

(** pint lint / pint ci exit non-zero iff some arrived problem reaches --fail-on: a statement about the
    set of arrived reports, hence independent of their order (no hypothesis needed). *)
Lemma exit_lint_stream_iff failOn minSev s :
  exit_status_lint failOn minSev s = true <-> exists r, In r s /\ (failOn <= r_sev r)%Z.
Proof. unfold exit_status_lint. rewrite C05_exit.exit_lint_iff. apply reaches_iff. Qed.

Lemma exit_ci_stream_iff failOn s :
  exit_status_ci failOn s = true <-> exists r, In r s /\ (failOn <= r_sev r)%Z.
Proof. unfold exit_status_ci. rewrite C05_exit.exit_ci_iff. apply reaches_iff. Qed.

Lemma exit_lint_perm failOn minSev s s' :
  Permutation s s' -> exit_status_lint failOn minSev s' = exit_status_lint failOn minSev s.
Proof. intros P. apply eq_true_iff_eq. rewrite !exit_lint_stream_iff. now apply reaches_perm. Qed.

Lemma exit_ci_perm failOn s s' : Permutation s s' -> exit_status_ci failOn s' = exit_status_ci failOn s.
Proof. intros P. apply eq_true_iff_eq. rewrite !exit_ci_stream_iff. now apply reaches_perm. Qed.
