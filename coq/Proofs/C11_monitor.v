(** C11: the executable monitors [h1b]/[h2b] evaluated by the correspondence on every recorded stream imply
    the hypotheses H1/H2 of the permutation theorem. *)
From Coq Require Import List String Ascii ZArith NArith Bool Lia Permutation.
From PintV Require Import Common.Bytes Common.Sorting Model.SummarySort Proofs.C11_order Proofs.C11_perm.
Import ListNotations.

Lemma list_eqb_sound {A} (eqb : A -> A -> bool) :
  (forall a b, eqb a b = true -> a = b) -> forall l1 l2, list_eqb eqb l1 l2 = true -> l1 = l2.
Proof.
  intros H. induction l1 as [|a l1 IH]; intros [|b l2]; cbn; try discriminate; auto.
  intros E. apply andb_true_iff in E. destruct E as [E1 E2]. f_equal; auto.
Qed.

Lemma diag_full_eqb_sound a b : diag_full_eqb a b = true -> a = b.
Proof.
  unfold diag_full_eqb, diag_eqb. rewrite !andb_true_iff, !Z.eqb_eq, String.eqb_eq, N.eqb_eq.
  destruct a, b; cbn. intros [[[-> ->] ->] ->]. reflexivity.
Qed.

Lemma report_eqb_sound a b : report_eqb a b = true -> a = b.
Proof.
  unfold report_eqb. rewrite !andb_true_iff, !String.eqb_eq, !Z.eqb_eq, N.eqb_eq.
  intros [[[[[[[[[[[[[[E1 E2] E3] E4] E5] E6] E7] E8] E9] E10] E11] E12] E13] E14] E15].
  apply (list_eqb_sound _ diag_full_eqb_sound) in E9. apply Bool.eqb_prop in E13.
  destruct a, b; cbn in *. subst. reflexivity.
Qed.

Lemma forall_pairs_spec {A} (p : A -> A -> bool) l :
  forall_pairs p l = true -> forall a b, In a l -> In b l -> p a b = true.
Proof.
  unfold forall_pairs. rewrite forallb_forall. intros H a b Ha Hb.
  specialize (H a Ha). rewrite forallb_forall in H. now apply H.
Qed.

Lemma h1b_sound s : h1b s = true -> H1 s.
Proof.
  intros H a b Ha Hb E. pose proof (forall_pairs_spec _ _ H a b Ha Hb) as K. cbn in K.
  rewrite E in K. apply andb_true_iff in K. destruct K as [K1 K2]. split; auto. now apply report_eqb_sound.
Qed.

Lemma h2b_sound s : h2b s = true -> H2 s.
Proof.
  intros H a b Ha Hb E. pose proof (forall_pairs_spec _ _ H a b Ha Hb) as K. cbn in K.
  apply kcmp_eq_sort_key in E. now rewrite E in K.
Qed.
