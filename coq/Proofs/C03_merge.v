(** The merge of the branch entries into the glob entry list (end of GitBranchFinder.Find): glob entries keep their
    position and identity, only State/ModifiedLines can change; entries of files no branch entry mentions are untouched
    (they keep the Noop state GlobFinder gave them); Removed entries are always appended. *)
From Coq Require Import List String ZArith NArith Bool Lia.
From PintV Require Import Common.Bytes Model.GitBranch.
Import ListNotations.
Open Scope string_scope.
Open Scope list_scope.

(** everything but State and ModifiedLines *)
Definition strip (e : entry) : entry := set_state e Unknown [].

Lemma strip_set_state e s ml : strip (set_state e s ml) = strip e.
Proof. reflexivity. Qed.

Lemma update_first_nth e : forall all all' i g,
  update_first e all = Some all' -> nth_error all i = Some g ->
  exists g', nth_error all' i = Some g' /\ strip g' = strip g /\ (e_path e <> e_path g -> g' = g).
Proof.
  induction all as [|x r IH]; intros all' i g H Hn; simpl in H; [discriminate|].
  destruct (String.eqb (e_path e) (e_path x) && is_same e x) eqn:E.
  - inversion H; subst. destruct i as [|i]; simpl in *.
    + inversion Hn; subst. eexists. split; [reflexivity|]. split; [apply strip_set_state|].
      intro Hne. apply andb_true_iff in E. destruct E as [E _]. apply String.eqb_eq in E. contradiction.
    + exists g. auto.
  - destruct (update_first e r) as [r'|] eqn:U; [|discriminate]. inversion H; subst.
    destruct i as [|i]; simpl in *.
    + inversion Hn; subst. exists g. auto.
    + eapply IH; eauto.
Qed.

Lemma merge_one_nth all e i g :
  nth_error all i = Some g ->
  exists g', nth_error (merge_one all e) i = Some g' /\ strip g' = strip g /\ (e_path e <> e_path g -> g' = g).
Proof.
  intro Hn. unfold merge_one.
  assert (Happ : nth_error (all ++ [e]) i = Some g).
  { rewrite nth_error_app1; auto. apply nth_error_Some. congruence. }
  destruct (state_eqb (e_state e) Removed); [exists g; auto|].
  destruct (update_first e all) as [all'|] eqn:U; [|exists g; auto].
  eapply update_first_nth; eauto.
Qed.

Lemma merge_nth : forall branch all i g,
  nth_error all i = Some g ->
  exists g', nth_error (merge all branch) i = Some g' /\ strip g' = strip g /\
             ((forall e, In e branch -> e_path e <> e_path g) -> g' = g).
Proof.
  unfold merge. induction branch as [|e r IH]; intros all i g Hn; simpl.
  - exists g. auto.
  - destruct (merge_one_nth all e i g Hn) as (g1 & H1 & Hs1 & Hu1).
    destruct (IH _ _ _ H1) as (g2 & H2 & Hs2 & Hu2).
    exists g2. split; auto. split; [congruence|].
    intro Hno. assert (g1 = g) by (apply Hu1; apply Hno; left; auto). subst g1.
    apply Hu2. intros x Hx. apply Hno. right. exact Hx.
Qed.

Lemma merge_one_incl all e x : In x all -> exists x', In x' (merge_one all e) /\ strip x' = strip x.
Proof.
  intro Hin. apply In_nth_error in Hin. destruct Hin as [i Hi].
  destruct (merge_one_nth all e i x Hi) as (g' & Hn & Hs & _). exists g'. split; auto. eapply nth_error_In; eauto.
Qed.

Lemma fold_keeps : forall r l x, In x l -> exists x', In x' (fold_left merge_one r l) /\ strip x' = strip x.
Proof.
  induction r as [|y r IH]; intros l x Hx; simpl; [exists x; auto|].
  destruct (merge_one_incl l y x Hx) as (x1 & Hx1 & Hs1).
  destruct (IH _ _ Hx1) as (x2 & Hx2 & Hs2). exists x2. split; auto. congruence.
Qed.

(** every Removed branch entry is in the final list (so that rule/dependency can run on it) *)
Lemma merge_removed_kept : forall branch all e,
  In e branch -> e_state e = Removed -> exists e', In e' (merge all branch) /\ strip e' = strip e.
Proof.
  unfold merge. induction branch as [|x r IH]; intros all e Hin Hs; [destruct Hin|]. simpl.
  destruct Hin as [<-|Hin]; [|eapply IH; eauto].
  apply fold_keeps. unfold merge_one. rewrite Hs. simpl. apply in_or_app. right. left. reflexivity.
Qed.
