(** C13 — from the slices RangeQuery really computes to the two headline statements. *)
From Coq Require Import List ZArith NArith Bool Lia Arith Permutation.
From PintV Require Import Common.GoTime Model.Range Model.RangeRef
  Proofs.C13_slice Proofs.C13_grid Proofs.C13_fold Proofs.C13_overlaps Proofs.C13_stair Proofs.C13_imerge
  Proofs.C13_sim Proofs.C13_runs Proofs.C13_final.
Import ListNotations.
Open Scope Z_scope.

(** what query_slices returns: one slice [(start, end)], or a chain of slices of size m*step *)
Lemma query_slices_shape fuel start end_ lookback step sl : sec <= step -> step <= max_int64 - 2 * hour ->
  query_slices fuel start end_ lookback step = Some sl ->
  sl = [(start, end_)] \/
  (exists m, 0 < m /\ chain (m * step) end_ sl /\ exists a b r, sl = (a, b) :: r /\ a <= start < a + m * step).
Proof.
  intros Hs Hmax H. assert (0 < step) as Hp by (unfold sec in Hs; lia). unfold query_slices in H.
  destruct ((slice_size step <=? 0) || (lookback <? slice_size step)) eqn:E; [left; inversion H; reflexivity|].
  apply orb_false_iff in E. destruct E as [E1 _]. apply Z.leb_gt in E1.
  destruct (Z_le_gt_dec (end_ - start) step) as [L|L].
  - left. unfold slice_range in H. destruct (end_ - start <=? step) eqn:E2; [inversion H; reflexivity|apply Z.leb_gt in E2; lia].
  - right. unfold slice_size in *.
    destruct (duration_round_pos_multiple (2 * hour) step) as [Hm _]; [unfold hour, sec; lia|exact Hp|unfold hour, sec in *; lia|].
    set (q := duration_round (2 * hour) step) in *.
    exists (q / step).
    assert (q = q / step * step) as Eq by (rewrite Z.mul_comm; apply Z_div_exact_full_2; [lia|exact Hm]).
    assert (0 < q / step) by nia.
    split; [assumption|]. rewrite <- Eq.
    destruct (slice_range_chain fuel start end_ step q sl ltac:(lia) E1 ltac:(lia) H) as [Hc [a [b [r [Es [Ha _]]]]]].
    split; [exact Hc|]. exists a, b, r. split; [exact Es|exact Ha].
Qed.

Section Headline.
  Variables (step : Z) (fp : N) (pres : presence).
  Hypothesis Hstep : sec <= step.

  Lemma total_cons s r : total step (s :: r) = Z.of_nat (npoints (fst s) (snd s) step) + total step r.
  Proof. reflexivity. Qed.

  Lemma chain_contig g0 S e m sl : S = m * step -> 0 < m -> chain S e sl ->
    forall i, first_start sl 0 = g0 + i * step ->
    contig g0 step i sl /\ total step sl = Z.of_nat (npoints (g0 + i * step) e step).
  Proof.
    intros HS Hm Hc. assert (0 < step) as Hp by (unfold sec in Hstep; lia).
    induction Hc as [a Ha|a b r Hc IH]; intros i Hi; cbn [first_start] in Hi.
    - subst a. split; [constructor; [reflexivity|constructor]|]. cbn [total fst snd]. lia.
    - subst a. specialize (IH (i + m)). cbn [first_start] in IH.
      destruct IH as [IH1 IH2]; [subst S; lia|].
      assert (npoints (g0 + i * step) (g0 + i * step + S - sec) step = Z.to_nat m) as En
        by (subst S; apply npoints_slice; assumption).
      split.
      + constructor; [reflexivity|]. rewrite En, Z2Nat.id by lia. exact IH1.
      + rewrite total_cons. cbn [fst snd]. rewrite En, IH2, Z2Nat.id by lia.
        pose proof (chain_head_le S e _ _ _ ltac:(subst S; nia) Hc) as Hle.
        rewrite (npoints_split (g0 + i * step) e m step Hm Hp) by (subst S; lia).
        rewrite Nat2Z.inj_add, Z2Nat.id by lia. replace (g0 + i * step + m * step) with (g0 + (i + m) * step) by lia. reflexivity.
  Qed.

  Lemma runs_of_grid g0 e :
    runs_of fp step pres g0 e = Rm g0 step fp (iruns (pidx g0 step pres) (npoints g0 e step) 0 None).
  Proof.
    unfold runs_of, grid_between. pose proof (runs_of_idx g0 step fp pres (npoints g0 e step) 0) as H.
    replace (g0 + 0 * step) with g0 in H by lia. exact H.
  Qed.

  (** sliced = unsliced, for the slices RangeQuery computes, every presence pattern, every arrival order *)
  Theorem sliced_eq_unsliced fuel start end_ lookback sl arrival : step <= max_int64 - 2 * hour ->
    query_slices fuel start end_ lookback step = Some sl ->
    Permutation arrival sl ->
    sliced1 (merge_fuel (flat_map (per_slice1 step fp pres) arrival)) step fp pres arrival
    = Some (runs_of fp step pres (first_start sl start) end_).
  Proof.
    intros Hmax Hq Hperm.
    destruct (query_slices_shape fuel start end_ lookback step sl Hstep Hmax Hq) as [E|[m [Hm [Hc [a [b [r [Es _]]]]]]]].
    - subst sl. cbn [first_start].
      assert (contig start step 0 [(start, end_)]) as C by (constructor; [lia|constructor]).
      rewrite (sliced_contig start step fp pres Hstep 0 _ arrival C Hperm).
      rewrite runs_of_grid. cbn [total fst snd]. rewrite Z.add_0_r, Nat2Z.id. reflexivity.
    - assert (first_start sl start = a) as Ef by (rewrite Es; reflexivity).
      destruct (chain_contig a (m * step) end_ m sl eq_refl Hm Hc 0) as [C Ht]; [rewrite Es; cbn [first_start]; lia|].
      rewrite (sliced_contig a step fp pres Hstep 0 sl arrival C Hperm).
      rewrite Ef, runs_of_grid, Ht. replace (a + 0 * step) with a by lia. rewrite Nat2Z.id. reflexivity.
  Qed.

  (** the same for any sufficient fuel, on the list handed to MergeRanges *)
  Theorem finalize_eq_unsliced fuel0 start end_ lookback sl arrival fuel : step <= max_int64 - 2 * hour ->
    query_slices fuel0 start end_ lookback step = Some sl ->
    Permutation arrival sl ->
    (length (flat_map (per_slice1 step fp pres) arrival) < fuel)%nat ->
    finalize fuel step (flat_map (per_slice1 step fp pres) arrival)
    = Some (runs_of fp step pres (first_start sl start) end_).
  Proof.
    intros Hmax Hq Hperm Hfuel.
    destruct (query_slices_shape fuel0 start end_ lookback step sl Hstep Hmax Hq) as [E|[m [Hm [Hc [a [b [r [Es _]]]]]]]].
    - subst sl. cbn [first_start].
      assert (contig start step 0 [(start, end_)]) as C by (constructor; [lia|constructor]).
      rewrite (finalize_contig start step fp pres Hstep 0 _ arrival fuel C Hperm Hfuel).
      rewrite runs_of_grid. cbn [total fst snd]. rewrite Z.add_0_r, Nat2Z.id. reflexivity.
    - assert (first_start sl start = a) as Ef by (rewrite Es; reflexivity).
      destruct (chain_contig a (m * step) end_ m sl eq_refl Hm Hc 0) as [C Ht]; [rewrite Es; cbn [first_start]; lia|].
      rewrite (finalize_contig a step fp pres Hstep 0 sl arrival fuel C Hperm Hfuel).
      rewrite Ef, runs_of_grid, Ht. replace (a + 0 * step) with a by lia. rewrite Nat2Z.id. reflexivity.
  Qed.

  (** the slices partition the evaluation grid *)
  Theorem slices_partition_grid fuel start end_ lookback sl : step <= max_int64 - 2 * hour ->
    query_slices fuel start end_ lookback step = Some sl ->
    flat_map (slice_grid step) sl = grid_between (first_start sl start) end_ step.
  Proof.
    intros Hmax Hq.
    destruct (query_slices_shape fuel start end_ lookback step sl Hstep Hmax Hq) as [E|[m [Hm [Hc [a [b [r [Es _]]]]]]]].
    - subst sl. cbn [flat_map first_start slice_grid fst snd]. apply app_nil_r.
    - rewrite (chain_partitions_grid (m * step) end_ step m sl eq_refl Hm Hstep Hc).
      rewrite Es. reflexivity.
  Qed.
End Headline.
