(** C11: the model of Go's [slices.SortStableFunc] ([Common/Sorting.v]: insertion-sorted blocks of 20 merged by
    [symMerge]) returns a strictly sorted permutation whenever the comparator is transitive and total on the
    pairwise distinct elements being sorted — for lists of ANY length. *)
From Coq Require Import List Arith Bool Lia Permutation Sorted.
From PintV Require Import Common.Sorting.
Import ListNotations.

Section StableSort.
  Context {A : Type}.
  Variable lt : A -> A -> bool.
  Notation Rl := (R lt).

  (* ---- arithmetic / binary search ---------------------------------------------------------------- *)

  Lemma half_bounds i j : i < j -> i <= (i + j) / 2 < j.
  Proof.
    intros H. split.
    - apply Nat.div_le_lower_bound; lia.
    - apply Nat.div_lt_upper_bound; lia.
  Qed.

  Lemma bsearch_spec fuel P : forall i j k,
    j - i < fuel -> i <= k <= j ->
    (forall h, i <= h < k -> P h = true) -> (forall h, k <= h < j -> P h = false) ->
    bsearch fuel P i j = k.
  Proof.
    induction fuel as [|f IH]; intros i j k Hf Hk Ht Hfa; [lia|]. cbn [bsearch].
    destruct (i <? j) eqn:E.
    - apply Nat.ltb_lt in E. pose proof (half_bounds i j E) as Hh.
      destruct (P ((i + j) / 2)) eqn:Ep.
      + assert ((i + j) / 2 < k). { destruct (Nat.lt_ge_cases ((i + j) / 2) k); auto. rewrite Hfa in Ep by lia. discriminate. }
        apply IH; try lia; intros h Hh'; [apply Ht|apply Hfa]; lia.
      + assert (k <= (i + j) / 2). { destruct (Nat.lt_ge_cases ((i + j) / 2) k); auto. rewrite Ht in Ep by lia. discriminate. }
        apply IH; try lia; intros h Hh'; [apply Ht|apply Hfa]; lia.
    - apply Nat.ltb_ge in E. lia.
  Qed.

  (** an upward closed predicate on [i, j) has a threshold *)
  Lemma threshold (Q : nat -> bool) i j : i <= j ->
    (forall c c', i <= c -> c <= c' -> c' < j -> Q c = true -> Q c' = true) ->
    exists k, i <= k <= j /\ (forall h, i <= h < k -> Q h = false) /\ (forall h, k <= h < j -> Q h = true).
  Proof.
    induction j as [|j IH]; intros Hij Hup.
    - exists i. repeat split; intros; lia.
    - destruct (Nat.eq_dec i (S j)) as [->|Hne].
      + exists (S j). repeat split; intros; lia.
      + destruct IH as (k & Hk & Hlo & Hhi); [lia| |].
        { intros c c' H1 H2 H3. apply Hup; lia. }
        destruct (Nat.eq_dec k j) as [->|Hkj].
        * destruct (Q j) eqn:Ej.
          -- exists j. repeat split; try lia; auto. intros h Hh. assert (h = j) by lia. now subst.
          -- exists (S j). repeat split; try lia. intros h Hh. destruct (Nat.eq_dec h j) as [->|]; auto. apply Hlo. lia.
        * exists k. repeat split; try lia; auto. intros h Hh. destruct (Nat.eq_dec h j) as [->|]; [|apply Hhi; lia].
          apply (Hup k j); try lia. apply Hhi. lia.
  Qed.

  (* ---- lists ------------------------------------------------------------------------------------------ *)

  Lemma in_firstn_nth (l : list A) n a d : In a (firstn n l) -> exists h, h < n /\ h < length l /\ a = nth h l d.
  Proof.
    revert n. induction l as [|x l IH]; intros n Hin.
    - destruct n; destruct Hin.
    - destruct n as [|n]; [destruct Hin|]. cbn [firstn] in Hin. destruct Hin as [<-|H].
      + exists 0. cbn. repeat split; lia.
      + destruct (IH n H) as (h & H1 & H2 & H3). exists (S h). cbn. repeat split; auto; lia.
  Qed.

  Lemma in_skipn_nth (l : list A) n a d : In a (skipn n l) -> exists h, n <= h /\ h < length l /\ a = nth h l d.
  Proof.
    revert n. induction l as [|x l IH]; intros n Hin.
    - destruct n; destruct Hin.
    - destruct n as [|n].
      + cbn [skipn] in Hin. destruct (In_nth _ _ d Hin) as (h & H1 & H2). exists h. repeat split; auto; lia.
      + cbn [skipn] in Hin. destruct (IH n Hin) as (h & H1 & H2 & H3). exists (S h). cbn. repeat split; auto; lia.
  Qed.

  Lemma sorted_app_inv (l1 l2 : list A) :
    StronglySorted Rl (l1 ++ l2) ->
    StronglySorted Rl l1 /\ StronglySorted Rl l2 /\ (forall a b, In a l1 -> In b l2 -> Rl a b).
  Proof.
    induction l1 as [|x l1 IH]; cbn [app]; intros H.
    - repeat split; auto. constructor. intros a b [].
    - inversion H as [|? ? Hs Hall]; subst. destruct (IH Hs) as (S1 & S2 & Hc). rewrite Forall_forall in Hall.
      repeat split; auto.
      + constructor; auto. rewrite Forall_forall. intros y Hy. apply Hall. apply in_or_app. now left.
      + intros a b [<-|Ha] Hb; auto. apply Hall. apply in_or_app. now right.
  Qed.

  Lemma sorted_app (l1 l2 : list A) :
    StronglySorted Rl l1 -> StronglySorted Rl l2 -> (forall a b, In a l1 -> In b l2 -> Rl a b) ->
    StronglySorted Rl (l1 ++ l2).
  Proof.
    induction 1 as [|x l1 Hs IH Hall]; intros S2 Hc; cbn [app]; auto.
    constructor.
    - apply IH; auto. intros a b Ha Hb. apply Hc; auto. now right.
    - rewrite Forall_forall in *. intros y Hy. apply in_app_or in Hy. destruct Hy as [Hy|Hy]; auto. apply Hc; auto. now left.
  Qed.

  Lemma sorted_split (l : list A) n :
    StronglySorted Rl l ->
    StronglySorted Rl (firstn n l) /\ StronglySorted Rl (skipn n l) /\
    (forall a b, In a (firstn n l) -> In b (skipn n l) -> Rl a b).
  Proof. intros H. apply sorted_app_inv. now rewrite firstn_skipn. Qed.

  Lemma sorted_nth (l : list A) d : StronglySorted Rl l -> forall i j, i < j -> j < length l -> Rl (nth i l d) (nth j l d).
  Proof.
    induction 1 as [|x l Hs IH Hall]; intros i j Hij Hj; cbn [length] in Hj; [lia|].
    destruct j as [|j]; [lia|]. destruct i as [|i]; cbn [nth].
    - rewrite Forall_forall in Hall. apply Hall. apply nth_In. lia.
    - apply IH; lia.
  Qed.

  (* ---- order hypotheses ---------------------------------------------------------------------------------- *)

  Variable dom : list A.
  Hypothesis trans : forall a b c, In a dom -> In b dom -> In c dom -> Rl a b -> Rl b c -> Rl a c.
  Hypothesis total : forall a b, In a dom -> In b dom -> a <> b -> Rl a b \/ Rl b a.

  Lemma not_lt_gt a b : In a dom -> In b dom -> a <> b -> lt a b = false -> Rl b a.
  Proof. intros Ha Hb Hne E. destruct (total a b Ha Hb Hne) as [H|H]; auto. unfold R in H. congruence. Qed.

  Lemma nodup_nth_ne (l : list A) d i j : NoDup l -> i < length l -> j < length l -> i <> j -> nth i l d <> nth j l d.
  Proof. intros ND Hi Hj Hne E. apply Hne. now apply (proj1 (NoDup_nth l d) ND). Qed.

  (** case m-a == 1: insert the single left element into the right run *)
  Lemma merge_one_left x v :
    incl (x :: v) dom -> NoDup (x :: v) -> StronglySorted Rl v ->
    let i := bsearch (S (length v)) (fun h => lt (nth_or x v h) x) 0 (length v) in
    Permutation (firstn i v ++ [x] ++ skipn i v) (x :: v) /\ StronglySorted Rl (firstn i v ++ [x] ++ skipn i v).
  Proof.
    intros Hd ND Sv i. split.
    - cbn [app]. rewrite <- Permutation_middle. now rewrite firstn_skipn.
    - assert (Hx : In x dom) by (apply Hd; now left).
      assert (Hv : forall h, h < length v -> In (nth h v x) dom /\ nth h v x <> x).
      { intros h Hh. split; [apply Hd; right; now apply nth_In|].
        inversion ND as [|? ? Hni _]; subst. intros E. apply Hni. rewrite <- E. now apply nth_In. }
      destruct (threshold (fun h => negb (lt (nth h v x) x)) 0 (length v)) as (k & Hk & Hlo & Hhi); [lia| |].
      { intros c c' _ Hcc Hc' Hq. apply negb_true_iff in Hq. apply negb_true_iff.
        destruct (Nat.eq_dec c c') as [->|Hne]; auto.
        destruct (lt (nth c' v x) x) eqn:E; auto. exfalso.
        assert (Rl (nth c v x) (nth c' v x)) by (apply sorted_nth; auto; lia).
        assert (Rl (nth c v x) x) by (apply (trans _ (nth c' v x)); auto; apply Hv; lia).
        unfold R in *. congruence. }
      assert (Ei : i = k).
      { apply bsearch_spec; try lia.
        - intros h Hh. unfold nth_or. specialize (Hlo h Hh). now apply negb_false_iff in Hlo.
        - intros h Hh. unfold nth_or. specialize (Hhi h Hh). now apply negb_true_iff in Hhi. }
      rewrite Ei. destruct (sorted_split v k Sv) as (S1 & S2 & Hc).
      apply sorted_app; auto.
      + cbn [app]. constructor; auto. rewrite Forall_forall. intros b Hb.
        destruct (in_skipn_nth v k b x Hb) as (h & H1 & H2 & ->).
        apply not_lt_gt; auto; try apply Hv; auto. specialize (Hhi h (conj H1 H2)). now apply negb_true_iff in Hhi.
      + intros a b Ha [<-|Hb]; [|now apply Hc].
        destruct (in_firstn_nth v k a x Ha) as (h & H1 & H2 & ->).
        specialize (Hlo h (conj (Nat.le_0_l h) H1)). now apply negb_false_iff in Hlo.
  Qed.

  (** case b-m == 1: insert the single right element into the left run *)
  Lemma merge_one_right d u y :
    incl (u ++ [y]) dom -> NoDup (u ++ [y]) -> StronglySorted Rl u ->
    let i := bsearch (S (length u)) (fun h => negb (lt y (nth_or d u h))) 0 (length u) in
    Permutation (firstn i u ++ [y] ++ skipn i u) (u ++ [y]) /\ StronglySorted Rl (firstn i u ++ [y] ++ skipn i u).
  Proof.
    intros Hd ND Su i. split.
    - cbn [app]. rewrite <- Permutation_middle. rewrite firstn_skipn. apply Permutation_cons_append.
    - assert (Hy : In y dom) by (apply Hd; apply in_or_app; right; now left).
      assert (Hu : forall h, h < length u -> In (nth h u d) dom /\ nth h u d <> y).
      { intros h Hh. split; [apply Hd; apply in_or_app; left; now apply nth_In|].
        intros E. apply NoDup_remove_2 in ND. rewrite app_nil_r in ND. apply ND. rewrite <- E. now apply nth_In. }
      destruct (threshold (fun h => lt y (nth h u d)) 0 (length u)) as (k & Hk & Hlo & Hhi); [lia| |].
      { intros c c' _ Hcc Hc' Hq. destruct (Nat.eq_dec c c') as [->|Hne]; auto.
        assert (Rl (nth c u d) (nth c' u d)) by (apply sorted_nth; auto; lia).
        apply (trans _ (nth c u d)); auto; apply Hu; lia. }
      assert (Ei : i = k).
      { apply bsearch_spec; try lia.
        - intros h Hh. unfold nth_or. now rewrite (Hlo h Hh).
        - intros h Hh. unfold nth_or. now rewrite (Hhi h Hh). }
      rewrite Ei. destruct (sorted_split u k Su) as (S1 & S2 & Hc).
      apply sorted_app; auto.
      + cbn [app]. constructor; auto. rewrite Forall_forall. intros b Hb.
        destruct (in_skipn_nth u k b d Hb) as (h & H1 & H2 & ->). apply Hhi. lia.
      + intros a b Ha [<-|Hb]; [|now apply Hc].
        destruct (in_firstn_nth u k a d Ha) as (h & H1 & H2 & ->).
        apply not_lt_gt; auto; try apply Hu; auto.
        * intros E. symmetry in E. revert E. apply Hu. auto.
        * apply Hlo. lia.
  Qed.

  (* ---- the general step of symMerge ------------------------------------------------------------------------ *)

  Definition gen_step (rec : list A -> list A -> list A) (x0 : A) (u v : list A) : list A :=
    let m := length u in
    let b := m + length v in
    let mid := b / 2 in
    let n := mid + m in
    let '(start0, r0) := if mid <? m then (n - b, mid) else (0, m) in
    let s := bsearch (S b) (fun c => negb (lt (nth_or x0 v (mid - 1 - c)) (nth_or x0 u c))) start0 r0 in
    let ul := firstn s u in
    let ur := skipn s u in
    let vl := firstn (mid - s) v in
    let vr := skipn (mid - s) v in
    (if (0 <? s) && (s <? mid) then rec ul vl else ul ++ vl) ++
    (if (0 <? m - s) && (m - s <? b - mid) then rec ur vr else ur ++ vr).

  Lemma nodup_app_disjoint (l1 l2 : list A) a : NoDup (l1 ++ l2) -> In a l1 -> In a l2 -> False.
  Proof.
    induction l1 as [|x l1 IH]; cbn [app]; intros ND H1 H2; [destruct H1|].
    inversion ND as [|? ? Hni ND']; subst. destruct H1 as [->|H1]; [|now apply IH].
    apply Hni. apply in_or_app. now right.
  Qed.

  Lemma nodup_app_l (l1 l2 : list A) : NoDup (l1 ++ l2) -> NoDup l1.
  Proof.
    induction l1 as [|x l1 IH]; cbn [app]; intros ND; [constructor|].
    inversion ND as [|? ? Hni ND']; subst. constructor; auto. intros H. apply Hni. apply in_or_app. now left.
  Qed.

  Lemma nodup_app_r (l1 l2 : list A) : NoDup (l1 ++ l2) -> NoDup l2.
  Proof. induction l1 as [|x l1 IH]; cbn [app]; intros ND; auto. inversion ND; auto. Qed.

  Definition le_ (a b : A) : Prop := a = b \/ Rl a b.

  Lemma chain3 a b c d : In a dom -> In b dom -> In c dom -> In d dom ->
    le_ a b -> Rl b c -> le_ c d -> Rl a d.
  Proof.
    intros Ha Hb Hc Hd [->|H1] H2 [<-|H3]; auto.
    - now apply (trans b c d).
    - now apply (trans a b c).
    - apply (trans a b d); auto. now apply (trans b c d).
  Qed.

  Lemma sorted_nth_le (l : list A) d : StronglySorted Rl l -> forall i j, i <= j -> j < length l -> le_ (nth i l d) (nth j l d).
  Proof.
    intros Hs i j Hij Hj. destruct (Nat.eq_dec i j) as [->|Hne]; [now left|]. right. apply sorted_nth; auto. lia.
  Qed.

  Lemma perm_4 (a b c d : list A) : Permutation ((a ++ c) ++ (b ++ d)) ((a ++ b) ++ (c ++ d)).
  Proof.
    rewrite <- !app_assoc. apply Permutation_app_head. rewrite !app_assoc. apply Permutation_app_tail. apply Permutation_app_comm.
  Qed.

  Section Core.
    Variable rec : list A -> list A -> list A.
    Variables (x0 : A) (u v : list A).
    Let m := length u.
    Let lv := length v.
    Let b := m + lv.
    Let mid := b / 2.
    Hypothesis Lu : 2 <= m.
    Hypothesis Lv : 2 <= lv.
    Hypothesis Hrec : forall u' v', length u' + length v' < m + lv -> incl (u' ++ v') dom -> NoDup (u' ++ v') ->
       StronglySorted Rl u' -> StronglySorted Rl v' ->
       Permutation (rec u' v') (u' ++ v') /\ StronglySorted Rl (rec u' v').
    Hypothesis Hd : incl (u ++ v) dom.
    Hypothesis ND : NoDup (u ++ v).
    Hypothesis Su : StronglySorted Rl u.
    Hypothesis Sv : StronglySorted Rl v.
    Variables start0 r0 : nat.
    Hypothesis Hr1 : start0 <= r0.
    Hypothesis Hr2 : r0 <= m.
    Hypothesis Hr3 : r0 <= mid.
    Hypothesis Hr4 : mid - start0 <= lv.
    Hypothesis Hr5 : start0 = 0 \/ start0 = mid - lv.
    Hypothesis Hr6 : r0 = mid \/ r0 = m.

    Lemma gen_core :
      let s := bsearch (S b) (fun c => negb (lt (nth_or x0 v (mid - 1 - c)) (nth_or x0 u c))) start0 r0 in
      let ul := firstn s u in let ur := skipn s u in
      let vl := firstn (mid - s) v in let vr := skipn (mid - s) v in
      let res := (if (0 <? s) && (s <? mid) then rec ul vl else ul ++ vl) ++
                 (if (0 <? m - s) && (m - s <? b - mid) then rec ur vr else ur ++ vr) in
      Permutation res (u ++ v) /\ StronglySorted Rl res.
    Proof.
      assert (Hmid : 2 * mid <= b < 2 * mid + 2).
      { pose proof (Nat.div_mod b 2 ltac:(lia)) as E. pose proof (Nat.mod_upper_bound b 2 ltac:(lia)). fold mid in E. lia. }
      assert (Hu : forall h, h < m -> In (nth h u x0) dom).
      { intros h Hh. apply Hd. apply in_or_app. left. now apply nth_In. }
      assert (Hv : forall h, h < lv -> In (nth h v x0) dom).
      { intros h Hh. apply Hd. apply in_or_app. right. now apply nth_In. }
      assert (Huv : forall h g, h < m -> g < lv -> nth h u x0 <> nth g v x0).
      { intros h g Hh Hg E. apply (nodup_app_disjoint u v (nth h u x0) ND); [now apply nth_In|rewrite E; now apply nth_In]. }
      destruct (threshold (fun c => lt (nth (mid - 1 - c) v x0) (nth c u x0)) start0 r0 Hr1) as (k & Hk & Hlo & Hhi).
      { intros c c' Hc1 Hcc Hc' Hq. destruct (Nat.eq_dec c c') as [->|Hne]; auto.
        apply (chain3 _ (nth (mid - 1 - c) v x0) (nth c u x0) _); try apply Hu; try apply Hv; try lia; auto.
        - right. apply sorted_nth; auto; fold lv; lia.
        - right. apply sorted_nth; auto; fold m; lia. }
      assert (Es : bsearch (S b) (fun c => negb (lt (nth_or x0 v (mid - 1 - c)) (nth_or x0 u c))) start0 r0 = k).
      { apply bsearch_spec; try lia.
        - intros h Hh. unfold nth_or. now rewrite (Hlo h Hh).
        - intros h Hh. unfold nth_or. now rewrite (Hhi h Hh). }
      cbv zeta. rewrite Es. clear Es.
      set (ul := firstn k u). set (ur := skipn k u). set (vl := firstn (mid - k) v). set (vr := skipn (mid - k) v).
      destruct (sorted_split u k Su) as (Sul & Sur & Cu). destruct (sorted_split v (mid - k) Sv) as (Svl & Svr & Cv).
      fold ul ur in Sul, Sur, Cu. fold vl vr in Svl, Svr, Cv.
      assert (CA : forall a z, In a ul -> In z vr -> Rl a z).
      { intros a z Ha Hz. destruct (in_firstn_nth u k a x0 Ha) as (h & H1 & H2 & ->).
        destruct (in_skipn_nth v (mid - k) z x0 Hz) as (g & G1 & G2 & ->). fold m in H2. fold lv in G2.
        apply (chain3 _ (nth (k - 1) u x0) (nth (mid - k) v x0) _); try apply Hu; try apply Hv; try lia.
        - apply sorted_nth_le; auto; fold m; lia.
        - apply not_lt_gt; try apply Hu; try apply Hv; try lia.
          + intros E. symmetry in E. revert E. apply Huv; lia.
          + replace (mid - k) with (mid - 1 - (k - 1)) by lia. apply Hlo. lia.
        - apply sorted_nth_le; auto; fold lv; lia. }
      assert (CB : forall a z, In a vl -> In z ur -> Rl a z).
      { intros a z Ha Hz. destruct (in_firstn_nth v (mid - k) a x0 Ha) as (g & G1 & G2 & ->).
        destruct (in_skipn_nth u k z x0 Hz) as (h & H1 & H2 & ->). fold m in H2. fold lv in G2.
        apply (chain3 _ (nth (mid - 1 - k) v x0) (nth k u x0) _); try apply Hu; try apply Hv; try lia.
        - apply sorted_nth_le; auto; fold lv; lia.
        - apply Hhi. lia.
        - apply sorted_nth_le; auto; fold m; lia. }
      assert (Lul : length ul = k) by (subst ul; rewrite firstn_length; fold m; lia).
      assert (Lvl : length vl = mid - k) by (subst vl; rewrite firstn_length; fold lv; lia).
      assert (Lur : length ur = m - k) by (subst ur; rewrite skipn_length; reflexivity).
      assert (Lvr : length vr = lv - (mid - k)) by (subst vr; rewrite skipn_length; reflexivity).
      assert (Pall : Permutation ((ul ++ vl) ++ (ur ++ vr)) (u ++ v)).
      { rewrite perm_4. subst ul ur vl vr. now rewrite !firstn_skipn. }
      assert (NDall : NoDup ((ul ++ vl) ++ (ur ++ vr))) by (apply (Permutation_NoDup (Permutation_sym Pall) ND)).
      assert (Dall : incl ((ul ++ vl) ++ (ur ++ vr)) dom) by (intros y Hy; apply Hd; now apply (Permutation_in _ Pall)).
      assert (HL : Permutation (if (0 <? k) && (k <? mid) then rec ul vl else ul ++ vl) (ul ++ vl) /\
                   StronglySorted Rl (if (0 <? k) && (k <? mid) then rec ul vl else ul ++ vl)).
      { destruct ((0 <? k) && (k <? mid)) eqn:E1.
        - apply Hrec; auto.
          + lia.
          + intros y Hy. apply Dall. apply in_or_app. now left.
          + now apply nodup_app_l in NDall.
        - split; auto. apply sorted_app; auto. intros a z Ha Hz. exfalso.
          apply andb_false_iff in E1. destruct E1 as [E1|E1]; apply Nat.ltb_ge in E1.
          + assert (length ul = 0) by lia. destruct ul; [destruct Ha|discriminate].
          + assert (length vl = 0) by lia. destruct vl; [destruct Hz|discriminate]. }
      assert (HR : Permutation (if (0 <? m - k) && (m - k <? b - mid) then rec ur vr else ur ++ vr) (ur ++ vr) /\
                   StronglySorted Rl (if (0 <? m - k) && (m - k <? b - mid) then rec ur vr else ur ++ vr)).
      { destruct ((0 <? m - k) && (m - k <? b - mid)) eqn:E2.
        - apply Hrec; auto.
          + lia.
          + intros y Hy. apply Dall. apply in_or_app. now right.
          + now apply nodup_app_r in NDall.
        - split; auto. apply sorted_app; auto. intros a z Ha Hz. exfalso.
          apply andb_false_iff in E2. destruct E2 as [E2|E2]; apply Nat.ltb_ge in E2.
          + assert (length ur = 0) by lia. destruct ur; [destruct Ha|discriminate].
          + assert (length vr = 0) by (subst b; lia). destruct vr; [destruct Hz|discriminate]. }
      destruct HL as [PL SL]. destruct HR as [PR SR]. split.
      - rewrite PL, PR. exact Pall.
      - apply sorted_app; auto. intros a z Ha Hz.
        apply (Permutation_in _ PL) in Ha. apply (Permutation_in _ PR) in Hz.
        apply in_app_or in Ha. apply in_app_or in Hz. destruct Ha as [Ha|Ha]; destruct Hz as [Hz|Hz]; auto.
    Qed.
  End Core.

  Lemma gen_step_spec rec x0 u v :
    2 <= length u -> 2 <= length v ->
    (forall u' v', length u' + length v' < length u + length v -> incl (u' ++ v') dom -> NoDup (u' ++ v') ->
       StronglySorted Rl u' -> StronglySorted Rl v' ->
       Permutation (rec u' v') (u' ++ v') /\ StronglySorted Rl (rec u' v')) ->
    incl (u ++ v) dom -> NoDup (u ++ v) -> StronglySorted Rl u -> StronglySorted Rl v ->
    Permutation (gen_step rec x0 u v) (u ++ v) /\ StronglySorted Rl (gen_step rec x0 u v).
  Proof.
    intros Lu Lv Hrec Hd ND Su Sv. unfold gen_step.
    assert (Hmid : 2 * ((length u + length v) / 2) <= length u + length v < 2 * ((length u + length v) / 2) + 2).
    { pose proof (Nat.div_mod (length u + length v) 2 ltac:(lia)) as E.
      pose proof (Nat.mod_upper_bound (length u + length v) 2 ltac:(lia)). lia. }
    destruct ((length u + length v) / 2 <? length u) eqn:Em; [apply Nat.ltb_lt in Em|apply Nat.ltb_ge in Em]; cbv beta iota zeta.
    - apply (gen_core rec x0 u v); auto; lia.
    - apply (gen_core rec x0 u v); auto; lia.
  Qed.

  (* ---- symMerge ------------------------------------------------------------------------------------------------ *)

  Lemma sym_merge_spec : forall fuel u v,
    length u + length v <= fuel -> incl (u ++ v) dom -> NoDup (u ++ v) ->
    StronglySorted Rl u -> StronglySorted Rl v ->
    Permutation (sym_merge lt fuel u v) (u ++ v) /\ StronglySorted Rl (sym_merge lt fuel u v).
  Proof.
    induction fuel as [|f IH]; intros u v Hf Hd ND Su Sv.
    - destruct u; destruct v; cbn [length] in Hf; try lia. cbn. split; auto.
    - destruct u as [|x0 [|x1 u']].
      + cbn [sym_merge app]. split; auto.
      + destruct v as [|y0 v'].
        * cbn [sym_merge]. rewrite app_nil_r. split; auto.
        * cbn [sym_merge]. apply (merge_one_left x0 (y0 :: v')); auto.
      + destruct v as [|y0 [|y1 v']].
        * cbn [sym_merge]. rewrite app_nil_r. split; auto.
        * cbn [sym_merge]. apply (merge_one_right x0 (x0 :: x1 :: u') y0); auto.
        * change (sym_merge lt (S f) (x0 :: x1 :: u') (y0 :: y1 :: v'))
            with (gen_step (sym_merge lt f) x0 (x0 :: x1 :: u') (y0 :: y1 :: v')).
          apply gen_step_spec; auto; cbn [length]; try lia.
          intros u2 v2 Hl. apply IH. cbn [length] in *. lia.
  Qed.

  (* ---- runs ---------------------------------------------------------------------------------------------------- *)

  Definition runs_ok (runs : list (list A)) : Prop := Forall (StronglySorted Rl) runs.

  Lemma nodup_concat_pair (u v : list A) rest : NoDup (concat (u :: v :: rest)) -> NoDup (u ++ v) /\ NoDup (concat rest).
  Proof.
    cbn [concat]. rewrite app_assoc. intros H. split; [now apply nodup_app_l in H|now apply nodup_app_r in H].
  Qed.

  Lemma merge_pass_spec : forall n runs, length runs <= n ->
    runs_ok runs -> incl (concat runs) dom -> NoDup (concat runs) ->
    runs_ok (merge_pass lt runs) /\ Permutation (concat (merge_pass lt runs)) (concat runs) /\
    (2 <= length runs -> length (merge_pass lt runs) < length runs) /\ (runs <> [] -> merge_pass lt runs <> []).
  Proof.
    induction n as [|n IH]; intros runs Hn Hok Hd ND.
    - destruct runs; [|cbn in Hn; lia]. cbn. repeat split; auto; try lia.
    - destruct runs as [|u [|v rest]].
      + cbn. repeat split; auto; try lia.
      + cbn [merge_pass]. repeat split; auto; cbn; try lia; try discriminate.
      + cbn [merge_pass]. inversion Hok as [|? ? Su Hok']; subst. inversion Hok' as [|? ? Sv Hok'']; subst.
        destruct (nodup_concat_pair u v rest ND) as [NDuv NDrest].
        assert (Hduv : incl (u ++ v) dom).
        { intros y Hy. apply Hd. cbn [concat]. rewrite app_assoc. apply in_or_app. now left. }
        assert (Hdrest : incl (concat rest) dom).
        { intros y Hy. apply Hd. cbn [concat]. rewrite app_assoc. apply in_or_app. now right. }
        destruct (sym_merge_spec (S (length u + length v)) u v ltac:(lia) Hduv NDuv Su Sv) as [Pm Sm].
        destruct (IH rest ltac:(cbn [length] in Hn; lia) Hok'' Hdrest NDrest) as (Rok & Rp & Rl2 & _).
        repeat split.
        * constructor; auto.
        * cbn [concat]. rewrite Pm, Rp. now rewrite app_assoc.
        * intros _. destruct rest as [|a [|a' rest']]; [cbn; lia|cbn; lia|].
          specialize (Rl2 ltac:(cbn [length]; lia)). cbn [length] in *. lia.
        * discriminate.
  Qed.

  Lemma merge_all_spec : forall fuel runs, length runs <= fuel ->
    runs_ok runs -> incl (concat runs) dom -> NoDup (concat runs) ->
    Permutation (merge_all lt fuel runs) (concat runs) /\ StronglySorted Rl (merge_all lt fuel runs).
  Proof.
    induction fuel as [|f IH]; intros runs Hf Hok Hd ND.
    - destruct runs; [|cbn in Hf; lia]. cbn. split; auto. constructor.
    - destruct runs as [|r [|r2 rest]].
      + cbn. split; auto. constructor.
      + cbn [merge_all concat]. rewrite app_nil_r. inversion Hok; subst. split; auto.
      + change (merge_all lt (S f) (r :: r2 :: rest)) with (merge_all lt f (merge_pass lt (r :: r2 :: rest))).
        destruct (merge_pass_spec (length (r :: r2 :: rest)) (r :: r2 :: rest) (le_n _) Hok Hd ND) as (Pok & Pp & Pl & _).
        specialize (Pl ltac:(cbn [length]; lia)).
        destruct (IH (merge_pass lt (r :: r2 :: rest))) as [P1 S1]; auto.
        * cbn [length] in *. lia.
        * intros y Hy. apply Hd. now apply (Permutation_in _ Pp).
        * apply (Permutation_NoDup (Permutation_sym Pp) ND).
        * split; auto. now rewrite P1.
  Qed.

  Lemma chunks_concat : forall fuel k (l : list A), concat (chunks fuel k l) = l.
  Proof.
    induction fuel as [|f IH]; intros k l; cbn [chunks].
    - cbn. now rewrite app_nil_r.
    - destruct l as [|a l]; auto. destruct (length (a :: l) <=? k).
      + cbn. now rewrite app_nil_r.
      + cbn [concat]. rewrite IH. apply firstn_skipn.
  Qed.

  Lemma concat_map_perm (f : list A -> list A) (ls : list (list A)) :
    (forall l, In l ls -> Permutation (f l) l) -> Permutation (concat (map f ls)) (concat ls).
  Proof.
    induction ls as [|l ls IH]; intros H; cbn [map concat]; auto.
    apply Permutation_app; [apply H; now left|apply IH; intros x Hx; apply H; now right].
  Qed.

  Lemma concat_nodup_in (cs : list (list A)) c : In c cs -> NoDup (concat cs) -> NoDup c.
  Proof.
    induction cs as [|c0 cs' IH]; intros Hc ND; [destruct Hc|]. cbn [concat] in ND.
    destruct Hc as [->|Hc]; [now apply nodup_app_l in ND|]. apply IH; auto. now apply nodup_app_r in ND.
  Qed.

  (** slices.SortStableFunc returns a strictly sorted permutation — any length *)
  Theorem go_stable_sort_spec (l : list A) : incl l dom -> NoDup l -> sort_spec lt l.
  Proof.
    intros Hd ND. unfold sort_spec, go_stable_sort.
    set (cs := chunks (S (length l)) block_size l).
    assert (Ec : concat cs = l) by apply chunks_concat.
    assert (Pc : Permutation (concat (map (isort lt) cs)) l).
    { transitivity (concat cs); [|now rewrite Ec]. apply concat_map_perm. intros x _. apply isort_perm. }
    assert (Hin : forall c, In c cs -> incl c l /\ NoDup c).
    { intros c Hc. split.
      - intros y Hy. rewrite <- Ec. apply in_concat. eauto.
      - apply (concat_nodup_in cs c Hc). now rewrite Ec. }
    assert (Rok : runs_ok (map (isort lt) cs)).
    { unfold runs_ok. rewrite Forall_forall. intros r Hr. apply in_map_iff in Hr. destruct Hr as (c & <- & Hc).
      destruct (Hin c Hc) as [Hi Hn]. apply (isort_sorted lt dom trans total); auto. intros y Hy. apply Hd. now apply Hi. }
    assert (Hlen : length (map (isort lt) cs) <= S (length l)).
    { rewrite map_length. subst cs. generalize (S (length l)) at 1 as fuel. intros fuel.
      assert (G : forall fuel (x : list A), length (chunks fuel block_size x) <= S (length x)).
      { induction fuel0 as [|f IHf]; intros x; cbn [chunks]; [cbn; lia|].
        destruct x as [|a x]; [cbn; lia|]. destruct (length (a :: x) <=? block_size) eqn:E; [cbn; lia|].
        apply Nat.leb_gt in E. cbn [length]. specialize (IHf (skipn block_size (a :: x))).
        rewrite skipn_length in IHf. unfold block_size in *. cbn [length] in *. lia. }
      apply G. }
    destruct (merge_all_spec (S (length l)) (map (isort lt) cs) Hlen Rok) as [P1 S1].
    - intros y Hy. apply Hd. now apply (Permutation_in _ Pc).
    - apply (Permutation_NoDup (Permutation_sym Pc) ND).
    - split; auto. now rewrite P1.
  Qed.
End StableSort.
