(** Byte strings: Go [string]/[[]byte] = Coq [string] (list of 8-bit [ascii]). *)
From Coq Require Import List String Ascii NArith ZArith Bool Arith Lia.
Import ListNotations.
Open Scope string_scope.

(** [bs [104;105]] = "hi"; used by the harness for strings with non-printable bytes. *)
Fixpoint bs (l : list N) : string :=
  match l with
  | [] => EmptyString
  | n :: r => String (ascii_of_N n) (bs r)
  end.

Definition byte_of (c : ascii) : N := N_of_ascii c.

Fixpoint to_list (s : string) : list ascii :=
  match s with EmptyString => [] | String c r => c :: to_list r end.

Fixpoint of_list (l : list ascii) : string :=
  match l with [] => EmptyString | c :: r => String c (of_list r) end.

Lemma of_to_list s : of_list (to_list s) = s.
Proof. induction s; simpl; congruence. Qed.

Lemma to_of_list l : to_list (of_list l) = l.
Proof. induction l; simpl; congruence. Qed.

Definition str_eqb := String.eqb.

Lemma str_eqb_eq a b : str_eqb a b = true <-> a = b.
Proof. apply String.eqb_eq. Qed.

Fixpoint mem_str (x : string) (l : list string) : bool :=
  match l with [] => false | y :: r => if String.eqb x y then true else mem_str x r end.

Lemma mem_str_In x l : mem_str x l = true <-> In x l.
Proof.
  induction l as [|y r IH]; simpl.
  - split; [discriminate | tauto].
  - destruct (String.eqb x y) eqn:E.
    + apply String.eqb_eq in E. subst. tauto.
    + apply String.eqb_neq in E. rewrite IH. split; [tauto|]. intros [H|H]; [congruence|exact H].
Qed.

(** Association lists keyed by strings. *)
Fixpoint assoc {A} (k : string) (l : list (string * A)) : option A :=
  match l with
  | [] => None
  | (k', v) :: r => if String.eqb k k' then Some v else assoc k r
  end.

Definition N_of_nat' := N.of_nat.
