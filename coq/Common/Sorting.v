(** Go's [slices.SortStableFunc] (go1.24 zsortanyfunc.go: [stableCmpFunc], [insertionSortCmpFunc],
    [symMergeCmpFunc], [rotateCmpFunc]) as an executable function on lists, parametrised by the only
    thing the algorithm asks of the comparator: [lt a b  :=  cmp(a, b) < 0].

    The model is faithful also for comparators that are NOT orders (pint's [cmpDiagnostics] answers -1 in
    both directions for two empty lists), because the probing sequence of the binary searches is kept.

    Proved here: the insertion sort (which IS the whole algorithm for n <= 20) returns a permutation, and a
    strictly sorted one whenever [lt] is transitive and total on the (pairwise distinct) elements; a strictly
    sorted permutation is unique.  [symMerge] is executable only (used by the correspondence for n > 20). *)
From Coq Require Import List Arith Bool Lia Permutation Sorted.
Import ListNotations.

Section Sort.
  Context {A : Type}.
  Variable lt : A -> A -> bool.

  (** insertionSortCmpFunc: [for i := a+1; i < b; i++ { for j := i; j > a && cmp(data[j], data[j-1]) < 0; j-- { swap } }].
      [rp] is the already sorted prefix, reversed. *)
  Fixpoint ins_rev (x : A) (rp : list A) : list A :=
    match rp with
    | [] => [x]
    | p :: rp' => if lt x p then p :: ins_rev x rp' else x :: rp
    end.

  Definition isort_rev (l : list A) : list A := fold_left (fun rp x => ins_rev x rp) l [].
  Definition isort (l : list A) : list A := rev (isort_rev l).

  (** binary search [for i < j { h := (i+j)>>1; if P(data[h]) { i = h+1 } else { j = h } }]; returns i. *)
  Fixpoint bsearch (fuel : nat) (P : nat -> bool) (i j : nat) : nat :=
    match fuel with
    | O => i
    | S f => if i <? j then
               let h := (i + j) / 2 in
               if P h then bsearch f P (h + 1) j else bsearch f P i h
             else i
    end.

  Definition nth_or (d : A) (l : list A) (i : nat) : A := nth i l d.

  (** symMergeCmpFunc(data, a, m, b) on the two runs u = data[a:m], v = data[m:b] (indices relative to a;
      every [(x+y)>>1] of the Go code is translation invariant). *)
  Fixpoint sym_merge (fuel : nat) (u v : list A) : list A :=
    match fuel with
    | O => u ++ v
    | S f =>
      match u, v with
      | [], _ => v
      | _, [] => u
      | [x], _ =>
          (* lowest i with data[i] >= data[a] in v *)
          let i := bsearch (S (length v)) (fun h => lt (nth_or x v h) x) 0 (length v) in
          firstn i v ++ [x] ++ skipn i v
      | x0 :: _, [y] =>
          (* lowest i with data[i] > data[m] in u *)
          let i := bsearch (S (length u)) (fun h => negb (lt y (nth_or x0 u h))) 0 (length u) in
          firstn i u ++ [y] ++ skipn i u
      | x0 :: _, _ =>
          (* general case, written over the two runs: with m = |u|, b = |u|+|v|, mid = b/2, n = mid+m, p = n-1 the Go code
             probes data[c] (always inside u) against data[p-c] (always inside v, at index mid-1-c), finds
             start = s, rotates data[s:m] with data[m:n-s], and recurses on (a, s, mid) and (mid, n-s, b).  After the
             rotation data[0:mid] = u[0:s] ++ v[0:mid-s] and data[mid:b] = u[s:] ++ v[mid-s:] (also when no rotation happens). *)
          let m := length u in
          let b := m + length v in
          let mid := b / 2 in
          let n := mid + m in
          let '(start0, r0) := if mid <? m then (n - b, mid) else (0, m) in
          let s := bsearch (S b) (fun c => negb (lt (nth_or x0 v (mid - 1 - c)) (nth_or x0 u c))) start0 r0 in
          let ul := firstn s u in
          let ur := skipn s u in
          let vl := firstn (mid - s) v in
          let vr := skipn (mid - s) v in
          (if (0 <? s) && (s <? mid) then sym_merge f ul vl else ul ++ vl) ++
          (if (0 <? m - s) && (m - s <? b - mid) then sym_merge f ur vr else ur ++ vr)
      end
    end.

  Fixpoint chunks (fuel : nat) (k : nat) (l : list A) : list (list A) :=
    match fuel with
    | O => [l]
    | S f => match l with
             | [] => []
             | _ => if length l <=? k then [l] else firstn k l :: chunks f k (skipn k l)
             end
    end.

  (** one pass of [for blockSize < n]: adjacent runs are merged pairwise, an odd run at the end stays *)
  Fixpoint merge_pass (runs : list (list A)) : list (list A) :=
    match runs with
    | u :: v :: rest => sym_merge (S (length u + length v)) u v :: merge_pass rest
    | _ => runs
    end.

  Fixpoint merge_all (fuel : nat) (runs : list (list A)) : list A :=
    match fuel with
    | O => concat runs
    | S f => match runs with
             | [] => []
             | [r] => r
             | _ => merge_all f (merge_pass runs)
             end
    end.

  Definition block_size := 20.

  (** slices.SortStableFunc *)
  Definition go_stable_sort (l : list A) : list A :=
    merge_all (S (length l)) (map isort (chunks (S (length l)) block_size l)).

  (* ------------------------------------------------------------------------------------------ *)

  Lemma ins_rev_perm x rp : Permutation (ins_rev x rp) (x :: rp).
  Proof.
    induction rp as [|p rp IH]; cbn [ins_rev]; [reflexivity|].
    destruct (lt x p); [|reflexivity].
    rewrite IH. apply perm_swap.
  Qed.

  Lemma isort_rev_perm_gen l acc : Permutation (fold_left (fun rp x => ins_rev x rp) l acc) (l ++ acc).
  Proof.
    revert acc. induction l as [|x l IH]; intros acc; cbn [fold_left app]; [reflexivity|].
    rewrite IH. rewrite ins_rev_perm. symmetry. apply Permutation_middle.
  Qed.

  Lemma isort_perm l : Permutation (isort l) l.
  Proof.
    unfold isort, isort_rev. rewrite <- Permutation_rev. rewrite isort_rev_perm_gen. now rewrite app_nil_r.
  Qed.

  Lemma go_stable_sort_small l : length l <= block_size -> go_stable_sort l = isort l.
  Proof.
    intros Hl. unfold go_stable_sort. destruct l as [|a l]; [reflexivity|].
    cbn [chunks]. replace (length (a :: l) <=? block_size) with true by (symmetry; now apply Nat.leb_le).
    reflexivity.
  Qed.

  (** Sortedness.  [R a b := lt a b = true]. *)
  Definition R (a b : A) : Prop := lt a b = true.

  Section Ordered.
    Variable dom : list A.      (* the elements being sorted *)
    Hypothesis trans : forall a b c, In a dom -> In b dom -> In c dom -> R a b -> R b c -> R a c.
    Hypothesis total : forall a b, In a dom -> In b dom -> a <> b -> R a b \/ R b a.

    (** reversed prefix sorted: later elements (nearer the head) are greater *)
    Lemma ins_rev_sorted x rp :
      In x dom -> incl rp dom -> ~ In x rp ->
      StronglySorted (fun a b => R b a) rp -> StronglySorted (fun a b => R b a) (ins_rev x rp).
    Proof.
      intros Hx. induction rp as [|p rp IH]; intros Hin Hnot Hs; cbn [ins_rev].
      - constructor; constructor.
      - assert (Hp : In p dom) by (apply Hin; now left).
        assert (Hin' : incl rp dom) by (intros y Hy; apply Hin; now right).
        inversion Hs as [|? ? Hs' Hall]; subst.
        destruct (lt x p) eqn:E.
        + constructor.
          * apply IH; auto. intro; apply Hnot; now right.
          * rewrite Forall_forall. intros y Hy.
            apply (Permutation_in _ (ins_rev_perm x rp)) in Hy. destruct Hy as [<-|Hy]; [exact E|].
            rewrite Forall_forall in Hall. now apply Hall.
        + assert (Hpx : R p x).
          { destruct (total x p Hx Hp) as [H|H]; [intro; subst; apply Hnot; now left| |exact H].
            unfold R in H. congruence. }
          constructor; [exact Hs|]. constructor; [exact Hpx|].
          rewrite Forall_forall in *. intros y Hy. apply (trans y p x); auto.
    Qed.

    Lemma isort_rev_sorted_gen l acc :
      incl l dom -> incl acc dom -> NoDup (l ++ acc) ->
      StronglySorted (fun a b => R b a) acc ->
      StronglySorted (fun a b => R b a) (fold_left (fun rp x => ins_rev x rp) l acc).
    Proof.
      revert acc. induction l as [|x l IH]; intros acc Hl Ha Hnd Hs; cbn [fold_left]; [exact Hs|].
      apply IH.
      - intros y Hy; apply Hl; now right.
      - intros y Hy. apply (Permutation_in _ (ins_rev_perm x acc)) in Hy. destruct Hy as [<-|Hy]; [apply Hl; now left|now apply Ha].
      - cbn [app] in Hnd. apply (Permutation_NoDup (l := l ++ x :: acc)).
        + apply Permutation_app_head. symmetry. apply ins_rev_perm.
        + apply (Permutation_NoDup (l := x :: l ++ acc)); [apply Permutation_middle|exact Hnd].
      - apply ins_rev_sorted; auto.
        + apply Hl; now left.
        + cbn [app] in Hnd. inversion Hnd as [|? ? Hni _]; subst. intro H; apply Hni. apply in_or_app; now right.
    Qed.

    Lemma StronglySorted_snoc (P : A -> A -> Prop) l a :
      StronglySorted P l -> Forall (fun b => P b a) l -> StronglySorted P (l ++ [a]).
    Proof.
      induction 1 as [|b l Hs IH Hall]; intros Hf; cbn [app].
      - constructor; constructor.
      - inversion Hf as [|? ? Hba Hf']; subst. constructor; [now apply IH|].
        rewrite Forall_forall in *. intros y Hy. apply in_app_or in Hy. destruct Hy as [Hy|[<-|[]]]; auto.
    Qed.

    Lemma StronglySorted_rev (P : A -> A -> Prop) l :
      StronglySorted (fun a b => P b a) l -> StronglySorted P (rev l).
    Proof.
      induction 1 as [|a l Hs IH Hall]; cbn [rev]; [constructor|].
      apply StronglySorted_snoc; [exact IH|].
      rewrite Forall_forall in *. intros y Hy. apply Hall. now apply in_rev.
    Qed.

    Lemma isort_sorted l : incl l dom -> NoDup l -> StronglySorted R (isort l).
    Proof.
      intros Hl Hnd. unfold isort, isort_rev. apply StronglySorted_rev.
      apply isort_rev_sorted_gen; auto.
      - intros y [].
      - now rewrite app_nil_r.
      - constructor.
    Qed.

    Hypothesis asym : forall a b, In a dom -> In b dom -> a <> b -> R a b -> R b a -> False.

    (** a strictly sorted permutation (of pairwise distinct elements) is unique; [R a a] is not excluded
        (pint's comparator says "less" for a report with no diagnostics against itself) *)
    Lemma sorted_perm_unique l1 l2 :
      incl l1 dom -> NoDup l1 -> Permutation l1 l2 -> StronglySorted R l1 -> StronglySorted R l2 -> l1 = l2.
    Proof.
      revert l2. induction l1 as [|a l1 IH]; intros l2 Hd Hnd Hp H1 H2.
      - apply Permutation_nil in Hp. now subst.
      - destruct l2 as [|b l2]; [symmetry in Hp; apply Permutation_nil in Hp; discriminate|].
        inversion H1 as [|? ? H1' A1]; subst. inversion H2 as [|? ? H2' A2]; subst.
        rewrite Forall_forall in A1, A2.
        assert (Ha : In a dom) by (apply Hd; now left).
        assert (Hb : In b dom).
        { apply Hd. apply (Permutation_in _ (Permutation_sym Hp)). now left. }
        assert (a = b) as ->.
        { assert (Hab : In a (b :: l2)) by (apply (Permutation_in _ Hp); now left).
          assert (Hba : In b (a :: l1)) by (apply (Permutation_in _ (Permutation_sym Hp)); now left).
          destruct Hab as [->|Hab]; [reflexivity|]. destruct Hba as [->|Hba]; [reflexivity|].
          exfalso. inversion Hnd as [|? ? Hni _]; subst.
          apply (asym a b Ha Hb); [intro; subst; contradiction| |]; auto. }
        f_equal. inversion Hnd; subst. apply IH; auto.
        + intros y Hy; apply Hd; now right.
        + now apply Permutation_cons_inv in Hp.
    Qed.
  End Ordered.

  (** Specification a stable-sort result must meet for the uniqueness argument (decidable; the
      correspondence evaluates it for lists longer than 20, where [symMerge] is not proved). *)
  Definition sort_spec (l : list A) : Prop :=
    Permutation (go_stable_sort l) l /\ StronglySorted R (go_stable_sort l).

  Lemma sort_spec_small l :
    length l <= block_size -> NoDup l ->
    (forall a b c, In a l -> In b l -> In c l -> R a b -> R b c -> R a c) ->
    (forall a b, In a l -> In b l -> a <> b -> R a b \/ R b a) ->
    sort_spec l.
  Proof.
    intros Hl Hnd Htr Htot. unfold sort_spec. rewrite go_stable_sort_small by exact Hl. split.
    - apply isort_perm.
    - apply (isort_sorted l Htr Htot); [apply incl_refl|exact Hnd].
  Qed.

  (** Two permutations of one list of pairwise distinct elements on which [lt] is a strict total order
      are sorted to the same result. *)
  Lemma stable_sort_perm_invariant l1 l2 :
    Permutation l1 l2 -> NoDup l1 ->
    (forall a b c, In a l1 -> In b l1 -> In c l1 -> R a b -> R b c -> R a c) ->
    (forall a b, In a l1 -> In b l1 -> a <> b -> R a b -> R b a -> False) ->
    sort_spec l1 -> sort_spec l2 ->
    go_stable_sort l1 = go_stable_sort l2.
  Proof.
    intros Hp Hnd Htr Hasym [P1 S1] [P2 S2].
    apply (sorted_perm_unique l1 Hasym); auto.
    - intros y Hy. now apply (Permutation_in _ P1).
    - apply (Permutation_NoDup (Permutation_sym P1) Hnd).
    - rewrite P1, P2. exact Hp.
  Qed.

  (** executable check of [StronglySorted R] (used to monitor [sort_spec] on long lists) *)
  Fixpoint sortedb (l : list A) : bool :=
    match l with
    | [] => true
    | a :: r => forallb (lt a) r && sortedb r
    end.

  Lemma sortedb_sound l : sortedb l = true -> StronglySorted R l.
  Proof.
    induction l as [|a l IH]; cbn [sortedb]; intros H; [constructor|].
    apply andb_true_iff in H. destruct H as [H1 H2]. constructor; [now apply IH|].
    rewrite forallb_forall in H1. rewrite Forall_forall. exact H1.
  Qed.
End Sort.
