(** Go [time.Time] / [time.Duration] as [Z] nanoseconds.

    A [time.Time] is modelled as nanoseconds since the Unix epoch (what [Time.UnixNano] returns);
    Go's [Time.Round] rounds the *absolute* time since its zero time (January 1, year 1 UTC), which is
    [unix_to_abs_s] seconds before the Unix epoch, so the offset is part of the definition.
    Saturation/wrap-around of int64 is outside the model except for [Duration.Round]'s documented
    overflow branch. *)
From Coq Require Import ZArith Lia.
Open Scope Z_scope.

Definition sec : Z := 1000000000.
Definition minute : Z := 60 * sec.
Definition hour : Z := 3600 * sec.
Definition max_int64 : Z := 9223372036854775807.
Definition min_int64 : Z := -9223372036854775808.

(** seconds between 0001-01-01T00:00:00Z and 1970-01-01T00:00:00Z (time.unixToInternal). *)
Definition unix_to_abs_s : Z := 62135596800.
Definition unix_to_abs : Z := unix_to_abs_s * sec.

(** time.lessThanHalf(x, y) = x+x < y *)
Definition less_than_half (x y : Z) : bool := x + x <? y.

(** func (t Time) Round(d Duration) Time: round half up to a multiple of d since the zero time;
    d <= 0 returns t unchanged. *)
Definition time_round (t d : Z) : Z :=
  if d <=? 0 then t
  else let r := (t + unix_to_abs) mod d in
       if less_than_half r d then t - r else t + (d - r).

(** func (d Duration) Round(m Duration) Duration: round half away from zero; m <= 0 returns d;
    saturates at the int64 limits. *)
Definition duration_round (d m : Z) : Z :=
  if m <=? 0 then d
  else
    let r := Z.rem d m in
    if d <? 0 then
      let r := - r in
      if less_than_half r m then d + r
      else let d1 := d - m + r in if min_int64 <=? d1 then d1 else min_int64
    else
      if less_than_half r m then d - r
      else let d1 := d + m - r in if d1 <=? max_int64 then d1 else max_int64.

(** Facts used by the range development. *)
Lemma time_round_multiple t d : 0 < d -> ((time_round t d + unix_to_abs) mod d = 0).
Proof.
  intros Hd. unfold time_round, less_than_half.
  destruct (d <=? 0) eqn:E; [apply Z.leb_le in E; lia|].
  pose proof (Z.mod_pos_bound (t + unix_to_abs) d Hd) as Hb.
  pose proof (Z.div_mod (t + unix_to_abs) d ltac:(lia)) as Hdm.
  set (r := (t + unix_to_abs) mod d) in *.
  set (q := (t + unix_to_abs) / d) in *.
  destruct (r + r <? d).
  - replace (t - r + unix_to_abs) with (q * d) by lia. apply Z.mod_mul. lia.
  - replace (t + (d - r) + unix_to_abs) with ((q + 1) * d) by lia. apply Z.mod_mul. lia.
Qed.

Lemma time_round_near t d : 0 < d -> time_round t d - d < t + d /\ t - d < time_round t d /\ time_round t d <= t + d.
Proof.
  intros Hd. unfold time_round, less_than_half.
  destruct (d <=? 0) eqn:E; [apply Z.leb_le in E; lia|].
  pose proof (Z.mod_pos_bound (t + unix_to_abs) d Hd) as Hb.
  destruct (_ + _ <? d); lia.
Qed.

Lemma time_round_nonpos t d : d <= 0 -> time_round t d = t.
Proof. intros H. unfold time_round. destruct (d <=? 0) eqn:E; [reflexivity|apply Z.leb_gt in E; lia]. Qed.

(** (2h).Round(step): a non-negative multiple of [step]; zero exactly when step > 4h. *)
Lemma duration_round_pos_multiple d m : 0 <= d -> 0 < m -> d + m <= max_int64 ->
  (duration_round d m) mod m = 0 /\ 0 <= duration_round d m.
Proof.
  intros Hd Hm Hmax. unfold duration_round, less_than_half.
  destruct (m <=? 0) eqn:E; [apply Z.leb_le in E; lia|].
  destruct (d <? 0) eqn:E2; [apply Z.ltb_lt in E2; lia|].
  rewrite Z.rem_mod_nonneg by lia.
  pose proof (Z.mod_pos_bound d m Hm) as Hb.
  pose proof (Z.div_mod d m ltac:(lia)) as Hdm.
  set (r := d mod m) in *. set (q := d / m) in *.
  assert (0 <= q) by (apply Z.div_pos; lia).
  destruct (r + r <? m).
  - replace (d - r) with (q * m) by lia. split; [apply Z.mod_mul; lia|nia].
  - destruct (d + m - r <=? max_int64) eqn:E3; [|apply Z.leb_gt in E3; lia].
    replace (d + m - r) with ((q + 1) * m) by lia. split; [apply Z.mod_mul; lia|nia].
Qed.

Lemma duration_round_zero_iff d m : 0 < d -> 0 < m -> d + m <= max_int64 ->
  (duration_round d m = 0 <-> d + d < m).
Proof.
  intros Hd Hm Hmax. unfold duration_round, less_than_half.
  destruct (m <=? 0) eqn:E; [apply Z.leb_le in E; lia|].
  destruct (d <? 0) eqn:E2; [apply Z.ltb_lt in E2; lia|].
  rewrite Z.rem_mod_nonneg by lia.
  pose proof (Z.mod_pos_bound d m Hm) as Hb.
  pose proof (Z.div_mod d m ltac:(lia)) as Hdm.
  set (r := d mod m) in *. set (q := d / m) in *.
  assert (0 <= q) by (apply Z.div_pos; lia).
  destruct (r + r <? m) eqn:E3.
  - apply Z.ltb_lt in E3. split; intro H0.
    + assert (q = 0) by nia. subst q. nia.
    + assert (d < m) by lia. assert (q = 0) by (unfold q; apply Z.div_small; lia). nia.
  - apply Z.ltb_ge in E3.
    destruct (d + m - r <=? max_int64) eqn:E4; [|apply Z.leb_gt in E4; lia].
    split; intro H0; [lia|]. exfalso.
    assert (d < m) by lia. assert (q = 0) by (unfold q; apply Z.div_small; lia). nia.
Qed.
