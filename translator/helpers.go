// translator helpers. Programs: core.go (tag core) and ext_Cxx.go (tag ext_Cxx), each with its own main.
// translator: regenerates coq/Gen/Tables.v from the Go AST of the current pint source tree.
//
// It extracts only finite tables (constants, switch tables, composite literals, call arguments) and
// fails closed: a construct it does not recognise is an error (reported by bin/check as a broken
// obligation), never a guess.  Standard library only.
package main

import (
	"encoding/json"
	"fmt"
	"go/ast"
	"go/parser"
	"go/printer"
	"go/token"
	"os"
	"path/filepath"
	"sort"
	"strconv"
	"strings"
)

var fset = token.NewFileSet()

type pkgFiles struct {
	dir   string
	files map[string]*ast.File // base name -> file (non-test)
	names []string
}

func loadPkg(dir string) *pkgFiles {
	ents, err := os.ReadDir(dir)
	if err != nil {
		fatal("cannot read %s: %v", dir, err)
	}
	p := &pkgFiles{dir: dir, files: map[string]*ast.File{}}
	for _, e := range ents {
		n := e.Name()
		if e.IsDir() || !strings.HasSuffix(n, ".go") || strings.HasSuffix(n, "_test.go") || strings.HasPrefix(n, "zz_verif") {
			continue
		}
		f, err := parser.ParseFile(fset, filepath.Join(dir, n), nil, parser.ParseComments)
		if err != nil {
			fatal("parse %s: %v", n, err)
		}
		p.files[n] = f
		p.names = append(p.names, n)
	}
	sort.Strings(p.names)
	return p
}

func fatal(f string, a ...any) {
	fmt.Fprintf(os.Stderr, "translator: "+f+"\n", a...)
	os.Exit(1)
}

func src(n ast.Node) string {
	var b strings.Builder
	_ = printer.Fprint(&b, fset, n)
	return b.String()
}

func pos(n ast.Node) string {
	p := fset.Position(n.Pos())
	return fmt.Sprintf("%s:%d", filepath.Base(p.Filename), p.Line)
}

// ------------------------------------------------------------------------------------------------
// constants

type constTable struct {
	strs map[string]string // identifier -> string value
	ints map[string]int64  // identifier -> int value (iota blocks)
	typ  map[string]string // identifier -> declared type name (iota blocks)
}

func collectConsts(p *pkgFiles) *constTable {
	ct := &constTable{strs: map[string]string{}, ints: map[string]int64{}, typ: map[string]string{}}
	for _, fn := range p.names {
		for _, d := range p.files[fn].Decls {
			gd, ok := d.(*ast.GenDecl)
			if !ok || gd.Tok != token.CONST {
				continue
			}
			curType := ""
			iotaBlock := false
			for i, s := range gd.Specs {
				vs := s.(*ast.ValueSpec)
				if len(vs.Values) == 1 && len(vs.Names) == 1 {
					switch v := vs.Values[0].(type) {
					case *ast.BasicLit:
						if v.Kind == token.STRING {
							u, err := strconv.Unquote(v.Value)
							if err == nil {
								ct.strs[vs.Names[0].Name] = u
							}
						}
						iotaBlock = false
					case *ast.Ident:
						if v.Name == "iota" {
							iotaBlock = true
							curType = ""
							if vs.Type != nil {
								curType = src(vs.Type)
							}
							ct.ints[vs.Names[0].Name] = int64(i)
							ct.typ[vs.Names[0].Name] = curType
						} else {
							iotaBlock = false
						}
					default:
						iotaBlock = false
					}
				} else if len(vs.Values) == 0 && iotaBlock && len(vs.Names) == 1 {
					ct.ints[vs.Names[0].Name] = int64(i)
					ct.typ[vs.Names[0].Name] = curType
				}
			}
		}
	}
	return ct
}

func findFunc(p *pkgFiles, recv, name string) *ast.FuncDecl {
	for _, fn := range p.names {
		for _, d := range p.files[fn].Decls {
			fd, ok := d.(*ast.FuncDecl)
			if !ok || fd.Name.Name != name {
				continue
			}
			r := ""
			if fd.Recv != nil && len(fd.Recv.List) == 1 {
				r = strings.TrimPrefix(src(fd.Recv.List[0].Type), "*")
			}
			if r == recv {
				return fd
			}
		}
	}
	return nil
}

func findVarSlice(p *pkgFiles, name string) []ast.Expr {
	for _, fn := range p.names {
		for _, d := range p.files[fn].Decls {
			gd, ok := d.(*ast.GenDecl)
			if !ok || gd.Tok != token.VAR {
				continue
			}
			for _, s := range gd.Specs {
				vs := s.(*ast.ValueSpec)
				for i, n := range vs.Names {
					if n.Name == name && i < len(vs.Values) {
						if cl, ok := vs.Values[i].(*ast.CompositeLit); ok {
							return cl.Elts
						}
					}
				}
			}
		}
	}
	fatal("variable %s not found as a slice literal in %s", name, p.dir)
	return nil
}

// ------------------------------------------------------------------------------------------------
// Coq printing

func cs(s string) string {
	for i := 0; i < len(s); i++ {
		if s[i] < 0x20 || s[i] > 0x7e {
			fatal("non printable byte in table string %q", s)
		}
	}
	return `"` + strings.ReplaceAll(s, `"`, `""`) + `"`
}

func clist(xs []string) string { return "[" + strings.Join(xs, "; ") + "]" }

func cstrs(xs []string) string {
	o := make([]string, len(xs))
	for i, x := range xs {
		o[i] = cs(x)
	}
	return clist(o)
}

func cbool(b bool) string {
	if b {
		return "true"
	}
	return "false"
}

type out struct {
	b    strings.Builder
	json map[string]any
}

func (o *out) def(name, typ, body string) {
	fmt.Fprintf(&o.b, "Definition %s : %s :=\n  %s.\n\n", name, typ, body)
}

func onlySwitch(fd *ast.FuncDecl) *ast.SwitchStmt {
	var sw *ast.SwitchStmt
	for _, st := range fd.Body.List {
		if s, ok := st.(*ast.SwitchStmt); ok {
			if sw != nil {
				fatal("%s: more than one switch", fd.Name.Name)
			}
			sw = s
		}
	}
	if sw == nil {
		fatal("%s: no switch statement", fd.Name.Name)
	}
	return sw
}

func onlyReturn(cc *ast.CaseClause) *ast.ReturnStmt {
	if len(cc.Body) != 1 {
		fatal("case at %s: expected a single return", pos(cc))
	}
	r, ok := cc.Body[0].(*ast.ReturnStmt)
	if !ok {
		fatal("case at %s: expected a return", pos(cc))
	}
	return r
}

func strLit(e ast.Expr) string {
	bl, ok := e.(*ast.BasicLit)
	if !ok || bl.Kind != token.STRING {
		fatal("expected string literal at %s, got %s", pos(e), src(e))
	}
	u, err := strconv.Unquote(bl.Value)
	if err != nil {
		fatal("bad literal %s", bl.Value)
	}
	return u
}

func selName(e ast.Expr) string {
	switch v := e.(type) {
	case *ast.Ident:
		return v.Name
	case *ast.SelectorExpr:
		return v.Sel.Name
	}
	fatal("expected identifier at %s, got %s", pos(e), src(e))
	return ""
}

func boolLit(e ast.Expr) bool {
	switch src(e) {
	case "true":
		return true
	case "false":
		return false
	}
	fatal("expected bool literal at %s", pos(e))
	return false
}

func oneLine(s string) string {
	s = strings.ReplaceAll(s, "\n", " ")
	s = strings.ReplaceAll(s, "\t", " ")
	for strings.Contains(s, "  ") {
		s = strings.ReplaceAll(s, "  ", " ")
	}
	return s
}

func argsSrc(ce *ast.CallExpr) string {
	var a []string
	for _, x := range ce.Args {
		a = append(a, src(x))
	}
	return strings.Join(a, ", ")
}

// writeOut writes the generated .v (and optional json) files.
func (o *out) write(vPath, jsonPath string) {
	if err := os.WriteFile(vPath, []byte(o.b.String()), 0o644); err != nil {
		fatal("%v", err)
	}
	if jsonPath != "" {
		b, _ := json.MarshalIndent(o.json, "", " ")
		_ = os.WriteFile(jsonPath, b, 0o644)
	}
}

func newOut(title string) *out {
	o := &out{json: map[string]any{}}
	o.b.WriteString("(* GENERATED by /verif/translator (" + title + ") from the Go sources of the current pint tree. Do not edit. *)\n")
	o.b.WriteString("From Coq Require Import List String ZArith Bool.\nImport ListNotations.\nOpen Scope string_scope.\n\n")
	return o
}
