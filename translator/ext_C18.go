//go:build ext_C18

package main

// ext_C18: tables for C18 in addition to the core `dropped_error_sites`:
//   validators  — every call made inside a validate()/Validate() method (and config.Load) of internal/config and
//                 internal/checks, with its argument (loop variables resolved to `<range expr>[]`) and the nearest
//                 enclosing `X != ""` guard;
//   extra_sites — dropped-error / Must* sites of cmd/pint (the core table covers internal/config and internal/checks).
// Fails closed like the core translator.

import (
	"flag"
	"fmt"
	"go/ast"
	"go/token"
	"path/filepath"
	"strings"
)

func main() {
	srcDir := flag.String("src", "/repo", "pint source tree")
	outPath := flag.String("out", "C18.v", "output .v")
	jsonPath := flag.String("json", "", "output json")
	flag.Parse()

	o := newOut("ext C18: load-time validators and cmd/pint dropped-error sites")
	o.b.WriteString("From PintV Require Import Gen.Tables.\n\n")

	var rows []string
	var vcRows, vmRows []string // validate_calls, validate_methods
	var mentionRows []string    // (struct, field) for every `<receiver>.<Field>` a validate method of that struct reads
	mentioned := map[string]bool{}
	nvalidate := 0
	for _, sub := range []string{"internal/config", "internal/checks"} {
		p := loadPkg(filepath.Join(*srcDir, sub))
		for _, fn := range p.names {
			for _, d := range p.files[fn].Decls {
				fd, ok := d.(*ast.FuncDecl)
				if !ok || fd.Body == nil {
					continue
				}
				name := fd.Name.Name
				isValidate := (name == "validate" || name == "Validate") && fd.Recv != nil
				if fd.Recv == nil && strings.HasPrefix(name, "validate") {
					isValidate = true // helper validators: validateMatchRegex, validateCheckName
				}
				isLoad := name == "Load" && fd.Recv == nil && sub == "internal/config"
				if !isValidate && !isLoad {
					continue
				}
				nvalidate++
				recv := ""
				if fd.Recv != nil && len(fd.Recv.List) == 1 {
					recv = strings.TrimPrefix(src(fd.Recv.List[0].Type), "*")
				}
				fname := name
				if recv != "" {
					fname = recv + "." + name
				}
				recvName := ""
				if fd.Recv != nil && len(fd.Recv.List) == 1 && len(fd.Recv.List[0].Names) == 1 {
					recvName = fd.Recv.List[0].Names[0].Name
				}
				if isValidate && recv != "" && sub == "internal/config" {
					vmRows = append(vmRows, cs(recv))
					// fields of the receiver read by validate itself or by a method of the same type it calls (one level:
					// `p.getSchema()` reads p.Schema)
					var scan func(body *ast.BlockStmt, rn string, depth int)
					scan = func(body *ast.BlockStmt, rn string, depth int) {
						ast.Inspect(body, func(n ast.Node) bool {
							se, ok := n.(*ast.SelectorExpr)
							if !ok {
								return true
							}
							id, ok := se.X.(*ast.Ident)
							if !ok || id.Name != rn || rn == "" {
								return true
							}
							if m := findFunc(p, recv, se.Sel.Name); m != nil && m.Body != nil && depth == 0 && m != fd {
								mr := ""
								if m.Recv != nil && len(m.Recv.List) == 1 && len(m.Recv.List[0].Names) == 1 {
									mr = m.Recv.List[0].Names[0].Name
								}
								scan(m.Body, mr, depth+1)
								return true
							}
							k := recv + "." + se.Sel.Name
							if !mentioned[k] {
								mentioned[k] = true
								mentionRows = append(mentionRows, fmt.Sprintf("(%s, %s)", cs(recv), cs(se.Sel.Name)))
							}
							return true
						})
					}
					scan(fd.Body, recvName, 0)
				}
				rangeVars := map[string]string{}
				// calls of the shape `if err[:]= CALL; err != nil { ...; return ... }`: the error of CALL rejects the configuration
				checked := map[*ast.CallExpr]bool{}
				var walk func(n ast.Node, guard string)
				walk = func(n ast.Node, guard string) {
					switch s := n.(type) {
					case nil:
						return
					case *ast.RangeStmt:
						if id, ok := s.Value.(*ast.Ident); ok && id.Name != "_" {
							rangeVars[id.Name] = oneLine(src(s.X)) + "[]"
						}
						walk(s.Body, guard)
						return
					case *ast.IfStmt:
						if as, ok := s.Init.(*ast.AssignStmt); ok && len(as.Rhs) == 1 && len(s.Body.List) > 0 {
							if ce, ok := as.Rhs[0].(*ast.CallExpr); ok {
								if be, ok := s.Cond.(*ast.BinaryExpr); ok && be.Op == token.NEQ && src(be.Y) == "nil" && src(be.X) == src(as.Lhs[len(as.Lhs)-1]) {
									if _, ok := s.Body.List[len(s.Body.List)-1].(*ast.ReturnStmt); ok {
										checked[ce] = true
									}
								}
							}
						}
						if s.Init != nil {
							walk(s.Init, guard)
						}
						g := guard
						if be, ok := s.Cond.(*ast.BinaryExpr); ok && be.Op == token.NEQ && src(be.Y) == `""` {
							g = oneLine(src(s.Cond))
						}
						walk(s.Cond, guard)
						walk(s.Body, g)
						if s.Else != nil {
							walk(s.Else, guard)
						}
						return
					case *ast.CallExpr:
						callee := oneLine(src(s.Fun))
						// a nested block handed to its own validate method: `<owner>.<Field>.validate()` / range variable over `<owner>.<Field>`
						if se, ok := s.Fun.(*ast.SelectorExpr); ok && se.Sel.Name == "validate" && sub == "internal/config" {
							path := oneLine(src(se.X))
							if id, ok := se.X.(*ast.Ident); ok {
								if rv, ok := rangeVars[id.Name]; ok {
									path = strings.TrimSuffix(rv, "[]")
								}
							}
							owner, field := "?", path
							switch {
							case recvName != "" && strings.HasPrefix(path, recvName+"."):
								owner, field = recv, strings.TrimPrefix(path, recvName+".")
							case isLoad && strings.HasPrefix(path, "cfg."):
								owner, field = "Config", strings.TrimPrefix(path, "cfg.")
							}
							vcRows = append(vcRows, fmt.Sprintf("{| vc_func := %s; vc_owner := %s; vc_field := %s; vc_error_returned := %s |}", cs(fname), cs(owner), cs(field), cbool(checked[s])))
						}
						var as []string
						for _, a := range s.Args {
							t := oneLine(src(a))
							if id, ok := a.(*ast.Ident); ok {
								if rv, ok := rangeVars[id.Name]; ok {
									t = rv
								}
							}
							as = append(as, t)
						}
						rows = append(rows, fmt.Sprintf("{| v_file := %s; v_func := %s; v_callee := %s; v_arg := %s; v_guard := %s |}",
							cs(sub+"/"+fn), cs(fname), cs(callee), cs(strings.Join(as, ", ")), cs(guard)))
						for _, a := range s.Args {
							walk(a, guard)
						}
						return
					}
					// generic descent
					ast.Inspect(n, func(c ast.Node) bool {
						if c == n || c == nil {
							return true
						}
						switch c.(type) {
						case *ast.RangeStmt, *ast.IfStmt, *ast.CallExpr:
							walk(c, guard)
							return false
						}
						return true
					})
				}
				walk(fd.Body, "")
			}
		}
	}
	if nvalidate < 15 {
		fatal("only %d validate methods found", nvalidate)
	}
	o.b.WriteString("Record validator := { v_file : string; v_func : string; v_callee : string; v_arg : string; v_guard : string }.\n\n")
	o.def("validators", "list validator", "[\n   "+strings.Join(rows, ";\n   ")+"\n  ]")

	// the configuration schema: every `hcl:"<name>,block"` field of a struct of internal/config, with its element type
	{
		p := loadPkg(filepath.Join(*srcDir, "internal/config"))
		var cb, attrs []string
		for _, fn := range p.names {
			for _, d := range p.files[fn].Decls {
				gd, ok := d.(*ast.GenDecl)
				if !ok || gd.Tok != token.TYPE {
					continue
				}
				for _, sp := range gd.Specs {
					ts := sp.(*ast.TypeSpec)
					st, ok := ts.Type.(*ast.StructType)
					if !ok {
						continue
					}
					for _, f := range st.Fields.List {
						if f.Tag == nil {
							continue
						}
						tag := f.Tag.Value
						i := strings.Index(tag, `hcl:"`)
						if i < 0 {
							continue
						}
						h := tag[i+5:]
						h = h[:strings.Index(h, `"`)]
						parts := strings.Split(h, ",")
						if len(parts) != 2 || parts[1] != "block" {
							// an attribute (optional / required / label / remain): name and Go type
							kind := "attr"
							if len(parts) == 2 {
								kind = parts[1]
							}
							for _, nm := range f.Names {
								attrs = append(attrs, fmt.Sprintf("{| ca_struct := %s; ca_field := %s; ca_hcl := %s; ca_kind := %s; ca_type := %s |}", cs(ts.Name.Name), cs(nm.Name), cs(parts[0]), cs(kind), cs(oneLine(src(f.Type)))))
							}
							continue
						}
						if len(f.Names) != 1 {
							fatal("config schema: block field without a single name at %s", pos(f))
						}
						t := f.Type
						for {
							switch x := t.(type) {
							case *ast.StarExpr:
								t = x.X
								continue
							case *ast.ArrayType:
								t = x.Elt
								continue
							}
							break
						}
						id, ok := t.(*ast.Ident)
						if !ok {
							fatal("config schema: block field %s.%s has a type this translator does not know: %s (%s)", ts.Name.Name, f.Names[0].Name, src(f.Type), pos(f))
						}
						cb = append(cb, fmt.Sprintf("{| cb_struct := %s; cb_field := %s; cb_hcl := %s; cb_type := %s |}", cs(ts.Name.Name), cs(f.Names[0].Name), cs(parts[0]), cs(id.Name)))
					}
				}
			}
		}
		if len(cb) < 30 {
			fatal("config schema: only %d block fields found", len(cb))
		}
		o.b.WriteString("Record config_block := { cb_struct : string; cb_field : string; cb_hcl : string; cb_type : string }.\n\n")
		o.def("config_blocks", "list config_block", "[\n   "+strings.Join(cb, ";\n   ")+"\n  ]")
		o.b.WriteString("Record validate_call := { vc_func : string; vc_owner : string; vc_field : string; vc_error_returned : bool }.\n\n")
		o.def("validate_calls", "list validate_call", "[\n   "+strings.Join(vcRows, ";\n   ")+"\n  ]")
		o.def("validate_methods", "list string", "["+strings.Join(vmRows, "; ")+"]")
		o.b.WriteString("Record config_attr := { ca_struct : string; ca_field : string; ca_hcl : string; ca_kind : string; ca_type : string }.\n\n")
		o.def("config_attrs", "list config_attr", "[\n   "+strings.Join(attrs, ";\n   ")+"\n  ]")
		o.def("validate_mentions", "list (string * string)", "[\n   "+strings.Join(mentionRows, ";\n   ")+"\n  ]")
	}

	// cmd/pint sites (same detection as core genDropped)
	rows = nil
	// cmd/pint, and the packages configuration values are handed to: internal/promapi (upstream URIs, headers, timeouts),
	// internal/discovery
	for _, sub := range []string{"cmd/pint", "internal/promapi", "internal/discovery"} {
		p := loadPkg(filepath.Join(*srcDir, sub))
		for _, fn := range p.names {
			for _, d := range p.files[fn].Decls {
				fd, ok := d.(*ast.FuncDecl)
				if !ok || fd.Body == nil {
					continue
				}
				ast.Inspect(fd.Body, func(n ast.Node) bool {
					switch s := n.(type) {
					case *ast.AssignStmt:
						if len(s.Lhs) == 2 && len(s.Rhs) == 1 {
							if id, ok := s.Lhs[1].(*ast.Ident); ok && id.Name == "_" {
								if ce, ok := s.Rhs[0].(*ast.CallExpr); ok {
									rows = append(rows, fmt.Sprintf("{| ds_file := %s; ds_func := %s; ds_kind := \"dropped\"; ds_callee := %s; ds_args := %s |}",
										cs(sub+"/"+fn), cs(fd.Name.Name), cs(oneLine(src(ce.Fun))), cs(oneLine(argsSrc(ce)))))
								}
							}
						}
					case *ast.CallExpr:
						fnm := oneLine(src(s.Fun))
						base := fnm
						if i := strings.LastIndex(base, "."); i >= 0 {
							base = base[i+1:]
						}
						if strings.HasPrefix(base, "Must") && fd.Name.Name != base {
							allConst := true
							for _, a := range s.Args {
								if _, ok := a.(*ast.BasicLit); !ok {
									allConst = false
								}
							}
							if !allConst {
								rows = append(rows, fmt.Sprintf("{| ds_file := %s; ds_func := %s; ds_kind := \"must\"; ds_callee := %s; ds_args := %s |}",
									cs(sub+"/"+fn), cs(fd.Name.Name), cs(fnm), cs(oneLine(argsSrc(s)))))
							}
						}
					}
					return true
				})
			}
		}
	}
	o.def("extra_sites", "list dropped_site", "[\n   "+strings.Join(rows, ";\n   ")+"\n  ]")

	// callers of the regexp helpers (their argument is what the helper compiles)
	rows = nil
	for _, sub := range []string{"internal/config", "cmd/pint"} {
		p := loadPkg(filepath.Join(*srcDir, sub))
		for _, fn := range p.names {
			for _, d := range p.files[fn].Decls {
				fd, ok := d.(*ast.FuncDecl)
				if !ok || fd.Body == nil {
					continue
				}
				rangeVars := map[string]string{}
				ast.Inspect(fd.Body, func(n ast.Node) bool {
					if rs, ok := n.(*ast.RangeStmt); ok {
						if id, ok := rs.Value.(*ast.Ident); ok && id.Name != "_" {
							rangeVars[id.Name] = oneLine(src(rs.X)) + "[]"
						}
					}
					ce, ok := n.(*ast.CallExpr)
					if !ok {
						return true
					}
					base := oneLine(src(ce.Fun))
					if i := strings.LastIndex(base, "."); i >= 0 {
						base = base[i+1:]
					}
					if base != "matchRegex" && base != "strictRegex" {
						return true
					}
					if fd.Name.Name == "MustCompileRegexes" {
						return true
					}
					a := oneLine(argsSrc(ce))
					if len(ce.Args) == 1 {
						if id, ok := ce.Args[0].(*ast.Ident); ok {
							if rv, ok := rangeVars[id.Name]; ok {
								a = rv
							}
						}
					}
					rows = append(rows, fmt.Sprintf("{| ds_file := %s; ds_func := %s; ds_kind := \"helper\"; ds_callee := %s; ds_args := %s |}",
						cs(sub+"/"+fn), cs(fd.Name.Name), cs(base), cs(a)))
					return true
				})
			}
		}
	}
	o.def("regexp_helper_calls", "list dropped_site", "[\n   "+strings.Join(rows, ";\n   ")+"\n  ]")

	// the nearest enclosing `X != ""` condition of every dropped-error / Must* / regexp-helper call (the USE side of
	// "validated only when non-empty"): keyed like a dropped_site
	rows = nil
	for _, sub := range []string{"internal/config", "internal/checks", "cmd/pint"} {
		p := loadPkg(filepath.Join(*srcDir, sub))
		for _, fn := range p.names {
			for _, d := range p.files[fn].Decls {
				fd, ok := d.(*ast.FuncDecl)
				if !ok || fd.Body == nil {
					continue
				}
				rangeVars := map[string]string{}
				dropped := map[*ast.CallExpr]bool{}
				var walk func(n ast.Node, guard string)
				walk = func(n ast.Node, guard string) {
					switch s := n.(type) {
					case nil:
						return
					case *ast.RangeStmt:
						if id, ok := s.Value.(*ast.Ident); ok && id.Name != "_" {
							rangeVars[id.Name] = oneLine(src(s.X)) + "[]"
						}
						walk(s.Body, guard)
						return
					case *ast.IfStmt:
						if s.Init != nil {
							walk(s.Init, guard)
						}
						g := guard
						if be, ok := s.Cond.(*ast.BinaryExpr); ok && be.Op == token.NEQ && src(be.Y) == `""` {
							g = oneLine(src(s.Cond))
						}
						walk(s.Cond, guard)
						walk(s.Body, g)
						if s.Else != nil {
							walk(s.Else, guard)
						}
						return
					case *ast.AssignStmt:
						if len(s.Lhs) == 2 && len(s.Rhs) == 1 {
							if id, ok := s.Lhs[1].(*ast.Ident); ok && id.Name == "_" {
								if ce, ok := s.Rhs[0].(*ast.CallExpr); ok {
									dropped[ce] = true
								}
							}
						}
					case *ast.CallExpr:
						fnm := oneLine(src(s.Fun))
						base := fnm
						if i := strings.LastIndex(base, "."); i >= 0 {
							base = base[i+1:]
						}
						if dropped[s] || (strings.HasPrefix(base, "Must") && fd.Name.Name != base) || base == "matchRegex" || base == "strictRegex" {
							a := oneLine(argsSrc(s))
							if len(s.Args) == 1 {
								if id, ok := s.Args[0].(*ast.Ident); ok && (base == "matchRegex" || base == "strictRegex") {
									if rv, ok := rangeVars[id.Name]; ok {
										a = rv
									}
								}
							}
							rows = append(rows, fmt.Sprintf("{| sg_file := %s; sg_func := %s; sg_callee := %s; sg_args := %s; sg_guard := %s |}",
								cs(sub+"/"+fn), cs(fd.Name.Name), cs(fnm), cs(a), cs(guard)))
						}
						for _, a := range s.Args {
							walk(a, guard)
						}
						walk(s.Fun, guard)
						return
					}
					ast.Inspect(n, func(c ast.Node) bool {
						if c == n || c == nil {
							return true
						}
						switch c.(type) {
						case *ast.RangeStmt, *ast.IfStmt, *ast.CallExpr, *ast.AssignStmt:
							walk(c, guard)
							return false
						}
						return true
					})
				}
				walk(fd.Body, "")
			}
		}
	}
	o.b.WriteString("Record site_guard := { sg_file : string; sg_func : string; sg_callee : string; sg_args : string; sg_guard : string }.\n\n")
	o.def("site_guards", "list site_guard", "[\n   "+strings.Join(rows, ";\n   ")+"\n  ]")

	o.write(*outPath, *jsonPath)
}
