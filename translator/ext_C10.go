//go:build ext_C10

// ext_C10: tables of internal/comments (type constants, keyword strings, parseType, IsRuleComment, the state constants
// of parseComment) and of internal/parser/read.go (what parseComments does per comment type) -> coq/Gen/C10.v.  Used by C10 and C07.  Fails closed on any construct it does not recognise.
package main

import (
	"flag"
	"fmt"
	"go/ast"
	"go/token"
	"path/filepath"
	"sort"
	"strconv"
	"strings"
)

func main() {
	srcDir := flag.String("src", "/repo", "pint source tree")
	outPath := flag.String("out", "C10.v", "output .v")
	jsonPath := flag.String("json", "", "output json")
	flag.Parse()
	o := newOut("C10/C07 comment and reader tables")
	cp := loadPkg(filepath.Join(*srcDir, "internal", "comments"))
	pp := loadPkg(filepath.Join(*srcDir, "internal", "parser"))

	// 1. var block: Prefix and the keyword strings
	vars := map[string]string{}
	var varOrder []string
	for _, fn := range cp.names {
		for _, d := range cp.files[fn].Decls {
			gd, ok := d.(*ast.GenDecl)
			if !ok || gd.Tok != token.VAR {
				continue
			}
			for _, s := range gd.Specs {
				vs := s.(*ast.ValueSpec)
				for i, n := range vs.Names {
					if i < len(vs.Values) {
						if bl, ok := vs.Values[i].(*ast.BasicLit); ok && bl.Kind == token.STRING {
							u, err := strconv.Unquote(bl.Value)
							if err != nil {
								fatal("bad literal %s", bl.Value)
							}
							vars[n.Name] = u
							varOrder = append(varOrder, n.Name)
						}
					}
				}
			}
		}
	}
	if _, ok := vars["Prefix"]; !ok {
		fatal("comments.Prefix not found")
	}
	o.def("gen_prefix", "string", cs(vars["Prefix"]))
	var rows []string
	for _, k := range varOrder {
		if strings.HasSuffix(k, "Comment") {
			rows = append(rows, fmt.Sprintf("(%s, %s)", cs(k), cs(vars[k])))
		}
	}
	o.def("gen_comment_strings", "list (string * string)", clist(rows))

	// 2. the Type iota block
	ct := collectConsts(cp)
	rows = nil
	type kv struct {
		k string
		v int64
	}
	var tys []kv
	for k, v := range ct.ints {
		if ct.typ[k] == "Type" {
			tys = append(tys, kv{k, v})
		}
	}
	for i := 0; i < len(tys); i++ {
		for j := i + 1; j < len(tys); j++ {
			if tys[j].v < tys[i].v {
				tys[i], tys[j] = tys[j], tys[i]
			}
		}
	}
	for _, t := range tys {
		rows = append(rows, fmt.Sprintf("(%s, %d%%N)", cs(t.k), t.v))
	}
	if len(rows) == 0 {
		fatal("comments.Type iota block not found")
	}
	o.def("gen_type_consts", "list (string * N)", clist(rows))

	// 3. parseType: case <Keyword var>: return <Type const>
	fd := findFunc(cp, "", "parseType")
	if fd == nil {
		fatal("parseType not found")
	}
	rows = nil
	deflt := ""
	for _, st := range onlySwitch(fd).Body.List {
		cc := st.(*ast.CaseClause)
		ret := onlyReturn(cc)
		if len(ret.Results) != 1 {
			fatal("parseType: return at %s", pos(ret))
		}
		if cc.List == nil {
			deflt = selName(ret.Results[0])
			continue
		}
		for _, e := range cc.List {
			rows = append(rows, fmt.Sprintf("(%s, %s)", cs(selName(e)), cs(selName(ret.Results[0]))))
		}
	}
	o.def("gen_parse_type", "list (string * string)", clist(rows))
	o.def("gen_parse_type_default", "string", cs(deflt))

	// 4. IsRuleComment
	fd = findFunc(cp, "", "IsRuleComment")
	if fd == nil {
		fatal("IsRuleComment not found")
	}
	var rc []string
	for _, st := range onlySwitch(fd).Body.List {
		cc := st.(*ast.CaseClause)
		ret := onlyReturn(cc)
		if len(ret.Results) != 1 || !boolLit(ret.Results[0]) {
			fatal("IsRuleComment: unexpected case at %s", pos(cc))
		}
		for _, e := range cc.List {
			rc = append(rc, selName(e))
		}
	}
	o.def("gen_rule_comment_types", "list string", cstrs(rc))

	// 5. the parser states of parseComment (iota block without a type: needsHash ...)
	var states []kv
	for k, v := range ct.ints {
		if ct.typ[k] == "uint8" {
			states = append(states, kv{k, v})
		}
	}
	for i := 0; i < len(states); i++ {
		for j := i + 1; j < len(states); j++ {
			if states[j].v < states[i].v {
				states[i], states[j] = states[j], states[i]
			}
		}
	}
	var sn []string
	for _, s := range states {
		sn = append(sn, s.k)
	}
	o.def("gen_parser_states", "list string", cstrs(sn))

	// 6. read.go parseComments: per comment type of the inner switch
	fd = findFunc(pp, "ContentReader", "parseComments")
	if fd == nil {
		fatal("ContentReader.parseComments not found")
	}
	var inner, outer *ast.SwitchStmt
	ast.Inspect(fd.Body, func(n ast.Node) bool {
		if sw, ok := n.(*ast.SwitchStmt); ok {
			switch {
			case sw.Tag != nil && src(sw.Tag) == "comment.Type":
				inner = sw
			case sw.Tag != nil && src(sw.Tag) == "skip":
				outer = sw
			}
		}
		return true
	})
	if inner == nil || outer == nil {
		fatal("parseComments: switch comment.Type / switch skip not found")
	}
	_ = outer
	rows = nil
	for _, st := range inner.Body.List {
		cc := st.(*ast.CaseClause)
		if cc.List == nil {
			fatal("parseComments: default case in switch comment.Type at %s", pos(cc))
		}
		act := "pass"
		var parts []string
		for _, b := range cc.Body {
			as, ok := b.(*ast.AssignStmt)
			if !ok || len(as.Lhs) != 1 || len(as.Rhs) != 1 {
				fatal("parseComments: unexpected statement at %s: %s", pos(b), oneLine(src(b)))
			}
			lhs, rhs := src(as.Lhs[0]), oneLine(src(as.Rhs[0]))
			switch {
			case lhs == "skip":
				parts = append(parts, "skip="+rhs)
			case lhs == "found" && rhs == "true":
				parts = append(parts, "found")
			case lhs == "r.comments" && rhs == "append(r.comments, comment)":
				parts = append(parts, "collect")
			case lhs == "r.diagnostics" && strings.HasPrefix(rhs, "append(r.diagnostics, diags.Diagnostic{"):
				d := rhs
				for _, need := range []string{"Line: r.lineno", "FirstColumn: comment.Offset + 1", "LastColumn: len(r.buf) - 1"} {
					if !strings.Contains(d, need) {
						fatal("parseComments: diagnostic at %s lacks %q", pos(b), need)
					}
				}
				parts = append(parts, "diag")
			default:
				fatal("parseComments: unexpected assignment at %s: %s", pos(b), oneLine(src(b)))
			}
		}
		if len(parts) > 0 {
			sort.Strings(parts) // independent assignments: their order is irrelevant
			act = strings.Join(parts, ",")
		}
		for _, e := range cc.List {
			rows = append(rows, fmt.Sprintf("(%s, %s)", cs(selName(e)), cs(act)))
		}
	}
	o.def("gen_reader_switch", "list (string * string)", clist(rows))

	o.json["comment_strings"] = vars
	o.write(*outPath, *jsonPath)
}
