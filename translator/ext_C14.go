//go:build ext_C14

// translator extension for C14: the key-construction table of internal/promapi — for every API method of
// *Prometheus (Query, RangeQuery, Config, Flags, Metadata) the components of the partitionLocker key it takes
// and the components hashed into the cache key of the requests it enqueues — is regenerated from the Go AST of
// the current tree into coq/Gen/C14.v, together with two structural facts the transition system of
// Model/KeyLock.v relies on (the lock's wait is re-checked in a loop; processJob is only called by the pool
// workers).  Fails closed: an unrecognised construct is an error, never a guess.
package main

import (
	"flag"
	"fmt"
	"go/ast"
	"go/token"
	"path/filepath"
	"sort"
	"strings"
)

type comp struct {
	lit bool
	s   string
}

func (c comp) coq() string { return fmt.Sprintf("(%s, %s)", cbool(c.lit), cs(c.s)) }

func compsCoq(cs []comp) string {
	out := make([]string, len(cs))
	for i, c := range cs {
		out[i] = c.coq()
	}
	return clist(out)
}

type method struct {
	kind, name, qtype string
}

func main() {
	srcDir := flag.String("src", "/repo", "pint source tree")
	outPath := flag.String("out", "C14.v", "output .v")
	jsonPath := flag.String("json", "", "output json")
	flag.Parse()

	o := newOut("C14 key construction table")
	pkg := loadPkg(filepath.Join(*srcDir, "internal", "promapi"))
	consts := collectConsts(pkg).strs

	methods := []method{
		{"query", "Query", "instantQuery"}, {"range", "RangeQuery", "rangeQuery"}, {"config", "Config", "configQuery"},
		{"flags", "Flags", "flagsQuery"}, {"metadata", "Metadata", "metadataQuery"},
	}
	var rows []string
	jrows := map[string]any{}
	for _, m := range methods {
		fd := findFunc(pkg, "Prometheus", m.name)
		if fd == nil || fd.Body == nil {
			fatal("method Prometheus.%s not found", m.name)
		}
		sep, lock, fields := lockKeyOf(fd, m, consts)
		cache := cacheKeyOf(pkg, m, consts, fields)
		rows = append(rows, fmt.Sprintf("(%s, %s, %s, %s)", cs(m.kind), cs(sep), compsCoq(lock), compsCoq(cache)))
		jrows[m.kind] = map[string]any{"sep": sep, "lock": fmt.Sprint(lock), "cache": fmt.Sprint(cache)}
	}
	o.b.WriteString("(* (kind, separator of the lock key's parts, lock key parts, hashed cache key parts); a part is (true, literal) or (false, variable) *)\n")
	o.def("key_table", "list (string * string * list (bool * string) * list (bool * string))", clist(rows))
	o.json["key_table"] = jrows

	// ---- partitionLocker.lock: every Wait() sits inside a for statement (the condition is re-checked after a wake-up)
	lk := findFunc(pkg, "partitionLocker", "lock")
	if lk == nil || lk.Body == nil {
		fatal("partitionLocker.lock not found")
	}
	waits, inLoop := 0, 0
	var walk func(n ast.Node, loops int)
	walk = func(n ast.Node, loops int) {
		ast.Inspect(n, func(x ast.Node) bool {
			switch v := x.(type) {
			case *ast.ForStmt:
				if v != n {
					walk(v, loops+1)
					return false
				}
			case *ast.RangeStmt:
				if v != n {
					walk(v, loops+1)
					return false
				}
			case *ast.CallExpr:
				if se, ok := v.Fun.(*ast.SelectorExpr); ok && se.Sel.Name == "Wait" {
					waits++
					if loops > 0 {
						inLoop++
					}
				}
			}
			return true
		})
	}
	walk(lk.Body, 0)
	if waits == 0 {
		fatal("partitionLocker.lock: no Wait() call found (unknown locking scheme)")
	}
	o.def("lock_wait_rechecked_in_loop", "bool", cbool(waits == inLoop))

	// ---- who calls processJob (the only place a request is run)
	var callers []string
	for _, n := range pkg.names {
		for _, d := range pkg.files[n].Decls {
			fd, ok := d.(*ast.FuncDecl)
			if !ok || fd.Body == nil {
				continue
			}
			found := false
			ast.Inspect(fd.Body, func(x ast.Node) bool {
				if ce, ok := x.(*ast.CallExpr); ok {
					if id, ok := ce.Fun.(*ast.Ident); ok && id.Name == "processJob" {
						found = true
					}
				}
				return true
			})
			if found {
				callers = append(callers, fd.Name.Name)
			}
		}
	}
	sort.Strings(callers)
	o.def("process_job_callers", "list string", cstrs(callers))
	// ---- queryCache.get / set / gc are ONE critical section each: the body starts with  c.mu.Lock(); defer c.mu.Unlock()
	// and never touches the mutex again (what makes ACheck / AEnd's cache.set / AGc atomic actions of the transition system)
	var crit []string
	for _, name := range []string{"gc", "get", "set"} {
		fd := findFunc(pkg, "queryCache", name)
		if fd == nil || fd.Body == nil {
			fatal("queryCache.%s not found", name)
		}
		recv := ""
		if fd.Recv != nil && len(fd.Recv.List) == 1 && len(fd.Recv.List[0].Names) == 1 {
			recv = fd.Recv.List[0].Names[0].Name
		}
		lockSrc, unlockSrc := recv+".mu.Lock()", recv+".mu.Unlock()"
		single := len(fd.Body.List) >= 2
		if single {
			es, ok := fd.Body.List[0].(*ast.ExprStmt)
			single = ok && src(es.X) == lockSrc
		}
		if single {
			ds, ok := fd.Body.List[1].(*ast.DeferStmt)
			single = ok && src(ds.Call) == unlockSrc
		}
		muCalls := 0
		ast.Inspect(fd.Body, func(x ast.Node) bool {
			if ce, ok := x.(*ast.CallExpr); ok && strings.HasPrefix(src(ce.Fun), recv+".mu.") {
				muCalls++
			}
			return true
		})
		if muCalls == 0 {
			fatal("queryCache.%s: no use of the cache mutex found (unknown locking scheme)", name)
		}
		crit = append(crit, fmt.Sprintf("(%s, %s)", cs(name), cbool(single && muCalls == 2)))
	}
	o.def("cache_single_critical_section", "list (string * bool)", clist(crit))
	// ... and which functions start that caller as a goroutine per worker (StartWorkers: `go queryWorker(...)` inside a counted loop)
	o.write(*outPath, *jsonPath)
}

// lockKeyOf finds `prom.locker.lock(X)` / `defer prom.locker.unlock(X)` in the method and resolves X into parts.
// It also returns the binding field -> variable of the query literal the method enqueues.
func lockKeyOf(fd *ast.FuncDecl, m method, consts map[string]string) (string, []comp, map[string]string) {
	// parameters, with canonical names that survive a renaming: the RangeQueryTimes parameter is "params", a string
	// parameter is called after the field of the query literal it is stored in (set below), else "param:<name>"
	params := map[string]bool{}
	canon := map[string]string{}
	for _, f := range fd.Type.Params.List {
		for _, n := range f.Names {
			params[n.Name] = true
			canon[n.Name] = "param:" + n.Name
			if src(f.Type) == "RangeQueryTimes" {
				canon[n.Name] = "params"
			}
		}
	}
	// locals of the form  x := params.M()
	aliasOf := map[string]string{}
	locals := map[string]string{}
	assigns := map[string][]ast.Expr{}
	ast.Inspect(fd.Body, func(x ast.Node) bool {
		as, ok := x.(*ast.AssignStmt)
		if !ok || len(as.Lhs) != 1 || len(as.Rhs) != 1 {
			return true
		}
		id, ok := as.Lhs[0].(*ast.Ident)
		if !ok {
			return true
		}
		assigns[id.Name] = append(assigns[id.Name], as.Rhs[0])
		return true
	})
	// local aliases of parameters:  x := <param>  (assigned once) stands for the parameter
	for changed := true; changed; {
		changed = false
		for name, rhs := range assigns {
			if len(rhs) != 1 || params[name] {
				continue
			}
			if id, ok := rhs[0].(*ast.Ident); ok && params[id.Name] {
				params[name] = true
				canon[name] = canon[id.Name]
				aliasOf[name] = id.Name
				changed = true
			}
		}
	}
	for name, rhs := range assigns {
		if len(rhs) != 1 {
			continue
		}
		if ce, ok := rhs[0].(*ast.CallExpr); ok && len(ce.Args) == 0 {
			if se, ok := ce.Fun.(*ast.SelectorExpr); ok {
				if id, ok := se.X.(*ast.Ident); ok && params[id.Name] {
					locals[name] = canon[id.Name] + "." + se.Sel.Name + "()"
				}
			}
		}
	}
	// the query literal the method enqueues: field -> variable
	fields := map[string]string{}
	nlit := 0
	ast.Inspect(fd.Body, func(x ast.Node) bool {
		cl, ok := x.(*ast.CompositeLit)
		if !ok || cl.Type == nil {
			return true
		}
		tn := src(cl.Type)
		if strings.HasSuffix(tn, "Query") && tn != m.qtype && tn != "queryRequest" && (tn == "instantQuery" || tn == "rangeQuery" || tn == "configQuery" || tn == "flagsQuery" || tn == "metadataQuery") {
			fatal("Prometheus.%s enqueues a %s (expected %s) at %s", m.name, tn, m.qtype, pos(cl))
		}
		if tn != m.qtype {
			return true
		}
		nlit++
		for _, el := range cl.Elts {
			kv, ok := el.(*ast.KeyValueExpr)
			if !ok {
				fatal("Prometheus.%s: positional %s literal at %s", m.name, tn, pos(cl))
			}
			k := src(kv.Key)
			switch k {
			case "expr", "metric":
				id, ok := kv.Value.(*ast.Ident)
				if !ok || !params[id.Name] {
					fatal("Prometheus.%s: field %s of %s is %s, not a parameter of the method", m.name, k, tn, src(kv.Value))
				}
				fields[k] = k
				root := id.Name
				for aliasOf[root] != "" {
					root = aliasOf[root]
				}
				for name := range params {
					r := name
					for aliasOf[r] != "" {
						r = aliasOf[r]
					}
					if r == root {
						canon[name] = k
					}
				}
			case "r":
				rl, ok := kv.Value.(*ast.CompositeLit)
				if !ok || src(rl.Type) != "v1.Range" {
					fatal("Prometheus.%s: field r of %s is not a v1.Range literal at %s", m.name, tn, pos(kv))
				}
				for _, re := range rl.Elts {
					rkv, ok := re.(*ast.KeyValueExpr)
					if !ok {
						fatal("Prometheus.%s: positional v1.Range literal at %s", m.name, pos(rl))
					}
					switch src(rkv.Key) {
					case "Start", "End":
						se, ok := rkv.Value.(*ast.SelectorExpr)
						if !ok || se.Sel.Name != src(rkv.Key) {
							fatal("Prometheus.%s: v1.Range.%s is %s, expected <slice>.%s", m.name, src(rkv.Key), src(rkv.Value), src(rkv.Key))
						}
						fields["r."+src(rkv.Key)] = "slice"
					case "Step":
						id, ok := rkv.Value.(*ast.Ident)
						if !ok || locals[id.Name] == "" {
							fatal("Prometheus.%s: v1.Range.Step is %s, expected a local defined from the parameters", m.name, src(rkv.Value))
						}
						fields["r.Step"] = locals[id.Name]
					default:
						fatal("Prometheus.%s: unexpected v1.Range field %s", m.name, src(rkv.Key))
					}
				}
			}
		}
		return true
	})
	if nlit != 1 {
		fatal("Prometheus.%s: expected exactly one %s literal, found %d", m.name, m.qtype, nlit)
	}
	var lockArgs, unlockArgs []ast.Expr
	ast.Inspect(fd.Body, func(x ast.Node) bool {
		ce, ok := x.(*ast.CallExpr)
		if !ok {
			return true
		}
		switch src(ce.Fun) {
		case "prom.locker.lock":
			lockArgs = append(lockArgs, ce.Args...)
		case "prom.locker.unlock":
			unlockArgs = append(unlockArgs, ce.Args...)
		}
		return true
	})
	if len(lockArgs) != 1 || len(unlockArgs) != 1 {
		fatal("Prometheus.%s: expected exactly one prom.locker.lock and one prom.locker.unlock call, found %d / %d", m.name, len(lockArgs), len(unlockArgs))
	}
	if src(lockArgs[0]) != src(unlockArgs[0]) {
		fatal("Prometheus.%s: locks %s but unlocks %s", m.name, src(lockArgs[0]), src(unlockArgs[0]))
	}
	keyExpr := lockArgs[0]
	if id, ok := keyExpr.(*ast.Ident); ok {
		if _, isConst := consts[id.Name]; !isConst {
			rhs := assigns[id.Name]
			if len(rhs) != 1 {
				fatal("Prometheus.%s: lock key %s is assigned %d times", m.name, id.Name, len(rhs))
			}
			keyExpr = rhs[0]
		}
	}
	part := func(e ast.Expr) comp {
		switch v := e.(type) {
		case *ast.BasicLit:
			if v.Kind == token.STRING {
				return comp{true, strLit(v)}
			}
		case *ast.Ident:
			if c, ok := consts[v.Name]; ok {
				return comp{true, c}
			}
			if params[v.Name] {
				return comp{false, canon[v.Name]}
			}
		case *ast.CallExpr:
			f := src(v.Fun)
			if f == "output.HumanizeDuration" && len(v.Args) == 1 {
				if id, ok := v.Args[0].(*ast.Ident); ok {
					if def, ok := locals[id.Name]; ok {
						return comp{false, "humanize(" + def + ")"}
					}
				}
			}
			if se, ok := v.Fun.(*ast.SelectorExpr); ok && len(v.Args) == 0 {
				if id, ok := se.X.(*ast.Ident); ok && params[id.Name] {
					return comp{false, canon[id.Name] + "." + se.Sel.Name + "()"}
				}
			}
		}
		fatal("Prometheus.%s: unrecognised lock key part %s at %s", m.name, src(e), pos(e))
		return comp{}
	}
	var sep string
	var lock []comp
	switch v := keyExpr.(type) {
	case *ast.BinaryExpr:
		var flat func(e ast.Expr)
		flat = func(e ast.Expr) {
			if be, ok := e.(*ast.BinaryExpr); ok && be.Op == token.ADD {
				flat(be.X)
				flat(be.Y)
				return
			}
			lock = append(lock, part(e))
		}
		flat(v)
	case *ast.CallExpr:
		if src(v.Fun) != "fmt.Sprintf" || len(v.Args) < 2 {
			fatal("Prometheus.%s: unrecognised lock key expression %s at %s", m.name, src(v), pos(v))
		}
		format := strLit(v.Args[0])
		pieces := strings.Split(format, "%s")
		if len(pieces) != len(v.Args) || pieces[0] != "" || pieces[len(pieces)-1] != "" {
			fatal("Prometheus.%s: lock key format %q is not a list of %%s verbs", m.name, format)
		}
		for i := 1; i < len(pieces)-1; i++ {
			if i > 1 && pieces[i] != sep {
				fatal("Prometheus.%s: lock key format %q uses different separators", m.name, format)
			}
			sep = pieces[i]
			if strings.Contains(sep, "%") {
				fatal("Prometheus.%s: lock key format %q has verbs other than %%s", m.name, format)
			}
		}
		for _, a := range v.Args[1:] {
			lock = append(lock, part(a))
		}
	default:
		lock = append(lock, part(keyExpr))
	}

	return sep, lock, fields
}

// cacheKeyOf reads  func (q T) CacheKey() uint64 { return hash(...) }  and T.Endpoint().
func cacheKeyOf(pkg *pkgFiles, m method, consts map[string]string, fields map[string]string) []comp {
	ep := findFunc(pkg, m.qtype, "Endpoint")
	if ep == nil || ep.Body == nil || len(ep.Body.List) != 1 {
		fatal("%s.Endpoint: not a single return", m.qtype)
	}
	ret, ok := ep.Body.List[0].(*ast.ReturnStmt)
	if !ok || len(ret.Results) != 1 {
		fatal("%s.Endpoint: not a single return", m.qtype)
	}
	epConst, ok := consts[selName(ret.Results[0])]
	if !ok {
		fatal("%s.Endpoint returns %s, not a string constant", m.qtype, src(ret.Results[0]))
	}
	ck := findFunc(pkg, m.qtype, "CacheKey")
	if ck == nil || ck.Body == nil || len(ck.Body.List) < 1 {
		fatal("%s.CacheKey: no body", m.qtype)
	}
	// statements before the final return may only define locals from the slice bounds and the step
	// (x := e;  if c { x = e }): for each local, the fields of q it depends on
	localDeps := map[string]map[string]bool{}
	qSelectors := func(n ast.Node) []string {
		var out []string
		ast.Inspect(n, func(x ast.Node) bool {
			if se, ok := x.(*ast.SelectorExpr); ok {
				t := src(se)
				if strings.HasPrefix(t, "q.") {
					if strings.HasPrefix(t, "q.r.Start") || strings.HasPrefix(t, "q.r.End") || strings.HasPrefix(t, "q.r.Step") {
						out = append(out, t[:len("q.r.")+strings.IndexAny(t[len("q.r."):]+".", ".")])
						return false
					}
					if t == "q.r" {
						return true
					}
					fatal("%s.CacheKey: a local depends on %s (only the slice bounds and the step may be pre-processed)", m.qtype, t)
				}
			}
			return true
		})
		return out
	}
	depsOf := func(e ast.Node, self string) []string {
		out := qSelectors(e)
		ast.Inspect(e, func(x ast.Node) bool { // a value built from other locals inherits their dependencies
			if o, ok := x.(*ast.Ident); ok && o.Name != self {
				for d := range localDeps[o.Name] {
					out = append(out, d)
				}
			}
			return true
		})
		return out
	}
	var defLocal func(st ast.Stmt, extra []string)
	defLocal = func(st ast.Stmt, extra []string) {
		switch v := st.(type) {
		case *ast.AssignStmt:
			if len(v.Lhs) != 1 || len(v.Rhs) != 1 {
				fatal("%s.CacheKey: unrecognised statement %s", m.qtype, src(v))
			}
			id, ok := v.Lhs[0].(*ast.Ident)
			if !ok {
				fatal("%s.CacheKey: unrecognised statement %s", m.qtype, src(v))
			}
			if localDeps[id.Name] == nil {
				localDeps[id.Name] = map[string]bool{}
			}
			for _, d := range append(depsOf(v.Rhs[0], id.Name), extra...) {
				localDeps[id.Name][d] = true
			}
		case *ast.DeclStmt: // var x T
			gd, ok := v.Decl.(*ast.GenDecl)
			if !ok || gd.Tok != token.VAR {
				fatal("%s.CacheKey: unrecognised declaration at %s", m.qtype, pos(v))
			}
			for _, sp := range gd.Specs {
				vs := sp.(*ast.ValueSpec)
				for i, n := range vs.Names {
					if localDeps[n.Name] == nil {
						localDeps[n.Name] = map[string]bool{}
					}
					if i < len(vs.Values) {
						for _, d := range depsOf(vs.Values[i], n.Name) {
							localDeps[n.Name][d] = true
						}
					}
				}
			}
		case *ast.IfStmt:
			if v.Init != nil || v.Else != nil {
				fatal("%s.CacheKey: unrecognised if statement at %s", m.qtype, pos(v))
			}
			cond := depsOf(v.Cond, "")
			for _, b := range v.Body.List {
				defLocal(b, cond)
			}
		default:
			fatal("%s.CacheKey: unrecognised statement at %s", m.qtype, pos(st))
		}
	}
	for _, st := range ck.Body.List[:len(ck.Body.List)-1] {
		defLocal(st, nil)
	}
	ret, ok = ck.Body.List[len(ck.Body.List)-1].(*ast.ReturnStmt)
	if !ok || len(ret.Results) != 1 {
		fatal("%s.CacheKey: does not end in a single return", m.qtype)
	}
	call, ok := ret.Results[0].(*ast.CallExpr)
	if !ok || src(call.Fun) != "hash" {
		fatal("%s.CacheKey returns %s, expected hash(...)", m.qtype, src(ret.Results[0]))
	}
	field := func(name string) string {
		v, ok := fields[name]
		if !ok {
			fatal("%s.CacheKey hashes q.%s, which Prometheus.%s does not set from its parameters", m.qtype, name, m.name)
		}
		return v
	}
	var out []comp
	for _, a := range call.Args {
		s := src(a)
		switch s {
		case "q.prom.unsafeURI":
			out = append(out, comp{false, "uri"})
		case "q.Endpoint()":
			out = append(out, comp{true, epConst})
		case "q.expr":
			out = append(out, comp{false, field("expr")})
		case "q.metric":
			out = append(out, comp{false, field("metric")})
		case "formatTime(q.r.Start)": // the representation sent on the wire
			field("r.Start")
			out = append(out, comp{false, "slice_start"})
		case "formatTime(q.r.End)":
			field("r.End")
			out = append(out, comp{false, "slice_end"})
		case "q.r.Start.Format(time.RFC3339)":
			field("r.Start")
			out = append(out, comp{false, "slice_start"})
		case "q.r.End.Round(q.r.Step).Format(time.RFC3339)":
			field("r.End")
			out = append(out, comp{false, "slice_end"})
		case "output.HumanizeDuration(q.r.Step)":
			out = append(out, comp{false, "humanize(" + field("r.Step") + ")"})
		default:
			// <local>.Format(time.RFC3339[Nano]) where the local is computed from the slice end (and start / step): the end
			// component of the slice - an opaque, slice-dependent value
			if ce, ok := a.(*ast.CallExpr); ok && src(ce.Fun) == "strconv.FormatInt" && len(ce.Args) == 2 {
				// the decimal rendering of an integer local computed from the slice end (and start / step), e.g. the number of grid points
				if id, ok := ce.Args[0].(*ast.Ident); ok && localDeps[id.Name]["q.r.End"] {
					field("r.End")
					if localDeps[id.Name]["q.r.Start"] {
						field("r.Start")
					}
					if localDeps[id.Name]["q.r.Step"] {
						field("r.Step")
					}
					out = append(out, comp{false, "slice_end"})
					continue
				}
			}
			if ce, ok := a.(*ast.CallExpr); ok && len(ce.Args) == 1 && strings.HasPrefix(src(ce.Args[0]), "time.RFC3339") {
				if se, ok := ce.Fun.(*ast.SelectorExpr); ok && se.Sel.Name == "Format" {
					if id, ok := se.X.(*ast.Ident); ok && localDeps[id.Name]["q.r.End"] {
						field("r.End")
						if localDeps[id.Name]["q.r.Start"] {
							field("r.Start")
						}
						if localDeps[id.Name]["q.r.Step"] {
							field("r.Step")
						}
						out = append(out, comp{false, "slice_end"})
						continue
					}
				}
			}
			fatal("%s.CacheKey: unrecognised hashed value %s at %s", m.qtype, s, pos(a))
		}
	}
	return out
}
