//go:build ext_C07

// translator extension for C07: which checks read the comments of a rule?  The lifting theorems of C07
// (C07_problems_exact_shift ...) assume that the checks that stay selected are insensitive to the added comment;
// by inspection the only reader of rule comments in internal/checks is promql/series.  This extension re-derives
// that fact from the Go AST of the current tree on every run: every non-test file of internal/checks that selects a
// field named Comments or calls comments.Only is listed in coq/Gen/C07.v.  Fails closed on parse errors.
package main

import (
	"flag"
	"go/ast"
	"path/filepath"
	"sort"
)

func main() {
	srcDir := flag.String("src", "/repo", "pint source tree")
	outPath := flag.String("out", "C07.v", "output .v")
	jsonPath := flag.String("json", "", "output json")
	flag.Parse()

	o := newOut("C07 readers of rule comments in internal/checks")
	pkg := loadPkg(filepath.Join(*srcDir, "internal", "checks"))
	readers := map[string]bool{}
	funcs := map[string]bool{}
	for _, fn := range pkg.names {
		for _, d := range pkg.files[fn].Decls {
			fd, ok := d.(*ast.FuncDecl)
			if !ok || fd.Body == nil {
				continue
			}
			ast.Inspect(fd.Body, func(n ast.Node) bool {
				switch x := n.(type) {
				case *ast.SelectorExpr:
					if x.Sel.Name == "Comments" {
						readers[fn] = true
						funcs[fn+":"+fd.Name.Name] = true
					}
					if id, ok := x.X.(*ast.Ident); ok && id.Name == "comments" && x.Sel.Name == "Only" {
						readers[fn] = true
						funcs[fn+":"+fd.Name.Name] = true
					}
				}
				return true
			})
		}
	}
	var files, fs []string
	for f := range readers {
		files = append(files, f)
	}
	for f := range funcs {
		fs = append(fs, f)
	}
	sort.Strings(files)
	sort.Strings(fs)
	if len(pkg.names) < 10 {
		fatal("internal/checks has only %d files: wrong source tree?", len(pkg.names))
	}
	o.def("comment_reading_files", "list string", cstrs(files))
	o.def("comment_reading_funcs", "list string", cstrs(fs))
	o.json["comment_reading_files"] = files
	o.json["comment_reading_funcs"] = fs
	o.write(*outPath, *jsonPath)
}
